// trans: a tiny Go -> Lean translator for the straight-line integer / bit code of
// gophersat's solver package.  `go run . -repo <dir> -out <file>` type-checks <dir>/solver
// (go/types, source importer, offline), finds the functions of `targets` BY NAME and writes one
// Lean definition over fixed-width bit-vectors per function (GS/Generated/IntCode.lean).
// Anything outside the supported subset is a loud failure (exit 1, function + construct named).
package main

import (
	"bytes"
	"crypto/sha256"
	"flag"
	"fmt"
	"go/ast"
	"go/build/constraint"
	"go/constant"
	"go/importer"
	"go/parser"
	"go/printer"
	"go/token"
	"go/types"
	"math/big"
	"os"
	"path/filepath"
	"sort"
	"strings"
)

// target: one function to translate.  recv is the receiver's type name ("" for a function),
// inst the Go type a generic function's single type parameter is instantiated with.
type target struct{ file, recv, name, lean, inst string }

var constFile = "clause.go"
var constNames = []string{"learnedMask", "lockedMask", "bothMasks"}

// the only struct field the translated methods may read / write, as a function argument / result
const recvStruct, recvField = "Clause", "lbdValue"

var targets = []target{
	{"types.go", "", "IntToLit", "IntToLit", ""}, {"types.go", "", "IntToVar", "IntToVar", ""},
	{"types.go", "Var", "Lit", "Var_Lit", ""}, {"types.go", "Var", "Int", "Var_Int", ""},
	{"types.go", "Var", "SignedLit", "Var_SignedLit", ""}, {"types.go", "Lit", "Var", "Lit_Var", ""},
	{"types.go", "Lit", "Int", "Lit_Int", ""}, {"types.go", "Lit", "IsPositive", "Lit_IsPositive", ""},
	{"types.go", "Lit", "Negation", "Lit_Negation", ""},
	{"clause.go", "Clause", "Learned", "Clause_Learned", ""}, {"clause.go", "Clause", "Cardinality", "Clause_Cardinality", ""},
	{"clause.go", "Clause", "lock", "Clause_lock", ""}, {"clause.go", "Clause", "unlock", "Clause_unlock", ""},
	{"clause.go", "Clause", "lbd", "Clause_lbd", ""}, {"clause.go", "Clause", "setLbd", "Clause_setLbd", ""},
	{"clause.go", "Clause", "incLbd", "Clause_incLbd", ""}, {"clause.go", "Clause", "isLocked", "Clause_isLocked", ""},
	{"watcher.go", "", "lvlToSignedLvl", "lvlToSignedLvl", ""},
	{"queue.go", "", "left", "left", ""}, {"queue.go", "", "right", "right", ""}, {"queue.go", "", "parent", "parent", ""},
	{"solver.go", "", "abs", "abs_decLevel", "decLevel"}, {"solver.go", "", "abs", "abs_int", "int"},
	{"solver.go", "", "min", "min_int", "int"},
}

// ty: the Lean-side type of a Go expression: Bool, or BitVec w read as signed / unsigned.
type ty struct {
	isBool bool
	w      int
	signed bool
}

func (t ty) lean() string {
	if t.isBool {
		return "Bool"
	}
	return fmt.Sprintf("BitVec %d", t.w)
}

type tr struct {
	fset  *token.FileSet
	info  *types.Info
	pkg   *types.Package
	decls map[string]*ast.FuncDecl // "recv.name" -> declaration
	cur   string                   // function being translated (for messages)
	env   map[types.Object]string  // parameters and locals -> Lean names
	recv  types.Object             // pointer receiver of a Clause method (nil otherwise)
	subst map[string]types.Type    // type parameter name -> instance
}

type transErr string

func (t *tr) fail(n ast.Node, format string, a ...interface{}) {
	pos := ""
	if n != nil {
		p := t.fset.Position(n.Pos())
		pos = fmt.Sprintf("%s:%d: ", filepath.Base(p.Filename), p.Line)
	}
	panic(transErr(fmt.Sprintf("trans: function %s: %sunsupported: %s", t.cur, pos, fmt.Sprintf(format, a...))))
}

func (t *tr) src(n ast.Node) string {
	var b bytes.Buffer
	printer.Fprint(&b, t.fset, n)
	return b.String()
}

func (t *tr) typeOf(n ast.Node, gt types.Type) ty {
	if tp, ok := gt.(*types.TypeParam); ok {
		if s, ok := t.subst[tp.Obj().Name()]; ok {
			gt = s
		}
	}
	if b, ok := gt.Underlying().(*types.Basic); ok {
		switch b.Kind() {
		case types.Bool, types.UntypedBool:
			return ty{isBool: true}
		case types.Int32:
			return ty{w: 32, signed: true}
		case types.Uint32:
			return ty{w: 32}
		case types.Int, types.Int64:
			return ty{w: 64, signed: true}
		case types.Uint, types.Uint64:
			return ty{w: 64}
		}
	}
	t.fail(n, "type %s (only bool, int32, uint32, int, uint, int64, uint64 and types defined on them)", gt)
	return ty{}
}

func (t *tr) lit(n ast.Node, v constant.Value, k ty) string {
	if k.isBool {
		if v.Kind() != constant.Bool {
			t.fail(n, "constant %s of type Bool", v)
		}
		return fmt.Sprint(constant.BoolVal(v))
	}
	iv := constant.ToInt(v)
	if iv.Kind() != constant.Int {
		t.fail(n, "non-integer constant %s", v)
	}
	x, _ := new(big.Int).SetString(iv.ExactString(), 10)
	if x.Sign() < 0 { // two's complement
		x.Add(x, new(big.Int).Lsh(big.NewInt(1), uint(k.w)))
	}
	if x.Sign() < 0 || x.BitLen() > k.w {
		t.fail(n, "constant %s does not fit %d bits", v, k.w)
	}
	return fmt.Sprintf("%s#%d", x.String(), k.w)
}

// natConst: a constant non-negative operand (shift counts), as a Lean Nat literal.
func (t *tr) natConst(e ast.Expr, what string) string {
	v := t.info.Types[e].Value
	if v == nil {
		t.fail(e, "non-constant %s `%s`", what, t.src(e))
	}
	iv := constant.ToInt(v)
	if iv.Kind() != constant.Int || constant.Sign(iv) < 0 {
		t.fail(e, "%s `%s` is not a non-negative integer constant", what, t.src(e))
	}
	return iv.ExactString()
}

func (t *tr) lookupTarget(n ast.Node, recv, name string) target {
	for _, g := range targets {
		if g.recv == recv && g.name == name && g.inst == "" {
			return g
		}
	}
	t.fail(n, "call of %s.%s, which is not a translated (non-generic) function", recv, name)
	return target{}
}

func recvName(f *types.Func) string {
	r := f.Type().(*types.Signature).Recv()
	if r == nil {
		return ""
	}
	rt := r.Type()
	if p, ok := rt.(*types.Pointer); ok {
		rt = p.Elem()
	}
	if n, ok := rt.(*types.Named); ok {
		return n.Obj().Name()
	}
	return "?"
}

func (t *tr) isRecv(e ast.Expr) bool {
	id, ok := e.(*ast.Ident)
	return ok && t.recv != nil && t.info.Uses[id] == t.recv
}

func (t *tr) expr(e ast.Expr) (string, ty) {
	tv, ok := t.info.Types[e]
	if !ok {
		t.fail(e, "untyped expression `%s`", t.src(e))
	}
	switch x := e.(type) {
	case *ast.ParenExpr:
		return t.expr(x.X)
	case *ast.BasicLit:
		k := t.typeOf(e, tv.Type)
		return t.lit(e, tv.Value, k), k
	case *ast.Ident:
		obj := t.info.Uses[x]
		if c, ok := obj.(*types.Const); ok {
			k := t.typeOf(e, tv.Type)
			if c.Parent() == types.Universe { // true, false
				return t.lit(e, tv.Value, k), k
			}
			for _, cn := range constNames {
				if c.Parent() == t.pkg.Scope() && c.Name() == cn {
					return cn, k
				}
			}
			t.fail(e, "constant %s (not in the translated constant list)", x.Name)
		}
		if n, ok := t.env[obj]; ok {
			return n, t.typeOf(e, tv.Type)
		}
		t.fail(e, "identifier `%s` (not a parameter, local binding or listed constant)", x.Name)
	case *ast.SelectorExpr:
		if t.isRecv(x.X) && x.Sel.Name == recvField {
			return "f_" + recvField, t.typeOf(e, tv.Type)
		}
		t.fail(e, "selector `%s` (only <receiver>.%s of %s)", t.src(e), recvField, recvStruct)
	case *ast.UnaryExpr:
		a, k := t.expr(x.X)
		switch {
		case x.Op == token.SUB && !k.isBool:
			return "(-" + a + ")", k
		case x.Op == token.XOR && !k.isBool:
			return "(~~~" + a + ")", k
		case x.Op == token.ADD && !k.isBool:
			return a, k
		case x.Op == token.NOT && k.isBool:
			return "(!" + a + ")", k
		}
		t.fail(e, "unary operator %s", x.Op)
	case *ast.BinaryExpr:
		return t.binary(x)
	case *ast.CallExpr:
		return t.call(x, tv)
	}
	t.fail(e, "expression form %T `%s`", e, t.src(e))
	return "", ty{}
}

func (t *tr) binary(x *ast.BinaryExpr) (string, ty) {
	a, ka := t.expr(x.X)
	if x.Op == token.SHL || x.Op == token.SHR {
		if ka.isBool {
			t.fail(x, "shift of a bool")
		}
		n := t.natConst(x.Y, "shift count")
		switch {
		case x.Op == token.SHL:
			return fmt.Sprintf("(%s <<< %s)", a, n), ka
		case ka.signed:
			return fmt.Sprintf("(BitVec.sshiftRight %s %s)", a, n), ka
		}
		return fmt.Sprintf("(%s >>> %s)", a, n), ka
	}
	b, kb := t.expr(x.Y)
	if ka != kb {
		t.fail(x, "operands of different types in `%s`", t.src(x))
	}
	infix := func(op string, k ty) (string, ty) { return fmt.Sprintf("(%s %s %s)", a, op, b), k }
	prefix := func(f string, k ty) (string, ty) { return fmt.Sprintf("(%s %s %s)", f, a, b), k }
	boolT := ty{isBool: true}
	if ka.isBool {
		switch x.Op {
		case token.LAND:
			return infix("&&", boolT)
		case token.LOR:
			return infix("||", boolT)
		case token.EQL:
			return infix("==", boolT)
		case token.NEQ:
			return infix("!=", boolT)
		}
		t.fail(x, "operator %s on bool", x.Op)
	}
	switch x.Op {
	case token.ADD:
		return infix("+", ka)
	case token.SUB:
		return infix("-", ka)
	case token.MUL:
		return infix("*", ka)
	case token.AND:
		return infix("&&&", ka)
	case token.OR:
		return infix("|||", ka)
	case token.XOR:
		return infix("^^^", ka)
	case token.AND_NOT:
		return fmt.Sprintf("(%s &&& ~~~%s)", a, b), ka
	case token.QUO, token.REM:
		// Go panics on a zero divisor; only constant non-zero divisors are in the subset
		if v := t.info.Types[x.Y].Value; v == nil || constant.Sign(constant.ToInt(v)) == 0 {
			t.fail(x, "division by a non-constant or zero divisor `%s`", t.src(x.Y))
		}
		switch {
		case x.Op == token.QUO && ka.signed:
			return prefix("BitVec.sdiv", ka)
		case x.Op == token.QUO:
			return infix("/", ka)
		case ka.signed:
			return prefix("BitVec.srem", ka)
		}
		return infix("%", ka)
	case token.EQL:
		return infix("==", boolT)
	case token.NEQ:
		return infix("!=", boolT)
	case token.LSS, token.LEQ, token.GTR, token.GEQ:
		if x.Op == token.GTR || x.Op == token.GEQ { // a > b is b < a
			a, b = b, a
		}
		f := map[bool]string{true: "BitVec.slt", false: "BitVec.ult"}[ka.signed]
		if x.Op == token.LEQ || x.Op == token.GEQ {
			f = map[bool]string{true: "BitVec.sle", false: "BitVec.ule"}[ka.signed]
		}
		return prefix(f, boolT)
	}
	t.fail(x, "binary operator %s", x.Op)
	return "", ty{}
}

func (t *tr) call(x *ast.CallExpr, tv types.TypeAndValue) (string, ty) {
	if x.Ellipsis.IsValid() {
		t.fail(x, "variadic call")
	}
	if ftv := t.info.Types[x.Fun]; ftv.IsType() { // conversion T(e)
		if len(x.Args) != 1 {
			t.fail(x, "conversion with %d arguments", len(x.Args))
		}
		dst := t.typeOf(x, tv.Type)
		if v := t.info.Types[x.Args[0]].Value; v != nil && t.info.Types[x.Args[0]].Type.Underlying().(*types.Basic).Info()&types.IsUntyped != 0 {
			return t.lit(x, tv.Value, dst), dst // T(untyped constant)
		}
		a, src := t.expr(x.Args[0])
		switch {
		case src.isBool || dst.isBool:
			t.fail(x, "conversion involving bool")
		case src.w == dst.w: // same width: the bits are kept
			return a, dst
		case src.w > dst.w || !src.signed: // truncation, or zero extension of an unsigned value
			return fmt.Sprintf("(BitVec.setWidth %d %s)", dst.w, a), dst
		}
		return fmt.Sprintf("(BitVec.signExtend %d %s)", dst.w, a), dst
	}
	var f *types.Func
	var args []string
	switch fn := x.Fun.(type) {
	case *ast.Ident:
		f, _ = t.info.Uses[fn].(*types.Func)
	case *ast.SelectorExpr:
		f, _ = t.info.Uses[fn.Sel].(*types.Func)
		if f != nil && recvName(f) == recvStruct { // method of the struct: the field goes in
			if !t.isRecv(fn.X) {
				t.fail(x, "method call on `%s` (only on the receiver)", t.src(fn.X))
			}
			args = append(args, "f_"+recvField)
		} else if f != nil {
			a, _ := t.expr(fn.X)
			args = append(args, a)
		}
	}
	if f == nil || f.Pkg() != t.pkg {
		t.fail(x, "call `%s`", t.src(x))
	}
	g := t.lookupTarget(x, recvName(f), f.Name())
	sig := f.Type().(*types.Signature)
	if sig.Results().Len() != 1 {
		t.fail(x, "call of %s in an expression: it has no single result", f.Name())
	}
	for _, a := range x.Args {
		s, _ := t.expr(a)
		args = append(args, s)
	}
	return "(" + g.lean + " " + strings.Join(args, " ") + ")", t.typeOf(x, sig.Results().At(0).Type())
}

// stmts: `x := e` bindings, `if c { … return }` chains, a final `return e`.
func (t *tr) stmts(list []ast.Stmt, at ast.Node, ind string) string {
	if len(list) == 0 {
		t.fail(at, "control reaches the end of a block without `return`")
	}
	switch s := list[0].(type) {
	case *ast.ReturnStmt:
		if len(s.Results) != 1 || len(list) != 1 {
			t.fail(s, "`return` with %d values or followed by statements", len(s.Results))
		}
		e, _ := t.expr(s.Results[0])
		return ind + e
	case *ast.AssignStmt:
		id, ok := s.Lhs[0].(*ast.Ident)
		if s.Tok != token.DEFINE || len(s.Lhs) != 1 || len(s.Rhs) != 1 || !ok || id.Name == "_" {
			t.fail(s, "statement `%s` (only a single `x := e` binding)", t.src(s))
		}
		e, k := t.expr(s.Rhs[0])
		name := "v_" + id.Name
		t.env[t.info.Defs[id]] = name
		return fmt.Sprintf("%slet %s : %s := %s\n%s", ind, name, k.lean(), e, t.stmts(list[1:], s, ind))
	case *ast.IfStmt:
		if s.Init != nil {
			t.fail(s, "`if` with an init statement")
		}
		c, k := t.expr(s.Cond)
		if !k.isBool {
			t.fail(s, "non-bool condition")
		}
		then := t.stmts(s.Body.List, s.Body, ind+"  ")
		var els string
		switch e := s.Else.(type) {
		case nil:
			els = t.stmts(list[1:], s, ind+"  ")
		case *ast.BlockStmt:
			if len(list) != 1 {
				t.fail(list[1], "statements after an if/else that returns on both sides")
			}
			els = t.stmts(e.List, e, ind+"  ")
		case *ast.IfStmt:
			if len(list) != 1 {
				t.fail(list[1], "statements after an if/else-if chain")
			}
			els = t.stmts([]ast.Stmt{e}, e, ind+"  ")
		}
		return fmt.Sprintf("%sif %s then\n%s\n%selse\n%s", ind, c, then, ind, els)
	}
	t.fail(list[0], "statement form %T `%s`", list[0], t.src(list[0]))
	return ""
}

// fieldUpdate: the body of a result-less method: exactly `c.f = e`, `c.f++` or `c.f--`.
func (t *tr) fieldUpdate(fd *ast.FuncDecl) (string, ty) {
	if len(fd.Body.List) != 1 {
		t.fail(fd.Body, "a method without result must be the single statement `c.%s = e` or `c.%s++`", recvField, recvField)
	}
	switch s := fd.Body.List[0].(type) {
	case *ast.AssignStmt:
		if s.Tok == token.ASSIGN && len(s.Lhs) == 1 && len(s.Rhs) == 1 {
			if sel, ok := s.Lhs[0].(*ast.SelectorExpr); ok && t.isRecv(sel.X) && sel.Sel.Name == recvField {
				e, k := t.expr(s.Rhs[0])
				return "  " + e, k
			}
		}
	case *ast.IncDecStmt:
		if sel, ok := s.X.(*ast.SelectorExpr); ok && t.isRecv(sel.X) && sel.Sel.Name == recvField {
			a, k := t.expr(s.X)
			op := map[token.Token]string{token.INC: "+", token.DEC: "-"}[s.Tok]
			return fmt.Sprintf("  (%s %s %s)", a, op, t.lit(s, constant.MakeInt64(1), k)), k
		}
	}
	t.fail(fd.Body.List[0], "statement `%s` in a method without result", t.src(fd.Body.List[0]))
	return "", ty{}
}

func comment(s string) string {
	return strings.ReplaceAll(strings.ReplaceAll(s, "/-", "/ -"), "-/", "- /")
}

func (t *tr) function(g target) string {
	t.cur = g.name
	if g.recv != "" {
		t.cur = g.recv + "." + g.name
	}
	fd := t.decls[g.recv+"."+g.name]
	if fd == nil || fd.Body == nil {
		t.fail(nil, "no declaration with a body found in %s", g.file)
	}
	if filepath.Base(t.fset.Position(fd.Pos()).Filename) != g.file {
		t.fail(fd, "declared in another file than %s", g.file)
	}
	t.env, t.recv, t.subst = map[types.Object]string{}, nil, map[string]types.Type{}
	var params []string
	if tp := fd.Type.TypeParams; tp != nil {
		if g.inst == "" || len(tp.List) != 1 || len(tp.List[0].Names) != 1 {
			t.fail(fd, "generic function without exactly one type parameter and a listed instance")
		}
		_, obj := t.pkg.Scope().LookupParent(g.inst, token.NoPos)
		if tn, ok := obj.(*types.TypeName); ok {
			t.subst[tp.List[0].Names[0].Name] = tn.Type()
		} else {
			t.fail(fd, "instance type %s not found", g.inst)
		}
	} else if g.inst != "" {
		t.fail(fd, "not generic, but an instance %s is listed", g.inst)
	}
	bind := func(fl *ast.FieldList, isRecv bool) {
		if fl == nil {
			return
		}
		for _, f := range fl.List {
			if len(f.Names) == 0 {
				t.fail(f, "unnamed parameter")
			}
			for _, id := range f.Names {
				obj := t.info.Defs[id]
				if p, ok := obj.Type().(*types.Pointer); ok && isRecv && recvName(t.info.Defs[fd.Name].(*types.Func)) == recvStruct && p.Elem().(*types.Named).Obj().Name() == recvStruct {
					t.recv = obj
					st := p.Elem().Underlying().(*types.Struct)
					for i := 0; i < st.NumFields(); i++ {
						if st.Field(i).Name() == recvField {
							params = append(params, fmt.Sprintf("(f_%s : %s)", recvField, t.typeOf(f, st.Field(i).Type()).lean()))
						}
					}
					continue
				}
				if id.Name == "_" {
					t.fail(f, "blank parameter")
				}
				t.env[obj] = "v_" + id.Name
				params = append(params, fmt.Sprintf("(v_%s : %s)", id.Name, t.typeOf(f, obj.Type()).lean()))
			}
		}
	}
	bind(fd.Recv, true)
	bind(fd.Type.Params, false)
	var body string
	var ret ty
	switch res := fd.Type.Results; {
	case res == nil || len(res.List) == 0:
		if t.recv == nil {
			t.fail(fd, "function without result")
		}
		body, ret = t.fieldUpdate(fd)
	case len(res.List) == 1 && len(res.List[0].Names) == 0:
		ret = t.typeOf(res.List[0], t.info.Types[res.List[0].Type].Type)
		body = t.stmts(fd.Body.List, fd.Body, "  ")
	default:
		t.fail(fd, "several or named results")
	}
	cp := *fd
	cp.Doc = nil
	text := t.src(&cp)
	inst := ""
	if g.inst != "" {
		inst = " instantiated at " + g.inst
	}
	sum := sha256.Sum256([]byte(text + inst))
	return fmt.Sprintf("/- %s, %s%s:\n%s\n-/\ndef %s %s : %s :=\n%s\ndef sourceHash_%s : String := \"%x\"\n",
		g.file, t.cur, inst, comment(text), g.lean, strings.Join(params, " "), ret.lean(), body, g.lean, sum[:8])
}

func skipFile(path string) bool { // files that are not compiled without the verif tag
	b, _ := os.ReadFile(path)
	for _, line := range strings.Split(string(b), "\n") {
		line = strings.TrimSpace(line)
		if strings.HasPrefix(line, "package ") {
			break
		}
		if constraint.IsGoBuild(line) {
			if ex, err := constraint.Parse(line); err == nil {
				return !ex.Eval(func(tag string) bool { return tag == "linux" || tag == "amd64" || tag == "gc" })
			}
		}
	}
	return false
}

func run(repo string) (out string, err error) {
	defer func() {
		if r := recover(); r != nil {
			if te, ok := r.(transErr); ok {
				err = fmt.Errorf("%s", string(te))
				return
			}
			panic(r)
		}
	}()
	dir := filepath.Join(repo, "solver")
	t := &tr{fset: token.NewFileSet(), decls: map[string]*ast.FuncDecl{}}
	names, _ := filepath.Glob(filepath.Join(dir, "*.go"))
	sort.Strings(names)
	var files []*ast.File
	for _, n := range names {
		if strings.HasSuffix(n, "_test.go") || skipFile(n) {
			continue
		}
		f, err := parser.ParseFile(t.fset, n, nil, parser.ParseComments)
		if err != nil {
			return "", err
		}
		files = append(files, f)
	}
	t.info = &types.Info{Types: map[ast.Expr]types.TypeAndValue{}, Defs: map[*ast.Ident]types.Object{}, Uses: map[*ast.Ident]types.Object{}}
	conf := types.Config{Importer: importer.ForCompiler(t.fset, "source", nil)}
	if t.pkg, err = conf.Check("solver", t.fset, files, t.info); err != nil {
		return "", fmt.Errorf("trans: type-checking %s: %v", dir, err)
	}
	for _, f := range files {
		for _, d := range f.Decls {
			if fd, ok := d.(*ast.FuncDecl); ok {
				t.decls[recvName(t.info.Defs[fd.Name].(*types.Func))+"."+fd.Name.Name] = fd
			}
		}
	}
	var b strings.Builder
	b.WriteString("/-! GENERATED by /verif/trans from the Go source of the solver package -- do not edit.\n" +
		"Go int32 / uint32 / int are `BitVec 32` / `BitVec 32` / `BitVec 64`; signedness selects the operation. -/\nnamespace GS.Gen.IntCode\n\n")
	for _, cn := range constNames {
		t.cur = "constant " + cn
		c, ok := t.pkg.Scope().Lookup(cn).(*types.Const)
		if !ok || filepath.Base(t.fset.Position(c.Pos()).Filename) != constFile {
			t.fail(nil, "constant not found in %s", constFile)
		}
		k := t.typeOf(nil, c.Type())
		fmt.Fprintf(&b, "/- %s: %s %s = %s -/\ndef %s : %s := %s\n\n", constFile, cn, c.Type(), c.Val().ExactString(), cn, k.lean(), t.lit(nil, c.Val(), k))
	}
	var hs []string
	for _, g := range targets {
		b.WriteString(t.function(g) + "\n")
		hs = append(hs, fmt.Sprintf("(\"%s\", sourceHash_%s)", g.lean, g.lean))
	}
	fmt.Fprintf(&b, "def sourceHashes : List (String × String) :=\n  [%s]\n\nend GS.Gen.IntCode\n", strings.Join(hs, ",\n   "))
	return b.String(), nil
}

func main() {
	repo := flag.String("repo", "/repo", "root of the gophersat working tree")
	out := flag.String("out", "", "Lean file to write (stdout if empty)")
	flag.Parse()
	s, err := run(*repo)
	if err != nil {
		fmt.Fprintln(os.Stderr, err)
		os.Exit(1)
	}
	if *out == "" {
		fmt.Print(s)
	} else if err := os.WriteFile(*out, []byte(s), 0o644); err != nil {
		fmt.Fprintln(os.Stderr, err)
		os.Exit(1)
	}
}
