module gsverif/trans

go 1.19
