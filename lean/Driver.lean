import GS.Ops
import GS.OpsAll
open GS GS.Proto

def runLine (line : String) : String :=
  let t := trim line
  let (op, rest) := match t.splitOn " " with
    | [] => ("", "")
    | o :: r => (o, " ".intercalate r)
  match (GS.OpsAll.table.lookup op) with
  | none => "bad-op"
  | some f => (f (fields rest)).getD "bad-op"

partial def loop (i : IO.FS.Stream) (o : IO.FS.Stream) : IO Unit := do
  let line ← i.getLine
  if line.isEmpty then return ()
  o.putStrLn (runLine line)
  o.flush
  loop i o

def main : IO Unit := do
  loop (← IO.getStdin) (← IO.getStdout)
