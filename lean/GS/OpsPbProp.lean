import GS.Proto
import GS.Model.PbProp
/-!
# GS.OpsPbProp — driver ops for the constraint-propagation mirror `GS.PbProp`

`pbprop <kind> | <lits> | <weights> | <card> | <watched 0/1 …> | <model> | <lvl>`

* kind: `card` (`simplifyCardConstr`), `amo` (`simplifyCardAMOConstr`), `pb` (`simplifyPseudoBool`);
* lits: DIMACS literals in clause order; weights: one per literal (all `1` for `card` / `amo`);
* watched: one `0/1` per position = the constraint is in `wlistPb[¬lits[i]]` (for `pb`: `pbData.watched`);
* model: signed decision level of variable `1..n` (`0` unbound); a variable beyond the list is unbound;
* lvl: the decision level handed to the function.

Answer: `ok <0/1> | <propagated lits> | <lits after> | <weights after> | <watched after> | <edits>`
where edits are groups `0 lit` (removeFrom `wlistPb[¬lit]`) / `1 lit` (append to it) in order, or
`panic` (the Go function panics), or `fuel` (never: `GS.Props.C02_PbProp`).

`pbwatch <kind> | <lits> | <weights> | <card>` (initial watches: `watchPB` for `pb`, the cardinality branch of
`watchClause` for `card`) answers `ok <0 wlistPb / 1 wlistCardAMO> | <watched> | <edits>` or `panic`.
-/
namespace GS.OpsPbProp
open GS GS.Proto GS.PbProp

def parseKind (s : String) : Option Kind :=
  match trim s with
  | "card" => some .card
  | "amo" => some .amo
  | "pb" => some .pb
  | _ => none

def modelOf (ms : List Int) : Nat → Int := fun v => if v = 0 then 0 else (ms[v - 1]?).getD 0

def bit (b : Bool) : String := if b then "1" else "0"
def showFlags (bs : List Bool) : String := " ".intercalate (bs.map bit)
def showEdits (es : List (Bool × Int)) : String :=
  " ; ".intercalate (es.map (fun e => s!"{bit e.1} {e.2}"))

def showRes : Res (Bool × St) → String
  | .panic => "panic"
  | .fuel => "fuel"
  | .ok (b, st) =>
    s!"ok {bit b} | {showInts st.props} | {showInts st.lits} | {showInts st.weights} | {showFlags st.watched} | {showEdits st.edits}"

def parseInt1 (s : String) : Option Int := (trim s).toInt?

def opPbProp (fs : List String) : Option String := do
  let [k, ls, ws, card, wt, ms, lvl] := fs | none
  let k ← parseKind k
  let ls ← parseInts ls
  let ws ← parseInts ws
  let card ← parseInt1 card
  let wt ← parseBools wt
  let ms ← parseInts ms
  let lvl ← parseInt1 lvl
  if ls.contains 0 then none
  else some (showRes (simplify k lvl card (St.init (modelOf ms) ls ws wt)))

def opPbWatch (fs : List String) : Option String := do
  let [k, ls, ws, card] := fs | none
  let k ← parseKind k
  let ls ← parseInts ls
  let ws ← parseInts ws
  let card ← parseInt1 card
  if ls.contains 0 then none
  else match k with
    | .pb =>
      match watchPB ls ws card with
      | .ok (fl, ed) => some s!"ok 0 | {showFlags fl} | {showEdits ed}"
      | _ => some "panic"
    | _ =>
      let amo := watchCardIsAMO ls card
      match watchFirst ls (card + 1).toNat 0 with
      | .ok ed =>
        let fl := (List.range ls.length).map (fun (i : Nat) => decide ((i : Int) < card + 1))
        some s!"ok {bit amo} | {showFlags fl} | {showEdits ed}"
      | _ => some "panic"

def table : List (String × (List String → Option String)) :=
  [("pbprop", opPbProp), ("pbwatch", opPbWatch)]

#guard opPbProp ["card", "1 2 3 4", "1 1 1 1", "2", "1 1 1 0", "-1 0 0 0", "2"]
  == some "ok 1 |  | 4 2 3 1 | 1 1 1 1 | 1 1 1 0 | 0 1 ; 1 4"
#guard opPbProp ["card", "1 2 3 4", "1 1 1 1", "2", "1 1 1 0", "-1 -1 0 0", "2"]
  == some "ok 1 | 3 4 | 1 2 3 4 | 1 1 1 1 | 1 1 1 0 | "
#guard opPbProp ["pb", "1 2 3", "3 2 1", "3", "1 1 1", "-1 0 0", "2"]
  == some "ok 1 | 2 3 | 1 2 3 | 3 2 1 | 1 1 1 | "
#guard opPbProp ["amo", "1 2 3", "1 1 1", "2", "1 1 1", "-1 -1 0", "2"] == some "ok 0 |  | 1 2 3 | 1 1 1 | 1 1 1 | "
#guard opPbWatch ["pb", "1 2 3", "3 2 1", "3"] == some "ok 0 | 1 1 1 | 1 1 ; 1 2 ; 1 3"
#guard opPbWatch ["card", "1 2 3 4", "1 1 1 1", "2"] == some "ok 0 | 1 1 1 0 | 1 1 ; 1 2 ; 1 3"

end GS.OpsPbProp
