import GS.Proto
import GS.Model.TextBytes
import GS.OpsFormats
import GS.OpsOpbFull
import GS.OpsCnfBytes
/-!
# GS.OpsTextBytes — driver ops for the byte-level mirrors of the OPB / WCNF / explain readers

The text is ONE field: its bytes as decimal integers `0..255` (an empty field is the empty text).

* `opbbytes <bytes>`     → the answer of `popbfront` on the tokens of the text:
  `ok nbvars=<n> unsat=<0|1> units=<lits> | <deg c l c l …> ; …`
* `opbbytesfull <bytes>` → the answer of `popbfull`:
  `ok status=<0|1|2> nbvars=<n> units=<…> clauses=<…> | obj=<c l c l …|none>`
* `wcnfbytes <bytes>`    → the answer of `pwcnftok`:
  `ok nbvars=<n> first=<firstRelax> | <clauses> | <w l w l …>`
* `xcnfbytes <bytes>`    → the answer of `pxcnftok`:
  `ok <nbVars> <nbClauses> | <clauses> | <units array>`
* `textlines <bytes>`    → `<n> <0|1> | <line> ; <line> …`: number of lines the scanner delivers,
  whether it stops on a line that is too long, and the lines (bytes; `e` for an empty line).

Failures: `err` (error return), `panic` (the Go code panics), `unmodelled` (the guard of the format
in `GS.Model.TextBytes` fails: 64-bit wrap-around or a huge allocation is possible; checked first).
-/
namespace GS.OpsTextBytes
open GS GS.Proto GS.Formats GS.TextBytes

def parseBytes := GS.OpsCnfBytes.parseBytes

def showBytesLine (l : List Nat) : String := if l.isEmpty then "e" else " ".intercalate (l.map toString)

def opOpbBytes (fs : List String) : Option String := do
  let [f] := fs | none
  let bs ← parseBytes f
  let lines := opbTokens bs
  if !opbGuard lines then some "unmodelled"
  else
    match parseOpbLines lines with
    | .error e => some (GS.OpsFormats.showErr e)
    | .ok st =>
      some s!"ok nbvars={st.nbVars} unsat={if st.unsat then 1 else 0} units={showInts st.units} | {GS.OpsFormats.showPBCs st.kept}"

def opOpbBytesFull (fs : List String) : Option String := do
  let [f] := fs | none
  let bs ← parseBytes f
  let lines := opbTokens bs
  if !opbGuard lines then some "unmodelled"
  else
    match GS.OpbFull.parseOpbFull lines with
    | .error e => some (GS.OpsOpbFull.showFail e)
    | .ok (pb, obj) => some s!"ok {GS.OpsSimplify.showPb GS.OpsSimplify.showPBCl pb} | obj={GS.OpsOpbFull.showObj obj}"

def opWcnfBytes (fs : List String) : Option String := do
  let [f] := fs | none
  let bs ← parseBytes f
  let lines := wcnfTokens bs
  if !wcnfGuard lines then some "unmodelled"
  else
    match parseWcnfLines lines with
    | .error e => some (GS.OpsFormats.showErr e)
    | .ok out =>
      some s!"ok nbvars={out.nbVars} first={out.firstRelax} | {showGroups out.clauses} | {GS.OpsFormats.showTerms out.costFn}"

def opXCnfBytes (fs : List String) : Option String := do
  let [f] := fs | none
  let bs ← parseBytes f
  let lines := explainTokens bs
  if !explainGuard lines then some "unmodelled"
  else
    match explainParseTokens lines with
    | .error e => some (GS.OpsFormats.showErr e)
    | .ok (n, pb) => some s!"ok {n} {pb.nbClauses} | {showGroups pb.clauses} | {showInts pb.units.toList}"

def opTextLines (fs : List String) : Option String := do
  let [f] := fs | none
  let bs ← parseBytes f
  let r := scanLines bs
  some s!"{r.1.length} {if r.2 then 1 else 0} | {" ; ".intercalate (r.1.map showBytesLine)}"

def table : List (String × (List String → Option String)) :=
  [("opbbytes", opOpbBytes), ("opbbytesfull", opOpbBytesFull), ("wcnfbytes", opWcnfBytes),
   ("xcnfbytes", opXCnfBytes), ("textlines", opTextLines)]

end GS.OpsTextBytes
