import GS.Ops
import GS.OpsBf
import GS.OpsPb
/-! Union of all op tables (one per model file group). -/
namespace GS.OpsAll
def table : List (String × (List String → Option String)) := GS.Ops.table ++ GS.OpsBf.table ++ GS.OpsPb.table
end GS.OpsAll
