import GS.Ops
import GS.OpsBf
import GS.OpsPb
import GS.OpsConstr
import GS.OpsCdcl
import GS.OpsOptim
import GS.OpsMaxSat
import GS.OpsAmo
import GS.OpsExplain
import GS.OpsBfModel
import GS.OpsChan
/-! Union of all op tables (one per model file group). -/
namespace GS.OpsAll
def table : List (String × (List String → Option String)) := GS.Ops.table ++ GS.OpsBf.table ++ GS.OpsPb.table ++ GS.OpsConstr.table ++ GS.OpsCdcl.table ++ GS.OpsOptim.table ++ GS.OpsMaxSat.table ++ GS.OpsAmo.table ++ GS.OpsExplain.table ++ GS.OpsBfModel.table ++ GS.OpsChan.table
end GS.OpsAll
