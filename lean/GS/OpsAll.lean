import GS.Ops
import GS.OpsBf
/-! Union of all op tables (one per model file group). -/
namespace GS.OpsAll
def table : List (String × (List String → Option String)) := GS.Ops.table ++ GS.OpsBf.table
end GS.OpsAll
