import GS.Ops
import GS.OpsBf
import GS.OpsPb
import GS.OpsConstr
import GS.OpsCdcl
import GS.OpsOptim
import GS.OpsMaxSat
import GS.OpsAmo
import GS.OpsExplain
import GS.OpsBfModel
import GS.OpsChan
import GS.OpsEnum
import GS.OpsMaxSatSigned
import GS.OpsBfUnique
import GS.OpsFormats
import GS.OpsSimplify
import GS.OpsAnalyze
import GS.OpsAppend
import GS.OpsOptimSigned
import GS.OpsTrail
import GS.OpsCpAnalyze
import GS.OpsEnumRound
import GS.OpsAssume
import GS.OpsSolverPrint
import GS.OpsOpbFull
import GS.OpsTrailPb
import GS.OpsQueue
import GS.OpsCnfBytes
import GS.OpsPbProp
import GS.OpsWatch
import GS.OpsSearch
import GS.OpsIntCode
import GS.OpsTextBytes
/-! Union of all op tables (one per model file group). -/
namespace GS.OpsAll
def table : List (String × (List String → Option String)) := GS.Ops.table ++ GS.OpsBf.table ++ GS.OpsPb.table ++ GS.OpsConstr.table ++ GS.OpsCdcl.table ++ GS.OpsOptim.table ++ GS.OpsMaxSat.table ++ GS.OpsAmo.table ++ GS.OpsExplain.table ++ GS.OpsBfModel.table ++ GS.OpsChan.table ++ GS.OpsEnum.table ++ GS.OpsMaxSatSigned.table ++ GS.OpsBfUnique.table ++ GS.OpsFormats.table ++ GS.OpsSimplify.table ++ GS.OpsAnalyze.table ++
  GS.OpsAppend.table ++ GS.OpsOptimSigned.table ++ GS.OpsTrail.table ++ GS.OpsCpAnalyze.table ++ GS.OpsEnumRound.table ++ GS.OpsAssume.table ++ GS.OpsSolverPrint.table ++ GS.OpsOpbFull.table ++ GS.OpsTrailPb.table ++ GS.OpsQueue.table ++ GS.OpsCnfBytes.table ++ GS.OpsPbProp.table ++ GS.OpsWatch.table ++ GS.OpsSearch.table ++ GS.OpsIntCode.table ++ GS.OpsTextBytes.table
end GS.OpsAll
