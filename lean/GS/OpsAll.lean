import GS.Ops
/-! Union of all op tables (one per model file group). -/
namespace GS.OpsAll
def table : List (String × (List String → Option String)) := GS.Ops.table
end GS.OpsAll
