import GS.Proto
import GS.Model.Watch
/-!
# GS.OpsWatch — driver ops for the two-watched-literal propagation mirror `GS.Watch`

State fields (shared by the three ops):
`<nbVars> | <clauses> | <wbin> | <wlong> | <model> | <trail>`

* clauses: `;`-separated groups of DIMACS literals in their current order (id = position);
* wbin, wlong: `;`-separated groups `lit cid other`, listing for each literal its watchers in list
  order (the groups of one literal in the order of its list; literals in any order);
* model: `nbVars` signed levels (0 unbound, +lvl true, -lvl false); trail: literals.

Ops
* `wprop <state> | <ptr> <lvl>` — `GS.Watch.propagate ptr lvl`;
* `wunify <state> | <lit> <lvl>` — `GS.Watch.unifyLiteral lit lvl`;
  answer of both: `ok <conflict cid or -1> | <trail> | <model> | <clauses> | <wbin> | <wlong> | <reasons>`
  with the watchers listed for the literals in the order 1,-1,2,-2,… and reasons = groups `var cid`
  for the literals this call appended to the trail by propagation, in trail order; or `panic`
  (or `fuel`: only possible with `lvl = 0`, where the Go loop may not terminate);
* `winv <state> | <ptr>` — `ok` or `bad <names of the failing parts of GS.Watch.watchInv>`;
* `winit <nbVars> | <clauses>` — `GS.Watch.initState`: `ok <wbin> | <wlong>` or `panic`.
-/
namespace GS.OpsWatch
open GS GS.Proto GS.Watch

def parseWatchers (n : Nat) (gs : List (List Int)) : Option (List (List Watcher)) :=
  gs.foldlM (fun (acc : List (List Watcher)) g =>
    match g with
    | [l, cid, other] =>
      if cid < 0 then none else wpush acc l ⟨cid.toNat, other⟩
    | _ => none) (List.replicate (2 * n) [])

def parseState (fs : List String) : Option State := do
  let [n, cls, wb, wl, m, tr] := fs | none
  let n ← parseNat n
  let cls ← parseGroups cls
  let wb ← parseWatchers n (← parseGroups wb)
  let wl ← parseWatchers n (← parseGroups wl)
  let m ← parseInts m
  let tr ← parseInts tr
  if m.length ≠ n then none
  else some { clauses := cls, wbin := wb, wlong := wl, model := m, trail := tr,
              reasons := List.replicate n none }

def showWatchers (ws : List (List Watcher)) : String :=
  " ; ".intercalate ((ws.zipIdx.map (fun p =>
    p.1.map (fun w => s!"{idxLit p.2} {w.cid} {w.other}"))).flatten)

def showRes (oldLen : Nat) : Except Err (Option Nat × State) → String
  | .error .panic => "panic"
  | .error .fuel => "fuel"
  | .ok (confl, st) =>
    let c := match confl with | some c => toString c | none => "-1"
    let rs := (st.trail.drop oldLen).filterMap (fun l =>
      match st.reasons[l.natAbs - 1]? with
      | some (some cid) => some s!"{l.natAbs} {cid}"
      | _ => none)
    s!"ok {c} | {showInts st.trail} | {showInts st.model} | {showGroups st.clauses} | {showWatchers st.wbin} | {showWatchers st.wlong} | {" ; ".intercalate rs}"

def opWprop (fs : List String) : Option String := do
  let [n, cls, wb, wl, m, tr, pl] := fs | none
  let st ← parseState [n, cls, wb, wl, m, tr]
  let [ptr, lvl] ← parseInts pl | none
  if ptr < 0 then none
  else some (showRes st.trail.length (propagate ptr.toNat lvl st))

def opWunify (fs : List String) : Option String := do
  let [n, cls, wb, wl, m, tr, ll] := fs | none
  let st ← parseState [n, cls, wb, wl, m, tr]
  let [lit, lvl] ← parseInts ll | none
  some (showRes (st.trail.length + 1) (unifyLiteral lit lvl st))

def opWinv (fs : List String) : Option String := do
  let [n, cls, wb, wl, m, tr, p] := fs | none
  let st ← parseState [n, cls, wb, wl, m, tr]
  let ptr ← parseNat p
  let bad := (invParts st ptr).filter (fun p => !p.2)
  if bad.isEmpty then some "ok" else some ("bad " ++ " ".intercalate (bad.map (·.1)))

def opWinit (fs : List String) : Option String := do
  let [n, cls] := fs | none
  let n ← parseNat n
  let cls ← parseGroups cls
  match initState n cls with
  | none => some "panic"
  | some st => some s!"ok {showWatchers st.wbin} | {showWatchers st.wlong}"

def table : List (String × (List String → Option String)) :=
  [("wprop", opWprop), ("wunify", opWunify), ("winv", opWinv), ("winit", opWinit)]

end GS.OpsWatch
