import GS.Proto
import GS.Model.Formats
/-!
# GS.OpsFormats — driver ops for the token-level parser mirrors (`GS.Model.Formats`)

A text is passed in ONE field: tokens separated by spaces, lines separated by the bare token `;`
(written ` ; `). An integer field (a field the Go parser's integer reader accepts: for OPB / WCNF /
explain `strconv.Atoi`, i.e. `[+-]?[0-9]+`; for `solver.ParseCNF` `readInt`, i.e. `-?[0-9]+`) is
written as the integer, any other field as `w:<text>` (so the OPB terminator is `w:;`). `|` never
occurs inside the field.

* `pcnftok <lines>`  → `ok <nbVars> | <clauses>` (clauses as in `GS.Proto.showGroups`) — `solver.ParseCNF` before `simplify2`
* `popbtok <lines>`  → `ok obj=<c l c l …|none> | <deg c l c l …> ; …` — the `PBConstr`s `GtEq`/`Eq` returned, in order
* `popbfront <lines>`→ `ok nbvars=<n> unsat=<0|1> units=<lits> | <deg c l c l …> ; …` — after the case analysis
                        (`pb.Units`, `pb.Clauses`, `pb.Status == Unsat`), before the unit check and `simplifyPB`
* `pxcnftok <lines>` → `ok <nbVars> <nbClauses> | <clauses> | <units array>` — `explain.ParseCNF`
* `pwcnftok <lines>` → `ok nbvars=<n> first=<firstRelax> | <clauses> | <w l w l …>` — `maxsat.ParseWCNF` before `ParseSliceNb`

Failures: `err` (error return) or `panic` (the Go code panics).
-/
namespace GS.OpsFormats
open GS GS.Proto GS.Formats GS.Constr

def parseTok (t : String) : Option Tok :=
  match t.toList with
  | 'w' :: ':' :: rest => some (.word (String.ofList rest))
  | cs => (atoi cs).map Tok.int

/-- Split a token list on the bare token `;`. -/
def splitLines (toks : List String) : List (List String) :=
  toks.foldr (fun t acc =>
    if t = ";" then [] :: acc
    else match acc with
      | [] => [[t]]
      | l :: ls => (t :: l) :: ls) [[]]

def parseLines (s : String) : Option (List Line) :=
  let toks := ((trim s).splitOn " ").filter (· ≠ "")
  (splitLines toks).mapM (fun l => l.mapM parseTok)

def showErr (e : String) : String := if isPanic e then "panic" else "err"

def showTerms (ts : List (Int × Int)) : String :=
  showInts (ts.flatMap (fun t => [t.1, t.2]))

def showPBC (c : PBC) : String := showInts (c.atLeast :: c.terms.flatMap (fun t => [t.1, t.2]))

def showPBCs (cs : List PBC) : String := " ; ".intercalate (cs.map showPBC)

def opCnf (fs : List String) : Option String := do
  let [l] := fs | none
  let lines ← parseLines l
  match parseCnfTokens lines with
  | .error e => some (showErr e)
  | .ok (n, cs) => some s!"ok {n} | {showGroups cs}"

def opOpb (fs : List String) : Option String := do
  let [l] := fs | none
  let lines ← parseLines l
  match parseOpbLines lines with
  | .error e => some (showErr e)
  | .ok st =>
    let obj := match st.obj with
      | none => "none"
      | some ts => showTerms ts
    some s!"ok obj={obj} | {showPBCs st.constrs}"

def opOpbFront (fs : List String) : Option String := do
  let [l] := fs | none
  let lines ← parseLines l
  match parseOpbLines lines with
  | .error e => some (showErr e)
  | .ok st =>
    some s!"ok nbvars={st.nbVars} unsat={if st.unsat then 1 else 0} units={showInts st.units} | {showPBCs st.kept}"

def opXCnf (fs : List String) : Option String := do
  let [l] := fs | none
  let lines ← parseLines l
  match explainParseTokens lines with
  | .error e => some (showErr e)
  | .ok (n, pb) => some s!"ok {n} {pb.nbClauses} | {showGroups pb.clauses} | {showInts pb.units.toList}"

def opWcnf (fs : List String) : Option String := do
  let [l] := fs | none
  let lines ← parseLines l
  match parseWcnfLines lines with
  | .error e => some (showErr e)
  | .ok out =>
    some s!"ok nbvars={out.nbVars} first={out.firstRelax} | {showGroups out.clauses} | {showTerms out.costFn}"

def table : List (String × (List String → Option String)) :=
  [("pcnftok", opCnf), ("popbtok", opOpb), ("popbfront", opOpbFront), ("pxcnftok", opXCnf),
   ("pwcnftok", opWcnf)]

end GS.OpsFormats
