import GS.OpsBf
import GS.Model.Bf
/-! Driver op for the `bf` mirror: `bfdimacs <SF wire format>` → the text of `bf.Dimacs` on one
line (`\n` written as the two characters `\n`), `unsupported` when some `unique` group **in positive
position** has more than `GS.Bf.maxPosGroup` names (groups in negative position: any size),
`panic` if the mirror of `cnfRec` panics. -/
namespace GS.OpsBfModel
open GS GS.Proto

def opBfDimacs (fs : List String) : Option String := do
  let [f] := fs | none
  let f ← GS.OpsBf.parseSFField f
  if !GS.Bf.supported f then some "unsupported" else
  match GS.Bf.dimacs (GS.Bf.ofSF f) with
  | some s => some (s.replace "\n" "\\n")
  | none => some "panic"

def table : List (String × (List String → Option String)) :=
  [("bfdimacs", opBfDimacs)]

end GS.OpsBfModel
