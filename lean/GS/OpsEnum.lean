import GS.Proto
import GS.Model.Enum
/-!
# GS.OpsEnum — the per-round contract of the enumeration loop, as a decidable check

`GS.Enum.enum_exact` holds for any search oracle meeting `GS.Enum.Contract` at every problem
`F ++ blocks` visited. `contractOk` is the decidable content of the three fields `sound`,
`nonzero`, `propagated` at one observed round `(m, D)`: the harness evaluates it on every round of
real `Enumerate` / `CountModels` runs (hook after `decisionLits`), which is what ties the Go
search to the hypothesis of the theorem.
-/
namespace GS.OpsEnum
open GS GS.Proto GS.Enum

/-- `m` : partial model (`none` = unbound), `D` : decision literals (the blocking clause is `¬D`). -/
def contractOk (n : Nat) (p : Problem) (m : List (Option Bool)) (D : List Int) : Bool :=
  D.all (· != 0) &&
  (leaves n).all (fun bs => !agreesB m bs || (Problem.holds (asgOf bs) p && allTrue bs D)) &&
  (modelsOver n p).all (fun bs => !allTrue bs D || agreesB m bs)

def parseOptBools (s : String) : Option (List (Option Bool)) := do
  let xs ← parseInts s
  xs.mapM (fun x => if x = 0 then some (some false) else if x = 1 then some (some true)
                    else if x = 2 then some none else none)

/-- `enumround n | problem (with the blocks so far) | model as 0/1/2 (2 = unbound) | decisions D` → 1/0 -/
def opEnumRound (fs : List String) : Option String := do
  let [n, p, m, d] := fs | none
  let n ← parseNat n; let p ← parseProblem p; let m ← parseOptBools m; let d ← parseInts d
  if !p.wf n then some "wf-error" else
  if m.length != n then some "len-error" else
  some (if contractOk n p m d then "1" else "0")

def table : List (String × (List String → Option String)) := [("enumround", opEnumRound)]

end GS.OpsEnum
