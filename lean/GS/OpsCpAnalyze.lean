import GS.Proto
import GS.Model.CpAnalyze
/-!
# GS.OpsCpAnalyze — driver ops for the mirror of `(*Solver).cuttingPlanes`

`cpanalyze <lvl> | <conflict> | <trail> | <reasons>`

* conflict and each reason are written `deg c l c l …` (degree, then weight/literal pairs in the
  order of the constraint's own `lits` slice);
* trail: groups `lit level` separated by ` ; `, in trail order (`level = abs(s.model[v])` at entry);
  the empty field is the empty trail;
* reasons: one group per trail entry, separated by ` ; `: the constraint `s.reason[v]`, or the
  single token `0` for `nil`;
* `nbVars` is not transmitted: the mirror uses the largest variable mentioned (a longer buffer only
  adds zero weights, which no step looks at).

Answer (one line): `unsat` | `units l l …` (sorted by variable) |
`learned <btLvl> <unit> | deg c l c l …` (terms sorted by variable) | `learned <btLvl> <unit> | nil` |
`stuck index|divzero|card|fuel`; then, whenever the final `SimplifyPB` stage was reached,
` | raw deg c l …` (the pbSet just before `pb.clause().SimplifyPB()`, terms sorted by variable);
then ` | tie` when the learned constraint depends on how Go's unstable sort orders equal weights
(`GS.Cp.tieSensitive`: more than 12 terms and two equal heaviest remaining terms above the degree).

`cpanalyze_inv <lvl> | <conflict> | <trail> | <reasons>` evaluates `GS.Cp.cpInv` with `prob` = the
conflict, all reasons, and the unit constraints of the reason-less level-1 literals (so the
membership parts hold by construction) and answers `inv 1`, or `inv 0 <part>` with the first
failing part among `width`, `trail <i>` (0-based index of the first bad trail entry, with the
failing sub-part `lit|distinct|level|mono|reason-sign|reason-prop|fact`), `conflict`, `lvl`;
`cpanalyze_inv` also reports ` dec 0` after `inv 1` when `decisionsOk` fails.

Unparsable input yields `none` (`bad-op`).
-/
namespace GS.OpsCpAnalyze
open GS GS.Proto GS.Cp

def parseReason : List Int → Option (Option Lin)
  | [0] => some none
  | xs => (linOfInts xs).map some

def parseTrailEntry : List Int → Option (Int × Nat)
  | [l, lv] => if l = 0 ∨ lv < 0 then none else some (l, lv.toNat)
  | _ => none

def maxVarTerms (ts : List (Int × Int)) : Nat := ts.foldl (fun a t => max a t.2.natAbs) 0

def parseSt (fs : List String) : Option State := do
  let [lvl, confl, trail, reasons] := fs | none
  let lvl ← (trim lvl).toInt?
  let confl ← linOfInts (← parseInts confl)
  let tr ← (← parseGroups trail).mapM parseTrailEntry
  let rs ← (← parseGroups reasons).mapM parseReason
  if tr.length ≠ rs.length then none
  else if confl.terms.any (fun t => t.2 = 0) then none
  else if rs.any (fun r => match r with | some c => c.terms.any (fun t => t.2 = 0) | none => false) then none
  else
    let entries := (tr.zip rs).map (fun p => (⟨p.1.1, p.1.2, p.2⟩ : Entry))
    let n := entries.foldl (fun a e =>
      max (max a e.lit.natAbs) (match e.reason with | some c => maxVarTerms c.terms | none => 0))
      (maxVarTerms confl.terms)
    some ⟨n, lvl, confl, entries⟩

/-- insertion by increasing variable -/
def insByVar (t : Int × Int) : List (Int × Int) → List (Int × Int)
  | [] => [t]
  | u :: us => if t.2.natAbs ≤ u.2.natAbs then t :: u :: us else u :: insByVar t us

def showLin (ts : List (Int × Int)) (d : Int) : String :=
  let sorted := ts.foldr insByVar []
  showInts (d :: sorted.flatMap (fun t => [t.1, t.2]))

def showStuck : Stuck → String
  | .index => "index" | .divZero => "divzero" | .card => "card" | .fuel => "fuel"

def showRes : Result → String
  | .unsat => "unsat"
  | .units ls =>
    let sorted := (ls.map (fun l => ((0:Int), l))).foldr insByVar []
    "units" ++ String.join (sorted.map (fun t => s!" {t.2}"))
  | .learned c u b => s!"learned {b} {u} | {showLin c.1 c.2}"
  | .learnedNil u b => s!"learned {b} {u} | nil"
  | .stuck w => s!"stuck {showStuck w}"

def showOut (o : Out) : String :=
  showRes o.res ++
    (match o.raw with
     | none => ""
     | some p => s!" | raw {showLin (clauseTerms 0 p.weights) p.card}" ++
        (match o.res with
         | .learned _ _ _ => if tieSensitive p then " | tie" else ""
         | _ => ""))

def opCpAnalyze (fs : List String) : Option String := do
  let st ← parseSt fs
  some (showOut (cpAnalyze st))

/-- `prob` for `cpanalyze_inv` -/
def probOf (s : State) : List PbSet :=
  pbOf s.n s.confl :: s.trail.filterMap (fun e =>
    match e.reason with
    | some r => some (pbOf s.n r)
    | none => if e.level = 1 then some (unitPb s.n e.lit) else none)

/-- first failing sub-part of `entryOk` -/
def entryWhy (n : Nat) (e : Entry) (rest : List Entry) : Option String :=
  if !litOkB n e.lit then some "lit"
  else if !rest.all (fun e' => varIdx e'.lit != varIdx e.lit) then some "distinct"
  else if !decide (1 ≤ e.level) then some "level"
  else if !rest.all (fun e' => decide (e'.level ≤ e.level)) then some "mono"
  else match e.reason with
    | none => none
    | some r =>
      let w := (pbOf n r).weights.getD (varIdx e.lit) 0
      if !(w ≠ 0 && (decide (w > 0) == decide (e.lit > 0))) then some "reason-sign"
      else if !decide (freeSumB (modelOfR n rest) (fun i => i == varIdx e.lit) 0 (pbOf n r).weights < r.degree)
        then some "reason-prop"
      else none

/-- scan the reversed trail; `i` = index of the head in trail order -/
def trailWhy (n : Nat) : List Entry → Option String
  | [] => none
  | e :: rest =>
    match trailWhy n rest with
    | some w => some w
    | none => (entryWhy n e rest).map (fun w => s!"trail {rest.length} {w}")

def opCpInv (fs : List String) : Option String := do
  let st ← parseSt fs
  let prob := probOf st
  if cpInv prob st then
    some (if decisionsOk st.trail.reverse then "inv 1" else "inv 1 dec 0")
  else if !widthOk prob st then some "inv 0 width"
  else match trailWhy st.n st.trail.reverse with
    | some w => some s!"inv 0 {w}"
    | none =>
      if !trailOk st.n prob st.trail.reverse then some "inv 0 trail ? fact"
      else if !conflOk prob st then some "inv 0 conflict"
      else some "inv 0 lvl"

/-- `cpanalyze_check <same input>` answers `assert <0|1> progress <0|1>`: `GS.Cp.assertingOk` and
    `GS.Cp.progressOk` (each is `1` when the answer is not of the kind it talks about). -/
def opCpCheck (fs : List String) : Option String := do
  let st ← parseSt fs
  some s!"assert {if assertingOk st then 1 else 0} progress {if progressOk st then 1 else 0}"

def table : List (String × (List String → Option String)) :=
  [("cpanalyze", opCpAnalyze), ("cpanalyze_inv", opCpInv), ("cpanalyze_check", opCpCheck)]

end GS.OpsCpAnalyze
