import GS.Proto
import GS.Model.SolverPrint
/-!
# GS.OpsSolverPrint — driver ops for `Solver.PBString()` (`GS.Model.SolverPrint`)

* `sprint <nbVars> | <cost> | <orig> | <learned> | <model>` → the text `PBString()` returns, every
  newline written as the two characters `\n` (nothing else is escaped; the text never holds a `|`)
  - `<cost>`    : `none` (`s.minLits == nil`) or `c l c l …` (weight, literal; may be empty);
  - `<orig>`    : `deg c l c l … ; …` — `s.wl.origClauses`: `Cardinality()`, then `Weight(i)` `lits[i].Int()`;
  - `<learned>` : `l l … ; …` — `s.wl.learned` when they are clauses made by `NewLearnedClause`
                  (`e` is the empty clause);
  - `<model>`   : `s.model`, one integer per variable.
* `sprintpb …` : same, `<learned>` written as `<orig>` (constraints learned by `cuttingPlanes`).
* `sprinttok …` (fields as for `sprintpb`) → the lines of fields of `printSolver`, in the input
  syntax of `GS.OpsFormats` (`w:<text>` for a non-integer field, lines separated by ` ; `).
* `sprintlex …` / `sprintpblex …` (fields as for `sprint` / `sprintpb`) → `1` when cutting the text
  into lines and fields (`lexText`) gives the lines of `printSolver`, else `0`.
-/
namespace GS.OpsSolverPrint
open GS GS.Proto GS.Constr GS.Formats GS.SolverPrint

def pbcOfLin (l : Lin) : PBC := ⟨l.terms.map (·.2), some (l.terms.map (·.1)), l.degree⟩

def parseCost (s : String) : Option (Option (List (Int × Int))) :=
  if trim s = "none" then some none else (parseTerms s).map some

def escapeNl (s : String) : String := "\\n".intercalate (s.splitOn "\n")

def parseState (pbLearned : Bool) (fs : List String) : Option State := do
  let [n, c, o, l, m] := fs | none
  let [nb] ← parseInts n | none
  let obj ← parseCost c
  let orig ← parseProblem o
  let learned ←
    if pbLearned then (parseProblem l).map (·.map pbcOfLin)
    else (parseGroups l).map (·.map (fun lits => (learnedCl lits 0).pbc))
  let model ← parseInts m
  pure { nbVars := nb, obj := obj, orig := orig.map pbcOfLin, learned := learned, model := model }

def opSprint (pbLearned : Bool) (fs : List String) : Option String := do
  let st ← parseState pbLearned fs
  pure (escapeNl (printSolverText st))

def showTok : Tok → String
  | .int i => toString i
  | .word s => "w:" ++ s

def opSprintTok (fs : List String) : Option String := do
  let st ← parseState true fs
  pure (" ; ".intercalate ((printSolver st).map (fun l => " ".intercalate (l.map showTok))))

/-- `1` when the fields of the text (`lexText`) are the lines of `printSolver`. -/
def opSprintLex (pbLearned : Bool) (fs : List String) : Option String := do
  let st ← parseState pbLearned fs
  pure (if lexText (printSolverText st) == printSolver st then "1" else "0")

def table : List (String × (List String → Option String)) :=
  [("sprint", opSprint false), ("sprintpb", opSprint true), ("sprinttok", opSprintTok),
   ("sprintlex", opSprintLex false), ("sprintpblex", opSprintLex true)]

end GS.OpsSolverPrint
