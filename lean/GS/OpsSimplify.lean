import GS.Proto
import GS.Model.Simplify
/-!
# GS.OpsSimplify — driver ops for the parse-time simplification mirrors (`GS.Model.Simplify`)

All three ops answer

    status=<0 indet|1 sat|2 unsat> nbvars=<n> units=<l l l> clauses=<c1 ; c2 ; …>

or `panic` (the model returned `none`).

* `pslice <nbVars> | <clauses>` — `ParseSliceNb(cnf, nbVars)` (`ParseSlice` is `nbVars = 0`);
  clauses are `l l l ; l l` with `e` for the empty clause; each resulting clause is printed as its
  literals in Go's resulting order.
* `pcard <constraints>` — `ParseCardConstrs`; each constraint is a group `card l l l`
  (`{Lits: [l l l], AtLeast: card}`), also in the output.
* `ppb <constraints>` — `ParsePBConstrs`; each constraint is a group `deg c l c l …`
  (`{Lits, Weights (explicit), AtLeast: deg}`), also in the output, where **the terms of each
  remaining constraint are printed sorted by (weight descending, then literal ascending as an
  integer)** — a function of the multiset of terms, so the Go side can be canonicalised the same
  way. `ppbraw` prints the terms in the order the model computes (exactly Go's order as long as
  every input constraint has at most 12 terms, where `sort.Sort` is a stable insertion sort).

When `status=2` only `status`, `nbvars` and `units` are meaningful (see `GS.Model.Simplify`).
-/
namespace GS.OpsSimplify
open GS GS.Proto GS.Constr GS.Simplify

def statusCode : Status → Nat
  | .indet => 0
  | .sat => 1
  | .unsat => 2

def showPb (showCl : Cl → String) (pb : Pb) : String :=
  s!"status={statusCode pb.status} nbvars={pb.nbVars} units={showInts pb.units} clauses={" ; ".intercalate (pb.clauses.map showCl)}"

def showClause (c : Cl) : String := if c.lits.isEmpty then "e" else showInts c.lits

def showCardCl (c : Cl) : String := showInts (c.card :: c.lits)

def flatTerms (ts : List (Int × Int)) : List Int := ts.flatMap (fun t => [t.1, t.2])

def showPBClRaw (c : Cl) : String := showInts (c.card :: flatTerms c.terms)

/-- insertion into a list sorted by (weight desc, literal asc) -/
def insCanon (x : Int × Int) : List (Int × Int) → List (Int × Int)
  | [] => [x]
  | y :: ys => if y.1 > x.1 ∨ (y.1 = x.1 ∧ y.2 ≤ x.2) then y :: insCanon x ys else x :: y :: ys

def canonTerms (ts : List (Int × Int)) : List (Int × Int) := ts.foldl (fun acc x => insCanon x acc) []

def showPBCl (c : Cl) : String := showInts (c.card :: flatTerms (canonTerms c.terms))

/-- `pslice <nbVars> | <clauses>` -/
def opPSlice (fs : List String) : Option String := do
  let [n, f] := fs | none
  let n ← parseNat n; let f ← parseGroups f
  match parseSlice f n with
  | none => some "panic"
  | some pb => some (showPb showClause pb)

def cardOfInts : List Int → Option CardC
  | [] => none
  | k :: ls => some ⟨ls, k⟩

/-- `pcard <card l l l ; card l l ; …>` -/
def opPCard (fs : List String) : Option String := do
  let [f] := fs | none
  let gs ← parseGroups f
  let cs ← gs.mapM cardOfInts
  match parseCardConstrs cs with
  | none => some "panic"
  | some pb => some (showPb showCardCl pb)

def pbcOfInts (g : List Int) : Option PBC := do
  let l ← linOfInts g
  pure ⟨l.terms.map (·.2), some (l.terms.map (·.1)), l.degree⟩

def opPPBWith (showCl : Cl → String) (fs : List String) : Option String := do
  let [f] := fs | none
  let gs ← parseGroups f
  let cs ← gs.mapM pbcOfInts
  match parsePBConstrs cs with
  | none => some "panic"
  | some pb => some (showPb showCl pb)

/-- `ppb <deg c l c l … ; …>` (canonical term order in the output) -/
def opPPB : List String → Option String := opPPBWith showPBCl

/-- `ppbraw <deg c l c l … ; …>` (model's term order in the output) -/
def opPPBRaw : List String → Option String := opPPBWith showPBClRaw

def table : List (String × (List String → Option String)) :=
  [("pslice", opPSlice), ("pcard", opPCard), ("ppb", opPPB), ("ppbraw", opPPBRaw)]

end GS.OpsSimplify
