import GS.Proto
import GS.Model.CnfBytes
import GS.OpsSimplify
/-!
# GS.OpsCnfBytes — driver ops for the byte-level DIMACS reader mirror (`GS.Model.CnfBytes`)

* `cnfbytes <b0 b1 …>` — the bytes of the text as decimal integers `0..255` (an empty field is the
  empty text). Answer: `ok <nbVars> <nbClausesDeclared> | <clauses>` (clauses as written, `e` = the
  empty clause), `err` (ParseCNF returns an error), `panic` (ParseCNF panics), or `unmodelled`
  (a header declares more than `2^20` variables / clauses: the outcome depends on the memory of the
  machine; or a literal that does not fit `int32` got through the range check).
* `cnfbytesfull <b0 b1 …>` — the final `*Problem` (after `simplify2`), in the format of `pslice`:
  `status=… nbvars=… units=… clauses=…`, or `err` / `panic` / `unmodelled`.
-/
namespace GS.OpsCnfBytes
open GS GS.Proto GS.CnfBytes

def parseBytes (s : String) : Option (List Nat) := do
  let xs ← parseInts s
  xs.mapM (fun x => if 0 ≤ x ∧ x < 256 then some x.toNat else none)

/-- Above this declared count the op answers `unmodelled` (allocation behaviour). -/
def peakLimit : Nat := 1048576

def classify (e : String) : String :=
  if e.startsWith "panic:" then "panic" else if e.startsWith "unmodelled:" then "unmodelled" else "err"

def opCnfBytes (fs : List String) : Option String := do
  let [f] := fs | none
  let bs ← parseBytes f
  match parseCore bs with
  | .error e => some (classify e)
  | .ok st =>
    if st.peak > peakLimit then some "unmodelled"
    else some s!"ok {st.nbVars.toNat} {st.nbClauses.toNat} | {showGroups st.clauses}"

def opCnfBytesFull (fs : List String) : Option String := do
  let [f] := fs | none
  let bs ← parseBytes f
  match parseCore bs with
  | .error e => some (classify e)
  | .ok st =>
    if st.peak > peakLimit then some "unmodelled"
    else some (GS.OpsSimplify.showPb GS.OpsSimplify.showClause
      (GS.Simplify.simplify2 (initPb st.nbVars.toNat st.clauses)))

def table : List (String × (List String → Option String)) :=
  [("cnfbytes", opCnfBytes), ("cnfbytesfull", opCnfBytesFull)]

end GS.OpsCnfBytes
