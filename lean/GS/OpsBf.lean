import GS.Proto
import GS.Check.FormulaBrute
import GS.Model.BfParse
/-! Driver ops for formulas. Wire format of `SF` (prefix): `v i | t | f | n F | a k F*k | o k F*k | i F F | e F F | x F F | u k i*k`. -/
namespace GS.OpsBf
open GS GS.Proto

mutual
def parseSF : Nat → List String → Option (SF × List String)
  | 0, _ => none
  | fuel+1, toks =>
    match toks with
    | "v" :: i :: r => i.toNat?.map (fun n => (SF.var n, r))
    | "t" :: r => some (SF.tt, r)
    | "f" :: r => some (SF.ff, r)
    | "n" :: r => (parseSF fuel r).map (fun (f, r') => (SF.not f, r'))
    | "a" :: k :: r => k.toNat?.bind (fun k => (parseSFs fuel k r).map (fun (fs, r') => (SF.and fs, r')))
    | "o" :: k :: r => k.toNat?.bind (fun k => (parseSFs fuel k r).map (fun (fs, r') => (SF.or fs, r')))
    | "i" :: r => (parseSFs fuel 2 r).bind (fun (fs, r') => match fs with | [a, b] => some (SF.imp a b, r') | _ => none)
    | "e" :: r => (parseSFs fuel 2 r).bind (fun (fs, r') => match fs with | [a, b] => some (SF.iff a b, r') | _ => none)
    | "x" :: r => (parseSFs fuel 2 r).bind (fun (fs, r') => match fs with | [a, b] => some (SF.xor a b, r') | _ => none)
    | "u" :: k :: r => k.toNat?.bind (fun k =>
        if r.length < k then none else
        ((r.take k).mapM (fun (s : String) => s.toNat?)).map (fun ns => (SF.unique ns, r.drop k)))
    | _ => none
def parseSFs : Nat → Nat → List String → Option (List SF × List String)
  | 0, _, _ => none
  | _+1, 0, toks => some ([], toks)
  | fuel+1, k+1, toks =>
    (parseSF fuel toks).bind (fun (f, r) => (parseSFs fuel k r).map (fun (fs, r') => (f :: fs, r')))
end

def parseSFField (s : String) : Option SF :=
  let toks := ((trim s).splitOn " ").filter (· ≠ "")
  match parseSF (2 * toks.length + 2) toks with
  | some (f, []) => some f
  | _ => none

def b01 (b : Bool) : String := if b then "1" else "0"

def opBfSat (fs : List String) : Option String := do
  let [k, f] := fs | none
  let k ← parseNat k; let f ← parseSFField f
  some (b01 (sfSat k f))

def opBfEval (fs : List String) : Option String := do
  let [f, m] := fs | none
  let f ← parseSFField f; let m ← parseBools m
  some (b01 (SF.eval (nameAsg m) f))

def opBfExport (fs : List String) : Option String := do
  let [k, f, idx, n, cnf] := fs | none
  let k ← parseNat k; let f ← parseSFField f; let idx ← parseInts idx
  let n ← parseNat n; let cnf ← parseGroups cnf
  if !cnfWf n cnf then some "wf-error" else
  some (b01 (exportEquiv k f (idx.map Int.toNat) n cnf))

/-- `bfparse tok tok …` → `ok <formula in wire format>` | `err` | `fuel` -/
def opBfParse (fs : List String) : Option String := do
  let [ts] := fs | none
  let toks := ((trim ts).splitOn " ").filter (· ≠ "")
  match GS.BfParse.parse toks with
  | .ok f _ => some ("ok " ++ GS.BfParse.showSF f)
  | .err => some "err"
  | .fuel => some "fuel"

/-- `bfequiv k | F | G` → 1 when `F` and `G` agree on every assignment of names 0..k-1 -/
def opBfEquiv (fs : List String) : Option String := do
  let [k, f, g] := fs | none
  let k ← parseNat k; let f ← parseSFField f; let g ← parseSFField g
  some (b01 ((leaves k).all (fun bs => SF.eval (nameAsg bs) f == SF.eval (nameAsg bs) g)))

def table : List (String × (List String → Option String)) :=
  [("bfsat", opBfSat), ("bfeval", opBfEval), ("bfexport", opBfExport), ("bfparse", opBfParse), ("bfequiv", opBfEquiv)]

end GS.OpsBf
