import GS.Proto
import GS.Model.PbSet
/-! Driver ops for the pbSet arithmetic mirrors. -/
namespace GS.OpsPb
open GS GS.Proto

def showPb (p : PbSet) : String := s!"{showInts p.weights} | {p.card}"

/-- `clash w1… | c1 | w2… | c2` -/
def opClash (fs : List String) : Option String := do
  let [w1, c1, w2, c2] := fs | none
  let w1 ← parseInts w1; let w2 ← parseInts w2
  let c1 ← (trim c1).toInt?; let c2 ← (trim c2).toInt?
  if w1.length != w2.length then some "len-error" else
  some (showPb (PbSet.clash ⟨w1, c1⟩ ⟨w2, c2⟩))

/-- `divide w… | c | coeff` -/
def opDivide (fs : List String) : Option String := do
  let [w, c, k] := fs | none
  let w ← parseInts w; let c ← (trim c).toInt?; let k ← (trim k).toInt?
  if k ≤ 0 then some "coeff-error" else
  some (showPb (PbSet.divideBy ⟨w, c⟩ k))

/-- `round w… | c | model… | locked` -/
def opRound (fs : List String) : Option String := do
  let [w, c, m, l] := fs | none
  let w ← parseInts w; let c ← (trim c).toInt?; let m ← parseInts m; let l ← parseNat l
  match PbSet.roundToOne ⟨w, c⟩ m l with
  | none => some "div-by-zero"
  | some p => some (showPb p)

/-- `pbholds w… | c | bools` -/
def opPbHolds (fs : List String) : Option String := do
  let [w, c, m] := fs | none
  let w ← parseInts w; let c ← (trim c).toInt?; let m ← parseBools m
  some (if PbSet.holds (asgOf m) ⟨w, c⟩ then "1" else "0")

def table : List (String × (List String → Option String)) :=
  [("clash", opClash), ("divide", opDivide), ("round", opRound), ("pbholds", opPbHolds)]

end GS.OpsPb
