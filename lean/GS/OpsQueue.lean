import GS.Proto
import GS.Model.Queue
/-!
Driver op for the variable order heap mirror (`GS.Model.Queue`).

`queue <acts> | <ops>`: `acts` = space-separated integer activities `a_0 … a_{n-1}` (the queue
starts as `newQueue(acts)`); `ops` = `;`-separated groups of integers:
`1 n` insert(n) · `2` removeMin (output: the value) · `3 n a` `activity[n] = a; if contains(n) { decrease(n) }` ·
`4 n1 n2 …` build([n1, n2, …]) (`4` alone: build of the empty list) · `5 n` contains (output 0/1) ·
`6` empty (output 0/1) · `7 m_0 … m_{k-1}` the loop of chooseLit against the model `m`
(output: the chosen variable or -1) · `8 n` decrease(n) without the `contains` guard ·
`9 v1 v2 …` the two re-insertion loops of cleanupBindings for the trail variables `v1 v2 …` ·
`10 nbVars m_0 … m_{k-1}` rebuildOrderHeap.

Answer: `ok <content> | <indices> | <outputs in order>`, or `panic <k>` where `k` is the 0-based
position of the first op on which the Go code panics. A negative `n` / `v` / `nbVars` is a Go panic
(negative slice index, resp. `make` with a negative length) on every op that takes one. A group that is not one of the above is
unparsable (`none`, the driver answers `bad-op`).
-/
namespace GS.OpsQueue
open GS GS.Proto GS.Queue

def nats (xs : List Int) : Option (List Nat) :=
  xs.mapM (fun x => if x < 0 then none else some x.toNat)

/-- One op: `none` = unparsable; `some none` = Go panic; `some (some (q', outs))`. -/
def step (q : Q) : List Int → Option (Option (Q × List Int))
  | [1, n] => some (if n < 0 then none else (insert q n.toNat).map (fun q' => (q', [])))
  | [2] => some ((removeMin q).map (fun r => (r.1, [(r.2 : Int)])))
  | [3, n, a] => some (if n < 0 then none else (bump q n.toNat a).map (fun q' => (q', [])))
  | 4 :: ns => some ((nats ns).bind (fun ns => (build q ns).map (fun q' => (q', []))))
  | [5, n] => some (if n < 0 then none else some (q, [if contains q n.toNat then 1 else 0]))
  | [6] => some (some (q, [if empty q then 1 else 0]))
  | 7 :: m => some ((chooseLit q m).map (fun r => (r.1, [match r.2 with | some v => (v : Int) | none => -1])))
  | [8, n] => some (if n < 0 then none else (decrease q n.toNat).map (fun q' => (q', [])))
  | 9 :: vs => some ((nats vs).bind (fun vs => (cleanup q vs).map (fun q' => (q', []))))
  | 10 :: nb :: m => some (if nb < 0 then none else (rebuildOrderHeap q nb.toNat m).map (fun q' => (q', [])))
  | _ => none

def run : Q → List (List Int) → Nat → List Int → Option String
  | q, [], _, outs =>
    some ("ok " ++ showInts (q.content.map (fun (x : Nat) => (x : Int))) ++ " | " ++ showInts q.indices ++ " | " ++ showInts outs)
  | q, op :: ops, k, outs =>
    match step q op with
    | none => none
    | some none => some ("panic " ++ toString k)
    | some (some (q', o)) => run q' ops (k + 1) (outs ++ o)

/-- `queue acts | ops` -/
def opQueue (fs : List String) : Option String := do
  let [a, g] := fs | none
  let acts ← parseInts a
  let ops ← parseGroups g
  match newQueue acts with
  | none => some "panic -1"
  | some q => run q ops 0 []

def table : List (String × (List String → Option String)) := [("queue", opQueue)]

#guard opQueue ["1 3 2", ""] == some "ok 1 0 2 | 1 0 2 | "
#guard opQueue ["1 3 2", "2 ; 2 ; 6 ; 2 ; 6 ; 2"] == some "panic 5"
#guard opQueue ["0 0 0", "2 3"] == none
-- the following answers are the ones of the Go code (solver.VerifQueueRun)
#guard opQueue ["0", "2 ; 9 0"] == some "ok 0 0 | 1 | 0"
#guard opQueue ["1 3 2", "2 ; 1 1 ; 1 1 ; 5 1 ; 2 ; 5 1"] == some "ok 1 0 2 | 1 0 2 | 1 1 1 1"
#guard opQueue ["1 2 3 4", "9 0 1 ; 10 4 0 1 0 1"] == some "ok 2 0 0 0 0 0 | 2 -1 0 -1 | "
#guard opQueue ["5 5", "2 ; 2 ; 1 0 ; 9 1"] == some "ok 0 1 1 | 0 2 | 0 1"

end GS.OpsQueue
