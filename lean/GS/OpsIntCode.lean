import GS.Proto
import GS.Generated.IntCode
import GS.Model.Luby
/-!
Driver ops for the translator route (they guard the translator itself) and the Luby mirror.

* `intcode <fn> <arg> …` evaluates the GENERATED definition `GS.Gen.IntCode.<fn>` (names as in
  `GS/Generated/IntCode.lean`: `IntToLit`, `Lit_Int`, `Clause_setLbd`, `left`, …).  Arguments are
  decimal integers, read modulo the width (`BitVec.ofInt`); a `bool` argument is `0` / `1`.
  The answer is one decimal integer: signed (`toInt`) for Go `int32` / `Lit` / `Var` / `int` /
  `decLevel` results, unsigned (`toNat`) for the `uint32` flag word, `0` / `1` for `bool`.
  Unknown function or wrong arity: `none` (the driver answers `bad-op`).
* `luby <i>` answers `GS.Luby.luby i` (`none` when the unwrapped recursion has no answer);
  `lubyrange <a> <b>` answers the values for `a..b` separated by spaces.
-/
namespace GS.OpsIntCode
open GS GS.Proto GS.Gen.IntCode

def b32 (x : Int) : BitVec 32 := BitVec.ofInt 32 x
def b64 (x : Int) : BitVec 64 := BitVec.ofInt 64 x
def sI {w} (x : BitVec w) : String := toString x.toInt
def sN {w} (x : BitVec w) : String := toString x.toNat
def sB (b : Bool) : String := if b then "1" else "0"

def evalFn : String → List Int → Option String
  | "IntToLit", [i] => some (sI (IntToLit (b32 i)))
  | "IntToVar", [i] => some (sI (IntToVar (b32 i)))
  | "Var_Lit", [v] => some (sI (Var_Lit (b32 v)))
  | "Var_Int", [v] => some (sI (Var_Int (b32 v)))
  | "Var_SignedLit", [v, s] => if s = 0 ∨ s = 1 then some (sI (Var_SignedLit (b32 v) (s == 1))) else none
  | "Lit_Var", [l] => some (sI (Lit_Var (b32 l)))
  | "Lit_Int", [l] => some (sI (Lit_Int (b32 l)))
  | "Lit_IsPositive", [l] => some (sB (Lit_IsPositive (b32 l)))
  | "Lit_Negation", [l] => some (sI (Lit_Negation (b32 l)))
  | "Clause_Learned", [x] => some (sB (Clause_Learned (b32 x)))
  | "Clause_Cardinality", [x] => some (sI (Clause_Cardinality (b32 x)))
  | "Clause_lock", [x] => some (sN (Clause_lock (b32 x)))
  | "Clause_unlock", [x] => some (sN (Clause_unlock (b32 x)))
  | "Clause_lbd", [x] => some (sI (Clause_lbd (b32 x)))
  | "Clause_setLbd", [x, n] => some (sN (Clause_setLbd (b32 x) (b64 n)))
  | "Clause_incLbd", [x] => some (sN (Clause_incLbd (b32 x)))
  | "Clause_isLocked", [x] => some (sB (Clause_isLocked (b32 x)))
  | "lvlToSignedLvl", [l, lvl] => some (sI (lvlToSignedLvl (b32 l) (b64 lvl)))
  | "left", [i] => some (sI (left (b64 i)))
  | "right", [i] => some (sI (right (b64 i)))
  | "parent", [i] => some (sI (parent (b64 i)))
  | "abs_decLevel", [x] => some (sI (abs_decLevel (b64 x)))
  | "abs_int", [x] => some (sI (abs_int (b64 x)))
  | "min_int", [a, b] => some (sI (min_int (b64 a) (b64 b)))
  | _, _ => none

/-- `intcode <fn> <args…>` -/
def opIntCode (fs : List String) : Option String := do
  let [f] := fs | none
  match ((trim f).splitOn " ").filter (· ≠ "") with
  | [] => none
  | fn :: args =>
    let xs ← args.mapM (fun t => t.toInt?)
    evalFn fn xs

def showLuby (i : Nat) : String :=
  match GS.Luby.luby i with
  | none => "none"
  | some r => toString r

/-- `luby <i>` -/
def opLuby (fs : List String) : Option String := do
  let [f] := fs | none
  let i ← parseNat f
  some (showLuby i)

/-- `lubyrange <a> <b>` -/
def opLubyRange (fs : List String) : Option String := do
  let [f] := fs | none
  let [a, b] ← (parseInts f) | none
  if a < 0 ∨ b < a then none else
  some (" ".intercalate ((List.range (b.toNat - a.toNat + 1)).map (fun d => showLuby (a.toNat + d))))

def table : List (String × (List String → Option String)) :=
  [("intcode", opIntCode), ("luby", opLuby), ("lubyrange", opLubyRange)]

#guard opIntCode ["IntToLit -3"] == some "5"
#guard opIntCode ["Lit_Int 5"] == some "-3"
#guard opIntCode ["IntToLit 1073741825"] == some "-2147483648"
#guard opIntCode ["Clause_setLbd 2147483648 7"] == some "2147483655"
#guard opIntCode ["Clause_lbd 3221225479"] == some "7"
#guard opIntCode ["parent 0"] == some "-1"
#guard opIntCode ["Nope 1"] == none
#guard opIntCode ["IntToLit 1 2"] == none
#guard opLuby ["7"] == some "4"
#guard opLuby ["0"] == some "none"
#guard opLubyRange ["1 7"] == some "1 1 2 1 1 2 4"

end GS.OpsIntCode
