import GS.Proto
import GS.Model.Optim
/-! Driver ops for the optimisation-loop mirror (`GS/Model/Optim.lean`). -/
namespace GS.OpsOptim
open GS GS.Proto GS.Optim

/-- `<degree> c l c l …` -/
def showLin (c : Lin) : String :=
  showInts (c.degree :: c.terms.flatMap (fun t => [t.1, t.2]))

/-- `bound c l c l … | cost` → the constraint appended at that cost, `<degree> c l c l …`:
    coefficients of the negated literals, terms in the order given, zero weights kept. -/
def opBound (fs : List String) : Option String := do
  let [f, c] := fs | none
  let f ← parseTerms f; let c ← (trim c).toInt?
  some (showLin (boundConstr f c))

/-- `gobound c l c l … | cost` → the same constraint the way Go builds it: terms sorted by decreasing
    weight (stable; Go's order among equal weights is implementation-defined), trailing zero weights
    dropped. -/
def opGoBound (fs : List String) : Option String := do
  let [f, c] := fs | none
  let f ← parseTerms f; let c ← (trim c).toInt?
  some (showLin (goBound f c))

/-- `optloop n | constraints | cost terms` → the loop run with the exhaustive oracle:
    `unsat`, `ok <cost> | <streamed costs>`, `panic | <streamed costs>` or `fuel | …`. -/
def opOptLoop (fs : List String) : Option String := do
  let [n, p, f] := fs | none
  let n ← parseNat n; let p ← parseProblem p; let f ← parseTerms f
  if !(p.wf n && termsWf n f) then some "wf-error" else
  let r := optimalBrute n p f
  match r with
  | .unsat => some "unsat"
  | .ok _ c _ => some s!"ok {c} | {showInts r.costs}"
  | .panic _ => some s!"panic | {showInts r.costs}"
  | .fuel _ => some s!"fuel | {showInts r.costs}"

def table : List (String × (List String → Option String)) :=
  [("bound", opBound), ("gobound", opGoBound), ("optloop", opOptLoop)]

end GS.OpsOptim
