/-!
# GS.Spec.Basic — the vocabulary every property is stated against

Core-only. Literals are DIMACS integers (non-zero; variable = `natAbs`), as in the public
API of gophersat (`[]int`, `[][]int`, `PBConstr.Lits`). An assignment is a total function
from variable numbers to `Bool`. A linear constraint is `Σ coefᵢ·[litᵢ] ≥ degree` over `Int`,
which covers clauses (all coefficients 1, degree 1), cardinality constraints (coefficients 1)
and pseudo-boolean constraints.
-/
namespace GS

/-- A total assignment: variable number (1-based, as in DIMACS) ↦ truth value. -/
abbrev Asg := Nat → Bool

/-- Truth value of a DIMACS literal. -/
def litTrue (a : Asg) (l : Int) : Bool := if l > 0 then a l.natAbs else !(a l.natAbs)

theorem litTrue_neg (a : Asg) (l : Int) (h : l ≠ 0) : litTrue a (-l) = !litTrue a l := by
  unfold litTrue
  by_cases hp : l > 0
  · simp [hp]; omega
  · simp [hp]; omega

/-- A clause (list of literals) is true when one of its literals is. -/
def clauseTrue (a : Asg) (c : List Int) : Bool := c.any (litTrue a)

/-- A CNF (list of clauses) is true when all its clauses are. The empty clause is false. -/
def cnfTrue (a : Asg) (f : List (List Int)) : Bool := f.all (clauseTrue a)

/-- Value contributed by one term `coef · [lit]`. -/
def termVal (a : Asg) (t : Int × Int) : Int := if litTrue a t.2 then t.1 else 0

/-- Left-hand side `Σ coefᵢ·[litᵢ]` of a linear constraint / value of a cost function. -/
def lhs (a : Asg) : List (Int × Int) → Int
  | [] => 0
  | t :: ts => termVal a t + lhs a ts

/-- Linear pseudo-boolean constraint `Σ coefᵢ·[litᵢ] ≥ degree`; terms are `(coef, lit)`. -/
structure Lin where
  terms : List (Int × Int)
  degree : Int
deriving Repr, DecidableEq, Inhabited

def Lin.holds (a : Asg) (c : Lin) : Bool := decide (c.degree ≤ lhs a c.terms)

/-- The clause `l₁ ∨ … ∨ lₖ` as a linear constraint. -/
def Lin.ofClause (ls : List Int) : Lin := ⟨ls.map (fun l => (1, l)), 1⟩

/-- "At least `k` of `ls` are true". -/
def Lin.ofCard (ls : List Int) (k : Int) : Lin := ⟨ls.map (fun l => (1, l)), k⟩

abbrev Problem := List Lin

def Problem.holds (a : Asg) (p : Problem) : Bool := p.all (·.holds a)

def Satisfiable (p : Problem) : Prop := ∃ a, Problem.holds a p = true

def Entails (p : Problem) (c : Lin) : Prop := ∀ a, Problem.holds a p = true → c.holds a = true

/-- CNF as a problem of linear constraints. -/
def Problem.ofCnf (f : List (List Int)) : Problem := f.map Lin.ofClause

/-- Cost of an assignment under a linear cost function. -/
def cost (f : List (Int × Int)) (a : Asg) : Int := lhs a f

/-- `a` is an optimal model of `p` for cost function `f`. -/
def IsOptimum (p : Problem) (f : List (Int × Int)) (a : Asg) : Prop :=
  Problem.holds a p = true ∧ ∀ b, Problem.holds b p = true → cost f a ≤ cost f b

/-- `c` is true in every model of the CNF `f`. -/
def CnfEntails (f : List (List Int)) (c : List Int) : Prop :=
  ∀ a, cnfTrue a f = true → clauseTrue a c = true

def CnfSat (f : List (List Int)) : Prop := ∃ a, cnfTrue a f = true

/-! ### Well-formedness: literals are non-zero and within the declared variables -/

def litOk (n : Nat) (l : Int) : Bool := l != 0 && decide (l.natAbs ≤ n)

def Lin.wf (n : Nat) (c : Lin) : Bool := c.terms.all (fun t => litOk n t.2)

def Problem.wf (n : Nat) (p : Problem) : Bool := p.all (Lin.wf n)

def termsWf (n : Nat) (ts : List (Int × Int)) : Bool := ts.all (fun t => litOk n t.2)

def clauseWf (n : Nat) (c : List Int) : Bool := c.all (litOk n)

def cnfWf (n : Nat) (f : List (List Int)) : Bool := f.all (clauseWf n)

/-! ### Finite assignments -/

/-- Assignment read off a list of booleans: variable `v ≥ 1` is `bs[v-1]`, everything else false. -/
def asgOf (bs : List Bool) : Asg
  | 0 => false
  | v + 1 => bs.getD v false

/-- All boolean lists of length `n`. -/
def leaves : Nat → List (List Bool)
  | 0 => [[]]
  | n + 1 => (leaves n).map (false :: ·) ++ (leaves n).map (true :: ·)

/-- The first `n` values of an assignment, as a list. -/
def restrict (a : Asg) : Nat → Nat → List Bool
  | _, 0 => []
  | from_, n + 1 => a from_ :: restrict a (from_ + 1) n

/-- Models of `p` over the declared variables `1..n`, as boolean lists. -/
def modelsOver (n : Nat) (p : Problem) : List (List Bool) :=
  (leaves n).filter (fun bs => Problem.holds (asgOf bs) p)

/-- Number of total assignments over `1..n` that satisfy `p`. -/
def countOver (n : Nat) (p : Problem) : Nat := (modelsOver n p).length

/-! ### Sub-multisets and MUS (over clause lists) -/

/-- `xs` is a sub-multiset of `ys`: every clause occurs in `xs` at most as often as in `ys`
    (clauses compared as literal lists). -/
def subMultiset : List (List Int) → List (List Int) → Bool
  | [], _ => true
  | x :: xs, ys => if x ∈ ys then subMultiset xs (ys.erase x) else false

/-- Removing the `i`-th element. -/
def dropNth {α} (xs : List α) (i : Nat) : List α := xs.take i ++ xs.drop (i + 1)

/-- `m` is a minimal unsatisfiable set of clauses. -/
def IsMUS (m : List (List Int)) : Prop :=
  ¬ CnfSat m ∧ ∀ i, i < m.length → CnfSat (dropNth m i)

end GS
