import GS.Spec.Basic
/-! # Weighted partial MaxSAT: spec -/
namespace GS

/-- A soft constraint: violating it costs `weight`. -/
structure Soft where
  weight : Int
  c : Lin
deriving Repr, Inhabited

/-- Total weight of the soft constraints violated by `a`. -/
def violated (a : Asg) : List Soft → Int
  | [] => 0
  | s :: ss => (if s.c.holds a then 0 else s.weight) + violated a ss

def softWf (n : Nat) (ss : List Soft) : Bool := ss.all (fun s => s.c.wf n)

/-- `a` satisfies the hard constraints and no assignment satisfying them violates less weight. -/
def IsMaxSatOpt (hard : Problem) (soft : List Soft) (a : Asg) : Prop :=
  Problem.holds a hard = true ∧ ∀ b, Problem.holds b hard = true → violated a soft ≤ violated b soft

end GS
