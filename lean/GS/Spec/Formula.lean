/-!
# GS.Spec.Formula — boolean formulas with the standard semantics of each connective (C11, C12, C17)

`SF` is the formula *as the user writes it* through package `bf`'s builders: variables
(numbered names), constants, negation, n-ary conjunction / disjunction (possibly empty),
implication, equivalence, exclusive-or and exactly-one groups over names.
-/
namespace GS

inductive SF where
  | var (n : Nat)
  | tt
  | ff
  | not (f : SF)
  | and (fs : List SF)
  | or (fs : List SF)
  | imp (a b : SF)
  | iff (a b : SF)
  | xor (a b : SF)
  | unique (ns : List Nat)
deriving Repr, Inhabited

/-- number of `true` values -/
def countTrue : List Bool → Nat
  | [] => 0
  | b :: bs => (if b then 1 else 0) + countTrue bs

mutual
def SF.eval (m : Nat → Bool) : SF → Bool
  | .var n => m n
  | .tt => true
  | .ff => false
  | .not f => !SF.eval m f
  | .and fs => SF.evalAll m fs
  | .or fs => SF.evalAny m fs
  | .imp a b => !SF.eval m a || SF.eval m b
  | .iff a b => SF.eval m a == SF.eval m b
  | .xor a b => SF.eval m a != SF.eval m b
  | .unique ns => countTrue (ns.map m) == 1
def SF.evalAll (m : Nat → Bool) : List SF → Bool
  | [] => true
  | f :: fs => SF.eval m f && SF.evalAll m fs
def SF.evalAny (m : Nat → Bool) : List SF → Bool
  | [] => false
  | f :: fs => SF.eval m f || SF.evalAny m fs
end

end GS
