import GS.Proto
import GS.Model.Append
/-!
# GS.OpsAppend — driver op for the mirror of the prologue of `(*Solver).AppendClause`

    appendsimp <model> | <lits> | <weights> | <card>

* `model`   : the literals bound at the top level (`s.model[v] != 0` after `cleanupBindings(1)`),
              space separated DIMACS integers, e.g. `1 -3`; any order; may be empty. A null literal
              or two opposite literals make the line unparsable (`none`, the driver says `bad-op`).
* `lits`    : the literals of the constraint, in the order of `clause.lits`.
* `weights` : empty for `pbData == nil` (clause / cardinality constraint), else the weights in the
              order of `clause.pbData.weights` (same length as `lits`, otherwise `none`).
* `card`    : `clause.Cardinality()`.

Answer, one line:

* `trivial`                          — `AppendClause` returns without adding anything;
* `unsat`                            — `s.status = Unsat`;
* `units l l l`                      — `s.propagateUnits(clause.lits)` is called with these literals, in this order;
* `attach <card> ; <lits> ; <weights or e>` — `s.appendClause(clause)` is called with this constraint
  (`Cardinality()`, `lits` in order, `pbData.weights` in order, `e` when `pbData == nil`).
-/
namespace GS.OpsAppend
open GS GS.Proto GS.Simplify GS.Append

def showResult : Result → String
  | .trivial => "trivial"
  | .unsat => "unsat"
  | .units ls => if ls.isEmpty then "units" else "units " ++ showInts ls
  | .attach c =>
    let ws := match c.weights with
      | none => "e"
      | some ws => showInts ws
    s!"attach {c.card} ; {showInts c.lits} ; {ws}"

/-- `appendsimp <model> | <lits> | <weights> | <card>` -/
def opAppendSimp (fs : List String) : Option String := do
  let [mf, lf, wf, cf] := fs | none
  let ml ← parseInts mf
  let m ← modelOfLits ml
  let lits ← parseInts lf
  let ws ← parseInts wf
  let card ← (trim cf).toInt?
  let weights : Option (List Int) := if trim wf = "" then none else some ws
  if trim wf ≠ "" ∧ ws.length ≠ lits.length then none
  else some (showResult (appendSimplify m ⟨lits, weights, card⟩))

def table : List (String × (List String → Option String)) :=
  [("appendsimp", opAppendSimp)]

end GS.OpsAppend
