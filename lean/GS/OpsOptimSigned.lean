import GS.Proto
import GS.Model.OptimSigned
/-! Driver ops for the mirror of the repaired optimisation loop (`GS/Model/OptimSigned.lean`).
Same input syntax as the ops of `GS/OpsOptim.lean`; names carry the suffix `s` (signed). -/
namespace GS.OpsOptimSigned
open GS GS.Proto GS.Optim GS.OptimS

/-- `<degree> c l c l …` -/
def showLin (c : Lin) : String :=
  showInts (c.degree :: c.terms.flatMap (fun t => [t.1, t.2]))

/-- `bounds c l c l … | cost` → the constraint appended at that cost by the repaired code,
    `<degree> c l c l …`: sign-normalised terms in the order given, zero weights kept
    (degree `maxCost − cost + 1`, `maxCost` = sum of the positive weights). -/
def opBoundS (fs : List String) : Option String := do
  let [f, c] := fs | none
  let f ← parseTerms f; let c ← (trim c).toInt?
  some (showLin (boundConstrS f c))

/-- `gobounds c l c l … | cost` → the same constraint the way Go builds it: terms sorted by decreasing
    weight (stable; Go's order among equal weights is implementation-defined), trailing zero weights
    dropped. -/
def opGoBoundS (fs : List String) : Option String := do
  let [f, c] := fs | none
  let f ← parseTerms f; let c ← (trim c).toInt?
  some (showLin (goBoundS f c))

/-- `optloops n | constraints | cost terms` → the repaired loop run with the exhaustive oracle:
    `unsat`, `ok <cost> | <streamed costs>`, `panic | <streamed costs>` or `fuel | …`
    (the last two are impossible on well-formed input: `minimizeS_optimal`). -/
def opOptLoopS (fs : List String) : Option String := do
  let [n, p, f] := fs | none
  let n ← parseNat n; let p ← parseProblem p; let f ← parseTerms f
  if !(p.wf n && termsWf n f) then some "wf-error" else
  let r := optimalBruteS n p f
  match r with
  | .unsat => some "unsat"
  | .ok _ c _ => some s!"ok {c} | {showInts r.costs}"
  | .panic _ => some s!"panic | {showInts r.costs}"
  | .fuel _ => some s!"fuel | {showInts r.costs}"

/-- `minimizes n | constraints | cost terms` → the `int` returned by `Minimize()`
    (`-1` for Unsat — and for an optimum of −1), or `none` for panic / fuel. -/
def opMinimizeS (fs : List String) : Option String := do
  let [n, p, f] := fs | none
  let n ← parseNat n; let p ← parseProblem p; let f ← parseTerms f
  if !(p.wf n && termsWf n f) then some "wf-error" else
  match minimizeBruteIntS n p f with
  | some c => some s!"{c}"
  | none => some "none"

/-- `costbounds c l c l …` → `<minCost> <maxCost>`: sum of the negative weights, sum of the positive ones. -/
def opCostBoundsS (fs : List String) : Option String := do
  let [f] := fs | none
  let f ← parseTerms f
  some (showInts [negSum f, posSum f])

def table : List (String × (List String → Option String)) :=
  [("bounds", opBoundS), ("gobounds", opGoBoundS), ("optloops", opOptLoopS),
   ("minimizes", opMinimizeS), ("costbounds", opCostBoundsS)]

end GS.OpsOptimSigned
