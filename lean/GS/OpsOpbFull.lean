import GS.Proto
import GS.OpsFormats
import GS.OpsSimplify
import GS.Model.OpbFull
/-!
# GS.OpsOpbFull — driver ops for `solver.ParseOPB` end to end (`GS.Model.OpbFull`)

Input: ONE field, the text as in `GS.OpsFormats` (`popbfront`): tokens separated by spaces,
lines separated by the bare token `;`; an integer field (`strconv.Atoi` succeeds: `[+-]?[0-9]+`)
is written as the integer, any other field as `w:<text>` (the OPB terminator is `w:;`).

* `popbfull <lines>` →
  `ok status=<0 indet|1 sat|2 unsat> nbvars=<n> units=<l l l> clauses=<c1 ; c2 ; …> | obj=<c l c l …|none>`
  The part before ` | obj=` is exactly what `ppb` prints (`GS.OpsSimplify.showPb showPBCl`): each
  remaining constraint is `card w l w l …` with its terms sorted by (weight descending, literal
  ascending). When `status=2` only `status`, `nbvars`, `units` are meaningful (the harness's
  `mirrorProblem` drops the clause part). `obj=` lists the cost terms `weight literal …` in the
  order of the `min:` line (`pb.minWeights[i] pb.minLits[i]`), `obj=none` when there is no such line
  (`pb.minLits == nil`), `obj=` followed by nothing for an empty `min: ;`.
* `popbfullraw <lines>` → the same with the terms of each constraint in the order the model computes
  (Go's order as long as no constraint of the text has more than 12 terms: `sort.Sort` is a stable
  insertion sort up to that size).

Failures: `err` (Go returns an error), `panic` (Go panics), `unmodelled` (a variable named `x0`,
`x-<n>` or `~x-<n>` ended up in a constraint `simplifyPB` has to look at: Go panics with an index out
of range if and when it gets there; not mirrored).
-/
namespace GS.OpsOpbFull
open GS GS.Proto GS.Formats GS.Simplify GS.OpbFull

def showFail (e : String) : String :=
  if isPanic e then "panic" else if e.startsWith "unmodelled:" then "unmodelled" else "err"

def showObj : Option (List (Int × Int)) → String
  | none => "none"
  | some ts => GS.OpsFormats.showTerms ts

def opWith (showCl : Cl → String) (fs : List String) : Option String := do
  let [l] := fs | none
  let lines ← GS.OpsFormats.parseLines l
  match parseOpbFull lines with
  | .error e => some (showFail e)
  | .ok (pb, obj) => some s!"ok {GS.OpsSimplify.showPb showCl pb} | obj={showObj obj}"

def table : List (String × (List String → Option String)) :=
  [("popbfull", opWith GS.OpsSimplify.showPBCl), ("popbfullraw", opWith GS.OpsSimplify.showPBClRaw)]

end GS.OpsOpbFull
