import GS.Spec.Basic
/-!
# GS.Proto — line protocol shared by the driver ops

`<op> <field> | <field> | ...`; a field is a `;`-separated list of groups, a group is a
space-separated list of integers. Unparsable input yields `none` (the driver answers
`bad-op`; it never defaults).
-/
namespace GS.Proto

def trim (s : String) : String := s.trimAscii.toString

def parseInts (s : String) : Option (List Int) :=
  ((trim s).splitOn " ").filter (· ≠ "") |>.mapM (fun t => t.toInt?)

/-- `a b ; c d ;` → `[[a,b],[c,d]]`; an empty field is the empty list; a group may be empty
    only when written explicitly as `e` (the empty clause). -/
def parseGroups (s : String) : Option (List (List Int)) :=
  let t := trim s
  if t = "" then some []
  else (t.splitOn ";").mapM (fun g => if trim g = "e" then some [] else parseInts g)

def fields (s : String) : List String := (s.splitOn "|").map trim

/-- `deg c1 l1 c2 l2 …` -/
def linOfInts : List Int → Option Lin
  | [] => none
  | d :: rest =>
    let rec go : List Int → Option (List (Int × Int))
      | [] => some []
      | [_] => none
      | c :: l :: r => (go r).map ((c, l) :: ·)
    (go rest).map (fun ts => ⟨ts, d⟩)

def parseProblem (s : String) : Option Problem := do
  let gs ← parseGroups s
  gs.mapM linOfInts

def parseTerms (s : String) : Option (List (Int × Int)) := do
  let xs ← parseInts s
  let l ← linOfInts (0 :: xs)
  pure l.terms

def parseNat (s : String) : Option Nat := (trim s).toNat?

def parseBools (s : String) : Option (List Bool) := do
  let xs ← parseInts s
  xs.mapM (fun x => if x = 0 then some false else if x = 1 then some true else none)

def showInts (xs : List Int) : String := " ".intercalate (xs.map toString)
def showGroups (xs : List (List Int)) : String :=
  " ; ".intercalate (xs.map (fun g => if g.isEmpty then "e" else showInts g))
def showBools (bs : List Bool) : String := String.ofList (bs.map (fun b => if b then '1' else '0'))

end GS.Proto
