import GS.Proto
import GS.Model.Explain
/-!
# GS.OpsExplain — driver ops for the mirror of the `explain` certificate checker (C08)

* `xcheck <nbVars> | <clauses> | <lines>` : `(*Problem).Unsat` (reader entry point)
* `xchan  <nbVars> | <clauses> | <lines>` : `(*Problem).UnsatChan` (channel entry point)

`<clauses>` and `<lines>` are in the `GS.Proto.parseGroups` format (clauses separated by ` ; `,
`e` = the empty clause, an empty field = no clause).  The problem is the one `explain.ParseCNF`
builds from `p cnf <nbVars> <number of clauses>` followed by the clauses (`GS.Explain.mkPb`).

Answer: `valid=<0|1> tagged=<one 0/1 per original clause> stopped=<i> subset=<i1,i2,…>` where
`stopped` is the 0-based index of the line at which the loop returned (the rejected line; for
`xchan` also the accepted empty clause) or `-1` when the loop consumed every line, `tagged` is
`pb.tagged` after the call and `subset` the comma-separated indices of the tagged clauses
(the clauses `UnsatSubset` copies into its result).
Answer `illformed` when some literal is 0 or its variable exceeds `nbVars` (the Go code then
panics with an index out of range as soon as it reaches that literal, or `ParseCNF` fails).
-/
namespace GS.OpsExplain
open GS GS.Proto GS.Explain

def showRun (r : Run) : String :=
  let idx := ",".intercalate ((taggedIdx r.pb.tagged 0).map toString)
  s!"valid={if r.valid then 1 else 0} tagged={showBools r.pb.tagged} stopped={r.stopped} subset={idx}"

def opWith (run : Pb → List (List Int) → Run) (fs : List String) : Option String := do
  let [n, cs, ls] := fs | none
  let n ← parseNat n; let cs ← parseGroups cs; let ls ← parseGroups ls
  if !inputWf n cs ls then some "illformed" else
  some (showRun (run (mkPb n cs) ls))

def opXcheck : List String → Option String := opWith runAll
def opXchan : List String → Option String := opWith runChan

def table : List (String × (List String → Option String)) :=
  [("xcheck", opXcheck), ("xchan", opXchan)]

end GS.OpsExplain
