import GS.Proto
import GS.Model.EnumRound
/-!
# GS.OpsEnumRound — driver op for one concrete round of `Enumerate` / `CountModels`

`enumround2 <n> | <trail: lit level ; …> | <reasons: 0 or literals ; …>`

* `n` = `nbVars`; the trail is `s.trail` in order with `abs(s.model[var])` for each literal; the
  reasons field has one group per trail literal: `0` when `s.reason[var] == nil`, otherwise the
  literals of the antecedent (only nil / non-nil is read by `decisionLits`).  An empty trail is an
  empty field (and an empty reasons field).
* The array `s.model` is rebuilt from the trail (`GS.EnumRound.modelOf n`).

Answer (`GS.EnumRound.roundStep`)
* `finished | <count> | <models>` — `decisionLits` returned no literal;
* `block <literals in the order of the Go slice> | <count> | <models>` — one literal (Go:
  `propagateUnits`) or more (Go: `appendClause`);
* `panic` — `decisionLits` would panic.
`<count>` is the `int` returned by `addCurrentModels` / `countCurrentModels`; `<models>` are the
models sent on the channel, in order, as space-separated strings of `0`/`1` (variable 1 first;
`-` when `n = 0`, empty when nothing is delivered).

Comparison with `VerifSetEnumHook(f func(model, blocking []int))` (solver/verif_hooks_on.go): at each
round `blocking` must be the literal list after `block` (empty ⇔ `finished`), and `model`
(1 true, 0 false, 2 unbound) must be, position by position, the image of `modelOf n trail`
(`> 0 ↦ 1`, `< 0 ↦ 0`, `0 ↦ 2`), which the op `enumround2m` prints; the models received on the
channel between two hook calls must be `<models>` in order.
-/
namespace GS.OpsEnumRound
open GS GS.Proto GS.Analyze GS.EnumRound

def parseTrail (tr rs : List (List Int)) : Option (List Entry) :=
  match tr, rs with
  | [], [] => some []
  | [l, k] :: tr, r :: rs =>
    if k < 0 then none else
    (parseTrail tr rs).map (fun es =>
      (⟨l, k.toNat, false, if r = [0] then none else some r⟩ : Entry) :: es)
  | _, _ => none

def showModels (ms : List (List Bool)) : String :=
  " ".intercalate (ms.map (fun m => if m.isEmpty then "-" else showBools m))

def showRound (r : Round) : String :=
  let hd := match r.next with
    | .finished => "finished"
    | .unit l => s!"block {l}"
    | .clause ls => s!"block {showInts ls}"
  s!"{hd} | {r.count} | {showModels r.models}"

def opEnumRound2 (fs : List String) : Option String := do
  let [n, tr, rs] := fs | none
  let n ← parseNat n
  let es ← parseTrail (← parseGroups tr) (← parseGroups rs)
  match roundStep es (modelOf n es) with
  | none => some "panic"
  | some r => some (showRound r)

/-- `enumround2m <n> | <trail> | <reasons>` → the hook's `model` argument (1 / 0 / 2 per variable). -/
def opEnumRound2m (fs : List String) : Option String := do
  let [n, tr, rs] := fs | none
  let n ← parseNat n
  let es ← parseTrail (← parseGroups tr) (← parseGroups rs)
  some (showInts ((modelOf n es).map (fun x => if x > 0 then 1 else if x < 0 then 0 else 2)))

def table : List (String × (List String → Option String)) :=
  [("enumround2", opEnumRound2), ("enumround2m", opEnumRound2m)]

end GS.OpsEnumRound
