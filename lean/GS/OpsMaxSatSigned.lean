import GS.Proto
import GS.Ops
import GS.OpsMaxSat
import GS.Model.MaxSatSigned
/-! Driver ops for the signed blocking-literal encoding of the current `maxsat.New` (C04). -/
namespace GS.OpsMaxSatSigned
open GS GS.Proto GS.MaxSatEnc GS.MaxSatSigned GS.OpsMaxSat

/-- coefficients as `New` passes them to `solver.GtEq`: `nil` for Go's `nil` slice. -/
def showCoeffs (cs : List Int) : String := if cs.isEmpty then "nil" else showInts cs

def showGo (c : GoConstr) : String := s!"{showInts c.lits} | {showCoeffs c.coeffs} | {c.atLeast}"

/-- `msnews lits | coeffs | atLeast | bl` (empty coeffs = `nil`/empty `Coeffs`) →
    `lits | coeffs | atLeast`: the arguments `New` passes to `solver.GtEq` for one soft
    constraint whose blocking variable would be `bl`, coefficients printed as `nil` when the
    slice is `nil`; or `noblock lits | coeffs | atLeast` when no blocking literal is created
    (`blockCoeff ≤ 0`). -/
def opMsNewS (fs : List String) : Option String := do
  let [ls, cs, d, bl] := fs | none
  let ls ← parseInts ls; let cs ← parseInts cs
  let d ← (trim d).toInt?; let bl ← (trim bl).toInt?
  match newSoftS ⟨ls, cs, d⟩ bl with
  | some r => some (showGo r)
  | none => some s!"noblock {showGo ⟨ls, cs, d⟩}"

/-- `msblock coeffs | atLeast` → `blockCoeff` as computed by the loop of `New`. -/
def opMsBlock (fs : List String) : Option String := do
  let [cs, d] := fs | none
  let cs ← parseInts cs; let d ← (trim d).toInt?
  some (toString (goBlockCoeff ⟨[], cs, d⟩))

/-- `msencs n | hard | soft` (same input as `msenc`) → `<encoded problem> | <cost terms>` with
    the signed encoding `encodeS`: soft constraint `i` is relaxed with `blockCoeff · x_{n+1+i}`
    iff `blockCoeff > 0`. -/
def opMsEncS (fs : List String) : Option String := do
  let [n, h, s] := fs | none
  let n ← parseNat n; let h ← parseProblem h; let s ← GS.Ops.parseSoft s
  if !(h.wf n && softWf n s) then some "wf-error" else
  let (p, f) := encodeS n h s
  some s!"{showProblem p} | {showTerms f}"

/-- `msencgos <constraints>`: same input and output format as `msencgo`, for the current `New`
    (`newGoS`: blocking variables created only when `Weight ≠ 0 && blockCoeff > 0`, numbered as
    Go does). -/
def opMsEncGoS (fs : List String) : Option String := do
  let [cs] := fs | none
  let gs ← parseGroups cs
  let cs ← gs.mapM (fun g => match g with
    | w :: d :: 0 :: ls => some (⟨ls, [], d, w⟩ : MsConstr)
    | w :: d :: 1 :: r => (linOfInts (d :: r)).map (fun l => ⟨l.terms.map (·.2), l.terms.map (·.1), d, w⟩)
    | _ => none)
  if cs.any (fun c => c.lits.any (· == 0)) then some "wf-error" else
  let st := newGoS cs
  match st.constrs.mapM GoConstr.toLin with
  | none => some "panic"
  | some p => some s!"{showProblem p} | {showTerms st.costFn} | {showInts st.varInts}"

def table : List (String × (List String → Option String)) :=
  [("msnews", opMsNewS), ("msblock", opMsBlock), ("msencs", opMsEncS), ("msencgos", opMsEncGoS)]

end GS.OpsMaxSatSigned
