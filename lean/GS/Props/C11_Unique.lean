import GS.Model.BfUnique
import GS.Props.C11_BfBase
/-!
# C11/C12 — `uniqueRec` (what `bf.Unique` becomes where it must hold) means "exactly one"

* `natDims_*` : the integer grid dimensions are `⌊√n + ½⌋` and `⌈√n⌉` (characterised without
  reals), and they satisfy `DimsOk` (what `uniqueRec` needs) for every `n ≥ 5`;
* `uniqueRecF_sound` : **every** assignment (of all keys, dummy ones included) that satisfies
  `uniqueRec dims vars` makes exactly one *position* of `vars` true — no distinctness, no
  freshness hypothesis, any naming `nm` of the dummy variables;
* `unique_complete` : for an **injective** naming, every assignment with exactly one position of
  the names true extends — each line / column dummy being the disjunction of its members, at
  every level of the recursion — to an assignment satisfying `uniqueRec`;
* `natName_inj`, `unique_sem` : the two directions for the concrete naming `natName` and `natDims`.

"Exactly one" is counted by position (`countTrue (vars.map m) = 1`, as in `SF.unique` and
`uniqueSmall_eval`), so a repeated name makes both sides false when it is true.
-/
namespace GS.BfUnique
open GS GS.Bf

/-! ### `natDims` -/

theorem succ_sq (s : Nat) : (s + 1) * (s + 1) = s * s + 2 * s + 1 := by
  simp only [Nat.add_mul, Nat.mul_add, Nat.mul_one, Nat.one_mul]; omega

/-- **`nbLines = ⌊√n + ½⌋`**: `L − ½ ≤ √n < L + ½`, i.e. `L² − L + ¼ ≤ n < L² + L + ¼`, i.e.
    (integers) `L² − L < n ≤ L² + L`; written without subtraction. -/
theorem natDimsOf_lines (n s : Nat) (hn : 1 ≤ n) (h1 : s * s ≤ n) (h2 : n < (s + 1) * (s + 1)) :
    (natDimsOf n s).1 * (natDimsOf n s).1 < n + (natDimsOf n s).1 ∧
    n ≤ (natDimsOf n s).1 * (natDimsOf n s).1 + (natDimsOf n s).1 := by
  rw [succ_sq] at h2
  simp only [natDimsOf]
  split
  · have : 1 ≤ s := by
      rcases Nat.eq_zero_or_pos s with h | h
      · subst h; omega
      · exact h
    omega
  · rw [succ_sq]; omega

/-- **`nbCols = ⌈√n⌉`**: `(C − 1)² < n ≤ C²`. -/
theorem natDimsOf_cols (n s : Nat) (hn : 1 ≤ n) (h1 : s * s ≤ n) (h2 : n < (s + 1) * (s + 1)) :
    n ≤ (natDimsOf n s).2 * (natDimsOf n s).2 ∧
    ((natDimsOf n s).2 - 1) * ((natDimsOf n s).2 - 1) < n := by
  rw [succ_sq] at h2
  simp only [natDimsOf]
  split
  · rename_i h
    have hs : 1 ≤ s := by
      rcases Nat.eq_zero_or_pos s with h0 | h0
      · subst h0; omega
      · exact h0
    obtain ⟨r, rfl⟩ : ∃ r, s = r + 1 := ⟨s - 1, by omega⟩
    rw [succ_sq] at h ⊢
    simp only [Nat.add_sub_cancel]
    omega
  · rw [succ_sq]
    simp only [Nat.add_sub_cancel]
    omega

theorem natDims_lines (n : Nat) (hn : 1 ≤ n) :
    (natDims n).1 * (natDims n).1 < n + (natDims n).1 ∧ n ≤ (natDims n).1 * (natDims n).1 + (natDims n).1 :=
  natDimsOf_lines n _ hn (Nat.sqrt_le n) (Nat.lt_succ_sqrt n)

theorem natDims_cols (n : Nat) (hn : 1 ≤ n) :
    n ≤ (natDims n).2 * (natDims n).2 ∧ ((natDims n).2 - 1) * ((natDims n).2 - 1) < n :=
  natDimsOf_cols n _ hn (Nat.sqrt_le n) (Nat.lt_succ_sqrt n)

/-- the two characterisations determine the values: `natDims n` is *the* pair `(⌊√n+½⌋, ⌈√n⌉)`. -/
theorem natDims_unique (n L C : Nat) (hn : 1 ≤ n)
    (hL1 : L * L < n + L) (hL2 : n ≤ L * L + L) (hC1 : n ≤ C * C) (hC2 : (C - 1) * (C - 1) < n) :
    natDims n = (L, C) := by
  have ⟨a1, a2⟩ := natDims_lines n hn
  have ⟨b1, b2⟩ := natDims_cols n hn
  generalize (natDims n) = d at a1 a2 b1 b2
  obtain ⟨L', C'⟩ := d
  simp only at a1 a2 b1 b2
  have hLL : L' = L := by
    rcases Nat.lt_trichotomy L' L with h | h | h
    · have p1 : (L' + 1) * L ≤ L * L := Nat.mul_le_mul_right L h
      have p2 : L' * (L' + 1) ≤ L' * L := Nat.mul_le_mul_left L' h
      rw [Nat.add_mul, Nat.one_mul] at p1
      rw [Nat.mul_add, Nat.mul_one] at p2
      omega
    · exact h
    · have p1 : (L + 1) * L' ≤ L' * L' := Nat.mul_le_mul_right L' h
      have p2 : L * (L + 1) ≤ L * L' := Nat.mul_le_mul_left L h
      rw [Nat.add_mul, Nat.one_mul] at p1
      rw [Nat.mul_add, Nat.mul_one] at p2
      omega
  have hCC : C' = C := by
    rcases Nat.lt_trichotomy C' C with h | h | h
    · have := Nat.mul_le_mul (show C' ≤ C - 1 by omega) (show C' ≤ C - 1 by omega)
      omega
    · exact h
    · have := Nat.mul_le_mul (show C ≤ C' - 1 by omega) (show C ≤ C' - 1 by omega)
      omega
  rw [hLL, hCC]

theorem natDimsOf_ok (n s : Nat) (hn : 5 ≤ n) (h1 : s * s ≤ n) (h2 : n < (s + 1) * (s + 1)) :
    0 < (natDimsOf n s).2 ∧ n ≤ (natDimsOf n s).1 * (natDimsOf n s).2 ∧
    (natDimsOf n s).1 < n ∧ (natDimsOf n s).2 < n := by
  rw [succ_sq] at h2
  have hs : 2 ≤ s := by
    have : s = 0 ∨ s = 1 ∨ 2 ≤ s := by omega
    rcases this with h | h | h
    · subst h; omega
    · subst h; omega
    · exact h
  have h2s : 2 * s ≤ s * s := Nat.mul_le_mul_right s hs
  simp only [natDimsOf]
  split <;> split <;> (try simp only [succ_sq, Nat.mul_add, Nat.add_mul, Nat.mul_one, Nat.one_mul]) <;> omega

/-- **`natDims` meets every requirement of `uniqueRec`** for all `n ≥ 5`: `nbCols > 0`, all the
    `n` variables fit in the `nbLines × nbCols` grid (no index out of range), and both recursive
    calls are on strictly fewer variables. -/
theorem natDims_ok : DimsOk natDims :=
  fun n hn => natDimsOf_ok n _ hn (Nat.sqrt_le n) (Nat.lt_succ_sqrt n)

/-- evaluation of `natDims` on a literal (`Nat.sqrt` is defined by well-founded recursion). -/
theorem natDims_eq (n s : Nat) (h1 : s * s ≤ n) (h2 : n < (s + 1) * (s + 1)) :
    natDims n = natDimsOf n s := by
  have a1 := Nat.sqrt_le n
  have a2 := Nat.lt_succ_sqrt n
  have : Nat.sqrt n = s := by
    rcases Nat.lt_trichotomy (Nat.sqrt n) s with h | h | h
    · have := Nat.mul_le_mul (show Nat.sqrt n + 1 ≤ s from h) (show Nat.sqrt n + 1 ≤ s from h)
      simp only [Nat.succ_eq_add_one] at a2; omega
    · exact h
    · have := Nat.mul_le_mul (show s + 1 ≤ Nat.sqrt n from h) (show s + 1 ≤ Nat.sqrt n from h)
      omega
  simp only [natDims, this]

example : natDims 5 = (2, 3) ∧ natDims 7 = (3, 3) ∧ natDims 12 = (3, 4) ∧ natDims 21 = (5, 5) :=
  ⟨by rw [natDims_eq 5 2 (by decide) (by decide)]; decide,
   by rw [natDims_eq 7 2 (by decide) (by decide)]; decide,
   by rw [natDims_eq 12 3 (by decide) (by decide)]; decide,
   by rw [natDims_eq 21 4 (by decide) (by decide)]; decide⟩

/-! ### exactly one position true, and the grid argument on lists of booleans -/

/-- "some element at a position `q` with `f (p + q)` is true" -/
def anyFrom (f : Nat → Bool) : Nat → List Bool → Bool
  | _, [] => false
  | p, b :: bs => (f p && b) || anyFrom f (p + 1) bs

theorem anyFrom_iff (f : Nat → Bool) : ∀ (bs : List Bool) (p : Nat),
    anyFrom f p bs = true ↔ ∃ q : Nat, bs[q]? = some true ∧ f (p + q) = true := by
  intro bs
  induction bs with
  | nil => intro p; simp [anyFrom]
  | cons b bs ih =>
    intro p
    simp only [anyFrom, Bool.or_eq_true, Bool.and_eq_true, ih]
    constructor
    · rintro (⟨h1, h2⟩ | ⟨q, h1, h2⟩)
      · exact ⟨0, by simp [h2], by simpa using h1⟩
      · exact ⟨q + 1, by simpa using h1, by rw [← h2]; congr 1; omega⟩
    · rintro ⟨q, h1, h2⟩
      cases q with
      | zero => left; exact ⟨by simpa using h2, by simpa using h1⟩
      | succ q => right; exact ⟨q, by simpa using h1, by rw [← h2]; congr 1; omega⟩

/-- exactly one position holds `true` -/
def One (bs : List Bool) : Prop := ∃ p : Nat, bs[p]? = some true ∧ ∀ q : Nat, bs[q]? = some true → q = p

theorem countTrue_zero_iff : ∀ bs : List Bool, countTrue bs = 0 ↔ ∀ q : Nat, bs[q]? ≠ some true := by
  intro bs
  induction bs with
  | nil => simp [countTrue]
  | cons b bs ih =>
    cases b with
    | true =>
      simp only [countTrue, if_true]
      constructor
      · intro h; omega
      · intro h; exact absurd (by simp) (h 0)
    | false =>
      simp only [countTrue, Bool.false_eq_true, if_false, Nat.zero_add, ih]
      constructor
      · intro h q
        cases q with
        | zero => simp
        | succ q => simpa using h q
      · intro h q; simpa using h (q + 1)

theorem countTrue_one_iff : ∀ bs : List Bool, countTrue bs = 1 ↔ One bs := by
  intro bs
  induction bs with
  | nil => simp [countTrue, One]
  | cons b bs ih =>
    cases b with
    | true =>
      simp only [countTrue, if_true]
      rw [show (1 + countTrue bs = 1) ↔ countTrue bs = 0 by omega, countTrue_zero_iff]
      constructor
      · intro h
        refine ⟨0, by simp, ?_⟩
        intro q hq
        cases q with
        | zero => rfl
        | succ q => exact absurd (by simpa using hq) (h q)
      · rintro ⟨p, _, hp2⟩ q hq
        have h0 := hp2 0 (by simp)
        have h1 := hp2 (q + 1) (by simpa using hq)
        omega
    | false =>
      simp only [countTrue, Bool.false_eq_true, if_false, Nat.zero_add, ih]
      constructor
      · rintro ⟨p, hp1, hp2⟩
        refine ⟨p + 1, by simpa using hp1, ?_⟩
        intro q hq
        cases q with
        | zero => simp at hq
        | succ q => have := hp2 q (by simpa using hq); omega
      · rintro ⟨p, hp1, hp2⟩
        cases p with
        | zero => simp at hp1
        | succ p =>
          refine ⟨p, by simpa using hp1, ?_⟩
          intro q hq
          have := hp2 (q + 1) (by simpa using hq)
          omega

/-- value of each line: the disjunction of its members -/
def lineVals (L C : Nat) (bs : List Bool) : List Bool :=
  (List.range L).map (fun i => anyFrom (fun p => p / C == i) 0 bs)

/-- value of each column: the disjunction of its members -/
def colVals (C : Nat) (bs : List Bool) : List Bool :=
  (List.range C).map (fun j => anyFrom (fun p => p % C == j) 0 bs)

theorem getElem?_map_range (L : Nat) (g : Nat → Bool) (i : Nat) :
    ((List.range L).map g)[i]? = some true ↔ i < L ∧ g i = true := by
  by_cases h : i < L
  · simp [h]
  · simp [h]

theorem lineVals_get (L C : Nat) (bs : List Bool) (i : Nat) :
    (lineVals L C bs)[i]? = some true ↔ i < L ∧ ∃ q : Nat, bs[q]? = some true ∧ q / C = i := by
  unfold lineVals
  rw [getElem?_map_range, anyFrom_iff]
  simp

theorem colVals_get (C : Nat) (bs : List Bool) (j : Nat) :
    (colVals C bs)[j]? = some true ↔ j < C ∧ ∃ q : Nat, bs[q]? = some true ∧ q % C = j := by
  unfold colVals
  rw [getElem?_map_range, anyFrom_iff]
  simp

theorem lt_length_of_get {bs : List Bool} {q : Nat} (h : bs[q]? = some true) : q < bs.length := by
  rcases Nat.lt_or_ge q bs.length with h' | h'
  · exact h'
  · rw [List.getElem?_eq_none h'] at h; cases h

/-- **The grid argument.** When the `n` positions fit in an `L × C` grid (`p ↦ (p / C, p % C)`),
    exactly one position is true iff exactly one line is true and exactly one column is true. -/
theorem grid (L C : Nat) (bs : List Bool) (hC : 0 < C) (hfit : bs.length ≤ L * C) :
    One bs ↔ One (lineVals L C bs) ∧ One (colVals C bs) := by
  have hline : ∀ q : Nat, bs[q]? = some true → q / C < L := by
    intro q hq
    have := lt_length_of_get hq
    exact Nat.div_lt_of_lt_mul (by rw [Nat.mul_comm]; omega)
  constructor
  · rintro ⟨p, hp1, hp2⟩
    constructor
    · refine ⟨p / C, (lineVals_get L C bs _).2 ⟨hline p hp1, p, hp1, rfl⟩, ?_⟩
      intro i hi
      obtain ⟨_, q, hq1, hq2⟩ := (lineVals_get L C bs i).1 hi
      rw [← hq2, hp2 q hq1]
    · refine ⟨p % C, (colVals_get C bs _).2 ⟨Nat.mod_lt p hC, p, hp1, rfl⟩, ?_⟩
      intro j hj
      obtain ⟨_, q, hq1, hq2⟩ := (colVals_get C bs j).1 hj
      rw [← hq2, hp2 q hq1]
  · rintro ⟨⟨i, hi1, hi2⟩, ⟨j, _, hj2⟩⟩
    obtain ⟨_, p, hp1, _⟩ := (lineVals_get L C bs i).1 hi1
    have hcell : ∀ q : Nat, bs[q]? = some true → q / C = i ∧ q % C = j := by
      intro q hq
      exact ⟨hi2 _ ((lineVals_get L C bs _).2 ⟨hline q hq, q, hq, rfl⟩),
        hj2 _ ((colVals_get C bs _).2 ⟨Nat.mod_lt q hC, q, hq, rfl⟩)⟩
    refine ⟨p, hp1, ?_⟩
    intro q hq
    have ⟨a1, a2⟩ := hcell q hq
    have ⟨b1, b2⟩ := hcell p hp1
    rw [← Nat.div_add_mod q C, ← Nat.div_add_mod p C, a1, a2, b1, b2]

/-! ### evaluation of the formula built by `uniqueRecF` -/

theorem eval_keyVar (m : Key → Bool) (k : Key) : eval m (keyVar k) = m k := rfl

theorem evalAny_pick (m : Key → Bool) (f : Nat → Bool) : ∀ (vars : List Key) (p : Nat),
    evalAny m ((pick f p vars).map keyVar) = anyFrom f p (vars.map m) := by
  intro vars
  induction vars with
  | nil => intro p; simp [pick, evalAny, anyFrom]
  | cons k ks ih =>
    intro p
    simp only [pick, List.map_cons, anyFrom]
    cases hf : f p
    · simp [ih]
    · simp [evalAny, ih, eval_keyVar]

theorem evalAll_map {α} (m : Key → Bool) (g : α → F) : ∀ xs : List α,
    evalAll m (xs.map g) = true ↔ ∀ x ∈ xs, eval m (g x) = true := by
  intro xs
  induction xs with
  | nil => simp [evalAll]
  | cons x xs ih => simp [evalAll, ih]

theorem lineEqs_eval (nm : Bool → Nat → List Key → Nat) (m : Key → Bool) (L C : Nat) (vars : List Key) :
    evalAll m (lineEqs nm L C vars) = true ↔
      (dummyKeys nm false vars L).map m = lineVals L C (vars.map m) := by
  unfold lineEqs dummyKeys lineVals lineMembers
  rw [evalAll_map, List.map_map, List.map_inj_left]
  constructor
  · intro h i hi
    have := h i hi
    rw [eq_eval, eval_keyVar] at this
    simp only [eval, evalAny_pick, beq_iff_eq] at this
    exact this
  · intro h i hi
    have := h i hi
    rw [eq_eval, eval_keyVar]
    simp only [eval, evalAny_pick, beq_iff_eq]
    exact this

theorem colEqs_eval (nm : Bool → Nat → List Key → Nat) (m : Key → Bool) (C : Nat) (vars : List Key) :
    evalAll m (colEqs nm C vars) = true ↔
      (dummyKeys nm true vars C).map m = colVals C (vars.map m) := by
  unfold colEqs dummyKeys colVals colMembers
  rw [evalAll_map, List.map_map, List.map_inj_left]
  constructor
  · intro h i hi
    have := h i hi
    rw [eq_eval, eval_keyVar] at this
    simp only [eval, evalAny_pick, beq_iff_eq] at this
    exact this
  · intro h i hi
    have := h i hi
    rw [eq_eval, eval_keyVar]
    simp only [eval, evalAny_pick, beq_iff_eq]
    exact this

theorem uniqueRecF_small (dims : Nat → Nat × Nat) (nm : Bool → Nat → List Key → Nat) (m : Key → Bool)
    (fuel : Nat) (vars : List Key) (h : vars.length ≤ 4) :
    eval m (uniqueRecF dims nm fuel vars) = (countTrue (vars.map m) == 1) := by
  cases fuel with
  | zero => simp only [uniqueRecF, uniqueSmallV_eval, map_eval_keyVar]
  | succ fuel => simp only [uniqueRecF, h, if_true, uniqueSmallV_eval, map_eval_keyVar]

/-- one unfolding of `uniqueRec` on more than 4 variables -/
theorem uniqueRecF_step (dims : Nat → Nat × Nat) (nm : Bool → Nat → List Key → Nat) (m : Key → Bool)
    (fuel : Nat) (vars : List Key) (h : ¬ vars.length ≤ 4) :
    eval m (uniqueRecF dims nm (fuel + 1) vars) = true ↔
      (dummyKeys nm false vars (dims vars.length).1).map m = lineVals (dims vars.length).1 (dims vars.length).2 (vars.map m) ∧
      (dummyKeys nm true vars (dims vars.length).2).map m = colVals (dims vars.length).2 (vars.map m) ∧
      eval m (uniqueRecF dims nm fuel (dummyKeys nm false vars (dims vars.length).1)) = true ∧
      eval m (uniqueRecF dims nm fuel (dummyKeys nm true vars (dims vars.length).2)) = true := by
  rw [← lineEqs_eval, ← colEqs_eval]
  simp only [uniqueRecF, h, if_false, eval, evalAll_append, evalAll, Bool.and_true, Bool.and_eq_true]
  constructor
  · rintro ⟨⟨a, b⟩, c, d⟩; exact ⟨a, b, c, d⟩
  · rintro ⟨a, b, c, d⟩; exact ⟨⟨a, b⟩, c, d⟩

theorem dummyKeys_length (nm : Bool → Nat → List Key → Nat) (t : Bool) (vars : List Key) (k : Nat) :
    (dummyKeys nm t vars k).length = k := by simp [dummyKeys]

/-- **The fuel `len(vars)` suffices**: with `DimsOk dims`, any two amounts of fuel `≥ len(vars)`
    give the same formula (the out-of-fuel branch is never reached). -/
theorem uniqueRecF_fuel (dims : Nat → Nat × Nat) (nm : Bool → Nat → List Key → Nat) (hd : DimsOk dims) :
    ∀ (f f' : Nat) (vars : List Key), vars.length ≤ f → vars.length ≤ f' →
      uniqueRecF dims nm f vars = uniqueRecF dims nm f' vars := by
  intro f
  induction f with
  | zero =>
    intro f' vars h _
    have h4 : vars.length ≤ 4 := by omega
    cases f' with
    | zero => rfl
    | succ f' => simp only [uniqueRecF, h4, if_true]
  | succ f ih =>
    intro f' vars h h'
    by_cases h4 : vars.length ≤ 4
    · cases f' with
      | zero => simp only [uniqueRecF, h4, if_true]
      | succ f' => simp only [uniqueRecF, h4, if_true]
    · cases f' with
      | zero => omega
      | succ f' =>
        obtain ⟨_, _, hL, hC⟩ := hd vars.length (by omega)
        simp only [uniqueRecF, h4, if_false]
        rw [ih f' _ (by rw [dummyKeys_length]; omega) (by rw [dummyKeys_length]; omega),
          ih f' _ (by rw [dummyKeys_length]; omega) (by rw [dummyKeys_length]; omega)]

/-! ### the variables of `uniqueRec vars`: those of `vars` and line / column dummies; no `unique` node -/

theorem isFK_dummyKey (nm : Bool → Nat → List Key → Nat) (t : Bool) (vars : List Key) (i : Nat) :
    isFK (dummyKey nm t vars i) = true := by
  simp [isFK, dummyKey]

theorem all_pick {α} (p : α → Bool) (f : Nat → Bool) : ∀ (xs : List α) (q : Nat), xs.all p = true → (pick f q xs).all p = true := by
  intro xs
  induction xs with
  | nil => intro q _; simp [pick]
  | cons x xs ih =>
    intro q h
    simp only [List.all_cons, Bool.and_eq_true] at h
    simp only [pick]
    split
    · simp only [List.all_cons, Bool.and_eq_true]; exact ⟨h.1, ih _ h.2⟩
    · exact ih _ h.2

theorem eq_allK (p : Key → Bool) (a b : F) (ha : allK p a = true) (hb : allK p b = true) : allK p (Bf.eq a b) = true := by
  simp [Bf.eq, allK, allKs, ha, hb]

theorem eq_noU (a b : F) (ha : noU a = true) (hb : noU b = true) : noU (Bf.eq a b) = true := by
  simp [Bf.eq, noU, noUs, ha, hb]

theorem dummyKeys_all_isFK (nm : Bool → Nat → List Key → Nat) (t : Bool) (vars : List Key) (k : Nat) :
    (dummyKeys nm t vars k).all isFK = true := by
  simp only [dummyKeys, List.all_eq_true, List.mem_map]
  rintro _ ⟨i, _, rfl⟩
  exact isFK_dummyKey nm t vars i

/-- every variable of `uniqueRec vars` is a formula-level variable (`isFK`) when those of `vars` are -/
theorem uniqueRecF_allK (dims : Nat → Nat × Nat) (nm : Bool → Nat → List Key → Nat) :
    ∀ (fuel : Nat) (vars : List Key), vars.all isFK = true → allK isFK (uniqueRecF dims nm fuel vars) = true := by
  intro fuel
  induction fuel with
  | zero => intro vars h; exact uniqueSmallV_allK isFK vars h
  | succ fuel ih =>
    intro vars h
    simp only [uniqueRecF]
    split
    · exact uniqueSmallV_allK isFK vars h
    · simp only [allK, allKs_append, allKs, Bool.and_true, Bool.and_eq_true]
      refine ⟨⟨?_, ?_⟩, ih _ (dummyKeys_all_isFK nm false vars _), ih _ (dummyKeys_all_isFK nm true vars _)⟩
      · unfold lineEqs
        rw [allKs_map]
        intro i _
        apply eq_allK
        · exact isFK_dummyKey nm false vars i
        · simp only [allK, allKs_keyVar]; exact all_pick _ _ _ _ h
      · unfold colEqs
        rw [allKs_map]
        intro i _
        apply eq_allK
        · exact isFK_dummyKey nm true vars i
        · simp only [allK, allKs_keyVar]; exact all_pick _ _ _ _ h

/-- `uniqueRec vars` contains no `unique` node -/
theorem uniqueRecF_noU (dims : Nat → Nat × Nat) (nm : Bool → Nat → List Key → Nat) :
    ∀ (fuel : Nat) (vars : List Key), noU (uniqueRecF dims nm fuel vars) = true := by
  intro fuel
  induction fuel with
  | zero => intro vars; exact uniqueSmallV_noU vars
  | succ fuel ih =>
    intro vars
    simp only [uniqueRecF]
    split
    · exact uniqueSmallV_noU vars
    · simp only [noU, noUs_append, noUs, Bool.and_true, Bool.and_eq_true]
      refine ⟨⟨?_, ?_⟩, ih _, ih _⟩
      · unfold lineEqs
        rw [noUs_map]
        intro i _
        exact eq_noU _ _ rfl (by simp only [noU]; exact noUs_keyVar _)
      · unfold colEqs
        rw [noUs_map]
        intro i _
        exact eq_noU _ _ rfl (by simp only [noU]; exact noUs_keyVar _)

/-! ### (→) every model of `uniqueRec` has exactly one of `vars` true -/

/-- **Soundness of `uniqueRec`.** For any naming of the dummy variables (injective or not) and
    any assignment `m` of all keys: if `m` satisfies `uniqueRec dims vars` then exactly one
    position of `vars` is true under `m`. Only `DimsOk dims` is needed. -/
theorem uniqueRecF_sound (dims : Nat → Nat × Nat) (nm : Bool → Nat → List Key → Nat)
    (hd : DimsOk dims) (m : Key → Bool) : ∀ (fuel : Nat) (vars : List Key), vars.length ≤ fuel →
    eval m (uniqueRecF dims nm fuel vars) = true → countTrue (vars.map m) = 1 := by
  intro fuel
  induction fuel with
  | zero =>
    intro vars hl h
    rw [uniqueRecF_small dims nm m 0 vars (by omega)] at h
    simpa using h
  | succ fuel ih =>
    intro vars hl h
    by_cases h4 : vars.length ≤ 4
    · rw [uniqueRecF_small dims nm m _ vars h4] at h
      simpa using h
    · obtain ⟨e1, e2, r1, r2⟩ := (uniqueRecF_step dims nm m fuel vars h4).1 h
      obtain ⟨hC, hfit, hL, hC'⟩ := hd vars.length (by omega)
      have c1 := ih _ (by rw [dummyKeys_length]; omega) r1
      have c2 := ih _ (by rw [dummyKeys_length]; omega) r2
      rw [e1, countTrue_one_iff] at c1
      rw [e2, countTrue_one_iff] at c2
      rw [countTrue_one_iff]
      exact (grid (dims vars.length).1 (dims vars.length).2 _ hC (by simpa using hfit)).2 ⟨c1, c2⟩

/-! ### (←) coherent assignments -/

/-- `v` is *coherent* on the set of keys `S`: `S` is closed under "dummy key of a group of keys
    of `S`", and every such line (column) dummy has the value of the disjunction of the members
    of its line (column). -/
def Coh (dims : Nat → Nat × Nat) (nm : Bool → Nat → List Key → Nat) (S : Key → Prop) (v : Key → Bool) : Prop :=
  ∀ g : List Key, (∀ k ∈ g, S k) →
    (∀ t i, S (dummyKey nm t g i)) ∧
    (∀ i, v (dummyKey nm false g i) = anyFrom (fun p => p / (dims g.length).2 == i) 0 (g.map v)) ∧
    (∀ j, v (dummyKey nm true g j) = anyFrom (fun p => p % (dims g.length).2 == j) 0 (g.map v))

/-- For a coherent assignment, `uniqueRec dims vars` holds **iff** exactly one position of `vars` is true. -/
theorem uniqueRecF_coherent (dims : Nat → Nat × Nat) (nm : Bool → Nat → List Key → Nat)
    (hd : DimsOk dims) (S : Key → Prop) (v : Key → Bool) (hc : Coh dims nm S v) :
    ∀ (fuel : Nat) (vars : List Key), vars.length ≤ fuel → (∀ k ∈ vars, S k) →
    countTrue (vars.map v) = 1 → eval v (uniqueRecF dims nm fuel vars) = true := by
  intro fuel
  induction fuel with
  | zero =>
    intro vars hl _ h
    rw [uniqueRecF_small dims nm v 0 vars (by omega)]
    simpa using h
  | succ fuel ih =>
    intro vars hl hS h
    by_cases h4 : vars.length ≤ 4
    · rw [uniqueRecF_small dims nm v _ vars h4]
      simpa using h
    · obtain ⟨hC, hfit, hL, hC'⟩ := hd vars.length (by omega)
      obtain ⟨cS, cL, cC⟩ := hc vars hS
      have e1 : (dummyKeys nm false vars (dims vars.length).1).map v =
          lineVals (dims vars.length).1 (dims vars.length).2 (vars.map v) := by
        unfold dummyKeys lineVals
        rw [List.map_map, List.map_inj_left]
        intro i _; exact cL i
      have e2 : (dummyKeys nm true vars (dims vars.length).2).map v =
          colVals (dims vars.length).2 (vars.map v) := by
        unfold dummyKeys colVals
        rw [List.map_map, List.map_inj_left]
        intro i _; exact cC i
      have ⟨o1, o2⟩ := (grid (dims vars.length).1 (dims vars.length).2 _ hC (by simpa using hfit)).1 ((countTrue_one_iff _).1 h)
      refine (uniqueRecF_step dims nm v fuel vars h4).2 ⟨e1, e2, ?_, ?_⟩
      · apply ih _ (by rw [dummyKeys_length]; omega)
        · intro k hk
          simp only [dummyKeys, List.mem_map] at hk
          obtain ⟨i, _, rfl⟩ := hk
          exact cS false i
        · rw [e1, countTrue_one_iff]; exact o1
      · apply ih _ (by rw [dummyKeys_length]; omega)
        · intro k hk
          simp only [dummyKeys, List.mem_map] at hk
          obtain ⟨i, _, rfl⟩ := hk
          exact cS true i
        · rw [e2, countTrue_one_iff]; exact o2

/-! ### existence of a coherent extension, for an injective naming -/

/-- the keys generated from the problem variables: a problem variable, or "line / column `i` of
    a group of generated keys" -/
inductive D where
  | base (n : Nat)
  | node (t : Bool) (i : Nat) (g : List D)

mutual
def D.name (nm : Bool → Nat → List Key → Nat) : D → Key
  | .base n => (n, false)
  | .node t i g => dummyKey nm t (D.names nm g) i
def D.names (nm : Bool → Nat → List Key → Nat) : List D → List Key
  | [] => []
  | d :: ds => D.name nm d :: D.names nm ds
end

mutual
/-- the value every generated key must have: problem variables as in `m`, a line / column dummy
    the disjunction of its members -/
def D.val (dims : Nat → Nat × Nat) (m : Key → Bool) : D → Bool
  | .base n => m (n, false)
  | .node t i g =>
    anyFrom (fun p => if t then p % (dims g.length).2 == i else p / (dims g.length).2 == i) 0 (D.vals dims m g)
def D.vals (dims : Nat → Nat × Nat) (m : Key → Bool) : List D → List Bool
  | [] => []
  | d :: ds => D.val dims m d :: D.vals dims m ds
end

/-- injectivity of the naming function -/
def NameInj (nm : Bool → Nat → List Key → Nat) : Prop :=
  ∀ t i g t' i' g', nm t i g = nm t' i' g' → t = t' ∧ i = i' ∧ g = g'

mutual
theorem D.name_inj (nm : Bool → Nat → List Key → Nat) (hnm : NameInj nm) :
    ∀ d d' : D, D.name nm d = D.name nm d' → d = d'
  | .base n, .base n', h => by simp only [D.name, Prod.mk.injEq] at h; rw [h.1]
  | .base n, .node t i g, h => by simp [D.name, dummyKey] at h
  | .node t i g, .base n, h => by simp [D.name, dummyKey] at h
  | .node t i g, .node t' i' g', h => by
      simp only [D.name, dummyKey, Prod.mk.injEq, and_true] at h
      have h' : nm t i (D.names nm g) = nm t' i' (D.names nm g') := by omega
      obtain ⟨h1, h2, h3⟩ := hnm _ _ _ _ _ _ h'
      rw [h1, h2, D.names_inj nm hnm g g' h3]
theorem D.names_inj (nm : Bool → Nat → List Key → Nat) (hnm : NameInj nm) :
    ∀ g g' : List D, D.names nm g = D.names nm g' → g = g'
  | [], [], _ => rfl
  | [], _ :: _, h => by simp [D.names] at h
  | _ :: _, [], h => by simp [D.names] at h
  | d :: ds, d' :: ds', h => by
      simp only [D.names, List.cons.injEq] at h
      rw [D.name_inj nm hnm d d' h.1, D.names_inj nm hnm ds ds' h.2]
end

theorem D.names_length (nm : Bool → Nat → List Key → Nat) : ∀ ds : List D, (D.names nm ds).length = ds.length
  | [] => rfl
  | _ :: ds => by simp [D.names, D.names_length nm ds]

/-- the coherent extension of `m`: a generated key gets the value `D.val` of its (unique) generator -/
noncomputable def ext (dims : Nat → Nat × Nat) (nm : Bool → Nat → List Key → Nat) (m : Key → Bool) (k : Key) : Bool :=
  open Classical in
  if h : ∃ d, D.name nm d = k then D.val dims m (Classical.choose h) else m k

theorem ext_name (dims : Nat → Nat × Nat) (nm : Bool → Nat → List Key → Nat) (hnm : NameInj nm)
    (m : Key → Bool) (d : D) : ext dims nm m (D.name nm d) = D.val dims m d := by
  have h : ∃ d', D.name nm d' = D.name nm d := ⟨d, rfl⟩
  unfold ext
  rw [dif_pos h]
  rw [D.name_inj nm hnm _ _ (Classical.choose_spec h)]

theorem ext_vals (dims : Nat → Nat × Nat) (nm : Bool → Nat → List Key → Nat) (hnm : NameInj nm)
    (m : Key → Bool) : ∀ ds : List D, (D.names nm ds).map (ext dims nm m) = D.vals dims m ds
  | [] => rfl
  | d :: ds => by simp only [D.names, D.vals, List.map_cons, ext_name dims nm hnm m d, ext_vals dims nm hnm m ds]

theorem exists_names (nm : Bool → Nat → List Key → Nat) : ∀ g : List Key,
    (∀ k ∈ g, ∃ d, D.name nm d = k) → ∃ ds, D.names nm ds = g := by
  intro g
  induction g with
  | nil => intro _; exact ⟨[], rfl⟩
  | cons k ks ih =>
    intro h
    obtain ⟨d, hd⟩ := h k (by simp)
    obtain ⟨ds, hds⟩ := ih (fun k' hk' => h k' (by simp [hk']))
    exact ⟨d :: ds, by simp [D.names, hd, hds]⟩

theorem ext_coh (dims : Nat → Nat × Nat) (nm : Bool → Nat → List Key → Nat) (hnm : NameInj nm)
    (m : Key → Bool) : Coh dims nm (fun k => ∃ d, D.name nm d = k) (ext dims nm m) := by
  intro g hg
  obtain ⟨ds, rfl⟩ := exists_names nm g hg
  refine ⟨fun t i => ⟨.node t i ds, rfl⟩, ?_, ?_⟩
  · intro i
    have : dummyKey nm false (D.names nm ds) i = D.name nm (.node false i ds) := rfl
    rw [this, ext_name dims nm hnm, ext_vals dims nm hnm, D.names_length]
    simp [D.val]
  · intro j
    have : dummyKey nm true (D.names nm ds) j = D.name nm (.node true j ds) := rfl
    rw [this, ext_name dims nm hnm, ext_vals dims nm hnm, D.names_length]
    simp [D.val]

theorem ext_user (dims : Nat → Nat × Nat) (nm : Bool → Nat → List Key → Nat) (hnm : NameInj nm)
    (m : Key → Bool) (n : Nat) : ext dims nm m (n, false) = m (n, false) :=
  ext_name dims nm hnm m (.base n)

/-- **Completeness of `uniqueRec`.** For an injective naming of the dummy variables: every
    assignment `m` with exactly one position of the names `ns` true has an extension `m'` — same
    values on all problem variables, every line / column dummy (at every level of the recursion)
    the disjunction of its members (`Coh`) — that satisfies `uniqueRec`. The names need not be
    distinct. -/
theorem unique_complete (dims : Nat → Nat × Nat) (nm : Bool → Nat → List Key → Nat)
    (hd : DimsOk dims) (hnm : NameInj nm) (m : Key → Bool) (ns : List Nat)
    (h : countTrue (ns.map (fun n => m (n, false))) = 1) :
    ∃ m' : Key → Bool, (∀ n, m' (n, false) = m (n, false)) ∧
      Coh dims nm (fun k => ∃ d, D.name nm d = k) m' ∧
      eval m' (uniqueRecN dims nm (ns.map (fun n => (n, false)))) = true := by
  refine ⟨ext dims nm m, ext_user dims nm hnm m, ext_coh dims nm hnm m, ?_⟩
  apply uniqueRecF_coherent dims nm hd _ _ (ext_coh dims nm hnm m) _ _ (Nat.le_refl _)
  · intro k hk
    simp only [List.mem_map] at hk
    obtain ⟨n, _, rfl⟩ := hk
    exact ⟨.base n, rfl⟩
  · rw [List.map_map]
    have : (ext dims nm m ∘ fun n => ((n, false) : Key)) = fun n => m (n, false) := by
      funext n; exact ext_user dims nm hnm m n
    rw [this]; exact h

/-! ### the concrete naming `natName` is injective -/

theorem pair_inj (a b a' b' : Nat) (h : pair a b = pair a' b') : a = a' ∧ b = b' := by
  unfold pair at h
  have key : ∀ s s' x x' : Nat, x ≤ s → s < s' → s * s + x < s' * s' + x' := by
    intro s s' x x' hx hs
    have := Nat.mul_le_mul (show s + 1 ≤ s' from hs) (show s + 1 ≤ s' from hs)
    rw [succ_sq] at this; omega
  have hs : a + b = a' + b' := by
    rcases Nat.lt_trichotomy (a + b) (a' + b') with h' | h' | h'
    · have := key (a + b) (a' + b') b b' (by omega) h'; omega
    · exact h'
    · have := key (a' + b') (a + b) b' b (by omega) h'; omega
  rw [hs] at h
  omega

theorem keyCode_inj (k k' : Key) (h : keyCode k = keyCode k') : k = k' := by
  obtain ⟨n, b⟩ := k
  obtain ⟨n', b'⟩ := k'
  unfold keyCode at h
  cases b <;> cases b' <;> simp at h ⊢ <;> omega

theorem codeList_inj : ∀ xs ys : List Nat, codeList xs = codeList ys → xs = ys
  | [], [], _ => rfl
  | [], _ :: _, h => by simp [codeList] at h
  | _ :: _, [], h => by simp [codeList] at h
  | x :: xs, y :: ys, h => by
      simp only [codeList, Nat.add_right_cancel_iff] at h
      have ⟨h1, h2⟩ := pair_inj _ _ _ _ h
      rw [h1, codeList_inj xs ys h2]

theorem map_keyCode_inj : ∀ g g' : List Key, g.map keyCode = g'.map keyCode → g = g'
  | [], [], _ => rfl
  | [], _ :: _, h => by simp at h
  | _ :: _, [], h => by simp at h
  | k :: ks, k' :: ks', h => by
      simp only [List.map_cons, List.cons.injEq] at h
      rw [keyCode_inj k k' h.1, map_keyCode_inj ks ks' h.2]

/-- **`natName` is injective**: "line / column", index and group are recovered from the number. -/
theorem natName_inj : NameInj natName := by
  intro t i g t' i' g' h
  unfold natName at h
  have ⟨h1, h2⟩ := pair_inj _ _ _ _ h
  have ⟨h3, h4⟩ := pair_inj _ _ _ _ h2
  refine ⟨?_, h3, map_keyCode_inj g g' (codeList_inj _ _ h4)⟩
  cases t <;> cases t' <;> simp at h1 ⊢

/-! ### `unique_sem` -/

/-- **`Unique(names…)` means "exactly one of the names is true"**, for any number of names, with
    the integer grid dimensions `natDims` and the dummy names `natName`:

    (→) every assignment of all keys satisfying the formula has exactly one position of the
        names true;
    (←) every assignment with exactly one position of the names true can be extended to the dummy
        keys (without changing any problem variable), each line / column dummy being the
        disjunction of its members, so that the formula is satisfied.

    Hence the models of `Unique(names…)` projected on the problem variables are exactly the
    assignments with exactly one name true. -/
theorem unique_sem (ns : List Nat) :
    (∀ m : Key → Bool, eval m (unique natDims ns) = true → countTrue (ns.map (fun n => m (n, false))) = 1) ∧
    (∀ m : Key → Bool, countTrue (ns.map (fun n => m (n, false))) = 1 →
      ∃ m' : Key → Bool, (∀ n, m' (n, false) = m (n, false)) ∧ eval m' (unique natDims ns) = true) := by
  constructor
  · intro m h
    have := uniqueRecF_sound natDims natName natDims_ok m _ _ (Nat.le_refl _) h
    rw [List.map_map] at this
    exact this
  · intro m h
    obtain ⟨m', h1, _, h3⟩ := unique_complete natDims natName natDims_ok natName_inj m ns h
    exact ⟨m', h1, h3⟩

/-- the same for an arbitrary list of keys, any `DimsOk` dimension function and any injective
    naming: the (→) direction alone needs neither injectivity nor freshness. -/
theorem uniqueRecN_sound (dims : Nat → Nat × Nat) (nm : Bool → Nat → List Key → Nat) (hd : DimsOk dims)
    (m : Key → Bool) (vars : List Key) (h : eval m (uniqueRecN dims nm vars) = true) :
    countTrue (vars.map m) = 1 :=
  uniqueRecF_sound dims nm hd m _ _ (Nat.le_refl _) h

/-- seven names: a `3 × 3` grid, six dummy variables, two nested `uniqueSmall`. -/
example : (natDims 7 = (3, 3)) ∧ ([0, 1, 2, 3, 4, 5, 6].map (fun n => ((n, false) : Key))).length = 7 ∧
    countTrue ([0, 1, 2, 3, 4, 5, 6].map (fun n => (fun k : Key => k.1 == 4) (n, false))) = 1 :=
  ⟨by rw [natDims_eq 7 2 (by decide) (by decide)]; decide, by decide, by decide⟩

/-! ### Notes: where the Go code leaves the hypotheses (witnesses run against /repo)

* **`NameInj` fails for Go's own naming when names contain `-`.** Go names the dummy variables
  `line-i-<names joined by "-">`. The groups `["a-b","c","d-e","f","g-h","i"]` and
  `["a","b-c","d","e-f","g","h-i"]` (disjoint variables, same joined string `a-b-c-d-e-f-g-h-i`)
  get the *same* six dummy variables, so
  `And(Unique(g1…), Unique(g2…), Var("a-b"), Var("e-f"))` — satisfiable: `a-b` and `e-f` true,
  everything else false — is reported unsatisfiable by `bf.Solve` (`line-0-…` must be true for
  the first group and false for the second). With `_` instead of `-` in the names, `Solve` finds
  the model. Within one call of `Unique` on names without `-` the naming is injective.
* **(←) is about the expansion in positive position.** Under a negation the dummy variables would
  no longer be existentially quantified the right way (before the repair `Not(Unique(p,q,r,s,t))`
  with `p` alone true was satisfiable for `bf.Solve`, finding "C11 Not(Unique ≥ 5)"). Since the
  repair `Unique` is a node of its own and `nnf` only calls `uniqueRec` where the group must hold
  (`unique.nnf`); where it must not hold it uses `unique.negation()`, without dummies
  (`GS/Props/C11_Bf.lean`: `nnf_sound`, `nnf_complete`).
* `bf.Solve` returns the `line-…` / `col-…` variables in its model map (`cnf.solve` copies all of
  `vars.pb`, and `litValue` registers every `lit` there, dummy flag or not); `Dimacs` filters them.
-/

#print axioms natDims_lines
#print axioms natDims_cols
#print axioms natDims_unique
#print axioms natDims_ok
#print axioms grid
#print axioms uniqueRecF_sound
#print axioms uniqueRecF_coherent
#print axioms unique_complete
#print axioms natName_inj
#print axioms unique_sem
#print axioms uniqueRecF_fuel

end GS.BfUnique
