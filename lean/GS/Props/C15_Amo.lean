import GS.Model.Amo
/-!
# C15 — `DetectAtMostOne` preserves the set of models (mirror-level theorems)

All theorems are about `GS.Amo.detect`, the mirror of `(*Problem).DetectAtMostOne`, for ALL
constraint lists and all `nbVars`.

The only hypothesis is about the *meaning of the 2-literal constraints of the input*: the Go code
treats every constraint with `Len() == 2` as the binary clause `x ∨ y` without looking at its
cardinality. `BinClausal cs` (every 2-literal constraint has cardinality 1) is what the three
parsers guarantee; it is necessary: see `card2_witness` / `card0_witness` below.
No range / non-zero hypothesis on literals is needed for the theorems (the model is total); the
Go code needs `inRange nbVars cs` not to panic.
-/
namespace GS.Amo

/-! ## The combinatorial core -/

/-- If among any two positions of `l` at least one satisfies `p`, at most one position fails `p`. -/
theorem pairwise_count (p : Int → Bool) :
    ∀ l : List Int, l.Pairwise (fun x y => p x = true ∨ p y = true) → l.length - 1 ≤ l.countP p
  | [], _ => by simp
  | x :: t, h => by
    rw [List.pairwise_cons] at h
    have ih := pairwise_count p t h.2
    by_cases hx : p x = true
    · rw [List.countP_cons_of_pos hx]; simp; omega
    · have hall : ∀ y ∈ t, p y = true := fun y hy => (h.1 y hy).resolve_left hx
      have : t.countP p = t.length := List.countP_eq_length.mpr hall
      rw [List.countP_cons_of_neg hx]; simp; omega

/-- Conversely "at least `len - 1` true" forbids two false literals at different positions:
    here the head and any element of the tail. -/
theorem count_head_tail (p : Int → Bool) (h : Int) (t : List Int) (o : Int) (ho : o ∈ t)
    (hc : (h :: t).length - 1 ≤ (h :: t).countP p) : p h = true ∨ p o = true := by
  by_cases hh : p h = true
  · exact Or.inl hh
  · by_cases hoo : p o = true
    · exact Or.inr hoo
    · exfalso
      rw [List.countP_cons_of_neg hh] at hc
      have hlt : t.countP p < t.length := by
        apply Nat.lt_of_le_of_ne List.countP_le_length
        intro heq
        exact hoo (List.countP_eq_length.mp heq o ho)
      simp at hc; omega

/-! ## Binary clauses of the input -/

/-- A 2-literal constraint on `x`, `y` (in either order) occurs in `cs`. -/
def Bin (cs : List C) (x y : Int) : Prop := ∃ c ∈ cs, c.lits = [x, y] ∨ c.lits = [y, x]

/-- Every 2-literal constraint is an ordinary clause (cardinality 1). -/
def BinClausal (cs : List C) : Prop := ∀ c ∈ cs, c.lits.length = 2 → c.card = 1

/-- At `a`, a true 2-literal constraint has a true literal (fails for cardinality 0). -/
def BinSound (a : Asg) (cs : List C) : Prop :=
  ∀ c ∈ cs, ∀ x y, c.lits = [x, y] → c.holds a = true → (litTrue a x = true ∨ litTrue a y = true)

/-- At `a`, a 2-literal constraint with a true literal is true (fails for cardinality 2). -/
def BinComplete (a : Asg) (cs : List C) : Prop :=
  ∀ c ∈ cs, ∀ x y, c.lits = [x, y] → (litTrue a x = true ∨ litTrue a y = true) → c.holds a = true

theorem BinClausal.sound {cs : List C} (h : BinClausal cs) (a : Asg) : BinSound a cs := by
  intro c hc x y hl hh
  have h1 := h c hc (by simp [hl])
  unfold C.holds at hh
  rw [hl, h1] at hh
  cases hx : litTrue a x <;> cases hy : litTrue a y <;> simp_all

theorem BinClausal.complete {cs : List C} (h : BinClausal cs) (a : Asg) : BinComplete a cs := by
  intro c hc x y hl hh
  have h1 := h c hc (by simp [hl])
  unfold C.holds
  rw [hl, h1]
  cases hx : litTrue a x <;> cases hy : litTrue a y <;> simp_all

/-! ## `propagates` -/

theorem propsOf_mem {l o : Int} {k : Nat} : ∀ {cs : List C} {i : Nat}, (o, k) ∈ propsOf l cs i →
    i ≤ k ∧ ∃ c, cs[k - i]? = some c ∧ (c.lits = [-l, o] ∨ c.lits = [o, -l])
  | [], _, h => by simp [propsOf] at h
  | c :: cs, i, h => by
    simp only [propsOf, List.mem_append] at h
    rcases h with h | h
    · unfold propsOfClause at h
      split at h
      · rename_i l1 l2 hl
        simp only [List.mem_append] at h
        rcases h with h | h
        · split at h
          · rename_i hneg
            simp at h
            refine ⟨by omega, c, by simp [h.2], Or.inl ?_⟩
            rw [hl, h.1]; congr 1; omega
          · simp at h
        · split at h
          · rename_i hneg
            simp at h
            refine ⟨by omega, c, by simp [h.2], Or.inr ?_⟩
            rw [hl, h.1]; congr 2; omega
          · simp at h
      · simp at h
    · obtain ⟨hle, c', hc', hl⟩ := propsOf_mem h
      refine ⟨by omega, c', ?_, hl⟩
      have : k - i = (k - (i + 1)) + 1 := by omega
      rw [this]; simpa using hc'

theorem propsOf_zero {l o : Int} {k : Nat} {cs : List C} (h : (o, k) ∈ propsOf l cs 0) :
    ∃ c, cs[k]? = some c ∧ (c.lits = [-l, o] ∨ c.lits = [o, -l]) := by
  obtain ⟨_, c, hc, hl⟩ := propsOf_mem h
  exact ⟨c, by simpa using hc, hl⟩

theorem prop_bin {cs : List C} {x o : Int} (h : o ∈ prop cs (-x)) : Bin cs x o := by
  unfold prop at h
  rw [List.mem_map] at h
  obtain ⟨⟨o', k⟩, hm, rfl⟩ := h
  obtain ⟨c, hc, hl⟩ := propsOf_zero hm
  refine ⟨c, List.mem_of_getElem? hc, ?_⟩
  simpa using hl

/-! ## The inner loop -/

/-- Invariant of the inner loop: `constr = h :: t` is a clique of binary clauses of the input and
    every queued index is the index of a binary clause on `h` and an element of `t`. -/
def GrowInv (cs : List C) (h : Int) (t : List Int) (bins : List Nat) : Prop :=
  (h :: t).Pairwise (Bin cs) ∧
  ∀ k ∈ bins, ∃ c o, cs[k]? = some c ∧ o ∈ t ∧ (c.lits = [h, o] ∨ c.lits = [o, h])

theorem GrowInv.mono {cs h t bins o} (hi : GrowInv cs h t bins) (hall : ∀ x ∈ h :: t, Bin cs x o)
    {k : Nat} {c : C} (hc : cs[k]? = some c) (hl : c.lits = [h, o] ∨ c.lits = [o, h]) :
    GrowInv cs h (t ++ [o]) (bins ++ [k]) := by
  constructor
  · have : h :: (t ++ [o]) = (h :: t) ++ [o] := rfl
    rw [this, List.pairwise_append]
    refine ⟨hi.1, by simp, ?_⟩
    intro x hx y hy
    simp at hy; subst hy
    exact hall x hx
  · intro k' hk'
    rw [List.mem_append] at hk'
    rcases hk' with hk' | hk'
    · obtain ⟨c', o', h1, h2, h3⟩ := hi.2 k' hk'
      exact ⟨c', o', h1, by simp [h2], h3⟩
    · simp at hk'; subst hk'
      exact ⟨c, o, hc, by simp, hl⟩

theorem grow_inv (cs : List C) (considered : List Int) (h : Int) :
    ∀ (others : List (Int × Nat)) (t : List Int) (bins : List Nat),
    (∀ o k, (o, k) ∈ others → ∃ c, cs[k]? = some c ∧ (c.lits = [h, o] ∨ c.lits = [o, h])) →
    GrowInv cs h t bins →
    ∃ t', (grow (prop cs) considered others (h :: t) bins).1 = h :: t' ∧
      GrowInv cs h t' (grow (prop cs) considered others (h :: t) bins).2
  | [], t, bins, _, hi => ⟨t, rfl, hi⟩
  | (other, idx) :: rest, t, bins, ho, hi => by
    have horest : ∀ o k, (o, k) ∈ rest → ∃ c, cs[k]? = some c ∧ (c.lits = [h, o] ∨ c.lits = [o, h]) :=
      fun o k hm => ho o k (List.mem_cons_of_mem _ hm)
    unfold grow
    split
    · exact grow_inv cs considered h rest t bins horest hi
    · split
      · rename_i hall
        obtain ⟨c, hc, hl⟩ := ho other idx (by simp)
        have hall' : ∀ x ∈ h :: t, Bin cs x other := by
          intro x hx
          rw [List.mem_cons] at hx
          rcases hx with rfl | hx
          · exact ⟨c, List.mem_of_getElem? hc, hl⟩
          · simp only [List.drop_succ_cons, List.drop_zero, List.all_eq_true] at hall
            have := hall x hx
            exact prop_bin (by simpa using this)
        exact grow_inv cs considered h rest (t ++ [other]) (bins ++ [idx]) horest (hi.mono hall' hc hl)
      · exact grow_inv cs considered h rest t bins horest hi

/-! ## The outer loop -/

/-- Invariant of the main loop. -/
def StInv (cs : List C) (st : St) : Prop :=
  (∀ d ∈ st.added, d.lits.Pairwise (Bin cs) ∧ d.card = d.lits.length - 1 ∧ 2 < d.lits.length) ∧
  ∀ k ∈ st.toRemove, ∃ c, cs[k]? = some c ∧ ∃ d ∈ st.added, ∃ h t o,
    d.lits = h :: t ∧ o ∈ t ∧ (c.lits = [h, o] ∨ c.lits = [o, h])

theorem step_inv (cs : List C) (st : St) (i : Nat) (hi : StInv cs st) : StInv cs (step cs st i) := by
  unfold step
  simp only
  split
  · exact hi
  · split
    · exact hi
    · split
      · rename_i hlen
        have ho : ∀ o k, (o, k) ∈ propsOf (litOfIdx i) cs 0 →
            ∃ c, cs[k]? = some c ∧ (c.lits = [-litOfIdx i, o] ∨ c.lits = [o, -litOfIdx i]) :=
          fun o k hm => propsOf_zero hm
        obtain ⟨t', hr1, hr2⟩ := grow_inv cs st.considered (-litOfIdx i) (propsOf (litOfIdx i) cs 0) [] []
          ho ⟨by simp, by simp⟩
        constructor
        · intro d hd
          simp only [List.mem_append, List.mem_singleton] at hd
          rcases hd with hd | rfl
          · exact hi.1 d hd
          · refine ⟨?_, rfl, hlen⟩
            simp only [hr1]; exact hr2.1
        · intro k hk
          simp only [List.mem_append] at hk
          rcases hk with hk | hk
          · obtain ⟨c, hc, d, hd, rest⟩ := hi.2 k hk
            exact ⟨c, hc, d, by simp [hd], rest⟩
          · obtain ⟨c, o, hc, hot, hl⟩ := hr2.2 k hk
            refine ⟨c, hc, ⟨(grow (prop cs) st.considered (propsOf (litOfIdx i) cs 0) [-litOfIdx i] []).1, _⟩,
              List.mem_append_right _ (List.mem_singleton.mpr rfl), -litOfIdx i, t', o, hr1, hot, hl⟩
      · exact hi

theorem foldl_inv (cs : List C) : ∀ (is : List Nat) (st : St), StInv cs st →
    StInv cs (is.foldl (step cs) st)
  | [], _, h => h
  | i :: is, st, h => foldl_inv cs is (step cs st i) (step_inv cs st i h)

theorem run_inv (n : Nat) (cs : List C) : StInv cs (run n cs) :=
  foldl_inv cs _ _ ⟨by simp [St.init], by simp [St.init]⟩

/-! ## `removeBinaries` -/

theorem mem_removeIdx {rm : List Nat} {c : C} : ∀ {l : List C} {j : Nat}, c ∈ removeIdx rm l j → c ∈ l
  | [], _, h => by simp [removeIdx] at h
  | x :: l, j, h => by
    unfold removeIdx at h
    split at h
    · exact List.mem_cons_of_mem _ (mem_removeIdx h)
    · rw [List.mem_cons] at h
      rcases h with rfl | h
      · simp
      · exact List.mem_cons_of_mem _ (mem_removeIdx h)

theorem removeIdx_keeps {rm : List Nat} {c : C} : ∀ {l : List C} {j i : Nat},
    l[i]? = some c → (j + i) ∉ rm → c ∈ removeIdx rm l j
  | [], _, _, h, _ => by simp at h
  | x :: l, j, 0, h, hn => by
    simp at h; subst h
    unfold removeIdx
    have : ¬ j ∈ rm := by simpa using hn
    simp [this]
  | x :: l, j, i + 1, h, hn => by
    have h' : l[i]? = some c := by simpa using h
    have := removeIdx_keeps (rm := rm) (j := j + 1) h' (by rwa [show j + 1 + i = j + (i + 1) by omega])
    unfold removeIdx
    split
    · exact this
    · exact List.mem_cons_of_mem _ this

/-! ## Main theorems -/

theorem mem_detect_sub {n : Nat} {cs : List C} {c : C} (h : c ∈ detect n cs) :
    c ∈ cs ∨ c ∈ added n cs := by
  have := mem_removeIdx h
  simpa using this

theorem removed_lt {n : Nat} {cs : List C} {k : Nat} (hk : k ∈ removed n cs) : k < cs.length := by
  obtain ⟨c, hc, _⟩ := (run_inv n cs).2 k hk
  exact (List.getElem?_eq_some_iff.mp hc).1

/-- Every added constraint is present in the result. -/
theorem added_sub_detect {n : Nat} {cs : List C} {d : C} (h : d ∈ added n cs) : d ∈ detect n cs := by
  obtain ⟨m, hm⟩ := List.getElem?_of_mem h
  have hidx : (cs ++ added n cs)[cs.length + m]? = some d := by
    rw [List.getElem?_append_right (by omega)]; simpa using hm
  refine removeIdx_keeps (j := 0) hidx ?_
  intro hmem
  have := removed_lt hmem
  omega

/-- Every input constraint whose index is not queued survives. -/
theorem kept_sub_detect {n : Nat} {cs : List C} {k : Nat} {c : C} (hc : cs[k]? = some c)
    (hk : k ∉ removed n cs) : c ∈ detect n cs := by
  have hidx : (cs ++ added n cs)[k]? = some c := by
    rw [List.getElem?_append_left (List.getElem?_eq_some_iff.mp hc).1]; exact hc
  exact removeIdx_keeps (j := 0) hidx (by simpa using hk)

/-- Shape of the added constraints: a clique of binary clauses of the input (every two
    positions are joined by a 2-literal constraint of the input), of more than two literals, with
    cardinality `len - 1`. -/
theorem added_clique (n : Nat) (cs : List C) : ∀ d ∈ added n cs,
    d.lits.Pairwise (Bin cs) ∧ d.card = d.lits.length - 1 ∧ 2 < d.lits.length :=
  (run_inv n cs).1

/-- **added_entailed.** At any assignment where the 2-literal constraints of the input hold (and
    mean "one of the two literals is true"), every added cardinality constraint holds. -/
theorem added_entailed (n : Nat) (cs : List C) (a : Asg) (hs : BinSound a cs)
    (hcs : ∀ c ∈ cs, c.lits.length = 2 → c.holds a = true) :
    ∀ d ∈ added n cs, d.holds a = true := by
  intro d hd
  obtain ⟨hp, hcard, _⟩ := added_clique n cs d hd
  unfold C.holds
  rw [hcard]
  simp only [decide_eq_true_eq]
  apply pairwise_count
  refine hp.imp ?_
  intro x y ⟨c, hc, hl⟩
  rcases hl with hl | hl
  · exact hs c hc x y hl (hcs c hc (by simp [hl]))
  · exact (hs c hc y x hl (hcs c hc (by simp [hl]))).symm

/-- **removed_covered.** Every index handed to `removeBinaries` is the index of a 2-literal input
    constraint `c` whose two literals occur (at two different positions) in an added constraint
    `d` that is present in the result; and `d` entails `c`. -/
theorem removed_covered (n : Nat) (cs : List C) : ∀ k ∈ removed n cs,
    ∃ c, cs[k]? = some c ∧ c.lits.length = 2 ∧
      ∃ d ∈ detect n cs, d ∈ added n cs ∧ (∀ x ∈ c.lits, x ∈ d.lits) ∧
        ∀ a, BinComplete a cs → d.holds a = true → c.holds a = true := by
  intro k hk
  obtain ⟨c, hc, d, hd, h, t, o, hdl, hot, hl⟩ := (run_inv n cs).2 k hk
  have hd' : d ∈ added n cs := hd
  obtain ⟨_, hcard, _⟩ := added_clique n cs d hd'
  refine ⟨c, hc, by rcases hl with hl | hl <;> simp [hl], d, added_sub_detect hd', hd', ?_, ?_⟩
  · intro x hx
    rw [hdl]
    rcases hl with hl | hl <;> (rw [hl] at hx; simp at hx; rcases hx with rfl | rfl <;> simp [hot])
  · intro a hcomp hda
    unfold C.holds at hda
    rw [hcard, hdl] at hda
    simp only [decide_eq_true_eq] at hda
    have := count_head_tail (litTrue a) h t o hot hda
    rcases hl with hl | hl
    · exact hcomp c (List.mem_of_getElem? hc) h o hl this
    · exact hcomp c (List.mem_of_getElem? hc) o h hl this.symm

/-- **detect_equiv, pointwise form.** -/
theorem detect_equiv_at (n : Nat) (cs : List C) (a : Asg) (hs : BinSound a cs) (hc : BinComplete a cs) :
    (∀ c ∈ cs, c.holds a = true) ↔ (∀ c ∈ detect n cs, c.holds a = true) := by
  constructor
  · intro h c hmem
    rcases mem_detect_sub hmem with hm | hm
    · exact h c hm
    · exact added_entailed n cs a hs (fun c hc _ => h c hc) c hm
  · intro h c hmem
    obtain ⟨k, hk⟩ := List.getElem?_of_mem hmem
    by_cases hr : k ∈ removed n cs
    · obtain ⟨c', hc', _, d, hd, _, _, hent⟩ := removed_covered n cs k hr
      rw [hk] at hc'; cases hc'
      exact hent a hc (h d hd)
    · exact h c (kept_sub_detect hk hr)

/-- **detect_equiv.** When every 2-literal constraint of the input is an ordinary clause, the
    input and the output of the detection have exactly the same models (assignments are total
    functions on all variable numbers: "over the same variables" is `detect_no_new_vars`). -/
theorem detect_equiv (n : Nat) (cs : List C) (h : BinClausal cs) :
    ∀ a, (∀ c ∈ cs, c.holds a = true) ↔ (∀ c ∈ detect n cs, c.holds a = true) :=
  fun a => detect_equiv_at n cs a (h.sound a) (h.complete a)

/-- **detect_no_new_vars.** Every literal of the output occurs in the input. -/
theorem detect_no_new_vars (n : Nat) (cs : List C) :
    ∀ d ∈ detect n cs, ∀ x ∈ d.lits, ∃ c ∈ cs, x ∈ c.lits := by
  intro d hd x hx
  rcases mem_detect_sub hd with hm | hm
  · exact ⟨d, hm, hx⟩
  · obtain ⟨hp, _, hlen⟩ := added_clique n cs d hm
    have hbin : ∃ y, Bin cs x y ∨ Bin cs y x := by
      match hdl : d.lits, hp, hlen, hx with
      | a :: b :: rest, hp, _, hx =>
        rw [List.pairwise_cons] at hp
        rw [List.mem_cons] at hx
        rcases hx with rfl | hx
        · exact ⟨b, Or.inl (hp.1 b (by simp))⟩
        · exact ⟨a, Or.inr (hp.1 x hx)⟩
    obtain ⟨y, hb | hb⟩ := hbin
    · obtain ⟨c, hc, hl | hl⟩ := hb <;> exact ⟨c, hc, by simp [hl]⟩
    · obtain ⟨c, hc, hl | hl⟩ := hb <;> exact ⟨c, hc, by simp [hl]⟩

/-! ## Corollaries against `GS.Spec`: verdict, model count, optimum -/

/-- The constraint as a linear constraint of the specification. -/
def C.toLin (c : C) : Lin := Lin.ofCard c.lits c.card

def toProblem (cs : List C) : Problem := cs.map C.toLin

theorem lhs_unit (a : Asg) : ∀ l : List Int, lhs a (l.map (fun x => ((1 : Int), x))) = (l.countP (litTrue a) : Nat)
  | [] => by simp [lhs]
  | x :: t => by
    simp only [List.map_cons, lhs, termVal, lhs_unit a t, List.countP_cons]
    cases litTrue a x <;> simp <;> omega

theorem toLin_holds (a : Asg) (c : C) : c.toLin.holds a = c.holds a := by
  unfold C.toLin Lin.ofCard Lin.holds C.holds
  simp only [lhs_unit]
  apply decide_eq_decide.mpr
  omega

theorem toProblem_holds (a : Asg) (cs : List C) :
    Problem.holds a (toProblem cs) = true ↔ ∀ c ∈ cs, c.holds a = true := by
  simp [Problem.holds, toProblem, toLin_holds]

/-- Same truth value at every assignment, as problems of the specification. -/
theorem detect_holds_eq (n : Nat) (cs : List C) (h : BinClausal cs) (a : Asg) :
    Problem.holds a (toProblem (detect n cs)) = Problem.holds a (toProblem cs) := by
  rw [Bool.eq_iff_iff, toProblem_holds, toProblem_holds]
  exact (detect_equiv n cs h a).symm

/-- Same verdict. -/
theorem detect_sat_iff (n : Nat) (cs : List C) (h : BinClausal cs) :
    Satisfiable (toProblem (detect n cs)) ↔ Satisfiable (toProblem cs) := by
  unfold Satisfiable
  simp only [detect_holds_eq n cs h]

/-- Same models over any number `m` of declared variables, hence same model count. -/
theorem detect_modelsOver (n : Nat) (cs : List C) (h : BinClausal cs) (m : Nat) :
    modelsOver m (toProblem (detect n cs)) = modelsOver m (toProblem cs) := by
  unfold modelsOver
  simp only [detect_holds_eq n cs h]

theorem detect_countOver (n : Nat) (cs : List C) (h : BinClausal cs) (m : Nat) :
    countOver m (toProblem (detect n cs)) = countOver m (toProblem cs) := by
  unfold countOver; rw [detect_modelsOver n cs h]

/-- Same optimal models (hence same optimum) for any linear cost function. -/
theorem detect_optimum (n : Nat) (cs : List C) (h : BinClausal cs) (f : List (Int × Int)) (a : Asg) :
    IsOptimum (toProblem (detect n cs)) f a ↔ IsOptimum (toProblem cs) f a := by
  unfold IsOptimum
  simp only [detect_holds_eq n cs h]

/-! ## The literal order of the main loop covers exactly the literals of variables `1..nbVars` -/

theorem litOfIdx_idxOfLit (l : Int) (h : l ≠ 0) : litOfIdx (idxOfLit l) = l := by
  unfold litOfIdx idxOfLit
  by_cases hp : l > 0
  · simp only [hp, if_true]
    have : 2 * (l.natAbs - 1) % 2 = 0 := by omega
    simp only [this, if_true]
    omega
  · simp only [hp, if_false]
    have : (2 * (l.natAbs - 1) + 1) % 2 ≠ 0 := by omega
    simp only [this, if_false]
    omega

theorem idxOfLit_litOfIdx (i : Nat) : idxOfLit (litOfIdx i) = i := by
  unfold litOfIdx idxOfLit
  by_cases hp : i % 2 = 0
  · simp only [hp, if_true]
    have : ((i / 2 + 1 : Nat) : Int) > 0 := by omega
    simp only [this, if_true]
    omega
  · simp only [hp, if_false]
    have : ¬ (-((i / 2 + 1 : Nat) : Int) > 0) := by omega
    simp only [this, if_false]
    omega

/-- A literal is visited by the main loop iff it is a literal of a variable in `1..nbVars`;
    these are also exactly the valid indexes of the Go arrays. -/
theorem idxOfLit_lt_iff (n : Nat) (l : Int) (h : l ≠ 0) : idxOfLit l < 2 * n ↔ l.natAbs ≤ n := by
  unfold idxOfLit
  split <;> omega

/-! ## Concrete instances and witnesses -/

/-- A complete clique of three negative literals: the two binary clauses on the first visited
    literal are replaced; the third one (`-2 ∨ -3`) stays, as in the Go code. -/
example : detect 3 [⟨[-1,-2],1⟩, ⟨[-1,-3],1⟩, ⟨[-2,-3],1⟩] = [⟨[-2,-3],1⟩, ⟨[-1,-2,-3],2⟩] := by decide
example : removed 3 [⟨[-1,-2],1⟩, ⟨[-1,-3],1⟩, ⟨[-2,-3],1⟩] = [0, 1] := by decide
/-- An incomplete clique: nothing changes. -/
example : detect 3 [⟨[-1,-2],1⟩, ⟨[-1,-3],1⟩] = [⟨[-1,-2],1⟩, ⟨[-1,-3],1⟩] := by decide
/-- Overlapping cliques, a repeated binary clause, a binary clause in no clique, a long clause
    (same answer as the Go code on this input). -/
example : detect 5 [⟨[-1,-2],1⟩, ⟨[-3,-1],1⟩, ⟨[-2,-3],1⟩, ⟨[-2,-1],1⟩, ⟨[-3,-4],1⟩, ⟨[-3,-5],1⟩,
      ⟨[-5,-4],1⟩, ⟨[4,5],1⟩, ⟨[1,2,3],1⟩]
    = [⟨[-2,-3],1⟩, ⟨[-2,-1],1⟩, ⟨[-3,-5],1⟩, ⟨[4,5],1⟩, ⟨[1,2,3],1⟩, ⟨[-1,-2,-3],2⟩, ⟨[-4,-3,-5],2⟩] := by
  decide
/-- Duplicate literals are handled by the positional ("two different positions") statements. -/
example : detect 2 [⟨[1,1],1⟩, ⟨[1,2],1⟩] = [⟨[1,1,1,2],3⟩] := by decide

/-- The hypothesis of the main theorems on a non-trivial input. -/
example : BinClausal [⟨[-1,-2],1⟩, ⟨[-1,-3],1⟩, ⟨[-2,-3],1⟩, ⟨[1,2,3],2⟩] := by
  intro c hc hl
  simp at hc
  rcases hc with rfl | rfl | rfl | rfl <;> simp at hl ⊢

/-- `BinClausal` is necessary (upper bound): `DetectAtMostOne` treats the 2-literal cardinality
    constraint `x1 + x2 ≥ 2` as the clause `x1 ∨ x2`. The assignment `x1, ¬x2, x3` is a model of
    the output and not of the input. (Confirmed on the Go code with
    `Problem{NbVars: 3, Clauses: {NewCardClause({1,2},2), NewClause({1,3}), NewClause({2,3})}}`;
    the three parsers never produce such a constraint: they turn it into unit literals.) -/
theorem card2_witness :
    let cs : List C := [⟨[1,2],2⟩, ⟨[1,3],1⟩, ⟨[2,3],1⟩]
    let a : Asg := asgOf [true, false, true]
    detect 3 cs = [⟨[2,3],1⟩, ⟨[1,2,3],2⟩] ∧
    (detect 3 cs).all (C.holds a) = true ∧ cs.all (C.holds a) = false := by decide

/-- `BinClausal` is necessary (lower bound): a 2-literal constraint of cardinality 0 is always
    true but is used as a clause. (`NewCardClause` panics on cardinality 0: not reachable in Go.) -/
theorem card0_witness :
    let cs : List C := [⟨[1,2],0⟩, ⟨[1,3],1⟩, ⟨[2,3],1⟩]
    let a : Asg := asgOf [false, false, true]
    cs.all (C.holds a) = true ∧ (detect 3 cs).all (C.holds a) = false := by decide

/-- Outside the range the Go code panics (`detect?` is `none`); the total model is unaffected. -/
example : detect? 2 [⟨[-1,-3],1⟩] = none := by decide

end GS.Amo

section Audit
open GS.Amo
#print axioms pairwise_count
#print axioms added_clique
#print axioms added_entailed
#print axioms removed_covered
#print axioms detect_equiv_at
#print axioms detect_equiv
#print axioms detect_no_new_vars
#print axioms detect_sat_iff
#print axioms detect_modelsOver
#print axioms detect_countOver
#print axioms detect_optimum
#print axioms card2_witness
#print axioms card0_witness
#print axioms idxOfLit_lt_iff
end Audit
