import GS.Model.PbProp
/-!
# C02 — propagation of one cardinality / pseudo-boolean constraint (mirror `GS.PbProp` of `watcher.go`)

Vocabulary: `Ext a m` (the total assignment `a` extends the signed-level array `m`), `CardHolds` /
`PbHolds` (= `Lin.ofCard … .holds` / `Lin.holds`: `cardHolds_iff`, `pbHolds_iff`), `Forced m0 C l`
(`l` is true in every total extension of `m0` that satisfies `C`), `Inv m0 m C` (`m` is `m0` plus bindings
of unbound variables to literals forced by `C`: what a call does to the assignment).

SOUNDNESS (any sizes, duplicates allowed unless said otherwise):
* `card_conflict_sound`, `amo_conflict_sound`, `pb_conflict_sound` — (a) a `false` answer means the
  constraint is false under every total assignment extending the one at the call;
* `card_propagated_forced`, `amo_propagated_forced`, `pb_propagated_forced` (`pb_sound`) — (b) every
  literal handed to `propagateUnit` is `Forced` w.r.t. the assignment at the call (hence also w.r.t. it
  plus the literals propagated earlier in the call: `Inv`).  The tests under which the literal is
  propagated are `tight_forced` (`nbUnb + nbTrue == card`) and `pb_forced` (`Weight(i) > slack`, i.e.
  `Σ_{not false} w − w(lit) < card`): exactly the guard `GS.TrailPb.forcedPb` of
  `GS.TrailPb.propagatePb` (`goCardTest_forced`, `goPbTest_forced` in `GS.Props.C02_TrailPb` start from
  these tests).  Hypotheses forced by the proofs, each with a witness replayed on the Go code by
  `harness/x_pbprop.go`: `lvl > 0`; for PB weights `≥ 1` (`pb_zero_weight_not_forced`) and as many
  weights as literals; for AMO `card = len − 1` and one literal false (`amo_unsound_without_false`);
* (c) `card_no_panic` (distinct variables — `card_panics_on_duplicate_variable` —, `0 ≤ card < len`, first
  `card+1` positions watched; `swapFalse_precondition`: `simplifyCardConstr` establishes the
  precondition written above `swapFalse`; `swapFalse_ok_and_watches`;
  `swapFalse_panics_without_precondition`, `swapFalse_panics_when_not_watched`), `pb_no_panic`
  (as many weights and flags as literals, `lvl ≠ 0`: the `for foundUnit` loop terminates because each
  round binds a literal; `pb_loops_at_level_zero`: at level 0 it never ends).

COMPLETENESS at a total assignment: `card_true_of_total`, `pb_true_of_total` (verdict recomputed from
scratch).  Watch side: `swapFalse_ok_and_watches` (no false literal among the first `card+1` positions
afterwards), `watchedEnough_after_update`, `pb_no_missed_conflict`, `pb_watch_complete_at_total`;
open: `pb_watch_invariant_call_statement` and the invariant across backjumps.

Unit-propagation strength: `card_up_strength`.
-/
namespace GS.PbProp
open GS

/-! ## Vocabulary -/

/-- The total assignment `a` extends the partial one `m` (signed levels, `0` unbound). -/
def Ext (a : Asg) (m : Nat → Int) : Prop := ∀ v, (m v > 0 → a v = true) ∧ (m v < 0 → a v = false)

/-- `Σ wᵢ·[litᵢ] ≥ card` (terms as in `GS.Lin`: `(weight, literal)`). -/
def PbHolds (a : Asg) (ws ls : List Int) (card : Int) : Prop := card ≤ lhs a (ws.zip ls)

/-- "at least `card` of `ls` are true" = `Lin.ofCard ls card`. -/
def CardHolds (a : Asg) (ls : List Int) (card : Int) : Prop := card ≤ lhs a (ls.map (fun l => ((1 : Int), l)))

theorem cardHolds_iff (a : Asg) (ls : List Int) (card : Int) :
    CardHolds a ls card ↔ (Lin.ofCard ls card).holds a = true := by
  unfold CardHolds Lin.ofCard Lin.holds; exact (decide_eq_true_iff).symm

theorem pbHolds_iff (a : Asg) (ws ls : List Int) (card : Int) :
    PbHolds a ws ls card ↔ (Lin.holds a ⟨ws.zip ls, card⟩) = true := by
  unfold PbHolds Lin.holds; exact (decide_eq_true_iff).symm

/-- `l` is true in every total assignment that extends `m0` and satisfies the constraint `C`. -/
def Forced (m0 : Nat → Int) (C : Asg → Prop) (l : Int) : Prop := ∀ a, Ext a m0 → C a → litTrue a l = true

theorem status_sat {a : Asg} {m : Nat → Int} (h : Ext a m) {l : Int} (hs : litStatus m l = .sat) :
    litTrue a l = true := by
  unfold litStatus at hs
  have := h l.natAbs
  unfold litTrue
  split at hs
  · cases hs
  · split at hs
    · rename_i h1 h2
      by_cases hl : l > 0
      · simp [hl] at h2 ⊢; exact this.1 h2
      · simp [hl] at h2 ⊢; exact this.2 (by omega)
    · cases hs

theorem status_unsat {a : Asg} {m : Nat → Int} (h : Ext a m) {l : Int} (hs : litStatus m l = .unsat) :
    litTrue a l = false := by
  unfold litStatus at hs
  have := h l.natAbs
  unfold litTrue
  split at hs
  · cases hs
  · split at hs
    · cases hs
    · rename_i h1 h2
      by_cases hl : l > 0
      · simp [hl] at h2 ⊢; exact this.2 (by omega)
      · simp [hl] at h2 ⊢; exact this.1 h2

theorem status_indet_iff {m : Nat → Int} {l : Int} : litStatus m l = .indet ↔ m l.natAbs = 0 := by
  unfold litStatus
  constructor
  · intro h; split at h
    · assumption
    · split at h <;> cases h
  · intro h; simp [h]

/-! ## Counting -/

/-- Number of literals of `ls` with the given status. -/
def cnt (m : Nat → Int) (s : Status) : List Int → Int
  | [] => 0
  | l :: ls => (if litStatus m l = s then 1 else 0) + cnt m s ls

theorem cnt_nonneg (m : Nat → Int) (s : Status) (ls : List Int) : 0 ≤ cnt m s ls := by
  induction ls with
  | nil => simp [cnt]
  | cons l ls ih => simp only [cnt]; split <;> omega

theorem cnt_total (m : Nat → Int) (ls : List Int) :
    cnt m .sat ls + cnt m .unsat ls + cnt m .indet ls = ls.length := by
  induction ls with
  | nil => simp [cnt]
  | cons l ls ih =>
    simp only [cnt, List.length_cons]
    cases h : litStatus m l <;> simp <;> omega

/-- number of true literals under a total assignment -/
def nTrue (a : Asg) (ls : List Int) : Int := lhs a (ls.map (fun l => ((1 : Int), l)))

theorem nTrue_cons (a : Asg) (l : Int) (ls : List Int) :
    nTrue a (l :: ls) = (if litTrue a l then 1 else 0) + nTrue a ls := by
  simp [nTrue, lhs, termVal]

theorem nTrue_le_nonfalse {a : Asg} {m : Nat → Int} (h : Ext a m) (ls : List Int) :
    nTrue a ls ≤ cnt m .sat ls + cnt m .indet ls := by
  induction ls with
  | nil => simp [nTrue, lhs, cnt]
  | cons l ls ih =>
    rw [nTrue_cons]; simp only [cnt]
    cases hs : litStatus m l
    · simp; split <;> omega
    · simp; split <;> omega
    · simp [status_unsat h hs]; omega

theorem sat_le_nTrue {a : Asg} {m : Nat → Int} (h : Ext a m) (ls : List Int) :
    cnt m .sat ls ≤ nTrue a ls := by
  induction ls with
  | nil => simp [nTrue, lhs, cnt]
  | cons l ls ih =>
    rw [nTrue_cons]; simp only [cnt]
    cases hs : litStatus m l
    · simp; split <;> omega
    · simp [status_sat h hs]; omega
    · simp; split <;> omega

/-- A non-false literal that is false in `a` makes the count strict. -/
theorem nTrue_lt_nonfalse {a : Asg} {m : Nat → Int} (h : Ext a m) {l : Int} :
    ∀ ls : List Int, l ∈ ls → litStatus m l ≠ .unsat → litTrue a l = false →
      nTrue a ls + 1 ≤ cnt m .sat ls + cnt m .indet ls := by
  intro ls
  induction ls with
  | nil => intro h; cases h
  | cons x ls ih =>
    intro hm hns hf
    rw [nTrue_cons]; simp only [cnt]
    rcases List.mem_cons.1 hm with rfl | hm
    · have := nTrue_le_nonfalse h ls
      simp [hf]
      cases hs : litStatus m l
      · simp; omega
      · simp; omega
      · exact absurd hs hns
    · have := ih hm hns hf
      cases hs : litStatus m x
      · simp; split <;> omega
      · simp; split <;> omega
      · simp [status_unsat h hs]; omega

/-! ## The counting loop of `simplifyCardConstr` -/

theorem countLoop_confl {m : Nat → Int} {len card : Int} :
    ∀ (ls : List Int) (t f u : Int), countLoop m len card ls t f u = .confl →
      len - (f + cnt m .unsat ls) < card := by
  intro ls
  induction ls with
  | nil => intro t f u h; simp [countLoop] at h
  | cons l ls ih =>
    intro t f u h
    have hn := cnt_nonneg m .unsat ls
    simp only [countLoop] at h
    simp only [cnt]
    cases hs : litStatus m l <;> simp only [hs] at h
    · split at h
      · cases h
      · have := ih _ _ _ h; simp; omega
    · split at h
      · cases h
      · split at h
        · cases h
        · have := ih _ _ _ h; simp; omega
    · split at h
      · simp; omega
      · split at h
        · cases h
        · have := ih _ _ _ h; simp; omega

theorem countLoop_sat {m : Nat → Int} {len card : Int} :
    ∀ (ls : List Int) (t f u : Int), countLoop m len card ls t f u = .sat →
      card ≤ t + cnt m .sat ls := by
  intro ls
  induction ls with
  | nil => intro t f u h; simp [countLoop] at h
  | cons l ls ih =>
    intro t f u h
    have hn := cnt_nonneg m .sat ls
    simp only [countLoop] at h
    simp only [cnt]
    cases hs : litStatus m l <;> simp only [hs] at h
    · split at h
      · cases h
      · have := ih _ _ _ h; simp; omega
    · split at h
      · simp; omega
      · split at h
        · cases h
        · have := ih _ _ _ h; simp; omega
    · split at h
      · cases h
      · split at h
        · cases h
        · have := ih _ _ _ h; simp; omega

/-- What the counters are when the loop ends normally (`break` or end of the constraint). -/
theorem countLoop_fin {m : Nat → Int} {len card : Int} :
    ∀ (ls : List Int) (t f u t' f' u' : Int), countLoop m len card ls t f u = .fin t' f' u' →
      t ≤ t' ∧ u ≤ u' ∧ t' ≤ t + cnt m .sat ls ∧ u' ≤ u + cnt m .indet ls ∧
      (f' = f ∨ card ≤ len - f') ∧
      (card < u' + t' ∨ (t' = t + cnt m .sat ls ∧ u' = u + cnt m .indet ls ∧ f' = f + cnt m .unsat ls)) := by
  intro ls
  induction ls with
  | nil => intro t f u t' f' u' h; simp [countLoop] at h; simp [cnt]; omega
  | cons l ls ih =>
    intro t f u t' f' u' h
    have hn1 := cnt_nonneg m .sat ls
    have hn2 := cnt_nonneg m .indet ls
    have hn3 := cnt_nonneg m .unsat ls
    simp only [countLoop] at h
    simp only [cnt]
    cases hs : litStatus m l <;> simp only [hs] at h
    · split at h
      · simp at h; obtain ⟨rfl, rfl, rfl⟩ := h; simp; omega
      · have := ih _ _ _ _ _ _ h; simp; omega
    · split at h
      · cases h
      · split at h
        · simp at h; obtain ⟨rfl, rfl, rfl⟩ := h; simp; omega
        · have := ih _ _ _ _ _ _ h; simp; omega
    · split at h
      · cases h
      · split at h
        · simp at h; obtain ⟨rfl, rfl, rfl⟩ := h; simp; omega
        · have := ih _ _ _ _ _ _ h; simp; omega

/-! ## The invariant carried through a call -/

/-- `m` is reached from `m0` by binding unbound variables to literals forced by `C`. -/
def Inv (m0 m : Nat → Int) (C : Asg → Prop) : Prop :=
  (∀ v, m0 v ≠ 0 → m v = m0 v) ∧ (∀ a, Ext a m0 → C a → Ext a m)

theorem inv_refl (m0 : Nat → Int) (C : Asg → Prop) : Inv m0 m0 C :=
  ⟨fun _ _ => rfl, fun _ h _ => h⟩

theorem ext_of_inv {m0 m : Nat → Int} {C : Asg → Prop} (hI : Inv m0 m C) {a : Asg} (h : Ext a m) :
    Ext a m0 := by
  intro v
  by_cases h0 : m0 v = 0
  · constructor <;> intro h' <;> omega
  · have := hI.1 v h0
    rw [← this]; exact h v

theorem unbound_of_inv {m0 m : Nat → Int} {C : Asg → Prop} (hI : Inv m0 m C) {v : Nat} (h : m v = 0) :
    m0 v = 0 := by
  by_cases h0 : m0 v = 0
  · exact h0
  · have := hI.1 v h0; omega

theorem ext_bind {a : Asg} {m : Nat → Int} {l lvl : Int} (h : Ext a m) (hlvl : 0 < lvl)
    (ht : litTrue a l = true) : Ext a (bind m l lvl) := by
  intro v
  unfold bind
  by_cases hv : v = l.natAbs
  · subst hv
    simp only [if_true]
    unfold signedLvl
    unfold litTrue at ht
    by_cases hl : l > 0
    · simp [hl] at ht ⊢; constructor
      · intro _; exact ht
      · intro h'; omega
    · simp [hl] at ht ⊢; constructor
      · intro h'; omega
      · intro _; exact ht
  · simp only [hv, if_false]; exact h v

theorem inv_bind {m0 m : Nat → Int} {C : Asg → Prop} {l lvl : Int} (hI : Inv m0 m C)
    (hu : m l.natAbs = 0) (hlvl : 0 < lvl) (hf : ∀ a, Ext a m → C a → litTrue a l = true) :
    Inv m0 (bind m l lvl) C ∧ Forced m0 C l := by
  refine ⟨⟨?_, ?_⟩, ?_⟩
  · intro v hv
    have := hI.1 v hv
    unfold bind
    by_cases hvl : v = l.natAbs
    · subst hvl; omega
    · simp [hvl, this]
  · intro a ha hc
    have h1 := hI.2 a ha hc
    exact ext_bind h1 hlvl (hf a h1 hc)
  · intro a ha hc
    exact hf a (hI.2 a ha hc) hc

/-! ## `simplifyCardConstr` -/

theorem cardPropLoop_sound {m0 : Nat → Int} {C : Asg → Prop} {lvl : Int} (hlvl : 0 < lvl) :
    ∀ (fuel : Nat) (st : St) (i : Nat) (nb : Int) (st' : St), cardPropLoop lvl fuel st i nb = .ok st' →
      (∀ l ∈ st.lits, m0 l.natAbs = 0 → Forced m0 C l) → Inv m0 st.m C →
      (∀ l ∈ st.props, Forced m0 C l) →
      Inv m0 st'.m C ∧ (∀ l ∈ st'.props, Forced m0 C l) ∧ st'.lits = st.lits ∧
        st'.weights = st.weights ∧ st'.watched = st.watched ∧ st'.edits = st.edits ∧
        (0 ≤ nb → (st'.props.length : Int) = st.props.length + nb) ∧ (nb ≤ 0 → st' = st) := by
  intro fuel
  induction fuel with
  | zero =>
    intro st i nb st' h hF hI hP
    unfold cardPropLoop at h
    split at h
    · cases h
    · cases h; exact ⟨hI, hP, rfl, rfl, rfl, rfl, fun _ => by omega, fun _ => rfl⟩
  | succ fuel ih =>
    intro st i nb st' h hF hI hP
    unfold cardPropLoop at h
    split at h
    · rename_i hnb
      simp only at h
      split at h
      · cases h
      · rename_i lit hlit
        have hmem : lit ∈ st.lits := List.mem_of_getElem? hlit
        split at h
        · rename_i hu
          have hf := hF lit hmem (unbound_of_inv hI hu)
          have hb := inv_bind hI hu hlvl (fun a ha hc => hf a (ext_of_inv hI ha) hc)
          have := ih (propagateUnit st lvl lit) i (nb - 1) st' h hF hb.1
            (by intro l hl
                simp only [propagateUnit, List.mem_append, List.mem_singleton] at hl
                rcases hl with hl | rfl
                · exact hP l hl
                · exact hb.2)
          obtain ⟨h1, h2, h3, h4, h5, h6, h7, _⟩ := this
          refine ⟨h1, h2, h3, h4, h5, h6, ?_, fun h => by omega⟩
          intro _
          have := h7 (by omega)
          simp only [propagateUnit, List.length_append, List.length_singleton] at this
          omega
        · obtain ⟨h1, h2, h3, h4, h5, h6, h7, _⟩ := ih st (i + 1) nb st' h hF hI hP
          exact ⟨h1, h2, h3, h4, h5, h6, h7, fun h => by omega⟩
    · cases h; exact ⟨hI, hP, rfl, rfl, rfl, rfl, fun _ => by omega, fun _ => rfl⟩

theorem cardPropLoop_len {lvl : Int} :
    ∀ (fuel : Nat) (st : St) (i : Nat) (nb : Int) (st' : St), cardPropLoop lvl fuel st i nb = .ok st' →
      0 ≤ nb → (st'.props.length : Int) = st.props.length + nb := by
  intro fuel
  induction fuel with
  | zero =>
    intro st i nb st' h hnb
    unfold cardPropLoop at h
    split at h
    · cases h
    · cases h; omega
  | succ fuel ih =>
    intro st i nb st' h hnb
    unfold cardPropLoop at h
    split at h
    · simp only at h
      split at h
      · cases h
      · split at h
        · have := ih _ _ _ _ h (by omega)
          simp only [propagateUnit, List.length_append, List.length_singleton] at this
          omega
        · exact ih _ _ _ _ h hnb
    · cases h; omega


theorem swapStep_frame {st st' : St} {i j : Nat} (h : swapStep st i j = .ok st') :
    st'.m = st.m ∧ st'.props = st.props ∧ st'.lits = swapL st.lits i j := by
  unfold swapStep at h
  split at h
  · split at h
    · cases h; exact ⟨rfl, rfl, rfl⟩
    · cases h
  · cases h

theorem swapFalseLoop_frame {card1 : Int} :
    ∀ (fuel : Nat) (st : St) (i j : Nat) (st' : St), swapFalseLoop card1 fuel st i j = .ok st' →
      st'.m = st.m ∧ st'.props = st.props := by
  intro fuel
  induction fuel with
  | zero =>
    intro st i j st' h
    unfold swapFalseLoop at h
    split at h
    · cases h
    · cases h; exact ⟨rfl, rfl⟩
  | succ fuel ih =>
    intro st i j st' h
    unfold swapFalseLoop at h
    split at h
    · simp only at h
      split at h
      · cases h; exact ⟨rfl, rfl⟩
      · split at h
        · split at h
          · rename_i st1 hs
            have h1 := swapStep_frame hs
            have h2 := ih _ _ _ _ h
            exact ⟨h2.1.trans h1.1, h2.2.trans h1.2.1⟩
          · cases h
          · cases h
        · cases h
        · cases h
      · cases h
      · cases h
    · cases h; exact ⟨rfl, rfl⟩

theorem swapFalse_frame {card : Int} {st st' : St} (h : swapFalse card st = .ok st') :
    st'.m = st.m ∧ st'.props = st.props := swapFalseLoop_frame _ _ _ _ _ h

/-- When all non-false literals are needed (`nbUnb + nbTrue == card` over the whole constraint), every
    literal that is not false is forced: the guard `forcedPb` of `GS.TrailPb.propagatePb`. -/
theorem tight_forced {m0 : Nat → Int} {ls : List Int} {card : Int}
    (ht : cnt m0 .sat ls + cnt m0 .indet ls = card) {l : Int} (hl : l ∈ ls) (hu : m0 l.natAbs = 0) :
    Forced m0 (fun a => CardHolds a ls card) l := by
  intro a ha hc
  cases hlt : litTrue a l
  · have := nTrue_lt_nonfalse ha ls hl (by rw [status_indet_iff.2 hu]; decide) hlt
    unfold CardHolds at hc
    unfold nTrue at this
    omega
  · rfl

/-- (a) `simplifyCardConstr` returns `false` only if the constraint is false under every total
    assignment extending the current one. -/
theorem card_conflict_sound {lvl card : Int} {st st' : St}
    (h : simplifyCard lvl card st = .ok (false, st')) :
    ∀ a, Ext a st.m → ¬ CardHolds a st.lits card := by
  intro a ha hc
  unfold simplifyCard at h
  split at h
  · cases h
  · rename_i hcl
    have h1 := countLoop_confl _ _ _ _ hcl
    have h2 := nTrue_le_nonfalse ha st.lits
    have h3 := cnt_total st.m st.lits
    unfold CardHolds at hc; unfold nTrue at h2
    omega
  · split at h
    · cases hq : cardPropLoop lvl _ st 0 _ <;> rw [hq] at h <;> cases h
    · cases hq : swapFalse card st <;> rw [hq] at h <;> cases h

/-- (b) every literal `simplifyCardConstr` hands to `propagateUnit` is true in every total assignment
    that extends the assignment at the call and satisfies the constraint. -/
theorem card_propagated_forced {lvl card : Int} (hlvl : 0 < lvl) {st st' : St} {b : Bool}
    (h : simplifyCard lvl card st = .ok (b, st')) (hp : st.props = []) :
    (∀ l ∈ st'.props, Forced st.m (fun a => CardHolds a st.lits card) l) ∧
      Inv st.m st'.m (fun a => CardHolds a st.lits card) := by
  unfold simplifyCard at h
  split at h
  · cases h; exact ⟨by simp [hp], inv_refl _ _⟩
  · cases h; exact ⟨by simp [hp], inv_refl _ _⟩
  · rename_i t f u hcl
    have hfin := countLoop_fin _ _ _ _ _ _ _ hcl
    split at h
    · rename_i heq
      cases hq : cardPropLoop lvl (u.toNat + st.lits.length + 1) st 0 u with
      | ok st1 =>
        rw [hq] at h; cases h
        have htight : cnt st.m .sat st.lits + cnt st.m .indet st.lits = card := by omega
        have := cardPropLoop_sound (m0 := st.m) (C := fun a => CardHolds a st.lits card) hlvl _ _ _ _ _ hq
          (fun l hl hu => tight_forced htight hl hu) (inv_refl _ _) (by simp [hp])
        exact ⟨this.2.1, this.1⟩
      | panic => rw [hq] at h; cases h
      | fuel => rw [hq] at h; cases h
    · cases hq : swapFalse card st with
      | ok st1 =>
        rw [hq] at h; cases h
        have := swapFalse_frame hq
        rw [this.1, this.2]
        exact ⟨by simp [hp], inv_refl _ _⟩
      | panic => rw [hq] at h; cases h
      | fuel => rw [hq] at h; cases h

/-- COMPLETENESS at a total assignment: when every literal of the constraint is bound and
    `simplifyCardConstr` returns `true`, the constraint holds (the verdict is recomputed from scratch;
    it does not depend on the watches). -/
theorem card_true_of_total {lvl card : Int} {st st' : St}
    (h : simplifyCard lvl card st = .ok (true, st'))
    (htot : ∀ l ∈ st.lits, st.m l.natAbs ≠ 0) (hlen : card ≤ st.lits.length) :
    ∀ a, Ext a st.m → CardHolds a st.lits card := by
  intro a ha
  have hU : cnt st.m .indet st.lits = 0 := by
    have : ∀ ls : List Int, (∀ l ∈ ls, st.m l.natAbs ≠ 0) → cnt st.m .indet ls = 0 := by
      intro ls
      induction ls with
      | nil => intro _; rfl
      | cons x xs ih =>
        intro hx
        simp only [cnt]
        have h1 : litStatus st.m x ≠ .indet := fun h => hx x (List.mem_cons_self) (status_indet_iff.1 h)
        simp [h1, ih (fun l hl => hx l (List.mem_cons_of_mem _ hl))]
    exact this _ htot
  have hT := sat_le_nTrue ha st.lits
  have htotal := cnt_total st.m st.lits
  unfold CardHolds; unfold nTrue at hT
  unfold simplifyCard at h
  split at h
  · rename_i hcl
    have := countLoop_sat _ _ _ _ hcl
    omega
  · cases h
  · rename_i t f u hcl
    have hfin := countLoop_fin _ _ _ _ _ _ _ hcl
    omega

/-- Unit-propagation strength: when `simplifyCardConstr` returns `true` without propagating anything,
    either `card` literals are already true or more than `card` literals are not false
    (`nbUnb + nbTrue > card`: no literal is forced yet). -/
theorem card_up_strength {lvl card : Int} {st st' : St}
    (h : simplifyCard lvl card st = .ok (true, st')) (hno : st'.props.length = st.props.length)
    (hlen : card ≤ st.lits.length) :
    card ≤ cnt st.m .sat st.lits ∨ card < cnt st.m .sat st.lits + cnt st.m .indet st.lits := by
  have htotal := cnt_total st.m st.lits
  unfold simplifyCard at h
  split at h
  · rename_i hcl
    have := countLoop_sat _ _ _ _ hcl
    left; omega
  · cases h
  · rename_i t f u hcl
    have hfin := countLoop_fin _ _ _ _ _ _ _ hcl
    split at h
    · rename_i heq
      cases hq : cardPropLoop lvl (u.toNat + st.lits.length + 1) st 0 u with
      | ok st1 =>
        rw [hq] at h; cases h
        have := cardPropLoop_len _ _ _ _ _ hq (by omega)
        left; omega
      | panic => rw [hq] at h; cases h
      | fuel => rw [hq] at h; cases h
    · omega

/-! ## `simplifyPseudoBool` -/

/-- Total weight of the positions whose literal is not false. -/
def wNF (m : Nat → Int) : List Int → List Int → Int
  | w :: ws, l :: ls => (if litStatus m l = .unsat then 0 else w) + wNF m ws ls
  | _, _ => 0

/-- Total weight of the positions whose literal is true. -/
def wT (m : Nat → Int) : List Int → List Int → Int
  | w :: ws, l :: ls => (if litStatus m l = .sat then w else 0) + wT m ws ls
  | _, _ => 0

theorem lhs_zip_cons (a : Asg) (w l : Int) (ws ls : List Int) :
    lhs a ((w :: ws).zip (l :: ls)) = (if litTrue a l then w else 0) + lhs a (ws.zip ls) := by
  simp [lhs, termVal]

theorem lhs_le_wNF {a : Asg} {m : Nat → Int} (h : Ext a m) :
    ∀ (ws ls : List Int), (∀ w ∈ ws, 0 ≤ w) → lhs a (ws.zip ls) ≤ wNF m ws ls := by
  intro ws
  induction ws with
  | nil => intro ls _; simp [lhs, wNF]
  | cons w ws ih =>
    intro ls hnn
    cases ls with
    | nil => simp [lhs, wNF]
    | cons l ls =>
      rw [lhs_zip_cons]; simp only [wNF]
      have := ih ls (fun w hw => hnn w (List.mem_cons_of_mem _ hw))
      have hw := hnn w List.mem_cons_self
      cases hs : litStatus m l
      · simp; split <;> omega
      · simp; split <;> omega
      · simp [status_unsat h hs]; omega

theorem wT_le_lhs {a : Asg} {m : Nat → Int} (h : Ext a m) :
    ∀ (ws ls : List Int), (∀ w ∈ ws, 0 ≤ w) → wT m ws ls ≤ lhs a (ws.zip ls) := by
  intro ws
  induction ws with
  | nil => intro ls _; simp [lhs, wT]
  | cons w ws ih =>
    intro ls hnn
    cases ls with
    | nil => simp [lhs, wT]
    | cons l ls =>
      rw [lhs_zip_cons]; simp only [wT]
      have := ih ls (fun w hw => hnn w (List.mem_cons_of_mem _ hw))
      have hw := hnn w List.mem_cons_self
      cases hs : litStatus m l
      · simp; split <;> omega
      · simp [status_sat h hs]; omega
      · simp; split <;> omega

theorem lhs_lt_wNF {a : Asg} {m : Nat → Int} (h : Ext a m) {w0 l0 : Int} :
    ∀ (ws ls : List Int), (∀ w ∈ ws, 0 ≤ w) → (w0, l0) ∈ ws.zip ls → litStatus m l0 ≠ .unsat →
      litTrue a l0 = false → lhs a (ws.zip ls) + w0 ≤ wNF m ws ls := by
  intro ws
  induction ws with
  | nil => intro ls _ hm; simp at hm
  | cons w ws ih =>
    intro ls hnn hm hns hf
    cases ls with
    | nil => simp at hm
    | cons l ls =>
      rw [lhs_zip_cons]; simp only [wNF]
      have hnn' : ∀ w ∈ ws, 0 ≤ w := fun w hw => hnn w (List.mem_cons_of_mem _ hw)
      have hw := hnn w List.mem_cons_self
      simp only [List.zip_cons_cons, List.mem_cons, Prod.mk.injEq] at hm
      rcases hm with ⟨rfl, rfl⟩ | hm
      · have := lhs_le_wNF h ws ls hnn'
        simp [hf, hns]; omega
      · have := ih ls hnn' hm hns hf
        cases hs : litStatus m l
        · simp; split <;> omega
        · simp; split <;> omega
        · simp [status_unsat h hs]; omega

theorem status_unsat_mono {m m' : Nat → Int} (hext : ∀ v, m v ≠ 0 → m' v = m v) {l : Int}
    (h : litStatus m l = .unsat) : litStatus m' l = .unsat := by
  unfold litStatus at h ⊢
  split at h
  · cases h
  · rename_i h0
    rw [hext _ h0]
    simp only [h0, if_false]
    split at h
    · cases h
    · rename_i h1; simp [h1]

theorem wNF_mono {m m' : Nat → Int} (hext : ∀ v, m v ≠ 0 → m' v = m v) :
    ∀ (ws ls : List Int), (∀ w ∈ ws, 0 ≤ w) → wNF m' ws ls ≤ wNF m ws ls := by
  intro ws
  induction ws with
  | nil => intro ls _; simp [wNF]
  | cons w ws ih =>
    intro ls hnn
    cases ls with
    | nil => simp [wNF]
    | cons l ls =>
      simp only [wNF]
      have := ih ls (fun w hw => hnn w (List.mem_cons_of_mem _ hw))
      have hw := hnn w List.mem_cons_self
      by_cases hs : litStatus m l = .unsat
      · simp [hs, status_unsat_mono hext hs]; omega
      · simp only [hs, if_false]; split <;> omega

/-- The propagation test of `simplifyPseudoBool` (`Weight(i) > slack`, with `slack` computed under an
    earlier assignment `ms` of the same call) forces the literal: this is the guard `forcedPb` of
    `GS.TrailPb.propagatePb` (`Σ_{not false} w − w(lit) < card`). -/
theorem pb_forced {a : Asg} {ms mc : Nat → Int} {W L : List Int} {card w l : Int}
    (hnn : ∀ w ∈ W, 0 ≤ w) (ha : Ext a mc) (hext : ∀ v, ms v ≠ 0 → mc v = ms v)
    (hc : PbHolds a W L card) (hm : (w, l) ∈ W.zip L) (hu : mc l.natAbs = 0)
    (hw : w > -card + wNF ms W L) : litTrue a l = true := by
  cases hlt : litTrue a l
  · have h1 := lhs_lt_wNF ha W L hnn hm (by rw [status_indet_iff.2 hu]; decide) hlt
    have h2 := wNF_mono hext W L hnn
    unfold PbHolds at hc
    omega
  · rfl

theorem wT_nonneg (m : Nat → Int) :
    ∀ (ws ls : List Int), (∀ w ∈ ws, 0 ≤ w) → 0 ≤ wT m ws ls := by
  intro ws
  induction ws with
  | nil => intro ls _; simp [wT]
  | cons w ws ih =>
    intro ls hnn
    cases ls with
    | nil => simp [wT]
    | cons l ls =>
      simp only [wT]
      have := ih ls (fun w hw => hnn w (List.mem_cons_of_mem _ hw))
      have := hnn w List.mem_cons_self
      split <;> omega

theorem slackLoop_spec {m : Nat → Int} {card : Int} :
    ∀ (ws ls : List Int) (slack sum s : Int) (sat : Bool),
      slackLoop m card ws ls slack sum = .ok (s, sat) →
      (sat = false → s = slack + wNF m ws ls) ∧
      (sat = true → (∀ w ∈ ws, 0 ≤ w) → card ≤ sum + wT m ws ls) := by
  intro ws
  induction ws with
  | nil =>
    intro ls slack sum s sat h
    simp [slackLoop] at h
    obtain ⟨rfl, rfl⟩ := h
    simp [wNF]
  | cons w ws ih =>
    intro ls slack sum s sat h
    cases ls with
    | nil => simp [slackLoop] at h
    | cons l ls =>
      simp only [slackLoop] at h
      simp only [wNF, wT]
      cases hs : litStatus m l <;> simp only [hs] at h
      · have := ih _ _ _ _ _ h
        refine ⟨fun h1 => ?_, fun h1 h2 => ?_⟩
        · have := this.1 h1; simp; omega
        · have := this.2 h1 (fun w hw => h2 w (List.mem_cons_of_mem _ hw)); simp; omega
      · split at h
        · simp at h; obtain ⟨rfl, rfl⟩ := h
          refine ⟨fun h1 => (by cases h1), fun _ h2 => ?_⟩
          have := wT_nonneg m ws ls (fun w hw => h2 w (List.mem_cons_of_mem _ hw))
          simp; omega
        · have := ih _ _ _ _ _ h
          refine ⟨fun h1 => ?_, fun h1 h2 => ?_⟩
          · have := this.1 h1; simp; omega
          · have := this.2 h1 (fun w hw => h2 w (List.mem_cons_of_mem _ hw)); simp; omega
      · have := ih _ _ _ _ _ h
        refine ⟨fun h1 => ?_, fun h1 h2 => ?_⟩
        · have := this.1 h1; simp; omega
        · have := this.2 h1 (fun w hw => h2 w (List.mem_cons_of_mem _ hw)); simp; omega

/-- What a loop that only calls `propagateUnit` leaves untouched. -/
def Frame (st st' : St) : Prop :=
  st'.lits = st.lits ∧ st'.weights = st.weights ∧ st'.watched = st.watched ∧ st'.edits = st.edits

theorem Frame.refl (st : St) : Frame st st := ⟨rfl, rfl, rfl, rfl⟩
theorem Frame.trans {a b c : St} (h1 : Frame a b) (h2 : Frame b c) : Frame a c :=
  ⟨h2.1.trans h1.1, h2.2.1.trans h1.2.1, h2.2.2.1.trans h1.2.2.1, h2.2.2.2.trans h1.2.2.2⟩
theorem frame_propagateUnit (st : St) (lvl l : Int) : Frame st (propagateUnit st lvl l) := ⟨rfl, rfl, rfl, rfl⟩

theorem ext_step_bind {ms m : Nat → Int} (hext : ∀ v, ms v ≠ 0 → m v = ms v) {l lvl : Int}
    (hu : m l.natAbs = 0) : ∀ v, ms v ≠ 0 → bind m l lvl v = ms v := by
  intro v hv
  have := hext v hv
  unfold bind
  by_cases hvl : v = l.natAbs
  · subst hvl; omega
  · simp [hvl, this]

/-- One propagation justified by the slack computed under `ms`. -/
theorem pb_step {m0 ms : Nat → Int} {W L : List Int} {card lvl w l : Int} {st : St}
    (hlvl : 0 < lvl) (hnn : ∀ w ∈ W, 0 ≤ w)
    (hI : Inv m0 st.m (fun a => PbHolds a W L card)) (hext : ∀ v, ms v ≠ 0 → st.m v = ms v)
    (hP : ∀ l ∈ st.props, Forced m0 (fun a => PbHolds a W L card) l)
    (hm : (w, l) ∈ W.zip L) (hu : st.m l.natAbs = 0) (hw : w > -card + wNF ms W L) :
    Inv m0 (propagateUnit st lvl l).m (fun a => PbHolds a W L card) ∧
      (∀ v, ms v ≠ 0 → (propagateUnit st lvl l).m v = ms v) ∧
      (∀ l' ∈ (propagateUnit st lvl l).props, Forced m0 (fun a => PbHolds a W L card) l') := by
  have hb := inv_bind hI hu hlvl (fun a ha hc => pb_forced hnn ha hext hc hm hu hw)
  refine ⟨hb.1, ext_step_bind hext hu, ?_⟩
  intro l' hl'
  simp only [propagateUnit, List.mem_append, List.mem_singleton] at hl'
  rcases hl' with hl' | rfl
  · exact hP l' hl'
  · exact hb.2

theorem pbPassLoop_sound {m0 ms : Nat → Int} {W L : List Int} {card lvl slack : Int}
    (hlvl : 0 < lvl) (hnn : ∀ w ∈ W, 0 ≤ w) (hslack : slack = -card + wNF ms W L) :
    ∀ (ls ws : List Int) (st : St) (fu : Bool) (st' : St) (fu' : Bool),
      pbPassLoop lvl slack ls ws st fu = .ok (st', fu') →
      (∀ p ∈ ws.zip ls, p ∈ W.zip L) →
      Inv m0 st.m (fun a => PbHolds a W L card) → (∀ v, ms v ≠ 0 → st.m v = ms v) →
      (∀ l ∈ st.props, Forced m0 (fun a => PbHolds a W L card) l) →
      Inv m0 st'.m (fun a => PbHolds a W L card) ∧ (∀ v, ms v ≠ 0 → st'.m v = ms v) ∧
      (∀ l ∈ st'.props, Forced m0 (fun a => PbHolds a W L card) l) ∧ Frame st st' := by
  intro ls
  induction ls with
  | nil =>
    intro ws st fu st' fu' h _ hI hext hP
    simp [pbPassLoop] at h
    obtain ⟨rfl, rfl⟩ := h
    exact ⟨hI, hext, hP, Frame.refl _⟩
  | cons l ls ih =>
    intro ws st fu st' fu' h hsub hI hext hP
    simp only [pbPassLoop] at h
    split at h
    · rename_i hind
      cases ws with
      | nil => cases h
      | cons w ws' =>
        simp only at h
        have hsub' : ∀ p ∈ ws'.zip ls, p ∈ W.zip L := fun p hp =>
          hsub p (by simp only [List.zip_cons_cons, List.mem_cons]; exact Or.inr hp)
        split at h
        · rename_i hw
          have hm : (w, l) ∈ W.zip L := hsub (w, l) (by simp)
          have hs := pb_step (lvl := lvl) hlvl hnn hI hext hP hm (status_indet_iff.1 hind) (by omega)
          have := ih ws' _ _ _ _ h hsub' hs.1 hs.2.1 hs.2.2
          exact ⟨this.1, this.2.1, this.2.2.1, (frame_propagateUnit st lvl l).trans this.2.2.2⟩
        · exact ih ws' _ _ _ _ h hsub' hI hext hP
    · have hsub' : ∀ p ∈ ws.tail.zip ls, p ∈ W.zip L := by
        intro p hp
        cases ws with
        | nil => simp at hp
        | cons w ws' =>
          exact hsub p (by simp only [List.zip_cons_cons, List.mem_cons]; exact Or.inr hp)
      exact ih ws.tail _ _ _ _ h hsub' hI hext hP

theorem mem_zip_of_mem {W L : List Int} (hlen : W.length = L.length) {l : Int} (hl : l ∈ L) :
    ∃ w, (w, l) ∈ W.zip L ∧ w ∈ W := by
  obtain ⟨i, hi, rfl⟩ := List.getElem_of_mem hl
  refine ⟨W[i]'(by omega), ?_, List.getElem_mem _⟩
  rw [List.mem_iff_getElem]
  refine ⟨i, by simp [List.length_zip]; omega, by simp⟩

theorem propAllLoop_sound {m0 ms : Nat → Int} {W L : List Int} {card lvl : Int}
    (hlvl : 0 < lvl) (hpos : ∀ w ∈ W, 0 < w) (hlen : W.length = L.length)
    (hslack : 0 = -card + wNF ms W L) :
    ∀ (ls : List Int) (st : St), (∀ l ∈ ls, l ∈ L) →
      Inv m0 st.m (fun a => PbHolds a W L card) → (∀ v, ms v ≠ 0 → st.m v = ms v) →
      (∀ l ∈ st.props, Forced m0 (fun a => PbHolds a W L card) l) →
      Inv m0 (propAllLoop lvl ls st).m (fun a => PbHolds a W L card) ∧
      (∀ l ∈ (propAllLoop lvl ls st).props, Forced m0 (fun a => PbHolds a W L card) l) ∧
      Frame st (propAllLoop lvl ls st) := by
  have hnn : ∀ w ∈ W, 0 ≤ w := fun w hw => Int.le_of_lt (hpos w hw)
  intro ls
  induction ls with
  | nil => intro st _ hI _ hP; exact ⟨hI, hP, Frame.refl _⟩
  | cons l ls ih =>
    intro st hsub hI hext hP
    simp only [propAllLoop]
    have hsub' : ∀ l ∈ ls, l ∈ L := fun x hx => hsub x (List.mem_cons_of_mem _ hx)
    split
    · rename_i hind
      obtain ⟨w, hm, hwW⟩ := mem_zip_of_mem hlen (hsub l List.mem_cons_self)
      have hs := pb_step (lvl := lvl) hlvl hnn hI hext hP hm (status_indet_iff.1 hind)
        (by have := hpos w hwW; omega)
      have := ih _ hsub' hs.1 hs.2.1 hs.2.2
      exact ⟨this.1, this.2.1, (frame_propagateUnit st lvl l).trans this.2.2⟩
    · exact ih _ hsub' hI hext hP

/-- What `updateWatchPB` leaves untouched. -/
def WFrame (st st' : St) : Prop :=
  st'.m = st.m ∧ st'.props = st.props ∧ st'.lits = st.lits ∧ st'.weights = st.weights ∧
    st'.watched.length = st.watched.length

theorem WFrame.refl (st : St) : WFrame st st := ⟨rfl, rfl, rfl, rfl, rfl⟩
theorem WFrame.trans {a b c : St} (h1 : WFrame a b) (h2 : WFrame b c) : WFrame a c :=
  ⟨h2.1.trans h1.1, h2.2.1.trans h1.2.1, h2.2.2.1.trans h1.2.2.1, h2.2.2.2.1.trans h1.2.2.2.1,
    h2.2.2.2.2.trans h1.2.2.2.2⟩

theorem uwLoop1_frame {card : Int} :
    ∀ (fuel : Nat) (st : St) (i : Nat) (ww : Int) (st' : St) (i' : Nat),
      uwLoop1 card fuel st i ww = .ok (st', i') → WFrame st st' := by
  intro fuel
  induction fuel with
  | zero =>
    intro st i ww st' i' h
    unfold uwLoop1 at h
    split at h
    · cases h
    · cases h; exact WFrame.refl _
  | succ fuel ih =>
    intro st i ww st' i' h
    unfold uwLoop1 at h
    split at h
    · simp only at h
      split at h
      · cases h
      · split at h
        · split at h
          · cases h
          · have h2 := ih _ _ _ _ _ h; refine WFrame.trans ?_ h2; exact ⟨rfl, rfl, rfl, rfl, by simp⟩
          · exact ih _ _ _ _ _ h
        · split at h
          · cases h
          · split at h
            · cases h
            · have h2 := ih _ _ _ _ _ h; refine WFrame.trans ?_ h2; exact ⟨rfl, rfl, rfl, rfl, by simp⟩
            · exact ih _ _ _ _ _ h
    · cases h; exact WFrame.refl _

theorem uwLoop2_frame :
    ∀ (fuel : Nat) (st : St) (i : Nat) (st' : St), uwLoop2 fuel st i = .ok st' → WFrame st st' := by
  intro fuel
  induction fuel with
  | zero =>
    intro st i st' h
    unfold uwLoop2 at h
    split at h
    · cases h
    · cases h; exact WFrame.refl _
  | succ fuel ih =>
    intro st i st' h
    unfold uwLoop2 at h
    split at h
    · simp only at h
      split at h
      · cases h
      · split at h
        · cases h
        · have h2 := ih _ _ _ h; refine WFrame.trans ?_ h2; exact ⟨rfl, rfl, rfl, rfl, by simp⟩
      · exact ih _ _ _ h
    · cases h; exact WFrame.refl _

theorem updateWatchPB_frame {card : Int} {st st' : St} (h : updateWatchPB card st = .ok st') :
    WFrame st st' := by
  unfold updateWatchPB at h
  split at h
  · rename_i st1 i h1
    exact (uwLoop1_frame _ _ _ _ _ _ h1).trans (uwLoop2_frame _ _ _ _ h)
  · cases h
  · cases h

/-- Soundness of the loop of `simplifyPseudoBool`, from any state reached inside a call. -/
theorem pbLoop_sound {m0 : Nat → Int} {W L : List Int} {card lvl : Int}
    (hlvl : 0 < lvl) (hpos : ∀ w ∈ W, 0 < w) (hlen : W.length = L.length) :
    ∀ (fuel : Nat) (st : St) (b : Bool) (st' : St), pbLoop lvl card fuel st = .ok (b, st') →
      st.lits = L → st.weights = W →
      Inv m0 st.m (fun a => PbHolds a W L card) →
      (∀ l ∈ st.props, Forced m0 (fun a => PbHolds a W L card) l) →
      Inv m0 st'.m (fun a => PbHolds a W L card) ∧
      (∀ l ∈ st'.props, Forced m0 (fun a => PbHolds a W L card) l) ∧
      (b = false → ∀ a, Ext a m0 → ¬ PbHolds a W L card) := by
  have hnn : ∀ w ∈ W, 0 ≤ w := fun w hw => Int.le_of_lt (hpos w hw)
  intro fuel
  induction fuel with
  | zero => intro st b st' h; simp [pbLoop] at h
  | succ fuel ih =>
    intro st b st' h hL hW hI hP
    simp only [pbLoop] at h
    split at h
    · rename_i slack sat hss
      unfold slackSum at hss
      rw [hL, hW] at hss
      have hspec := slackLoop_spec _ _ _ _ _ _ hss
      split at h
      · cases h; exact ⟨hI, hP, fun hb => by cases hb⟩
      · rename_i hsat
        have hsl := hspec.1 (by simpa using hsat)
        split at h
        · rename_i hneg
          cases h
          refine ⟨hI, hP, fun _ a ha hc => ?_⟩
          have h1 := lhs_le_wNF (hI.2 a ha hc) W L hnn
          unfold PbHolds at hc
          omega
        · split at h
          · rename_i hz
            cases h
            have := propAllLoop_sound (m0 := m0) (ms := st.m) (card := card) hlvl hpos hlen (by omega)
              st.lits st (by rw [hL]; exact fun _ h => h) hI (fun _ _ => rfl) hP
            exact ⟨this.1, this.2.1, fun hb => by cases hb⟩
          · split at h
            · rename_i st1 hpass
              rw [hL, hW] at hpass
              have := pbPassLoop_sound (m0 := m0) (ms := st.m) (card := card) hlvl hnn hsl
                _ _ _ _ _ _ hpass (fun _ h => h) hI (fun _ _ => rfl) hP
              exact ih st1 b st' h (this.2.2.2.1.trans hL) (this.2.2.2.2.1.trans hW) this.1 this.2.2.1
            · rename_i st1 hpass
              rw [hL, hW] at hpass
              have := pbPassLoop_sound (m0 := m0) (ms := st.m) (card := card) hlvl hnn hsl
                _ _ _ _ _ _ hpass (fun _ h => h) hI (fun _ _ => rfl) hP
              split at h
              · rename_i st2 hu
                cases h
                have hf := updateWatchPB_frame hu
                rw [hf.1, hf.2.1]
                exact ⟨this.1, this.2.2.1, fun hb => by cases hb⟩
              · cases h
              · cases h
            · cases h
            · cases h
    · cases h
    · cases h

/-- (a)+(b) for `simplifyPseudoBool`: a `false` answer means the constraint is false under every total
    assignment extending the assignment at the call; every literal handed to `propagateUnit` is true in
    every total assignment that extends it and satisfies the constraint (weights `≥ 1`, as many weights
    as literals). -/
theorem pb_sound {lvl card : Int} (hlvl : 0 < lvl) {st st' : St} {b : Bool}
    (hpos : ∀ w ∈ st.weights, 0 < w) (hlen : st.weights.length = st.lits.length)
    (h : simplifyPB lvl card st = .ok (b, st')) (hp : st.props = []) :
    (b = false → ∀ a, Ext a st.m → ¬ PbHolds a st.weights st.lits card) ∧
    (∀ l ∈ st'.props, Forced st.m (fun a => PbHolds a st.weights st.lits card) l) ∧
    Inv st.m st'.m (fun a => PbHolds a st.weights st.lits card) := by
  have := pbLoop_sound (m0 := st.m) hlvl hpos hlen _ _ _ _ h rfl rfl (inv_refl _ _) (by simp [hp])
  exact ⟨this.2.2, this.2.1, this.1⟩

theorem pb_conflict_sound {lvl card : Int} (hlvl : 0 < lvl) {st st' : St}
    (hpos : ∀ w ∈ st.weights, 0 < w) (hlen : st.weights.length = st.lits.length)
    (h : simplifyPB lvl card st = .ok (false, st')) (hp : st.props = []) :
    ∀ a, Ext a st.m → ¬ PbHolds a st.weights st.lits card :=
  (pb_sound hlvl hpos hlen h hp).1 rfl

theorem pb_propagated_forced {lvl card : Int} (hlvl : 0 < lvl) {st st' : St} {b : Bool}
    (hpos : ∀ w ∈ st.weights, 0 < w) (hlen : st.weights.length = st.lits.length)
    (h : simplifyPB lvl card st = .ok (b, st')) (hp : st.props = []) :
    ∀ l ∈ st'.props, Forced st.m (fun a => PbHolds a st.weights st.lits card) l :=
  (pb_sound hlvl hpos hlen h hp).2.1

theorem wNF_eq_wT_of_total {m : Nat → Int} :
    ∀ (ws ls : List Int), (∀ l ∈ ls, m l.natAbs ≠ 0) → wNF m ws ls = wT m ws ls := by
  intro ws
  induction ws with
  | nil => intro ls _; simp [wNF, wT]
  | cons w ws ih =>
    intro ls hb
    cases ls with
    | nil => simp [wNF, wT]
    | cons l ls =>
      simp only [wNF, wT]
      rw [ih ls (fun x hx => hb x (List.mem_cons_of_mem _ hx))]
      have : litStatus m l ≠ .indet := fun h => hb l List.mem_cons_self (status_indet_iff.1 h)
      cases hs : litStatus m l
      · exact absurd hs this
      · simp
      · simp

/-- COMPLETENESS at a total assignment: when every literal of the constraint is bound and
    `simplifyPseudoBool` returns `true`, the constraint holds (weights `≥ 0`; the verdict comes from
    `slackSum`, recomputed from scratch, not from the watches). -/
theorem pb_true_of_total {lvl card : Int} {st st' : St}
    (hnn : ∀ w ∈ st.weights, 0 ≤ w)
    (h : simplifyPB lvl card st = .ok (true, st'))
    (htot : ∀ l ∈ st.lits, st.m l.natAbs ≠ 0) :
    ∀ a, Ext a st.m → PbHolds a st.weights st.lits card := by
  intro a ha
  have h1 := wT_le_lhs ha st.weights st.lits hnn
  have h2 := wNF_eq_wT_of_total st.weights st.lits htot
  unfold PbHolds
  unfold simplifyPB at h
  simp only [pbLoop] at h
  split at h
  · rename_i slack sat hss
    unfold slackSum at hss
    have hspec := slackLoop_spec _ _ _ _ _ _ hss
    by_cases hsat : sat = true
    · have := hspec.2 hsat hnn; omega
    · have hsl := hspec.1 (by simpa using hsat)
      have hsat' : sat = false := by simpa using hsat
      subst hsat'
      simp only [Bool.false_eq_true, if_false] at h
      by_cases hneg : slack < 0
      · simp [hneg] at h
      · omega
  · cases h
  · cases h

/-! ## `simplifyCardAMOConstr` -/

theorem drop_of_getElem? {l : Int} {ls : List Int} {i : Nat} (h : ls[i]? = some l) :
    ls.drop i = l :: ls.drop (i + 1) := by
  obtain ⟨hi, rfl⟩ := List.getElem?_eq_some_iff.1 h
  exact List.drop_eq_getElem_cons hi

theorem amoScan_spec {m : Nat → Int} {lits : List Int} :
    ∀ (n i : Nat) (ff b : Bool), amoScan m lits n i ff = .ok b →
      (b = false → 2 ≤ (if ff then 1 else 0) + cnt m .unsat ((lits.drop i).take n)) ∧
      (b = true → n ≤ (lits.drop i).length ∧
        (if ff then 1 else 0) + cnt m .unsat ((lits.drop i).take n) ≤ 1) := by
  intro n
  induction n with
  | zero =>
    intro i ff b h
    simp [amoScan] at h
    subst h
    simp [cnt]; split <;> omega
  | succ n ih =>
    intro i ff b h
    simp only [amoScan] at h
    split at h
    · cases h
    · rename_i l hl
      have hd := drop_of_getElem? hl
      have hn := cnt_nonneg m .unsat ((lits.drop (i + 1)).take n)
      rw [hd]
      simp only [List.take_succ_cons, cnt, List.length_cons]
      split at h
      · rename_i hs
        split at h
        · rename_i hff
          cases h
          simp [hs, hff]
          omega
        · rename_i hff
          have := ih (i + 1) true b h
          have hff' : ff = false := by simpa using hff
          subst hff'
          cases b <;> simp [hs] at this ⊢ <;> omega
      · rename_i hs
        have := ih (i + 1) ff b h
        cases b <;> cases ff <;> simp [hs] at this ⊢ <;> omega

theorem amoProp_sound {m0 : Nat → Int} {C : Asg → Prop} {lvl : Int} (hlvl : 0 < lvl) :
    ∀ (n i : Nat) (st st' : St), amoProp lvl n i st = .ok st' →
      (∀ l ∈ st.lits, m0 l.natAbs = 0 → Forced m0 C l) → Inv m0 st.m C →
      (∀ l ∈ st.props, Forced m0 C l) →
      Inv m0 st'.m C ∧ (∀ l ∈ st'.props, Forced m0 C l) := by
  intro n
  induction n with
  | zero => intro i st st' h _ hI hP; simp [amoProp] at h; subst h; exact ⟨hI, hP⟩
  | succ n ih =>
    intro i st st' h hF hI hP
    simp only [amoProp] at h
    split at h
    · cases h
    · rename_i l hl
      have hmem : l ∈ st.lits := List.mem_of_getElem? hl
      split at h
      · rename_i hu
        have hf := hF l hmem (unbound_of_inv hI hu)
        have hb := inv_bind hI hu hlvl (fun a ha hc => hf a (ext_of_inv hI ha) hc)
        exact ih _ _ _ h hF hb.1 (by
          intro l' hl'
          simp only [propagateUnit, List.mem_append, List.mem_singleton] at hl'
          rcases hl' with hl' | rfl
          · exact hP l' hl'
          · exact hb.2)
      · exact ih _ _ _ h hF hI hP

theorem cnt_pos_of_mem {m : Nat → Int} {s : Status} {l : Int} :
    ∀ ls : List Int, l ∈ ls → litStatus m l = s → 1 ≤ cnt m s ls := by
  intro ls
  induction ls with
  | nil => intro h; cases h
  | cons x xs ih =>
    intro hm hs
    simp only [cnt]
    have := cnt_nonneg m s xs
    rcases List.mem_cons.1 hm with rfl | hm
    · simp [hs]; omega
    · have := ih hm hs; split <;> omega

/-- (a) for `simplifyCardAMOConstr` on an at-most-one shaped constraint (`card = len − 1`). -/
theorem amo_conflict_sound {lvl card : Int} {st st' : St} (hshape : card + 1 = st.lits.length)
    (h : simplifyCardAMO lvl card st = .ok (false, st')) :
    ∀ a, Ext a st.m → ¬ CardHolds a st.lits card := by
  intro a ha hc
  unfold simplifyCardAMO at h
  have hn : (card + 1).toNat = st.lits.length := by omega
  split at h
  · rename_i hsc
    have := (amoScan_spec _ _ _ _ hsc).1 rfl
    rw [hn] at this
    simp at this
    have h2 := nTrue_le_nonfalse ha st.lits
    have h3 := cnt_total st.m st.lits
    unfold CardHolds at hc; unfold nTrue at h2
    omega
  · cases hq : amoProp lvl (card + 1).toNat 0 st <;> rw [hq] at h <;> cases h
  · cases h
  · cases h

/-- (b) for `simplifyCardAMOConstr`: HYPOTHESIS `hfalse` — one literal of the constraint is false (the
    function is meant to be called from `wlistCardAMO[lit]`, i.e. when `¬lit`, a literal of the
    constraint, has just become false). Without it the function propagates every unbound literal of a
    constraint none of whose literals is false: see `amo_unsound_without_false`. -/
theorem amo_propagated_forced {lvl card : Int} (hlvl : 0 < lvl) {st st' : St} {b : Bool}
    (hshape : card + 1 = st.lits.length)
    (hfalse : ∃ l ∈ st.lits, litStatus st.m l = .unsat)
    (h : simplifyCardAMO lvl card st = .ok (b, st')) (hp : st.props = []) :
    ∀ l ∈ st'.props, Forced st.m (fun a => CardHolds a st.lits card) l := by
  unfold simplifyCardAMO at h
  have hn : (card + 1).toNat = st.lits.length := by omega
  split at h
  · cases h; simp [hp]
  · rename_i hsc
    have := ((amoScan_spec _ _ _ _ hsc).2 rfl).2
    rw [hn] at this
    simp at this
    obtain ⟨l0, hl0, hs0⟩ := hfalse
    have h1 := cnt_pos_of_mem st.lits hl0 hs0
    have h3 := cnt_total st.m st.lits
    have htight : cnt st.m .sat st.lits + cnt st.m .indet st.lits = card := by omega
    cases hq : amoProp lvl (card + 1).toNat 0 st with
    | ok st1 =>
      rw [hq] at h; cases h
      exact (amoProp_sound (m0 := st.m) (C := fun a => CardHolds a st.lits card) hlvl _ _ _ _ hq
        (fun l hl hu => tight_forced htight hl hu) (inv_refl _ _) (by simp [hp])).2
    | panic => rw [hq] at h; cases h
    | fuel => rw [hq] at h; cases h
  · cases h
  · cases h

/-- Witness for `hfalse`: `x1 + x2 + x3 ≥ 2`, nothing bound: `simplifyCardAMOConstr` propagates
    `x1, x2, x3`, but `x1` is false in the model `{¬x1, x2, x3}` of the constraint. (Dead code in the
    solver as it stands: nothing is ever put in `wlistCardAMO`, see `GS.Model.PbProp`.) -/
theorem amo_unsound_without_false :
    ∃ st', simplifyCardAMO 2 2 (St.init (fun _ => 0) [1, 2, 3] [1, 1, 1] [true, true, true]) = .ok (true, st') ∧
      st'.props = [1, 2, 3] ∧
      ¬ Forced (fun _ => 0) (fun a => CardHolds a [1, 2, 3] 2) 1 := by
  refine ⟨_, rfl, rfl, ?_⟩
  intro h
  have := h (fun v => decide (v ≠ 1)) (by intro v; constructor <;> intro h <;> simp at h)
    (by unfold CardHolds; decide)
  revert this; decide

/-! ## (c) `simplifyPseudoBool` neither panics nor loops -/

theorem slackLoop_ok {m : Nat → Int} {card : Int} :
    ∀ (ws ls : List Int) (slack sum : Int), ws.length ≤ ls.length →
      ∃ r, slackLoop m card ws ls slack sum = .ok r := by
  intro ws
  induction ws with
  | nil => intro ls slack sum _; exact ⟨_, rfl⟩
  | cons w ws ih =>
    intro ls slack sum hlen
    cases ls with
    | nil => simp at hlen
    | cons l ls =>
      simp only [slackLoop]
      have hlen' : ws.length ≤ ls.length := by simpa using hlen
      cases litStatus m l
      · exact ih _ _ _ hlen'
      · simp only; split
        · exact ⟨_, rfl⟩
        · exact ih _ _ _ hlen'
      · exact ih _ _ _ hlen'

theorem signedLvl_ne_zero {l lvl : Int} (h : lvl ≠ 0) : signedLvl l lvl ≠ 0 := by
  unfold signedLvl; split <;> omega

theorem indet_of_indet_bind {m : Nat → Int} {l lvl x : Int} (hlvl : lvl ≠ 0)
    (h : litStatus (bind m l lvl) x = .indet) : litStatus m x = .indet ∧ x.natAbs ≠ l.natAbs := by
  rw [status_indet_iff] at h ⊢
  unfold bind at h
  by_cases hx : x.natAbs = l.natAbs
  · simp [hx] at h; exact absurd h (signedLvl_ne_zero hlvl)
  · simp [hx] at h; exact ⟨h, hx⟩

theorem cnt_indet_bind_le {m : Nat → Int} {l lvl : Int} (hlvl : lvl ≠ 0) :
    ∀ L : List Int, cnt (bind m l lvl) .indet L ≤ cnt m .indet L := by
  intro L
  induction L with
  | nil => simp [cnt]
  | cons x xs ih =>
    simp only [cnt]
    by_cases hx : litStatus (bind m l lvl) x = .indet
    · simp [hx, (indet_of_indet_bind hlvl hx).1]; omega
    · simp only [hx, if_false]; split <;> omega

theorem cnt_indet_bind_lt {m : Nat → Int} {l lvl : Int} (hlvl : lvl ≠ 0) (hu : m l.natAbs = 0) :
    ∀ L : List Int, l ∈ L → cnt (bind m l lvl) .indet L + 1 ≤ cnt m .indet L := by
  intro L
  induction L with
  | nil => intro h; cases h
  | cons x xs ih =>
    intro hm
    simp only [cnt]
    rcases List.mem_cons.1 hm with rfl | hm
    · have h1 : litStatus (bind m l lvl) l ≠ .indet := fun h => (indet_of_indet_bind hlvl h).2 rfl
      have := cnt_indet_bind_le (m := m) (l := l) hlvl xs
      simp [h1, status_indet_iff.2 hu]; omega
    · have := ih hm
      by_cases hx : litStatus (bind m l lvl) x = .indet
      · simp [hx, (indet_of_indet_bind hlvl hx).1]; omega
      · simp only [hx, if_false]; split <;> omega

theorem pbPassLoop_ok {L : List Int} {lvl slack : Int} (hlvl : lvl ≠ 0) :
    ∀ (ls ws : List Int) (st : St) (fu : Bool), ls.length ≤ ws.length → (∀ x ∈ ls, x ∈ L) →
      ∃ st' fu', pbPassLoop lvl slack ls ws st fu = .ok (st', fu') ∧ Frame st st' ∧
        cnt st'.m .indet L ≤ cnt st.m .indet L ∧
        (fu' = true → fu = true ∨ cnt st'.m .indet L + 1 ≤ cnt st.m .indet L) := by
  intro ls
  induction ls with
  | nil => intro ws st fu _ _; exact ⟨st, fu, rfl, Frame.refl _, Int.le_refl _, fun h => Or.inl h⟩
  | cons l ls ih =>
    intro ws st fu hlen hsub
    have hsub' : ∀ x ∈ ls, x ∈ L := fun x hx => hsub x (List.mem_cons_of_mem _ hx)
    simp only [pbPassLoop]
    split
    · rename_i hind
      cases ws with
      | nil => simp at hlen
      | cons w ws' =>
        have hlen' : ls.length ≤ ws'.length := by simpa using hlen
        simp only
        split
        · obtain ⟨st', fu', h1, h2, h3, h4⟩ := ih ws' (propagateUnit st lvl l) true hlen' hsub'
          have hlt := cnt_indet_bind_lt (lvl := lvl) hlvl (status_indet_iff.1 hind) L (hsub l List.mem_cons_self)
          refine ⟨st', fu', h1, (frame_propagateUnit st lvl l).trans h2, ?_, fun _ => Or.inr ?_⟩
          · simp only [propagateUnit] at h3; omega
          · simp only [propagateUnit] at h3; omega
        · exact ih ws' st fu hlen' hsub'
    · have hlen' : ls.length ≤ ws.tail.length := by
        cases ws with
        | nil => simp at hlen
        | cons w ws' => simpa using hlen
      exact ih ws.tail st fu hlen' hsub'

theorem uwLoop1_ok {card : Int} :
    ∀ (fuel : Nat) (st : St) (i : Nat) (ww : Int), st.lits.length ≤ fuel + i →
      st.weights.length = st.lits.length → st.watched.length = st.lits.length →
      ∃ st' i', uwLoop1 card fuel st i ww = .ok (st', i') := by
  intro fuel
  induction fuel with
  | zero =>
    intro st i ww hf _ _
    unfold uwLoop1
    split
    · omega
    · exact ⟨_, _, rfl⟩
  | succ fuel ih =>
    intro st i ww hf hw hwt
    unfold uwLoop1
    split
    · rename_i hc
      have hi : i < st.lits.length := hc.2
      simp only
      rw [List.getElem?_eq_getElem hi, List.getElem?_eq_getElem (by omega : i < st.watched.length),
        List.getElem?_eq_getElem (by omega : i < st.weights.length)]
      simp only
      split
      · cases st.watched[i]'(by omega)
        · exact ih _ _ _ (by omega) hw hwt
        · exact ih _ _ _ (by simp; omega) (by simpa using hw) (by simpa using hwt)
      · cases st.watched[i]'(by omega)
        · exact ih _ _ _ (by simp; omega) (by simpa using hw) (by simpa using hwt)
        · exact ih _ _ _ (by omega) hw hwt
    · exact ⟨_, _, rfl⟩

theorem uwLoop2_ok :
    ∀ (fuel : Nat) (st : St) (i : Nat), st.lits.length ≤ fuel + i →
      st.watched.length = st.lits.length → ∃ st', uwLoop2 fuel st i = .ok st' := by
  intro fuel
  induction fuel with
  | zero =>
    intro st i hf _
    unfold uwLoop2
    split
    · omega
    · exact ⟨_, rfl⟩
  | succ fuel ih =>
    intro st i hf hwt
    unfold uwLoop2
    split
    · rename_i hi
      simp only
      rw [List.getElem?_eq_getElem (by omega : i < st.watched.length), List.getElem?_eq_getElem hi]
      cases st.watched[i]'(by omega)
      · exact ih _ _ (by omega) hwt
      · exact ih _ _ (by simp; omega) (by simpa using hwt)
    · exact ⟨_, rfl⟩

theorem updateWatchPB_ok {card : Int} {st : St} (hw : st.weights.length = st.lits.length)
    (hwt : st.watched.length = st.lits.length) : ∃ st', updateWatchPB card st = .ok st' := by
  unfold updateWatchPB
  obtain ⟨st1, i, h1⟩ := uwLoop1_ok (card := card) st.lits.length st 0 0 (by omega) hw hwt
  rw [h1]
  have hf := uwLoop1_frame _ _ _ _ _ _ h1
  simp only
  exact uwLoop2_ok st.lits.length st1 i (by rw [hf.2.2.1]; omega) (by rw [hf.2.2.2.2, hf.2.2.1]; exact hwt)

/-- The `for foundUnit` loop: with `fuel` above the number of unbound literals it ends. -/
theorem pbLoop_ok {lvl card : Int} (hlvl : lvl ≠ 0) :
    ∀ (fuel : Nat) (st : St), st.weights.length = st.lits.length → st.watched.length = st.lits.length →
      cnt st.m .indet st.lits < fuel → ∃ r, pbLoop lvl card fuel st = .ok r := by
  intro fuel
  induction fuel with
  | zero =>
    intro st _ _ h
    have := cnt_nonneg st.m .indet st.lits
    omega
  | succ fuel ih =>
    intro st hw hwt hf
    simp only [pbLoop]
    obtain ⟨⟨slack, sat⟩, hs⟩ := slackLoop_ok (m := st.m) (card := card) st.weights st.lits (-card) 0 (by omega)
    unfold slackSum
    rw [hs]
    simp only
    split
    · exact ⟨_, rfl⟩
    · split
      · exact ⟨_, rfl⟩
      · split
        · exact ⟨_, rfl⟩
        · obtain ⟨st1, fu', h1, h2, h3, h4⟩ := pbPassLoop_ok (L := st.lits) (lvl := lvl) (slack := slack) hlvl
            st.lits st.weights st false (by omega) (fun _ h => h)
          rw [h1]
          cases fu' with
          | true =>
            simp only
            have := h4 rfl
            have hlt : cnt st1.m .indet st.lits + 1 ≤ cnt st.m .indet st.lits := by
              rcases this with h | h
              · cases h
              · exact h
            exact ih st1 (by rw [h2.2.1, h2.1]; exact hw) (by rw [h2.2.2.1, h2.1]; exact hwt)
              (by rw [h2.1]; omega)
          | false =>
            simp only
            obtain ⟨st2, h5⟩ := updateWatchPB_ok (card := card) (st := st1)
              (by rw [h2.2.1, h2.1]; exact hw) (by rw [h2.2.2.1, h2.1]; exact hwt)
            rw [h5]
            exact ⟨_, rfl⟩

/-- (c) NO PANIC, TERMINATION: with as many weights and watch flags as literals (`NewPBClause`) and a
    decision level `≠ 0`, `simplifyPseudoBool` returns (in the model, where flags and watch lists agree;
    `removeFrom` is only reached under `watched[i]`). The hypothesis `lvl ≠ 0` is needed for
    termination: see `pb_loops_at_level_zero`. -/
theorem pb_no_panic {lvl card : Int} (hlvl : lvl ≠ 0) (st : St)
    (hw : st.weights.length = st.lits.length) (hwt : st.watched.length = st.lits.length) :
    ∃ b st', simplifyPB lvl card st = .ok (b, st') := by
  have h1 := cnt_total st.m st.lits
  have h2 := cnt_nonneg st.m .sat st.lits
  have h3 := cnt_nonneg st.m .unsat st.lits
  obtain ⟨⟨b, st'⟩, h⟩ := pbLoop_ok (lvl := lvl) (card := card) hlvl (st.lits.length + 1) st hw hwt
    (by push_cast; omega)
  exact ⟨b, st', h⟩

/-- At level `0` `propagateUnit` leaves the literal unbound and the `for foundUnit` loop never ends
    (the solver never uses level `0`: `decLevel` starts at `1`): whatever the fuel, it runs out. -/
theorem pb_loops_at_level_zero_aux :
    ∀ (fuel : Nat) (st : St), (∀ v, st.m v = 0) → st.lits = [1, 2] → st.weights = [2, 1] →
      pbLoop 0 2 fuel st = .fuel := by
  intro fuel
  induction fuel with
  | zero => intro st _ _ _; simp [pbLoop]
  | succ fuel ih =>
    intro st hm hL hW
    have h1 : litStatus st.m 1 = .indet := status_indet_iff.2 (hm _)
    have h2 : litStatus st.m 2 = .indet := status_indet_iff.2 (hm _)
    have hm' : ∀ v, (propagateUnit st 0 1).m v = 0 := by
      intro v; simp only [propagateUnit, bind, signedLvl]; split <;> simp [hm]
    have h3 : litStatus (propagateUnit st 0 1).m 2 = .indet := status_indet_iff.2 (hm' _)
    have := ih (propagateUnit st 0 1) hm' hL hW
    simp only [pbLoop, slackSum, hL, hW, slackLoop, h1, h2, pbPassLoop]
    simp [h3, this]

theorem pb_loops_at_level_zero (fuel : Nat) :
    pbLoop 0 2 fuel (St.init (fun _ => 0) [1, 2] [2, 1] [true, true]) = .fuel :=
  pb_loops_at_level_zero_aux fuel _ (fun _ => rfl) rfl rfl

/-! ## (c) `simplifyCardConstr`: no panic -/

/-- `simplifyCardConstr` establishes the precondition written above `swapFalse` ("at least
    cardinality + 1 true and unbounded lits") before calling it. -/
theorem swapFalse_precondition {m : Nat → Int} {card t f u : Int} {ls : List Int}
    (hlen : card ≤ ls.length) (hc : countLoop m ls.length card ls 0 0 0 = .fin t f u)
    (hne : ¬ u + t = card) : card + 1 ≤ cnt m .sat ls + cnt m .indet ls := by
  have hfin := countLoop_fin _ _ _ _ _ _ _ hc
  have htotal := cnt_total m ls
  omega

theorem cnt_bind_of_not_mem {m : Nat → Int} {l lvl : Int} {s : Status} :
    ∀ xs : List Int, (∀ y ∈ xs, y.natAbs ≠ l.natAbs) → cnt (bind m l lvl) s xs = cnt m s xs := by
  intro xs
  induction xs with
  | nil => intro _; rfl
  | cons x xs ih =>
    intro h
    simp only [cnt]
    rw [ih (fun y hy => h y (List.mem_cons_of_mem _ hy))]
    have hx := h x List.mem_cons_self
    have : litStatus (bind m l lvl) x = litStatus m x := by
      unfold litStatus bind; simp [hx]
    rw [this]

/-- With pairwise distinct variables, binding one literal removes at most one unbound literal. -/
theorem cnt_indet_bind_ge {m : Nat → Int} {l lvl : Int} :
    ∀ xs : List Int, (xs.map Int.natAbs).Nodup → cnt m .indet xs - 1 ≤ cnt (bind m l lvl) .indet xs := by
  intro xs
  induction xs with
  | nil => intro _; simp [cnt]
  | cons x xs ih =>
    intro hnd
    simp only [List.map_cons, List.nodup_cons] at hnd
    simp only [cnt]
    by_cases hx : x.natAbs = l.natAbs
    · have : ∀ y ∈ xs, y.natAbs ≠ l.natAbs := by
        intro y hy h
        exact hnd.1 (by rw [hx, ← h]; exact List.mem_map_of_mem hy)
      rw [cnt_bind_of_not_mem xs this]
      split <;> split <;> omega
    · have := ih hnd.2
      have hs : litStatus (bind m l lvl) x = litStatus m x := by
        unfold litStatus bind; simp [hx]
      rw [hs]; omega

theorem cardPropLoop_ok {lvl : Int} :
    ∀ (fuel : Nat) (st : St) (i : Nat) (nb : Int), (st.lits.map Int.natAbs).Nodup →
      nb ≤ cnt st.m .indet (st.lits.drop i) → nb.toNat + (st.lits.length - i) < fuel →
      ∃ st', cardPropLoop lvl fuel st i nb = .ok st' := by
  intro fuel
  induction fuel with
  | zero => intro st i nb _ _ h; omega
  | succ fuel ih =>
    intro st i nb hnd hcnt hf
    unfold cardPropLoop
    split
    · rename_i hnb
      simp only
      have hi : i < st.lits.length := by
        by_cases hi : i < st.lits.length
        · exact hi
        · rw [List.drop_eq_nil_of_le (by omega)] at hcnt
          simp [cnt] at hcnt; omega
      rw [List.getElem?_eq_getElem hi]
      simp only
      have hd : st.lits.drop i = st.lits[i] :: st.lits.drop (i + 1) := List.drop_eq_getElem_cons hi
      split
      · have hnd' : ((st.lits.drop i).map Int.natAbs).Nodup :=
          List.Nodup.sublist ((List.drop_sublist i st.lits).map _) hnd
        have := cnt_indet_bind_ge (m := st.m) (l := st.lits[i]) (lvl := lvl) _ hnd'
        exact ih (propagateUnit st lvl st.lits[i]) i (nb - 1) hnd
          (by simp only [propagateUnit]; omega) (by simp only [propagateUnit]; omega)
      · rename_i hb
        have hs : litStatus st.m st.lits[i] ≠ .indet := fun h => hb (status_indet_iff.1 h)
        rw [hd] at hcnt
        simp only [cnt, hs, if_false] at hcnt
        exact ih st (i + 1) nb hnd (by omega) (by omega)
    · exact ⟨_, rfl⟩

/-- What remains to be proved for (c) on the cardinality side: `swapFalse` does not panic under the
    precondition `simplifyCardConstr` establishes (`swapFalse_precondition`), when the first `card+1`
    positions are the watched ones (the invariant of `watchClause` / `swapFalse`). Proved below:
    `swapFalse_no_panic`. -/
def swapFalse_no_panic_statement : Prop :=
  ∀ (card : Int) (st : St), 0 ≤ card → card + 1 ≤ st.lits.length →
    card + 1 ≤ cnt st.m .sat st.lits + cnt st.m .indet st.lits →
    (∀ k : Nat, (k : Int) < card + 1 → st.watched[k]? = some true) →
    ∃ st', swapFalse card st = .ok st'

/-- (c) for `simplifyCardConstr`, up to `swapFalse_no_panic_statement`: pairwise distinct variables,
    `0 ≤ card < len`, the first `card+1` positions watched. -/
theorem card_no_panic_partial (hswap : swapFalse_no_panic_statement) {lvl card : Int} (st : St)
    (hnd : (st.lits.map Int.natAbs).Nodup) (hc0 : 0 ≤ card) (hlen : card + 1 ≤ st.lits.length)
    (hw : ∀ k : Nat, (k : Int) < card + 1 → st.watched[k]? = some true) :
    ∃ b st', simplifyCard lvl card st = .ok (b, st') := by
  unfold simplifyCard
  split
  · exact ⟨_, _, rfl⟩
  · exact ⟨_, _, rfl⟩
  · rename_i t f u hcl
    have hfin := countLoop_fin _ _ _ _ _ _ _ hcl
    split
    · rename_i heq
      obtain ⟨st1, h1⟩ := cardPropLoop_ok (lvl := lvl) (u.toNat + st.lits.length + 1) st 0 u hnd
        (by simp only [List.drop_zero]; omega) (by omega)
      rw [h1]; exact ⟨_, _, rfl⟩
    · rename_i hne
      obtain ⟨st1, h1⟩ := hswap card st hc0 hlen (swapFalse_precondition (by omega) hcl hne) hw
      rw [h1]; exact ⟨_, _, rfl⟩

/-- Witness for the distinct-variables hypothesis: `x1 + ¬x1 + x2 + x3 ≥ 3` with `x3` false:
    `nbUnb + nbTrue == card`, the loop `for nbUnb > 0` binds `x1`, finds `¬x1` bound, binds `x2`, then
    runs past the end of the constraint (`clause.Get(4)`). -/
theorem card_panics_on_duplicate_variable :
    (match simplifyCard 2 3 (St.init (fun v => if v = 3 then -1 else 0) [1, -1, 2, 3] [1, 1, 1, 1] [true, true, true, true]) with
     | .panic => true | _ => false) = true := by decide

/-- Witness for the comment above `swapFalse`: called with fewer than `card+1` non-false literals it
    indexes past the end of the constraint. -/
theorem swapFalse_panics_without_precondition :
    (match swapFalse 1 (St.init (fun _ => -1) [1, 2, 3] [1, 1, 1] [true, true, false]) with
     | .panic => true | _ => false) = true := by decide

/-- Witness for "watched flags consistent": `swapFalse` on a constraint that is not in the watch list
    of the literal it moves away panics in `removeFrom`. -/
theorem swapFalse_panics_when_not_watched :
    (match swapFalse 1 (St.init (fun v => if v = 1 then -1 else 0) [1, 2, 3] [1, 1, 1] [false, true, false]) with
     | .panic => true | _ => false) = true := by decide

/-! ## Watch invariants (statements) -/

theorem wNF_take_succ (m : Nat → Int) :
    ∀ (i : Nat) (ws ls : List Int) (hw : i < ws.length) (hl : i < ls.length),
      wNF m (ws.take (i + 1)) (ls.take (i + 1)) =
        wNF m (ws.take i) (ls.take i) + (if litStatus m ls[i] = .unsat then 0 else ws[i]) := by
  intro i
  induction i with
  | zero =>
    intro ws ls hw hl
    cases ws with
    | nil => simp at hw
    | cons w ws => cases ls with
      | nil => simp at hl
      | cons l ls => simp [wNF]
  | succ i ih =>
    intro ws ls hw hl
    cases ws with
    | nil => simp at hw
    | cons w ws => cases ls with
      | nil => simp at hl
      | cons l ls =>
        simp only [List.take_succ_cons, wNF, List.getElem_cons_succ]
        rw [ih ws ls (by simpa using hw) (by simpa using hl)]
        omega

/-- Flag a position should carry: watched iff not false. -/
def nfFlag (m : Nat → Int) (l : Int) : Bool := litStatus m l != .unsat

theorem uwLoop1_spec {card : Int} :
    ∀ (fuel : Nat) (st : St) (i : Nat) (ww : Int) (st' : St) (i' : Nat),
      uwLoop1 card fuel st i ww = .ok (st', i') →
      st.weights.length = st.lits.length → st.watched.length = st.lits.length → i ≤ st.lits.length →
      ww = wNF st.m (st.weights.take i) (st.lits.take i) →
      i ≤ i' ∧ i' ≤ st.lits.length ∧
      (card < wNF st.m (st.weights.take i') (st.lits.take i') ∨ i' = st.lits.length) ∧
      (∀ k, i ≤ k → k < i' → ∀ l, st.lits[k]? = some l → st'.watched[k]? = some (nfFlag st.m l)) ∧
      (∀ k, (k < i ∨ i' ≤ k) → st'.watched[k]? = st.watched[k]?) := by
  intro fuel
  induction fuel with
  | zero =>
    intro st i ww st' i' h hw hwt hi hww
    unfold uwLoop1 at h
    split at h
    · cases h
    · rename_i hc
      cases h
      refine ⟨Nat.le_refl _, hi, ?_, fun k h1 h2 => by omega, fun _ _ => rfl⟩
      by_cases h1 : ww ≤ card
      · right; have : ¬ i < st.lits.length := fun h2 => hc ⟨h1, h2⟩
        omega
      · left; omega
  | succ fuel ih =>
    intro st i ww st' i' h hw hwt hi hww
    unfold uwLoop1 at h
    split at h
    · rename_i hc
      have hil : i < st.lits.length := hc.2
      simp only at h
      have hiw : i < st.weights.length := by rw [hw]; exact hil
      have hwi : i < st.watched.length := by rw [hwt]; exact hil
      rw [List.getElem?_eq_getElem hil, List.getElem?_eq_getElem hwi,
        List.getElem?_eq_getElem hiw] at h
      simp only at h
      have hsucc := wNF_take_succ st.m i st.weights st.lits hiw hil
      -- common closing argument: `st1` differs from `st` at most by `watched[i] := nfFlag`
      have close : ∀ (st1 : St) (ww1 : Int), uwLoop1 card fuel st1 (i + 1) ww1 = .ok (st', i') →
          st1.m = st.m → st1.lits = st.lits → st1.weights = st.weights →
          st1.watched.length = st.watched.length →
          st1.watched[i]? = some (nfFlag st.m st.lits[i]) →
          (∀ k, k ≠ i → st1.watched[k]? = st.watched[k]?) →
          ww1 = wNF st.m (st.weights.take (i + 1)) (st.lits.take (i + 1)) →
          i ≤ i' ∧ i' ≤ st.lits.length ∧
          (card < wNF st.m (st.weights.take i') (st.lits.take i') ∨ i' = st.lits.length) ∧
          (∀ k, i ≤ k → k < i' → ∀ l, st.lits[k]? = some l → st'.watched[k]? = some (nfFlag st.m l)) ∧
          (∀ k, (k < i ∨ i' ≤ k) → st'.watched[k]? = st.watched[k]?) := by
        intro st1 ww1 h1 e1 e2 e3 e4 e5 e6 e7
        have := ih st1 (i + 1) ww1 st' i' h1 (by rw [e3, e2]; exact hw) (by rw [e4, e2]; exact hwt)
          (by rw [e2]; omega) (by rw [e1, e2, e3]; exact e7)
        rw [e1, e2, e3] at this
        obtain ⟨a1, a2, a3, a4, a5⟩ := this
        refine ⟨by omega, a2, a3, ?_, ?_⟩
        · intro k hk1 hk2 l hl
          by_cases hki : k = i
          · subst hki
            rw [a5 k (Or.inl (by omega)), e5]
            rw [List.getElem?_eq_getElem hil] at hl; cases hl; rfl
          · exact a4 k (by omega) hk2 l hl
        · intro k hk
          rcases hk with hk | hk
          · rw [a5 k (Or.inl (by omega)), e6 k (by omega)]
          · rw [a5 k (Or.inr hk), e6 k (by omega)]
      split at h
      · rename_i hs
        have hflag : nfFlag st.m st.lits[i] = false := by simp [nfFlag, hs]
        cases hb : st.watched[i] <;> rw [hb] at h <;> simp only at h
        · exact close st ww h rfl rfl rfl rfl
            (by rw [List.getElem?_eq_getElem hwi, hb, hflag]) (fun _ _ => rfl)
            (by rw [hsucc, ← hww]; simp [hs])
        · exact close _ ww h rfl rfl rfl (by simp)
            (by simp only; rw [List.getElem?_set_self hwi, hflag])
            (fun k hk => by simp only; rw [List.getElem?_set_ne (Ne.symm hk)])
            (by rw [hsucc, ← hww]; simp [hs])
      · rename_i hs
        have hflag : nfFlag st.m st.lits[i] = true := by simp [nfFlag, hs]
        cases hb : st.watched[i] <;> rw [hb] at h <;> simp only at h
        · exact close _ _ h rfl rfl rfl (by simp)
            (by simp only; rw [List.getElem?_set_self hwi, hflag])
            (fun k hk => by simp only; rw [List.getElem?_set_ne (Ne.symm hk)])
            (by rw [hsucc, ← hww]; simp [hs])
        · exact close st _ h rfl rfl rfl rfl
            (by rw [List.getElem?_eq_getElem hwi, hb, hflag]) (fun _ _ => rfl)
            (by rw [hsucc, ← hww]; simp [hs])
    · rename_i hc
      cases h
      refine ⟨Nat.le_refl _, hi, ?_, fun k h1 h2 => by omega, fun _ _ => rfl⟩
      by_cases h1 : ww ≤ card
      · right; have : ¬ i < st.lits.length := fun h2 => hc ⟨h1, h2⟩
        omega
      · left; omega

theorem uwLoop2_spec :
    ∀ (fuel : Nat) (st : St) (i : Nat) (st' : St), uwLoop2 fuel st i = .ok st' →
      st.watched.length = st.lits.length →
      (∀ k, i ≤ k → k < st.lits.length → st'.watched[k]? = some false) ∧
      (∀ k, k < i → st'.watched[k]? = st.watched[k]?) := by
  intro fuel
  induction fuel with
  | zero =>
    intro st i st' h hwt
    unfold uwLoop2 at h
    split at h
    · cases h
    · cases h; exact ⟨fun k h1 h2 => by omega, fun _ _ => rfl⟩
  | succ fuel ih =>
    intro st i st' h hwt
    unfold uwLoop2 at h
    split at h
    · rename_i hil
      have hwi : i < st.watched.length := by omega
      simp only at h
      rw [List.getElem?_eq_getElem hwi, List.getElem?_eq_getElem hil] at h
      cases hb : st.watched[i] <;> rw [hb] at h <;> simp only at h
      · obtain ⟨a1, a2⟩ := ih st (i + 1) st' h hwt
        refine ⟨?_, fun k hk => a2 k (by omega)⟩
        intro k hk1 hk2
        by_cases hki : k = i
        · subst hki; rw [a2 k (by omega), List.getElem?_eq_getElem hwi, hb]
        · exact a1 k (by omega) hk2
      · obtain ⟨a1, a2⟩ := ih _ (i + 1) st' h (by simpa using hwt)
        simp only at a1 a2
        refine ⟨?_, ?_⟩
        · intro k hk1 hk2
          by_cases hki : k = i
          · subst hki; rw [a2 k (by omega), List.getElem?_set_self hwi]
          · exact a1 k (by omega) hk2
        · intro k hk
          rw [a2 k (by omega), List.getElem?_set_ne (by omega)]
    · cases h; exact ⟨fun k h1 h2 => by omega, fun _ _ => rfl⟩

/-- WATCH INVARIANT after `updateWatchPB`: there is a prefix length `n` such that the watched positions
    are exactly the positions `< n` whose literal is not false, and either their weight exceeds `card`
    or `n = len` (every literal that is not false is watched). In particular no false literal is
    watched. -/
theorem watchedEnough_after_update {card : Int} {st st' : St}
    (hw : st.weights.length = st.lits.length) (hwt : st.watched.length = st.lits.length)
    (h : updateWatchPB card st = .ok st') :
    ∃ n, n ≤ st.lits.length ∧
      (∀ k l, st.lits[k]? = some l → st'.watched[k]? = some (decide (k < n) && nfFlag st.m l)) ∧
      (card < wNF st.m (st.weights.take n) (st.lits.take n) ∨ n = st.lits.length) := by
  unfold updateWatchPB at h
  split at h
  · rename_i st1 n h1
    have hf := uwLoop1_frame _ _ _ _ _ _ h1
    obtain ⟨a1, a2, a3, a4, a5⟩ := uwLoop1_spec _ _ _ _ _ _ h1 hw hwt (Nat.zero_le _) (by simp [wNF])
    obtain ⟨b1, b2⟩ := uwLoop2_spec _ _ _ _ h (by rw [hf.2.2.2.2, hf.2.2.1]; exact hwt)
    rw [hf.2.2.1] at b1
    refine ⟨n, a2, ?_, a3⟩
    intro k l hl
    have hk : k < st.lits.length := (List.getElem?_eq_some_iff.1 hl).1
    by_cases hkn : k < n
    · rw [b2 k hkn, a4 k (Nat.zero_le _) hkn l hl]; simp [hkn]
    · rw [b1 k (by omega) hk]; simp [hkn]
  · cases h
  · cases h


theorem wNF_nonneg (m : Nat → Int) :
    ∀ (ws ls : List Int), (∀ w ∈ ws, 0 ≤ w) → 0 ≤ wNF m ws ls := by
  intro ws
  induction ws with
  | nil => intro ls _; simp [wNF]
  | cons w ws ih =>
    intro ls hnn
    cases ls with
    | nil => simp [wNF]
    | cons l ls =>
      simp only [wNF]
      have := ih ls (fun w hw => hnn w (List.mem_cons_of_mem _ hw))
      have := hnn w List.mem_cons_self
      split <;> omega

/-- The watched non-false weight under `m` stays non-false under any `m'` that falsifies no watched literal. -/
theorem watched_weight_kept {m m' : Nat → Int} :
    ∀ (ls ws : List Int) (bs : List Bool) (n : Nat), (∀ w ∈ ws, 0 ≤ w) →
      (∀ (k : Nat) (l : Int), ls[k]? = some l → bs[k]? = some (decide (k < n) && nfFlag m l)) →
      (∀ (k : Nat) (l : Int), ls[k]? = some l → bs[k]? = some true → litStatus m' l ≠ .unsat) →
      wNF m (ws.take n) (ls.take n) ≤ wNF m' ws ls := by
  intro ls
  induction ls with
  | nil => intro ws bs n _ _ _; cases ws <;> cases n <;> simp [wNF]
  | cons l ls ih =>
    intro ws bs n hnn hH hG
    cases ws with
    | nil => simp [wNF]
    | cons w ws =>
      have hnn' : ∀ w ∈ ws, 0 ≤ w := fun w hw => hnn w (List.mem_cons_of_mem _ hw)
      have hw0 := hnn w List.mem_cons_self
      cases n with
      | zero =>
        simp only [List.take_zero, wNF]
        exact wNF_nonneg m' (w :: ws) (l :: ls) hnn
      | succ n =>
        simp only [List.take_succ_cons, wNF]
        have h0 := hH 0 l (by simp)
        simp only [Nat.zero_lt_succ, decide_true, Bool.true_and] at h0
        have htail := ih ws bs.tail n hnn'
          (fun k l' hl' => by
            have := hH (k + 1) l' (by simpa using hl')
            cases bs with
            | nil => simp at this
            | cons b bs => simpa using this)
          (fun k l' hl' hb => by
            cases bs with
            | nil => simp at hb
            | cons b bs => exact hG (k + 1) l' (by simpa using hl') (by simpa using hb))
        by_cases hs : litStatus m l = .unsat
        · simp only [hs, if_true]
          split <;> omega
        · have hflag : nfFlag m l = true := by simp [nfFlag, hs]
          rw [hflag] at h0
          have := hG 0 l (by simp) h0
          simp only [hs, this, if_false]
          omega


/-- NO MISSED CONFLICT (watch side of completeness for a pseudo-boolean constraint): `updateWatchPB` is
    reached with `slack ≥ 0`; afterwards, under ANY assignment `m'` (later bindings, or fewer after a
    backjump) that makes no watched literal false, the slack is still `≥ 0`: the constraint cannot be
    violated without `propagate` visiting it (`wlistPb[lit]` holds it for the negation of every watched
    literal). Weights `≥ 0`. -/
theorem pb_no_missed_conflict {card : Int} {st st' : St}
    (hw : st.weights.length = st.lits.length) (hwt : st.watched.length = st.lits.length)
    (hnn : ∀ w ∈ st.weights, 0 ≤ w) (h : updateWatchPB card st = .ok st')
    (hslack : card ≤ wNF st.m st.weights st.lits) (m' : Nat → Int)
    (hG : ∀ (k : Nat) (l : Int), st'.lits[k]? = some l → st'.watched[k]? = some true → litStatus m' l ≠ .unsat) :
    card ≤ wNF m' st.weights st.lits := by
  obtain ⟨n, hn, hH, hor⟩ := watchedEnough_after_update hw hwt h
  have hf := updateWatchPB_frame h
  rw [hf.2.2.1] at hG
  have hk := watched_weight_kept (m := st.m) (m' := m') st.lits st.weights st'.watched n hnn hH hG
  rcases hor with h1 | h1
  · omega
  · subst h1
    rw [List.take_of_length_le (Nat.le_refl _), List.take_of_length_le (by omega)] at hk
    omega

/-- … hence at a total assignment reached without falsifying a watched literal the constraint holds. -/
theorem pb_watch_complete_at_total {card : Int} {st st' : St}
    (hw : st.weights.length = st.lits.length) (hwt : st.watched.length = st.lits.length)
    (hnn : ∀ w ∈ st.weights, 0 ≤ w) (h : updateWatchPB card st = .ok st')
    (hslack : card ≤ wNF st.m st.weights st.lits) (m' : Nat → Int)
    (hG : ∀ (k : Nat) (l : Int), st'.lits[k]? = some l → st'.watched[k]? = some true → litStatus m' l ≠ .unsat)
    (htot : ∀ l ∈ st.lits, m' l.natAbs ≠ 0) :
    ∀ a, Ext a m' → PbHolds a st.weights st.lits card := by
  intro a ha
  have h1 := pb_no_missed_conflict hw hwt hnn h hslack m' hG
  have h2 := wNF_eq_wT_of_total (m := m') st.weights st.lits htot
  have h3 := wT_le_lhs ha st.weights st.lits hnn
  unfold PbHolds; omega

/-- What is NOT proved about the watches of a pseudo-boolean constraint: `simplifyPseudoBool` returns
    early (without `updateWatchPB`) when `slackSum` reports `sat`, when `slack == 0` (`propagateAll`)
    and on a conflict; the watches are then those of an earlier call. Per call, the expected statement
    is the one below (a call that starts from watches as `updateWatchPB` leaves them and answers `true`
    ends in a state from which no conflict can be missed); that "watched non-false weight `> card`, or
    true weight `≥ card`" is an invariant of the whole search, across these early returns and
    `cleanupBindings` (which needs the trail order: the true literals an early `sat` return relied on
    were bound before the falsified watched literal, so a backjump that keeps the latter keeps the
    former), is left open. -/
def pb_watch_invariant_call_statement : Prop :=
  ∀ (card lvl : Int) (st st' : St), st.weights.length = st.lits.length →
    st.watched.length = st.lits.length → (∀ w ∈ st.weights, 0 < w) → 0 < lvl →
    (st.lits.map Int.natAbs).Nodup →
    (∃ n, (∀ (k : Nat) (l : Int), st.lits[k]? = some l →
        st.watched[k]? = some (decide (k < n) && nfFlag st.m l)) ∧
      (card < wNF st.m (st.weights.take n) (st.lits.take n) ∨ n = st.lits.length)) →
    simplifyPB lvl card st = .ok (true, st') →
    ∀ m' : Nat → Int, (∀ v, st'.m v ≠ 0 → m' v = st'.m v) →
      (∀ (k : Nat) (l : Int), st'.lits[k]? = some l → st'.watched[k]? = some true → litStatus m' l ≠ .unsat) →
      card ≤ wNF m' st'.weights st'.lits

/-- Number of literals that are not false. -/
def nfc (m : Nat → Int) : List Int → Int
  | [] => 0
  | l :: ls => (if litStatus m l = .unsat then 0 else 1) + nfc m ls

theorem nfc_eq (m : Nat → Int) (xs : List Int) : nfc m xs = cnt m .sat xs + cnt m .indet xs := by
  induction xs with
  | nil => rfl
  | cons x xs ih =>
    simp only [nfc, cnt, ih]
    cases litStatus m x <;> simp <;> omega

theorem drop_cons_of_getElem? {l : Int} {ls : List Int} {i : Nat} (h : ls[i]? = some l) :
    ls.drop i = l :: ls.drop (i + 1) := drop_of_getElem? h

theorem seg_cons {L : List Int} {c i : Nat} {l : Int} (hi : i < c) (h : L[i]? = some l) :
    (L.take c).drop i = l :: (L.take c).drop (i + 1) := by
  apply drop_of_getElem?
  rw [List.getElem?_take_of_lt hi]; exact h

theorem skipNonFalse_ok {m : Nat → Int} {L : List Int} {c : Nat} (hc : c ≤ L.length) :
    ∀ (fuel i : Nat), i < c → c - i ≤ fuel + 1 →
      (skipNonFalse m L (c : Int) fuel i = .ok none ∧
        ∀ k, i ≤ k → k < c → ∀ l, L[k]? = some l → litStatus m l ≠ .unsat) ∨
      ∃ i' l, skipNonFalse m L (c : Int) fuel i = .ok (some i') ∧ i ≤ i' ∧ i' < c ∧
        L[i']? = some l ∧ litStatus m l = .unsat ∧
        cnt m .unsat ((L.take c).drop i') = cnt m .unsat ((L.take c).drop i) ∧
        ∀ k, i ≤ k → k < i' → ∀ l, L[k]? = some l → litStatus m l ≠ .unsat := by
  intro fuel
  induction fuel with
  | zero =>
    intro i hi hf
    unfold skipNonFalse
    have hil : i < L.length := by omega
    rw [List.getElem?_eq_getElem hil]
    simp only
    split
    · rename_i hs
      have : ((i : Int) + 1) = (c : Int) := by omega
      refine Or.inl ⟨by simp [this], ?_⟩
      intro k hk1 hk2 l hl
      have : k = i := by omega
      subst this
      rw [List.getElem?_eq_getElem hil] at hl; cases hl; exact hs
    · rename_i hs
      exact Or.inr ⟨i, L[i], rfl, Nat.le_refl _, hi, List.getElem?_eq_getElem hil, by simpa using hs, rfl,
        fun k h1 h2 => by omega⟩
  | succ fuel ih =>
    intro i hi hf
    unfold skipNonFalse
    have hil : i < L.length := by omega
    rw [List.getElem?_eq_getElem hil]
    simp only
    split
    · rename_i hs
      have hhere : ∀ k, k = i → ∀ l, L[k]? = some l → litStatus m l ≠ .unsat := by
        intro k hk l hl
        subst hk
        rw [List.getElem?_eq_getElem hil] at hl; cases hl; exact hs
      split
      · rename_i heq
        refine Or.inl ⟨rfl, ?_⟩
        intro k hk1 hk2 l hl
        exact hhere k (by omega) l hl
      · rename_i hne
        have hi1 : i + 1 < c := by omega
        rcases ih (i + 1) hi1 (by omega) with ⟨h, hr⟩ | ⟨i', l, h1, h2, h3, h4, h5, h6, h7⟩
        · refine Or.inl ⟨h, ?_⟩
          intro k hk1 hk2 l hl
          by_cases hki : k = i
          · exact hhere k hki l hl
          · exact hr k (by omega) hk2 l hl
        · refine Or.inr ⟨i', l, h1, by omega, h3, h4, h5, ?_, ?_⟩
          · rw [h6, seg_cons hi (List.getElem?_eq_getElem hil)]
            simp [cnt, hs]
          · intro k hk1 hk2 l' hl'
            by_cases hki : k = i
            · exact hhere k hki l' hl'
            · exact h7 k (by omega) hk2 l' hl'
    · rename_i hs
      exact Or.inr ⟨i, L[i], rfl, Nat.le_refl _, hi, List.getElem?_eq_getElem hil, by simpa using hs, rfl,
        fun k h1 h2 => by omega⟩

theorem skipFalse_ok {m : Nat → Int} {L : List Int} :
    ∀ (fuel j : Nat), 1 ≤ nfc m (L.drop j) → L.length - j ≤ fuel + 1 →
      ∃ j' l, skipFalse m L fuel j = .ok j' ∧ j ≤ j' ∧ j' < L.length ∧ L[j']? = some l ∧
        litStatus m l ≠ .unsat ∧ nfc m (L.drop j') = nfc m (L.drop j) := by
  intro fuel
  induction fuel with
  | zero =>
    intro j hn hf
    have hjl : j < L.length := by
      by_cases h : j < L.length
      · exact h
      · rw [List.drop_eq_nil_of_le (by omega)] at hn; simp [nfc] at hn
    have hd := List.drop_eq_getElem_cons hjl
    unfold skipFalse
    rw [List.getElem?_eq_getElem hjl]
    simp only
    split
    · rename_i hs
      have : L.drop (j + 1) = [] := List.drop_eq_nil_of_le (by omega)
      rw [hd, this] at hn
      simp [nfc, hs] at hn
    · rename_i hs
      exact ⟨j, L[j], rfl, Nat.le_refl _, hjl, List.getElem?_eq_getElem hjl, hs, rfl⟩
  | succ fuel ih =>
    intro j hn hf
    have hjl : j < L.length := by
      by_cases h : j < L.length
      · exact h
      · rw [List.drop_eq_nil_of_le (by omega)] at hn; simp [nfc] at hn
    have hd := List.drop_eq_getElem_cons hjl
    unfold skipFalse
    rw [List.getElem?_eq_getElem hjl]
    simp only
    split
    · rename_i hs
      have hn' : nfc m (L.drop (j + 1)) = nfc m (L.drop j) := by rw [hd]; simp [nfc, hs]
      obtain ⟨j', l, h1, h2, h3, h4, h5, h6⟩ := ih (j + 1) (by omega) (by omega)
      exact ⟨j', l, h1, by omega, h3, h4, h5, by omega⟩
    · rename_i hs
      exact ⟨j, L[j], rfl, Nat.le_refl _, hjl, List.getElem?_eq_getElem hjl, hs, rfl⟩

theorem swapFalseLoop_ok {c : Nat} :
    ∀ (fuel : Nat) (st : St) (i j : Nat), c ≤ st.lits.length → i ≤ c → c ≤ j →
      (∀ k, k < c → st.watched[k]? = some true) →
      (∀ k, k < i → ∀ l, st.lits[k]? = some l → litStatus st.m l ≠ .unsat) →
      cnt st.m .unsat ((st.lits.take c).drop i) ≤ nfc st.m (st.lits.drop j) → c - i ≤ fuel →
      ∃ st', swapFalseLoop (c : Int) fuel st i j = .ok st' ∧
        ∀ k, k < c → ∀ l, st'.lits[k]? = some l → litStatus st'.m l ≠ .unsat := by
  intro fuel
  induction fuel with
  | zero =>
    intro st i j hc hi hj hw hq hcnt hf
    unfold swapFalseLoop
    have : ¬ ((i : Int) < (c : Int)) := by omega
    simp only [this, if_false]
    exact ⟨st, rfl, fun k hk => hq k (by omega)⟩
  | succ fuel ih =>
    intro st i j hc hi hj hw hq hcnt hf
    unfold swapFalseLoop
    by_cases hic : i < c
    · have : ((i : Int) < (c : Int)) := by omega
      simp only [this, if_true]
      rcases skipNonFalse_ok (m := st.m) hc st.lits.length i hic (by omega) with ⟨h, hr⟩ | ⟨i', li, h1, h2, h3, h4, h5, h6, h7⟩
      · rw [h]
        refine ⟨st, rfl, ?_⟩
        intro k hk l hl
        by_cases hki : k < i
        · exact hq k hki l hl
        · exact hr k (by omega) hk l hl
      · rw [h1]
        simp only
        have hseg := seg_cons h3 h4 (c := c)
        have e1 : cnt st.m .unsat ((st.lits.take c).drop i) =
            1 + cnt st.m .unsat ((st.lits.take c).drop (i' + 1)) := by
          rw [← h6, hseg]; simp [cnt, h5]
        have hpos : 1 ≤ nfc st.m (st.lits.drop j) := by
          have := cnt_nonneg st.m .unsat ((st.lits.take c).drop (i' + 1))
          omega
        obtain ⟨j', lj, g1, g2, g3, g4, g5, g6⟩ := skipFalse_ok (m := st.m) (L := st.lits) st.lits.length j hpos (by omega)
        rw [g1]
        simp only
        have hwi : st.watched[i']? = some true := hw i' h3
        have hil : i' < st.lits.length := by omega
        have hstep : swapStep st i' j' = .ok { st with
            lits := swapL st.lits i' j', weights := swapL st.weights i' j',
            watched := (st.watched.set i' true).set j' false,
            edits := st.edits ++ [(false, li), (true, lj)] } := by
          unfold swapStep; simp [h4, g4, hwi]
        rw [hstep]
        simp only
        have hL' : swapL st.lits i' j' = (st.lits.set i' lj).set j' li := by
          unfold swapL; simp [h4, g4]
        have hij : i' < j' := by omega
        apply ih
        · show c ≤ (swapL st.lits i' j').length
          rw [hL', List.length_set, List.length_set]; exact hc
        · omega
        · omega
        · intro k hk
          simp only
          have hkj : j' ≠ k := by omega
          rw [List.getElem?_set_ne hkj]
          by_cases hki : i' = k
          · subst hki
            have : i' < st.watched.length := by
              rcases List.getElem?_eq_some_iff.1 hwi with ⟨h, _⟩; exact h
            rw [List.getElem?_set_self this]
          · rw [List.getElem?_set_ne hki]; exact hw k hk
        · intro k hk l hl
          simp only [hL'] at hl
          simp only
          have hkj : j' ≠ k := by omega
          rw [List.getElem?_set_ne hkj] at hl
          by_cases hki : i' = k
          · subst hki
            rw [List.getElem?_set_self hil] at hl
            cases hl; exact g5
          · rw [List.getElem?_set_ne hki] at hl
            by_cases hk2 : k < i
            · exact hq k hk2 l hl
            · exact h7 k (by omega) (by omega) l hl
        · simp only [hL']
          rw [List.take_set_of_le (by omega : c ≤ j'), List.drop_take,
            List.drop_set_of_lt (by omega : i' < i' + 1),
            List.drop_set_of_lt (by omega : j' < j' + 1), List.drop_set_of_lt (by omega : i' < j' + 1)]
          have hd := drop_of_getElem? g4
          have e2 : nfc st.m (st.lits.drop j) = 1 + nfc st.m (st.lits.drop (j' + 1)) := by
            rw [← g6, hd]; simp [nfc, g5]
          rw [← List.drop_take]
          omega
        · omega
    · have : ¬ ((i : Int) < (c : Int)) := by omega
      simp only [this, if_false]
      exact ⟨st, rfl, fun k hk => hq k (by omega)⟩


/-- `swapFalse` does not panic under the precondition written above it (established by
    `simplifyCardConstr`: `swapFalse_precondition`) when the first `card+1` positions are watched, and
    it leaves no false literal among the first `card+1` (watched) positions: the watch invariant of a
    cardinality constraint. -/
theorem swapFalse_ok_and_watches {card : Int} {st : St} (hc0 : 0 ≤ card) (hlen : card + 1 ≤ st.lits.length)
    (hpre : card + 1 ≤ cnt st.m .sat st.lits + cnt st.m .indet st.lits)
    (hw : ∀ k : Nat, (k : Int) < card + 1 → st.watched[k]? = some true) :
    ∃ st', swapFalse card st = .ok st' ∧
      ∀ k : Nat, (k : Int) < card + 1 → ∀ l, st'.lits[k]? = some l → litStatus st'.m l ≠ .unsat := by
  unfold swapFalse
  have hcc : card + 1 = (((card + 1).toNat : Nat) : Int) := by omega
  rw [hcc]
  have hcl : (card + 1).toNat ≤ st.lits.length := by omega
  -- false literals among the first card+1 ≤ non-false literals after them
  have hcount : cnt st.m .unsat ((st.lits.take (card + 1).toNat).drop 0) ≤
      nfc st.m (st.lits.drop (card + 1).toNat) := by
    have h1 := cnt_total st.m (st.lits.take (card + 1).toNat)
    have h2 := nfc_eq st.m (st.lits.take (card + 1).toNat)
    have h3 := nfc_eq st.m st.lits
    have h4 : nfc st.m st.lits = nfc st.m (st.lits.take (card + 1).toNat) + nfc st.m (st.lits.drop (card + 1).toNat) := by
      have : ∀ (xs ys : List Int), nfc st.m (xs ++ ys) = nfc st.m xs + nfc st.m ys := by
        intro xs ys
        induction xs with
        | nil => simp [nfc]
        | cons x xs ih => simp only [List.cons_append, nfc, ih]; omega
      rw [← this, List.take_append_drop]
    have h5 : ((st.lits.take (card + 1).toNat).length : Int) = card + 1 := by
      rw [List.length_take]; omega
    simp only [List.drop_zero]
    omega
  obtain ⟨st', h, hq⟩ := swapFalseLoop_ok (c := (card + 1).toNat) (st.lits.length + 1) st 0 (card + 1).toNat
    hcl (by omega) (Nat.le_refl _) (fun k hk => hw k (by omega)) (fun k hk => by omega) hcount (by omega)
  exact ⟨st', h, fun k hk => hq k (by omega)⟩

theorem swapFalse_no_panic : swapFalse_no_panic_statement := by
  intro card st hc0 hlen hpre hw
  obtain ⟨st', h, _⟩ := swapFalse_ok_and_watches hc0 hlen hpre hw
  exact ⟨st', h⟩

/-- (c) NO PANIC for `simplifyCardConstr`: pairwise distinct variables, `0 ≤ card < len`, the first
    `card+1` positions watched (what `watchClause` installs and `swapFalse` maintains). -/
theorem card_no_panic {lvl card : Int} (st : St)
    (hnd : (st.lits.map Int.natAbs).Nodup) (hc0 : 0 ≤ card) (hlen : card + 1 ≤ st.lits.length)
    (hw : ∀ k : Nat, (k : Int) < card + 1 → st.watched[k]? = some true) :
    ∃ b st', simplifyCard lvl card st = .ok (b, st') :=
  card_no_panic_partial swapFalse_no_panic st hnd hc0 hlen hw

/-! ## Non-vacuity: concrete calls meeting the hypotheses -/

/-- Observable part of a result. -/
def view : Res (Bool × St) → Option (Bool × List Int × List Int × List Bool × List (Bool × Int))
  | .ok (b, st) => some (b, st.props, st.lits, st.watched, st.edits)
  | _ => none

def mOf (ms : List Int) : Nat → Int := fun v => if v = 0 then 0 else (ms[v - 1]?).getD 0

-- card_conflict_sound: x1+x2+x3+x4 ≥ 2 with x1,x2,x3 false
example : view (simplifyCard 2 2 (St.init (mOf [-1, -1, -1, 0]) [1, 2, 3, 4] [1, 1, 1, 1] [true, true, true, false]))
    = some (false, [], [1, 2, 3, 4], [true, true, true, false], []) := by rfl
-- card_propagated_forced: x1,x2 false: x3,x4 propagated
example : view (simplifyCard 2 2 (St.init (mOf [-1, -1, 0, 0]) [1, 2, 3, 4] [1, 1, 1, 1] [true, true, true, false]))
    = some (true, [3, 4], [1, 2, 3, 4], [true, true, true, false], []) := by rfl
-- card_up_strength / swapFalse: x1 false: swapped with x4, watch moved
example : view (simplifyCard 2 2 (St.init (mOf [-1, 0, 0, 0]) [1, 2, 3, 4] [1, 1, 1, 1] [true, true, true, false]))
    = some (true, [], [4, 2, 3, 1], [true, true, true, false], [(false, 1), (true, 4)]) := by rfl
-- card_true_of_total: total assignment, two true
example : view (simplifyCard 2 2 (St.init (mOf [-1, 1, 1, -1]) [1, 2, 3, 4] [1, 1, 1, 1] [true, true, true, false]))
    = some (true, [], [1, 2, 3, 4], [true, true, true, false], []) := by rfl
example : ∀ l ∈ [1, 2, 3, 4], (mOf [-1, 1, 1, -1]) (Int.natAbs l) ≠ 0 := by decide
example : ([1, 2, 3, 4].map Int.natAbs).Nodup := by decide
-- pb_sound: 3x1+2x2+x3 ≥ 3 with x1 false: x2, x3 propagated (slack 0); with x1, x2 false: conflict
example : view (simplifyPB 2 3 (St.init (mOf [-1, 0, 0]) [1, 2, 3] [3, 2, 1] [true, true, true]))
    = some (true, [2, 3], [1, 2, 3], [true, true, true], []) := by rfl
example : view (simplifyPB 2 3 (St.init (mOf [-1, -1, 0]) [1, 2, 3] [3, 2, 1] [true, true, true]))
    = some (false, [], [1, 2, 3], [true, true, true], []) := by rfl
-- the `for foundUnit` loop runs twice and `updateWatchPB` edits the lists: 4x1+3x2+2x3+x4+x5 ≥ 6, x2 false
example : view (simplifyPB 2 6 (St.init (mOf [0, -1, 0, 0, 0]) [1, 2, 3, 4, 5] [4, 3, 2, 1, 1] [true, true, true, true, false]))
    = some (true, [1], [1, 2, 3, 4, 5], [true, false, true, true, false], [(false, 2)]) := by rfl
example : ∀ w ∈ [3, 2, 1], (0 : Int) < w := by decide
-- pb_true_of_total
example : view (simplifyPB 2 3 (St.init (mOf [-1, 1, 1]) [1, 2, 3] [3, 2, 1] [true, true, true]))
    = some (true, [], [1, 2, 3], [true, true, true], []) := by rfl
-- amo: x1+x2+x3 ≥ 2, x1 false: x2, x3 propagated; x1, x2 false: conflict
example : view (simplifyCardAMO 2 2 (St.init (mOf [-1, 0, 0]) [1, 2, 3] [1, 1, 1] [true, true, true]))
    = some (true, [2, 3], [1, 2, 3], [true, true, true], []) := by rfl
example : view (simplifyCardAMO 2 2 (St.init (mOf [-1, -1, 0]) [1, 2, 3] [1, 1, 1] [true, true, true]))
    = some (false, [], [1, 2, 3], [true, true, true], []) := by rfl
example : ∃ l ∈ [1, 2, 3], litStatus (mOf [-1, 0, 0]) l = .unsat := ⟨1, by decide, by decide⟩

/-- Witness for `weights ≥ 1` in `pb_sound`: `x1 + x2 + 0·x3 ≥ 1` with `x1` false: `slack == 0`,
    `propagateAll` propagates `x3` although `{¬x1, x2, ¬x3}` satisfies the constraint. -/
theorem pb_zero_weight_not_forced :
    view (simplifyPB 2 1 (St.init (mOf [-1, 0, 0]) [1, 2, 3] [1, 1, 0] [true, true, false]))
      = some (true, [2, 3], [1, 2, 3], [true, true, false], []) ∧
    ¬ Forced (mOf [-1, 0, 0]) (fun a => PbHolds a [1, 1, 0] [1, 2, 3] 1) 3 := by
  refine ⟨by rfl, ?_⟩
  intro h
  have := h (fun v => decide (v = 2)) (by intro v; constructor <;> intro h <;> revert h <;> unfold mOf <;> (rcases v with _ | _ | _ | _ | v <;> simp))
    (by unfold PbHolds; decide)
  revert this; decide

#print axioms card_conflict_sound
#print axioms card_propagated_forced
#print axioms card_true_of_total
#print axioms card_up_strength
#print axioms card_no_panic
#print axioms swapFalse_ok_and_watches
#print axioms swapFalse_precondition
#print axioms watchedEnough_after_update
#print axioms pb_no_missed_conflict
#print axioms pb_watch_complete_at_total
#print axioms pb_sound
#print axioms pb_true_of_total
#print axioms pb_no_panic
#print axioms pb_loops_at_level_zero
#print axioms amo_conflict_sound
#print axioms amo_propagated_forced
#print axioms amo_unsound_without_false
#print axioms pb_zero_weight_not_forced
#print axioms card_panics_on_duplicate_variable

end GS.PbProp
