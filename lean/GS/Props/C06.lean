import GS.Check.Rup
/-!
# C06 — every Unsat answer on CNF comes with a valid RUP refutation

`rupFirstBad`/`rupValid`/`rupRefutes` are the certificate checker that shares no code with
the solver or with package `explain`. Proved for every formula and every line sequence:
accepted lines are logical consequences (`rupValid_sound`, also used for certificates of
satisfiable runs) and an accepted refutation means the formula is unsatisfiable
(`rupRefutes_sound`). Repeated literals and tautological lines are handled (`scan`,
`assumeNeg`), the empty clause is a line like any other.
-/
namespace GS

theorem C06_lines_are_consequences (n : Nat) (f lines : List (List Int))
    (h : rupValid n f lines = true) : ∀ c ∈ lines, CnfEntails f c := rupValid_sound n f lines h

theorem C06_refutation_sound (n : Nat) (f lines : List (List Int))
    (h : rupRefutes n f lines = true) : ¬ CnfSat f := rupRefutes_sound n f lines h

/-- a single RUP step is sound -/
theorem C06_step_sound (n : Nat) (f : List (List Int)) (c : List Int)
    (h : rupLine n f c = true) : CnfEntails f c := rupLine_sound n f c h

example : rupValid 3 [[1, 2], [-1, 2], [-2, 3]] [[2], [3]] = true := by decide
example : rupValid 3 [[1, 2], [-1, 2], [-2, 3]] [[1]] = false := by decide

end GS
