import GS.Model.BfBase
/-!
# C11 (formula side, part 1): `Eval` of the builders `Implies`, `Eq`, `Xor`, `uniqueSmall`,
`Unique` and of `unique.negation()`; the syntactic classes of formulas used by the other files.
-/
namespace GS.Bf

theorem evalAll_append (m) (xs ys : List F) : evalAll m (xs ++ ys) = (evalAll m xs && evalAll m ys) := by
  induction xs with
  | nil => simp [evalAll]
  | cons x xs ih => simp [evalAll, ih, Bool.and_assoc]

theorem evalAny_append (m) (xs ys : List F) : evalAny m (xs ++ ys) = (evalAny m xs || evalAny m ys) := by
  induction xs with
  | nil => simp [evalAny]
  | cons x xs ih => simp [evalAny, ih, Bool.or_assoc]

/-! ## `builders_eval` -/

theorem implies_eval (m) (a b : F) : eval m (implies a b) = (!eval m a || eval m b) := by
  simp [implies, eval, evalAny]

theorem eq_eval (m) (a b : F) : eval m (eq a b) = (eval m a == eval m b) := by
  cases ha : eval m a <;> cases hb : eval m b <;> simp [eq, eval, evalAny, evalAll, ha, hb]

theorem xor_eval (m) (a b : F) : eval m (xor a b) = (eval m a != eval m b) := by
  cases ha : eval m a <;> cases hb : eval m b <;> simp [xor, eval, evalAny, evalAll, ha, hb]

theorem evalAll_mapNot (m) (v : F) : ∀ vs : List F,
    evalAll m (vs.map (fun w => F.or [.not v, .not w])) = (!eval m v || !evalAny m vs)
  | [] => by simp [evalAll, evalAny]
  | w :: vs => by
      cases hv : eval m v <;> cases hw : eval m w <;>
        simp [evalAll, evalAny, eval, evalAll_mapNot m v vs, hv, hw]

theorem evalAny_count (m) : ∀ vs : List F, evalAny m vs = decide (1 ≤ countTrue (vs.map (eval m)))
  | [] => by simp [evalAny, countTrue]
  | v :: vs => by
      cases hv : eval m v <;> simp [evalAny, countTrue, evalAny_count m vs, hv]

theorem pairsNot_count (m) : ∀ vs : List F,
    evalAll m (pairsNot vs) = decide (countTrue (vs.map (eval m)) ≤ 1)
  | [] => by simp [pairsNot, evalAll, countTrue]
  | v :: vs => by
      simp only [pairsNot, evalAll_append, evalAll_mapNot, pairsNot_count m vs, evalAny_count m vs,
        List.map_cons, countTrue]
      generalize countTrue (vs.map (eval m)) = c
      cases hv : eval m v
      · simp
      · rw [Bool.eq_iff_iff]
        simp only [Bool.not_eq_true', Bool.and_eq_true, decide_eq_true_eq,
          decide_eq_false_iff_not, if_true, Bool.not_true, Bool.false_or]
        omega

/-- `uniqueSmall` on arbitrary sub-formulas: exactly one *position* is true -/
theorem uniqueSmallV_eval (m) (vs : List F) :
    eval m (uniqueSmallV vs) = (countTrue (vs.map (eval m)) == 1) := by
  simp only [uniqueSmallV, eval, evalAll, evalAny_count, pairsNot_count]
  generalize countTrue (vs.map (eval m)) = c
  rw [Bool.eq_iff_iff]
  simp only [Bool.and_eq_true, decide_eq_true_eq, beq_iff_eq]
  omega

/-- **`uniqueSmall`.** Exactly one of the listed names is true, counted by position — which is
    the spec's `SF.unique`, *without* a distinctness hypothesis: with a repeated name `x` the
    Go formula contains `or{not x, not x}` and forces `x` false, and so does "exactly one
    position true" (e.g. `Unique("a","a")` is unsatisfiable on both sides). -/
theorem uniqueSmall_eval (m : Key → Bool) (ns : List Nat) :
    eval m (uniqueSmall ns) = (countTrue (ns.map (fun n => m (n, false))) == 1) := by
  simp only [uniqueSmall, uniqueSmallV_eval, List.map_map]
  rfl

/-- `Unique(names...)` — the node `unique` — is true iff exactly one position of the names is true
    (`unique.Eval` counts; a repeated name that is true counts twice) -/
theorem uniqueOf_eval (m : Key → Bool) (ns : List Nat) :
    eval m (uniqueOf ns) = (countTrue (ns.map (fun n => m (n, false))) == 1) := by
  simp only [uniqueOf, eval, List.map_map]
  rfl

/-! ### `unique.negation()` -/

theorem evalAny_mapAnd (m) (v : F) : ∀ vs : List F,
    evalAny m (vs.map (fun w => F.and [v, w])) = (eval m v && evalAny m vs)
  | [] => by simp [evalAny]
  | w :: vs => by
      cases hv : eval m v <;> cases hw : eval m w <;>
        simp [evalAll, evalAny, eval, evalAny_mapAnd m v vs, hv, hw]

theorem pairsAnd_count (m) : ∀ vs : List F,
    evalAny m (pairsAnd vs) = decide (2 ≤ countTrue (vs.map (eval m)))
  | [] => by simp [pairsAnd, evalAny, countTrue]
  | v :: vs => by
      simp only [pairsAnd, evalAny_append, evalAny_mapAnd, pairsAnd_count m vs, evalAny_count m vs,
        List.map_cons, countTrue]
      generalize countTrue (vs.map (eval m)) = c
      cases hv : eval m v
      · simp
      · rw [Bool.eq_iff_iff]
        simp only [Bool.or_eq_true, Bool.and_eq_true, decide_eq_true_eq, if_true, true_and]
        omega

theorem evalAll_mapNotVar (m : Key → Bool) : ∀ ks : List Key,
    evalAll m (ks.map (fun k => F.not (keyVar k))) = decide (countTrue (ks.map m) = 0)
  | [] => by simp [evalAll, countTrue]
  | (n, d) :: ks => by
      have ih := evalAll_mapNotVar m ks
      simp only [List.map_cons, evalAll, eval, countTrue, ih, show eval m (keyVar (n, d)) = m (n, d) from rfl]
      cases hk : m (n, d) <;> simp

theorem map_eval_keyVar (m : Key → Bool) (ks : List Key) : (ks.map keyVar).map (eval m) = ks.map m := by
  rw [List.map_map]; rfl

/-- **`unique.negation()`** is true iff the number of true positions is *not* one — for every
    list of variables, repeated or not (a repeated variable that is true makes the pair
    `And(x, x)` true, and `unique.Eval` counts it twice): `eval (negation ks) = !eval (unique ks)`. -/
theorem negation_eval (m : Key → Bool) (ks : List Key) :
    eval m (negation ks) = !(countTrue (ks.map m) == 1) := by
  simp only [negation, eval, evalAny, evalAll_mapNotVar, pairsAnd_count, map_eval_keyVar]
  generalize countTrue (ks.map m) = c
  rw [Bool.eq_iff_iff]
  simp only [Bool.or_eq_true, decide_eq_true_eq, Bool.not_eq_true', beq_eq_false_iff_ne, ne_eq]
  omega

theorem negation_eval_unique (m : Key → Bool) (ks : List Key) :
    eval m (negation ks) = !eval m (.unique ks) := by
  rw [negation_eval]; rfl

theorem builders_eval (m : Key → Bool) (a b : F) (ns : List Nat) :
    eval m (implies a b) = (!eval m a || eval m b) ∧
    eval m (eq a b) = (eval m a == eval m b) ∧
    eval m (xor a b) = (eval m a != eval m b) ∧
    eval m (uniqueSmall ns) = (countTrue (ns.map (fun n => m (n, false))) == 1) ∧
    eval m (uniqueOf ns) = (countTrue (ns.map (fun n => m (n, false))) == 1) ∧
    eval m (negation (ns.map (fun n => (n, false)))) = !(countTrue (ns.map (fun n => m (n, false))) == 1) :=
  ⟨implies_eval m a b, eq_eval m a b, xor_eval m a b, uniqueSmall_eval m ns, uniqueOf_eval m ns, by
    rw [negation_eval, List.map_map]; rfl⟩

example : ∀ x : Bool, eval (fun _ => x) (uniqueSmall [0, 0]) = false := by
  intro x; cases x <;> simp [uniqueSmall_eval, countTrue]
example : eval (fun k => k.1 == 1) (uniqueSmall [0, 0, 1]) = true := by
  simp [uniqueSmall_eval, countTrue]
/-- `Unique("a","a")`: never true (`Eval` counts 0 or 2), its negation always true -/
example : ∀ x : Bool, eval (fun _ => x) (uniqueOf [0, 0]) = false ∧
    eval (fun _ => x) (negation [(0, false), (0, false)]) = true := by
  intro x; cases x <;> simp [uniqueOf_eval, negation_eval, countTrue]

/-! ## Syntactic classes -/

mutual
/-- every variable of the tree (those of the `unique` nodes included) satisfies `p` -/
def allK (p : Key → Bool) : F → Bool
  | .var n d => p (n, d)
  | .lit n d _ => p (n, d)
  | .not f => allK p f
  | .and fs => allKs p fs
  | .or fs => allKs p fs
  | .tt => true
  | .ff => true
  | .unique ks => ks.all p
def allKs (p : Key → Bool) : List F → Bool
  | [] => true
  | f :: fs => allK p f && allKs p fs
end

mutual
/-- every `unique` node satisfies `q b ks`, `b` being the polarity of its position (`true` under
    an odd number of `not`), starting from polarity `b` at the root -/
def allU (q : Bool → List Key → Bool) : Bool → F → Bool
  | _, .var _ _ => true
  | _, .lit _ _ _ => true
  | b, .not f => allU q (!b) f
  | b, .and fs => allUs q b fs
  | b, .or fs => allUs q b fs
  | _, .tt => true
  | _, .ff => true
  | b, .unique ks => q b ks
def allUs (q : Bool → List Key → Bool) : Bool → List F → Bool
  | _, [] => true
  | b, f :: fs => allU q b f && allUs q b fs
end

mutual
/-- no `unique` node (the formulas before the repair; the image of `uniqueRec`, `negation`, `nnf`) -/
def noU : F → Bool
  | .var _ _ => true
  | .lit _ _ _ => true
  | .not f => noU f
  | .and fs => noUs fs
  | .or fs => noUs fs
  | .tt => true
  | .ff => true
  | .unique _ => false
def noUs : List F → Bool
  | [] => true
  | f :: fs => noU f && noUs fs
end

/-- a variable that `cnfRec` may meet in a formula: a problem variable, or a `line-…` / `col-…`
    dummy of `uniqueRec` (odd number) — not a `dummy-<n>` of `cnfRec` (even number) -/
def isFK (k : Key) : Bool := !k.2 || k.1 % 2 == 1

/-- every variable of the tree has `dummy = false`: true of everything built through the public
    API (`Var`, the connectives, `Unique`: the type `variable` is unexported) -/
def userOnly (f : F) : Bool := allK (fun k => !k.2) f
def userOnlyAll (fs : List F) : Bool := allKs (fun k => !k.2) fs

/-- the exactly-one groups in positive position have at most 4 names (no dummy variable in `nnf`) -/
def smallPos (f : F) : Bool := allU (fun b ks => b || decide (ks.length ≤ 4)) false f

mutual
theorem allU_of_noU (q : Bool → List Key → Bool) : ∀ (b : Bool) (f : F), noU f = true → allU q b f = true
  | _, .var _ _, _ => by simp [allU]
  | _, .lit _ _ _, _ => by simp [allU]
  | b, .not f, h => by simp only [allU]; exact allU_of_noU q (!b) f (by simpa [noU] using h)
  | b, .and fs, h => by simp only [allU]; exact allUs_of_noUs q b fs (by simpa [noU] using h)
  | b, .or fs, h => by simp only [allU]; exact allUs_of_noUs q b fs (by simpa [noU] using h)
  | _, .tt, _ => by simp [allU]
  | _, .ff, _ => by simp [allU]
  | _, .unique _, h => by simp [noU] at h
theorem allUs_of_noUs (q : Bool → List Key → Bool) : ∀ (b : Bool) (fs : List F), noUs fs = true → allUs q b fs = true
  | _, [], _ => by simp [allUs]
  | b, f :: fs, h => by
      simp only [noUs, Bool.and_eq_true] at h
      simp [allUs, allU_of_noU q b f h.1, allUs_of_noUs q b fs h.2]
end

mutual
theorem allK_mono (p p' : Key → Bool) (hp : ∀ k, p k = true → p' k = true) :
    ∀ f : F, allK p f = true → allK p' f = true
  | .var n d, h => hp _ (by simpa [allK] using h)
  | .lit n d _, h => hp _ (by simpa [allK] using h)
  | .not f, h => by simp only [allK] at h ⊢; exact allK_mono p p' hp f h
  | .and fs, h => by simp only [allK] at h ⊢; exact allKs_mono p p' hp fs h
  | .or fs, h => by simp only [allK] at h ⊢; exact allKs_mono p p' hp fs h
  | .tt, _ => by simp [allK]
  | .ff, _ => by simp [allK]
  | .unique ks, h => by
      simp only [allK, List.all_eq_true] at h ⊢
      exact fun k hk => hp k (h k hk)
theorem allKs_mono (p p' : Key → Bool) (hp : ∀ k, p k = true → p' k = true) :
    ∀ fs : List F, allKs p fs = true → allKs p' fs = true
  | [], _ => by simp [allKs]
  | f :: fs, h => by
      simp only [allKs, Bool.and_eq_true] at h ⊢
      exact ⟨allK_mono p p' hp f h.1, allKs_mono p p' hp fs h.2⟩
end

theorem allKs_append (p : Key → Bool) (xs ys : List F) : allKs p (xs ++ ys) = (allKs p xs && allKs p ys) := by
  induction xs with
  | nil => simp [allKs]
  | cons x xs ih => simp [allKs, ih, Bool.and_assoc]

theorem noUs_append (xs ys : List F) : noUs (xs ++ ys) = (noUs xs && noUs ys) := by
  induction xs with
  | nil => simp [noUs]
  | cons x xs ih => simp [noUs, ih, Bool.and_assoc]

theorem allKs_map {α} (p : Key → Bool) (g : α → F) : ∀ xs : List α,
    allKs p (xs.map g) = true ↔ ∀ x ∈ xs, allK p (g x) = true := by
  intro xs
  induction xs with
  | nil => simp [allKs]
  | cons x xs ih => simp [allKs, ih]

theorem noUs_map {α} (g : α → F) : ∀ xs : List α,
    noUs (xs.map g) = true ↔ ∀ x ∈ xs, noU (g x) = true := by
  intro xs
  induction xs with
  | nil => simp [noUs]
  | cons x xs ih => simp [noUs, ih]

theorem allKs_keyVar (p : Key → Bool) (ks : List Key) : allKs p (ks.map keyVar) = ks.all p := by
  induction ks with
  | nil => simp [allKs]
  | cons k ks ih => simp [allKs, allK, keyVar, ih]

theorem noUs_keyVar (ks : List Key) : noUs (ks.map keyVar) = true := by
  rw [noUs_map]; intro k _; rfl

theorem isFK_of_user (k : Key) (h : (!k.2) = true) : isFK k = true := by simp [isFK, h]

/-! ### the formulas `uniqueSmallV vs`, `negation ks` (on variables) -/

theorem pairsNot_allK (p : Key → Bool) : ∀ vs : List F, allKs p vs = true → allKs p (pairsNot vs) = true
  | [], _ => by simp [pairsNot, allKs]
  | v :: vs, h => by
      simp only [allKs, Bool.and_eq_true] at h
      simp only [pairsNot, allKs_append, Bool.and_eq_true]
      refine ⟨?_, pairsNot_allK p vs h.2⟩
      rw [allKs_map]
      intro w hw
      have : allK p w = true := by
        have := h.2
        clear h
        induction vs with
        | nil => simp at hw
        | cons x xs ih =>
          simp only [allKs, Bool.and_eq_true] at this
          rcases List.mem_cons.1 hw with rfl | hw
          · exact this.1
          · exact ih hw this.2
      simp [allK, allKs, h.1, this]

theorem pairsNot_noU : ∀ vs : List F, noUs vs = true → noUs (pairsNot vs) = true
  | [], _ => by simp [pairsNot, noUs]
  | v :: vs, h => by
      simp only [noUs, Bool.and_eq_true] at h
      simp only [pairsNot, noUs_append, Bool.and_eq_true]
      refine ⟨?_, pairsNot_noU vs h.2⟩
      rw [noUs_map]
      intro w hw
      have : noU w = true := by
        have := h.2
        clear h
        induction vs with
        | nil => simp at hw
        | cons x xs ih =>
          simp only [noUs, Bool.and_eq_true] at this
          rcases List.mem_cons.1 hw with rfl | hw
          · exact this.1
          · exact ih hw this.2
      simp [noU, noUs, h.1, this]

theorem uniqueSmallV_allK (p : Key → Bool) (ks : List Key) (h : ks.all p = true) :
    allK p (uniqueSmallV (ks.map keyVar)) = true := by
  have hk : allKs p (ks.map keyVar) = true := by rw [allKs_keyVar]; exact h
  simp [uniqueSmallV, allK, allKs, hk, pairsNot_allK p _ hk]

theorem uniqueSmallV_noU (ks : List Key) : noU (uniqueSmallV (ks.map keyVar)) = true := by
  simp [uniqueSmallV, noU, noUs, noUs_keyVar, pairsNot_noU _ (noUs_keyVar ks)]

theorem pairsAnd_keyVar_allK (p : Key → Bool) : ∀ ks : List Key, ks.all p = true →
    allKs p (pairsAnd (ks.map keyVar)) = true
  | [], _ => by simp [pairsAnd, allKs]
  | k :: ks, h => by
      simp only [List.all_cons, Bool.and_eq_true] at h
      simp only [List.map_cons, pairsAnd, allKs_append, Bool.and_eq_true, List.map_map]
      refine ⟨?_, pairsAnd_keyVar_allK p ks h.2⟩
      rw [allKs_map]
      intro w hw
      have := List.all_eq_true.1 h.2 w hw
      simp [allK, allKs, keyVar, h.1, this]

theorem pairsAnd_keyVar_noU : ∀ ks : List Key, noUs (pairsAnd (ks.map keyVar)) = true
  | [] => by simp [pairsAnd, noUs]
  | k :: ks => by
      simp only [List.map_cons, pairsAnd, noUs_append, Bool.and_eq_true, List.map_map]
      refine ⟨?_, pairsAnd_keyVar_noU ks⟩
      rw [noUs_map]
      intro w _
      simp [noU, noUs, keyVar]

theorem negation_allK (p : Key → Bool) (ks : List Key) (h : ks.all p = true) : allK p (negation ks) = true := by
  have h1 : allKs p (ks.map (fun k => F.not (keyVar k))) = true := by
    rw [allKs_map]; intro k hk
    simpa [allK, keyVar] using List.all_eq_true.1 h k hk
  simp [negation, allK, allKs, h1, pairsAnd_keyVar_allK p ks h]

theorem negation_noU (ks : List Key) : noU (negation ks) = true := by
  have h1 : noUs (ks.map (fun k => F.not (keyVar k))) = true := by
    rw [noUs_map]; intro k _; rfl
  simp [negation, noU, noUs, h1, pairsAnd_keyVar_noU ks]

end GS.Bf
