import GS.Model.EnumRound
import GS.Props.C05_Enum
import GS.Props.C01_Trail
/-!
# C05 — one concrete round of `Enumerate` / `CountModels` meets the contract of `enum_exact`

`GS.Props.C05_Enum` proves `enum_exact` for the enumeration loop over an abstract per-round
`Contract`.  Here the pieces of `solver.go` that implement one round, mirrored line by line in
`GS.Model.EnumRound`, are proved to meet it.

* Part A, `addCurrentModels` / `countCurrentModels` on the Go array `s.lastModel`:
  `expandGo_eq_range` (every input), `expandGo_eq_expand` (below 64 unbound variables the Go
  expansion **is** `GS.Enum.expand`, same order), `expandGo_overflow` (64 or more: nothing is
  delivered), `countGo_eq` (`= GS.Enum.countCurrentGo`), `expand_models_spec`.
* Part B, `decisionLits`: `decisionLits_spec` / `reachable_decisionLits` (`DecisionLitsSpec`: length
  `lvl - 1`, position `lvl - k` holds the negated decision of level `k`, as a set the negated
  decisions, no repetition, empty iff no decision).
* Part C, `round_contract` (`round_contract_reachable`): the pair (model, negated `decisionLits`)
  satisfies `GS.Enum.Contract`; the `Sat` answer ("every completion of the current model
  satisfies the problem") is the hypothesis `hsat`.
* Part D, `enumLoop_round` (one iteration of `GS.Enum.enumLoop` is `roundStep`), `stepOf_contract`,
  `enum_exact_concrete`.
* Part E, `block_assert_enabled`: the `default:` branch is an accepted `assertLearned` (the blocking
  clause is unit on its first literal after the cut at `lvl - 1`).
* Part F, concrete rounds by `decide`.
-/
namespace GS.EnumRound
open GS GS.Analyze GS.Trail GS.Enum

/-! ### Part A — `addCurrentModels` / `countCurrentModels` -/

theorem unboundFrom_succ : ∀ (m : List Int) (i : Nat),
    unboundFrom (i + 1) m = (unboundFrom i m).map (· + 1) := by
  intro m
  induction m with
  | nil => intro i; rfl
  | cons x m ih =>
    intro i
    simp only [unboundFrom]
    split
    · simp [ih (i + 1)]
    · exact ih (i + 1)

theorem setUnbound_shift (i : Nat) (c : Bool) : ∀ (u : List Nat) (j : Nat) (cur : List Bool),
    setUnbound i j (u.map (· + 1)) (c :: cur) = c :: setUnbound i j u cur := by
  intro u
  induction u with
  | nil => intro j cur; rfl
  | cons x u ih =>
    intro j cur
    simp only [List.map_cons, setUnbound, List.set_cons_succ, ih]

theorem testBit_guard (i j : Nat) (hi : i < 2 ^ 64) :
    (decide (j < 64) && i.testBit j) = i.testBit j := by
  by_cases hj : j < 64
  · simp [hj]
  · have : i < 2 ^ j := Nat.lt_of_lt_of_le hi (Nat.pow_le_pow_right (by omega) (by omega))
    simp [hj, Nat.testBit_lt_two_pow this]

/-- One pass of the inner loop over the Go slice is the abstract `fillFrom`, whatever the slice
    held at the unbound positions. -/
theorem setUnbound_eq (i : Nat) (hi : i < 2 ^ 64) : ∀ (m : List Int) (j : Nat) (cur : List Bool),
    agreesB (toOpt m) cur = true →
    setUnbound i j (unboundFrom 0 m) cur = fillFrom i j (toOpt m) := by
  intro m
  induction m with
  | nil =>
    intro j cur h
    cases cur with
    | nil => rfl
    | cons _ _ => simp [toOpt, agreesB] at h
  | cons x m ih =>
    intro j cur h
    cases cur with
    | nil => by_cases hx : x = 0 <;> simp [toOpt, agreesB, hx] at h
    | cons c cur =>
      by_cases hx : x = 0
      · have h' : agreesB (toOpt m) cur = true := by
          simpa [toOpt, agreesB, hx] using h
        simp only [unboundFrom, hx, if_true, unboundFrom_succ, setUnbound, List.set_cons_zero,
          setUnbound_shift, ih (j + 1) cur h', toOpt, List.map_cons, fillFrom, testBit_guard i j hi]
      · have h' : decide (x > 0) = c ∧ agreesB (toOpt m) cur = true := by
          simpa [toOpt, agreesB, hx] using h
        simp only [unboundFrom, hx, if_false, unboundFrom_succ, setUnbound_shift, ih j cur h'.2,
          toOpt, List.map_cons, fillFrom, h'.1]

theorem agreesB_base : ∀ (m : List Int), agreesB (toOpt m) (baseModel m) = true := by
  intro m
  induction m with
  | nil => rfl
  | cons x m ih =>
    by_cases hx : x = 0
    · simpa [toOpt, baseModel, agreesB, hx] using ih
    · simpa [toOpt, baseModel, agreesB, hx] using ih

theorem agreesB_fillFrom (m : List (Option Bool)) (i j : Nat) : agreesB m (fillFrom i j m) = true := by
  rw [fillFrom_eq_fill]; exact agreesB_fill m _

theorem expandLoop_eq (m : List Int) : ∀ (is : List Nat) (cur : List Bool),
    (∀ i ∈ is, i < 2 ^ 64) → agreesB (toOpt m) cur = true →
    expandLoop (unboundFrom 0 m) is cur = is.map (fun i => fillFrom i 0 (toOpt m)) := by
  intro is
  induction is with
  | nil => intro cur _ _; rfl
  | cons i is ih =>
    intro cur hlt h
    have e := setUnbound_eq i (hlt i List.mem_cons_self) m 0 cur h
    simp only [expandLoop, List.map_cons, e]
    rw [ih _ (fun i' hi' => hlt i' (List.mem_cons_of_mem _ hi')) (agreesB_fillFrom _ _ _)]

theorem nbGo_aux : ∀ (m : List Int) (acc : Nat),
    m.foldl (fun nb lvl => if lvl = 0 then nb * 2 % 2 ^ 64 else nb) acc % 2 ^ 64 =
      acc * 2 ^ nbUnbound (toOpt m) % 2 ^ 64 := by
  intro m
  induction m with
  | nil => intro acc; simp [toOpt, nbUnbound]
  | cons x m ih =>
    intro acc
    by_cases hx : x = 0
    · simp only [List.foldl_cons, hx, if_true, ih, toOpt, List.map_cons, nbUnbound]
      rw [Nat.mod_mul_mod]
      congr 1
      rw [Nat.pow_succ, Nat.mul_assoc, Nat.mul_comm 2]
    · simp only [List.foldl_cons, hx, if_false, ih, toOpt, List.map_cons, nbUnbound]

theorem nbGo_lt (m : List Int) : nbGo m < 2 ^ 64 := by
  unfold nbGo
  generalize hacc : (1 : Nat) = acc
  have hlt : acc < 2 ^ 64 := by rw [← hacc]; decide
  clear hacc
  induction m generalizing acc with
  | nil => exact hlt
  | cons x m ih =>
    simp only [List.foldl_cons]
    split
    · exact ih _ (Nat.mod_lt _ (by decide))
    · exact ih _ hlt

/-- The `uint64` counter: `2^k mod 2^64` for `k` unbound variables. -/
theorem nbGo_eq (m : List Int) : nbGo m = 2 ^ nbUnbound (toOpt m) % 2 ^ 64 := by
  have h := nbGo_aux m 1
  rw [Nat.one_mul] at h
  rw [← h]
  exact (Nat.mod_eq_of_lt (nbGo_lt m)).symm

/-- `addCurrentModels` for every input: the rows `i = 0 … nb-1` of the abstract expansion, where
    `nb = 2^k mod 2^64`. -/
theorem expandGo_eq_range (m : List Int) :
    expandGo m = (List.range (2 ^ nbUnbound (toOpt m) % 2 ^ 64)).map
      (fun i => fillFrom i 0 (toOpt m)) := by
  unfold expandGo
  rw [expandLoop_eq m _ _ (fun i hi => Nat.lt_trans (List.mem_range.1 hi) (nbGo_lt m))
    (agreesB_base m), nbGo_eq]

/-- Below 64 unbound variables the Go expansion **is** `GS.Enum.expand` (same models, same order). -/
theorem expandGo_eq_expand (m : List Int) (h : nbUnbound (toOpt m) < 64) :
    expandGo m = expand (toOpt m) := by
  rw [expandGo_eq_range, Nat.mod_eq_of_lt (Nat.pow_lt_pow_right (by omega) h)]
  rfl

/-- With 64 unbound variables or more the counter wraps to 0 and **nothing is delivered**. -/
theorem expandGo_overflow (m : List Int) (h : 64 ≤ nbUnbound (toOpt m)) : expandGo m = [] := by
  rw [expandGo_eq_range]
  have : 2 ^ nbUnbound (toOpt m) % 2 ^ 64 = 0 :=
    Nat.mod_eq_zero_of_dvd (Nat.pow_dvd_pow 2 h)
  rw [this]; rfl

theorem countGo_eq (m : List Int) : countGo m = countCurrentGo (toOpt m) := by
  unfold countGo toInt64 countCurrentGo
  rw [nbGo_eq]

theorem toOpt_getElem? (m : List Int) (i : Nat) (b : Bool) :
    (toOpt m)[i]? = some (some b) ↔ ∃ x, m[i]? = some x ∧ x ≠ 0 ∧ b = decide (x > 0) := by
  unfold toOpt
  rw [List.getElem?_map]
  cases m[i]? with
  | none => simp
  | some x =>
    by_cases hx : x = 0
    · simp [hx]
    · simp [hx, eq_comm]

theorem length_toOpt (m : List Int) : (toOpt m).length = m.length := by simp [toOpt]

/-- **`addCurrentModels` / `countCurrentModels` are exact below 64 unbound variables**: the list
    sent on the channel is `GS.Enum.expand` of the model, it has `2^k` elements, no repetition, and
    its elements are exactly the boolean lists of length `nbVars` that agree with the model on
    every bound variable; the returned count is that number when `k ≤ 62`. -/
theorem expand_models_spec (m : List Int) (h : nbUnbound (toOpt m) < 64) :
    expandGo m = expand (toOpt m) ∧
    (expandGo m).length = 2 ^ nbUnbound (toOpt m) ∧ (expandGo m).Nodup ∧
    (∀ bs, bs ∈ expandGo m ↔
      (bs.length = m.length ∧ ∀ (i : Nat) (x : Int), m[i]? = some x → x ≠ 0 →
        bs[i]? = some (decide (x > 0)))) ∧
    (nbUnbound (toOpt m) ≤ 62 → countGo m = ((expandGo m).length : Int)) := by
  have he := expandGo_eq_expand m h
  have hs := expand_spec (toOpt m)
  refine ⟨he, by rw [he]; exact hs.1, by rw [he]; exact hs.2.1, ?_, ?_⟩
  · intro bs
    rw [he, hs.2.2.1 bs, length_toOpt]
    constructor
    · rintro ⟨h1, h2⟩
      exact ⟨h1, fun i x hx hx0 => h2 i _ ((toOpt_getElem? m i _).2 ⟨x, hx, hx0, rfl⟩)⟩
    · rintro ⟨h1, h2⟩
      refine ⟨h1, fun i b hb => ?_⟩
      obtain ⟨x, hx, hx0, rfl⟩ := (toOpt_getElem? m i b).1 hb
      exact h2 i x hx hx0
  · intro h62
    rw [countGo_eq, (countCurrentGo_exact_iff _).2 h62, he, hs.1]; rfl


/-! ### Part B — `decisionLits` -/

/-- Assumptions live at level 1 (`Assume` binds them before any decision). -/
def AssumedTop (s : State) : Prop := ∀ e ∈ s.es, e.assumed = true → e.lvl = 1

/-- Every trail variable is one of the `n` declared variables. -/
def VarsLe (n : Nat) (es : List Entry) : Prop := ∀ e ∈ es, e.var ≤ n

theorem push_assumedTop {s : State} (h : AssumedTop s) {l : Int} {k : Nat} {a : Bool}
    {r : Option (List Int)} (hk : a = true → k = 1) : AssumedTop (push s l k a r) := by
  intro e he
  change e ∈ s.es ++ [⟨l, k, a, r⟩] at he
  rw [List.mem_append, List.mem_singleton] at he
  rcases he with he | rfl
  · exact h e he
  · exact hk

theorem sub_assumedTop {s : State} (h : AssumedTop s) {es' : List Entry}
    (hsub : ∀ e ∈ es', e ∈ s.es) (k : Nat) : AssumedTop ⟨k, es'⟩ :=
  fun e he => h e (hsub e he)

theorem backjump_assumedTop {s s' : State} {k : Nat} (h : AssumedTop s)
    (hs : backjumpOp s k = some s') : AssumedTop s' := by
  unfold backjumpOp at hs
  split at hs
  · cases hs
    exact sub_assumedTop h (fun e he => (List.takeWhile_sublist _).subset he) k
  · cases hs

theorem propagate_assumedTop {s s' : State} {l : Int} {c : List Int} (h : AssumedTop s)
    (hs : propagateOp s l c = some s') : AssumedTop s' := by
  unfold propagateOp at hs
  split at hs
  · cases hs; exact push_assumedTop h (fun hf => by cases hf)
  · cases hs

theorem step_preserves_assumedTop {s s' : State} {o : Op} (h : AssumedTop s)
    (hs : step s o = some s') : AssumedTop s' := by
  cases o with
  | decide l =>
    simp only [step, decideOp] at hs
    split at hs
    · cases hs; exact push_assumedTop h (fun hf => by cases hf)
    · cases hs
  | propagate l c => exact propagate_assumedTop h hs
  | backjump k => exact backjump_assumedTop h hs
  | assertLearned l c k =>
    simp only [step, assertLearnedOp] at hs
    split at hs
    · rename_i s1 h1
      exact propagate_assumedTop (backjump_assumedTop h h1) hs
    · cases hs
  | addFact l =>
    simp only [step, addFactOp] at hs
    split at hs
    · cases hs; exact push_assumedTop h (fun hf => by cases hf)
    · cases hs
  | assume l =>
    simp only [step, assumeOp] at hs
    split at hs
    · cases hs; exact push_assumedTop h (fun _ => rfl)
    · cases hs

theorem run_preserves_assumedTop : ∀ (ops : List Op) {s s' : State}, AssumedTop s →
    run s ops = some s' → AssumedTop s'
  | [], s, s', h, hr => by cases hr; exact h
  | o :: os, s, s', h, hr => by
    rw [run] at hr
    split at hr
    · rename_i s1 h1
      exact run_preserves_assumedTop os (step_preserves_assumedTop h h1) hr
    · cases hr

theorem reachable_assumedTop {ops : List Op} {s : State} (hrun : run empty ops = some s) :
    AssumedTop s :=
  run_preserves_assumedTop ops (fun e he => by cases he) hrun

theorem reachable_hasDecisions {ops : List Op} {s : State} (hrun : run empty ops = some s) :
    HasDecisions s :=
  run_preserves_hasDecisions ops init_inv (fun k h2 hle => by change k ≤ 1 at hle; omega) hrun

/-! the array `s.model` of a trail -/

theorem modelOf_length (n : Nat) (es : List Entry) : (modelOf n es).length = n := by
  simp [modelOf]

theorem modelOf_getElem? {n : Nat} (es : List Entry) {i : Nat} (h : i < n) :
    (modelOf n es)[i]? = some (modelAt es (i + 1)) := by
  simp [modelOf, List.getElem?_map, List.getElem?_range h]

theorem modelAt_of_mem {es : List Entry} (hnd : es.Pairwise (fun x y => x.var ≠ y.var))
    {e : Entry} (he : e ∈ es) :
    modelAt es e.var = if e.lit > 0 then (e.lvl : Int) else -(e.lvl : Int) := by
  unfold modelAt; rw [findVar_of_mem hnd he]

theorem var_pos {e : Entry} (h : e.lit ≠ 0) : 1 ≤ e.var := by
  unfold Entry.var; omega

/-- The level read by `decisionLits` on the last trail literal is the current level. -/
theorem last_lvl {s : State} (hi : Inv s) (hd : HasDecisions s) {last : Entry}
    (hl : s.es.getLast? = some last) : last ∈ s.es ∧ last.lvl = s.lvl := by
  obtain ⟨ys, hys⟩ := List.getLast?_eq_some_iff.1 hl
  have hmem : last ∈ s.es := by rw [hys]; simp
  refine ⟨hmem, ?_⟩
  have hb := hi.trail.bound last hmem
  by_cases h2 : 2 ≤ s.lvl
  · obtain ⟨e, he, hek, _⟩ := hd s.lvl h2 (Nat.le_refl _)
    rw [hys, List.mem_append, List.mem_singleton] at he
    rcases he with he | rfl
    · have hm := hi.trail.mono
      rw [hys, List.pairwise_append] at hm
      have := hm.2.2 e he last (by simp)
      omega
    · exact hek
  · have := hi.lvls_pos last hmem
    omega

theorem nil_lvl {s : State} (hi : Inv s) (hd : HasDecisions s) (hn : s.es = []) : s.lvl = 1 := by
  have := hi.lvl_pos
  by_cases h2 : 2 ≤ s.lvl
  · obtain ⟨e, he, _⟩ := hd s.lvl h2 (Nat.le_refl _)
    rw [hn] at he; cases he
  · omega

/-- One iteration of the loop of `decisionLits` keeps: the slice has `lvl - 1` slots and the
    negated decision of every variable seen so far sits at position `lvl - (its level)`. -/
theorem dlStep_inv {s : State} {n : Nat} (hi : Inv s) (ha : AssumedTop s) {t : Nat} (ht : t < n)
    {lits : List Int} (hlen : lits.length = s.lvl - 1)
    (hP : ∀ e ∈ s.es, e.reason = none → 2 ≤ e.lvl → e.var ≤ t →
      lits[s.lvl - e.lvl]? = some (-e.lit)) :
    ∃ lits', dlStep s.es (modelOf n s.es) (some lits) t = some lits' ∧ lits'.length = s.lvl - 1 ∧
      ∀ e ∈ s.es, e.reason = none → 2 ≤ e.lvl → e.var ≤ t + 1 →
        lits'[s.lvl - e.lvl]? = some (-e.lit) := by
  have hnd := hi.trail.nodup
  simp only [dlStep, modelOf_getElem? s.es ht, Option.getD_some]
  cases hf : findVar s.es (t + 1) with
  | none =>
    have hm : modelAt s.es (t + 1) = 0 := by unfold modelAt; rw [hf]
    refine ⟨lits, by simp [hm], hlen, fun e he hr h2 hv => ?_⟩
    have hne : e.var ≠ t + 1 := by
      intro h
      have := findVar_of_mem hnd he
      rw [h, hf] at this; cases this
    exact hP e he hr h2 (by omega)
  | some e0 =>
    obtain ⟨he0, hv0⟩ := findVar_some hf
    have hm : modelAt s.es (t + 1) = if e0.lit > 0 then (e0.lvl : Int) else -(e0.lvl : Int) := by
      unfold modelAt; rw [hf]
    have hr0 : reasonOf s.es (t + 1) = e0.reason := by unfold reasonOf; rw [hf]
    have habs : (modelAt s.es (t + 1)).natAbs = e0.lvl := by rw [hm]; split <;> omega
    have hother : ∀ e ∈ s.es, e.var = t + 1 → e = e0 :=
      fun e he hv => eq_of_var_eq hnd he he0 (by rw [hv, hv0])
    rw [hr0, habs]
    by_cases hc : e0.reason = none ∧ 2 ≤ e0.lvl
    · obtain ⟨hc1, hc2⟩ := hc
      have hb0 := hi.trail.bound e0 he0
      have hlt : e0.lvl - 2 < lits.length := by omega
      have hidx : lits.length - 1 - (e0.lvl - 2) = s.lvl - e0.lvl := by omega
      have hval : (if modelAt s.es (t + 1) < 0 then ((t : Int) + 1) else -((t : Int) + 1)) = -e0.lit := by
        have hz := hi.trail.nonzero e0 he0
        have hv0' : e0.lit.natAbs = t + 1 := hv0
        rw [hm]
        by_cases hp : e0.lit > 0
        · rw [if_pos hp, if_neg (by omega)]; omega
        · rw [if_neg hp, if_pos (by omega)]; omega
      have hcond : ((e0.reason.isNone && decide (1 < e0.lvl)) = true) := by
        simp [hc1]; omega
      rw [if_pos hcond, if_pos hlt, hidx, hval]
      refine ⟨_, rfl, by simp [hlen], fun e he hr h2 hv => ?_⟩
      by_cases hl : e.lvl = e0.lvl
      · have hae : e.assumed = false := by
          cases hx : e.assumed with
          | false => rfl
          | true => have := ha e he hx; omega
        have hae0 : e0.assumed = false := by
          cases hx : e0.assumed with
          | false => rfl
          | true => have := ha e0 he0 hx; omega
        have : e = e0 := decision_unique hi hc2 he he0 hr hae hl hc1 hae0 rfl
        subst this
        rw [List.getElem?_set_self (by omega)]
      · have hbe := hi.trail.bound e he
        rw [List.getElem?_set_ne (by omega)]
        have hne : e.var ≠ t + 1 := fun h => hl (by rw [hother e he h])
        exact hP e he hr h2 (by omega)
    · have hcond : ¬ ((e0.reason.isNone && decide (1 < e0.lvl)) = true) := by
        intro h
        simp only [Bool.and_eq_true, Option.isNone_iff_eq_none, decide_eq_true_eq] at h
        exact hc ⟨h.1, by omega⟩
      rw [if_neg hcond]
      refine ⟨lits, rfl, hlen, fun e he hr h2 hv => ?_⟩
      have hne : e.var ≠ t + 1 := fun h => hc (by rw [← hother e he h]; exact ⟨hr, h2⟩)
      exact hP e he hr h2 (by omega)

theorem dlFold_inv {s : State} {n : Nat} (hi : Inv s) (ha : AssumedTop s) : ∀ t, t ≤ n →
    ∃ lits, (List.range t).foldl (dlStep s.es (modelOf n s.es))
        (some (List.replicate (s.lvl - 1) 1)) = some lits ∧ lits.length = s.lvl - 1 ∧
      ∀ e ∈ s.es, e.reason = none → 2 ≤ e.lvl → e.var ≤ t →
        lits[s.lvl - e.lvl]? = some (-e.lit) := by
  intro t
  induction t with
  | zero =>
    intro _
    refine ⟨_, rfl, List.length_replicate, fun e he _ _ hv => ?_⟩
    have := var_pos (hi.trail.nonzero e he)
    omega
  | succ t ih =>
    intro ht
    obtain ⟨lits, h1, hlen, hP⟩ := ih (by omega)
    rw [List.range_succ, List.foldl_append, h1]
    simp only [List.foldl_cons, List.foldl_nil]
    exact dlStep_inv hi ha (by omega) hlen hP

/-- What `decisionLits` returns in state `s`. -/
structure DecisionLitsSpec (s : State) (lits : List Int) : Prop where
  /-- one slot per level `2 … lvl` -/
  length : lits.length = s.lvl - 1
  /-- position `lvl - k` holds the negation of the decision of level `k` (deepest first) -/
  pos : ∀ k, 2 ≤ k → k ≤ s.lvl → ∃ e ∈ s.es, e.lvl = k ∧ e.reason = none ∧ e.assumed = false ∧
    lits[s.lvl - k]? = some (-e.lit)
  /-- as a set: exactly the negated decisions -/
  mem : ∀ l, l ∈ lits ↔ -l ∈ decisions s
  /-- each once -/
  nodup : lits.Nodup
  /-- empty iff no decision was made -/
  nil_iff : lits = [] ↔ decisions s = []

theorem mem_decisions {s : State} {l : Int} :
    l ∈ decisions s ↔ ∃ e ∈ s.es, e.lit = l ∧ e.reason = none ∧ e.assumed = false ∧ 2 ≤ e.lvl := by
  unfold decisions
  simp only [List.mem_map, List.mem_filter, Bool.and_eq_true, Option.isNone_iff_eq_none,
    Bool.not_eq_true', decide_eq_true_eq]
  constructor
  · rintro ⟨e, ⟨he, ⟨h1, h2⟩, h3⟩, rfl⟩; exact ⟨e, he, rfl, h1, h2, h3⟩
  · rintro ⟨e, he, rfl, h1, h2, h3⟩; exact ⟨e, ⟨he, ⟨h1, h2⟩, h3⟩, rfl⟩

/-- **`decisionLits` is exact.**  In a state that meets the invariant of the trail machine, has
    its decisions (`HasDecisions`), whose assumptions are at level 1 and whose variables are
    among the `n` declared ones, `decisionLits` does not panic and returns the negations of the
    decisions of the levels `lvl, lvl-1, …, 2`, in this order. -/
theorem decisionLits_spec {s : State} (n : Nat) (hi : Inv s) (hd : HasDecisions s)
    (ha : AssumedTop s) (hv : VarsLe n s.es) :
    ∃ lits, decisionLits s.es (modelOf n s.es) = some lits ∧ DecisionLitsSpec s lits := by
  have hnd := hi.trail.nodup
  have hdec : ∀ e ∈ s.es, e.reason = none → 2 ≤ e.lvl → e.assumed = false := by
    intro e he _ h2
    cases hx : e.assumed with
    | false => rfl
    | true => have := ha e he hx; omega
  -- the result of the loop
  have key : ∃ lits, decisionLits s.es (modelOf n s.es) = some lits ∧ lits.length = s.lvl - 1 ∧
      ∀ e ∈ s.es, e.reason = none → 2 ≤ e.lvl → lits[s.lvl - e.lvl]? = some (-e.lit) := by
    unfold decisionLits
    cases hl : s.es.getLast? with
    | none =>
      have hn : s.es = [] := List.getLast?_eq_none_iff.1 hl
      refine ⟨[], rfl, by rw [nil_lvl hi hd hn]; rfl, fun e he => ?_⟩
      rw [hn] at he; cases he
    | some last =>
      obtain ⟨hmem, hlv⟩ := last_lvl hi hd hl
      have h1 := var_pos (hi.trail.nonzero last hmem)
      have h2 := hv last hmem
      have hidx : (modelOf n s.es)[last.var - 1]? = some (modelAt s.es last.var) := by
        rw [modelOf_getElem? s.es (by omega)]
        congr 2; omega
      have habs : (modelAt s.es last.var).natAbs = s.lvl := by
        rw [modelAt_of_mem hnd hmem, ← hlv]; split <;> omega
      have hpos := hi.lvl_pos
      simp only [hidx, Option.getD_some, habs, modelOf_length]
      rw [if_neg (by omega)]
      obtain ⟨lits, h1, hlen, hP⟩ := dlFold_inv (n := n) hi ha n (Nat.le_refl _)
      exact ⟨lits, h1, hlen, fun e he hr h2 => hP e he hr h2 (hv e he)⟩
  obtain ⟨lits, hres, hlen, hP⟩ := key
  have hpos : ∀ k, 2 ≤ k → k ≤ s.lvl → ∃ e ∈ s.es, e.lvl = k ∧ e.reason = none ∧
      e.assumed = false ∧ lits[s.lvl - k]? = some (-e.lit) := by
    intro k h2 hle
    obtain ⟨e, he, hek, hr, hae⟩ := hd k h2 hle
    exact ⟨e, he, hek, hr, hae, by rw [← hek]; exact hP e he hr (by omega)⟩
  have hmem : ∀ l, l ∈ lits ↔ -l ∈ decisions s := by
    intro l
    rw [mem_decisions]
    constructor
    · intro hl
      obtain ⟨j, hj⟩ := List.mem_iff_getElem?.1 hl
      have hjl : j < lits.length := by
        rcases Nat.lt_or_ge j lits.length with h | h
        · exact h
        · rw [List.getElem?_eq_none h] at hj; cases hj
      obtain ⟨e, he, hek, hr, hae, hget⟩ := hpos (s.lvl - j) (by omega) (by omega)
      have : s.lvl - (s.lvl - j) = j := by omega
      rw [this, hj] at hget
      have hle : l = -e.lit := Option.some.inj hget
      exact ⟨e, he, by omega, hr, hae, by omega⟩
    · rintro ⟨e, he, hel, hr, _, h2⟩
      have := hP e he hr h2
      rw [hel, Int.neg_neg] at this
      exact List.mem_of_getElem? this
  refine ⟨lits, hres, hlen, hpos, hmem, ?_, ?_⟩
  · rw [List.nodup_iff_pairwise_ne, List.pairwise_iff_getElem]
    intro i j hi' hj hij heq'
    have heq : lits[i]? = lits[j]? := by
      rw [List.getElem?_eq_getElem hi', List.getElem?_eq_getElem hj, heq']
    clear heq'
    obtain ⟨e1, he1, hk1, _, _, hg1⟩ := hpos (s.lvl - i) (by omega) (by omega)
    obtain ⟨e2, he2, hk2, _, _, hg2⟩ := hpos (s.lvl - j) (by omega) (by omega)
    have hi' : s.lvl - (s.lvl - i) = i := by omega
    have hj' : s.lvl - (s.lvl - j) = j := by omega
    rw [hi'] at hg1; rw [hj'] at hg2
    rw [hg1, hg2] at heq
    have hlit : e1.lit = e2.lit := by have := Option.some.inj heq; omega
    have : e1 = e2 := eq_of_var_eq hnd he1 he2 (by unfold Entry.var; rw [hlit])
    rw [this] at hk1
    omega
  · constructor
    · intro h
      apply List.eq_nil_iff_forall_not_mem.2
      intro l hl
      have : - -l ∈ decisions s := by rw [Int.neg_neg]; exact hl
      have := (hmem (-l)).2 this
      rw [h] at this; cases this
    · intro h
      apply List.eq_nil_iff_forall_not_mem.2
      intro l hl
      have := (hmem l).1 hl
      rw [h] at this; cases this

/-- The same in every reachable state of the trail machine. -/
theorem reachable_decisionLits {ops : List Op} {s : State} (n : Nat)
    (hrun : run empty ops = some s) (hv : VarsLe n s.es) :
    ∃ lits, decisionLits s.es (modelOf n s.es) = some lits ∧ DecisionLitsSpec s lits :=
  decisionLits_spec n (reachable_inv hrun) (reachable_hasDecisions hrun)
    (reachable_assumedTop hrun) hv


/-! ### Part C — the round meets the contract of `GS.Enum.enum_exact` -/

/-- No assumption on the trail (`Enumerate` / `CountModels` called without `Assume`). -/
def NoAssumed (s : State) : Prop := ∀ e ∈ s.es, e.assumed = false

theorem NoAssumed.top {s : State} (h : NoAssumed s) : AssumedTop s := by
  intro e he ha; rw [h e he] at ha; cases ha

def notAssume : Op → Prop
  | .assume _ => False
  | _ => True

theorem push_noAssumed {s : State} (h : NoAssumed s) {l : Int} {k : Nat}
    {r : Option (List Int)} : NoAssumed (push s l k false r) := by
  intro e he
  change e ∈ s.es ++ [⟨l, k, false, r⟩] at he
  rw [List.mem_append, List.mem_singleton] at he
  rcases he with he | rfl
  · exact h e he
  · rfl

theorem backjump_noAssumed {s s' : State} {k : Nat} (h : NoAssumed s)
    (hs : backjumpOp s k = some s') : NoAssumed s' := by
  unfold backjumpOp at hs
  split at hs
  · cases hs
    exact fun e he => h e ((List.takeWhile_sublist _).subset he)
  · cases hs

theorem propagate_noAssumed {s s' : State} {l : Int} {c : List Int} (h : NoAssumed s)
    (hs : propagateOp s l c = some s') : NoAssumed s' := by
  unfold propagateOp at hs
  split at hs
  · cases hs; exact push_noAssumed h
  · cases hs

theorem step_preserves_noAssumed {s s' : State} {o : Op} (h : NoAssumed s) (ho : notAssume o)
    (hs : step s o = some s') : NoAssumed s' := by
  cases o with
  | decide l =>
    simp only [step, decideOp] at hs
    split at hs
    · cases hs; exact push_noAssumed h
    · cases hs
  | propagate l c => exact propagate_noAssumed h hs
  | backjump k => exact backjump_noAssumed h hs
  | assertLearned l c k =>
    simp only [step, assertLearnedOp] at hs
    split at hs
    · rename_i s1 h1
      exact propagate_noAssumed (backjump_noAssumed h h1) hs
    · cases hs
  | addFact l =>
    simp only [step, addFactOp] at hs
    split at hs
    · cases hs; exact push_noAssumed h
    · cases hs
  | assume l => exact absurd ho (fun h => h)

theorem run_preserves_noAssumed : ∀ (ops : List Op) {s s' : State}, NoAssumed s →
    (∀ o ∈ ops, notAssume o) → run s ops = some s' → NoAssumed s'
  | [], s, s', h, _, hr => by cases hr; exact h
  | o :: os, s, s', h, ho, hr => by
    rw [run] at hr
    split at hr
    · rename_i s1 h1
      exact run_preserves_noAssumed os (step_preserves_noAssumed h (ho o List.mem_cons_self) h1)
        (fun o' ho' => ho o' (List.mem_cons_of_mem _ ho')) hr
    · cases hr

theorem litTrue_asgOf {bs : List Bool} {l : Int} (hl : l ≠ 0) (hlt : l.natAbs - 1 < bs.length) :
    litTrue (asgOf bs) l = true ↔ bs[l.natAbs - 1]? = some (decide (l > 0)) := by
  obtain ⟨v, hv⟩ : ∃ v, l.natAbs = v + 1 := ⟨l.natAbs - 1, by omega⟩
  rw [hv] at hlt ⊢
  simp only [Nat.add_sub_cancel] at hlt ⊢
  unfold litTrue
  rw [hv]
  simp only [asgOf, List.getD_eq_getElem?_getD, List.getElem?_eq_getElem hlt, Option.getD_some,
    Option.some.injEq]
  by_cases hp : l > 0
  · simp [hp]
  · simp [hp]

/-- The bound positions of the array `s.model` are the trail variables, with the trail's signs. -/
theorem toOpt_modelOf {s : State} {n : Nat} (hi : Inv s) {i : Nat} {b : Bool} :
    (toOpt (modelOf n s.es))[i]? = some (some b) ↔
      i < n ∧ ∃ e ∈ s.es, e.var = i + 1 ∧ b = decide (e.lit > 0) := by
  have hnd := hi.trail.nodup
  rw [toOpt_getElem?]
  constructor
  · rintro ⟨x, hx, hx0, rfl⟩
    have hin : i < n := by
      rcases Nat.lt_or_ge i n with h | h
      · exact h
      · rw [List.getElem?_eq_none (by rw [modelOf_length]; exact h)] at hx; cases hx
    refine ⟨hin, ?_⟩
    rw [modelOf_getElem? s.es hin] at hx
    have hx' : modelAt s.es (i + 1) = x := Option.some.inj hx
    unfold modelAt at hx'
    cases hf : findVar s.es (i + 1) with
    | none => rw [hf] at hx'; exact absurd hx'.symm hx0
    | some e =>
      rw [hf] at hx'
      obtain ⟨he, hv⟩ := findVar_some hf
      have hl := hi.lvls_pos e he
      refine ⟨e, he, hv, ?_⟩
      rw [← hx']
      by_cases hp : e.lit > 0
      · simp only [hp, if_true, decide_true, decide_eq_true_eq]; omega
      · simp only [hp, if_false, decide_false, decide_eq_false_iff_not]; omega
  · rintro ⟨hin, e, he, hv, rfl⟩
    refine ⟨modelAt s.es (i + 1), modelOf_getElem? s.es hin, ?_, ?_⟩
    · rw [← hv, modelAt_of_mem hnd he]
      have hl := hi.lvls_pos e he
      split <;> omega
    · rw [← hv, modelAt_of_mem hnd he]
      have hl := hi.lvls_pos e he
      by_cases hp : e.lit > 0
      · simp only [hp, if_true, decide_true]; symm; simp only [decide_eq_true_eq]; omega
      · simp only [hp, if_false, decide_false]; symm; simp only [decide_eq_false_iff_not]; omega

/-- A boolean list of length `n` is a completion of the current model iff it makes every trail
    literal true. -/
theorem agrees_iff_trail {s : State} {n : Nat} (hi : Inv s) (hv : VarsLe n s.es) (bs : List Bool)
    (hlen : bs.length = n) :
    agreesB (toOpt (modelOf n s.es)) bs = true ↔ ∀ e ∈ s.es, litTrue (asgOf bs) e.lit = true := by
  rw [agreesB_iff]
  constructor
  · rintro ⟨_, h⟩ e he
    have h0 := hi.trail.nonzero e he
    have h1 := var_pos h0
    have h2 := hv e he
    change 1 ≤ e.lit.natAbs at h1
    change e.lit.natAbs ≤ n at h2
    rw [litTrue_asgOf h0 (by omega)]
    exact h _ _ ((toOpt_modelOf hi).2 ⟨by omega, e, he, by unfold Entry.var; omega, rfl⟩)
  · intro h
    refine ⟨by rw [length_toOpt, modelOf_length, hlen], fun i b hb => ?_⟩
    obtain ⟨hin, e, he, hev, rfl⟩ := (toOpt_modelOf hi).1 hb
    have h0 := hi.trail.nonzero e he
    have := (litTrue_asgOf h0 (by change e.lit.natAbs = i + 1 at hev; omega)).1 (h e he)
    change e.lit.natAbs = i + 1 at hev
    rw [hev] at this
    simpa using this

/-- `c` holds in every model of `p` over `1..n`. -/
def EntailedOver (n : Nat) (p : Problem) (c : List Int) : Prop :=
  ∀ bs ∈ modelsOver n p, clauseTrue (asgOf bs) c = true

theorem neg_map_neg (lits : List Int) : negLits (lits.map (fun l => -l)) = lits := by
  unfold negLits
  rw [List.map_map]
  conv => rhs; rw [← List.map_id lits]
  apply List.map_congr_left
  intro l _
  simp

theorem roundPair_eq (es : List Entry) (model lits : List Int)
    (h : decisionLits es model = some lits) :
    roundPair es model = some (toOpt model, lits.map (fun l => -l)) := by
  unfold roundPair; rw [h]

/-- **The concrete round meets the per-round contract of `enum_exact`.**

Hypotheses, all on the state `s` in which `search` answered `Sat` on problem `p` (`n` variables):
* `hi`, `hd` : invariant of the trail machine and one decision per level (`reachable_inv`,
  `reachable_hasDecisions`: true in every reachable state);
* `hna` : no assumption; `hv` : trail variables among `1..n`;
* `hsrc` : antecedents and level-1 facts hold in every model of `p` over `1..n` (clauses of the
  problem, learned clauses, blocking clauses, learned units);
* `hsat` : **what the `Sat` answer means** — every completion of the current partial model
  satisfies `p`.  This is the hypothesis the search provides; it is not proved here.

Conclusion: `decisionLits` succeeds and meets `DecisionLitsSpec`; the pair `(m, D)` handed to the
abstract loop is (current model, negated `decisionLits`), so that the blocking clause
`negLits D` is the Go slice literal for literal; and any oracle answering that pair on `p`
satisfies `GS.Enum.Contract n · p`. -/
theorem round_contract (n : Nat) (p : Problem) {s : State} (hi : Inv s) (hd : HasDecisions s)
    (hna : NoAssumed s) (hv : VarsLe n s.es)
    (hsrc : Sourced (EntailedOver n p) s)
    (hsat : ∀ bs, agreesB (toOpt (modelOf n s.es)) bs = true → Problem.holds (asgOf bs) p = true) :
    ∃ lits, decisionLits s.es (modelOf n s.es) = some lits ∧ DecisionLitsSpec s lits ∧
      roundPair s.es (modelOf n s.es) = some (toOpt (modelOf n s.es), lits.map (fun l => -l)) ∧
      negLits (lits.map (fun l => -l)) = lits ∧
      ∀ step : Step, step p = roundPair s.es (modelOf n s.es) → Contract n step p := by
  obtain ⟨lits, hres, hspec⟩ := decisionLits_spec n hi hd hna.top hv
  have hpair := roundPair_eq _ _ _ hres
  refine ⟨lits, hres, hspec, hpair, neg_map_neg lits, fun step hstep => ?_⟩
  rw [hpair] at hstep
  have hlenm : (toOpt (modelOf n s.es)).length = n := by rw [length_toOpt, modelOf_length]
  have hD : ∀ d, d ∈ lits.map (fun l => -l) ↔ d ∈ decisions s := by
    intro d
    rw [List.mem_map]
    constructor
    · rintro ⟨l, hl, rfl⟩; exact (hspec.mem l).1 hl
    · intro hd'
      exact ⟨-d, (hspec.mem (-d)).2 (by rw [Int.neg_neg]; exact hd'), Int.neg_neg d⟩
  constructor
  · -- sound
    intro m D hs bs hag
    rw [hstep] at hs
    obtain ⟨rfl, rfl⟩ := Prod.mk.inj (Option.some.inj hs)
    have hl : bs.length = n := by rw [agreesB_length _ _ hag, hlenm]
    refine ⟨(mem_modelsOver n p bs).2 ⟨hl, hsat bs hag⟩, ?_⟩
    unfold allTrue
    rw [List.all_eq_true]
    intro d hd'
    obtain ⟨e, he, hel, _⟩ := mem_decisions.1 ((hD d).1 hd')
    rw [← hel]
    exact (agrees_iff_trail hi hv bs hl).1 hag e he
  · -- nonzero
    intro m D hs d hd'
    rw [hstep] at hs
    obtain ⟨rfl, rfl⟩ := Prod.mk.inj (Option.some.inj hs)
    obtain ⟨e, he, hel, _⟩ := mem_decisions.1 ((hD d).1 hd')
    rw [← hel]; exact hi.trail.nonzero e he
  · -- propagated
    intro m D hs bs hb hall
    rw [hstep] at hs
    obtain ⟨rfl, rfl⟩ := Prod.mk.inj (Option.some.inj hs)
    have hl : bs.length = n := ((mem_modelsOver n p bs).1 hb).1
    rw [agrees_iff_trail hi hv bs hl]
    unfold allTrue at hall
    rw [List.all_eq_true] at hall
    apply inv_entailed hi (asgOf bs)
    · intro c hc
      obtain ⟨e, he, her⟩ := List.mem_filterMap.1 hc
      exact hsrc.reasons e he c her bs hb
    · intro l hl'
      obtain ⟨e, he, rfl⟩ := List.mem_map.1 hl'
      obtain ⟨he1, he2⟩ := List.mem_filter.1 he
      simp only [Bool.and_eq_true, Option.isNone_iff_eq_none, Bool.not_eq_true',
        decide_eq_true_eq] at he2
      have h1 := hi.lvls_pos e he1
      have := hsrc.facts e he1 he2.1.1 he2.1.2 (by omega) bs hb
      simpa [clauseTrue] using this
    · intro l hl'
      exact hall l ((hD l).2 hl')
    · intro l hl'
      obtain ⟨e, he, _⟩ := List.mem_map.1 hl'
      obtain ⟨he1, he2⟩ := List.mem_filter.1 he
      simp only [Bool.and_eq_true] at he2
      rw [hna e he1] at he2
      cases he2.2
  · -- complete
    intro hn
    rw [hstep] at hn; cases hn


/-! ### Part D — `roundStep` inside the loop; `enum_exact` for the concrete round -/

/-- The `switch len(lits)`. -/
def nextOf : List Int → Next
  | [] => .finished
  | [l] => .unit l
  | ls => .clause ls

theorem nextOf_lits (lits : List Int) : (nextOf lits).lits = lits := by
  match lits with
  | [] => rfl
  | [_] => rfl
  | _ :: _ :: _ => rfl

theorem roundStep_eq (es : List Entry) (model : List Int) :
    roundStep es model =
      (decisionLits es model).map (fun lits => ⟨expandGo model, countGo model, nextOf lits⟩) := by
  unfold roundStep
  cases decisionLits es model with
  | none => rfl
  | some lits =>
    match lits with
    | [] => rfl
    | [_] => rfl
    | _ :: _ :: _ => rfl

/-- **One iteration of the abstract loop is `roundStep`**: when the oracle answers the pair of the
    concrete state, `enumLoop` delivers the models of `roundStep` (below 64 unbound variables),
    then stops (`finished`) or goes on with the problem extended by the unit / the clause made of
    the literals of `decisionLits`, in the Go order. -/
theorem enumLoop_round (step : Step) (fuel : Nat) (p : Problem) (es : List Entry)
    (model : List Int) (r : Round) (hs : step p = roundPair es model)
    (hr : roundStep es model = some r) (hk : nbUnbound (toOpt model) < 64) :
    enumLoop step (fuel + 1) p = r.models ++
      (match r.next with
       | .finished => []
       | .unit l => enumLoop step fuel (p ++ [Lin.ofClause [l]])
       | .clause ls => enumLoop step fuel (p ++ [Lin.ofClause ls])) := by
  rw [roundStep_eq] at hr
  cases hd : decisionLits es model with
  | none => rw [hd] at hr; cases hr
  | some lits =>
    rw [hd] at hr
    simp only [Option.map_some, Option.some.injEq] at hr
    subst hr
    rw [roundPair_eq _ _ _ hd] at hs
    simp only [enumLoop, hs, neg_map_neg, expandGo_eq_expand model hk]
    match lits with
    | [] => rfl
    | [_] => rfl
    | _ :: _ :: _ => rfl

/-- The search seen as an oracle that returns the state of the trail machine at a `Sat` answer
    (`none` = `Unsat`); the enumeration loop reads that state through `roundPair`. -/
def stepOf (n : Nat) (search : Problem → Option State) : Step := fun p =>
  match search p with
  | none => none
  | some s => roundPair s.es (modelOf n s.es)

/-- What is assumed of the search on problem `p`: the hypotheses of `round_contract` at a `Sat`
    answer, and completeness of an `Unsat` answer. -/
structure SearchOk (n : Nat) (search : Problem → Option State) (p : Problem) : Prop where
  unsat : search p = none → modelsOver n p = []
  inv : ∀ s, search p = some s → Inv s ∧ HasDecisions s ∧ NoAssumed s ∧ VarsLe n s.es
  sourced : ∀ s, search p = some s → Sourced (EntailedOver n p) s
  sat : ∀ s, search p = some s → ∀ bs, agreesB (toOpt (modelOf n s.es)) bs = true →
    Problem.holds (asgOf bs) p = true

theorem stepOf_contract {n : Nat} {search : Problem → Option State} {p : Problem}
    (h : SearchOk n search p) : Contract n (stepOf n search) p := by
  cases hs : search p with
  | none =>
    have hn : stepOf n search p = none := by unfold stepOf; rw [hs]
    constructor
    · intro m D h'; rw [hn] at h'; cases h'
    · intro m D h'; rw [hn] at h'; cases h'
    · intro m D h'; rw [hn] at h'; cases h'
    · intro _; exact h.unsat hs
  | some s =>
    obtain ⟨hi, hd, hna, hv⟩ := h.inv s hs
    obtain ⟨_, _, _, _, _, hc⟩ := round_contract n p hi hd hna hv (h.sourced s hs) (h.sat s hs)
    exact hc _ (by unfold stepOf; rw [hs])

/-- **`enum_exact` applies to the concrete round**: if on `F` extended by the blocking clauses
    every `Sat` answer comes in a state meeting the hypotheses of `round_contract` and every
    `Unsat` answer is right, the loop run with `decisionLits` / `addCurrentModels` as mirrored
    here delivers every model of `F` over `1..n` exactly once. -/
theorem enum_exact_concrete (n : Nat) (search : Problem → Option State) (F : Problem)
    (h : ∀ bl, SearchOk n search (F ++ bl)) (fuel : Nat) (hf : countOver n F < fuel) :
    (enumLoop (stepOf n search) fuel F).Nodup ∧
    (∀ bs, bs ∈ enumLoop (stepOf n search) fuel F ↔ bs ∈ modelsOver n F) ∧
    (∀ bs, bs ∈ enumLoop (stepOf n search) fuel F →
      bs.length = n ∧ Problem.holds (asgOf bs) F = true) ∧
    (enumLoop (stepOf n search) fuel F).length = countOver n F ∧
    countLoop (stepOf n search) fuel F = countOver n F :=
  enum_exact n (stepOf n search) F (fun bl => stepOf_contract (h bl)) fuel hf

/-- `round_contract` with the state hypotheses discharged by reachability: `ops` is any sequence
    the trail machine accepts from the empty trail, without `assume`, whose antecedents and facts
    hold in every model of `p` over `1..n`. -/
theorem round_contract_reachable (n : Nat) (p : Problem) {ops : List Op} {s : State}
    (hrun : run empty ops = some s) (hops : ∀ o ∈ ops, OpOk (EntailedOver n p) o)
    (hna : ∀ o ∈ ops, notAssume o) (hv : VarsLe n s.es)
    (hsat : ∀ bs, agreesB (toOpt (modelOf n s.es)) bs = true → Problem.holds (asgOf bs) p = true) :
    ∃ lits, decisionLits s.es (modelOf n s.es) = some lits ∧ DecisionLitsSpec s lits ∧
      roundPair s.es (modelOf n s.es) = some (toOpt (modelOf n s.es), lits.map (fun l => -l)) ∧
      negLits (lits.map (fun l => -l)) = lits ∧
      ∀ step : Step, step p = roundPair s.es (modelOf n s.es) → Contract n step p :=
  round_contract n p (reachable_inv hrun) (reachable_hasDecisions hrun)
    (run_preserves_noAssumed ops (fun e he => by cases he) hna hrun) hv
    (run_preserves_sourced ops init_inv empty_sourced hops hrun) hsat


/-! ### Part E — the `default:` branch is an enabled `assertLearned` -/

/-- **The blocking clause is unit after the backjump.**  With two decisions or more, the
    `default:` branch (`lit = lits[0]; lvl = abs(s.model[v]) - 1; cleanupBindings(lvl);
    s.reason[v] = c; propagateAndSearch(lit, lvl)`) is the machine operation
    `assertLearned lits[0] lits (lvl - 1)`, and the machine accepts it: after the cut at level
    `lvl - 1` the first literal (negation of the deepest decision) is unbound and all the others
    are false.  This is what the order "deepest decision first" of `decisionLits` is for. -/
theorem block_assert_enabled {s : State} (n : Nat) (hi : Inv s) (hd : HasDecisions s)
    (ha : AssumedTop s) (hv : VarsLe n s.es) {lits : List Int}
    (hres : decisionLits s.es (modelOf n s.es) = some lits) (h2 : 2 ≤ lits.length) :
    ∃ l s', lits.head? = some l ∧
      blockOp (modelOf n s.es) lits = some (.assertLearned l lits (s.lvl - 1)) ∧
      step s (.assertLearned l lits (s.lvl - 1)) = some s' ∧ s'.lvl = s.lvl - 1 ∧
      s'.es = s.es.filter (fun e => decide (e.lvl ≤ s.lvl - 1)) ++
        [⟨l, s.lvl - 1, false, some lits⟩] := by
  have hnd := hi.trail.nodup
  obtain ⟨lits', hres', spec⟩ := decisionLits_spec n hi hd ha hv
  have : lits' = lits := Option.some.inj (hres'.symm.trans hres)
  subst this
  have hlen := spec.length
  obtain ⟨et, het, hetl, hetr, heta, hget⟩ := spec.pos s.lvl (by omega) (Nat.le_refl _)
  rw [Nat.sub_self] at hget
  have het0 := hi.trail.nonzero et het
  match lits', hget, h2, hlen, spec with
  | l :: l2 :: rest, hget, _, hlen, spec =>
    simp only [List.getElem?_cons_zero, Option.some.injEq] at hget
    subst hget
    have hvar : (-et.lit).natAbs = et.var := by unfold Entry.var; omega
    have h1 := var_pos het0
    have hidx : (modelOf n s.es)[(-et.lit).natAbs - 1]? = some (modelAt s.es et.var) := by
      rw [hvar, modelOf_getElem? s.es (by have := hv et het; omega)]
      congr 2; omega
    have habs : (modelAt s.es et.var).natAbs = s.lvl := by
      rw [modelAt_of_mem hnd het, ← hetl]; split <;> omega
    have hbj : backjumpOp s (s.lvl - 1) =
        some ⟨s.lvl - 1, s.es.takeWhile (fun e => decide (e.lvl ≤ s.lvl - 1))⟩ := by
      unfold backjumpOp
      simp only [List.length_cons] at hlen
      rw [if_pos (by simp; omega)]
    obtain ⟨_, hfil, hmem⟩ := mem_backjump hi.trail.mono hbj
    simp only at hfil hmem
    refine ⟨-et.lit, push ⟨s.lvl - 1, s.es.takeWhile (fun e => decide (e.lvl ≤ s.lvl - 1))⟩
      (-et.lit) (s.lvl - 1) false (some (-et.lit :: l2 :: rest)), rfl, ?_, ?_, rfl, ?_⟩
    · simp only [blockOp, hidx, Option.getD_some, habs]
    · simp only [step, assertLearnedOp, hbj, propagateOp]
      rw [if_pos]
      simp only [Bool.and_eq_true, bne_iff_ne, ne_eq]
      refine ⟨⟨by omega, ?_⟩, ?_⟩
      · rw [unbound_iff]
        intro e he hev
        obtain ⟨hes, hel⟩ := (hmem e).1 he
        have : e = et := eq_of_var_eq hnd hes het (by rw [hev, hvar])
        subst this
        simp only [List.length_cons] at hlen
        omega
      · rw [isUnit_iff]
        refine ⟨List.mem_cons_self, fun f hf hne => ?_⟩
        obtain ⟨e, he, hel, her, hea, he2⟩ := mem_decisions.1 ((spec.mem f).1 hf)
        rw [isFalse_iff]
        refine ⟨e, (hmem e).2 ⟨he, ?_⟩, hel⟩
        have hb := hi.trail.bound e he
        by_cases htop : e.lvl = s.lvl
        · have : e = et := decision_unique hi (by omega) he het her hea htop hetr heta hetl
          subst this
          exact absurd (by omega : f = -e.lit) hne
        · omega
    · show s.es.takeWhile _ ++ _ = _
      rw [hfil]


/-! ### Part F — concrete rounds (non-vacuity) -/

/-- (1) No decision: fact `3`, propagation `-1`; `x2` is unbound.  Two models, enumeration over. -/
def ex1Ops : List Op := [.addFact 3, .propagate (-1) [-3, -1]]
def ex1 : State := ⟨1, [⟨3, 1, false, none⟩, ⟨-1, 1, false, some [-3, -1]⟩]⟩

example : run empty ex1Ops = some ex1 := by decide
example : modelOf 3 ex1.es = [-1, 0, 1] := by decide
example : decisionLits ex1.es (modelOf 3 ex1.es) = some [] := by decide
example : roundStep ex1.es (modelOf 3 ex1.es) =
    some ⟨[[false, false, true], [false, true, true]], 2, .finished⟩ := by decide

/-- (2) One decision (`-2`) with two propagations, a fact, and an unbound variable (`x3`):
    the blocking literal `2` is a unit, two models are delivered. -/
def ex2Ops : List Op := [.addFact 4, .decide (-2), .propagate 1 [2, 1], .propagate (-5) [-1, -5]]
def ex2 : State :=
  ⟨2, [⟨4, 1, false, none⟩, ⟨-2, 2, false, none⟩, ⟨1, 2, false, some [2, 1]⟩,
       ⟨-5, 2, false, some [-1, -5]⟩]⟩
def ex2P : Problem := [Lin.ofClause [4], Lin.ofClause [2, 1], Lin.ofClause [-1, -5]]

example : run empty ex2Ops = some ex2 := by decide
example : modelOf 5 ex2.es = [2, -2, 0, 1, -2] := by decide
example : roundStep ex2.es (modelOf 5 ex2.es) =
    some ⟨[[true, false, false, true, false], [true, false, true, true, false]], 2, .unit 2⟩ := by
  decide
example : roundPair ex2.es (modelOf 5 ex2.es) =
    some ([some true, some false, none, some true, some false], [-2]) := by decide

/-- (3) Three levels of decisions (`6`, `1`, `-8`): the blocking clause lists the negated
    decisions deepest first; the `default:` branch backjumps to level 3 and asserts `8`. -/
def ex3Ops : List Op :=
  [.addFact 7, .decide 6, .decide 1, .propagate 2 [-1, 2], .propagate 3 [-1, 3],
   .propagate 4 [-2, -3, 4], .propagate 5 [-4, 5], .decide (-8), .propagate 9 [8, 9]]
def ex3 : State :=
  ⟨4, [⟨7, 1, false, none⟩, ⟨6, 2, false, none⟩, ⟨1, 3, false, none⟩,
       ⟨2, 3, false, some [-1, 2]⟩, ⟨3, 3, false, some [-1, 3]⟩,
       ⟨4, 3, false, some [-2, -3, 4]⟩, ⟨5, 3, false, some [-4, 5]⟩,
       ⟨-8, 4, false, none⟩, ⟨9, 4, false, some [8, 9]⟩]⟩

example : run empty ex3Ops = some ex3 := by decide
example : modelOf 9 ex3.es = [3, 3, 3, 3, 3, 2, 1, -4, 4] := by decide
example : roundStep ex3.es (modelOf 9 ex3.es) =
    some ⟨[[true, true, true, true, true, true, true, false, true]], 1, .clause [8, -1, -6]⟩ := by
  decide
example : blockOp (modelOf 9 ex3.es) [8, -1, -6] = some (.assertLearned 8 [8, -1, -6] 3) := by
  decide
example : (step ex3 (.assertLearned 8 [8, -1, -6] 3)).map (fun s => (s.lvl, s.es.length, invB s)) =
    some (3, 8, true) := by decide

/-- A state the machine cannot reach (level-3 entry, no decision of level 2, then a level
    *above* the last literal's): the Go code would index `lits[-1]`. -/
example : decisionLits [⟨1, 3, false, none⟩, ⟨2, 2, false, none⟩] [3, 2] = none := by decide

/-- Hypotheses of `decisionLits_spec` / `reachable_decisionLits` on (3). -/
example : ∃ lits, decisionLits ex3.es (modelOf 9 ex3.es) = some lits ∧ DecisionLitsSpec ex3 lits :=
  reachable_decisionLits 9 (ops := ex3Ops) (by decide) (by unfold VarsLe; decide)

/-- Hypotheses of `block_assert_enabled` on (3). -/
example : ∃ l s', [8, -1, -6].head? = some l ∧
    blockOp (modelOf 9 ex3.es) [8, -1, -6] = some (.assertLearned l [8, -1, -6] (ex3.lvl - 1)) ∧
    step ex3 (.assertLearned l [8, -1, -6] (ex3.lvl - 1)) = some s' ∧ s'.lvl = ex3.lvl - 1 ∧
    s'.es = ex3.es.filter (fun e => decide (e.lvl ≤ ex3.lvl - 1)) ++
      [⟨l, ex3.lvl - 1, false, some [8, -1, -6]⟩] :=
  block_assert_enabled 9 (reachable_inv (ops := ex3Ops) (by decide))
    (reachable_hasDecisions (ops := ex3Ops) (by decide))
    (reachable_assumedTop (ops := ex3Ops) (by decide)) (by unfold VarsLe; decide)
    (by decide) (by decide)

/-- Hypothesis of `expand_models_spec` on (2); the Go counter at 63 / 64 unbound variables. -/
example : nbUnbound (toOpt (modelOf 5 ex2.es)) < 64 := by decide
set_option maxRecDepth 8192 in
example : countGo (List.replicate 63 0) = -9223372036854775808 ∧
    countGo (List.replicate 64 0) = 0 ∧ expandGo (List.replicate 64 0) = [] := by decide

/-- Hypotheses of `round_contract_reachable` on (2) with the problem `x4, x2 ∨ x1, ¬x1 ∨ ¬x5`
    over 5 variables: the run only uses clauses of the problem, and both completions of the
    current model satisfy it. -/
example : ∃ lits, decisionLits ex2.es (modelOf 5 ex2.es) = some lits ∧ DecisionLitsSpec ex2 lits ∧
    roundPair ex2.es (modelOf 5 ex2.es) = some (toOpt (modelOf 5 ex2.es), lits.map (fun l => -l)) ∧
    negLits (lits.map (fun l => -l)) = lits ∧
    ∀ step : Step, step ex2P = roundPair ex2.es (modelOf 5 ex2.es) → Contract 5 step ex2P := by
  have hc : ∀ c ∈ [[4], [2, 1], [-1, -5]], EntailedOver 5 ex2P c := by
    unfold EntailedOver; decide
  refine round_contract_reachable 5 ex2P (ops := ex2Ops) (by decide) ?_ ?_
    (by unfold VarsLe; decide) ?_
  · intro o ho
    simp only [ex2Ops, List.mem_cons, List.not_mem_nil, or_false] at ho
    rcases ho with rfl | rfl | rfl | rfl
    · exact hc _ (by decide)
    · trivial
    · exact hc _ (by decide)
    · exact hc _ (by decide)
  · intro o ho
    simp only [ex2Ops, List.mem_cons, List.not_mem_nil, or_false] at ho
    rcases ho with rfl | rfl | rfl | rfl <;> trivial
  · intro bs h
    exact (by decide : ∀ bs ∈ expand (toOpt (modelOf 5 ex2.es)),
      Problem.holds (asgOf bs) ex2P = true) bs ((mem_expand _ _).2 h)


/-- Why `round_contract` asks for `NoAssumed`: under `Assume` the loop enumerates the models *of
    the assumptions*; field `propagated` of the contract fails (no constraint, one variable,
    assumption `x1`: the model `[some true]` has no decision, yet `[false]` is a model of the
    problem). -/
example : ¬ (∀ bs ∈ modelsOver 1 [], allTrue bs [] = true → agreesB [some true] bs = true) := by
  decide

end GS.EnumRound

#print axioms GS.EnumRound.expandGo_eq_range
#print axioms GS.EnumRound.expandGo_eq_expand
#print axioms GS.EnumRound.expandGo_overflow
#print axioms GS.EnumRound.countGo_eq
#print axioms GS.EnumRound.expand_models_spec
#print axioms GS.EnumRound.decisionLits_spec
#print axioms GS.EnumRound.reachable_decisionLits
#print axioms GS.EnumRound.agrees_iff_trail
#print axioms GS.EnumRound.round_contract
#print axioms GS.EnumRound.round_contract_reachable
#print axioms GS.EnumRound.enumLoop_round
#print axioms GS.EnumRound.stepOf_contract
#print axioms GS.EnumRound.enum_exact_concrete
#print axioms GS.EnumRound.block_assert_enabled
