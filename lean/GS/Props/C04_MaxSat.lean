import GS.Model.MaxSatEnc
import GS.Check.MaxSatBrute
/-!
# C04 — the blocking-literal encoding of MaxSAT is exact, and relaxation variables do not leak

`GS.MaxSatEnc.encode n hard soft` is what `maxsat.New` / `maxsat.ParseWCNF` hand to the
pseudo-boolean optimiser. This file proves, for **all** instances such that

* `hard.wf n`, `softWf n soft` : the user's literals are non-zero and within `1..n`
  (so the blocking variables `n+1, n+2, …` are fresh),
* `softNonneg soft`             : the coefficients of the soft constraints are `≥ 0`
  (needed for completeness: a true blocking literal must satisfy the relaxed constraint),
* `weightsNonneg soft`          : the weights are `≥ 0`
  (needed for soundness: a blocking literal may be true although its constraint holds),

that optima of the encoded problem are exactly the MaxSAT optima (`optimum_transfer`),
that the encoded problem is satisfiable iff the hard part is (`encoded_sat_iff`), and that
trimming a model list at `firstRelax = n` yields exactly the user's variables (`trim_model`).
No hypothesis `degree ≥ 1` is needed for these semantic statements; it is only needed for
`newSoft_toLin` (fidelity of `relax` to the three branches of `New`).
-/
namespace GS.MaxSatEnc
open GS

/-! ### hypotheses -/

def termsNonneg (ts : List (Int × Int)) : Bool := ts.all (fun t => decide (0 ≤ t.1))

/-- All coefficients of all soft constraints are `≥ 0`. -/
def softNonneg (ss : List Soft) : Bool := ss.all (fun s => termsNonneg s.c.terms)

/-- All weights are `≥ 0`. -/
def weightsNonneg (ss : List Soft) : Bool := ss.all (fun s => decide (0 ≤ s.weight))

/-! ### arithmetic of `lhs` -/

theorem lhs_append (a : Asg) : ∀ xs ys : List (Int × Int), lhs a (xs ++ ys) = lhs a xs + lhs a ys := by
  intro xs ys
  induction xs with
  | nil => simp [lhs]
  | cons x xs ih => simp only [List.cons_append, lhs, ih]; omega

theorem termVal_nonneg (a : Asg) (t : Int × Int) (h : 0 ≤ t.1) : 0 ≤ termVal a t := by
  unfold termVal; split <;> omega

/-- **Here non-negativity of the coefficients is used**: the left-hand side is `≥ 0`. -/
theorem lhs_nonneg (a : Asg) : ∀ ts : List (Int × Int), termsNonneg ts = true → 0 ≤ lhs a ts := by
  intro ts
  induction ts with
  | nil => intro _; simp [lhs]
  | cons t ts ih =>
    intro h
    unfold termsNonneg at h
    simp only [List.all_cons, Bool.and_eq_true, decide_eq_true_eq] at h
    have h1 := termVal_nonneg a t h.1
    have h2 := ih (by unfold termsNonneg; exact h.2)
    simp only [lhs]; omega

theorem relax_lhs (a : Asg) (c : Lin) (b : Int) :
    lhs a (relax c b).terms = lhs a c.terms + (if litTrue a b = true then c.degree else 0) := by
  simp [relax, lhs_append, lhs, termVal]

theorem litTrue_natCast (a : Asg) (k : Nat) (hk : 1 ≤ k) : litTrue a (k : Int) = a k := by
  unfold litTrue
  have : (k : Int) > 0 := by omega
  simp only [this, if_true, Int.natAbs_natCast]

/-! ### `relax_sem` -/

/-- Blocking literal false: the relaxed constraint *is* the constraint (no hypothesis). -/
theorem relax_unblocked (a : Asg) (c : Lin) (b : Int) (hb : litTrue a b = false) :
    (relax c b).holds a = c.holds a := by
  unfold Lin.holds
  rw [relax_lhs, hb]
  simp [relax]

/-- Blocking literal true: the relaxed constraint holds, **because the other terms are `≥ 0`**
    and the blocking literal's coefficient is the degree. -/
theorem relax_blocked (a : Asg) (c : Lin) (b : Int) (hn : termsNonneg c.terms = true)
    (hb : litTrue a b = true) : (relax c b).holds a = true := by
  unfold Lin.holds
  rw [relax_lhs, hb]
  have := lhs_nonneg a c.terms hn
  simp only [relax, if_true, decide_eq_true_eq]
  omega

/-- The direction used for soundness needs no hypothesis at all. -/
theorem relax_sound (a : Asg) (c : Lin) (b : Int) (h : (relax c b).holds a = true) :
    c.holds a = true ∨ litTrue a b = true := by
  cases hb : litTrue a b with
  | true => exact Or.inr rfl
  | false => rw [relax_unblocked a c b hb] at h; exact Or.inl h

/-- `Σ cᵢ·lᵢ + d·b ≥ d` is `(Σ cᵢ·lᵢ ≥ d) ∨ b`, for non-negative coefficients. -/
theorem relax_sem (a : Asg) (c : Lin) (b : Int) (hn : termsNonneg c.terms = true) :
    (relax c b).holds a = true ↔ (c.holds a = true ∨ litTrue a b = true) := by
  constructor
  · exact relax_sound a c b
  · rintro (h | h)
    · cases hb : litTrue a b with
      | true => exact relax_blocked a c b hn hb
      | false => rw [relax_unblocked a c b hb]; exact h
    · exact relax_blocked a c b hn h

/-- hypotheses of `relax_sem` met by the cardinality constraint `x1 + x2 + ¬x3 ≥ 2`. -/
example : termsNonneg (Lin.ofCard [1, 2, -3] 2).terms = true := by decide

/-- **Counterexample with a negative coefficient** (degree `1 ≥ 1`): `2·x1 − x2 ≥ 1` relaxed by
    `x3` is `2·x1 − x2 + x3 ≥ 1`; under `x1 = false, x2 = true, x3 = true` the blocking literal
    is true but the relaxed constraint is violated (`0 ≥ 1`). `maxsat.New` builds exactly this
    (`solver.GtEq` then normalises it to `2·x1 + ¬x2 + x3 ≥ 2`, same meaning). -/
example :
    let c : Lin := ⟨[(2, 1), (-1, 2)], 1⟩
    let a : Asg := asgOf [false, true, true]
    litTrue a 3 = true ∧ (relax c 3).holds a = false := by decide

/-! ### fidelity of `relax` to the three branches of `maxsat.New` -/

theorem zip_append_single (xs : List Int) (ys : List Int) (x y : Int) (h : xs.length = ys.length) :
    (xs ++ [x]).zip (ys ++ [y]) = xs.zip ys ++ [(x, y)] := by
  rw [List.zip_append h]; rfl

theorem zip_ones (ls : List Int) : (ls.map (fun _ => (1 : Int))).zip ls = ls.map (fun l => ((1 : Int), l)) := by
  induction ls with
  | nil => rfl
  | cons l ls ih => simp [ih]

/-- For a clause (`nil` coefficients, bound 1), a cardinality constraint (`nil` coefficients,
    bound > 1) and a PB constraint (as many coefficients as literals), what `New` builds for a
    soft constraint is `relax` of the constraint's meaning. -/
theorem newSoft_toLin (c : GoConstr) (bl : Int) (l : Lin) (hl : c.toLin = some l)
    (hd : c.coeffs = [] → 1 ≤ c.atLeast) :
    (newSoft c bl).toLin = some (relax l bl) := by
  obtain ⟨lits, coeffs, d⟩ := c
  simp only [GoConstr.toLin] at hl
  simp only at hd
  cases coeffs with
  | nil =>
    simp only [List.isEmpty_nil, if_true, Option.some.injEq] at hl
    subst hl
    have hd := hd rfl
    by_cases h1 : d > 1
    · have hz := zip_append_single (lits.map (fun _ => (1 : Int))) lits d bl (by simp)
      rw [zip_ones] at hz
      simp [newSoft, GoConstr.toLin, relax, h1, hz]
    · have : d = 1 := by omega
      subst this
      simp [newSoft, GoConstr.toLin, relax]
  | cons k ks =>
    simp only [List.isEmpty_cons, Bool.false_eq_true, if_false] at hl
    split at hl
    · rename_i hlen
      simp only [Option.some.injEq] at hl
      subst hl
      have hz := zip_append_single (k :: ks) lits d bl hlen
      have hn : newSoft ⟨lits, k :: ks, d⟩ bl = ⟨lits ++ [bl], (k :: ks) ++ [d], d⟩ := by
        simp [newSoft]
      have hlen' : ((k :: ks) ++ [d]).length = (lits ++ [bl]).length := by
        simp only [List.length_append, hlen, List.length_singleton]
      rw [hn]
      simp only [GoConstr.toLin, relax, hz]
      rw [if_neg (by simp), if_pos hlen']
    · cases hl

/-- a soft cardinality constraint `x1 + x2 + x3 ≥ 2` gets `1 1 1 2` / blocking literal 4. -/
example : newSoft ⟨[1, 2, 3], [], 2⟩ 4 = ⟨[1, 2, 3, 4], [1, 1, 1, 2], 2⟩ := by decide
/-- no literal, bound 2: `make([]int, 0)` is not `nil`, the blocking literal gets coefficient 2. -/
example : newSoft ⟨[], [], 2⟩ 1 = ⟨[1], [2], 2⟩ := by decide
/-- a soft clause keeps `nil` coefficients. -/
example : newSoft ⟨[1, -2], [], 1⟩ 3 = ⟨[1, -2, 3], [], 1⟩ := by decide

/-! ### completeness: every model of `hard` extends to a model of the encoding -/

/-- `u` on the user's variables `≤ n`; the blocking variable `n+1+i` is set to
    "the `i`-th soft constraint is violated by `u`". -/
def extend (n : Nat) (u : Asg) (soft : List Soft) : Asg := fun v =>
  if v ≤ n then u v else
    match soft[v - (n + 1)]? with
    | some s => !s.c.holds u
    | none => false

theorem complete_aux (n : Nat) (u e : Asg) (hag : ∀ v, 1 ≤ v → v ≤ n → e v = u v) :
    ∀ (ss : List Soft) (k : Nat), 1 ≤ k → softWf n ss = true → softNonneg ss = true →
      (∀ i s, ss[i]? = some s → e (k + i) = !s.c.holds u) →
      Problem.holds e (relaxFrom k ss) = true ∧ cost (costFrom k ss) e = violated u ss := by
  intro ss
  induction ss with
  | nil => intro k _ _ _ _; simp [relaxFrom, costFrom, Problem.holds, cost, lhs, violated]
  | cons s ss ih =>
    intro k hk hw hn he
    unfold softWf at hw
    unfold softNonneg at hn
    simp only [List.all_cons, Bool.and_eq_true] at hw hn
    have hk0 : e k = !s.c.holds u := by simpa using he 0 s (by simp)
    have hlit : litTrue e (k : Int) = !s.c.holds u := by rw [litTrue_natCast e k hk, hk0]
    have hc : s.c.holds e = s.c.holds u := Lin.holds_congr e u n hag s.c hw.1
    have ⟨ih1, ih2⟩ := ih (k + 1) (by omega) (by unfold softWf; exact hw.2)
      (by unfold softNonneg; exact hn.2)
      (fun i s' hi => by
        have := he (i + 1) s' (by simpa using hi)
        rw [← this]; congr 1; omega)
    constructor
    · simp only [relaxFrom, Problem.holds, List.all_cons, Bool.and_eq_true]
      refine ⟨?_, ih1⟩
      rw [relax_sem e s.c k hn.1, hc, hlit]
      cases s.c.holds u <;> simp
    · unfold cost at ih2 ⊢
      simp only [costFrom, lhs, termVal, violated, ih2, hlit]
      cases s.c.holds u <;> simp

theorem extend_user (n : Nat) (u : Asg) (soft : List Soft) (v : Nat) (hv : v ≤ n) :
    extend n u soft v = u v := by
  simp [extend, hv]

theorem extend_blocking (n : Nat) (u : Asg) (soft : List Soft) (i : Nat) (s : Soft)
    (h : soft[i]? = some s) : extend n u soft (n + 1 + i) = !s.c.holds u := by
  have h1 : ¬ (n + 1 + i ≤ n) := by omega
  have h2 : n + 1 + i - (n + 1) = i := by omega
  simp [extend, h1, h2, h]

/-- **Completeness.** Every assignment `u` satisfying `hard` extends — each blocking variable
    set to "its soft constraint is violated by `u`" — to a model of the encoded problem whose
    cost is exactly the weight violated by `u`. -/
theorem encoding_complete (n : Nat) (hard : Problem) (soft : List Soft) (u : Asg)
    (hwH : hard.wf n = true) (hwS : softWf n soft = true) (hnn : softNonneg soft = true)
    (hu : Problem.holds u hard = true) :
    Problem.holds (extend n u soft) (encode n hard soft).1 = true ∧
    cost (encode n hard soft).2 (extend n u soft) = violated u soft ∧
    (∀ v, v ≤ n → extend n u soft v = u v) := by
  have hag : ∀ v, 1 ≤ v → v ≤ n → extend n u soft v = u v :=
    fun v _ h2 => extend_user n u soft v h2
  have ⟨h1, h2⟩ := complete_aux n u (extend n u soft) hag soft (n + 1) (by omega) hwS hnn
    (fun i s hi => extend_blocking n u soft i s hi)
  refine ⟨?_, h2, fun v hv => extend_user n u soft v hv⟩
  simp only [encode, Problem.holds, List.all_append, Bool.and_eq_true]
  refine ⟨?_, h1⟩
  have := Problem.holds_congr (extend n u soft) u n hag hard hwH
  unfold Problem.holds at this
  rw [this]; exact hu

/-! ### soundness: every model of the encoding is a model of `hard`, and pays at least what it violates -/

theorem sound_aux (a : Asg) : ∀ (ss : List Soft) (k : Nat), weightsNonneg ss = true →
    Problem.holds a (relaxFrom k ss) = true → violated a ss ≤ cost (costFrom k ss) a := by
  intro ss
  induction ss with
  | nil => intro k _ _; simp [costFrom, cost, lhs, violated]
  | cons s ss ih =>
    intro k hw hm
    unfold weightsNonneg at hw
    simp only [List.all_cons, Bool.and_eq_true, decide_eq_true_eq] at hw
    simp only [relaxFrom, Problem.holds, List.all_cons, Bool.and_eq_true] at hm
    have ih' := ih (k + 1) (by unfold weightsNonneg; exact hw.2) hm.2
    unfold cost at ih' ⊢
    simp only [costFrom, lhs, termVal, violated]
    have hw1 := hw.1
    rcases relax_sound a s.c k hm.1 with h | h
    · simp only [h, if_true]
      split <;> omega
    · simp only [h, if_true]
      split <;> omega

/-- **Soundness.** Every model `a` of the encoded problem satisfies `hard`, and the weight it
    violates is at most its cost (`≤`, not `=`: a blocking literal may be true although its
    constraint holds — which is why the weights must be `≥ 0`). No well-formedness hypothesis. -/
theorem encoding_sound (n : Nat) (hard : Problem) (soft : List Soft) (a : Asg)
    (hwt : weightsNonneg soft = true)
    (ha : Problem.holds a (encode n hard soft).1 = true) :
    Problem.holds a hard = true ∧ violated a soft ≤ cost (encode n hard soft).2 a := by
  simp only [encode, Problem.holds, List.all_append, Bool.and_eq_true] at ha
  exact ⟨ha.1, sound_aux a soft (n + 1) hwt ha.2⟩

/-! ### transfer of optima and of (un)satisfiability -/

/-- The encoded problem is satisfiable iff the hard part is (so `Solve` answers "no model"
    exactly when the hard constraints are contradictory). -/
theorem encoded_sat_iff (n : Nat) (hard : Problem) (soft : List Soft)
    (hwH : hard.wf n = true) (hwS : softWf n soft = true) (hnn : softNonneg soft = true) :
    Satisfiable (encode n hard soft).1 ↔ Satisfiable hard := by
  constructor
  · rintro ⟨a, ha⟩
    simp only [encode, Problem.holds, List.all_append, Bool.and_eq_true] at ha
    exact ⟨a, ha.1⟩
  · rintro ⟨u, hu⟩
    exact ⟨_, (encoding_complete n hard soft u hwH hwS hnn hu).1⟩

/-- **Transfer.** If `a` is an optimum of the encoded problem for the encoded cost function,
    then every assignment `u` that agrees with `a` on the user's variables `1..n` (in
    particular its restriction, and `a` itself) is a MaxSAT optimum of `(hard, soft)`, and the
    optimal cost is the weight `u` violates, i.e. the minimal violated weight. -/
theorem optimum_transfer (n : Nat) (hard : Problem) (soft : List Soft) (a u : Asg)
    (hwH : hard.wf n = true) (hwS : softWf n soft = true) (hnn : softNonneg soft = true)
    (hwt : weightsNonneg soft = true)
    (hopt : IsOptimum (encode n hard soft).1 (encode n hard soft).2 a)
    (hu : ∀ v, 1 ≤ v → v ≤ n → u v = a v) :
    IsMaxSatOpt hard soft u ∧ cost (encode n hard soft).2 a = violated u soft ∧
    (∀ b, Problem.holds b hard = true → cost (encode n hard soft).2 a ≤ violated b soft) := by
  obtain ⟨hm, hmin⟩ := hopt
  have ⟨hh, hle⟩ := encoding_sound n hard soft a hwt hm
  have hvu : violated u soft = violated a soft := violated_congr u a n hu soft hwS
  have hhu : Problem.holds u hard = true := by
    rw [Problem.holds_congr u a n hu hard hwH]; exact hh
  have hall : ∀ b, Problem.holds b hard = true → cost (encode n hard soft).2 a ≤ violated b soft := by
    intro b hb
    have ⟨c1, c2, _⟩ := encoding_complete n hard soft b hwH hwS hnn hb
    have := hmin _ c1
    omega
  have heq : cost (encode n hard soft).2 a = violated u soft := by
    have := hall a hh
    omega
  refine ⟨⟨hhu, ?_⟩, heq, hall⟩
  intro b hb
  have := hall b hb
  omega

/-- Conversely every MaxSAT optimum extends to an optimum of the encoded problem. -/
theorem optimum_transfer_conv (n : Nat) (hard : Problem) (soft : List Soft) (u : Asg)
    (hwH : hard.wf n = true) (hwS : softWf n soft = true) (hnn : softNonneg soft = true)
    (hwt : weightsNonneg soft = true) (hopt : IsMaxSatOpt hard soft u) :
    IsOptimum (encode n hard soft).1 (encode n hard soft).2 (extend n u soft) := by
  have ⟨c1, c2, _⟩ := encoding_complete n hard soft u hwH hwS hnn hopt.1
  refine ⟨c1, ?_⟩
  intro b hb
  have ⟨s1, s2⟩ := encoding_sound n hard soft b hwt hb
  have := hopt.2 b s1
  omega

/-- Unsatisfiability transfers (the `cost == -1` / `nil` model answer of `Solve`). -/
theorem encoded_unsat_iff (n : Nat) (hard : Problem) (soft : List Soft)
    (hwH : hard.wf n = true) (hwS : softWf n soft = true) (hnn : softNonneg soft = true) :
    ¬ Satisfiable (encode n hard soft).1 ↔ ¬ Satisfiable hard :=
  not_congr (encoded_sat_iff n hard soft hwH hwS hnn)

/-- hypotheses of the transfer theorems met by a non-trivial instance: hard `x1 ∨ x2`,
    soft `¬x1` (weight 3), soft cardinality `x1 + x2 + x3 ≥ 2` (weight 2), soft PB
    `2·x1 + 3·¬x3 ≥ 3` (weight 1). -/
example :
    let hard : Problem := [Lin.ofClause [1, 2]]
    let soft : List Soft := [⟨3, Lin.ofClause [-1]⟩, ⟨2, Lin.ofCard [1, 2, 3] 2⟩, ⟨1, ⟨[(2, 1), (3, -3)], 3⟩⟩]
    hard.wf 3 = true ∧ softWf 3 soft = true ∧ softNonneg soft = true ∧ weightsNonneg soft = true ∧
    encode 3 hard soft =
      ([⟨[(1, 1), (1, 2)], 1⟩, ⟨[(1, -1), (1, 4)], 1⟩, ⟨[(1, 1), (1, 2), (1, 3), (2, 5)], 2⟩,
        ⟨[(2, 1), (3, -3), (3, 6)], 3⟩], [(3, 4), (2, 5), (1, 6)]) := by decide

/-! ### the three hypotheses are necessary: witnesses -/

/-- Negative coefficient: hard `¬x1`, `x2`; soft `2·x1 − x2 ≥ 1` (weight 1). The hard part is
    satisfiable (MaxSAT optimum: cost 1) but the encoded problem is not: `encoded_sat_iff`
    fails without `softNonneg`. -/
example :
    let hard : Problem := [Lin.ofClause [-1], Lin.ofClause [2]]
    let soft : List Soft := [⟨1, ⟨[(2, 1), (-1, 2)], 1⟩⟩]
    bruteMaxSat 2 hard soft = some 1 ∧ bruteSat 3 (encode 2 hard soft).1 = false := by decide

/-- Negative weight: soft `x1` of weight `-1`. `x1 = true, b = true` is an optimum of the
    encoded problem (cost `-1`) but violates weight `0`, whereas the minimum is `-1`. -/
example :
    let soft : List Soft := [⟨-1, Lin.ofClause [1]⟩]
    let a : Asg := asgOf [true, true]
    Problem.holds a (encode 1 [] soft).1 = true ∧ cost (encode 1 [] soft).2 a = -1 ∧
    bruteOpt 2 (encode 1 [] soft).1 (encode 1 [] soft).2 = some (-1) ∧
    violated a soft = 0 ∧ bruteMaxSat 1 [] soft = some (-1) := by decide

/-- Literal outside `1..n` (declared `n = 1`, hard clause `x2`, soft clause `x1`): the relax
    variable `n+1 = 2` collides with the user's `x2`; encoded optimum `1`, true optimum `0`. -/
example :
    let hard : Problem := [Lin.ofClause [2]]
    let soft : List Soft := [⟨1, Lin.ofClause [1]⟩]
    bruteOpt 2 (encode 1 hard soft).1 (encode 1 hard soft).2 = some 1 ∧
    bruteMaxSat 2 hard soft = some 0 := by decide

/-! ### `trim_model`: cutting the model at `firstRelax = n` -/

theorem restrict_eq_take : ∀ (n : Nat) (m : List Bool) (k : Nat), k + n ≤ m.length →
    restrict (asgOf m) (k + 1) n = (m.drop k).take n := by
  intro n
  induction n with
  | zero => intro m k _; simp [restrict]
  | succ n ih =>
    intro m k h
    have hk : k < m.length := by omega
    rw [List.drop_eq_getElem_cons hk]
    simp only [restrict, List.take_succ_cons]
    rw [ih m (k + 1) (by omega)]
    congr 1
    simp [asgOf, List.getD_eq_getElem?_getD, hk]

/-- **No leak, no loss.** For a model list `m` (value of variable `v` at index `v-1`, as
    `solver.Model()` / `Result.Model`) over at least `n` variables, the first `n` values are
    *exactly* the values of the user's variables `1..n`: the trimmed list has length `n`, it
    reads back every user variable unchanged, and it is a function of the user's variables of
    `m` alone (it is `restrict (asgOf m) 1 n`), so no relaxation variable is in it. -/
theorem trim_model (n : Nat) (m : List Bool) (h : n ≤ m.length) :
    m.take n = restrict (asgOf m) 1 n ∧ (m.take n).length = n ∧
    (∀ v, 1 ≤ v → v ≤ n → asgOf (m.take n) v = asgOf m v) ∧
    (∀ v, n < v → asgOf (m.take n) v = false) := by
  have h0 := restrict_eq_take n m 0 (by omega)
  simp only [List.drop_zero, Nat.zero_add] at h0
  refine ⟨h0.symm, by simp [h], ?_, ?_⟩
  · intro v h1 h2
    rw [← h0]; exact asgOf_restrict (asgOf m) n v h1 h2
  · intro v hv
    cases v with
    | zero => rfl
    | succ v =>
      simp only [asgOf]
      rw [List.getD_eq_getElem?_getD, List.getElem?_eq_none (by simp; omega)]
      rfl

/-- Two model lists that agree on the user's variables are trimmed to the same list: the
    trimmed answer carries no information about the relaxation variables. -/
theorem trim_model_no_leak (n : Nat) (m m' : List Bool) (h : n ≤ m.length) (h' : n ≤ m'.length)
    (hag : ∀ v, 1 ≤ v → v ≤ n → asgOf m v = asgOf m' v) : m.take n = m'.take n := by
  rw [(trim_model n m h).1, (trim_model n m' h').1]
  have : ∀ (len k : Nat), (∀ v, k ≤ v → v < k + len → asgOf m v = asgOf m' v) →
      restrict (asgOf m) k len = restrict (asgOf m') k len := by
    intro len
    induction len with
    | zero => intro k _; rfl
    | succ len ih =>
      intro k hk
      simp only [restrict]
      rw [hk k (by omega) (by omega), ih (k + 1) (fun v h1 h2 => hk v (by omega) (by omega))]
  exact this n 1 (fun v h1 h2 => hag v h1 (by omega))

example : ([true, false, true, true, false] : List Bool).take 3 = restrict (asgOf [true, false, true, true, false]) 1 3 := by decide

/-- **The answer of `Optimal` / `Solve`.** If the model list `m` returned by the optimiser is an
    optimum of the encoded problem, the trimmed list `m[:n]` has length `n` and is a MaxSAT
    optimum, and the reported cost is the weight it violates (= the minimum). -/
theorem trimmed_answer (n : Nat) (hard : Problem) (soft : List Soft) (m : List Bool)
    (hwH : hard.wf n = true) (hwS : softWf n soft = true) (hnn : softNonneg soft = true)
    (hwt : weightsNonneg soft = true) (hlen : n ≤ m.length)
    (hopt : IsOptimum (encode n hard soft).1 (encode n hard soft).2 (asgOf m)) :
    (m.take n).length = n ∧ IsMaxSatOpt hard soft (asgOf (m.take n)) ∧
    cost (encode n hard soft).2 (asgOf m) = violated (asgOf (m.take n)) soft := by
  have ⟨_, hl, hag, _⟩ := trim_model n m hlen
  have ⟨h1, h2, _⟩ := optimum_transfer n hard soft (asgOf m) (asgOf (m.take n)) hwH hwS hnn hwt hopt hag
  exact ⟨hl, h1, h2⟩

/-! ### `ParseWCNF`: the literal mirror `wcnfEncode` is `encode` of the hard / soft split -/

theorem relax_ofClause (c : List Int) (b : Int) : Lin.ofClause (c ++ [b]) = relax (Lin.ofClause c) b := by
  simp [Lin.ofClause, relax]

/-- The clause list built by the loop of `ParseWCNF` has the models of
    hard clauses ∧ relaxed soft clauses (the two kinds are interleaved in the file). -/
theorem wcnfGo_holds (a : Asg) (top : Int) : ∀ (cls : List (Int × List Int)) (k : Nat),
    Problem.holds a (Problem.ofCnf (wcnfGo top k cls).1) =
      (Problem.holds a (Problem.ofCnf (wcnfHard top cls)) &&
        Problem.holds a (relaxFrom k (wcnfSoft top cls))) := by
  intro cls
  induction cls with
  | nil => intro k; simp [wcnfGo, wcnfHard, wcnfSoft, relaxFrom, Problem.ofCnf, Problem.holds]
  | cons wc cls ih =>
    intro k
    obtain ⟨w, c⟩ := wc
    by_cases h : top = 0 ∨ w < top
    · have := ih (k + 1)
      simp only [Problem.holds, Problem.ofCnf] at this ⊢
      simp only [wcnfGo, wcnfHard, wcnfSoft, h, if_true, decide_true, Bool.not_true,
        List.filter_cons, Bool.false_eq_true, if_false, List.map_cons, relaxFrom, List.all_cons,
        relax_ofClause] at this ⊢
      rw [this]
      cases (relax (Lin.ofClause c) (k : Int)).holds a <;> simp
    · have := ih k
      simp only [Problem.holds, Problem.ofCnf] at this ⊢
      simp only [wcnfGo, wcnfHard, wcnfSoft, h, if_false, decide_false, Bool.not_false,
        List.filter_cons, if_true, Bool.false_eq_true, List.map_cons, List.all_cons] at this ⊢
      rw [this, Bool.and_assoc]

theorem wcnfGo_weights (top : Int) : ∀ (cls : List (Int × List Int)) (k : Nat),
    (wcnfGo top k cls).2.1 = (wcnfSoft top cls).map (·.weight) ∧
    (wcnfGo top k cls).2.2 = k + (wcnfSoft top cls).length := by
  intro cls
  induction cls with
  | nil => intro k; simp [wcnfGo, wcnfSoft]
  | cons wc cls ih =>
    intro k
    obtain ⟨w, c⟩ := wc
    by_cases h : top = 0 ∨ w < top
    · have := ih (k + 1)
      simp only [wcnfGo, wcnfSoft, h, if_true, decide_true, List.filter_cons, List.map_cons,
        List.length_cons] at this ⊢
      refine ⟨by rw [this.1], by rw [this.2]; omega⟩
    · have := ih k
      simp only [wcnfGo, wcnfSoft, h, if_false, decide_false, List.filter_cons,
        Bool.false_eq_true] at this ⊢
      exact this

theorem costFrom_eq_zip : ∀ (ss : List Soft) (k : Nat),
    costFrom k ss = (ss.map (·.weight)).zip ((List.range ss.length).map (fun i => ((k + i : Nat) : Int))) := by
  intro ss
  induction ss with
  | nil => intro k; simp [costFrom]
  | cons s ss ih =>
    intro k
    simp only [costFrom, List.map_cons, List.length_cons, List.range_succ_eq_map, List.zip_cons_cons,
      Nat.add_zero, List.map_map, ih (k + 1)]
    congr 2
    apply List.map_congr_left
    intro i _
    simp only [Function.comp]
    congr 1; omega

/-- **`wcnfEncode` is `encode`** of (hard clauses, soft clauses): same models, literally the same
    cost function, `nbVars` = declared variables + one relax variable per soft clause,
    `firstRelax` = declared variables. -/
theorem wcnfEncode_eq (n : Nat) (top : Int) (cls : List (Int × List Int)) :
    (∀ a, Problem.holds a (Problem.ofCnf (wcnfEncode n top cls).clauses) =
      Problem.holds a (encode n (Problem.ofCnf (wcnfHard top cls)) (wcnfSoft top cls)).1) ∧
    (wcnfEncode n top cls).costFn = (encode n (Problem.ofCnf (wcnfHard top cls)) (wcnfSoft top cls)).2 ∧
    (wcnfEncode n top cls).nbVars = n + (wcnfSoft top cls).length ∧
    (wcnfEncode n top cls).firstRelax = n := by
  have hw := wcnfGo_weights top cls (n + 1)
  refine ⟨?_, ?_, ?_, rfl⟩
  · intro a
    have := wcnfGo_holds a top cls (n + 1)
    simp only [wcnfEncode, encode]
    rw [this]
    simp [Problem.holds, List.all_append]
  · simp only [wcnfEncode, encode, hw.1, hw.2, relaxLits, costFrom_eq_zip]
    have hk : n + 1 + (wcnfSoft top cls).length - n - 1 = (wcnfSoft top cls).length := by omega
    rw [hk]
    congr 2
    funext i; congr 1; omega
  · simp only [wcnfEncode, hw.2]; omega

theorem isOptimum_congr (p q : Problem) (f : List (Int × Int)) (a : Asg)
    (h : ∀ b, Problem.holds b p = Problem.holds b q) : IsOptimum p f a ↔ IsOptimum q f a := by
  unfold IsOptimum
  rw [h a]
  constructor
  · rintro ⟨h1, h2⟩; exact ⟨h1, fun b hb => h2 b (by rw [h b]; exact hb)⟩
  · rintro ⟨h1, h2⟩; exact ⟨h1, fun b hb => h2 b (by rw [← h b]; exact hb)⟩

/-- Every clause of the instance is over the declared variables `1..n`. -/
def wcnfWf (n : Nat) (cls : List (Int × List Int)) : Bool := cls.all (fun wc => clauseWf n wc.2)

theorem ofClause_wf (n : Nat) (c : List Int) : (Lin.ofClause c).wf n = clauseWf n c := by
  simp [Lin.ofClause, Lin.wf, clauseWf, List.all_map, Function.comp_def]

theorem wcnf_hyps (n : Nat) (top : Int) (cls : List (Int × List Int)) (h : wcnfWf n cls = true) :
    (Problem.ofCnf (wcnfHard top cls)).wf n = true ∧ softWf n (wcnfSoft top cls) = true ∧
    softNonneg (wcnfSoft top cls) = true := by
  unfold wcnfWf at h
  rw [List.all_eq_true] at h
  refine ⟨?_, ?_, ?_⟩
  · unfold Problem.wf Problem.ofCnf wcnfHard
    rw [List.all_eq_true]
    intro l hl
    simp only [List.mem_map, List.mem_filter] at hl
    obtain ⟨c, ⟨wc, ⟨hwc, _⟩, rfl⟩, rfl⟩ := hl
    rw [ofClause_wf]; exact h wc hwc
  · unfold softWf wcnfSoft
    rw [List.all_eq_true]
    intro s hs
    simp only [List.mem_map, List.mem_filter] at hs
    obtain ⟨wc, ⟨hwc, _⟩, rfl⟩ := hs
    simp only [ofClause_wf]; exact h wc hwc
  · unfold softNonneg wcnfSoft
    rw [List.all_eq_true]
    intro s hs
    simp only [List.mem_map, List.mem_filter] at hs
    obtain ⟨wc, _, rfl⟩ := hs
    simp [termsNonneg, Lin.ofClause]

/-- **`ParseWCNF` + `Optimal`.** For a WCNF instance over the declared variables with
    non-negative soft weights: if the optimiser's model list `m` is an optimum of what `ParseWCNF`
    built, then `m[:firstRelax]` has exactly `n` values, is a MaxSAT optimum of the instance
    (hard = weight ≥ top, soft = the others), and the reported cost is the minimal violated
    weight. Clauses need no coefficient hypothesis (their coefficients are 1). -/
theorem wcnf_answer (n : Nat) (top : Int) (cls : List (Int × List Int)) (m : List Bool)
    (hwf : wcnfWf n cls = true) (hwt : weightsNonneg (wcnfSoft top cls) = true)
    (hlen : n ≤ m.length)
    (hopt : IsOptimum (Problem.ofCnf (wcnfEncode n top cls).clauses) (wcnfEncode n top cls).costFn (asgOf m)) :
    let t := m.take (wcnfEncode n top cls).firstRelax
    t.length = n ∧ IsMaxSatOpt (Problem.ofCnf (wcnfHard top cls)) (wcnfSoft top cls) (asgOf t) ∧
    cost (wcnfEncode n top cls).costFn (asgOf m) = violated (asgOf t) (wcnfSoft top cls) := by
  have ⟨e1, e2, _, e4⟩ := wcnfEncode_eq n top cls
  have ⟨w1, w2, w3⟩ := wcnf_hyps n top cls hwf
  rw [isOptimum_congr _ _ _ _ e1, e2] at hopt
  simp only [e4, e2]
  exact trimmed_answer n _ _ m w1 w2 w3 hwt hlen hopt

/-- The encoded WCNF problem is unsatisfiable iff the hard clauses are. -/
theorem wcnf_unsat_iff (n : Nat) (top : Int) (cls : List (Int × List Int)) (hwf : wcnfWf n cls = true) :
    ¬ Satisfiable (Problem.ofCnf (wcnfEncode n top cls).clauses) ↔
    ¬ Satisfiable (Problem.ofCnf (wcnfHard top cls)) := by
  have ⟨e1, _⟩ := wcnfEncode_eq n top cls
  have ⟨w1, w2, w3⟩ := wcnf_hyps n top cls hwf
  rw [← encoded_unsat_iff n _ _ w1 w2 w3]
  unfold Satisfiable
  simp only [e1]

/-- `p wcnf 3 4 10` / `10 1 2 0` / `3 -1 0` / `10 -2 3 0` / `2 -3 0`: two hard, two soft clauses. -/
example :
    let cls : List (Int × List Int) := [(10, [1, 2]), (3, [-1]), (10, [-2, 3]), (2, [-3])]
    wcnfWf 3 cls = true ∧ weightsNonneg (wcnfSoft 10 cls) = true ∧
    wcnfEncode 3 10 cls = ⟨[[1, 2], [-1, 4], [-2, 3], [-3, 5]], [(3, 4), (2, 5)], 5, 3⟩ := by decide

/-- without a top weight every clause is soft. -/
example : wcnfEncode 2 0 [(5, [1]), (1, [-1, 2])] = ⟨[[1, 3], [-1, 2, 4]], [(5, 3), (1, 4)], 4, 2⟩ := by decide

end GS.MaxSatEnc
