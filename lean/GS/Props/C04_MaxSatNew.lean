import GS.Props.C04_MaxSat
/-!
# C04 — the encoding with arbitrary fresh blocking variables (`maxsat.New`)

`maxsat.New` numbers a blocking variable `len(varInts)` at the moment its soft constraint is
visited, so blocking variables are interleaved with the user's variables. The theorems of
`GS.Props.C04_MaxSat` are re-proved here for `encodeWith bs hard soft`, where `bs` is *any* list
of blocking variables that are `≥ 1`, pairwise distinct, and occur in no hard or soft constraint
(`Fresh`). `Solve`'s projection on the variables whose name is not `""` is "forget the variables
in `bs`": `optimum_transfer_with` holds for every assignment that agrees with the optimiser's
model outside `bs`.
-/
namespace GS.MaxSatEnc
open GS

/-! ### a constraint does not mention variable `b` -/

def linAvoids (b : Nat) (c : Lin) : Bool := c.terms.all (fun t => t.2.natAbs != b)
def problemAvoids (b : Nat) (p : Problem) : Bool := p.all (linAvoids b)
def softAvoids (b : Nat) (ss : List Soft) : Bool := ss.all (fun s => linAvoids b s.c)

/-- The blocking variables are `≥ 1`, pairwise distinct, and fresh for `hard` and `soft`;
    there is one per soft constraint. -/
structure Fresh (bs : List Nat) (hard : Problem) (soft : List Soft) : Prop where
  len : bs.length = soft.length
  nodup : bs.Nodup
  pos : ∀ b ∈ bs, 1 ≤ b
  hard : ∀ b ∈ bs, problemAvoids b hard = true
  soft : ∀ b ∈ bs, softAvoids b soft = true

theorem litTrue_agree (a e : Asg) (l : Int) (h : a l.natAbs = e l.natAbs) : litTrue a l = litTrue e l := by
  unfold litTrue; rw [h]

theorem lhs_agree (a e : Asg) : ∀ ts : List (Int × Int),
    (∀ t ∈ ts, a t.2.natAbs = e t.2.natAbs) → lhs a ts = lhs e ts := by
  intro ts
  induction ts with
  | nil => intro _; rfl
  | cons t ts ih =>
    intro h
    simp only [lhs, termVal]
    rw [litTrue_agree a e t.2 (h t (by simp)), ih (fun t' ht' => h t' (by simp [ht']))]

/-- Assignment update. -/
def upd (e : Asg) (b : Nat) (x : Bool) : Asg := fun v => if v = b then x else e v

theorem lhs_upd (e : Asg) (b : Nat) (x : Bool) (ts : List (Int × Int))
    (h : ts.all (fun t => t.2.natAbs != b) = true) : lhs (upd e b x) ts = lhs e ts := by
  apply lhs_agree
  intro t ht
  rw [List.all_eq_true] at h
  have := h t ht
  simp only [bne_iff_ne, ne_eq] at this
  simp [upd, this]

theorem holds_upd (e : Asg) (b : Nat) (x : Bool) (c : Lin) (h : linAvoids b c = true) :
    c.holds (upd e b x) = c.holds e := by
  unfold Lin.holds; rw [lhs_upd e b x c.terms h]

theorem problem_holds_upd (e : Asg) (b : Nat) (x : Bool) : ∀ (p : Problem), problemAvoids b p = true →
    Problem.holds (upd e b x) p = Problem.holds e p := by
  intro p
  induction p with
  | nil => intro _; rfl
  | cons c p ih =>
    intro h
    unfold problemAvoids at h
    simp only [List.all_cons, Bool.and_eq_true] at h
    have := ih (by unfold problemAvoids; exact h.2)
    simp only [Problem.holds, List.all_cons] at this ⊢
    rw [holds_upd e b x c h.1, this]

theorem violated_upd (e : Asg) (b : Nat) (x : Bool) : ∀ (ss : List Soft), softAvoids b ss = true →
    violated (upd e b x) ss = violated e ss := by
  intro ss
  induction ss with
  | nil => intro _; rfl
  | cons s ss ih =>
    intro h
    unfold softAvoids at h
    simp only [List.all_cons, Bool.and_eq_true] at h
    simp only [violated]
    rw [holds_upd e b x s.c h.1, ih (by unfold softAvoids; exact h.2)]

/-! ### the extension -/

/-- `u` with the blocking variable of each soft constraint set to "violated by `u`". -/
def extendWith (u : Asg) : List Nat → List Soft → Asg
  | b :: bs, s :: ss => upd (extendWith u bs ss) b (!s.c.holds u)
  | _, _ => u

theorem extendWith_outside (u : Asg) : ∀ (bs : List Nat) (ss : List Soft) (v : Nat), v ∉ bs →
    extendWith u bs ss v = u v := by
  intro bs
  induction bs with
  | nil => intro ss v _; cases ss <;> rfl
  | cons b bs ih =>
    intro ss v hv
    cases ss with
    | nil => rfl
    | cons s ss =>
      simp only [List.mem_cons, not_or] at hv
      simp only [extendWith, upd, hv.1, if_false]
      exact ih ss v hv.2

theorem holds_extendWith (u : Asg) (bs : List Nat) (ss : List Soft) (c : Lin)
    (h : ∀ b ∈ bs, linAvoids b c = true) : c.holds (extendWith u bs ss) = c.holds u := by
  unfold Lin.holds
  rw [lhs_agree (extendWith u bs ss) u c.terms]
  intro t ht
  apply extendWith_outside
  intro hm
  have := h _ hm
  unfold linAvoids at this
  rw [List.all_eq_true] at this
  have := this t ht
  simp at this

theorem relaxWith_avoids (b : Nat) : ∀ (bs : List Nat) (ss : List Soft), b ∉ bs →
    softAvoids b ss = true → problemAvoids b (relaxWith bs ss) = true := by
  intro bs
  induction bs with
  | nil => intro ss _ _; cases ss <;> rfl
  | cons b' bs ih =>
    intro ss hb hs
    cases ss with
    | nil => rfl
    | cons s ss =>
      unfold softAvoids at hs
      simp only [List.all_cons, Bool.and_eq_true] at hs
      simp only [List.mem_cons, not_or] at hb
      simp only [relaxWith, problemAvoids, List.all_cons, Bool.and_eq_true]
      refine ⟨?_, ih ss hb.2 (by unfold softAvoids; exact hs.2)⟩
      have h1 := hs.1
      unfold linAvoids at h1 ⊢
      simp only [relax, List.all_append, h1, Bool.true_and, List.all_cons, List.all_nil, Bool.and_true,
        Int.natAbs_natCast, bne_iff_ne, ne_eq]
      exact fun h => hb.1 h.symm

theorem costWith_avoids (b : Nat) : ∀ (bs : List Nat) (ss : List Soft), b ∉ bs →
    (costWith bs ss).all (fun t => t.2.natAbs != b) = true := by
  intro bs
  induction bs with
  | nil => intro ss _; cases ss <;> rfl
  | cons b' bs ih =>
    intro ss hb
    cases ss with
    | nil => rfl
    | cons s ss =>
      simp only [List.mem_cons, not_or] at hb
      simp only [costWith, List.all_cons, Bool.and_eq_true, Int.natAbs_natCast, bne_iff_ne, ne_eq]
      exact ⟨fun h => hb.1 h.symm, ih ss hb.2⟩

theorem complete_with_aux (u : Asg) : ∀ (bs : List Nat) (ss : List Soft),
    bs.length = ss.length → bs.Nodup → (∀ b ∈ bs, 1 ≤ b) → (∀ b ∈ bs, softAvoids b ss = true) →
    softNonneg ss = true →
    Problem.holds (extendWith u bs ss) (relaxWith bs ss) = true ∧
    cost (costWith bs ss) (extendWith u bs ss) = violated u ss := by
  intro bs
  induction bs with
  | nil =>
    intro ss hl _ _ _ _
    cases ss with
    | nil => simp [relaxWith, costWith, Problem.holds, cost, lhs, violated]
    | cons s ss => simp at hl
  | cons b bs ih =>
    intro ss hl hnd hpos hav hnn
    cases ss with
    | nil => simp at hl
    | cons s ss =>
      rw [List.nodup_cons] at hnd
      unfold softNonneg at hnn
      simp only [List.all_cons, Bool.and_eq_true] at hnn
      have havb := hav b (by simp)
      unfold softAvoids at havb
      simp only [List.all_cons, Bool.and_eq_true] at havb
      have hav' : ∀ b' ∈ bs, softAvoids b' ss = true := by
        intro b' hb'
        have := hav b' (by simp [hb'])
        unfold softAvoids at this ⊢
        simp only [List.all_cons, Bool.and_eq_true] at this
        exact this.2
      have havs : ∀ b' ∈ bs, linAvoids b' s.c = true := by
        intro b' hb'
        have := hav b' (by simp [hb'])
        unfold softAvoids at this
        simp only [List.all_cons, Bool.and_eq_true] at this
        exact this.1
      have ⟨ih1, ih2⟩ := ih ss (by simpa using hl) hnd.2 (fun b' hb' => hpos b' (by simp [hb']))
        hav' (by unfold softNonneg; exact hnn.2)
      -- value of the head constraint and of its blocking literal under the extension
      have hc : s.c.holds (extendWith u (b :: bs) (s :: ss)) = s.c.holds u := by
        simp only [extendWith]
        rw [holds_upd _ b _ s.c havb.1, holds_extendWith u bs ss s.c havs]
      have hlit : litTrue (extendWith u (b :: bs) (s :: ss)) (b : Int) = !s.c.holds u := by
        rw [litTrue_natCast _ b (hpos b (by simp))]
        simp [extendWith, upd]
      constructor
      · simp only [relaxWith, Problem.holds, List.all_cons, Bool.and_eq_true]
        constructor
        · rw [relax_sem _ s.c b hnn.1, hc, hlit]
          cases s.c.holds u <;> simp
        · have := problem_holds_upd (extendWith u bs ss) b (!s.c.holds u) (relaxWith bs ss)
            (relaxWith_avoids b bs ss hnd.1 (by unfold softAvoids; exact havb.2))
          simp only [Problem.holds] at this ih1
          simp only [extendWith]
          rw [this]; exact ih1
      · unfold cost at ih2 ⊢
        simp only [costWith, lhs, termVal, violated, hlit]
        have : lhs (extendWith u (b :: bs) (s :: ss)) (costWith bs ss) = lhs (extendWith u bs ss) (costWith bs ss) := by
          simp only [extendWith]
          exact lhs_upd _ b _ _ (costWith_avoids b bs ss hnd.1)
        rw [this, ih2]
        cases s.c.holds u <;> simp

/-- **Completeness** for arbitrary fresh blocking variables. -/
theorem encoding_complete_with (bs : List Nat) (hard : Problem) (soft : List Soft) (u : Asg)
    (hf : Fresh bs hard soft) (hnn : softNonneg soft = true) (hu : Problem.holds u hard = true) :
    Problem.holds (extendWith u bs soft) (encodeWith bs hard soft).1 = true ∧
    cost (encodeWith bs hard soft).2 (extendWith u bs soft) = violated u soft ∧
    (∀ v, v ∉ bs → extendWith u bs soft v = u v) := by
  have ⟨h1, h2⟩ := complete_with_aux u bs soft hf.len hf.nodup hf.pos hf.soft hnn
  refine ⟨?_, h2, extendWith_outside u bs soft⟩
  simp only [encodeWith, Problem.holds, List.all_append, Bool.and_eq_true]
  refine ⟨?_, h1⟩
  rw [List.all_eq_true]
  intro c hc
  rw [holds_extendWith u bs soft c]
  · unfold Problem.holds at hu
    rw [List.all_eq_true] at hu
    exact hu c hc
  · intro b hb
    have := hf.hard b hb
    unfold problemAvoids at this
    rw [List.all_eq_true] at this
    exact this c hc

theorem sound_with_aux (a : Asg) : ∀ (bs : List Nat) (ss : List Soft), bs.length = ss.length →
    weightsNonneg ss = true → Problem.holds a (relaxWith bs ss) = true →
    violated a ss ≤ cost (costWith bs ss) a := by
  intro bs
  induction bs with
  | nil =>
    intro ss hl _ _
    cases ss with
    | nil => simp [costWith, cost, lhs, violated]
    | cons s ss => simp at hl
  | cons b bs ih =>
    intro ss hl hw hm
    cases ss with
    | nil => simp at hl
    | cons s ss =>
      unfold weightsNonneg at hw
      simp only [List.all_cons, Bool.and_eq_true, decide_eq_true_eq] at hw
      simp only [relaxWith, Problem.holds, List.all_cons, Bool.and_eq_true] at hm
      have ih' := ih ss (by simpa using hl) (by unfold weightsNonneg; exact hw.2) hm.2
      unfold cost at ih' ⊢
      simp only [costWith, lhs, termVal, violated]
      have hw1 := hw.1
      rcases relax_sound a s.c b hm.1 with h | h
      · simp only [h, if_true]
        split <;> omega
      · simp only [h, if_true]
        split <;> omega

/-- **Soundness** for arbitrary blocking variables (only the weights matter). -/
theorem encoding_sound_with (bs : List Nat) (hard : Problem) (soft : List Soft) (a : Asg)
    (hl : bs.length = soft.length) (hwt : weightsNonneg soft = true)
    (ha : Problem.holds a (encodeWith bs hard soft).1 = true) :
    Problem.holds a hard = true ∧ violated a soft ≤ cost (encodeWith bs hard soft).2 a := by
  simp only [encodeWith, Problem.holds, List.all_append, Bool.and_eq_true] at ha
  exact ⟨ha.1, sound_with_aux a bs soft hl hwt ha.2⟩

/-- Two assignments that differ only on blocking variables satisfy / violate the same
    user constraints. -/
theorem agree_outside (bs : List Nat) (hard : Problem) (soft : List Soft) (a u : Asg)
    (hf : Fresh bs hard soft) (hu : ∀ v, v ∉ bs → u v = a v) :
    Problem.holds u hard = Problem.holds a hard ∧ violated u soft = violated a soft := by
  have key : ∀ c : Lin, (∀ b ∈ bs, linAvoids b c = true) → c.holds u = c.holds a := by
    intro c hc
    unfold Lin.holds
    rw [lhs_agree u a c.terms]
    intro t ht
    apply hu
    intro hm
    have := hc _ hm
    unfold linAvoids at this
    rw [List.all_eq_true] at this
    have := this t ht
    simp at this
  constructor
  · unfold Problem.holds
    apply Bool.eq_iff_iff.2
    simp only [List.all_eq_true]
    have hk : ∀ c ∈ hard, c.holds u = c.holds a := by
      intro c hc
      apply key
      intro b hb
      have := hf.hard b hb
      unfold problemAvoids at this
      rw [List.all_eq_true] at this
      exact this c hc
    constructor
    · intro h c hc; rw [← hk c hc]; exact h c hc
    · intro h c hc; rw [hk c hc]; exact h c hc
  · have hs : ∀ s ∈ soft, ∀ b ∈ bs, linAvoids b s.c = true := by
      intro s hs b hb
      have := hf.soft b hb
      unfold softAvoids at this
      rw [List.all_eq_true] at this
      exact this s hs
    clear hf
    induction soft with
    | nil => rfl
    | cons s ss ih =>
      simp only [violated]
      rw [key s.c (hs s (by simp)), ih (fun s' hs' => hs s' (by simp [hs']))]

/-- **Transfer** for `maxsat.New`: if `a` is an optimum of the encoded problem, every
    assignment `u` that agrees with `a` outside the blocking variables (the projection computed
    by `Solve`: names `≠ ""`) is a MaxSAT optimum, and the optimal cost is the weight it
    violates, which is the minimum over all models of `hard`. -/
theorem optimum_transfer_with (bs : List Nat) (hard : Problem) (soft : List Soft) (a u : Asg)
    (hf : Fresh bs hard soft) (hnn : softNonneg soft = true) (hwt : weightsNonneg soft = true)
    (hopt : IsOptimum (encodeWith bs hard soft).1 (encodeWith bs hard soft).2 a)
    (hu : ∀ v, v ∉ bs → u v = a v) :
    IsMaxSatOpt hard soft u ∧ cost (encodeWith bs hard soft).2 a = violated u soft ∧
    (∀ b, Problem.holds b hard = true → cost (encodeWith bs hard soft).2 a ≤ violated b soft) := by
  obtain ⟨hm, hmin⟩ := hopt
  have ⟨hh, hle⟩ := encoding_sound_with bs hard soft a hf.len hwt hm
  have ⟨e1, e2⟩ := agree_outside bs hard soft a u hf hu
  have hall : ∀ b, Problem.holds b hard = true → cost (encodeWith bs hard soft).2 a ≤ violated b soft := by
    intro b hb
    have ⟨c1, c2, _⟩ := encoding_complete_with bs hard soft b hf hnn hb
    have := hmin _ c1
    omega
  have heq : cost (encodeWith bs hard soft).2 a = violated u soft := by
    have := hall a hh
    omega
  refine ⟨⟨by rw [e1]; exact hh, ?_⟩, heq, hall⟩
  intro b hb
  have := hall b hb
  omega

theorem encoded_with_unsat_iff (bs : List Nat) (hard : Problem) (soft : List Soft)
    (hf : Fresh bs hard soft) (hnn : softNonneg soft = true) :
    ¬ Satisfiable (encodeWith bs hard soft).1 ↔ ¬ Satisfiable hard := by
  apply not_congr
  constructor
  · rintro ⟨a, ha⟩
    simp only [encodeWith, Problem.holds, List.all_append, Bool.and_eq_true] at ha
    exact ⟨a, ha.1⟩
  · rintro ⟨u, hu⟩
    exact ⟨_, (encoding_complete_with bs hard soft u hf hnn hu).1⟩

/-- `encode` is the instance `bs = [n+1, …, n+k]`. -/
theorem encode_eq_encodeWith (n : Nat) (hard : Problem) (soft : List Soft) :
    encode n hard soft = encodeWith ((List.range soft.length).map (n + 1 + ·)) hard soft := by
  have h : ∀ (ss : List Soft) (k : Nat),
      relaxFrom k ss = relaxWith ((List.range ss.length).map (k + ·)) ss ∧
      costFrom k ss = costWith ((List.range ss.length).map (k + ·)) ss := by
    intro ss
    induction ss with
    | nil => intro k; simp [relaxFrom, relaxWith, costFrom, costWith]
    | cons s ss ih =>
      intro k
      have hr : (List.range ss.length).map (fun x => k + (x + 1)) = (List.range ss.length).map (k + 1 + ·) := by
        apply List.map_congr_left; intro i _; omega
      simp only [relaxFrom, costFrom, List.length_cons, List.range_succ_eq_map, List.map_cons,
        List.map_map, Function.comp_def, Nat.add_zero, relaxWith, costWith, Nat.succ_eq_add_one,
        hr, (ih (k + 1)).1, (ih (k + 1)).2, and_self]
  simp only [encode, encodeWith, (h soft (n + 1)).1, (h soft (n + 1)).2]

/-- What `New(x∨y hard, ¬x soft w=3, x+y+z ≥ 2 soft w=2)` builds: `x=1, y=2`, blocking `3`,
    `z=4`, blocking `5`. The blocking variables `[3, 5]` are fresh for the renamed instance. -/
example :
    let hard : Problem := [Lin.ofClause [1, 2]]
    let soft : List Soft := [⟨3, Lin.ofClause [-1]⟩, ⟨2, Lin.ofCard [1, 2, 4] 2⟩]
    ([3, 5] : List Nat).Nodup ∧ (∀ b ∈ ([3, 5] : List Nat), 1 ≤ b ∧ problemAvoids b hard = true ∧ softAvoids b soft = true) ∧
    encodeWith [3, 5] hard soft =
      ([⟨[(1, 1), (1, 2)], 1⟩, ⟨[(1, -1), (1, 3)], 1⟩, ⟨[(1, 1), (1, 2), (1, 4), (2, 5)], 2⟩], [(3, 3), (2, 5)]) := by
  decide

/-- The loop mirror `newGo` on `New(x1∨x2, ¬x1 (w 3), x1+x2+x3 ≥ 2 (w 2), 2·x1+3·¬x3 ≥ 3 (w 1), x4)`:
    same numbering and constraints as `pb.Output()` prints on the Go side
    (`varInts = 1 2 "" 3 "" "" 4`), and the result is `encodeWith [3, 5, 6]` of the renamed
    instance with hard and soft constraints interleaved. -/
example :
    let st := newGo [⟨[1, 2], [], 1, 0⟩, ⟨[-1], [], 1, 3⟩, ⟨[1, 2, 3], [], 2, 2⟩, ⟨[1, -3], [2, 3], 3, 1⟩, ⟨[4], [1], 1, 0⟩]
    st.varInts = [1, 2, 0, 3, 0, 0, 4] ∧ st.costFn = [(3, 3), (2, 5), (1, 6)] ∧
    st.constrs.mapM GoConstr.toLin = some
      [⟨[(1, 1), (1, 2)], 1⟩, ⟨[(1, -1), (1, 3)], 1⟩, ⟨[(1, 1), (1, 2), (1, 4), (2, 5)], 2⟩,
       ⟨[(2, 1), (3, -4), (3, 6)], 3⟩, ⟨[(1, 7)], 1⟩] ∧
    st.costFn = (encodeWith [3, 5, 6] [] [⟨3, Lin.ofClause [-1]⟩, ⟨2, Lin.ofCard [1, 2, 4] 2⟩, ⟨1, ⟨[(2, 1), (3, -4)], 3⟩⟩]).2 := by
  decide

end GS.MaxSatEnc
