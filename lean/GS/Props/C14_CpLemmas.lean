import GS.Model.CpAnalyze
import GS.Props.C14_Learned
/-!
# C14 — lemmas for `GS.Props.C14_CpAnalyze` (arithmetic of the invariant, model updates, trail invariant)

`GS.Model.CpAnalyze` mirrors the function line by line. Here: under the executable trail
invariant `cpInv`, the pbSet that reaches `pb.clause().SimplifyPB()` is `Derivable` from the
problem/learned constraints `prob` (each `roundToOne` is applied under `roundSafe`, discharged
from "the resolvent is conflicting under the current model" resp. "the reason propagates its
literal"), hence every answer is a consequence of `prob`.
-/
namespace GS.Cp
open GS

/-! ## 0. Glue with the existing Props vocabulary -/

theorem clauseTerms_eq (k : Nat) (ws : List Int) : clauseTerms k ws = PbSet.termsFrom k ws := by
  induction ws generalizing k with
  | nil => rfl
  | cons w ws ih => simp only [clauseTerms, PbSet.termsFrom, ih]

theorem insTerm_perm (t : Int × Int) (us : List (Int × Int)) : (insTerm t us).Perm (t :: us) := by
  induction us with
  | nil => exact List.Perm.refl _
  | cons u us ih =>
    simp only [insTerm]
    split
    · exact List.Perm.refl _
    · exact (List.Perm.cons u ih).trans (List.Perm.swap t u us)

theorem sortTerms_perm (ts : List (Int × Int)) : (sortTerms ts).Perm ts := by
  induction ts with
  | nil => exact List.Perm.refl _
  | cons t ts ih =>
    show (insTerm t (sortTerms ts)).Perm (t :: ts)
    exact (insTerm_perm t _).trans (List.Perm.cons t ih)

theorem freeSumB_eq (m : List Int) (excl : Nat → Bool) (j : Nat) (ws : List Int) :
    freeSumB m excl j ws = freeSum m excl j ws := by
  induction ws generalizing j with
  | nil => rfl
  | cons w ws ih =>
    simp only [freeSumB, freeSum, nonFalsified, ih]
    congr 1

theorem pbWeights_length (n : Nat) (ts : List (Int × Int)) : (pbWeights n ts).length = n := by
  induction ts with
  | nil => simp [pbWeights]
  | cons t ts ih => simp [pbWeights, ih]

theorem pbOf_length (n : Nat) (c : Lin) : (pbOf n c).weights.length = n := pbWeights_length n _

theorem modelOfR_length (n : Nat) (rt : List Entry) : (modelOfR n rt).length = n := by
  induction rt with
  | nil => simp [modelOfR]
  | cons e rt ih => simp [modelOfR, ih]

/-! ## 1. `roundToOne` keeps a conflicting / propagating constraint conflicting / propagating -/

/-- contribution of one position to `freeSum` -/
def fs1 (m : List Int) (e : Bool) (j : Nat) (w : Int) : Int :=
  if e = false ∧ nonFalsified m j w then iabs w else 0

theorem freeSum_cons (m : List Int) (excl : Nat → Bool) (j : Nat) (w : Int) (ws : List Int) :
    freeSum m excl j (w :: ws) = fs1 m (excl j) j w + freeSum m excl (j+1) ws := rfl

theorem nonFalsified_sign (m : List Int) (j : Nat) (w r : Int) (h1 : 0 < w ↔ 0 < r) :
    nonFalsified m j r ↔ nonFalsified m j w := by
  unfold nonFalsified
  have : decide (r > 0) = decide (w > 0) := by
    by_cases hw : 0 < w
    · have := h1.mp hw; simp [hw, this]
    · have : ¬ 0 < r := fun h => hw (h1.mpr h)
      simp [hw, this]
  rw [this]

theorem iabs_mul_pos (c r : Int) (hc : 0 < c) : iabs (c * r) = c * iabs r := by
  unfold iabs
  by_cases hr : r < 0
  · have : c * r < 0 := Int.mul_neg_of_pos_of_neg hc hr
    rw [if_pos this, if_pos hr, Int.mul_neg]
  · have : ¬ c * r < 0 := by
      have := Int.mul_nonneg (Int.le_of_lt hc) (Int.not_lt.mp hr)
      omega
    rw [if_neg this, if_neg hr]

/-- per position: weakening then dividing by `wi` divides the free weight exactly -/
theorem fs1_round (m : List Int) (wi : Int) (hwi : 0 < wi) (e : Bool) (j : Nat) (w : Int)
    (he : e = true → w.tmod wi = 0) :
    wi * fs1 m e j (divW wi (if weakenCond m wi j w then 0 else w))
      + (if weakenCond m wi j w then iabs w else 0) = fs1 m e j w := by
  by_cases hc : weakenCond m wi j w
  · rw [if_pos hc, if_pos hc]
    have he' : e = false := by
      cases e with
      | false => rfl
      | true => exact absurd (he rfl) hc.2.1
    have hnf : nonFalsified m j w := hc.2.2
    have : fs1 m e j (divW wi 0) = 0 := by
      unfold fs1; simp [divW, iabs]
    rw [this]
    unfold fs1
    rw [if_pos ⟨he', hnf⟩]; omega
  · rw [if_neg hc, if_neg hc]
    by_cases hw0 : w = 0
    · subst hw0
      unfold fs1; simp [divW, iabs]
    · obtain ⟨hp, hn, _⟩ := divW_spec wi w hwi
      have hsign : 0 < w ↔ 0 < divW wi w := by
        constructor
        · intro h; exact (hp h).1
        · intro h
          rcases Int.lt_trichotomy w 0 with h' | h' | h'
          · have := (hn h').1; omega
          · exact absurd h' hw0
          · exact h'
      have hnfiff := nonFalsified_sign m j w (divW wi w) hsign
      unfold fs1
      by_cases hcount : e = false ∧ nonFalsified m j w
      · rw [if_pos hcount, if_pos ⟨hcount.1, hnfiff.mpr hcount.2⟩]
        have hmod : w.tmod wi = 0 := by
          apply Classical.byContradiction
          intro hne
          exact hc ⟨hw0, hne, hcount.2⟩
        have hdm := Int.mul_tdiv_add_tmod w wi
        rw [hmod, Int.add_zero] at hdm
        have hd : divW wi w = w.tdiv wi := by
          unfold divW; rw [if_neg hw0, if_pos hmod]
        rw [hd, ← iabs_mul_pos wi _ hwi, hdm]; omega
      · rw [if_neg hcount]
        have : ¬ (e = false ∧ nonFalsified m j (divW wi w)) := fun h => hcount ⟨h.1, hnfiff.mp h.2⟩
        rw [if_neg this]; omega

theorem freeSum_round_aux (m : List Int) (wi : Int) (hwi : 0 < wi) (excl : Nat → Bool) (j : Nat)
    (ws : List Int) (hex : ∀ i, excl (j+i) = true → (ws.getD i 0).tmod wi = 0) :
    wi * freeSum m excl j ((weakenFrom m wi j ws).1.map (divW wi)) + (weakenFrom m wi j ws).2
      = freeSum m excl j ws := by
  induction ws generalizing j with
  | nil => simp [weakenFrom_nil, freeSum]
  | cons w ws ih =>
    have ih' := ih (j+1) (by
      intro i hi
      have := hex (i+1) (by rw [← hi]; congr 1; omega)
      simpa using this)
    have h0 := hex 0
    simp only [Nat.add_zero, List.getD_cons_zero] at h0
    have hel := fs1_round m wi hwi (excl j) j w h0
    rw [weakenFrom_cons]
    by_cases hc : weakenCond m wi j w
    · rw [if_pos hc] at hel ⊢
      simp only [List.map_cons, freeSum_cons, Int.mul_add]
      rw [if_pos hc] at hel
      omega
    · rw [if_neg hc] at hel ⊢
      simp only [List.map_cons, freeSum_cons, Int.mul_add]
      rw [if_neg hc] at hel
      omega

/-- the degree part: `wi·f < K` implies `f < ⌈K / wi⌉` (Go's `divideBy` on the degree) -/
theorem lt_divCard (wi f K : Int) (hwi : 0 < wi) (hf : 0 ≤ f) (h : wi * f < K) : f < divCard wi K := by
  have hdm := Int.mul_tdiv_add_tmod K wi
  have hK : 0 < K := by
    have := Int.mul_nonneg (Int.le_of_lt hwi) hf; omega
  have hr0 : 0 ≤ K.tmod wi := Int.tmod_nonneg wi (Int.le_of_lt hK)
  have hrc : K.tmod wi < wi := Int.tmod_lt_of_pos K hwi
  unfold divCard
  by_cases hm : K.tmod wi = 0
  · rw [if_pos hm]
    rw [hm, Int.add_zero] at hdm
    apply Int.lt_of_mul_lt_mul_left (a := wi) _ (Int.le_of_lt hwi)
    omega
  · rw [if_neg hm]
    have : f < K.tdiv wi + 1 := by
      apply Int.lt_of_mul_lt_mul_left (a := wi) _ (Int.le_of_lt hwi)
      rw [Int.mul_add, Int.mul_one]
      omega
    exact this

/-- **`roundToOne` preserves "free weight below the degree"** — with `excl = fun _ => false`:
    a conflicting constraint stays conflicting; with `excl = (· == locked)`: a constraint that
    propagates the literal at `locked` still does. -/
theorem round_freeSum (p q : PbSet) (m : List Int) (locked : Nat) (excl : Nat → Bool)
    (hex : ∀ i, excl i = true → (p.weights.getD i 0).tmod (iabs (p.weights.getD locked 0)) = 0)
    (h : freeSum m excl 0 p.weights < p.card)
    (hq : PbSet.roundToOne p m locked = some q) : freeSum m excl 0 q.weights < q.card := by
  rw [roundToOne_eq] at hq
  by_cases h1 : iabs (p.weights.getD locked 0) = 1
  · rw [if_pos h1] at hq; cases hq; exact h
  · rw [if_neg h1] at hq
    by_cases h0 : iabs (p.weights.getD locked 0) = 0
    · rw [if_pos h0] at hq; cases hq
    · rw [if_neg h0] at hq
      cases hq
      have hpos : 0 < iabs (p.weights.getD locked 0) := by
        have := iabs_nonneg (p.weights.getD locked 0); omega
      have haux := freeSum_round_aux m _ hpos excl 0 p.weights
        (by intro i hi; rw [Nat.zero_add] at hi; exact hex i hi)
      simp only [PbSet.divideBy, weakenedCard]
      apply lt_divCard _ _ _ hpos (freeSum_nonneg ..)
      omega

theorem round_conflict (p q : PbSet) (m : List Int) (locked : Nat)
    (h : freeSum m (fun _ => false) 0 p.weights < p.card)
    (hq : PbSet.roundToOne p m locked = some q) :
    freeSum m (fun _ => false) 0 q.weights < q.card :=
  round_freeSum p q m locked _ (by intro i hi; cases hi) h hq

theorem round_propagating (p q : PbSet) (m : List Int) (locked : Nat)
    (h : freeSum m (fun i => i == locked) 0 p.weights < p.card)
    (hq : PbSet.roundToOne p m locked = some q) :
    freeSum m (fun i => i == locked) 0 q.weights < q.card :=
  round_freeSum p q m locked _ (by intro i hi; simp at hi; subst hi; exact tmod_iabs_self _) h hq

/-! ## 2. `clash` with a rounded propagating reason keeps the resolvent conflicting -/

theorem fs1_false_eq (m : List Int) (j : Nat) (w : Int) :
    fs1 m false j w = if (modelAt m j = 0 ∨ (0 < modelAt m j ↔ 0 < w)) then iabs w else 0 := by
  unfold fs1 nonFalsified
  by_cases h : modelAt m j = 0 ∨ (0 < modelAt m j ↔ 0 < w)
  · rw [if_pos h, if_pos]
    refine ⟨rfl, ?_⟩
    rcases h with h | h
    · exact Or.inl h
    · right; simp only [gt_iff_lt, decide_eq_decide]; exact h
  · rw [if_neg h, if_neg]
    rintro ⟨_, h' | h'⟩
    · exact h (Or.inl h')
    · simp only [gt_iff_lt, decide_eq_decide] at h'; exact h (Or.inr h')

theorem fs1_nonneg (m : List Int) (e : Bool) (j : Nat) (w : Int) : 0 ≤ fs1 m e j w := by
  unfold fs1; have := iabs_nonneg w; split <;> omega

theorem fs1_le_iabs (m : List Int) (e : Bool) (j : Nat) (w : Int) : fs1 m e j w ≤ iabs w := by
  unfold fs1; have := iabs_nonneg w; split <;> omega

/-- one position of the cancelling addition: the free weight of the sum plus the correction is at
    most the sum of the free weights -/
theorem fs1_clash (m : List Int) (j : Nat) (w1 w2 : Int) :
    fs1 m false j (w1 + w2) + (if w1 * w2 < 0 then imin (iabs w1) (iabs w2) else 0)
      ≤ fs1 m false j w1 + fs1 m false j w2 := by
  simp only [fs1_false_eq]
  generalize modelAt m j = a
  by_cases h : w1 * w2 < 0
  · rw [if_pos h]
    rw [mul_neg_iff_signs] at h
    unfold imin iabs
    repeat' split
    all_goals omega
  · rw [if_neg h]
    rw [mul_neg_iff_signs] at h
    unfold iabs
    repeat' split
    all_goals omega

theorem freeSum_clash (m : List Int) (j : Nat) (l1 l2 : List Int) (hlen : l1.length = l2.length) :
    freeSum m (fun _ => false) j (List.zipWith (· + ·) l1 l2) + clashCorr l1 l2
      ≤ freeSum m (fun _ => false) j l1 + freeSum m (fun _ => false) j l2 := by
  induction l1 generalizing j l2 with
  | nil =>
    cases l2 with
    | nil => simp [freeSum, clashCorr]
    | cons _ _ => simp at hlen
  | cons w1 r1 ih =>
    cases l2 with
    | nil => simp at hlen
    | cons w2 r2 =>
      simp only [List.length_cons, Nat.add_right_cancel_iff] at hlen
      have h1 := ih (j+1) r2 hlen
      have h2 := fs1_clash m j w1 w2
      simp only [List.zipWith_cons_cons, freeSum_cons, clashCorr]
      omega

/-- weight of position `v`, as a sum over positions (to combine with `freeSum`) -/
def pick (v : Nat) : Nat → List Int → Int
  | _, [] => 0
  | j, w :: ws => (if j = v then iabs w else 0) + pick v (j+1) ws

theorem pick_eq (v : Nat) (ws : List Int) (j : Nat) :
    pick v j ws = if j ≤ v then iabs (ws.getD (v - j) 0) else 0 := by
  induction ws generalizing j with
  | nil => simp [pick, iabs]
  | cons w ws ih =>
    simp only [pick, ih]
    by_cases h1 : j = v
    · subst h1
      rw [if_pos rfl, if_neg (by omega : ¬ j + 1 ≤ j), if_pos (Nat.le_refl j), Nat.sub_self, List.getD_cons_zero]
      omega
    · by_cases h2 : j < v
      · have e : v - j = (v - (j+1)) + 1 := by omega
        rw [if_neg h1, if_pos (by omega : j + 1 ≤ v), if_pos (by omega : j ≤ v), e, List.getD_cons_succ]
        omega
      · rw [if_neg h1, if_neg (by omega), if_neg (by omega)]; omega

theorem freeSum_excl_le (m : List Int) (v : Nat) (j : Nat) (ws : List Int) :
    freeSum m (fun _ => false) j ws ≤ freeSum m (fun i => i == v) j ws + pick v j ws := by
  induction ws generalizing j with
  | nil => simp [freeSum, pick]
  | cons w ws ih =>
    have := ih (j+1)
    simp only [freeSum_cons, pick]
    by_cases h : j = v
    · subst h
      have h1 := fs1_le_iabs m false j w
      have h2 := fs1_nonneg m (j == j) j w
      rw [if_pos rfl]; omega
    · have : (j == v) = false := by simp [h]
      rw [this, if_neg h]; omega

/-- **the resolvent stays conflicting**: `p1` conflicting under `m`, `p2` propagating the literal
    at `v` under `m` with weight at most 1 there. -/
theorem clash_conflict (p1 p2 : PbSet) (m : List Int) (v : Nat)
    (hlen : p1.weights.length = p2.weights.length)
    (h1 : freeSum m (fun _ => false) 0 p1.weights < p1.card)
    (h2 : freeSum m (fun i => i == v) 0 p2.weights < p2.card)
    (hv : iabs (p2.weights.getD v 0) ≤ 1) :
    freeSum m (fun _ => false) 0 (PbSet.clash p1 p2).weights < (PbSet.clash p1 p2).card := by
  have hc := freeSum_clash m 0 p1.weights p2.weights hlen
  have he := freeSum_excl_le m v 0 p2.weights
  have hp := pick_eq v p2.weights 0
  simp only [Nat.zero_le, if_true, Nat.sub_zero] at hp
  simp only [PbSet.clash]
  omega

/-! ### the weight of the rounded variable is ±1 -/

theorem weakenFrom_getD (m : List Int) (wi : Int) (j : Nat) (ws : List Int) (i : Nat) :
    (weakenFrom m wi j ws).1.getD i 0 =
      if weakenCond m wi (j+i) (ws.getD i 0) then 0 else ws.getD i 0 := by
  induction ws generalizing j i with
  | nil => simp [weakenFrom_nil]
  | cons w ws ih =>
    rw [weakenFrom_cons]
    cases i with
    | zero =>
      by_cases hc : weakenCond m wi j w
      · simp [hc]
      · simp [hc]
    | succ i =>
      have := ih (j+1) i
      rw [show j + 1 + i = j + (i + 1) by omega] at this
      by_cases hc : weakenCond m wi j w
      · simp only [if_pos hc, List.getD_cons_succ]; exact this
      · simp only [if_neg hc, List.getD_cons_succ]; exact this

theorem getD_map_divW (c : Int) (ws : List Int) (i : Nat) :
    (ws.map (divW c)).getD i 0 = divW c (ws.getD i 0) := by
  simp only [List.getD_eq_getElem?_getD, List.getElem?_map]
  cases ws[i]? <;> simp [divW]

theorem divW_iabs_self (w : Int) (hw : w ≠ 0) : iabs (divW (iabs w) w) = 1 := by
  have hm := tmod_iabs_self w
  unfold divW
  rw [if_neg hw, if_pos hm]
  unfold iabs
  by_cases h : w < 0
  · simp only [if_pos h]
    rw [Int.tdiv_neg, Int.tdiv_self hw]; decide
  · simp only [if_neg h]
    rw [Int.tdiv_self hw]; decide

theorem round_locked (p q : PbSet) (m : List Int) (locked : Nat)
    (hq : PbSet.roundToOne p m locked = some q) : iabs (q.weights.getD locked 0) = 1 := by
  rw [roundToOne_eq] at hq
  by_cases h1 : iabs (p.weights.getD locked 0) = 1
  · rw [if_pos h1] at hq; cases hq; exact h1
  · rw [if_neg h1] at hq
    by_cases h0 : iabs (p.weights.getD locked 0) = 0
    · rw [if_pos h0] at hq; cases hq
    · rw [if_neg h0] at hq
      cases hq
      have hw : p.weights.getD locked 0 ≠ 0 := by
        intro h; rw [h] at h0; exact h0 (by decide)
      simp only [PbSet.divideBy]
      rw [getD_map_divW, weakenFrom_getD, if_neg]
      · exact divW_iabs_self _ hw
      · intro hc; exact hc.2.1 (tmod_iabs_self _)

/-! ## 3. The model carried through the walk -/

theorem modelAt_set_ne (m : List Int) (v j : Nat) (x : Int) (h : j ≠ v) :
    modelAt (m.set v x) j = modelAt m j := by
  unfold modelAt
  simp only [List.getD_eq_getElem?_getD, List.getElem?_set]
  rw [if_neg (fun h' => h h'.symm)]

theorem modelAt_set_self (m : List Int) (v : Nat) (x : Int) (h : v < m.length) :
    modelAt (m.set v x) v = x := by
  unfold modelAt
  simp [List.getD_eq_getElem?_getD, List.getElem?_set, h]

theorem modelAt_set_zero (m : List Int) (v : Nat) : modelAt (m.set v 0) v = 0 := by
  unfold modelAt
  simp only [List.getD_eq_getElem?_getD, List.getElem?_set]
  by_cases h : v < m.length
  · simp [h]
  · simp [h]

theorem set_zero_self (l : List Int) (v : Nat) (h : l.getD v 0 = 0) : l.set v 0 = l := by
  apply List.ext_getElem?
  intro i
  rw [List.getElem?_set]
  by_cases hi : v = i
  · subst hi
    rw [if_pos rfl]
    rw [List.getD_eq_getElem?_getD] at h
    by_cases hl : v < l.length
    · rw [if_pos hl]
      rw [List.getElem?_eq_getElem hl] at h ⊢
      simp at h; rw [h]
    · rw [if_neg hl, List.getElem?_eq_none (by omega)]
  · rw [if_neg hi]

theorem nonFalsified_set_ne (m : List Int) (v j : Nat) (x : Int) (w : Int) (h : j ≠ v) :
    nonFalsified (m.set v x) j w ↔ nonFalsified m j w := by
  unfold nonFalsified; rw [modelAt_set_ne m v j x h]

theorem fs1_congr (m m' : List Int) (e : Bool) (j : Nat) (w : Int)
    (h : nonFalsified m' j w ↔ nonFalsified m j w) : fs1 m' e j w = fs1 m e j w := by
  unfold fs1
  by_cases hc : e = false ∧ nonFalsified m j w
  · rw [if_pos hc, if_pos ⟨hc.1, h.mpr hc.2⟩]
  · rw [if_neg hc, if_neg (fun h' => hc ⟨h'.1, h.mp h'.2⟩)]

theorem fs1_set_ne (m : List Int) (v j : Nat) (x : Int) (e : Bool) (w : Int) (h : j ≠ v) :
    fs1 (m.set v x) e j w = fs1 m e j w :=
  fs1_congr _ _ e j w (nonFalsified_set_ne m v j x w h)

/-- un-assigning a variable whose literal in `ws` (if any) is not falsified does not change the
    free weight -/
theorem freeSum_set_zero (m : List Int) (v : Nat) (excl : Nat → Bool) (j : Nat) (ws : List Int)
    (h : ∀ i, j + i = v → ws.getD i 0 = 0 ∨ nonFalsified m v (ws.getD i 0)) :
    freeSum (m.set v 0) excl j ws = freeSum m excl j ws := by
  induction ws generalizing j with
  | nil => rfl
  | cons w ws ih =>
    have ih' := ih (j+1) (by
      intro i hi
      have := h (i+1) (by omega)
      simpa using this)
    rw [freeSum_cons, freeSum_cons, ih']
    congr 1
    by_cases hj : j = v
    · have h0 := h 0 (by omega)
      simp only [List.getD_cons_zero] at h0
      subst hj
      rcases h0 with h0 | h0
      · subst h0; unfold fs1; simp [iabs]
      · unfold fs1
        have : nonFalsified (m.set j 0) j w := Or.inl (modelAt_set_zero m j)
        by_cases he : excl j = false
        · rw [if_pos ⟨he, this⟩, if_pos ⟨he, h0⟩]
        · rw [if_neg (fun h => he h.1), if_neg (fun h => he h.1)]
    · exact fs1_set_ne m v j 0 _ w hj

/-- the free weight with position `v` excluded does not look at the model at `v` -/
theorem freeSum_set_excl (m : List Int) (v : Nat) (x : Int) (j : Nat) (ws : List Int) :
    freeSum (m.set v x) (fun i => i == v) j ws = freeSum m (fun i => i == v) j ws := by
  induction ws generalizing j with
  | nil => rfl
  | cons w ws ih =>
    rw [freeSum_cons, freeSum_cons, ih (j+1)]
    congr 1
    by_cases hj : j = v
    · subst hj; unfold fs1; simp
    · exact fs1_set_ne m v j x _ w hj

theorem modelOfR_notin (n : Nat) (rest : List Entry) (v : Nat)
    (h : ∀ e' ∈ rest, varIdx e'.lit ≠ v) : modelAt (modelOfR n rest) v = 0 := by
  induction rest with
  | nil =>
    simp only [modelOfR, modelAt, List.getD_eq_getElem?_getD, List.getElem?_replicate]
    split <;> rfl
  | cons e rest ih =>
    simp only [modelOfR]
    rw [modelAt_set_ne _ _ _ _ (fun h' => h e (by simp) h'.symm)]
    exact ih (fun e' he' => h e' (by simp [he']))

theorem modelOfR_pop (n : Nat) (e : Entry) (rest : List Entry)
    (h : ∀ e' ∈ rest, varIdx e'.lit ≠ varIdx e.lit) :
    (modelOfR n (e :: rest)).set (varIdx e.lit) 0 = modelOfR n rest := by
  simp only [modelOfR, List.set_set]
  exact set_zero_self _ _ (modelOfR_notin n rest _ h)

/-! ## 4. The trail invariant, unpacked -/

structure EntryOk (n : Nat) (prob : List PbSet) (e : Entry) (rest : List Entry) : Prop where
  lit0 : e.lit ≠ 0
  litn : varIdx e.lit < n
  dist : ∀ e' ∈ rest, varIdx e'.lit ≠ varIdx e.lit
  lev1 : 1 ≤ e.level
  mono : ∀ e' ∈ rest, e'.level ≤ e.level
  fact : e.reason = none → e.level = 1 → unitPb n e.lit ∈ prob
  rmem : ∀ r, e.reason = some r → pbOf n r ∈ prob
  rsign : ∀ r, e.reason = some r → (pbOf n r).weights.getD (varIdx e.lit) 0 ≠ 0 ∧
    (0 < (pbOf n r).weights.getD (varIdx e.lit) 0 ↔ 0 < e.lit)
  rprop : ∀ r, e.reason = some r →
    freeSum (modelOfR n rest) (fun i => i == varIdx e.lit) 0 (pbOf n r).weights < r.degree

theorem entryOk_spec {n : Nat} {prob : List PbSet} {e : Entry} {rest : List Entry}
    (h : entryOk n prob e rest = true) : EntryOk n prob e rest := by
  unfold entryOk litOkB at h
  simp only [Bool.and_eq_true, List.all_eq_true, decide_eq_true_eq, bne_iff_ne, ne_eq,
    Bool.not_eq_true', decide_eq_false_iff_not] at h
  obtain ⟨⟨⟨⟨⟨h1, h2⟩, h3⟩, h4⟩, h5⟩, h6⟩ := h
  cases hr : e.reason with
  | none =>
    rw [hr] at h6
    refine ⟨h1, h2, h3, h4, h5, ?_, (by intro r h; rw [hr] at h; cases h), (by intro r h; rw [hr] at h; cases h), (by intro r h; rw [hr] at h; cases h)⟩
    intro _ hl
    simp only [Bool.or_eq_true, bne_iff_ne, ne_eq, List.contains_iff_mem] at h6
    rcases h6 with h6 | h6
    · exact absurd hl h6
    · exact h6
  | some r =>
    rw [hr] at h6
    simp only [Bool.and_eq_true, List.contains_iff_mem, decide_eq_true_eq, bne_iff_ne, ne_eq,
      beq_iff_eq, decide_eq_decide, freeSumB_eq] at h6
    obtain ⟨⟨h61, h62, h63⟩, h64⟩ := h6
    refine ⟨h1, h2, h3, h4, h5, (by intro h; rw [hr] at h; cases h), ?_, ?_, ?_⟩
    · intro r' hr'; rw [hr] at hr'; cases hr'; exact h61
    · intro r' hr'; rw [hr] at hr'; cases hr'; exact ⟨h62, h63⟩
    · intro r' hr'; rw [hr] at hr'; cases hr'; exact h64

theorem trailOk_cons {n : Nat} {prob : List PbSet} {e : Entry} {rest : List Entry}
    (h : trailOk n prob (e :: rest) = true) : EntryOk n prob e rest ∧ trailOk n prob rest = true := by
  simp only [trailOk, Bool.and_eq_true] at h
  exact ⟨entryOk_spec h.1, h.2⟩

theorem signedLvl_pos (e : Entry) (h : 1 ≤ e.level) : 0 < signedLvl e ↔ 0 < e.lit := by
  unfold signedLvl
  by_cases hl : e.lit > 0
  · rw [if_pos hl]; constructor <;> intro <;> omega
  · rw [if_neg hl]; constructor <;> intro <;> omega

theorem signedLvl_ne (e : Entry) (h : 1 ≤ e.level) : signedLvl e ≠ 0 := by
  unfold signedLvl; split <;> omega

theorem iabs_signedLvl (e : Entry) : iabs (signedLvl e) = (e.level : Int) := by
  unfold signedLvl iabs; split <;> split <;> omega

/-- a trail literal that does not falsify `ws` is not falsified in `ws` by the model -/
theorem notFalsifies_nonFalsified (ws : List Int) (m : List Int) (e : Entry) (h1 : 1 ≤ e.level)
    (hm : modelAt m (varIdx e.lit) = signedLvl e) (hf : falsifies ws e.lit = false) :
    ws.getD (varIdx e.lit) 0 = 0 ∨ nonFalsified m (varIdx e.lit) (ws.getD (varIdx e.lit) 0) := by
  unfold falsifies at hf
  by_cases hw : ws.getD (varIdx e.lit) 0 = 0
  · exact Or.inl hw
  · right
    simp only [hw, if_false, beq_eq_false_iff_ne, ne_eq, decide_eq_decide] at hf
    unfold nonFalsified
    right
    rw [hm]
    simp only [gt_iff_lt, decide_eq_decide, signedLvl_pos e h1]
    constructor <;> intro <;> omega

end GS.Cp
