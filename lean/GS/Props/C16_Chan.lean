import GS.Props.C20_Chan
/-!
# C16 (and C20 for the certificate channel) — `explain.(*Problem).UnsatSubset`

The fixed code communicates the solver status through the buffered channel `done`; this file proves,
on the channel semantics of `GS/Model/Chan.lean`, that for every certificate `vals`, every early-stop
point `k` of the checker and every schedule: no panic, FIFO delivery, single close, no deadlock,
termination, and that the caller's read of the status always happens after the goroutine's write
(`status_read_after_write`), the status being the only datum shared between the two.
-/
namespace GS.Chan
set_option linter.unusedSimpArgs false

/-! ## (U) : `unsatSubsetSystem` (C16 for the fixed `UnsatSubset`) -/

inductive GPc | run | sendDone | done
deriving DecidableEq, Repr

inductive MPc | reading (k : Nat) | draining | waiting | returning | finished
deriving DecidableEq, Repr

/-- the caller has completed `status := <-done` -/
def MPc.past : MPc → Bool
  | .returning => true | .finished => true | _ => false

/-- the caller has left the drain loop `for range s.CertChan {}` -/
def MPc.afterDrain : MPc → Bool
  | .waiting => true | .returning => true | .finished => true | _ => false

/-- Abstract state: `todo` = certificate lines not yet sent by the goroutine, `dbuf` = buffer of
    `done`, `got` = everything the caller received (certificate lines, then the status). -/
structure UA where
  todo : List Nat
  gpc : GPc
  dbuf : List Nat
  mpc : MPc
  got : List Nat
  msaw : Bool

def gproc (st : Nat) (a : UA) : Proc :=
  { code := match a.gpc with
            | .run => a.todo.map (Instr.send 0) ++ [.close 0, .send 1 st]
            | .sendDone => [.send 1 st]
            | .done => [] }

def mproc (a : UA) : Proc :=
  { code := match a.mpc with
            | .reading k => [.rangeMax 0 k, .range 0, .recv 1, .retLast]
            | .draining => [.range 0, .recv 1, .retLast]
            | .waiting => [.recv 1, .retLast]
            | .returning => [.retLast]
            | .finished => [],
    got := a.got, sawClose := a.msaw }

def ustate (st : Nat) (a : UA) : State :=
  { procs := [ gproc st a, mproc a ],
    chans := [ ⟨0, [], decide (a.gpc ≠ .run)⟩, ⟨1, a.dbuf, false⟩ ] }

/-- goroutine alone: `close(s.CertChan)` and the buffered `done <- st` -/
def unext0 (st : Nat) (a : UA) : List (List Event × UA) :=
  match a.gpc, a.todo with
  | .run, [] => [([.closed 0], { a with gpc := .sendDone })]
  | .run, _ :: _ => []
  | .sendDone, _ =>
      if a.dbuf.length < 1 then [([.sent 1 st], { a with gpc := .done, dbuf := a.dbuf ++ [st] })] else []
  | .done, _ => []

/-- rendezvous on `s.CertChan` -/
def unext01 (a : UA) : List (List Event × UA) :=
  match a.gpc, a.todo, a.mpc with
  | .run, v :: t, .reading (k+1) =>
      [([.sent 0 v, .received 0 v], { a with todo := t, mpc := .reading k, got := a.got ++ [v] })]
  | .run, v :: t, .draining =>
      [([.sent 0 v, .received 0 v], { a with todo := t, got := a.got ++ [v] })]
  | _, _, _ => []

/-- caller alone -/
def unext1 (a : UA) : List (List Event × UA) :=
  match a.mpc with
  | .reading 0 => [([.stopped 0], { a with mpc := .draining })]
  | .reading (_+1) =>
      if a.gpc ≠ .run then [([.sawClosed 0], { a with mpc := .draining, msaw := true })] else []
  | .draining =>
      if a.gpc ≠ .run then [([.sawClosed 0], { a with mpc := .waiting, msaw := true })] else []
  | .waiting =>
      match a.dbuf with
      | v :: b => [([.received 1 v], { a with dbuf := b, got := a.got ++ [v], mpc := .returning })]
      | [] => []
  | .returning => [([.returned a.got.getLast?], { a with mpc := .finished })]
  | .finished => []

def unext (st : Nat) (a : UA) : List (List Event × UA) :=
  unext0 st a ++ (unext01 a ++ unext1 a)

theorem u_local0 (st : Nat) (a : UA) :
    (localStep (ustate st a) 0).toList = (unext0 st a).map (fun x => (x.1, ustate st x.2)) := by
  rcases a with ⟨todo, gpc, dbuf, mpc, got, msaw⟩
  cases gpc <;> cases todo <;>
    simp [ustate, gproc, mproc, unext0, localStep, Proc.act, State.setProc, State.setChan] <;>
    split <;> simp

theorem u_sync01 (st : Nat) (a : UA) :
    (syncStep (ustate st a) 0 1).toList = (unext01 a).map (fun x => (x.1, ustate st x.2)) := by
  rcases a with ⟨todo, gpc, dbuf, mpc, got, msaw⟩
  cases gpc <;> cases todo <;> rcases mpc with (_ | k) | _ | _ | _ | _ <;>
    simp [ustate, gproc, mproc, unext01, syncStep, Proc.act, State.setProc]

theorem u_sync10 (st : Nat) (a : UA) : syncStep (ustate st a) 1 0 = none := by
  rcases a with ⟨todo, gpc, dbuf, mpc, got, msaw⟩
  cases gpc <;> cases todo <;> rcases mpc with (_ | k) | _ | _ | _ | _ <;>
    simp [ustate, gproc, mproc, syncStep, Proc.act]

theorem u_local1 (st : Nat) (a : UA) :
    (localStep (ustate st a) 1).toList = (unext1 a).map (fun x => (x.1, ustate st x.2)) := by
  rcases a with ⟨todo, gpc, dbuf, mpc, got, msaw⟩
  rcases mpc with (_ | k) | _ | _ | _ | _ <;> cases gpc <;> cases dbuf <;>
    simp [ustate, gproc, mproc, unext1, localStep, Proc.act, State.setProc, State.setChan]

/-- The `UnsatSubset` system IS the abstract system `unext`. -/
theorem lsucc_ustate (st : Nat) (a : UA) :
    lsuccessors (ustate st a) = (unext st a).map (fun x => (x.1, ustate st x.2)) := by
  rw [lsucc2 rfl rfl, u_local0, u_sync01, u_sync10, u_local1]
  simp [unext]

def UAbs (st : Nat) : Abs UA := ⟨ustate st, unext st, lsucc_ustate st⟩

def uinit (vals : List Nat) (k : Nat) : UA := ⟨vals, .run, [], .reading k, [], false⟩

theorem unsatSubsetSystem_eq (vals : List Nat) (k st : Nat) :
    unsatSubsetSystem vals k st = ustate st (uinit vals k) := by
  simp [unsatSubsetSystem, ustate, uinit, gproc, mproc]

theorem mem_sentOn {c v : Nat} {tr : List Event} : v ∈ sentOn c tr ↔ Event.sent c v ∈ tr := by
  induction tr with
  | nil => simp [sentOn]
  | cons e r ih =>
    cases e <;> simp [sentOn, ih]
    rename_i c' v'
    by_cases h : c' = c
    · subst h; simp [ih]
    · simp [h, ih]
      intro h1; exact absurd h1.symm h

structure UInv (vals : List Nat) (st : Nat) (tr : List Event) (a : UA) : Prop where
  split : a.got ++ a.todo = vals ++ (if a.mpc.past then [st] else [])
  gpcTodo : a.gpc ≠ .run → a.todo = []
  dbufOk : a.dbuf = if a.gpc = .done ∧ a.mpc.past = false then [st] else []
  drainOk : a.mpc.afterDrain = true → a.gpc ≠ .run
  pastOk : a.mpc.past = true → a.gpc = .done
  recv0 : recvOn 0 tr ++ a.todo = vals
  sent0 : sentOn 0 tr = recvOn 0 tr
  sent1 : sentOn 1 tr = if a.gpc = .done then [st] else []
  recv1 : recvOn 1 tr = if a.mpc.past then [st] else []
  closes0 : closeCount 0 tr = if a.gpc = .run then 0 else 1
  closes1 : closeCount 1 tr = 0
  rets : a.mpc = .finished → Event.returned (some st) ∈ tr
  panics : Event.panicked ∉ tr

theorem uinv_init (vals : List Nat) (k st : Nat) : UInv vals st [] (uinit vals k) := by
  constructor <;> simp [uinit, sentOn, recvOn, closeCount, MPc.past, MPc.afterDrain]

theorem uinv_step (vals : List Nat) (st : Nat) (tr : List Event) (a : UA) (l : List Event) (a' : UA)
    (h : UInv vals st tr a) (hm : (l, a') ∈ unext st a) : UInv vals st (tr ++ l) a' := by
  rcases a with ⟨todo, gpc, dbuf, mpc, got, msaw⟩
  rcases h with ⟨h1, h2, h3, h4, h5, h6, h7, h8, h9, h10, h11, h12, h13⟩
  simp only at h1 h2 h3 h4 h5 h6 h7 h8 h9 h10 h11 h12
  simp only [unext, List.mem_append] at hm
  rcases hm with hm | hm | hm
  · cases gpc <;> cases todo <;> simp [unext0] at hm
    · rcases hm with ⟨rfl, rfl⟩
      constructor <;> simp_all [sentOn_append, recvOn_append, sentOn, recvOn, closeCount, List.count_append]
    · rcases hm with ⟨hd, rfl, rfl⟩
      constructor <;> simp_all [sentOn_append, recvOn_append, sentOn, recvOn, closeCount, List.count_append]
    · rcases hm with ⟨hd, rfl, rfl⟩
      constructor <;> simp_all [sentOn_append, recvOn_append, sentOn, recvOn, closeCount, List.count_append]
  · cases gpc <;> cases todo <;> rcases mpc with (_ | k) | _ | _ | _ | _ <;> simp [unext01] at hm
    · rcases hm with ⟨rfl, rfl⟩
      constructor <;> simp_all [sentOn_append, recvOn_append, sentOn, recvOn, closeCount, List.count_append, MPc.past, MPc.afterDrain]
    · rcases hm with ⟨rfl, rfl⟩
      constructor <;> simp_all [sentOn_append, recvOn_append, sentOn, recvOn, closeCount, List.count_append, MPc.past, MPc.afterDrain]
  · rcases mpc with (_ | k) | _ | _ | _ | _ <;> simp [unext1] at hm
    · rcases hm with ⟨rfl, rfl⟩
      constructor <;> simp_all [sentOn_append, recvOn_append, sentOn, recvOn, closeCount, List.count_append, MPc.past, MPc.afterDrain]
    · rcases hm with ⟨hg, rfl, rfl⟩
      constructor <;> simp_all [sentOn_append, recvOn_append, sentOn, recvOn, closeCount, List.count_append, MPc.past, MPc.afterDrain]
    · rcases hm with ⟨hg, rfl, rfl⟩
      constructor <;> simp_all [sentOn_append, recvOn_append, sentOn, recvOn, closeCount, List.count_append, MPc.past, MPc.afterDrain]
    · cases dbuf <;> simp at hm
      rcases hm with ⟨rfl, rfl⟩
      cases gpc <;> simp [MPc.past] at h3
      rcases h3 with ⟨rfl, rfl⟩
      constructor <;> simp_all [sentOn_append, recvOn_append, sentOn, recvOn, closeCount, List.count_append, MPc.past, MPc.afterDrain]
    · rcases hm with ⟨rfl, rfl⟩
      have hg : gpc = .done := h5 rfl
      subst hg
      have ht : todo = [] := h2 (by simp)
      subst ht
      have hgot : got = vals ++ [st] := by simpa [MPc.past] using h1
      subst hgot
      constructor <;> simp_all [sentOn_append, recvOn_append, sentOn, recvOn, closeCount, List.count_append, MPc.past, MPc.afterDrain]

theorem usub_reach {vals : List Nat} {k st : Nat} {tr : List Event} {s : State}
    (h : LReach (unsatSubsetSystem vals k st) tr s) :
    ∃ a, s = ustate st a ∧ UInv vals st tr a := by
  rw [unsatSubsetSystem_eq] at h
  rcases (UAbs st).lreach h with ⟨a, hs, ha⟩
  exact ⟨a, hs, AReach.inv (A := UAbs st) (UInv vals st) (uinv_init vals k st) (uinv_step vals st) ha⟩

/-- Final state of the `UnsatSubset` system: goroutine and caller have run to completion,
    `s.CertChan` is closed, `done` is empty (its value was consumed) and was never closed. -/
def ufinal (s : State) : Prop :=
  s.panic = false ∧ (∀ p ∈ s.procs, p.code = []) ∧
  (∃ cert, s.chans[0]? = some cert ∧ cert.closed = true ∧ cert.buf = []) ∧
  (∃ done, s.chans[1]? = some done ∧ done.closed = false ∧ done.buf = [])

/-- **no_panic** (U). -/
theorem usub_no_panic {vals : List Nat} {k st : Nat} {tr : List Event} {s : State}
    (h : LReach (unsatSubsetSystem vals k st) tr s) : s.panic = false ∧ Event.panicked ∉ tr := by
  rcases usub_reach h with ⟨a, rfl, ha⟩
  exact ⟨rfl, ha.panics⟩

/-- **fifo** (U): the certificate lines received by the caller (checker + drain loop) are a prefix of
    the lines produced by the solver, in order, and all of them once the drain loop has ended. -/
theorem usub_fifo {vals : List Nat} {k st : Nat} {tr : List Event} {s : State}
    (h : LReach (unsatSubsetSystem vals k st) tr s) :
    ∃ m, s.procs[1]? = some m ∧ recvOn 0 tr <+: vals ∧ recvOn 0 tr <+: m.got ∧
      (Instr.range 0 ∉ m.code → (∀ j, Instr.rangeMax 0 j ∉ m.code) → recvOn 0 tr = vals) := by
  rcases usub_reach h with ⟨a, rfl, ha⟩
  refine ⟨mproc a, rfl, ⟨a.todo, ha.recv0⟩, ?_, ?_⟩
  · have h1 := ha.split
    have h2 := ha.recv0
    have h3 := ha.pastOk
    have h4 := ha.gpcTodo
    show recvOn 0 tr <+: a.got
    cases hp : a.mpc.past
    · simp [hp] at h1
      rw [← h2] at h1
      have := List.append_cancel_right h1
      rw [this]; exact List.prefix_refl _
    · have hg := h3 hp
      have ht : a.todo = [] := h4 (by rw [hg]; simp)
      simp [hp, ht] at h1 h2
      rw [h1, h2]; exact ⟨[st], rfl⟩
  · intro hr hm
    have hd : a.mpc.afterDrain = true := by
      rcases a with ⟨todo, gpc, dbuf, mpc, got, msaw⟩
      rcases mpc with j | _ | _ | _ | _ <;> simp_all [mproc, MPc.afterDrain]
    have ht := ha.gpcTodo (ha.drainOk hd)
    have := ha.recv0
    rw [ht] at this; simpa using this

/-- **closed_once** (U): `s.CertChan` was closed once if closed, never otherwise, by the goroutine
    only (the caller has no `close`); `done` is never closed. -/
theorem usub_closed_once {vals : List Nat} {k st : Nat} {tr : List Event} {s : State}
    (h : LReach (unsatSubsetSystem vals k st) tr s) :
    ∃ g m cert done, s.procs = [g, m] ∧ s.chans = [cert, done] ∧
      closeCount 0 tr = (if cert.closed then 1 else 0) ∧ closeCount 1 tr = 0 ∧ done.closed = false ∧
      (cert.closed = true ↔ Instr.close 0 ∉ g.code) ∧
      (cert.closed = true → sentOn 0 tr = vals ∧ ∀ v, Instr.send 0 v ∉ g.code) ∧
      (∀ c, Instr.close c ∉ m.code) ∧ Instr.close 1 ∉ g.code := by
  rcases usub_reach h with ⟨a, rfl, ha⟩
  refine ⟨_, _, _, _, rfl, rfl, ?_, ha.closes1, rfl, ?_, ?_, ?_, ?_⟩
  · rw [ha.closes0]; cases hpc : a.gpc <;> simp
  · cases hpc : a.gpc <;> simp [gproc, hpc]
  · intro hc
    have hpc : a.gpc ≠ .run := by simpa using hc
    have ht := ha.gpcTodo hpc
    have h0 := ha.recv0
    refine ⟨by rw [ha.sent0, ← h0, ht]; simp, ?_⟩
    intro v
    cases hp : a.gpc <;> simp_all [gproc]
  · intro c
    rcases a with ⟨todo, gpc, dbuf, mpc, got, msaw⟩
    rcases mpc with j | _ | _ | _ | _ <;> simp [mproc]
  · cases hpc : a.gpc <;> simp [gproc, hpc]

def ufinalA (a : UA) : Prop := a.gpc = .done ∧ a.mpc = .finished

theorem ufinal_iff {st : Nat} {a : UA} (h : a.mpc.past = true → a.dbuf = []) :
    ufinal (ustate st a) ↔ ufinalA a := by
  rcases a with ⟨todo, gpc, dbuf, mpc, got, msaw⟩
  cases gpc <;> rcases mpc with j | _ | _ | _ | _ <;>
    simp_all [ufinal, ufinalA, ustate, gproc, mproc, MPc.past]

theorem UInv.dbuf_past {vals : List Nat} {st : Nat} {tr : List Event} {a : UA}
    (h : UInv vals st tr a) : a.mpc.past = true → a.dbuf = [] := by
  intro hp; rw [h.dbufOk]; simp [hp]

theorem unext_enabled {vals : List Nat} {st : Nat} {tr : List Event} {a : UA}
    (h : UInv vals st tr a) : ufinalA a ∨ unext st a ≠ [] := by
  rcases a with ⟨todo, gpc, dbuf, mpc, got, msaw⟩
  have h2 := h.gpcTodo
  have h3 := h.dbufOk
  have h4 := h.drainOk
  have h5 := h.pastOk
  simp only at h2 h3 h4 h5
  cases gpc <;> rcases mpc with (_ | j) | _ | _ | _ | _ <;> cases todo <;>
    simp_all [ufinalA, unext, unext0, unext01, unext1, MPc.past, MPc.afterDrain]

/-- **no_deadlock** (U): for every certificate, every early-stop point `k` of the checker and every
    schedule, a reachable state is final or has an enabled step: the solver goroutine is never left
    blocked on `s.CertChan`, the caller is never left blocked on `done`. -/
theorem usub_no_deadlock {vals : List Nat} {k st : Nat} {s : State}
    (h : Reachable (unsatSubsetSystem vals k st) s) : ufinal s ∨ ∃ s', Step s s' := by
  rcases h with ⟨tr, h⟩
  rcases usub_reach h with ⟨a, rfl, ha⟩
  rcases unext_enabled ha with hf | hne
  · exact Or.inl ((ufinal_iff ha.dbuf_past).mpr hf)
  · right
    cases hn : unext st a with
    | nil => exact absurd hn hne
    | cons x rest =>
      exact ⟨ustate st x.2, x.1,
        ((UAbs st).lstep).mpr ⟨x.2, by show (x.1, x.2) ∈ unext _ _; rw [hn]; simp, rfl⟩⟩

theorem usub_final_stuck {vals : List Nat} {k st : Nat} {s s' : State}
    (h : Reachable (unsatSubsetSystem vals k st) s) (hf : ufinal s) : ¬ Step s s' := by
  rcases h with ⟨tr, h⟩
  rcases usub_reach h with ⟨a, rfl, ha⟩
  have hfa := (ufinal_iff ha.dbuf_past).mp hf
  rintro ⟨l, hl⟩
  rcases ((UAbs st).lstep).mp hl with ⟨a', hm, _⟩
  rcases a with ⟨todo, gpc, dbuf, mpc, got, msaw⟩
  rcases hfa with ⟨h1, h2⟩
  simp only at h1 h2
  subst h1 h2
  cases todo <;> simp [UAbs, unext, unext0, unext01, unext1] at hm

def umeasure (s : State) : Nat :=
  match s.procs, s.chans with
  | [g, m], [_, d] => 2 * g.code.length + m.code.length + d.buf.length
  | _, _ => 0

def umA (a : UA) : Nat :=
  2 * (match a.gpc with | .run => a.todo.length + 2 | .sendDone => 1 | .done => 0) +
    (match a.mpc with | .reading _ => 4 | .draining => 3 | .waiting => 2 | .returning => 1 | .finished => 0) +
    a.dbuf.length

theorem umeasure_ustate (st : Nat) (a : UA) : umeasure (ustate st a) = umA a := by
  rcases a with ⟨todo, gpc, dbuf, mpc, got, msaw⟩
  cases gpc <;> rcases mpc with j | _ | _ | _ | _ <;> simp [umeasure, ustate, gproc, mproc, umA]

theorem umA_dec {st : Nat} {a a' : UA} {l : List Event}
    (hm : (l, a') ∈ unext st a) : umA a' < umA a := by
  rcases a with ⟨todo, gpc, dbuf, mpc, got, msaw⟩
  simp only [unext, List.mem_append] at hm
  rcases hm with hm | hm | hm
  · cases gpc <;> cases todo <;> simp [unext0] at hm
    · rcases hm with ⟨rfl, rfl⟩; simp [umA]
    · rcases hm with ⟨_, rfl, rfl⟩; simp [umA]; omega
    · rcases hm with ⟨_, rfl, rfl⟩; simp [umA]; omega
  · cases gpc <;> cases todo <;> rcases mpc with (_ | j) | _ | _ | _ | _ <;> simp [unext01] at hm
    · rcases hm with ⟨rfl, rfl⟩; simp [umA]
    · rcases hm with ⟨rfl, rfl⟩; simp [umA]
  · rcases mpc with (_ | j) | _ | _ | _ | _ <;> simp [unext1] at hm
    · rcases hm with ⟨rfl, rfl⟩; simp [umA]
    · rcases hm with ⟨_, rfl, rfl⟩; simp [umA]
    · rcases hm with ⟨_, rfl, rfl⟩; simp [umA]
    · cases dbuf <;> simp at hm
      rcases hm with ⟨rfl, rfl⟩; simp [umA]; omega
    · rcases hm with ⟨rfl, rfl⟩; simp [umA]

/-- **terminates** (U), local form. -/
theorem usub_measure_dec {vals : List Nat} {k st : Nat} {s s' : State}
    (h : Reachable (unsatSubsetSystem vals k st) s) (hs : Step s s') : umeasure s' < umeasure s := by
  rcases h with ⟨tr, h⟩
  rcases usub_reach h with ⟨a, rfl, _⟩
  rcases hs with ⟨l, hl⟩
  rcases ((UAbs st).lstep).mp hl with ⟨a', hm, rfl⟩
  show umeasure (ustate _ _) < umeasure (ustate _ _)
  rw [umeasure_ustate, umeasure_ustate]
  exact umA_dec hm

/-- **terminates** (U), global form: every execution has at most `2·|vals| + 8` steps. -/
theorem usub_terminates {vals : List Nat} {k st : Nat} {n : Nat} {s : State}
    (h : Steps n (unsatSubsetSystem vals k st) s) : n + umeasure s ≤ 2 * vals.length + 8 := by
  have := steps_bounded umeasure
    (fun s s' hr hs => usub_measure_dec (vals := vals) (k := k) (st := st) hr hs) h
  simpa [umeasure, unsatSubsetSystem, Nat.mul_add] using this

/-- **status_read_after_write** (C16, fixed `UnsatSubset`): whenever a step of an execution performs
    the caller's read of the status (a receive on `done`, channel 1), the value read is the status
    `st` written by the goroutine, and the goroutine's write (`done <- st`) is an event of the
    *strict past* `tr` of that step.  The status is therefore never read concurrently with (or
    before) its write, whatever the schedule, the certificate and the early-stop point `k`. -/
theorem status_read_after_write {vals : List Nat} {k st : Nat} {tr l : List Event} {s s' : State} {v : Nat}
    (h : LReach (unsatSubsetSystem vals k st) tr s) (hs : LStep s l s')
    (hr : Event.received 1 v ∈ l) : v = st ∧ Event.sent 1 st ∈ tr := by
  rcases usub_reach h with ⟨a, rfl, ha⟩
  rcases ((UAbs st).lstep).mp hs with ⟨a', hm, _⟩
  rcases a with ⟨todo, gpc, dbuf, mpc, got, msaw⟩
  have h3 := ha.dbufOk
  have h8 := ha.sent1
  simp only at h3 h8
  simp only [UAbs, unext, List.mem_append] at hm
  rcases hm with hm | hm | hm
  · cases gpc <;> cases todo <;> simp [unext0] at hm
    · rcases hm with ⟨rfl, _⟩; simp at hr
    · rcases hm with ⟨_, rfl, _⟩; simp at hr
    · rcases hm with ⟨_, rfl, _⟩; simp at hr
  · cases gpc <;> cases todo <;> rcases mpc with (_ | j) | _ | _ | _ | _ <;> simp [unext01] at hm
    all_goals (rcases hm with ⟨rfl, _⟩; simp at hr)
  · rcases mpc with (_ | j) | _ | _ | _ | _ <;> simp [unext1] at hm
    · rcases hm with ⟨rfl, _⟩; simp at hr
    · rcases hm with ⟨_, rfl, _⟩; simp at hr
    · rcases hm with ⟨_, rfl, _⟩; simp at hr
    · cases hd : dbuf with
      | nil => simp [hd] at hm
      | cons w b =>
        simp [hd] at hm
        rcases hm with ⟨rfl, _⟩
        simp at hr
        subst hr
        cases gpc <;> simp [hd, MPc.past] at h3
        rcases h3 with ⟨rfl, rfl⟩
        refine ⟨rfl, ?_⟩
        rw [← mem_sentOn, h8]; simp
    · rcases hm with ⟨rfl, _⟩; simp at hr

/-- State form: once the caller is past `status := <-done`, the goroutine has completed `done <- st`
    (it has finished), the caller's last received value is `st`, and that is what it returns. -/
theorem status_is_written_value {vals : List Nat} {k st : Nat} {tr : List Event} {s : State}
    (h : LReach (unsatSubsetSystem vals k st) tr s) :
    ∃ g m, s.procs = [g, m] ∧
      (Instr.recv 1 ∉ m.code → g.code = [] ∧ m.got.getLast? = some st ∧ Event.sent 1 st ∈ tr) ∧
      (ufinal s → Event.returned (some st) ∈ tr) := by
  rcases usub_reach h with ⟨a, rfl, ha⟩
  refine ⟨_, _, rfl, ?_, ?_⟩
  · intro hn
    have hp : a.mpc.past = true := by
      rcases a with ⟨todo, gpc, dbuf, mpc, got, msaw⟩
      rcases mpc with j | _ | _ | _ | _ <;> simp_all [mproc, MPc.past]
    have hg := ha.pastOk hp
    have ht : a.todo = [] := ha.gpcTodo (by rw [hg]; simp)
    have h1 := ha.split
    have h8 := ha.sent1
    simp [hp, ht] at h1
    refine ⟨by simp [gproc, hg], by simp [mproc, h1], ?_⟩
    rw [← mem_sentOn, h8]; simp [hg]
  · intro hf
    have hfa := (ufinal_iff ha.dbuf_past).mp hf
    exact ha.rets hfa.2

/-! ### Exhaustive exploration of small instances (checker stops early / reads everything) -/

instance (s : State) : Decidable (ufinal s) :=
  decidable_of_iff (s.panic = false ∧ (∀ p ∈ s.procs, p.code = []) ∧
      (s.chans[0]?.map (fun c => (c.closed, c.buf)) = some (true, [])) ∧
      (s.chans[1]?.map (fun c => (c.closed, c.buf)) = some (false, [])))
    (by unfold ufinal; simp [Option.map_eq_some_iff, Prod.ext_iff])

example : layer 9 [unsatSubsetSystem [1, 2] 0 7] = [] := by decide
example : ∀ s ∈ reachN 9 [unsatSubsetSystem [1, 2] 0 7],
    s.panic = false ∧ (ufinal s ∨ successors s ≠ []) := by decide
example : ∀ s ∈ reachN 9 [unsatSubsetSystem [1, 2] 1 7],
    s.panic = false ∧ (ufinal s ∨ successors s ≠ []) := by decide
example : ∀ s ∈ reachN 9 [unsatSubsetSystem [1, 2] 5 7],
    s.panic = false ∧ (ufinal s ∨ successors s ≠ []) := by decide
example : ∃ tr s, LReach (unsatSubsetSystem [1, 2] 1 7) tr s ∧ ufinal s :=
  exists_lreach_of_layer (n := 8) (by decide)

/-- the hypotheses of `status_read_after_write` are satisfiable: some execution does perform the read -/
example : ∃ tr s l s', LReach (unsatSubsetSystem [1, 2] 1 7) tr s ∧ LStep s l s' ∧
    Event.received 1 7 ∈ l := by
  have h : ∃ s ∈ layer 6 [unsatSubsetSystem [1, 2] 1 7],
      ∃ x ∈ lsuccessors s, Event.received 1 7 ∈ x.1 := by decide
  rcases exists_lreach_of_layer h with ⟨tr, s, htr, x, hx, hr⟩
  exact ⟨tr, s, x.1, x.2, htr, lstep_iff_mem.mpr hx, hr⟩

end GS.Chan
