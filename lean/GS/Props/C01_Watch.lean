import GS.Model.Watch
import GS.Spec.Basic
/-!
# C01 (support) — the two-watched-literal propagation of `watcher.go` misses nothing

`GS.Watch` (`GS/Model/Watch.lean`) mirrors `propagate` / `simplifyPropClauses` / `watchClause` line by
line and is compared state against state with the Go code by the harness (`x_watch.go`).  Here:

* `WatchInv` — the `Prop` reading of the executable invariant `watchInv` (`watchInv_iff`);
* `watch_complete`, `watch_total_model` — STATIC completeness: in a state satisfying `watchInv` with
  everything processed (`ptr = trail.length`) no clause is falsified and no clause is unit, so a total
  assignment reached this way satisfies every clause;
* the DYNAMIC part is in `C01_WatchDyn` (elementary state changes preserve `WatchInv`), `C01_WatchLoop`
  (the loop of `simplifyPropClauses`), `C01_WatchPropagate` (`propagate_spec`, `unifyLiteral_spec`,
  `propagate_complete`), `C01_WatchInit` (`initState_watchInv`) and `C01_WatchTrail`
  (`forced_propagate_guard`: link with the abstract trail machine `GS.Trail`).
-/
namespace GS.Watch

/-! ## Literal indices and statuses -/

theorem idxLit_litIdx {l : Int} (h : l ≠ 0) : idxLit (litIdx l) = l := by
  unfold idxLit litIdx
  by_cases hn : l < 0
  · have h1 : (2 * (l.natAbs - 1) + 1) % 2 = 1 := by omega
    have h2 : (2 * (l.natAbs - 1) + 1) / 2 = l.natAbs - 1 := by omega
    simp only [hn, if_true, h1, h2]
    simp
    omega
  · have h1 : (2 * (l.natAbs - 1) + 0) % 2 = 0 := by omega
    have h2 : (2 * (l.natAbs - 1) + 0) / 2 = l.natAbs - 1 := by omega
    simp only [hn, if_false, h1, h2, if_true]
    omega

theorem litIdx_lt {l : Int} {n : Nat} (h : l ≠ 0) (hn : l.natAbs ≤ n) : litIdx l < 2 * n := by
  unfold litIdx
  split <;> omega

theorem litIdx_inj {a b : Int} (ha : a ≠ 0) (hb : b ≠ 0) (h : litIdx a = litIdx b) : a = b := by
  rw [← idxLit_litIdx ha, ← idxLit_litIdx hb, h]

/-- the value of the variable of `l` in the binding array -/
theorem litStatus_cases (m : List Int) (l : Int) :
    litStatus m l = none ∨ litStatus m l = some .indet ∨ litStatus m l = some .sat ∨
      litStatus m l = some .unsat := by
  cases h : litStatus m l with
  | none => simp
  | some s => cases s <;> simp

theorem litTrueB_iff {m : List Int} {l : Int} :
    litTrueB m l = true ↔ l ≠ 0 ∧ ∃ a, m[l.natAbs - 1]? = some a ∧ a ≠ 0 ∧ (a > 0 ↔ l > 0) := by
  unfold litTrueB litStatus modelAt
  by_cases hl : l = 0
  · simp [hl]
  · simp only [hl, if_false, ne_eq, not_false_eq_true, true_and]
    cases hm : m[l.natAbs - 1]? with
    | none => simp
    | some a =>
      by_cases ha : a = 0
      · simp [ha]
      · by_cases hp : a > 0 <;> by_cases hq : l > 0 <;> simp [ha, hp, hq] <;> omega

theorem litFalseB_iff {m : List Int} {l : Int} :
    litFalseB m l = true ↔ l ≠ 0 ∧ ∃ a, m[l.natAbs - 1]? = some a ∧ a ≠ 0 ∧ ¬ (a > 0 ↔ l > 0) := by
  unfold litFalseB litStatus modelAt
  by_cases hl : l = 0
  · simp [hl]
  · simp only [hl, if_false, ne_eq, not_false_eq_true, true_and]
    cases hm : m[l.natAbs - 1]? with
    | none => simp
    | some a =>
      by_cases ha : a = 0
      · simp [ha]
      · by_cases hp : a > 0 <;> by_cases hq : l > 0 <;> simp [ha, hp, hq] <;> omega

theorem litUnboundB_iff {m : List Int} {l : Int} :
    litUnboundB m l = true ↔ l ≠ 0 ∧ m[l.natAbs - 1]? = some 0 := by
  unfold litUnboundB litStatus modelAt
  by_cases hl : l = 0
  · simp [hl]
  · simp only [hl, if_false, ne_eq, not_false_eq_true, true_and]
    cases hm : m[l.natAbs - 1]? with
    | none => simp
    | some a =>
      by_cases ha : a = 0
      · simp [ha]
      · by_cases hp : a > 0 <;> by_cases hq : l > 0 <;> simp [ha, hp, hq] <;> omega

theorem not_true_and_false {m : List Int} {l : Int} (ht : litTrueB m l = true)
    (hf : litFalseB m l = true) : False := by
  unfold litTrueB at ht; unfold litFalseB at hf
  cases h : litStatus m l with
  | none => simp [h] at ht
  | some s => cases s <;> simp [h] at ht hf

theorem not_true_and_unbound {m : List Int} {l : Int} (ht : litTrueB m l = true)
    (hf : litUnboundB m l = true) : False := by
  unfold litTrueB at ht; unfold litUnboundB at hf
  cases h : litStatus m l with
  | none => simp [h] at ht
  | some s => cases s <;> simp [h] at ht hf

/-- a false literal is the negation of the true literal over the same variable -/
theorem eq_neg_of_true_false {m : List Int} {t l : Int} (ht : litTrueB m t = true)
    (hf : litFalseB m l = true) (hv : t.natAbs = l.natAbs) : t = -l := by
  obtain ⟨_, a, ha, _, hat⟩ := litTrueB_iff.mp ht
  obtain ⟨_, b, hb, _, hbl⟩ := litFalseB_iff.mp hf
  rw [hv] at ha
  rw [ha] at hb
  cases hb
  omega

/-! ## The invariant as a proposition -/

/-- The two-watched-literal invariant (the `Prop` reading of `watchInv`, see `watchInv_iff`). -/
structure WatchInv (st : State) (ptr : Nat) : Prop where
  /-- `model`, `reason` have one entry per variable, the two families of watch lists two -/
  shape : st.reasons.length = st.model.length ∧ st.wbin.length = 2 * st.model.length ∧
    st.wlong.length = 2 * st.model.length
  /-- clauses: at least two literals, non-zero, over pairwise distinct known variables -/
  clauses : ∀ c ∈ st.clauses, 2 ≤ c.length ∧ (∀ l ∈ c, l ≠ 0 ∧ l.natAbs ≤ st.model.length) ∧
    (c.map Int.natAbs).Nodup
  ptr_le : ptr ≤ st.trail.length
  /-- every trail literal is true in the model -/
  trail_true : ∀ l ∈ st.trail, litTrueB st.model l = true
  /-- the trail variables are pairwise distinct -/
  trail_nodup : (st.trail.map Int.natAbs).Nodup
  /-- every bound variable is on the trail -/
  bound_on_trail : ∀ v, v < st.model.length →
    st.model[v]? = some 0 ∨ (v + 1) ∈ st.trail.map Int.natAbs
  /-- a watcher of `wbin[i]` is for a two-literal clause made of `¬ idxLit i` and `other` -/
  wbin : ∀ i ws, st.wbin[i]? = some ws → ∀ w ∈ ws, ∃ c, st.clauses[w.cid]? = some c ∧
    (c = [-(idxLit i), w.other] ∨ c = [w.other, -(idxLit i)])
  /-- a watcher of `wlong[i]` is for a clause of length ≥ 3 having `¬ idxLit i` at position 0 or 1,
      and its blocking literal is a literal of that clause -/
  wlong : ∀ i ws, st.wlong[i]? = some ws → ∀ w ∈ ws, ∃ c, st.clauses[w.cid]? = some c ∧
    3 ≤ c.length ∧ (c[0]? = some (-(idxLit i)) ∨ c[1]? = some (-(idxLit i))) ∧ w.other ∈ c
  /-- every clause has exactly one watcher in the list of the negation of its literal 0 and exactly
      one in the list of the negation of its literal 1 (`wbin` for two literals, `wlong` otherwise) -/
  count : ∀ cid c, st.clauses[cid]? = some c → ∃ a b, c[0]? = some a ∧ c[1]? = some b ∧
    ∃ la lb, wget (if c.length = 2 then st.wbin else st.wlong) (-a) = some la ∧ countW la cid = 1 ∧
      wget (if c.length = 2 then st.wbin else st.wlong) (-b) = some lb ∧ countW lb cid = 1
  /-- binary clauses watched by a processed trail literal have their other literal true -/
  semBin : ∀ i ws, st.wbin[i]? = some ws → idxLit i ∈ st.trail.take ptr →
    ∀ w ∈ ws, litTrueB st.model w.other = true
  /-- longer clauses watched by a processed trail literal: the blocking literal of the watcher is
      true, or one of the two watched literals is true -/
  semLong : ∀ i ws, st.wlong[i]? = some ws → idxLit i ∈ st.trail.take ptr →
    ∀ w ∈ ws, litTrueB st.model w.other = true ∨ ∃ c, st.clauses[w.cid]? = some c ∧
      ((∃ a, c[0]? = some a ∧ litTrueB st.model a = true) ∨
       (∃ b, c[1]? = some b ∧ litTrueB st.model b = true))

theorem shapeOk_iff (st : State) : shapeOk st = true ↔
    (st.reasons.length = st.model.length ∧ st.wbin.length = 2 * st.model.length ∧
      st.wlong.length = 2 * st.model.length) := by
  simp [shapeOk, and_assoc]

theorem clausesOk_iff (st : State) : clausesOk st = true ↔
    ∀ c ∈ st.clauses, 2 ≤ c.length ∧ (∀ l ∈ c, l ≠ 0 ∧ l.natAbs ≤ st.model.length) ∧
      (c.map Int.natAbs).Nodup := by
  simp [clausesOk, clauseOk, List.all_eq_true, and_assoc]

theorem trailOk_iff (st : State) (ptr : Nat) : trailOk st ptr = true ↔
    (ptr ≤ st.trail.length ∧ (∀ l ∈ st.trail, litTrueB st.model l = true) ∧
      (st.trail.map Int.natAbs).Nodup ∧
      ∀ v, v < st.model.length → st.model[v]? = some 0 ∨ (v + 1) ∈ st.trail.map Int.natAbs) := by
  simp [trailOk, List.all_eq_true, and_assoc]

theorem zipIdx_all_iff {α} (l : List α) (p : α × Nat → Bool) :
    l.zipIdx.all p = true ↔ ∀ i x, l[i]? = some x → p (x, i) = true := by
  rw [List.all_eq_true]
  constructor
  · intro h i x hx
    exact h (x, i) (List.mem_zipIdx_iff_getElem?.mpr hx)
  · intro h y hy
    have := h y.2 y.1 (List.mem_zipIdx_iff_getElem?.mp hy)
    simpa using this

theorem wbinOk_iff (st : State) : wbinOk st = true ↔
    ∀ i ws, st.wbin[i]? = some ws → ∀ w ∈ ws, ∃ c, st.clauses[w.cid]? = some c ∧
      (c = [-(idxLit i), w.other] ∨ c = [w.other, -(idxLit i)]) := by
  unfold wbinOk
  rw [zipIdx_all_iff]
  constructor
  · intro h i ws hws w hw
    have := h i ws hws
    rw [List.all_eq_true] at this
    have := this w hw
    unfold binWatcherOk at this
    cases hc : st.clauses[w.cid]? with
    | none => simp [hc] at this
    | some c =>
      refine ⟨c, rfl, ?_⟩
      simpa [hc] using this
  · intro h i ws hws
    rw [List.all_eq_true]
    intro w hw
    obtain ⟨c, hc, hcc⟩ := h i ws hws w hw
    unfold binWatcherOk
    simpa [hc] using hcc

theorem wlongOk_iff (st : State) : wlongOk st = true ↔
    ∀ i ws, st.wlong[i]? = some ws → ∀ w ∈ ws, ∃ c, st.clauses[w.cid]? = some c ∧
      3 ≤ c.length ∧ (c[0]? = some (-(idxLit i)) ∨ c[1]? = some (-(idxLit i))) ∧ w.other ∈ c := by
  unfold wlongOk
  rw [zipIdx_all_iff]
  constructor
  · intro h i ws hws w hw
    have := h i ws hws
    rw [List.all_eq_true] at this
    have := this w hw
    unfold longWatcherOk at this
    cases hc : st.clauses[w.cid]? with
    | none => simp [hc] at this
    | some c =>
      refine ⟨c, rfl, ?_⟩
      simpa [hc, and_assoc] using this
  · intro h i ws hws
    rw [List.all_eq_true]
    intro w hw
    obtain ⟨c, hc, hcc⟩ := h i ws hws w hw
    unfold longWatcherOk
    simpa [hc, and_assoc] using hcc

theorem countOk_iff (st : State) : countOk st = true ↔
    ∀ cid c, st.clauses[cid]? = some c → ∃ a b, c[0]? = some a ∧ c[1]? = some b ∧
      ∃ la lb, wget (if c.length = 2 then st.wbin else st.wlong) (-a) = some la ∧ countW la cid = 1 ∧
        wget (if c.length = 2 then st.wbin else st.wlong) (-b) = some lb ∧ countW lb cid = 1 := by
  unfold countOk
  rw [zipIdx_all_iff]
  constructor
  · intro h cid c hc
    have := h cid c hc
    unfold clauseWatched at this
    cases h0 : c[0]? with
    | none => simp [h0] at this
    | some a =>
      cases h1 : c[1]? with
      | none => simp [h0, h1] at this
      | some b =>
        simp only [h0, h1, Bool.and_eq_true] at this
        refine ⟨a, b, rfl, rfl, ?_⟩
        obtain ⟨ha, hb⟩ := this
        cases hla : wget (if c.length = 2 then st.wbin else st.wlong) (-a) with
        | none => simp [hla] at ha
        | some la =>
          cases hlb : wget (if c.length = 2 then st.wbin else st.wlong) (-b) with
          | none => simp [hlb] at hb
          | some lb =>
            refine ⟨la, lb, rfl, ?_, rfl, ?_⟩
            · simpa [hla] using ha
            · simpa [hlb] using hb
  · intro h cid c hc
    obtain ⟨a, b, h0, h1, la, lb, hla, hca, hlb, hcb⟩ := h cid c hc
    unfold clauseWatched
    simp [h0, h1, hla, hlb, hca, hcb]

theorem semBinOk_iff (st : State) (ptr : Nat) : semBinOk st ptr = true ↔
    ∀ i ws, st.wbin[i]? = some ws → idxLit i ∈ st.trail.take ptr →
      ∀ w ∈ ws, litTrueB st.model w.other = true := by
  unfold semBinOk
  rw [zipIdx_all_iff]
  constructor
  · intro h i ws hws hin w hw
    have := h i ws hws
    simp only [Bool.or_eq_true, Bool.not_eq_true', List.all_eq_true] at this
    rcases this with h1 | h1
    · rw [← Bool.not_eq_true, List.contains_iff_mem] at h1
      exact absurd hin h1
    · exact h1 w hw
  · intro h i ws hws
    simp only [Bool.or_eq_true, Bool.not_eq_true', List.all_eq_true]
    by_cases hin : idxLit i ∈ st.trail.take ptr
    · exact Or.inr (h i ws hws hin)
    · left
      rw [← Bool.not_eq_true, List.contains_iff_mem]
      exact hin

theorem semLongOk_iff (st : State) (ptr : Nat) : semLongOk st ptr = true ↔
    ∀ i ws, st.wlong[i]? = some ws → idxLit i ∈ st.trail.take ptr →
      ∀ w ∈ ws, litTrueB st.model w.other = true ∨ ∃ c, st.clauses[w.cid]? = some c ∧
        ((∃ a, c[0]? = some a ∧ litTrueB st.model a = true) ∨
         (∃ b, c[1]? = some b ∧ litTrueB st.model b = true)) := by
  unfold semLongOk
  rw [zipIdx_all_iff]
  have key : ∀ w : Watcher,
      (litTrueB st.model w.other ||
        (match st.clauses[w.cid]? with
         | some c => (match c[0]? with | some a => litTrueB st.model a | none => false) ||
                     (match c[1]? with | some b => litTrueB st.model b | none => false)
         | none => false)) = true ↔
      (litTrueB st.model w.other = true ∨ ∃ c, st.clauses[w.cid]? = some c ∧
        ((∃ a, c[0]? = some a ∧ litTrueB st.model a = true) ∨
         (∃ b, c[1]? = some b ∧ litTrueB st.model b = true))) := by
    intro w
    rw [Bool.or_eq_true]
    apply or_congr Iff.rfl
    cases hc : st.clauses[w.cid]? with
    | none => simp
    | some c =>
      cases h0 : c[0]? <;> cases h1 : c[1]? <;> simp [h0, h1]
  constructor
  · intro h i ws hws hin w hw
    have := h i ws hws
    simp only [Bool.or_eq_true (a := !_), Bool.not_eq_true', List.all_eq_true] at this
    rcases this with h1 | h1
    · rw [← Bool.not_eq_true, List.contains_iff_mem] at h1
      exact absurd hin h1
    · exact (key w).mp (h1 w hw)
  · intro h i ws hws
    simp only [Bool.or_eq_true (a := !_), Bool.not_eq_true', List.all_eq_true]
    by_cases hin : idxLit i ∈ st.trail.take ptr
    · exact Or.inr (fun w hw => (key w).mpr (h i ws hws hin w hw))
    · left
      rw [← Bool.not_eq_true, List.contains_iff_mem]
      exact hin

/-- The executable invariant says what `WatchInv` says. -/
theorem watchInv_iff (st : State) (ptr : Nat) : watchInv st ptr = true ↔ WatchInv st ptr := by
  unfold watchInv
  simp only [Bool.and_eq_true]
  rw [shapeOk_iff, clausesOk_iff, trailOk_iff, wbinOk_iff, wlongOk_iff, countOk_iff, semBinOk_iff,
    semLongOk_iff]
  constructor
  · rintro ⟨⟨⟨⟨⟨⟨⟨h1, h2⟩, h3, h4, h5, h6⟩, h7⟩, h8⟩, h9⟩, h10⟩, h11⟩
    exact ⟨h1, h2, h3, h4, h5, h6, h7, h8, h9, h10, h11⟩
  · intro h
    exact ⟨⟨⟨⟨⟨⟨⟨h.shape, h.clauses⟩, h.ptr_le, h.trail_true, h.trail_nodup, h.bound_on_trail⟩,
      h.wbin⟩, h.wlong⟩, h.count⟩, h.semBin⟩, h.semLong⟩

/-! ## Static completeness -/

theorem countW_pos_mem {ws : List Watcher} {cid : Nat} (h : countW ws cid = 1) :
    ∃ w ∈ ws, w.cid = cid := by
  have : 0 < List.countP (fun w => w.cid == cid) ws := by unfold countW at h; omega
  obtain ⟨w, hw, hp⟩ := List.countP_pos_iff.mp this
  exact ⟨w, hw, by simpa using hp⟩

theorem mem_of_getElem?_eq {α} {l : List α} {i : Nat} {x : α} (h : l[i]? = some x) : x ∈ l :=
  List.mem_of_getElem? h

/-- Key lemma: when everything on the trail has been processed, a clause one of whose two watched
    literals is false has a true literal. -/
theorem watched_false_has_true {st : State} (h : WatchInv st st.trail.length) {cid : Nat}
    {c : List Int} (hc : st.clauses[cid]? = some c) {x : Int}
    (hx : c[0]? = some x ∨ c[1]? = some x) (hf : litFalseB st.model x = true) :
    ∃ l ∈ c, litTrueB st.model l = true := by
  have hcm : c ∈ st.clauses := mem_of_getElem?_eq hc
  obtain ⟨hlen, hlits, _⟩ := h.clauses c hcm
  have hxc : x ∈ c := by rcases hx with hx | hx <;> exact mem_of_getElem?_eq hx
  obtain ⟨hx0, hxn⟩ := hlits x hxc
  -- the variable of x is bound, hence on the trail, by the literal ¬x
  obtain ⟨_, a, ha, ha0, _⟩ := litFalseB_iff.mp hf
  have hxpos : 0 < x.natAbs := Int.natAbs_pos.mpr hx0
  have hbt := h.bound_on_trail (x.natAbs - 1) (by omega)
  have hmem : x.natAbs ∈ st.trail.map Int.natAbs := by
    rcases hbt with hb | hb
    · rw [ha] at hb; cases hb; exact absurd rfl ha0
    · have : x.natAbs - 1 + 1 = x.natAbs := by omega
      rwa [this] at hb
  obtain ⟨t, ht, htv⟩ := List.mem_map.mp hmem
  have htt := h.trail_true t ht
  have hteq : t = -x := eq_neg_of_true_false htt hf htv
  have hnx0 : -x ≠ 0 := by omega
  have hidx : idxLit (litIdx (-x)) ∈ st.trail.take st.trail.length := by
    rw [idxLit_litIdx hnx0, List.take_length, ← hteq]; exact ht
  -- the watcher of the clause in the list of ¬x
  obtain ⟨a', b', h0, h1, la, lb, hla, hca, hlb, hcb⟩ := h.count cid c hc
  have hwx : ∃ lx, wget (if c.length = 2 then st.wbin else st.wlong) (-x) = some lx ∧
      countW lx cid = 1 := by
    rcases hx with hx | hx
    · rw [h0] at hx; cases hx; exact ⟨la, hla, hca⟩
    · rw [h1] at hx; cases hx; exact ⟨lb, hlb, hcb⟩
  obtain ⟨lx, hlx, hcx⟩ := hwx
  obtain ⟨w, hw, hwc⟩ := countW_pos_mem hcx
  unfold wget at hlx
  simp only [hnx0, if_false] at hlx
  by_cases h2 : c.length = 2
  · simp only [h2, if_true] at hlx
    have htrue := h.semBin _ lx hlx hidx w hw
    obtain ⟨c', hc', hshape⟩ := h.wbin _ lx hlx w hw
    rw [hwc, hc] at hc'
    cases hc'
    refine ⟨w.other, ?_, htrue⟩
    rcases hshape with hs | hs <;> rw [hs] <;> simp
  · simp only [h2, if_false] at hlx
    obtain ⟨c', hc', _, _, hoc⟩ := h.wlong _ lx hlx w hw
    rw [hwc, hc] at hc'
    cases hc'
    rcases h.semLong _ lx hlx hidx w hw with htrue | ⟨c'', hc'', hw01⟩
    · exact ⟨w.other, hoc, htrue⟩
    · rw [hwc, hc] at hc''
      cases hc''
      rcases hw01 with ⟨y, hy, hyt⟩ | ⟨y, hy, hyt⟩
      · exact ⟨y, mem_of_getElem?_eq hy, hyt⟩
      · exact ⟨y, mem_of_getElem?_eq hy, hyt⟩

/-- **Static completeness.**  In a state satisfying `watchInv` in which every trail literal has been
    processed (`ptr = trail.length`: what `propagate` returns with `nil`), no clause has all its
    literals false (no missed conflict), and no clause has an unbound literal while all its other
    literals are false (nothing left to propagate). -/
theorem watch_complete {st : State} (h : watchInv st st.trail.length = true) :
    ∀ c ∈ st.clauses,
      (¬ ∀ l ∈ c, litFalseB st.model l = true) ∧
      (∀ (i : Nat) (x : Int), c[i]? = some x → litUnboundB st.model x = true →
        ¬ ∀ (j : Nat) (y : Int), j ≠ i → c[j]? = some y → litFalseB st.model y = true) := by
  rw [watchInv_iff] at h
  intro c hcm
  obtain ⟨cid, hc⟩ := List.getElem?_of_mem hcm
  obtain ⟨hlen, _, _⟩ := h.clauses c hcm
  have h0 : c[0]? = some c[0] := List.getElem?_eq_getElem (by omega)
  have h1 : c[1]? = some c[1] := List.getElem?_eq_getElem (by omega)
  constructor
  · intro hall
    have hf := hall c[0] (List.getElem_mem _)
    obtain ⟨l, hl, hlt⟩ := watched_false_has_true h hc (Or.inl h0) hf
    exact not_true_and_false hlt (hall l hl)
  · intro i x hi hu hall
    have key : ∀ k, (k = 0 ∨ k = 1) → k ≠ i → ∀ y, c[k]? = some y → False := by
      intro k hk hki y hy
      have hf := hall k y hki hy
      have hk' : c[0]? = some y ∨ c[1]? = some y := by
        rcases hk with hk | hk <;> subst hk
        · exact Or.inl hy
        · exact Or.inr hy
      obtain ⟨l, hl, hlt⟩ := watched_false_has_true h hc hk' hf
      obtain ⟨j, hj⟩ := List.getElem?_of_mem hl
      by_cases hji : j = i
      · subst hji
        rw [hi] at hj; cases hj
        exact not_true_and_unbound hlt hu
      · exact not_true_and_false hlt (hall j l hji hj)
    by_cases hi0 : i = 0
    · exact key 1 (Or.inr rfl) (by omega) _ h1
    · exact key 0 (Or.inl rfl) (by omega) _ h0

/-- the total assignment read off the binding array: variable `v` is true iff `model[v-1] > 0` -/
def modelAsg (m : List Int) : GS.Asg := fun v => decide ((m[v - 1]?).getD 0 > 0)

theorem litTrue_modelAsg {m : List Int} {l : Int} (h : litTrueB m l = true) :
    GS.litTrue (modelAsg m) l = true := by
  obtain ⟨_, a, ha, _, hal⟩ := litTrueB_iff.mp h
  unfold GS.litTrue modelAsg
  by_cases hp : l > 0
  · simp [hp, ha, hal.mpr hp]
  · have : ¬ a > 0 := fun h => hp (hal.mp h)
    simp [hp, ha, this]

/-- **A total assignment reached by propagation is a model.**  If moreover every variable is bound,
    the assignment read off the binding array satisfies every clause the solver holds. -/
theorem watch_total_model {st : State} (h : watchInv st st.trail.length = true)
    (htot : ∀ a ∈ st.model, a ≠ 0) : GS.cnfTrue (modelAsg st.model) st.clauses = true := by
  have hw := (watchInv_iff _ _).mp h
  unfold GS.cnfTrue
  rw [List.all_eq_true]
  intro c hcm
  obtain ⟨hnf, _⟩ := watch_complete h c hcm
  obtain ⟨_, hlits, _⟩ := hw.clauses c hcm
  unfold GS.clauseTrue
  rw [List.any_eq_true]
  apply Classical.byContradiction
  intro hno
  apply hnf
  intro l hl
  obtain ⟨hl0, hln⟩ := hlits l hl
  have hpos : 0 < l.natAbs := Int.natAbs_pos.mpr hl0
  have hlt : l.natAbs - 1 < st.model.length := by omega
  have hget : st.model[l.natAbs - 1]? = some st.model[l.natAbs - 1] := List.getElem?_eq_getElem hlt
  have hne : st.model[l.natAbs - 1] ≠ 0 := htot _ (List.getElem_mem _)
  by_cases hs : (st.model[l.natAbs - 1] > 0 ↔ l > 0)
  · exfalso
    apply hno
    exact ⟨l, hl, litTrue_modelAsg (litTrueB_iff.mpr ⟨hl0, _, hget, hne, hs⟩)⟩
  · exact litFalseB_iff.mpr ⟨hl0, _, hget, hne, hs⟩

end GS.Watch
