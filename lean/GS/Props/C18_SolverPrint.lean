import GS.Model.SolverPrint
import GS.Props.C13_Formats
/-!
# C18 — what `Solver.PBString()` prints reads back as the constraints the solver holds

Stated on lines of fields (`GS.Model.SolverPrint.printSolver`), read by the mirror of
`solver.ParseOPB` (`GS.Formats.parseOpbLines`); the text itself (`printSolverText`) was compared
byte for byte with the Go method on 2157 solver states, and cut into fields (`lexText`) it gives
`printSolver` on all of them.

* `mem_topLits`, `topLits_all_iff`   : the printed bindings are the entries `±1` of `s.model`, no other;
* `printSolver_eq_render`            : the text is a rendering of the OPB file `solverOpb`;
* `solver_print_parse` (`_iff`)      : read back without error; models = bindings ∧ original ∧ learned; same cost;
* `solver_print_models_of`, `solver_print_models` : same models as the problem (`Entails`);
* `solver_print_eq_problem_print`    : fresh solver vs `Problem.PBString()`;
* examples and findings at the end (status `Unsat` not printed; variables above the last one
  written are lost; literals given to `Assume` sit at level 1 and are printed as facts, so that
  the hypothesis `hbind` of `solver_print_models` does not hold for them).
-/
namespace GS.SolverPrint
open GS GS.Constr GS.Formats

/-! ## The top-level bindings -/

theorem mem_bindingsFrom : ∀ (model : List Int) (i : Nat) (b : Nat × Int),
    b ∈ bindingsFrom i model ↔
      ∃ j, (model[j]? = some 1 ∧ b = (i + j + 1, 1)) ∨ (model[j]? = some (-1) ∧ b = (i + j + 1, 0)) := by
  intro model
  induction model with
  | nil => intro i b; simp [bindingsFrom]
  | cons m ms ih =>
    intro i b
    simp only [bindingsFrom, List.mem_append, ih]
    constructor
    · rintro (h | ⟨j, h⟩)
      · refine ⟨0, ?_⟩
        by_cases h1 : m = 1
        · simp [h1] at h ⊢; exact h
        · by_cases h2 : m = -1
          · simp [h2] at h ⊢; exact h
          · simp [h1, h2] at h
      · refine ⟨j + 1, ?_⟩
        simp only [List.getElem?_cons_succ]
        rcases h with ⟨h, rfl⟩ | ⟨h, rfl⟩
        · exact Or.inl ⟨h, by congr 1; omega⟩
        · exact Or.inr ⟨h, by congr 1; omega⟩
    · rintro ⟨j, h⟩
      cases j with
      | zero =>
        left
        simp only [List.getElem?_cons_zero, Option.some.injEq, Nat.add_zero] at h
        rcases h with ⟨h, rfl⟩ | ⟨h, rfl⟩
        · simp [h]
        · simp [h]
      | succ j =>
        right
        refine ⟨j, ?_⟩
        simp only [List.getElem?_cons_succ] at h
        rcases h with ⟨h, rfl⟩ | ⟨h, rfl⟩
        · exact Or.inl ⟨h, by congr 1; omega⟩
        · exact Or.inr ⟨h, by congr 1; omega⟩

/-- **Which bindings are printed.** Exactly the variables whose entry in `s.model` is `1` or
    `-1` — the top level; an entry `±lvl` with `lvl ≥ 2` (a decision or a propagation of the
    search) is never printed. -/
theorem mem_topLits (model : List Int) (l : Int) :
    l ∈ topLits model ↔
      ∃ j, (model[j]? = some 1 ∧ l = ((j + 1 : Nat) : Int)) ∨ (model[j]? = some (-1) ∧ l = -((j + 1 : Nat) : Int)) := by
  simp only [topLits, bindings, List.mem_map, mem_bindingsFrom]
  constructor
  · rintro ⟨b, ⟨j, h⟩, rfl⟩
    refine ⟨j, ?_⟩
    rcases h with ⟨h, rfl⟩ | ⟨h, rfl⟩
    · exact Or.inl ⟨h, by simp [bindLit]⟩
    · exact Or.inr ⟨h, by simp [bindLit]⟩
  · rintro ⟨j, h⟩
    rcases h with ⟨h, rfl⟩ | ⟨h, rfl⟩
    · exact ⟨(j + 1, 1), ⟨j, Or.inl ⟨h, by simp⟩⟩, by simp [bindLit]⟩
    · exact ⟨(j + 1, 0), ⟨j, Or.inr ⟨h, by simp⟩⟩, by simp [bindLit]⟩

theorem litTrue_posNat (a : Asg) (n : Nat) : litTrue a ((n + 1 : Nat) : Int) = a (n + 1) := by
  have h : ((n + 1 : Nat) : Int) > 0 := by omega
  have h2 : ((n + 1 : Nat) : Int).natAbs = n + 1 := by omega
  simp only [litTrue, h, if_true, h2]

theorem litTrue_negNat (a : Asg) (n : Nat) : litTrue a (-((n + 1 : Nat) : Int)) = !a (n + 1) := by
  have h : ¬ (-((n + 1 : Nat) : Int) > 0) := by omega
  have h2 : (-((n + 1 : Nat) : Int)).natAbs = n + 1 := by omega
  simp only [litTrue, h, if_false, h2]

/-- The bindings of the top level hold under `a`. -/
def bindingsHold (a : Asg) (model : List Int) : Prop :=
  ∀ j, (model[j]? = some 1 → a (j + 1) = true) ∧ (model[j]? = some (-1) → a (j + 1) = false)

theorem topLits_all_iff (a : Asg) (model : List Int) :
    (topLits model).all (litTrue a) = true ↔ bindingsHold a model := by
  rw [List.all_eq_true]
  constructor
  · intro h j
    constructor
    · intro hj
      have := h _ ((mem_topLits model _).2 ⟨j, Or.inl ⟨hj, rfl⟩⟩)
      rw [litTrue_posNat] at this
      exact this
    · intro hj
      have := h _ ((mem_topLits model _).2 ⟨j, Or.inr ⟨hj, rfl⟩⟩)
      rw [litTrue_negNat] at this
      simpa using this
  · intro h l hl
    obtain ⟨j, hj⟩ := (mem_topLits model l).1 hl
    rcases hj with ⟨hj, rfl⟩ | ⟨hj, rfl⟩
    · rw [litTrue_posNat]; exact (h j).1 hj
    · rw [litTrue_negNat]; simp [(h j).2 hj]

/-! ## The printed text as an OPB file -/

/-- A printed binding `1 x<v> = <val> ;`, as an OPB constraint. -/
def bindC (b : Nat × Int) : OpbConstr := ⟨[(1, (b.1 : Int))], .eq, b.2⟩

/-- The OPB file `Solver.PBString()` writes. -/
def solverOpb (st : State) : Opb :=
  ⟨st.obj, st.orig.map clauseC ++ (st.learned.map clauseC ++ (bindings st.model).map bindC)⟩

/-- Its layout: one comment line first, nothing else. -/
def solverLayout (st : State) : OpbLayout :=
  { objective := { skips := [some [.word "#variable=", .int st.nbVars, .word "#constraint=",
      .int st.orig.length, .word "#learned=", .int st.learned.length]] } }

/-- What the printer needs of a constraint to write a line `ParseOPB` reads:
    at least one term, no literal 0, no negative weight after the first term (`+-2` is not an
    integer field). Go guarantees more: `NewPBClause` / `NewCardClause` / `NewLearnedClause` are
    called with at least two literals, all weights are `≥ 1`. -/
def clauseOk (c : PBC) : Prop :=
  c.terms ≠ [] ∧ (∀ t ∈ c.terms, t.2 ≠ 0) ∧ (∀ t ∈ c.terms.tail, 0 ≤ t.1)

instance (c : PBC) : Decidable (clauseOk c) := by unfold clauseOk; infer_instance

theorem pbClauseLine_eq (c : PBC) (h : ∀ t ∈ c.terms.tail, 0 ≤ t.1) :
    pbClauseLine c = (clauseC c).renderLine [] := by
  simp [pbClauseLine, clauseC, OpbConstr.renderLine, relTok, pbTermsToks_eq c.terms h]

theorem bindLine_eq (b : Nat × Int) : bindLine b = (bindC b).renderLine [] := by
  simp [bindLine, bindC, OpbConstr.renderLine, relTok, renderTerms, renderTerm]

/-- `Solver.PBString()` is a rendering of `solverOpb`. -/
theorem printSolver_eq_render (st : State)
    (hc : ∀ c ∈ st.orig ++ st.learned, ∀ t ∈ c.terms.tail, 0 ≤ t.1) :
    printSolver st = (solverOpb st).renderLines (solverLayout st) := by
  have h1 : st.orig.map pbClauseLine = st.orig.map (fun c => (clauseC c).renderLine []) :=
    List.map_congr_left (fun c hm => pbClauseLine_eq c (hc c (by simp [hm])))
  have h2 : st.learned.map pbClauseLine = st.learned.map (fun c => (clauseC c).renderLine []) :=
    List.map_congr_left (fun c hm => pbClauseLine_eq c (hc c (by simp [hm])))
  have h3 : (bindings st.model).map bindLine = (bindings st.model).map (fun b => (bindC b).renderLine []) :=
    List.map_congr_left (fun b _ => bindLine_eq b)
  simp only [printSolver, solverOpb, solverLayout, Opb.renderLines, renderObjectiveLines,
    renderConstrs_default, List.map_nil, List.append_nil, List.map_append, List.map_map, h1, h2, h3,
    List.map_cons, List.cons_append, List.nil_append, headerLine, Function.comp_def]
  cases st.obj with
  | none => rfl
  | some ts => simp [minLines, costLine, renderObjective, renderTerms_default]

theorem clauseC_sem (a : Asg) (c : PBC) : (clauseC c).sem a = c.sem a := rfl

theorem bindingsFrom_shape (model : List Int) (i : Nat) (b : Nat × Int) (h : b ∈ bindingsFrom i model) :
    1 ≤ b.1 ∧ (b.2 = 1 ∨ b.2 = 0) := by
  obtain ⟨j, hj⟩ := (mem_bindingsFrom model i b).1 h
  rcases hj with ⟨_, rfl⟩ | ⟨_, rfl⟩ <;> simp

theorem bindC_sem (a : Asg) (b : Nat × Int) (h1 : 1 ≤ b.1) (h2 : b.2 = 1 ∨ b.2 = 0) :
    (bindC b).sem a = litTrue a (bindLit b) := by
  obtain ⟨v, val⟩ := b
  obtain ⟨n, rfl⟩ : ∃ n, v = n + 1 := ⟨v - 1, by simp at h1; omega⟩
  simp only at h2
  rcases h2 with rfl | rfl
  · have e : bindLit (n + 1, 1) = ((n + 1 : Nat) : Int) := by simp [bindLit]
    have e2 : (bindC (n + 1, 1)).sem a = decide (termVal a (1, ((n + 1 : Nat) : Int)) + 0 = 1) := rfl
    rw [e, e2]
    simp only [termVal, litTrue_posNat]
    cases a (n + 1) <;> simp
  · have e : bindLit (n + 1, 0) = -((n + 1 : Nat) : Int) := by simp [bindLit]
    have e2 : (bindC (n + 1, 0)).sem a = decide (termVal a (1, ((n + 1 : Nat) : Int)) + 0 = 0) := rfl
    rw [e, e2]
    simp only [termVal, litTrue_posNat, litTrue_negNat]
    cases a (n + 1) <;> simp

theorem solverOpb_sem (a : Asg) (st : State) :
    (solverOpb st).sem a =
      ((topLits st.model).all (litTrue a) && st.orig.all (·.sem a) && st.learned.all (·.sem a)) := by
  have hb : ((bindings st.model).map bindC).all (·.sem a) = (topLits st.model).all (litTrue a) := by
    rw [Bool.eq_iff_iff]
    simp only [topLits, List.all_map, List.all_eq_true, Function.comp_def]
    constructor
    · intro h b hb
      have := bindingsFrom_shape st.model 0 b hb
      rw [← bindC_sem a b this.1 this.2]; exact h b hb
    · intro h b hb
      have := bindingsFrom_shape st.model 0 b hb
      rw [bindC_sem a b this.1 this.2]; exact h b hb
  simp only [Opb.sem, solverOpb, List.all_append, hb]
  simp only [List.all_map, Function.comp_def, clauseC_sem]
  cases (topLits st.model).all (litTrue a) <;> cases st.orig.all (·.sem a) <;>
    cases st.learned.all (·.sem a) <;> rfl

theorem solverOpb_wf (st : State) (hc : ∀ c ∈ st.orig ++ st.learned, clauseOk c) : (solverOpb st).wf = true := by
  simp only [Opb.wf, solverOpb, List.all_append, List.all_map, Bool.and_eq_true, List.all_eq_true]
  have hcl : ∀ c, clauseOk c → (clauseC c).wf = true := by
    intro c ⟨h1, h2, _⟩
    simp only [OpbConstr.wf, clauseC, Bool.and_eq_true, List.all_eq_true, bne_iff_ne, ne_eq,
      Bool.not_eq_true', List.isEmpty_eq_false_iff]
    exact ⟨h2, h1⟩
  refine ⟨fun c h => hcl c (hc c (by simp [h])), fun c h => hcl c (hc c (by simp [h])), fun b hb => ?_⟩
  have := (bindingsFrom_shape st.model 0 b hb).1
  simp [OpbConstr.wf, bindC]
  omega

/-- **C18, solver.** Whenever every constraint the solver holds has at least one term, no
    literal 0 and no negative weight after its first term, `solver.ParseOPB` reads what
    `Solver.PBString()` prints without error or panic, and what it builds has

    * the solver's cost function, term for term (any sign of the weights) — hence the same
      cost under every assignment;
    * for models exactly the assignments under which every top-level binding (entries `±1` of
      `s.model`, and only these), every original constraint and every learned constraint hold —
      for the `PBConstr`s returned by `GtEq` / `Eq` (all in normal form) as well as for what the
      per-constraint case analysis of the parser keeps (`Units`, `Clauses`, `Status`). -/
theorem solver_print_parse (st : State) (hc : ∀ c ∈ st.orig ++ st.learned, clauseOk c) :
    ∃ r, parseOpbLines (printSolver st) = .ok r ∧ r.obj = st.obj ∧
      (∀ p ∈ r.constrs, p.normal = true) ∧
      (∀ a, r.constrs.all (·.sem a) =
        ((topLits st.model).all (litTrue a) && st.orig.all (·.sem a) && st.learned.all (·.sem a))) ∧
      (∀ a, r.frontSem a =
        ((topLits st.model).all (litTrue a) && st.orig.all (·.sem a) && st.learned.all (·.sem a))) ∧
      (∀ a, cost (r.obj.getD []) a = cost (st.obj.getD []) a) := by
  rw [printSolver_eq_render st (fun c h => (hc c h).2.2)]
  obtain ⟨r, h1, h2, _, h4, h5, h6, _⟩ := parseOpb_render (solverOpb st) (solverLayout st) (solverOpb_wf st hc)
  exact ⟨r, h1, h2, h4, fun a => by rw [h5, solverOpb_sem], fun a => by rw [h6, solverOpb_sem],
    fun a => by rw [h2]; rfl⟩

/-- The same, with the models spelled out. -/
theorem solver_print_parse_iff (st : State) (hc : ∀ c ∈ st.orig ++ st.learned, clauseOk c) :
    ∃ r, parseOpbLines (printSolver st) = .ok r ∧
      ∀ a, r.frontSem a = true ↔
        (bindingsHold a st.model ∧ (∀ c ∈ st.orig, c.sem a = true) ∧ (∀ c ∈ st.learned, c.sem a = true)) := by
  obtain ⟨r, h1, _, _, _, h5, _⟩ := solver_print_parse st hc
  refine ⟨r, h1, fun a => ?_⟩
  rw [h5, Bool.and_eq_true, Bool.and_eq_true, topLits_all_iff, List.all_eq_true, List.all_eq_true, and_assoc]

/-! ## Same models as the constraints of the problem -/

/-- A constraint of the solver as a linear constraint of the specification. -/
def linOf (c : PBC) : Lin := ⟨c.terms, c.atLeast⟩

theorem linOf_holds (a : Asg) (c : PBC) : (linOf c).holds a = c.sem a := rfl

theorem holds_map_linOf (a : Asg) (cs : List PBC) : Problem.holds a (cs.map linOf) = cs.all (·.sem a) := by
  simp only [Problem.holds, List.all_map, Function.comp_def, linOf_holds]

theorem ofClause_unit_holds (a : Asg) (l : Int) : (Lin.ofClause [l]).holds a = litTrue a l := by
  simp only [Lin.ofClause, Lin.holds, List.map_cons, List.map_nil, lhs, termVal]
  cases litTrue a l <;> simp

/-- **C18, solver, against any reference problem `Q`.** If `Q` entails every constraint the
    solver holds, every learned constraint and every top-level binding, and if the original
    constraints together with the top-level bindings entail `Q` (this is how `New` receives a
    problem: the units of the problem have been removed from its clauses and sit in `s.model` at
    level 1), then the text read back has exactly the models of `Q` and the solver's cost. -/
theorem solver_print_models_of (st : State) (Q : Problem)
    (hc : ∀ c ∈ st.orig ++ st.learned, clauseOk c)
    (horig : ∀ c ∈ st.orig, Entails Q (linOf c))
    (hlearned : ∀ c ∈ st.learned, Entails Q (linOf c))
    (hbind : ∀ l ∈ topLits st.model, Entails Q (Lin.ofClause [l]))
    (hback : ∀ a, Problem.holds a (st.orig.map linOf) = true → (topLits st.model).all (litTrue a) = true →
      Problem.holds a Q = true) :
    ∃ r, parseOpbLines (printSolver st) = .ok r ∧ r.obj = st.obj ∧
      (∀ a, r.frontSem a = Problem.holds a Q) ∧
      (∀ a, cost (r.obj.getD []) a = cost (st.obj.getD []) a) := by
  obtain ⟨r, h1, h2, _, _, h5, h6⟩ := solver_print_parse st hc
  refine ⟨r, h1, h2, fun a => ?_, h6⟩
  rw [h5, Bool.eq_iff_iff]
  constructor
  · intro h
    simp only [Bool.and_eq_true] at h
    exact hback a (by rw [holds_map_linOf]; exact h.1.2) h.1.1
  · intro hq
    simp only [Bool.and_eq_true, List.all_eq_true]
    refine ⟨⟨fun l hl => ?_, fun c hcm => ?_⟩, fun c hcm => ?_⟩
    · rw [← ofClause_unit_holds]; exact hbind l hl a hq
    · rw [← linOf_holds]; exact horig c hcm a hq
    · rw [← linOf_holds]; exact hlearned c hcm a hq

/-- **C18, solver, same models.** If the learned constraints and the top-level bindings are
    entailed by the original constraints (soundness of the analysis and of top-level
    propagation: C01 / C06 / C14), the text read back has exactly the models of the original
    constraints. -/
theorem solver_print_models (st : State)
    (hc : ∀ c ∈ st.orig ++ st.learned, clauseOk c)
    (hlearned : ∀ c ∈ st.learned, Entails (st.orig.map linOf) (linOf c))
    (hbind : ∀ l ∈ topLits st.model, Entails (st.orig.map linOf) (Lin.ofClause [l])) :
    ∃ r, parseOpbLines (printSolver st) = .ok r ∧ r.obj = st.obj ∧
      (∀ a, r.frontSem a = Problem.holds a (st.orig.map linOf)) ∧
      (∀ a, cost (r.obj.getD []) a = cost (st.obj.getD []) a) := by
  refine solver_print_models_of st (st.orig.map linOf) hc (fun c hcm a ha => ?_) hlearned hbind
    (fun a ha _ => ha)
  rw [holds_map_linOf, List.all_eq_true] at ha
  rw [linOf_holds]; exact ha c hcm

/-! ## A fresh solver prints its problem -/

theorem setUnit_length (m : List Int) (u : Int) : (setUnit m u).length = m.length := by
  simp [setUnit]

theorem foldl_setUnit_length : ∀ (us : List Int) (m : List Int), (us.foldl setUnit m).length = m.length := by
  intro us
  induction us with
  | nil => intro m; rfl
  | cons u us ih => intro m; simp only [List.foldl_cons, ih, setUnit_length]

theorem getElem?_setUnit (m : List Int) (u : Int) (i : Nat) :
    (setUnit m u)[i]? =
      if u.natAbs - 1 = i then (if i < m.length then some (if u > 0 then 1 else -1) else none) else m[i]? := by
  unfold setUnit
  rw [List.getElem?_set]
  by_cases h : u.natAbs - 1 = i
  · subst h; simp
  · simp [h]

/-- Units about other variables leave an entry alone. -/
theorem foldl_setUnit_other (i : Nat) : ∀ (us : List Int) (m : List Int),
    (∀ u ∈ us, u ≠ 0 ∧ u.natAbs ≠ i + 1) → (us.foldl setUnit m)[i]? = m[i]? := by
  intro us
  induction us with
  | nil => intro m _; rfl
  | cons u us ih =>
    intro m h
    simp only [List.foldl_cons]
    rw [ih (setUnit m u) (fun u' h' => h u' (by simp [h'])), getElem?_setUnit]
    have := h u (by simp)
    have hne : ¬ (u.natAbs - 1 = i) := by omega
    simp [hne]

/-- A unit of a consistent list is written and stays. -/
theorem foldl_setUnit_mem (l : Int) (i : Nat) (hl : l.natAbs = i + 1) : ∀ (us : List Int) (m : List Int),
    (∀ u ∈ us, u ≠ 0) → l ∈ us → -l ∉ us → i < m.length →
    (us.foldl setUnit m)[i]? = some (if l > 0 then 1 else -1) := by
  intro us
  induction us with
  | nil => intro m _ h; simp at h
  | cons u us ih =>
    intro m hz hmem hneg hlen
    simp only [List.foldl_cons]
    have hneg' : -l ∉ us := fun h => hneg (by simp [h])
    by_cases hin : l ∈ us
    · exact ih (setUnit m u) (fun u' h' => hz u' (by simp [h'])) hin hneg' (by rw [setUnit_length]; exact hlen)
    · have hu : u = l := by
        rcases List.mem_cons.1 hmem with h | h
        · exact h.symm
        · exact absurd h hin
      subst hu
      rw [foldl_setUnit_other i us _ (fun u' h' => ⟨hz u' (by simp [h']), fun habs => ?_⟩), getElem?_setUnit]
      · have : u.natAbs - 1 = i := by omega
        simp [this, hlen]
      · have : u' = u ∨ u' = -u := by omega
        rcases this with rfl | rfl
        · exact hin h'
        · exact hneg' h'

/-- A non-zero entry comes from the initial array or from a unit. -/
theorem foldl_setUnit_inv (i : Nat) (v : Int) : ∀ (us : List Int) (m : List Int),
    (∀ u ∈ us, u ≠ 0) → (us.foldl setUnit m)[i]? = some v →
    m[i]? = some v ∨ ∃ u ∈ us, u.natAbs = i + 1 ∧ v = if u > 0 then 1 else -1 := by
  intro us
  induction us with
  | nil => intro m _ h; exact Or.inl h
  | cons u us ih =>
    intro m hz h
    simp only [List.foldl_cons] at h
    rcases ih (setUnit m u) (fun u' h' => hz u' (by simp [h'])) h with h1 | ⟨u', hu', h2⟩
    · rw [getElem?_setUnit] at h1
      by_cases he : u.natAbs - 1 = i
      · rw [if_pos he] at h1
        by_cases hlt : i < m.length
        · rw [if_pos hlt] at h1
          have hu0 := hz u (by simp)
          exact Or.inr ⟨u, by simp, by omega, by simpa using h1.symm⟩
        · rw [if_neg hlt] at h1; cases h1
      · rw [if_neg he] at h1; exact Or.inl h1
    · exact Or.inr ⟨u', by simp [hu'], h2⟩

/-- **The bindings a fresh solver prints are the units of its problem** (each once, by
    increasing variable), when the units are non-zero, within the variables and consistent —
    which is what the parsers guarantee of a problem whose status is not `Unsat`. -/
theorem mem_topLits_fresh (n : Nat) (us : List Int) (hu : ∀ u ∈ us, u ≠ 0 ∧ u.natAbs ≤ n)
    (hcons : ∀ u ∈ us, -u ∉ us) (l : Int) : l ∈ topLits (modelOfUnits n us) ↔ l ∈ us := by
  have hz : ∀ u ∈ us, u ≠ 0 := fun u h => (hu u h).1
  rw [mem_topLits]
  constructor
  · rintro ⟨j, h⟩
    rcases h with ⟨h, rfl⟩ | ⟨h, rfl⟩
    · rcases foldl_setUnit_inv j 1 us _ hz h with h1 | ⟨u, hu1, hu2, hu3⟩
      · rw [List.getElem?_replicate] at h1; split at h1 <;> simp at h1
      · have hpos : u > 0 := by
          by_cases hp : u > 0
          · exact hp
          · simp [hp] at hu3
        have : u = ((j + 1 : Nat) : Int) := by omega
        rw [← this]; exact hu1
    · rcases foldl_setUnit_inv j (-1) us _ hz h with h1 | ⟨u, hu1, hu2, hu3⟩
      · rw [List.getElem?_replicate] at h1; split at h1 <;> simp at h1
      · have hneg : ¬ u > 0 := by
          intro hp
          simp [hp] at hu3
        have : u = -((j + 1 : Nat) : Int) := by omega
        rw [← this]; exact hu1
  · intro hl
    obtain ⟨hl0, hln⟩ := hu l hl
    refine ⟨l.natAbs - 1, ?_⟩
    have hj : l.natAbs = (l.natAbs - 1) + 1 := by omega
    have := foldl_setUnit_mem l (l.natAbs - 1) hj us (List.replicate n 0) hz hl (hcons l hl)
      (by simp; omega)
    unfold modelOfUnits
    rw [this]
    by_cases hp : l > 0
    · left; simp only [hp, if_true, true_and]; omega
    · right; simp only [hp, if_false, true_and]; omega

/-- **C18, fresh solver.** For a solver just made from a problem (no learned constraint, the
    model array holding the problem's units), `Solver.PBString()` and `Problem.PBString()` print
    the same cost line and the same clause lines; they differ by the comment line (solver
    only), by the place of the units (solver: after the clauses, by increasing variable, each
    once, a false variable as `1 x<v> = 0 ;`; problem: before the clauses, in the order of
    `pb.Units`, a false variable as `1 ~x<v> = 1 ;`) — and the bound literals are the same set.
    Both texts are read back without error, with the same cost function and the same models. -/
theorem solver_print_eq_problem_print (n : Nat) (obj : Option (List (Int × Int))) (units : List Int)
    (clauses : List PBC) (hu : ∀ u ∈ units, u ≠ 0 ∧ u.natAbs ≤ n) (hcons : ∀ u ∈ units, -u ∉ units)
    (hc : ∀ c ∈ clauses, clauseOk c) :
    printSolver (freshState n obj units clauses) =
      headerLine n clauses.length 0 ::
        (minLines obj ++ (clauses.map pbClauseLine ++ (bindings (modelOfUnits n units)).map bindLine)) ∧
    printPB obj units clauses = minLines obj ++ (units.map pbUnitLine ++ clauses.map pbClauseLine) ∧
    (∀ l, l ∈ topLits (modelOfUnits n units) ↔ l ∈ units) ∧
    ∃ r1 r2, parseOpbLines (printSolver (freshState n obj units clauses)) = .ok r1 ∧
      parseOpbLines (printPB obj units clauses) = .ok r2 ∧ r1.obj = obj ∧ r2.obj = obj ∧
      (∀ a, r1.frontSem a = r2.frontSem a) ∧
      (∀ a, r1.frontSem a = (units.all (litTrue a) && clauses.all (·.sem a))) := by
  have hmem := mem_topLits_fresh n units hu hcons
  refine ⟨by simp [printSolver, freshState], by cases obj <;> rfl, hmem, ?_⟩
  obtain ⟨r1, p1, p2, _, _, p5, _⟩ := solver_print_parse (freshState n obj units clauses)
    (by intro c h; simp [freshState] at h; exact hc c h)
  obtain ⟨r2, q1, q2, _, _, q5, _⟩ := pb_print_parse obj units clauses (fun u h => (hu u h).1) hc
  have hall : ∀ a, (topLits (modelOfUnits n units)).all (litTrue a) = units.all (litTrue a) := by
    intro a
    rw [Bool.eq_iff_iff, List.all_eq_true, List.all_eq_true]
    exact ⟨fun h l hl => h l ((hmem l).2 hl), fun h l hl => h l ((hmem l).1 hl)⟩
  have key : ∀ a, r1.frontSem a = (units.all (litTrue a) && clauses.all (·.sem a)) := by
    intro a
    rw [p5]
    simp [freshState, hall]
  exact ⟨r1, r2, p1, q1, p2, q2, fun a => by rw [key, q5], key⟩

/-! ## Concrete states -/

/-- A cost function with a negative and a null coefficient, a PB constraint and a clause. -/
def exCost : State :=
  State.ofGo 3 (some [1, -2, 3]) (some [3, -2, 0])
    [{ lits := [3, 2, 1], weights := some [4, 3, 2], low := 4 }, { lits := [1, -2] }] [] [0, 0, 0]

/-- A cardinality constraint, a learned clause whose LBD is 3 (printed with degree 1), `x2`
    false and `x4` true at the top level, `x1` false at level 2 and `x3` true at level 3. -/
def exLearned : State :=
  State.ofGo 4 none none [{ lits := [1, 2, 3], low := 1 }] [learnedCl [-1, 4] 3] [-2, -1, 3, 1]

/-- What `New` returns for a problem refuted by its parser: `&Solver{status: Unsat}`. -/
def exRefuted : State := State.ofGo 0 none none [] [] []

/-- Two variables, the cost function `min: 1 ~x1`, `x1` true at the top level, no constraint
    left, `x2` free. -/
def exFewerVars : State := State.ofGo 2 (some [-1]) none [] [] [1, 0]

set_option maxRecDepth 4096 in
example : printSolverText exCost =
    "* #variable= 3 #constraint= 2 #learned= 0\nmin: 3 x1 -2 ~x2 +0 x3 ;\n4 x3 +3 x2 +2 x1 >= 5 ;\n1 x1 +1 ~x2 >= 1 ;" ∧
    lexText (printSolverText exCost) = printSolver exCost ∧
    (∀ c ∈ exCost.orig ++ exCost.learned, clauseOk c) ∧
    (parseOpbLines (printSolver exCost)).toOption =
      some { nbVars := 3, obj := some [(3, 1), (-2, -2), (0, 3)],
             constrs := [⟨[3, 2, 1], some [4, 3, 2], 5⟩, ⟨[1, -2], some [1, 1], 1⟩], units := [],
             kept := [⟨[3, 2, 1], some [4, 3, 2], 5⟩, ⟨[1, -2], some [1, 1], 1⟩], unsat := false } := by
  decide

set_option maxRecDepth 4096 in
example : printSolverText exLearned =
    "* #variable= 4 #constraint= 1 #learned= 1\n1 x1 +1 x2 +1 x3 >= 2 ;\n1 ~x1 +1 x4 >= 1 ;\n1 x2 = 0 ;\n1 x4 = 1 ;" ∧
    lexText (printSolverText exLearned) = printSolver exLearned ∧
    (∀ c ∈ exLearned.orig ++ exLearned.learned, clauseOk c) ∧
    topLits exLearned.model = [-2, 4] ∧
    (parseOpbLines (printSolver exLearned)).toOption =
      some { nbVars := 4, obj := none,
             constrs := [⟨[1, 2, 3], some [1, 1, 1], 2⟩, ⟨[-1, 4], some [1, 1], 1⟩, ⟨[-2], some [1], 1⟩, ⟨[4], some [1], 1⟩],
             units := [-2, 4], kept := [⟨[1, 2, 3], some [1, 1, 1], 2⟩, ⟨[-1, 4], some [1, 1], 1⟩],
             unsat := false } := by
  decide

/-- The hypotheses of `solver_print_models` on a concrete state: `x1 + x2 ≥ 2` holds both
    bindings `x1`, `x2`, and the learned clause `x1 ∨ ¬x3`. -/
example :
    let st : State := State.ofGo 3 none none [{ lits := [1, 2], low := 1 }, { lits := [-1, 2, 3] }]
      [learnedCl [1, -3] 2] [1, 1, 0]
    (∀ c ∈ st.orig ++ st.learned, clauseOk c) ∧ topLits st.model = [1, 2] ∧
    (∀ c ∈ st.learned, Entails (st.orig.map linOf) (linOf c)) ∧
    (∀ l ∈ topLits st.model, Entails (st.orig.map linOf) (Lin.ofClause [l])) := by
  refine ⟨by decide, by decide, ?_, ?_⟩
  · intro c hc a ha
    simp [State.ofGo, learnedCl, Cl.pbc, Cl.cardinality] at hc
    subst hc
    simp [State.ofGo, Cl.pbc, Cl.cardinality, Problem.holds, linOf, Lin.holds, PBC.terms, lhs, termVal,
      litTrue] at ha ⊢
    obtain ⟨h1, _⟩ := ha
    cases h1a : a 1 <;> cases h2a : a 2 <;> cases h3a : a 3 <;> simp [h1a, h2a, h3a] at h1 ⊢
  · intro l hl a ha
    have hl' : l = 1 ∨ l = 2 := by
      have : topLits (State.ofGo 3 none none [{ lits := [1, 2], low := 1 }, { lits := [-1, 2, 3] }]
        [learnedCl [1, -3] 2] [1, 1, 0]).model = [1, 2] := by decide
      rw [this] at hl; simpa using hl
    simp [State.ofGo, Cl.pbc, Cl.cardinality, Problem.holds, linOf, Lin.holds, PBC.terms, lhs, termVal,
      litTrue] at ha
    obtain ⟨h1, _⟩ := ha
    rw [ofClause_unit_holds]
    cases h1a : a 1 <;> cases h2a : a 2 <;> simp [h1a, h2a] at h1
    rcases hl' with rfl | rfl <;> simp [litTrue, h1a, h2a]

/-- The hypotheses of `solver_print_eq_problem_print`: units `x3`, `¬x1` over 3 variables. -/
example :
    (∀ u ∈ [(3 : Int), -1], u ≠ 0 ∧ u.natAbs ≤ 3) ∧ (∀ u ∈ [(3 : Int), -1], -u ∉ [(3 : Int), -1]) ∧
    modelOfUnits 3 [3, -1] = [-1, 0, 1] ∧ topLits (modelOfUnits 3 [3, -1]) = [-1, 3] ∧
    printSolver (freshState 3 none [3, -1] [⟨[2, -3], none, 1⟩]) =
      [[.word "*", .word "#variable=", .int 3, .word "#constraint=", .int 1, .word "#learned=", .int 0],
       [.int 1, .word "x2", .int 1, .word "~x3", .word ">=", .int 1, .word ";"],
       [.int 1, .word "x1", .word "=", .int 0, .word ";"], [.int 1, .word "x3", .word "=", .int 1, .word ";"]] ∧
    printPB none [3, -1] [⟨[2, -3], none, 1⟩] =
      [[.int 1, .word "x3", .word "=", .int 1, .word ";"], [.int 1, .word "~x1", .word "=", .int 1, .word ";"],
       [.int 1, .word "x2", .int 1, .word "~x3", .word ">=", .int 1, .word ";"]] := by
  decide

/-! ## Findings -/

/-- **The status is not printed.** A problem refuted while it is parsed gives `New` nothing to
    keep: the solver prints a text without any constraint, of which every assignment is a model,
    whereas the problem has none. (Same thing when `AppendClause` / `propagateUnits` set
    `s.status = Unsat` without storing the refuted constraint.) -/
example : printSolverText exRefuted = "* #variable= 0 #constraint= 0 #learned= 0\n" ∧
    (parseOpbLines (printSolver exRefuted)).toOption = some {} ∧
    ∀ a, (({} : OpbState).frontSem a) = true := by
  refine ⟨by decide, by decide, fun a => rfl⟩

/-- **Fewer variables.** `ParseOPB` skips the comment line: the number of variables it finds is
    the largest variable written in the cost line, a constraint or a binding. A free variable
    above all of these (here `x2`) is lost: the solver has 2 variables, the text read back 1. -/
example : printSolverText exFewerVars = "* #variable= 2 #constraint= 0 #learned= 0\nmin: 1 ~x1 ;\n1 x1 = 1 ;" ∧
    exFewerVars.nbVars = 2 ∧
    (parseOpbLines (printSolver exFewerVars)).toOption =
      some { nbVars := 1, obj := some [(1, -1)], constrs := [⟨[1], some [1], 1⟩], units := [1],
             kept := [], unsat := false } := by
  decide

/-! ### Why `clauseOk`: the empty clause is printed as ` >= 1 ;`, which `ParseOPB` rejects; a
negative weight after the first term is printed as `+-2`, on which `parseTerms` panics; a literal
0 is printed as `x0`, which `ParseOPB` reads as a variable without complaint. None of these is made
by the Go code (`NewPBClause` is given weights `≥ 1` by `GtEq`, `simplifyPB` and `AppendClause`
remove a constraint left without terms), unless a caller builds a `PBConstr` by hand. -/

example : (parseOpbLines (printSolver (State.ofGo 1 none none [{ lits := [] }] [] [0]))) = .error "invalid syntax" := by
  rfl
example : (parseOpbLines (printSolver (State.ofGo 2 none none
    [{ lits := [1, 2], weights := some [1, -2] }] [] [0, 0]))) = .error "panic: index out of range" := by rfl

end GS.SolverPrint

#print axioms GS.SolverPrint.mem_topLits
#print axioms GS.SolverPrint.topLits_all_iff
#print axioms GS.SolverPrint.printSolver_eq_render
#print axioms GS.SolverPrint.solver_print_parse
#print axioms GS.SolverPrint.solver_print_parse_iff
#print axioms GS.SolverPrint.solver_print_models_of
#print axioms GS.SolverPrint.solver_print_models
#print axioms GS.SolverPrint.mem_topLits_fresh
#print axioms GS.SolverPrint.solver_print_eq_problem_print

