import GS.Model.CnfBytes
import GS.Model.Formats
import GS.Props.C01_Simplify
/-!
# C13 — DIMACS texts, byte level: `solver.ParseCNF` reads every layout of a well-formed file

`GS.Props.C13_Formats.parseCnf_render` is stated on lines of tokens (lexing trusted). Here the
same property is proved for the byte-level mirror `GS.CnfBytes.parseCnfBytes` of
`/repo/solver/parser.go` (`ParseCNF`, `readInt`, `parseHeader`, `isSpace`, and `strings.Fields`,
`strconv.Atoi`, `ReadString` on byte strings).

## The byte layouts covered (`renderBytes d lay`, `lay.ok`)

    <fillers> p <ws0> cnf <ws1> [+]0*<nbVars> <ws2> [+]0*<nbClauses> <ws3> \n <fillers>
    <clause> … <clause> <end>

* a *filler* is a blank (any string over `' ' \t \n \r`) or a comment `c<any bytes but \n>\n`;
  fillers are legal exactly where the reader is *between* two clauses: at the start of the text,
  after the header line, and after the byte that follows the terminating `0` of a clause — so
  also on the line of that `0` (`1 2 0 c note`), and before a clause on its line. They are **not**
  legal between the literals of a clause (`readInt` then meets `c`: "not a digit", see
  `parse_comment_inside_clause`), and a `c` glued to the `0` is an error too;
* `ws0 ws1 ws2`: non-empty strings over `' '` and `\t`; `ws3`: any string over `' ' \t \r`
  (so `\r\n` line ends are covered);
* numbers of the header: optional `+`, any number of leading zeros (`strconv.Atoi` accepts both);
* a *clause* is `lit sep lit sep … 0 t fillers`: a literal is `[-]0*digits` (leading zeros are
  accepted, a `+` is **not**: `parse_plus_literal`), `sep` any non-empty string over
  `' ' \t \n \r` (a clause may span lines, clauses may share a line, `\r\n` inside), `t` one byte
  of `' ' \t \n \r`;
* the *end*: `full tail` (everything terminated; `tail` an optional last comment without `\n`),
  `bare` (the text stops right after the last `0`, resp. after the header line when there is no
  clause: no final newline), `noZero ws` (the last clause, if it has a literal, lacks its `0`;
  it is followed by the blanks `ws`).

Main results: `parseBytes_render`, `parseBytes_render_sem` (composition with
`GS.Simplify.simplify2_spec`: the `*Problem` returned by `ParseCNF` has the models of the text),
`parseBytes_total`, rejection lemmas.
-/
namespace GS.CnfBytes
open GS GS.Formats

/-! ## Rendering -/

/-- Decimal digits of `n` as bytes. -/
def decBytes (n : Nat) : List Nat := (Nat.toDigits 10 n).map Char.toNat

inductive Filler where
  | blank (ws : List Nat)
  | comment (body : List Nat)
deriving Repr, Inhabited

def Filler.bytes : Filler → List Nat
  | .blank ws => ws
  | .comment body => 99 :: (body ++ [10])

def Filler.ok : Filler → Bool
  | .blank ws => ws.all isSpace
  | .comment body => body.all (fun b => b != 10)

def fillersBytes : List Filler → List Nat
  | [] => []
  | f :: fs => f.bytes ++ fillersBytes fs

structure NumLayout where
  plus : Bool := false
  zeros : Nat := 0
deriving Repr, Inhabited

def NumLayout.bytes (l : NumLayout) (n : Nat) : List Nat :=
  (if l.plus then [43] else []) ++ (List.replicate l.zeros 48 ++ decBytes n)

structure LitLayout where
  zeros : Nat := 0
  sep : List Nat := [32]
deriving Repr, Inhabited

def LitLayout.ok (l : LitLayout) : Bool := !l.sep.isEmpty && l.sep.all isSpace

def litBytes (v : Int) (zeros : Nat) : List Nat :=
  (if v < 0 then [45] else []) ++ (List.replicate zeros 48 ++ decBytes v.natAbs)

def litsBytes : List Int → List LitLayout → List Nat
  | [], _ => []
  | v :: vs, ls => litBytes v (ls.headD {}).zeros ++ ((ls.headD {}).sep ++ litsBytes vs ls.tail)

/-- The literals of a clause whose terminating `0` is left out: `tr` follows the last one. -/
def litsBytesOpen (tr : List Nat) : List Int → List LitLayout → List Nat
  | [], _ => []
  | [v], ls => litBytes v (ls.headD {}).zeros ++ tr
  | v :: v' :: vs, ls =>
    litBytes v (ls.headD {}).zeros ++ ((ls.headD {}).sep ++ litsBytesOpen tr (v' :: vs) ls.tail)

structure ClauseLay where
  lits : List LitLayout := []
  zeros : Nat := 0
  term : Nat := 10
  after : List Filler := []
deriving Repr, Inhabited

def ClauseLay.ok (l : ClauseLay) : Bool := l.lits.all (·.ok) && isSpace l.term && l.after.all (·.ok)

def zeroBytes (zeros : Nat) : List Nat := List.replicate zeros 48 ++ [48]

def clauseBytes (c : List Int) (l : ClauseLay) : List Nat :=
  litsBytes c l.lits ++ (zeroBytes l.zeros ++ l.term :: fillersBytes l.after)

inductive Ending where
  | full (tail : Option (List Nat))
  | bare
  | noZero (trailing : List Nat)
deriving Repr, Inhabited

def Ending.ok : Ending → Bool
  | .full none => true
  | .full (some body) => body.all (fun b => b != 10)
  | .bare => true
  | .noZero tr => tr.all isSpace

def tailBytes : Option (List Nat) → List Nat
  | none => []
  | some body => 99 :: body

def lastClauseBytes (c : List Int) (l : ClauseLay) : Ending → List Nat
  | .full tail => clauseBytes c l ++ tailBytes tail
  | .bare => litsBytes c l.lits ++ zeroBytes l.zeros
  | .noZero tr => if c.isEmpty then clauseBytes c l else litsBytesOpen tr c l.lits

def clausesBytes : List (List Int) → List ClauseLay → Ending → List Nat
  | [], _, _ => []
  | [c], ls, e => lastClauseBytes c (ls.headD {}) e
  | c :: c' :: cs, ls, e => clauseBytes c (ls.headD {}) ++ clausesBytes (c' :: cs) ls.tail e

structure ByteLayout where
  before : List Filler := []
  ws0 : List Nat := [32]
  ws1 : List Nat := [32]
  ws2 : List Nat := [32]
  ws3 : List Nat := []
  vars : NumLayout := {}
  cls : NumLayout := {}
  afterHeader : List Filler := []
  clauses : List ClauseLay := []
  ending : Ending := .full none
deriving Repr, Inhabited

/-- Non-empty string over `' '` and `\t`. -/
def hws (ws : List Nat) : Bool := !ws.isEmpty && ws.all (fun b => b == 32 || b == 9)

def ByteLayout.ok (lay : ByteLayout) : Bool :=
  lay.before.all (·.ok) && hws lay.ws0 && hws lay.ws1 && hws lay.ws2 &&
    lay.ws3.all (fun b => b == 32 || b == 9 || b == 13) &&
    lay.afterHeader.all (·.ok) && lay.clauses.all (·.ok) && lay.ending.ok

/-- The header line without its `p` and without its line end. -/
def headerLine (d : Dimacs) (lay : ByteLayout) : List Nat :=
  lay.ws0 ++ ([99, 110, 102] ++ (lay.ws1 ++ (lay.vars.bytes d.nbVars ++ (lay.ws2 ++
    (lay.cls.bytes d.clauses.length ++ lay.ws3)))))

def bodyBytes (d : Dimacs) (lay : ByteLayout) : List Nat :=
  match d.clauses, lay.ending with
  | [], .bare => []
  | [], .full tail => 10 :: (fillersBytes lay.afterHeader ++ tailBytes tail)
  | [], .noZero tr => 10 :: (fillersBytes lay.afterHeader ++ tr)
  | c :: cs, e => 10 :: (fillersBytes lay.afterHeader ++ clausesBytes (c :: cs) lay.clauses e)

/-- A DIMACS text for `d`, byte by byte, with the layout `lay`. -/
def renderBytes (d : Dimacs) (lay : ByteLayout) : List Nat :=
  fillersBytes lay.before ++ (112 :: (headerLine d lay ++ bodyBytes d lay))

/-! ## Running the reader over a concatenation -/

theorem run_append {st st' : St} {xs : List Nat} (ys : List Nat) (h : run st xs = .ok st') :
    run st (xs ++ ys) = run st' ys := by
  induction xs generalizing st with
  | nil => simp only [run, Except.ok.injEq] at h; subst h; rfl
  | cons x xs ih =>
    simp only [run, List.cons_append] at h ⊢
    cases hs : step st x with
    | error e => rw [hs] at h; cases h
    | ok s1 => rw [hs] at h; simp only; exact ih h

theorem isSpace_cases {b : Nat} (h : isSpace b = true) : b = 32 ∨ b = 9 ∨ b = 10 ∨ b = 13 := by
  simp only [isSpace, Bool.or_eq_true, beq_iff_eq] at h; omega

theorem isDigit_iff {b : Nat} : isDigit b = true ↔ 48 ≤ b ∧ b ≤ 57 := by
  simp [isDigit]

theorem not_space_of_digit {b : Nat} (h : isDigit b = true) : isSpace b = false := by
  rw [isDigit_iff] at h
  cases hs : isSpace b with
  | false => rfl
  | true => have := isSpace_cases hs; omega

/-! ## Fillers -/

theorem run_blank (nv nc : Int) (cls : List (List Int)) (pk : Nat) :
    ∀ ws : List Nat, ws.all isSpace = true → run ⟨nv, nc, cls, pk, .top⟩ ws = .ok ⟨nv, nc, cls, pk, .top⟩ := by
  intro ws
  induction ws with
  | nil => intro _; rfl
  | cons b ws ih =>
    intro h
    simp only [List.all_cons, Bool.and_eq_true] at h
    have hb := isSpace_cases h.1
    have h1 : b ≠ 99 := by omega
    have h2 : b ≠ 112 := by omega
    simp only [run, step, h1, h2, if_false, h.1, if_true]
    exact ih h.2

theorem run_comment_body (nv nc : Int) (cls : List (List Int)) (pk : Nat) :
    ∀ body : List Nat, body.all (fun b => b != 10) = true →
      run ⟨nv, nc, cls, pk, .comment⟩ body = .ok ⟨nv, nc, cls, pk, .comment⟩ := by
  intro body
  induction body with
  | nil => intro _; rfl
  | cons b body ih =>
    intro h
    simp only [List.all_cons, Bool.and_eq_true, bne_iff_ne, ne_eq] at h
    simp only [run, step, h.1, if_false]
    exact ih (by simpa using h.2)

theorem run_filler (nv nc : Int) (cls : List (List Int)) (pk : Nat) (f : Filler) (hf : f.ok = true) :
    run ⟨nv, nc, cls, pk, .top⟩ f.bytes = .ok ⟨nv, nc, cls, pk, .top⟩ := by
  cases f with
  | blank ws => exact run_blank nv nc cls pk ws hf
  | comment body =>
    simp only [Filler.bytes, run, step, if_true]
    rw [run_append [10] (run_comment_body nv nc cls pk body hf)]
    simp [run, step]

theorem run_fillers (nv nc : Int) (cls : List (List Int)) (pk : Nat) :
    ∀ fs : List Filler, fs.all (·.ok) = true →
      run ⟨nv, nc, cls, pk, .top⟩ (fillersBytes fs) = .ok ⟨nv, nc, cls, pk, .top⟩ := by
  intro fs
  induction fs with
  | nil => intro _; rfl
  | cons f fs ih =>
    intro h
    simp only [List.all_cons, Bool.and_eq_true] at h
    simp only [fillersBytes]
    rw [run_append _ (run_filler nv nc cls pk f h.1)]
    exact ih h.2

/-! ## Decimal numbers -/

/-- Digit accumulation from `acc` on. -/
def dval (acc : Nat) (ds : List Nat) : Nat := ds.foldl (fun a b => 10 * a + (b - 48)) acc

theorem digitsVal_eq (ds : List Nat) : digitsVal ds = dval 0 ds := rfl

theorem dval_append (acc : Nat) (xs ys : List Nat) : dval acc (xs ++ ys) = dval (dval acc xs) ys := by
  simp [dval, List.foldl_append]

theorem dval_zeros (z : Nat) : dval 0 (List.replicate z 48) = 0 := by
  induction z with
  | zero => rfl
  | succ z ih => rw [List.replicate_succ]; simpa [dval] using ih

theorem dval_decBytes (n : Nat) : dval 0 (decBytes n) = n := by
  have h := @Nat.ofDigitChars_ten_toDigits n
  rw [Nat.ofDigitChars_eq_foldl] at h
  unfold dval decBytes
  rw [List.foldl_map]
  exact h

theorem dval_num (z n : Nat) : dval 0 (List.replicate z 48 ++ decBytes n) = n := by
  rw [dval_append, dval_zeros, dval_decBytes]

theorem le_dval (ds : List Nat) : ∀ acc : Nat, acc ≤ dval acc ds := by
  induction ds with
  | nil => intro acc; exact Nat.le_refl _
  | cons d ds ih =>
    intro acc
    have := ih (10 * acc + (d - 48))
    simp only [dval, List.foldl_cons] at this ⊢
    omega

theorem decBytes_digit {n b : Nat} (h : b ∈ decBytes n) : isDigit b = true := by
  simp only [decBytes, List.mem_map] at h
  obtain ⟨c, hc, rfl⟩ := h
  have hd : c.isDigit = true := Nat.isDigit_of_mem_toDigits (by decide) (by decide) hc
  simp only [Char.isDigit, Bool.and_eq_true, decide_eq_true_eq] at hd
  rw [isDigit_iff]
  have h1 := UInt32.le_iff_toNat_le.mp hd.1
  have h2 := UInt32.le_iff_toNat_le.mp hd.2
  simp only [Char.toNat]
  exact ⟨h1, h2⟩

theorem decBytes_ne_nil (n : Nat) : decBytes n ≠ [] := by
  simp [decBytes, Nat.toDigits_ne_nil]

theorem digits_all (z n : Nat) : (List.replicate z 48 ++ decBytes n).all isDigit = true := by
  rw [List.all_eq_true]
  intro b hb
  rcases List.mem_append.mp hb with h | h
  · rw [List.mem_replicate] at h; rw [h.2]; decide
  · exact decBytes_digit h

theorem digits_ne_nil (z n : Nat) : List.replicate z 48 ++ decBytes n ≠ [] := by
  intro h
  exact decBytes_ne_nil n (List.append_eq_nil_iff.mp h).2

/-! ## `strconv.Atoi` on a rendered number -/

theorem splitSign_digits {ds : List Nat} (hne : ds ≠ []) (hd : ds.all isDigit = true) :
    splitSign ds = (false, ds) := by
  cases ds with
  | nil => exact absurd rfl hne
  | cons b r =>
    simp only [List.all_cons, Bool.and_eq_true] at hd
    have := isDigit_iff.mp hd.1
    have h1 : b ≠ 45 := by omega
    have h2 : b ≠ 43 := by omega
    simp [splitSign, h1, h2]

theorem atoi_digits {ds : List Nat} (hne : ds ≠ []) (hd : ds.all isDigit = true)
    (hv : dval 0 ds < 9223372036854775808) : atoi ds = some (dval 0 ds : Int) := by
  have he : ds.isEmpty = false := by cases ds with | nil => exact absurd rfl hne | cons _ _ => rfl
  simp [atoi, splitSign_digits hne hd, he, hd, digitsVal_eq, hv]

theorem atoi_plus_digits {ds : List Nat} (hne : ds ≠ []) (hd : ds.all isDigit = true)
    (hv : dval 0 ds < 9223372036854775808) : atoi (43 :: ds) = some (dval 0 ds : Int) := by
  have he : ds.isEmpty = false := by cases ds with | nil => exact absurd rfl hne | cons _ _ => rfl
  simp [atoi, splitSign, he, hd, digitsVal_eq, hv]

theorem atoi_num (l : NumLayout) (n : Nat) (hn : n < 9223372036854775808) :
    atoi (l.bytes n) = some (n : Int) := by
  have hv : dval 0 (List.replicate l.zeros 48 ++ decBytes n) < 9223372036854775808 := by
    rw [dval_num]; exact hn
  unfold NumLayout.bytes
  cases l.plus with
  | false =>
    simp only [Bool.false_eq_true, if_false, List.nil_append]
    rw [atoi_digits (digits_ne_nil _ _) (digits_all _ _) hv, dval_num]
  | true =>
    simp only [if_true, List.singleton_append]
    rw [atoi_plus_digits (digits_ne_nil _ _) (digits_all _ _) hv, dval_num]

/-! ## `strings.Fields` on the header line -/

/-- An ASCII byte that is not white space. -/
def isWord (b : Nat) : Bool := decide (b < 128) && !asciiSpace b

theorem fieldsAux_space {b : Nat} (cur rest : List Nat) (h : asciiSpace b = true) :
    fieldsAux 0 cur (b :: rest) = flush cur ++ fieldsAux 0 [] rest := by
  simp [fieldsAux, spaceLen, h]

theorem fieldsAux_word {b : Nat} (cur rest : List Nat) (h : isWord b = true) :
    fieldsAux 0 cur (b :: rest) = fieldsAux 0 (cur ++ [b]) rest := by
  simp only [isWord, Bool.and_eq_true, decide_eq_true_eq, Bool.not_eq_true'] at h
  simp [fieldsAux, spaceLen, h.1, h.2]

theorem fieldsAux_spaces (rest : List Nat) : ∀ ws : List Nat, ws.all asciiSpace = true →
    fieldsAux 0 [] (ws ++ rest) = fieldsAux 0 [] rest := by
  intro ws
  induction ws with
  | nil => intro _; rfl
  | cons b ws ih =>
    intro h
    simp only [List.all_cons, Bool.and_eq_true] at h
    rw [List.cons_append, fieldsAux_space _ _ h.1, ih h.2]
    rfl

theorem fieldsAux_words (rest : List Nat) : ∀ (w cur : List Nat), w.all isWord = true →
    fieldsAux 0 cur (w ++ rest) = fieldsAux 0 (cur ++ w) rest := by
  intro w
  induction w with
  | nil => intro cur _; simp
  | cons b w ih =>
    intro cur h
    simp only [List.all_cons, Bool.and_eq_true] at h
    rw [List.cons_append, fieldsAux_word _ _ h.1, ih _ h.2]
    simp

theorem flush_ne_nil {w : List Nat} (h : w ≠ []) : flush w = [w] := by
  cases w with
  | nil => exact absurd rfl h
  | cons _ _ => rfl

/-- A field followed by a non-empty white space. -/
theorem fieldsAux_tok (w ws rest : List Nat) (hw : w.all isWord = true) (hne : w ≠ [])
    (hs : ws.all asciiSpace = true) (hsne : ws ≠ []) :
    fieldsAux 0 [] (w ++ (ws ++ rest)) = w :: fieldsAux 0 [] rest := by
  cases ws with
  | nil => exact absurd rfl hsne
  | cons s ws =>
    simp only [List.all_cons, Bool.and_eq_true] at hs
    rw [fieldsAux_words _ w [] hw, List.nil_append, List.cons_append, fieldsAux_space _ _ hs.1,
      flush_ne_nil hne, fieldsAux_spaces _ ws hs.2]
    rfl

/-- The last field, followed by white space or nothing. -/
theorem fieldsAux_last (w ws : List Nat) (hw : w.all isWord = true) (hne : w ≠ [])
    (hs : ws.all asciiSpace = true) : fieldsAux 0 [] (w ++ ws) = [w] := by
  cases ws with
  | nil => rw [fieldsAux_words _ w [] hw]; simp [fieldsAux, flush_ne_nil hne]
  | cons s ws =>
    have := fieldsAux_tok w (s :: ws) [] hw hne hs (by simp)
    simpa [fieldsAux, flush] using this

theorem fields_header (ws0 ws1 ws2 tail A B : List Nat)
    (h0 : ws0.all asciiSpace = true) (h1 : ws1.all asciiSpace = true) (n1 : ws1 ≠ [])
    (h2 : ws2.all asciiSpace = true) (n2 : ws2 ≠ []) (ht : tail.all asciiSpace = true)
    (hA : A.all isWord = true) (nA : A ≠ []) (hB : B.all isWord = true) (nB : B ≠ []) :
    fields (ws0 ++ ([99, 110, 102] ++ (ws1 ++ (A ++ (ws2 ++ (B ++ tail)))))) = [[99, 110, 102], A, B] := by
  unfold fields
  rw [fieldsAux_spaces _ ws0 h0, fieldsAux_tok [99, 110, 102] ws1 _ (by decide) (by simp) h1 n1,
    fieldsAux_tok A ws2 _ hA nA h2 n2, fieldsAux_last B tail hB nB ht]

theorem isWord_of_digit {b : Nat} (h : isDigit b = true) : isWord b = true := by
  rw [isDigit_iff] at h
  have h2 : b ≠ 32 := by omega
  have h3 : b < 128 := by omega
  have h4 : 13 < b := by omega
  simp [isWord, asciiSpace, h2, h3, h4]

theorem num_words (l : NumLayout) (n : Nat) : (l.bytes n).all isWord = true ∧ l.bytes n ≠ [] := by
  have hd : (List.replicate l.zeros 48 ++ decBytes n).all isWord = true := by
    rw [List.all_eq_true]
    intro b hb
    exact isWord_of_digit (List.all_eq_true.mp (digits_all l.zeros n) b hb)
  unfold NumLayout.bytes
  cases l.plus with
  | false =>
    simp only [Bool.false_eq_true, if_false, List.nil_append]
    exact ⟨hd, digits_ne_nil l.zeros n⟩
  | true =>
    refine ⟨?_, by simp⟩
    simp only [if_true, List.singleton_append, List.all_cons, Bool.and_eq_true]
    exact ⟨by decide, hd⟩

theorem hws_spec {ws : List Nat} (h : hws ws = true) :
    ws ≠ [] ∧ ws.all asciiSpace = true ∧ ws.all (fun b => b != 10) = true := by
  simp only [hws, Bool.and_eq_true, Bool.not_eq_true', List.isEmpty_eq_false_iff, List.all_eq_true,
    Bool.or_eq_true, beq_iff_eq] at h
  refine ⟨h.1, ?_, ?_⟩
  · rw [List.all_eq_true]; intro b hb
    rcases h.2 b hb with e | e <;> subst e <;> decide
  · rw [List.all_eq_true]; intro b hb
    rcases h.2 b hb with e | e <;> subst e <;> decide

/-! ## The header -/

theorem run_header_acc (nv nc : Int) (cls : List (List Int)) (pk : Nat) :
    ∀ (line acc : List Nat), line.all (fun b => b != 10) = true →
      run ⟨nv, nc, cls, pk, .header acc⟩ line = .ok ⟨nv, nc, cls, pk, .header (acc ++ line)⟩ := by
  intro line
  induction line with
  | nil => intro acc _; simp [run]
  | cons b line ih =>
    intro acc h
    simp only [List.all_cons, Bool.and_eq_true, bne_iff_ne, ne_eq] at h
    simp only [run, step, h.1, if_false]
    rw [ih (acc ++ [b]) (by simpa using h.2)]
    simp

theorem not_nl_of_word {ws : List Nat} (h : ws.all isWord = true) : ws.all (fun b => b != 10) = true := by
  rw [List.all_eq_true] at h ⊢
  intro b hb
  have := h b hb
  simp only [isWord, asciiSpace, Bool.and_eq_true, decide_eq_true_eq, Bool.not_eq_true', Bool.or_eq_false_iff,
    Bool.and_eq_false_iff, decide_eq_false_iff_not, beq_eq_false_iff_ne] at this
  simp only [bne_iff_ne, ne_eq]
  omega

theorem ws3_spec {ws : List Nat} (h : ws.all (fun b => b == 32 || b == 9 || b == 13) = true) :
    ws.all asciiSpace = true ∧ ws.all (fun b => b != 10) = true := by
  rw [List.all_eq_true] at h
  constructor
  · rw [List.all_eq_true]; intro b hb
    have := h b hb
    simp only [Bool.or_eq_true, beq_iff_eq] at this
    rcases this with (e | e) | e <;> subst e <;> decide
  · rw [List.all_eq_true]; intro b hb
    have := h b hb
    simp only [Bool.or_eq_true, beq_iff_eq] at this
    rcases this with (e | e) | e <;> subst e <;> decide

structure HdrOk (lay : ByteLayout) : Prop where
  w0 : hws lay.ws0 = true
  w1 : hws lay.ws1 = true
  w2 : hws lay.ws2 = true
  w3 : lay.ws3.all (fun b => b == 32 || b == 9 || b == 13) = true

theorem headerLine_no_nl (d : Dimacs) (lay : ByteLayout) (h : HdrOk lay) :
    (headerLine d lay).all (fun b => b != 10) = true := by
  simp only [headerLine, List.all_append, Bool.and_eq_true]
  exact ⟨(hws_spec h.w0).2.2, by decide, (hws_spec h.w1).2.2, not_nl_of_word (num_words _ _).1,
    (hws_spec h.w2).2.2, not_nl_of_word (num_words _ _).1, (ws3_spec h.w3).2⟩

theorem doHeader_render (st : St) (d : Dimacs) (lay : ByteLayout) (tail : List Nat) (h : HdrOk lay)
    (ht : tail.all asciiSpace = true) (hv : d.nbVars < 2147483648) (hc : d.clauses.length ≤ 35184372088832) :
    doHeader st (headerLine d lay ++ tail) =
      .ok ⟨d.nbVars, d.clauses.length, [], max st.peak (max d.nbVars d.clauses.length), .top⟩ := by
  have e : headerLine d lay ++ tail = lay.ws0 ++ ([99, 110, 102] ++ (lay.ws1 ++ (lay.vars.bytes d.nbVars ++
      (lay.ws2 ++ (lay.cls.bytes d.clauses.length ++ (lay.ws3 ++ tail)))))) := by
    simp [headerLine]
  have ht' : (lay.ws3 ++ tail).all asciiSpace = true := by
    rw [List.all_append, (ws3_spec h.w3).1, ht]; rfl
  have hf := fields_header lay.ws0 lay.ws1 lay.ws2 (lay.ws3 ++ tail) (lay.vars.bytes d.nbVars)
    (lay.cls.bytes d.clauses.length) (hws_spec h.w0).2.1 (hws_spec h.w1).2.1 (hws_spec h.w1).1
    (hws_spec h.w2).2.1 (hws_spec h.w2).1 ht' (num_words _ _).1 (num_words _ _).2 (num_words _ _).1 (num_words _ _).2
  have a1 := atoi_num lay.vars d.nbVars (by omega)
  have a2 := atoi_num lay.cls d.clauses.length (by omega)
  have c1 : ¬ ((d.nbVars : Int) < 0 ∨ (d.nbVars : Int) > makeLimit) := by unfold makeLimit; omega
  have c2 : ¬ ((d.clauses.length : Int) < 0 ∨ (d.clauses.length : Int) > makeLimit) := by unfold makeLimit; omega
  unfold doHeader
  rw [e, hf]
  simp only [a1, a2, c1, c2, if_false, Int.toNat_natCast]

/-! ## Numbers inside clauses -/

theorem wrap64_small {x : Int} (h0 : -9223372036854775808 ≤ x) (h1 : x < 9223372036854775808) :
    wrap64 x = x := by
  unfold wrap64; omega

theorem run_digits (nv nc : Int) (cls : List (List Int)) (pk : Nat) (lits : List Int) (s : Int) :
    ∀ (ds : List Nat) (acc : Nat), ds.all isDigit = true → dval acc ds < 9223372036854775808 →
      run ⟨nv, nc, cls, pk, .dig lits s (acc : Int)⟩ ds = .ok ⟨nv, nc, cls, pk, .dig lits s (dval acc ds : Nat)⟩ := by
  intro ds
  induction ds with
  | nil => intro acc _ _; rfl
  | cons d ds ih =>
    intro acc hd hv
    simp only [List.all_cons, Bool.and_eq_true] at hd
    have hdd := isDigit_iff.mp hd.1
    have hle := le_dval ds (10 * acc + (d - 48))
    have hv' : dval (10 * acc + (d - 48)) ds < 9223372036854775808 := hv
    have e : wrap64 (10 * (acc : Int) + ((d : Int) - 48)) = ((10 * acc + (d - 48) : Nat) : Int) := by
      rw [wrap64_small] <;> omega
    simp only [run, step, not_space_of_digit hd.1, hd.1, if_true, Bool.false_eq_true, if_false, e]
    exact ih _ hd.2 hv'

theorem run_number (nv nc : Int) (cls : List (List Int)) (pk : Nat) (lits : List Int)
    (ds : List Nat) (hne : ds ≠ []) (hd : ds.all isDigit = true) (hv : dval 0 ds < 9223372036854775808) :
    run ⟨nv, nc, cls, pk, .num lits⟩ ds = .ok ⟨nv, nc, cls, pk, .dig lits 1 (dval 0 ds : Nat)⟩ := by
  cases ds with
  | nil => exact absurd rfl hne
  | cons d r =>
    simp only [List.all_cons, Bool.and_eq_true] at hd
    have hdd := isDigit_iff.mp hd.1
    have h45 : d ≠ 45 := by omega
    have e : ((d : Int) - 48) = ((d - 48 : Nat) : Int) := by omega
    have hv' : dval (d - 48) r < 9223372036854775808 := by
      have : dval 0 (d :: r) = dval (d - 48) r := by simp [dval]
      rw [← this]; exact hv
    simp only [run, step, stepNum, not_space_of_digit hd.1, Bool.false_eq_true, if_false, h45, hd.1, if_true, e]
    rw [run_digits nv nc cls pk lits 1 r (d - 48) hd.2 hv']
    simp [dval]

theorem run_number_neg (nv nc : Int) (cls : List (List Int)) (pk : Nat) (lits : List Int)
    (ds : List Nat) (hne : ds ≠ []) (hd : ds.all isDigit = true) (hv : dval 0 ds < 9223372036854775808) :
    run ⟨nv, nc, cls, pk, .num lits⟩ (45 :: ds) = .ok ⟨nv, nc, cls, pk, .dig lits (-1) (dval 0 ds : Nat)⟩ := by
  cases ds with
  | nil => exact absurd rfl hne
  | cons d r =>
    simp only [List.all_cons, Bool.and_eq_true] at hd
    have hdd := isDigit_iff.mp hd.1
    have e : ((d : Int) - 48) = ((d - 48 : Nat) : Int) := by omega
    have hv' : dval (d - 48) r < 9223372036854775808 := by
      have : dval 0 (d :: r) = dval (d - 48) r := by simp [dval]
      rw [← this]; exact hv
    have hs : isSpace 45 = false := by decide
    simp only [run, step, stepNum, hs, Bool.false_eq_true, if_false, if_true, hd.1, e]
    rw [run_digits nv nc cls pk lits (-1) r (d - 48) hd.2 hv']
    simp [dval]

/-- Sign of a literal as `readInt` keeps it. -/
def sgn (v : Int) : Int := if v < 0 then -1 else 1

theorem run_lit (nv nc : Int) (cls : List (List Int)) (pk : Nat) (lits : List Int) (v : Int) (z : Nat)
    (hb : v.natAbs < 9223372036854775808) :
    run ⟨nv, nc, cls, pk, .num lits⟩ (litBytes v z) = .ok ⟨nv, nc, cls, pk, .dig lits (sgn v) (v.natAbs : Nat)⟩ := by
  have hv : dval 0 (List.replicate z 48 ++ decBytes v.natAbs) < 9223372036854775808 := by rw [dval_num]; exact hb
  unfold litBytes sgn
  by_cases hneg : v < 0
  · simp only [hneg, if_true, List.singleton_append]
    rw [run_number_neg nv nc cls pk lits _ (digits_ne_nil _ _) (digits_all _ _) hv, dval_num]
  · simp only [hneg, if_false, List.nil_append]
    rw [run_number nv nc cls pk lits _ (digits_ne_nil _ _) (digits_all _ _) hv, dval_num]

theorem run_num_spaces (nv nc : Int) (cls : List (List Int)) (pk : Nat) (lits : List Int) :
    ∀ ws : List Nat, ws.all isSpace = true →
      run ⟨nv, nc, cls, pk, .num lits⟩ ws = .ok ⟨nv, nc, cls, pk, .num lits⟩ := by
  intro ws
  induction ws with
  | nil => intro _; rfl
  | cons b ws ih =>
    intro h
    simp only [List.all_cons, Bool.and_eq_true] at h
    simp only [run, step, stepNum, h.1, if_true]
    exact ih h.2

theorem sgn_mul (v : Int) (hb : v.natAbs < 9223372036854775808) : wrap64 ((v.natAbs : Int) * sgn v) = v := by
  unfold sgn
  by_cases h : v < 0
  · simp only [h, if_true]; rw [wrap64_small] <;> omega
  · simp only [h, if_false]; rw [wrap64_small] <;> omega

/-- What `ParseCNF` does with a literal within range. -/
theorem addVal_lit (n : Nat) (nc : Int) (cls : List (List Int)) (pk : Nat) (m : Mode) (lits : List Int) (v : Int)
    (hn : n < 2147483648) (h0 : v ≠ 0) (hle : v.natAbs ≤ n) :
    addVal ⟨n, nc, cls, pk, m⟩ lits v = .ok ⟨n, nc, cls, pk, .num (lits ++ [v])⟩ := by
  have c1 : ¬ (v > (n : Int) ∨ wrap64 (-v) > (n : Int)) := by
    rw [wrap64_small] <;> omega
  have c2 : ¬ (v < -2147483648 ∨ v > 2147483647) := by omega
  simp only [addVal, h0, if_false, c1, c2]

/-- A literal and the white space after it. -/
theorem run_lit_sep (n : Nat) (nc : Int) (cls : List (List Int)) (pk : Nat) (lits : List Int) (v : Int) (z : Nat)
    (sep rest : List Nat) (hn : n < 2147483648) (h0 : v ≠ 0) (hle : v.natAbs ≤ n)
    (hs : sep.all isSpace = true) (hne : sep ≠ []) :
    run ⟨n, nc, cls, pk, .num lits⟩ (litBytes v z ++ (sep ++ rest)) =
      run ⟨n, nc, cls, pk, .num (lits ++ [v])⟩ rest := by
  have hb : v.natAbs < 9223372036854775808 := by omega
  rw [run_append _ (run_lit n nc cls pk lits v z hb)]
  cases sep with
  | nil => exact absurd rfl hne
  | cons sp ws =>
    simp only [List.all_cons, Bool.and_eq_true] at hs
    simp only [List.cons_append, run, step, hs.1, if_true, sgn_mul v hb, addVal_lit n nc cls pk _ lits v hn h0 hle]
    exact run_append rest (run_num_spaces n nc cls pk (lits ++ [v]) ws hs.2)

/-! ## Clauses -/

/-- The first byte is a digit or `-`: the main loop hands it to `readInt`. -/
def Starts (bs : List Nat) : Prop := ∃ b r, bs = b :: r ∧ (isDigit b = true ∨ b = 45)

theorem starts_append {xs : List Nat} (ys : List Nat) (h : Starts xs) : Starts (xs ++ ys) := by
  obtain ⟨b, r, e, hb⟩ := h
  exact ⟨b, r ++ ys, by rw [e]; rfl, hb⟩

theorem starts_digits (z n : Nat) : Starts (List.replicate z 48 ++ decBytes n) := by
  have hne := digits_ne_nil z n
  have hd := digits_all z n
  cases h : List.replicate z 48 ++ decBytes n with
  | nil => exact absurd h hne
  | cons b r =>
    rw [h] at hd
    simp only [List.all_cons, Bool.and_eq_true] at hd
    exact ⟨b, r, rfl, Or.inl hd.1⟩

theorem starts_litBytes (v : Int) (z : Nat) : Starts (litBytes v z) := by
  unfold litBytes
  by_cases h : v < 0
  · simp only [h, if_true]; exact ⟨45, _, rfl, Or.inr rfl⟩
  · simp only [h, if_false, List.nil_append]; exact starts_digits z _

theorem starts_zeroBytes (z : Nat) : Starts (zeroBytes z) := by
  unfold zeroBytes
  cases z with
  | zero => exact ⟨48, [], rfl, Or.inl (by decide)⟩
  | succ z => exact ⟨48, List.replicate z 48 ++ [48], by simp [List.replicate_succ], Or.inl (by decide)⟩

theorem run_top_num (nv nc : Int) (cls : List (List Int)) (pk : Nat) (bs : List Nat) (h : Starts bs) :
    run ⟨nv, nc, cls, pk, .top⟩ bs = run ⟨nv, nc, cls, pk, .num []⟩ bs := by
  obtain ⟨b, r, e, hb⟩ := h
  subst e
  have h1 : b ≠ 99 := by
    rcases hb with hb | hb
    · have := isDigit_iff.mp hb; omega
    · omega
  have h2 : b ≠ 112 := by
    rcases hb with hb | hb
    · have := isDigit_iff.mp hb; omega
    · omega
  have h3 : isSpace b = false := by
    rcases hb with hb | hb
    · exact not_space_of_digit hb
    · subst hb; decide
  simp only [run, step, h1, h2, h3, if_false, Bool.false_eq_true, stepNum]

theorem litLayout_head (ls : List LitLayout) (h : ls.all (·.ok) = true) :
    (ls.headD {}).sep.all isSpace = true ∧ (ls.headD {}).sep ≠ [] ∧ ls.tail.all (·.ok) = true := by
  cases ls with
  | nil => exact ⟨by decide, by decide, rfl⟩
  | cons l ls =>
    simp only [List.all_cons, Bool.and_eq_true, LitLayout.ok, Bool.not_eq_true', List.isEmpty_eq_false_iff] at h
    exact ⟨h.1.2, h.1.1, h.2⟩

theorem clauseWf_cons {n : Nat} {v : Int} {vs : List Int} (h : clauseWf n (v :: vs) = true) :
    v ≠ 0 ∧ v.natAbs ≤ n ∧ clauseWf n vs = true := by
  simp only [clauseWf, List.all_cons, Bool.and_eq_true, litOk, bne_iff_ne, ne_eq, decide_eq_true_eq] at h
  exact ⟨h.1.1, h.1.2, by simpa [clauseWf] using h.2⟩

theorem run_lits (n : Nat) (nc : Int) (cls : List (List Int)) (pk : Nat) (hn : n < 2147483648) :
    ∀ (c : List Int) (ls : List LitLayout) (lits : List Int) (rest : List Nat),
      clauseWf n c = true → ls.all (·.ok) = true →
      run ⟨n, nc, cls, pk, .num lits⟩ (litsBytes c ls ++ rest) = run ⟨n, nc, cls, pk, .num (lits ++ c)⟩ rest := by
  intro c
  induction c with
  | nil => intro ls lits rest _ _; simp [litsBytes]
  | cons v vs ih =>
    intro ls lits rest hwf hok
    obtain ⟨h0, hle, hrest⟩ := clauseWf_cons hwf
    obtain ⟨hs, hne, htl⟩ := litLayout_head ls hok
    have e : litsBytes (v :: vs) ls ++ rest =
        litBytes v (ls.headD {}).zeros ++ ((ls.headD {}).sep ++ (litsBytes vs ls.tail ++ rest)) := by
      simp [litsBytes]
    rw [e, run_lit_sep n nc cls pk lits v _ _ _ hn h0 hle hs hne, ih ls.tail (lits ++ [v]) rest hrest htl]
    simp

theorem zeroBytes_spec (z : Nat) : zeroBytes z ≠ [] ∧ (zeroBytes z).all isDigit = true ∧ dval 0 (zeroBytes z) = 0 := by
  unfold zeroBytes
  refine ⟨by simp, ?_, ?_⟩
  · rw [List.all_append, List.all_eq_true.mpr]
    · rfl
    · intro b hb; rw [List.mem_replicate] at hb; rw [hb.2]; decide
  · rw [dval_append, dval_zeros]; rfl

theorem run_zero_dig (nv nc : Int) (cls : List (List Int)) (pk : Nat) (lits : List Int) (z : Nat) :
    run ⟨nv, nc, cls, pk, .num lits⟩ (zeroBytes z) = .ok ⟨nv, nc, cls, pk, .dig lits 1 0⟩ := by
  obtain ⟨h1, h2, h3⟩ := zeroBytes_spec z
  have := run_number nv nc cls pk lits (zeroBytes z) h1 h2 (by rw [h3]; decide)
  rw [h3] at this
  simpa using this

theorem wrap64_zero : wrap64 (0 * 1) = 0 := by rw [wrap64_small] <;> omega
theorem wrap64_zero' : wrap64 0 = 0 := by rw [wrap64_small] <;> omega

theorem run_zero (nv nc : Int) (cls : List (List Int)) (pk : Nat) (lits : List Int) (z term : Nat)
    (rest : List Nat) (ht : isSpace term = true) :
    run ⟨nv, nc, cls, pk, .num lits⟩ (zeroBytes z ++ term :: rest) = run ⟨nv, nc, cls ++ [lits], pk, .top⟩ rest := by
  rw [run_append _ (run_zero_dig nv nc cls pk lits z)]
  simp only [run, step, ht, if_true, wrap64_zero, addVal]

theorem clauseLay_head (ls : List ClauseLay) (h : ls.all (·.ok) = true) :
    (ls.headD {}).ok = true ∧ ls.tail.all (·.ok) = true := by
  cases ls with
  | nil => exact ⟨by decide, rfl⟩
  | cons l ls => simpa using h

theorem starts_clause (c : List Int) (ls : List LitLayout) (z : Nat) (rest : List Nat) :
    Starts (litsBytes c ls ++ (zeroBytes z ++ rest)) := by
  cases c with
  | nil => simp only [litsBytes, List.nil_append]; exact starts_append _ (starts_zeroBytes z)
  | cons v vs =>
    simp only [litsBytes, List.append_assoc]
    exact starts_append _ (starts_litBytes v _)

/-- One terminated clause with the fillers after it, read from between two clauses. -/
theorem run_clause (n : Nat) (nc : Int) (cls : List (List Int)) (pk : Nat) (hn : n < 2147483648)
    (c : List Int) (l : ClauseLay) (rest : List Nat) (hwf : clauseWf n c = true) (hok : l.ok = true) :
    run ⟨n, nc, cls, pk, .top⟩ (clauseBytes c l ++ rest) = run ⟨n, nc, cls ++ [c], pk, .top⟩ rest := by
  simp only [ClauseLay.ok, Bool.and_eq_true] at hok
  have e : clauseBytes c l ++ rest =
      litsBytes c l.lits ++ (zeroBytes l.zeros ++ l.term :: (fillersBytes l.after ++ rest)) := by
    simp [clauseBytes]
  rw [e, run_top_num _ _ _ _ _ (starts_clause c l.lits l.zeros _),
    run_lits n nc cls pk hn c l.lits [] _ hwf hok.1.1, List.nil_append,
    run_zero _ _ _ _ _ _ _ _ hok.1.2]
  exact run_append rest (run_fillers _ _ _ _ l.after hok.2)

/-! ## End of the text -/

/-- `run`, then `io.EOF`. -/
def parseFrom (st : St) (bs : List Nat) : Except String St :=
  match run st bs with
  | .error e => .error e
  | .ok st' => finish st'

theorem parseFrom_congr {st st' : St} {bs bs' : List Nat} (h : run st bs = run st' bs') :
    parseFrom st bs = parseFrom st' bs' := by
  unfold parseFrom; rw [h]

theorem parseFrom_append {st st' : St} {xs : List Nat} (ys : List Nat) (h : run st xs = .ok st') :
    parseFrom st (xs ++ ys) = parseFrom st' ys := parseFrom_congr (run_append ys h)

theorem parseFrom_ok {st st' : St} {xs : List Nat} (h : run st xs = .ok st') :
    parseFrom st xs = finish st' := by
  unfold parseFrom; rw [h]

theorem parse_tail (nv nc : Int) (cls : List (List Int)) (pk : Nat) (tail : Option (List Nat))
    (h : (Ending.full tail).ok = true) :
    parseFrom ⟨nv, nc, cls, pk, .top⟩ (tailBytes tail) = .ok ⟨nv, nc, cls, pk, .top⟩ := by
  cases tail with
  | none => rfl
  | some body =>
    have : run ⟨nv, nc, cls, pk, .top⟩ (tailBytes (some body)) = .ok ⟨nv, nc, cls, pk, .comment⟩ := by
      simp only [tailBytes, run, step, if_true]
      exact run_comment_body nv nc cls pk body h
    rw [parseFrom_ok this]; rfl

theorem parse_blank (nv nc : Int) (cls : List (List Int)) (pk : Nat) (ws : List Nat) (h : ws.all isSpace = true) :
    parseFrom ⟨nv, nc, cls, pk, .top⟩ ws = .ok ⟨nv, nc, cls, pk, .top⟩ := by
  rw [parseFrom_ok (run_blank nv nc cls pk ws h)]; rfl

/-- The last clause without its `0`. -/
theorem parse_open (n : Nat) (nc : Int) (cls : List (List Int)) (pk : Nat) (hn : n < 2147483648)
    (tr : List Nat) (htr : tr.all isSpace = true) :
    ∀ (c : List Int) (ls : List LitLayout) (lits : List Int), c ≠ [] → clauseWf n c = true →
      ls.all (·.ok) = true →
      parseFrom ⟨n, nc, cls, pk, .num lits⟩ (litsBytesOpen tr c ls) = .ok ⟨n, nc, cls ++ [lits ++ c], pk, .top⟩ := by
  intro c
  induction c with
  | nil => intro _ _ h; exact absurd rfl h
  | cons v vs ih =>
    intro ls lits _ hwf hok
    obtain ⟨h0, hle, hrest⟩ := clauseWf_cons hwf
    obtain ⟨hs, hne, htl⟩ := litLayout_head ls hok
    have hb : v.natAbs < 9223372036854775808 := by omega
    cases vs with
    | nil =>
      simp only [litsBytesOpen]
      rw [parseFrom_append _ (run_lit n nc cls pk lits v _ hb)]
      cases tr with
      | nil =>
        simp [parseFrom, run, finish, sgn_mul v hb, addVal_lit n nc cls pk _ lits v hn h0 hle, closeClause]
      | cons sp ws =>
        simp only [List.all_cons, Bool.and_eq_true] at htr
        have : run ⟨n, nc, cls, pk, .dig lits (sgn v) (v.natAbs : Nat)⟩ (sp :: ws) =
            .ok ⟨n, nc, cls, pk, .num (lits ++ [v])⟩ := by
          simp only [run, step, htr.1, if_true, sgn_mul v hb, addVal_lit n nc cls pk _ lits v hn h0 hle]
          exact run_num_spaces n nc cls pk (lits ++ [v]) ws htr.2
        rw [parseFrom_ok this]
        simp [finish, closeClause]
    | cons v' vs =>
      simp only [litsBytesOpen]
      rw [parseFrom_congr (run_lit_sep n nc cls pk lits v _ _ _ hn h0 hle hs hne),
        ih ls.tail (lits ++ [v]) (by simp) hrest htl]
      simp

theorem starts_open (tr : List Nat) (c : List Int) (ls : List LitLayout) (h : c ≠ []) :
    Starts (litsBytesOpen tr c ls) := by
  cases c with
  | nil => exact absurd rfl h
  | cons v vs =>
    cases vs with
    | nil => exact starts_append _ (starts_litBytes v _)
    | cons v' vs => exact starts_append _ (starts_litBytes v _)

theorem parse_last (n : Nat) (nc : Int) (cls : List (List Int)) (pk : Nat) (hn : n < 2147483648)
    (c : List Int) (l : ClauseLay) (e : Ending) (hwf : clauseWf n c = true) (hok : l.ok = true)
    (he : e.ok = true) :
    parseFrom ⟨n, nc, cls, pk, .top⟩ (lastClauseBytes c l e) = .ok ⟨n, nc, cls ++ [c], pk, .top⟩ := by
  cases e with
  | full tail =>
    simp only [lastClauseBytes]
    rw [parseFrom_congr (run_clause n nc cls pk hn c l _ hwf hok)]
    exact parse_tail _ _ _ _ tail he
  | bare =>
    have hok' := hok
    simp only [ClauseLay.ok, Bool.and_eq_true] at hok'
    simp only [lastClauseBytes]
    have hst : Starts (litsBytes c l.lits ++ zeroBytes l.zeros) := by
      have := starts_clause c l.lits l.zeros []
      simpa using this
    rw [parseFrom_congr (run_top_num _ _ _ _ _ hst),
      parseFrom_congr (run_lits n nc cls pk hn c l.lits [] _ hwf hok'.1.1), List.nil_append,
      parseFrom_ok (run_zero_dig _ _ _ _ c l.zeros)]
    simp [finish, wrap64_zero', addVal]
  | noZero tr =>
    simp only [lastClauseBytes]
    by_cases hc : c = []
    · subst hc
      simp only [List.isEmpty_nil, if_true]
      have := run_clause n nc cls pk hn [] l [] hwf hok
      rw [List.append_nil] at this
      rw [parseFrom_congr this]; rfl
    · have hce : c.isEmpty = false := by cases c with | nil => exact absurd rfl hc | cons _ _ => rfl
      have hok' := hok
      simp only [ClauseLay.ok, Bool.and_eq_true] at hok'
      simp only [hce, Bool.false_eq_true, if_false]
      rw [parseFrom_congr (run_top_num _ _ _ _ _ (starts_open tr c l.lits hc)),
        parse_open n nc cls pk hn tr he c l.lits [] hc hwf hok'.1.1, List.nil_append]

theorem parse_clauses (n : Nat) (nc : Int) (pk : Nat) (hn : n < 2147483648) (e : Ending) (he : e.ok = true) :
    ∀ (cs : List (List Int)) (ls : List ClauseLay) (cls : List (List Int)), cs ≠ [] → cnfWf n cs = true →
      ls.all (·.ok) = true →
      parseFrom ⟨n, nc, cls, pk, .top⟩ (clausesBytes cs ls e) = .ok ⟨n, nc, cls ++ cs, pk, .top⟩ := by
  intro cs
  induction cs with
  | nil => intro _ _ h; exact absurd rfl h
  | cons c cs ih =>
    intro ls cls _ hwf hok
    simp only [cnfWf, List.all_cons, Bool.and_eq_true] at hwf
    obtain ⟨hl, htl⟩ := clauseLay_head ls hok
    cases cs with
    | nil =>
      simp only [clausesBytes]
      exact parse_last n nc cls pk hn c _ e hwf.1 hl he
    | cons c' cs =>
      simp only [clausesBytes]
      rw [parseFrom_congr (run_clause n nc cls pk hn c _ _ hwf.1 hl),
        ih ls.tail (cls ++ [c]) (by simp) (by simpa [cnfWf] using hwf.2) htl]
      simp

/-! ## The whole text -/

theorem run_header_line (nv nc : Int) (cls : List (List Int)) (pk : Nat) (line X : List Nat)
    (hl : line.all (fun b => b != 10) = true) (st' : St)
    (hd : doHeader ⟨nv, nc, cls, pk, .header line⟩ (line ++ [10]) = .ok st') :
    run ⟨nv, nc, cls, pk, .top⟩ (112 :: (line ++ 10 :: X)) = run st' X := by
  have h1 : ¬ (112 = 99) := by decide
  simp only [run, step, h1, if_false, if_true]
  rw [run_append _ (run_header_acc nv nc cls pk line [] hl)]
  simp only [run, step, if_true, List.nil_append, hd]

theorem headerLine_ne_nil (d : Dimacs) (lay : ByteLayout) (h : HdrOk lay) : (headerLine d lay).isEmpty = false := by
  have := (hws_spec h.w0).1
  unfold headerLine
  cases h0 : lay.ws0 with
  | nil => exact absurd h0 this
  | cons _ _ => rfl

/-- The reading loop of `ParseCNF` on a rendering: all its variables at the end. -/
theorem parseCore_render (d : Dimacs) (lay : ByteLayout) (hwf : d.wf = true) (hok : lay.ok = true)
    (hv : d.nbVars < 2147483648) (hc : d.clauses.length ≤ 35184372088832) :
    parseCore (renderBytes d lay) =
      .ok ⟨d.nbVars, d.clauses.length, d.clauses, max d.nbVars d.clauses.length, .top⟩ := by
  simp only [ByteLayout.ok, Bool.and_eq_true] at hok
  obtain ⟨⟨⟨⟨⟨⟨⟨hb, h0⟩, h1⟩, h2⟩, h3⟩, ha⟩, hcl⟩, he⟩ := hok
  have H : HdrOk lay := ⟨h0, h1, h2, h3⟩
  have hnl := headerLine_no_nl d lay H
  show parseFrom ⟨0, 0, [], 0, .top⟩ (renderBytes d lay) = _
  unfold renderBytes
  rw [parseFrom_append _ (run_fillers 0 0 [] 0 lay.before hb)]
  have hdr10 := doHeader_render ⟨0, 0, [], 0, .header (headerLine d lay)⟩ d lay [10] H (by decide) hv hc
  have hdr0 := doHeader_render ⟨0, 0, [], 0, .header (headerLine d lay)⟩ d lay [] H (by decide) hv hc
  simp only [Nat.zero_max] at hdr10 hdr0
  rw [List.append_nil] at hdr0
  -- every shape but "header at EOF"
  have main : ∀ X : List Nat,
      parseFrom ⟨(d.nbVars : Int), (d.clauses.length : Int), [], max d.nbVars d.clauses.length, .top⟩ X =
        .ok ⟨d.nbVars, d.clauses.length, d.clauses, max d.nbVars d.clauses.length, .top⟩ →
      parseFrom ⟨0, 0, [], 0, .top⟩ (112 :: (headerLine d lay ++ 10 :: (fillersBytes lay.afterHeader ++ X))) =
        .ok ⟨d.nbVars, d.clauses.length, d.clauses, max d.nbVars d.clauses.length, .top⟩ := by
    intro X hX
    have e := run_header_line 0 0 [] 0 (headerLine d lay) (fillersBytes lay.afterHeader ++ X) hnl _ hdr10
    rw [parseFrom_congr e, parseFrom_append _ (run_fillers _ _ _ _ lay.afterHeader ha)]
    exact hX
  unfold bodyBytes
  cases hcs : d.clauses with
  | nil =>
    rw [hcs] at main
    cases hen : lay.ending with
    | bare =>
      simp only [List.append_nil]
      have hr : run ⟨0, 0, [], 0, .top⟩ (112 :: headerLine d lay) = .ok ⟨0, 0, [], 0, .header (headerLine d lay)⟩ := by
        have h1 : ¬ (112 = 99) := by decide
        simp only [run, step, h1, if_false, if_true]
        have := run_header_acc 0 0 [] 0 (headerLine d lay) [] hnl
        simpa using this
      rw [parseFrom_ok hr]
      simp only [finish, headerLine_ne_nil d lay H, Bool.false_eq_true, if_false]
      rw [hdr0, hcs]
    | full tail =>
      simp only
      rw [hen] at he
      exact main _ (parse_tail _ _ _ _ tail he)
    | noZero tr =>
      simp only
      rw [hen] at he
      exact main _ (parse_blank _ _ _ _ tr he)
  | cons c cs =>
    rw [hcs] at main
    simp only
    apply main
    have hw : cnfWf d.nbVars (c :: cs) = true := by
      have := hwf; unfold Dimacs.wf at this; rw [hcs] at this; exact this
    have := parse_clauses d.nbVars ((c :: cs).length : Int) (max d.nbVars (c :: cs).length) hv lay.ending he
      (c :: cs) lay.clauses [] (by simp) hw hcl
    rw [this]
    simp

/-- **C13, DIMACS CNF, byte level.** `solver.ParseCNF` never fails on a rendering of a well-formed
    file, whatever the byte layout, and hands to `simplify2` exactly the declared number of
    variables and the clauses of the file, in order (`nbClauses` is the declared count). -/
theorem parseBytes_render (d : Dimacs) (lay : ByteLayout) (hwf : d.wf = true) (hok : lay.ok = true)
    (hv : d.nbVars < 2147483648) (hc : d.clauses.length ≤ 35184372088832) :
    parseCnfBytes (renderBytes d lay) = .ok (d.nbVars, d.clauses.length, d.clauses) := by
  unfold parseCnfBytes
  rw [parseCore_render d lay hwf hok hv hc]
  simp

/-! ## End to end: the `*Problem` returned by `ParseCNF` has the models of the text -/

theorem sem_initPb (a : Asg) (cs : List (List Int)) :
    GS.Simplify.Sem a [] (cs.map (fun c => (⟨c, none, 1⟩ : GS.Simplify.Cl))) ↔ cnfTrue a cs = true := by
  unfold GS.Simplify.Sem cnfTrue
  simp [List.all_eq_true]

/-- **C13 end to end, byte level.** On every byte layout of a well-formed DIMACS file `ParseCNF`
    returns (no error) a problem over the declared variables which, after `simplify2`, is either
    `Unsat` — and then the file has no model — or whose units and clauses have exactly the models
    of the file (`Sat` iff no clause is left). -/
theorem parseBytes_render_sem (d : Dimacs) (lay : ByteLayout) (hwf : d.wf = true) (hok : lay.ok = true)
    (hv : d.nbVars < 2147483648) (hc : d.clauses.length ≤ 35184372088832) :
    ∃ pb, parseCnfFull (renderBytes d lay) = .ok pb ∧ pb.nbVars = d.nbVars ∧
      (pb.status = .unsat → ∀ a, d.sem a = false) ∧
      (pb.status ≠ .unsat → (∀ a, d.sem a = true ↔ GS.Simplify.Sem a pb.units pb.clauses) ∧
        (pb.status = .sat ↔ pb.clauses = [])) := by
  refine ⟨GS.Simplify.simplify2 (initPb d.nbVars d.clauses), ?_, ?_⟩
  · unfold parseCnfFull; rw [parseBytes_render d lay hwf hok hv hc]
  · have hl : ∀ c ∈ (initPb d.nbVars d.clauses).clauses,
        GS.Simplify.LitsOk (initPb d.nbVars d.clauses).model.length c := by
      intro c hcm
      simp only [initPb, List.mem_map] at hcm
      obtain ⟨c0, hc0, rfl⟩ := hcm
      intro l hlm
      have h1 : clauseWf d.nbVars c0 = true := by
        have := hwf; unfold Dimacs.wf cnfWf at this; exact List.all_eq_true.mp this c0 hc0
      have h2 := List.all_eq_true.mp h1 l hlm
      simp only [litOk, Bool.and_eq_true, bne_iff_ne, ne_eq, decide_eq_true_eq] at h2
      simpa [initPb] using h2
    have S := GS.Simplify.simplify2_spec (initPb d.nbVars d.clauses) rfl (GS.Simplify.MInv.init d.nbVars) hl
    refine ⟨S.nbVars, ?_, ?_⟩
    · intro hu a
      have := S.unsat hu a
      cases hs : d.sem a with
      | false => rfl
      | true => exact absurd ((sem_initPb a d.clauses).mpr hs) this
    · intro hn
      obtain ⟨_, h2, _, h4⟩ := S.ok hn
      exact ⟨fun a => (sem_initPb a d.clauses).symm.trans (h2 a), h4⟩

/-! ## Totality, and what is rejected -/

/-- The mirror is a total function (structural recursion on the bytes): `ParseCNF` always
    returns. In the Go code the candidates for a panic are: `fields[1]`, `fields[2]` (guarded by
    `len(fields) < 3`); `int(*b - '0')` and `IntToLit(int32(val))` (pure arithmetic); `append`;
    reading after `io.EOF` (`ReadByte` keeps returning `io.EOF`); and the two `make` calls after
    the header, which **do** panic for a negative or huge count: these are the only `panic:`
    results of the mirror (`parseBytes_errors`). -/
theorem parseBytes_total (bs : List Nat) :
    (∃ r, parseCnfBytes bs = .ok r) ∨ (∃ e, parseCnfBytes bs = .error e) := by
  cases parseCnfBytes bs with
  | ok r => exact Or.inl ⟨r, rfl⟩
  | error e => exact Or.inr ⟨e, rfl⟩

/-- Every message the mirror can answer. -/
def errorMessages : List String :=
  ["cannot parse CNF header: nbvars not an int", "cannot parse CNF header: nbClauses not an int",
   "panic: makeslice: len out of range", "panic: makeslice: cap out of range",
   "cannot parse CNF header: invalid syntax in header",
   "invalid literal for problem with that many vars only", "unmodelled: literal does not fit int32",
   "cannot parse clause: cannot read int: not a digit",
   "cannot parse CNF header: cannot read header: EOF", "cannot parse clause: cannot read int: EOF"]

theorem doHeader_errors {st : St} {line : List Nat} {e : String} (h : doHeader st line = .error e) :
    e ∈ errorMessages := by
  unfold doHeader at h
  split at h
  · split at h
    · cases h; simp [errorMessages]
    · split at h
      · cases h; simp [errorMessages]
      · split at h
        · cases h; simp [errorMessages]
        · split at h
          · cases h; simp [errorMessages]
          · cases h
  · cases h; simp [errorMessages]

theorem addVal_errors {st : St} {lits : List Int} {v : Int} {e : String} (h : addVal st lits v = .error e) :
    e ∈ errorMessages := by
  unfold addVal at h
  split at h
  · cases h
  · split at h
    · cases h; simp [errorMessages]
    · split at h
      · cases h; simp [errorMessages]
      · cases h

theorem stepNum_errors {st : St} {lits : List Int} {b : Nat} {e : String} (h : stepNum st lits b = .error e) :
    e ∈ errorMessages := by
  unfold stepNum at h
  split at h
  · cases h
  · split at h
    · cases h
    · split at h
      · cases h
      · cases h; simp [errorMessages]

theorem step_errors {st : St} {b : Nat} {e : String} (h : step st b = .error e) : e ∈ errorMessages := by
  unfold step at h
  split at h
  · split at h
    · cases h
    · split at h
      · cases h
      · split at h
        · cases h
        · exact stepNum_errors h
  · split at h <;> cases h
  · split at h
    · exact doHeader_errors h
    · cases h
  · exact stepNum_errors h
  · split at h
    · cases h
    · cases h; simp [errorMessages]
  · split at h
    · exact addVal_errors h
    · split at h
      · cases h
      · cases h; simp [errorMessages]

theorem run_errors {bs : List Nat} : ∀ {st : St} {e : String}, run st bs = .error e → e ∈ errorMessages := by
  induction bs with
  | nil => intro st e h; cases h
  | cons b bs ih =>
    intro st e h
    simp only [run] at h
    cases hs : step st b with
    | error e' => rw [hs] at h; cases h; exact step_errors hs
    | ok st' => rw [hs] at h; exact ih h

theorem finish_errors {st : St} {e : String} (h : finish st = .error e) : e ∈ errorMessages := by
  unfold finish at h
  split at h
  · cases h
  · cases h
  · split at h
    · cases h; simp [errorMessages]
    · exact doHeader_errors h
  · cases h
  · cases h; simp [errorMessages]
  · split at h
    · rename_i he; cases h; exact addVal_errors he
    · split at h <;> cases h

/-- Every failure of the mirror is one of `errorMessages`: the only panics are the two
    `makeslice` panics of the header (`p cnf -1 0`), the only unmodelled case the literal that
    does not fit `int32`. -/
theorem parseBytes_errors {bs : List Nat} {e : String} (h : parseCnfBytes bs = .error e) :
    e ∈ errorMessages := by
  unfold parseCnfBytes at h
  cases hc : parseCore bs with
  | ok st => rw [hc] at h; cases h
  | error e' =>
    rw [hc] at h; cases h
    unfold parseCore at hc
    cases hr : run {} bs with
    | error e'' => rw [hr] at hc; cases hc; exact run_errors hr
    | ok st => rw [hr] at hc; exact finish_errors hc

/-- `-` followed by anything but a digit (a space, `-`, a letter) is an error. -/
theorem reject_minus_nondigit (nv nc : Int) (cls : List (List Int)) (pk : Nat) (lits : List Int)
    (b : Nat) (rest : List Nat) (hb : isDigit b = false) :
    run ⟨nv, nc, cls, pk, .num lits⟩ (45 :: b :: rest) =
      .error "cannot parse clause: cannot read int: not a digit" := by
  have hs : isSpace 45 = false := by decide
  simp [run, step, stepNum, hs, hb]

/-- A digit followed by a byte that is neither a digit nor one of the four spaces (`1-2`, `1c`,
    `1\v`, `1\x00`) is an error. -/
theorem reject_glued (nv nc : Int) (cls : List (List Int)) (pk : Nat) (lits : List Int) (s res : Int)
    (b : Nat) (rest : List Nat) (hb : isDigit b = false) (hs : isSpace b = false) :
    run ⟨nv, nc, cls, pk, .dig lits s res⟩ (b :: rest) =
      .error "cannot parse clause: cannot read int: not a digit" := by
  simp [run, step, hs, hb]

/-- Inside a clause (after a literal) a `c`, a `p`, a `+` or any other byte that is not a
    digit, `-` or a space is an error: no comment between the literals of a clause. -/
theorem reject_inside_clause (nv nc : Int) (cls : List (List Int)) (pk : Nat) (lits : List Int)
    (b : Nat) (rest : List Nat) (hb : isDigit b = false) (hs : isSpace b = false) (hm : b ≠ 45) :
    run ⟨nv, nc, cls, pk, .num lits⟩ (b :: rest) =
      .error "cannot parse clause: cannot read int: not a digit" := by
  simp [run, step, stepNum, hs, hb, hm]

/-- A literal beyond the declared number of variables is an error. -/
theorem reject_out_of_range (nv nc : Int) (cls : List (List Int)) (pk : Nat) (lits : List Int) (v : Int)
    (h0 : v ≠ 0) (h : v > nv ∨ wrap64 (-v) > nv) :
    addVal ⟨nv, nc, cls, pk, .num lits⟩ lits v = .error "invalid literal for problem with that many vars only" := by
  simp [addVal, h0, h]

/-! ## Concrete texts -/

/-- Equality of results is decidable (for the examples below, checked by kernel evaluation). -/
instance instDecEqExcept {ε α : Type} [DecidableEq ε] [DecidableEq α] : DecidableEq (Except ε α)
  | .ok a, .ok b => if h : a = b then isTrue (h ▸ rfl) else isFalse (fun e => by cases e; exact h rfl)
  | .error a, .error b => if h : a = b then isTrue (h ▸ rfl) else isFalse (fun e => by cases e; exact h rfl)
  | .ok _, .error _ => isFalse (fun e => by cases e)
  | .error _, .ok _ => isFalse (fun e => by cases e)

/-- Bytes of an ASCII string. -/
def ofString (s : String) : List Nat := s.toList.map Char.toNat

/-- CRLF line ends, a clause over three lines, a comment between two clauses, a comment on the
    line of a `0`, clauses sharing a line, leading zeros, `+` in the header, no final newline. -/
example :
    let d : Dimacs := ⟨3, [[1, -2], [3], [], [2, 3, -1]]⟩
    let lay : ByteLayout :=
      { before := [.comment (ofString " hi\r")], ws1 := [32, 9], ws3 := [13], vars := { plus := true },
        cls := { zeros := 1 },
        afterHeader := [.blank [13, 10]],
        clauses := [{ lits := [{ sep := [13, 10] }, { zeros := 2, sep := [32, 13, 10, 9] }], term := 32,
                      after := [.comment (ofString " first\r")] },
                    { term := 32 }, { term := 13, after := [.blank [10], .comment (ofString "x"), .blank [32, 32]] }],
        ending := .bare }
    d.wf = true ∧ lay.ok = true ∧
    renderBytes d lay = ofString "c hi\r\np cnf \t+3 04\r\n\r\n1\r\n-002 \r\n\t0 c first\r\n3 0 0\r\ncx\n  2 3 -1 0" ∧
    parseCnfBytes (renderBytes d lay) = .ok (3, 4, [[1, -2], [3], [], [2, 3, -1]]) := by
  decide +kernel

/-- The last clause without its `0`; a header at the very end of the text. -/
example : parseCnfBytes (renderBytes ⟨2, [[1], [-2, 1]]⟩ { ending := .noZero [] }) = .ok (2, 2, [[1], [-2, 1]]) ∧
    renderBytes ⟨2, [[1], [-2, 1]]⟩ { ending := .noZero [] } = ofString "p cnf 2 2\n1 0\n-2 1" ∧
    renderBytes ⟨7, []⟩ { ending := .bare } = ofString "p cnf 7 0" ∧
    parseCnfBytes (ofString "p cnf 7 0") = .ok (7, 0, []) := by decide +kernel

/-! What the reader rejects, and where it panics. -/
example : parseCnfBytes (ofString "p cnf 2 1\n1 3 0\n") =
    .error "invalid literal for problem with that many vars only" := by decide +kernel
example : parseCnfBytes (ofString "p cnf 2 1\n1 - 2 0\n") =
    .error "cannot parse clause: cannot read int: not a digit" := by decide +kernel
example : parseCnfBytes (ofString "p cnf 2 1\n1-2 0\n") =
    .error "cannot parse clause: cannot read int: not a digit" := by decide +kernel
theorem parse_plus_literal : parseCnfBytes (ofString "p cnf 2 1\n+1 2 0\n") =
    .error "cannot parse clause: cannot read int: not a digit" := by decide +kernel
theorem parse_comment_inside_clause : parseCnfBytes (ofString "p cnf 2 1\n1\nc note\n2 0\n") =
    .error "cannot parse clause: cannot read int: not a digit" := by decide +kernel
example : parseCnfBytes (ofString "1 0\n") = .error "invalid literal for problem with that many vars only" := by decide +kernel
example : parseCnfBytes (ofString "p cnf -1 0\n") = .error "panic: makeslice: len out of range" := by decide +kernel
example : parseCnfBytes (ofString "p cnf 1 -1\n") = .error "panic: makeslice: cap out of range" := by decide +kernel
example : parseCnfBytes (ofString "9223372036854775808 0") = .error "unmodelled: literal does not fit int32" := by decide +kernel
/-- 64-bit wrap-around: `2^64 + 1` is read as the literal 1. -/
example : parseCnfBytes (ofString "p cnf 1 1\n18446744073709551617 0\n") = .ok (1, 1, [[1]]) := by decide +kernel
/-- A second header drops the clauses read so far; `-0` ends a clause; fields after the third are ignored. -/
example : parseCnfBytes (ofString "p cnf 3 1\n1 0\npxx 2 2 junk\n2 -0") = .ok (2, 2, [[2]]) := by decide +kernel
/-- U+00A0 and U+0085 separate the fields of the header (`strings.Fields`), an isolated `A0` byte does not. -/
example : parseCnfBytes ([112, 32, 99, 110, 102, 194, 160, 50, 194, 133, 49]) = .ok (2, 1, []) := by decide +kernel
example : parseCnfBytes ([112, 32, 99, 110, 102, 32, 50, 160, 49, 32, 49]) =
    .error "cannot parse CNF header: nbvars not an int" := by decide +kernel

end GS.CnfBytes

#print axioms GS.CnfBytes.parseBytes_render
#print axioms GS.CnfBytes.parseBytes_render_sem
#print axioms GS.CnfBytes.parseBytes_total
#print axioms GS.CnfBytes.parseBytes_errors
#print axioms GS.CnfBytes.reject_minus_nondigit
#print axioms GS.CnfBytes.reject_glued
#print axioms GS.CnfBytes.reject_inside_clause
#print axioms GS.CnfBytes.reject_out_of_range
