import GS.Props.C01_WatchLevels
/-!
# C01 (support) — `propagate` and the levels: model evolution, the part of `propagate_specL` for the
trail literals at positions `≥ ptr`
-/
namespace GS.Watch
open GS.Search (lvlAbs keepLen cleanup)

/-- every binding of `m'` is the one of `m`, or binds a variable unbound in `m` at `±lvl` -/
def ModelExt (lvl : Int) (m m' : List Int) : Prop :=
  ∀ v : Nat, m'[v]? = m[v]? ∨ (m[v]? = some 0 ∧ (m'[v]? = some lvl ∨ m'[v]? = some (-lvl)))

theorem ModelExt.refl (lvl : Int) (m : List Int) : ModelExt lvl m m := fun _ => Or.inl rfl

theorem ModelExt.trans {lvl : Int} {m m' m'' : List Int} (h1 : ModelExt lvl m m')
    (h2 : ModelExt lvl m' m'') : ModelExt lvl m m'' := by
  intro v
  rcases h1 v with a | ⟨a0, a⟩ <;> rcases h2 v with b | ⟨b0, b⟩
  · left; rw [b, a]
  · right; rw [a] at b0; exact ⟨b0, b⟩
  · right; rw [← b] at a; exact ⟨a0, a⟩
  · right; exact ⟨a0, b⟩

theorem bind_ModelExt {st st' : State} {l lvl : Int} {cid : Nat}
    (hu : st.model[l.natAbs - 1]? = some 0) (h : bind st l lvl cid = some st') :
    ModelExt lvl st.model st'.model ∧ st'.model.length = st.model.length := by
  unfold bind at h
  split at h
  · cases h
  · split at h
    · rename_i hlt
      cases h
      refine ⟨?_, by simp⟩
      intro v
      by_cases hv : l.natAbs - 1 = v
      · right
        subst hv
        refine ⟨hu, ?_⟩
        show (st.model.set _ _)[_]? = _ ∨ (st.model.set _ _)[_]? = _
        rw [List.getElem?_set_self hlt.2]
        unfold signedLvl
        split
        · exact Or.inl rfl
        · exact Or.inr rfl
      · left
        show (st.model.set _ _)[_]? = _
        rw [List.getElem?_set_ne hv]
    · cases h

theorem modelAt_zero {m : List Int} {l : Int} (h : modelAt m l = some 0) :
    m[l.natAbs - 1]? = some 0 := by
  unfold modelAt at h
  split at h
  · cases h
  · exact h

theorem propBin_ModelExt {lvl : Int} : ∀ (ws : List Watcher) (st : State) (c : Option Nat) (st' : State),
    propBin lvl ws st = .ok (c, st') →
      ModelExt lvl st.model st'.model ∧ st'.model.length = st.model.length := by
  intro ws
  induction ws with
  | nil => intro st c st' h; simp [propBin] at h; obtain ⟨_, rfl⟩ := h; exact ⟨ModelExt.refl _ _, rfl⟩
  | cons w ws ih =>
    intro st c st' h
    rw [propBin] at h
    split at h
    · cases h
    · rename_i a ha
      split at h
      · rename_i ha0
        subst ha0
        split at h
        · cases h
        · rename_i st2 hb
          obtain ⟨e1, l1⟩ := bind_ModelExt (modelAt_zero ha) hb
          obtain ⟨e2, l2⟩ := ih _ _ _ h
          exact ⟨e1.trans e2, by rw [l2, l1]⟩
      · split at h
        · cases h; exact ⟨ModelExt.refl _ _, rfl⟩
        · exact ih _ _ _ h

theorem simpLoop_ModelExt {lit lvl : Int} : ∀ (rest kept : List Watcher) (st : State) (c : Option Nat)
    (k : List Watcher) (st' : State),
    simpLoop lit lvl rest kept st = .ok (c, k, st') →
      ModelExt lvl st.model st'.model ∧ st'.model.length = st.model.length := by
  intro rest
  induction rest with
  | nil =>
    intro kept st c k st' h
    simp [simpLoop] at h
    obtain ⟨_, _, rfl⟩ := h
    exact ⟨ModelExt.refl _ _, rfl⟩
  | cons w rest ih =>
    intro kept st c k st' h
    rw [simpLoop_cons] at h
    split at h
    · cases h
    · exact ih _ _ _ _ _ h
    · unfold nonSatBody at h
      split at h
      · cases h
      split at h
      · cases h
      split at h
      · cases h
      split at h
      · cases h
      dsimp only at h
      split at h
      · cases h
      · have := ih _ _ _ _ _ h; exact this
      · rename_i fs hns hfs
        split at h
        · cases h
        · split at h
          · cases h
          · split at h
            · cases h
            · have := ih _ _ _ _ _ h; exact this
        · try dsimp only at h
          split at h
          · injection h with h
            injection h with h1 h2
            injection h2 with h2 h3
            subst h3
            exact ⟨ModelExt.refl _ _, rfl⟩
          · rename_i hnu
            split at h
            · cases h
            · rename_i st2 hb
              have hind : fs = .indet := by
                cases fs
                · rfl
                · exact absurd rfl hns
                · exact absurd rfl hnu
              subst hind
              have hu0 := (litUnboundB_iff.mp (litUnboundB_of_indet hfs)).2
              obtain ⟨e1, l1⟩ := bind_ModelExt (st := setClause st w.cid _) (hu := hu0) hb
              obtain ⟨e2, l2⟩ := ih _ _ _ _ _ h
              exact ⟨e1.trans e2, by rw [l2, l1]⟩

theorem propLit_ModelExt {lit lvl : Int} {st st' : State} {c : Option Nat}
    (h : propLit lit lvl st = .ok (c, st')) :
    ModelExt lvl st.model st'.model ∧ st'.model.length = st.model.length := by
  unfold propLit at h
  split at h
  · cases h
  · split at h
    · cases h
    · rename_i hb
      cases h
      exact propBin_ModelExt _ _ _ _ hb
    · rename_i st1 hb
      obtain ⟨e1, l1⟩ := propBin_ModelExt _ _ _ _ hb
      unfold simplify at h
      split at h
      · cases h
      · split at h
        · cases h
        · rename_i hs
          cases h
          obtain ⟨e2, l2⟩ := simpLoop_ModelExt _ _ _ _ _ _ hs
          exact ⟨e1.trans e2, by show _ = _; rw [l2, l1]⟩

theorem loop_ModelExt {lvl : Int} : ∀ (fuel ptr : Nat) (st : State) (c : Option Nat) (st' : State),
    loop lvl fuel ptr st = .ok (c, st') →
      ModelExt lvl st.model st'.model ∧ st'.model.length = st.model.length := by
  intro fuel
  induction fuel with
  | zero =>
    intro ptr st c st' h
    rw [loop] at h
    split at h
    · cases h
    · cases h; exact ⟨ModelExt.refl _ _, rfl⟩
  | succ fuel ih =>
    intro ptr st c st' h
    rw [loop] at h
    split at h
    · cases h; exact ⟨ModelExt.refl _ _, rfl⟩
    · split at h
      · cases h
      · rename_i hp
        cases h
        exact propLit_ModelExt hp
      · rename_i st1 hp
        obtain ⟨e1, l1⟩ := propLit_ModelExt hp
        obtain ⟨e2, l2⟩ := ih _ _ _ _ h
        exact ⟨e1.trans e2, by rw [l2, l1]⟩

/-- **Model evolution**: every binding after `propagate ptr lvl` (conflict or not) is the one before,
    or binds a variable that was unbound at `+lvl` or `-lvl`; no hypothesis on the state. -/
theorem propagate_ModelExt {ptr : Nat} {lvl : Int} {st st' : State} {c : Option Nat}
    (h : propagate ptr lvl st = .ok (c, st')) :
    ModelExt lvl st.model st'.model ∧ st'.model.length = st.model.length :=
  loop_ModelExt _ _ _ _ _ h

#print axioms propagate_ModelExt

/-- **Levels after `propagate`**: the literals that were on the trail keep their level, and (when `lvl`
    bounds the levels of the trail before) every level after is `≤ lvl`: so `SemWL_of_top` applies to
    the watchers of every trail literal bound at `lvl`. -/
theorem propagate_levels {ptr : Nat} {lvl : Int} {st st' : State} {c : Option Nat}
    (hI : WatchInv st ptr) (hlvl : 0 < lvl) (hmax : ∀ t ∈ st.trail, lvlAbs st.model t ≤ lvl)
    (h : propagate ptr lvl st = .ok (c, st')) :
    (∀ t ∈ st.trail, lvlAbs st'.model t = lvlAbs st.model t) ∧ (∀ x, lvlAbs st'.model x ≤ lvl) := by
  obtain ⟨hE, _⟩ := propagate_ModelExt h
  constructor
  · intro t ht
    obtain ⟨_, a, ha, ha0, _⟩ := litTrueB_iff.mp (hI.trail_true t ht)
    rcases hE (t.natAbs - 1) with e | ⟨e0, _⟩
    · exact lvlAbs_congr e
    · rw [ha] at e0; cases e0; exact absurd rfl ha0
  · intro x
    rcases hE (x.natAbs - 1) with e | ⟨_, e | e⟩
    · rw [lvlAbs_congr e]
      cases hx : st.model[x.natAbs - 1]? with
      | none => unfold lvlAbs; rw [hx]; simp; omega
      | some a =>
        have hlt : x.natAbs - 1 < st.model.length := by
          rcases Nat.lt_or_ge (x.natAbs - 1) st.model.length with h1 | h1
          · exact h1
          · rw [List.getElem?_eq_none h1] at hx; cases hx
        rcases hI.bound_on_trail _ hlt with hb | hb
        · unfold lvlAbs; rw [hb]; simp; omega
        · obtain ⟨t, ht, htv⟩ := List.mem_map.mp hb
          have : lvlAbs st.model x = lvlAbs st.model t := by
            unfold lvlAbs
            have : t.natAbs - 1 = x.natAbs - 1 := by omega
            rw [this]
          rw [this]; exact hmax t ht
    · unfold lvlAbs; rw [e]; simp; omega
    · unfold lvlAbs; rw [e]; simp; omega

#print axioms propagate_levels

/-- What is still open: `GS.Watch.propagate_specL_statement` (the watchers of the trail literals at
    positions `< ptr` keep an excuse at a level `≤` theirs; `mono` for the appended literals). -/
def propagate_specL_open : Prop := propagate_specL_statement

/-- non-vacuity: the hypotheses of `propagate_levels` on the backjump example of `C01_WatchLevels` -/
example : watchInv (bindSt (cleanup 2 exLevels) (-1) 2 1) 1 = true ∧
    (∀ t ∈ (bindSt (cleanup 2 exLevels) (-1) 2 1).trail,
      lvlAbs (bindSt (cleanup 2 exLevels) (-1) 2 1).model t ≤ 2) ∧
    (match propagate 1 2 (bindSt (cleanup 2 exLevels) (-1) 2 1) with
     | .ok (none, s) => s.model.all (fun a => decide (a.natAbs ≤ 2)) | _ => false) = true := by decide

end GS.Watch
