import GS.Model.PbSet
/-!
# C14 — soundness of the `pbSet` arithmetic of `solver/learn_pb.go`

Every operation the cutting-planes conflict analysis applies to a constraint (`clash`,
`divideBy`, the weakening loop of `roundToOne`, `roundToOne` itself) maps constraints that
hold under an assignment to a constraint that holds under the same assignment, for all
weight lists, degrees and assignments. All arithmetic is over unbounded `Int` (Go's `int`
overflow is outside this model).
-/
namespace GS

/-- contribution of the signed weight `w` stored at list position `k` (variable `k+1`) -/
def pbTerm (a : Asg) (k : Nat) (w : Int) : Int :=
  if w > 0 then (if a (k+1) then w else 0)
  else if w < 0 then (if a (k+1) then 0 else -w)
  else 0

theorem lhsFrom_nil (a : Asg) (k : Nat) : PbSet.lhsFrom a k [] = 0 := rfl

theorem lhsFrom_cons (a : Asg) (k : Nat) (w : Int) (ws : List Int) :
    PbSet.lhsFrom a k (w :: ws) = pbTerm a k w + PbSet.lhsFrom a (k+1) ws := rfl

theorem pbTerm_zero (a : Asg) (k : Nat) : pbTerm a k 0 = 0 := by
  simp [pbTerm]

theorem pbTerm_nonneg (a : Asg) (k : Nat) (w : Int) : 0 ≤ pbTerm a k w := by
  unfold pbTerm
  cases a (k+1) <;> simp <;> omega

theorem pbTerm_le_iabs (a : Asg) (k : Nat) (w : Int) : pbTerm a k w ≤ iabs w := by
  unfold pbTerm iabs
  cases a (k+1) <;> simp <;> omega

theorem lhsFrom_nonneg (a : Asg) (k : Nat) (ws : List Int) : 0 ≤ PbSet.lhsFrom a k ws := by
  induction ws generalizing k with
  | nil => simp [lhsFrom_nil]
  | cons w ws ih =>
    rw [lhsFrom_cons]
    have := pbTerm_nonneg a k w
    have := ih (k+1)
    omega

theorem holds_iff (a : Asg) (p : PbSet) :
    p.holds a = true ↔ p.card ≤ PbSet.lhsFrom a 0 p.weights := by
  simp [PbSet.holds]

/-! ## 1. `clash` -/

theorem mul_neg_iff_signs (x y : Int) : x * y < 0 ↔ (x < 0 ∧ 0 < y) ∨ (0 < x ∧ y < 0) := by
  constructor
  · intro h
    rcases Int.lt_trichotomy x 0 with hx | hx | hx
    · rcases Int.lt_trichotomy y 0 with hy | hy | hy
      · have := Int.mul_pos_of_neg_of_neg hx hy; omega
      · subst hy; simp at h
      · exact Or.inl ⟨hx, hy⟩
    · subst hx; simp at h
    · rcases Int.lt_trichotomy y 0 with hy | hy | hy
      · exact Or.inr ⟨hx, hy⟩
      · subst hy; simp at h
      · have := Int.mul_pos hx hy; omega
  · rintro (⟨hx, hy⟩ | ⟨hx, hy⟩)
    · exact Int.mul_neg_of_neg_of_pos hx hy
    · exact Int.mul_neg_of_pos_of_neg hx hy

/-- one variable of the cancelling addition: `x + ¬x = 1` -/
theorem pbTerm_clash (a : Asg) (k : Nat) (w1 w2 : Int) :
    pbTerm a k (w1 + w2) + (if w1 * w2 < 0 then imin (iabs w1) (iabs w2) else 0)
      = pbTerm a k w1 + pbTerm a k w2 := by
  by_cases h : w1 * w2 < 0
  · rw [if_pos h]
    rw [mul_neg_iff_signs] at h
    unfold pbTerm imin iabs
    cases a (k+1) <;> simp <;> omega
  · rw [if_neg h]
    rw [mul_neg_iff_signs] at h
    unfold pbTerm
    cases a (k+1) <;> simp <;> omega

theorem lhsFrom_clash (a : Asg) (k : Nat) (l1 l2 : List Int) (hlen : l1.length = l2.length) :
    PbSet.lhsFrom a k (List.zipWith (· + ·) l1 l2) + clashCorr l1 l2
      = PbSet.lhsFrom a k l1 + PbSet.lhsFrom a k l2 := by
  induction l1 generalizing k l2 with
  | nil =>
    cases l2 with
    | nil => simp [lhsFrom_nil, clashCorr]
    | cons _ _ => simp at hlen
  | cons w1 r1 ih =>
    cases l2 with
    | nil => simp at hlen
    | cons w2 r2 =>
      simp only [List.length_cons, Nat.add_right_cancel_iff] at hlen
      have h1 := ih (k+1) r2 hlen
      have h2 := pbTerm_clash a k w1 w2
      simp only [List.zipWith_cons_cons, lhsFrom_cons, clashCorr]
      omega

/-- **C14.1** cancelling addition is sound. -/
theorem clash_sound (a : Asg) (p1 p2 : PbSet) (hlen : p1.weights.length = p2.weights.length)
    (h1 : p1.holds a = true) (h2 : p2.holds a = true) : (PbSet.clash p1 p2).holds a = true := by
  rw [holds_iff] at *
  have := lhsFrom_clash a 0 p1.weights p2.weights hlen
  simp only [PbSet.clash]
  omega

/-- the clash of the comment in `Model/PbSet.lean`-style: `2 x1 + 3 ¬x2 + x3 ≥ 3` with
    `x1 + 2 x2 + 2 ¬x3 ≥ 2` gives `3 x1 + ¬x2 + ¬x3 ≥ 2` (correction `min 3 2 + min 1 2 = 3`). -/
example : PbSet.clash ⟨[2, -3, 1], 3⟩ ⟨[1, 2, -2], 2⟩ = ⟨[3, -1, -1], 2⟩ := by decide
example : (⟨[2, -3, 1], 3⟩ : PbSet).weights.length = (⟨[1, 2, -2], 2⟩ : PbSet).weights.length ∧
    (⟨[2, -3, 1], 3⟩ : PbSet).holds (fun v => v == 1) = true ∧
    (⟨[1, 2, -2], 2⟩ : PbSet).holds (fun v => v == 1) = true := by decide

/-- the equal-length hypothesis is needed by the model (`zipWith` truncates; Go panics with an
    index out of range when `pb2` is shorter and ignores the tail of `pb2` when it is longer). -/
example : (⟨[0, 1], 1⟩ : PbSet).holds (fun v => v == 2) = true ∧
    (⟨[1], 0⟩ : PbSet).holds (fun v => v == 2) = true ∧
    (PbSet.clash ⟨[0, 1], 1⟩ ⟨[1], 0⟩).holds (fun v => v == 2) = false := by decide

/-! ## 2. `divideBy` -/

/-- when `divideBy` is sound on the degree `k`: everywhere except `-c < k < 0`, where Go's
    truncating division followed by `+ 1` produces degree `1` from a trivially true constraint. -/
def divSafe (c k : Int) : Prop := 0 ≤ k ∨ k ≤ -c

instance (c k : Int) : Decidable (divSafe c k) := by unfold divSafe; infer_instance

theorem divW_spec (c w : Int) (hc : 0 < c) :
    (0 < w → 0 < divW c w ∧ w ≤ c * divW c w) ∧
    (w < 0 → divW c w < 0 ∧ -w ≤ c * -(divW c w)) ∧
    (w = 0 → divW c w = 0) := by
  have hdm := Int.mul_tdiv_add_tmod w c
  have hneg : c * -(w.tdiv c - 1) = -(c * w.tdiv c) + c := by
    rw [Int.neg_sub, Int.mul_sub, Int.mul_one]; omega
  have hneg0 : c * -(w.tdiv c) = -(c * w.tdiv c) := Int.mul_neg ..
  have hpos : c * (w.tdiv c + 1) = c * w.tdiv c + c := by rw [Int.mul_add, Int.mul_one]
  refine ⟨fun hw => ?_, fun hw => ?_, fun hw => by simp [divW, hw]⟩
  · have hr0 : 0 ≤ w.tmod c := Int.tmod_nonneg c (by omega)
    have hrc : w.tmod c < c := Int.tmod_lt_of_pos w hc
    have hq0 : 0 ≤ w.tdiv c := Int.tdiv_nonneg (by omega) (by omega)
    unfold divW
    by_cases hm : w.tmod c = 0
    · have hq : 0 < w.tdiv c := by
        rcases Int.lt_or_eq_of_le hq0 with h | h
        · exact h
        · rw [← h] at hdm; simp at hdm; omega
      simp [hm, show w ≠ 0 by omega]; omega
    · simp [hm, hw, show w ≠ 0 by omega]; omega
  · have hr0 : w.tmod c ≤ 0 := by
      have := Int.tmod_nonneg (a := -w) c (by omega)
      rw [Int.neg_tmod] at this; omega
    have hrc : -c < w.tmod c := by
      have := Int.tmod_lt_of_pos (-w) hc
      rw [Int.neg_tmod] at this; omega
    have hq0 : w.tdiv c ≤ 0 := by
      have := Int.tdiv_nonneg (a := -w) (b := c) (by omega) (by omega)
      rw [Int.neg_tdiv] at this; omega
    unfold divW
    by_cases hm : w.tmod c = 0
    · have hq : w.tdiv c < 0 := by
        rcases Int.lt_or_eq_of_le hq0 with h | h
        · exact h
        · rw [h] at hdm; simp at hdm; omega
      simp [hm, show w ≠ 0 by omega]; omega
    · simp [hm, show w ≠ 0 by omega, show ¬ (0 < w) by omega]; omega

theorem pbTerm_div (a : Asg) (k : Nat) (c w : Int) (hc : 0 < c) :
    pbTerm a k w ≤ c * pbTerm a k (divW c w) := by
  obtain ⟨hp, hn, hz⟩ := divW_spec c w hc
  rcases Int.lt_trichotomy w 0 with hw | hw | hw
  · obtain ⟨h1, h2⟩ := hn hw
    unfold pbTerm
    cases a (k+1)
    · simp [show ¬ (0 < w) by omega, show ¬ (0 < divW c w) by omega, hw, h1]; exact h2
    · simp [show ¬ (0 < w) by omega, show ¬ (0 < divW c w) by omega, hw, h1]
  · rw [hz hw, hw, pbTerm_zero]; simp
  · obtain ⟨h1, h2⟩ := hp hw
    unfold pbTerm
    cases a (k+1)
    · simp [hw, h1]
    · simp [hw, h1]; exact h2

theorem lhsFrom_div (a : Asg) (k : Nat) (c : Int) (ws : List Int) (hc : 0 < c) :
    PbSet.lhsFrom a k ws ≤ c * PbSet.lhsFrom a k (ws.map (divW c)) := by
  induction ws generalizing k with
  | nil => simp [lhsFrom_nil]
  | cons w ws ih =>
    simp only [List.map_cons, lhsFrom_cons, Int.mul_add]
    have := pbTerm_div a k c w hc
    have := ih (k+1)
    omega

/-- the degree part: from `k ≤ c·L`, `0 ≤ L` conclude `divCard c k ≤ L`, except when `-c < k < 0`. -/
theorem divCard_le (c k L : Int) (hc : 0 < c) (hs : divSafe c k) (hL : 0 ≤ L) (h : k ≤ c * L) :
    divCard c k ≤ L := by
  have hdm := Int.mul_tdiv_add_tmod k c
  unfold divCard
  by_cases hm : k.tmod c = 0
  · rw [if_pos hm]
    rw [hm] at hdm
    exact Int.le_of_mul_le_mul_left (a := c) (by omega) hc
  · rw [if_neg hm]
    rcases Int.lt_or_le k 0 with hk | hk
    · -- negative non-multiple: `k ≤ -c`, so the truncated quotient is `≤ -1`
      have hkc : k ≤ -c := by unfold divSafe at hs; omega
      have hrc : -c < k.tmod c := by
        have := Int.tmod_lt_of_pos (-k) hc
        rw [Int.neg_tmod] at this; omega
      have hq : k.tdiv c < 0 := by
        apply Int.lt_of_mul_lt_mul_left (a := c) _ (by omega)
        omega
      omega
    · have hr0 : 0 ≤ k.tmod c := Int.tmod_nonneg c hk
      have hlt : k.tdiv c < L := by
        apply Int.lt_of_mul_lt_mul_left (a := c) _ (by omega)
        omega
      omega

/-- **C14.2** rounding division is sound when the degree is not in the open interval `(-c, 0)`. -/
theorem divide_sound (a : Asg) (p : PbSet) (c : Int) (hc : 0 < c) (hs : divSafe c p.card)
    (h : p.holds a = true) : (PbSet.divideBy p c).holds a = true := by
  rw [holds_iff] at *
  simp only [PbSet.divideBy]
  exact divCard_le c p.card _ hc hs (lhsFrom_nonneg ..) (Int.le_trans h (lhsFrom_div a 0 c p.weights hc))

theorem divide_sound_of_nonneg (a : Asg) (p : PbSet) (c : Int) (hc : 0 < c) (hk : 0 ≤ p.card)
    (h : p.holds a = true) : (PbSet.divideBy p c).holds a = true :=
  divide_sound a p c hc (Or.inl hk) h

/-- `5 x1 + 3 ¬x2 + 2 x3 ≥ 6` divided by `3`: `2 x1 + ¬x2 + x3 ≥ 2`. -/
example : PbSet.divideBy ⟨[5, -3, 2], 6⟩ 3 = ⟨[2, -1, 1], 2⟩ := by decide
example : (0:Int) < 3 ∧ divSafe 3 (⟨[5, -3, 2], 6⟩ : PbSet).card ∧
    (⟨[5, -3, 2], 6⟩ : PbSet).holds (fun v => v == 1 || v == 3) = true := by decide

/-- **Finding.** `divSafe` cannot be dropped: `2 x1 ≥ -1` holds under `x1 = false`, but
    `divideBy 2` returns `x1 ≥ 1` (`-1 % 2 = -1 ≠ 0`, so the degree becomes `-1/2 + 1 = 0 + 1`). -/
example : (⟨[2], -1⟩ : PbSet).holds (fun _ => false) = true ∧
    PbSet.divideBy ⟨[2], -1⟩ 2 = ⟨[1], 1⟩ ∧
    (PbSet.divideBy ⟨[2], -1⟩ 2).holds (fun _ => false) = false := by decide

/-! ### `divSafe` is exactly the soundness condition of `divideBy` -/

theorem lhsFrom_eq_zero (a : Asg) (k : Nat) (ws : List Int)
    (h : ∀ i, (0 < ws.getD i 0 → a (k+i+1) = false) ∧ (ws.getD i 0 < 0 → a (k+i+1) = true)) :
    PbSet.lhsFrom a k ws = 0 := by
  induction ws generalizing k with
  | nil => rfl
  | cons w ws ih =>
    have h0 := h 0
    simp only [List.getD_cons_zero, Nat.add_zero] at h0
    have ih' := ih (k+1) (by
      intro i
      have := h (i+1)
      simp only [List.getD_cons_succ] at this
      rw [show k + (i+1) + 1 = k + 1 + i + 1 by omega] at this
      exact this)
    rw [lhsFrom_cons, ih']
    unfold pbTerm
    rcases Int.lt_trichotomy w 0 with hw | hw | hw
    · simp [h0.2 hw, show ¬ (0 < w) by omega]
    · simp [hw]
    · simp [h0.1 hw]; omega

theorem divCard_of_unsafe (c k : Int) (h1 : -c < k) (h2 : k < 0) : divCard c k = 1 := by
  have hq : k.tdiv c = 0 := by
    have := Int.tdiv_eq_zero_of_lt (a := -k) (b := c) (by omega) (by omega)
    rw [Int.neg_tdiv] at this; omega
  have hdm := Int.mul_tdiv_add_tmod k c
  rw [hq, Int.mul_zero, Int.zero_add] at hdm
  unfold divCard
  rw [if_neg (by omega), hq]; rfl

/-- **Finding (general form).** Whenever the degree lies in `(-c, 0)`, `divideBy` is unsound:
    the assignment falsifying every literal satisfies `p` (degree `< 0`) but not the result
    (degree `1`, left-hand side `0`). So `divSafe` in `divide_sound` is necessary. -/
theorem divide_unsound (p : PbSet) (c : Int) (hc : 0 < c) (h : ¬ divSafe c p.card) :
    ∃ a : Asg, p.holds a = true ∧ (PbSet.divideBy p c).holds a = false := by
  have h1 : -c < p.card := by unfold divSafe at h; omega
  have h2 : p.card < 0 := by unfold divSafe at h; omega
  refine ⟨fun v => decide (p.weights.getD (v-1) 0 < 0), ?_, ?_⟩
  · rw [holds_iff]
    have := lhsFrom_nonneg (fun v => decide (p.weights.getD (v-1) 0 < 0)) 0 p.weights
    omega
  · have hz : PbSet.lhsFrom (fun v => decide (p.weights.getD (v-1) 0 < 0)) 0
        (p.weights.map (divW c)) = 0 := by
      apply lhsFrom_eq_zero
      intro i
      simp only [Nat.zero_add, Nat.add_sub_cancel, decide_eq_false_iff_not, decide_eq_true_eq]
      have hget : (p.weights.map (divW c)).getD i 0 = divW c (p.weights.getD i 0) := by
        simp only [List.getD_eq_getElem?_getD, List.getElem?_map]
        cases p.weights[i]? <;> simp [divW]
      rw [hget]
      obtain ⟨hp, hn, hz⟩ := divW_spec c (p.weights.getD i 0) hc
      rcases Int.lt_trichotomy (p.weights.getD i 0) 0 with hw | hw | hw
      · have := (hn hw).1; constructor <;> intro <;> omega
      · have := hz hw; constructor <;> intro <;> omega
      · have := (hp hw).1; constructor <;> intro <;> omega
    simp only [PbSet.holds, PbSet.divideBy, hz, divCard_of_unsafe c p.card h1 h2]
    decide

/-! ## 3. weakening -/

/-- the test of the weakening loop of `roundToOne` -/
def weakenCond (m : List Int) (wi : Int) (j : Nat) (w : Int) : Prop :=
  w ≠ 0 ∧ w.tmod wi ≠ 0 ∧ (modelAt m j = 0 ∨ (decide (modelAt m j > 0) = decide (w > 0)))

instance (m : List Int) (wi : Int) (j : Nat) (w : Int) : Decidable (weakenCond m wi j w) := by
  unfold weakenCond; infer_instance

theorem weakenFrom_nil (m : List Int) (wi : Int) (j : Nat) : weakenFrom m wi j [] = ([], 0) := rfl

theorem weakenFrom_cons (m : List Int) (wi : Int) (j : Nat) (w : Int) (ws : List Int) :
    weakenFrom m wi j (w :: ws) =
      if weakenCond m wi j w then
        (0 :: (weakenFrom m wi (j+1) ws).1, (weakenFrom m wi (j+1) ws).2 + iabs w)
      else (w :: (weakenFrom m wi (j+1) ws).1, (weakenFrom m wi (j+1) ws).2) := by
  rw [weakenFrom]
  rfl

/-- Weakening in general: whatever positions are zeroed (whatever `m`, `wi`, `j` are), the
    left-hand side decreases by at most the removed amount `d`, and `d ≥ 0`. -/
theorem lhsFrom_weaken (a : Asg) (m : List Int) (wi : Int) (j k : Nat) (ws : List Int) :
    PbSet.lhsFrom a k ws ≤ PbSet.lhsFrom a k (weakenFrom m wi j ws).1 + (weakenFrom m wi j ws).2
    ∧ 0 ≤ (weakenFrom m wi j ws).2 := by
  induction ws generalizing j k with
  | nil => simp [weakenFrom_nil, lhsFrom_nil]
  | cons w ws ih =>
    obtain ⟨h1, h2⟩ := ih (j+1) (k+1)
    rw [weakenFrom_cons]
    have hle := pbTerm_le_iabs a k w
    have hnn := pbTerm_nonneg a k w
    by_cases hc : weakenCond m wi j w
    · simp only [if_pos hc, lhsFrom_cons, pbTerm_zero]
      omega
    · simp only [if_neg hc, lhsFrom_cons]
      omega

theorem weakenFrom_length (m : List Int) (wi : Int) (j : Nat) (ws : List Int) :
    (weakenFrom m wi j ws).1.length = ws.length := by
  induction ws generalizing j with
  | nil => simp [weakenFrom_nil]
  | cons w ws ih =>
    rw [weakenFrom_cons]
    by_cases hc : weakenCond m wi j w <;> simp [hc, ih]

/-- **C14.3** the weakening loop of `roundToOne` is sound, for every model list `m`, divisor
    `wi` and start index. -/
theorem weaken_sound (a : Asg) (p : PbSet) (m : List Int) (wi : Int) (h : p.holds a = true) :
    let (ws, d) := weakenFrom m wi 0 p.weights
    PbSet.holds a ⟨ws, p.card - d⟩ = true := by
  have := (lhsFrom_weaken a m wi 0 0 p.weights).1
  rw [holds_iff] at h
  show PbSet.holds a ⟨(weakenFrom m wi 0 p.weights).1, p.card - (weakenFrom m wi 0 p.weights).2⟩ = true
  rw [holds_iff]
  show p.card - (weakenFrom m wi 0 p.weights).2 ≤ PbSet.lhsFrom a 0 (weakenFrom m wi 0 p.weights).1
  omega

/-- `5 x1 + 3 ¬x2 + 2 x3 ≥ 6`, `x1` false in the model, `x2`, `x3` unassigned, rounding on `x1`
    (`wi = 5`): both other literals are weakened away, leaving `5 x1 ≥ 1`. -/
example : weakenFrom [-1, 0, 0] 5 0 [5, -3, 2] = ([5, 0, 0], 5) := by decide

/-! ## 4. `roundToOne` -/

/-- degree after the weakening loop of `p.roundToOne m locked` -/
def weakenedCard (p : PbSet) (m : List Int) (locked : Nat) : Int :=
  p.card - (weakenFrom m (iabs (p.weights.getD locked 0)) 0 p.weights).2

/-- the side condition under which `roundToOne` is sound: either no division happens, or the
    weakened degree is outside `(-wi, 0)` (see `divSafe`). -/
def roundSafe (p : PbSet) (m : List Int) (locked : Nat) : Prop :=
  iabs (p.weights.getD locked 0) = 1 ∨
    divSafe (iabs (p.weights.getD locked 0)) (weakenedCard p m locked)

instance (p : PbSet) (m : List Int) (locked : Nat) : Decidable (roundSafe p m locked) := by
  unfold roundSafe; infer_instance

theorem iabs_nonneg (x : Int) : 0 ≤ iabs x := by unfold iabs; split <;> omega

theorem roundToOne_eq (p : PbSet) (m : List Int) (locked : Nat) :
    PbSet.roundToOne p m locked =
      if iabs (p.weights.getD locked 0) = 1 then some p
      else if iabs (p.weights.getD locked 0) = 0 then none
      else some (PbSet.divideBy
        ⟨(weakenFrom m (iabs (p.weights.getD locked 0)) 0 p.weights).1, weakenedCard p m locked⟩
        (iabs (p.weights.getD locked 0))) := rfl

/-- **C14.4** `roundToOne` is sound under `roundSafe`. -/
theorem roundToOne_sound (a : Asg) (p q : PbSet) (m : List Int) (locked : Nat)
    (hs : roundSafe p m locked)
    (hq : PbSet.roundToOne p m locked = some q) (h : p.holds a = true) : q.holds a = true := by
  rw [roundToOne_eq] at hq
  by_cases h1 : iabs (p.weights.getD locked 0) = 1
  · rw [if_pos h1] at hq; cases hq; exact h
  · rw [if_neg h1] at hq
    by_cases h0 : iabs (p.weights.getD locked 0) = 0
    · rw [if_pos h0] at hq; cases hq
    · rw [if_neg h0] at hq
      cases hq
      have hpos : 0 < iabs (p.weights.getD locked 0) := by
        have := iabs_nonneg (p.weights.getD locked 0); omega
      have hsafe : divSafe (iabs (p.weights.getD locked 0)) (weakenedCard p m locked) := by
        rcases hs with hs | hs
        · exact absurd hs h1
        · exact hs
      exact divide_sound a _ _ hpos hsafe (weaken_sound a p m _ h)

theorem roundToOne_length (p q : PbSet) (m : List Int) (locked : Nat)
    (hq : PbSet.roundToOne p m locked = some q) : q.weights.length = p.weights.length := by
  rw [roundToOne_eq] at hq
  split at hq
  · cases hq; rfl
  · split at hq
    · cases hq
    · cases hq; simp [PbSet.divideBy, weakenFrom_length]

/-- RoundingSAT-style example: `5 x1 + 3 ¬x2 + 2 x3 ≥ 6` with `x1` false, others unassigned,
    rounded on variable 1: weaken to `5 x1 ≥ 1`, divide by 5: `x1 ≥ 1`. -/
example : PbSet.roundToOne ⟨[5, -3, 2], 6⟩ [-1, 0, 0] 0 = some ⟨[1, 0, 0], 1⟩ := by decide
example : roundSafe ⟨[5, -3, 2], 6⟩ [-1, 0, 0] 0 ∧
    (⟨[5, -3, 2], 6⟩ : PbSet).holds (fun v => v == 1 || v == 3) = true := by decide

/-- **Finding.** `roundSafe` cannot be dropped: `2 x1 + x2 ≥ 0` (true everywhere), `x2`
    unassigned; `roundToOne` on `x1` weakens `x2` away (degree `-1`) and divides by 2, returning
    `x1 ≥ 1`, which is false under `x1 = false`. -/
example : (⟨[2, 1], 0⟩ : PbSet).holds (fun _ => false) = true ∧
    PbSet.roundToOne ⟨[2, 1], 0⟩ [-1, 0] 0 = some ⟨[1, 0], 1⟩ ∧
    (⟨[1, 0], 1⟩ : PbSet).holds (fun _ => false) = false := by decide

/-! ### When the side condition holds: conflicting and propagating constraints

`freeSum m excl j ws` is the total weight of the literals that are not falsified by the model
list `m` (the ones `roundToOne` may weaken), leaving out the positions selected by `excl`.
With `excl = fun _ => false`, `freeSum … < card` says the constraint is conflicting under `m`
(Go: `slack < 0` with all levels counted); with `excl = (· == locked)` it says the constraint
propagates the literal at `locked`. In both situations the weakened degree stays positive, so
`roundToOne` is sound. -/

def nonFalsified (m : List Int) (j : Nat) (w : Int) : Prop :=
  modelAt m j = 0 ∨ (decide (modelAt m j > 0) = decide (w > 0))

instance (m : List Int) (j : Nat) (w : Int) : Decidable (nonFalsified m j w) := by
  unfold nonFalsified; infer_instance

def freeSum (m : List Int) (excl : Nat → Bool) : Nat → List Int → Int
  | _, [] => 0
  | j, w :: ws =>
    (if excl j = false ∧ nonFalsified m j w then iabs w else 0) + freeSum m excl (j+1) ws

theorem freeSum_nonneg (m : List Int) (excl : Nat → Bool) (j : Nat) (ws : List Int) :
    0 ≤ freeSum m excl j ws := by
  induction ws generalizing j with
  | nil => simp [freeSum]
  | cons w ws ih =>
    have := ih (j+1)
    have := iabs_nonneg w
    simp only [freeSum]
    split <;> omega

theorem weakenFrom_freeSum (m : List Int) (wi : Int) (excl : Nat → Bool) (j : Nat) (ws : List Int)
    (hex : ∀ i, excl (j+i) = true → (ws.getD i 0).tmod wi = 0) :
    (weakenFrom m wi j ws).2 ≤ freeSum m excl j ws := by
  induction ws generalizing j with
  | nil => simp [weakenFrom_nil, freeSum]
  | cons w ws ih =>
    have ih' := ih (j+1) (by
      intro i hi
      have := hex (i+1) (by rw [← hi]; congr 1; omega)
      simpa using this)
    have h0 := hex 0
    simp only [Nat.add_zero, List.getD_cons_zero] at h0
    have hfn := freeSum_nonneg m excl (j+1) ws
    have habs := iabs_nonneg w
    rw [weakenFrom_cons]
    simp only [freeSum]
    by_cases hc : weakenCond m wi j w
    · rw [if_pos hc]
      have hex0 : excl j = false := by
        cases he : excl j with
        | false => rfl
        | true => exact absurd (h0 he) hc.2.1
      have hnf : nonFalsified m j w := hc.2.2
      rw [if_pos ⟨hex0, hnf⟩]
      show (weakenFrom m wi (j+1) ws).2 + iabs w ≤ _
      omega
    · rw [if_neg hc]
      show (weakenFrom m wi (j+1) ws).2 ≤ _
      split <;> omega

/-- if the literals outside `excl` that `m` does not falsify weigh less than the degree, and
    the weights at `excl` are multiples of the rounding weight, `roundToOne` is safe -/
theorem roundSafe_of_freeSum (p : PbSet) (m : List Int) (locked : Nat) (excl : Nat → Bool)
    (hex : ∀ i, excl i = true →
      (p.weights.getD i 0).tmod (iabs (p.weights.getD locked 0)) = 0)
    (h : freeSum m excl 0 p.weights < p.card) : roundSafe p m locked := by
  right; left
  have := weakenFrom_freeSum m (iabs (p.weights.getD locked 0)) excl 0 p.weights
    (by intro i hi; rw [Nat.zero_add] at hi; exact hex i hi)
  unfold weakenedCard
  omega

/-- conflicting constraint (`slack < 0`): `roundToOne` is sound on it -/
theorem roundSafe_of_conflict (p : PbSet) (m : List Int) (locked : Nat)
    (h : freeSum m (fun _ => false) 0 p.weights < p.card) : roundSafe p m locked :=
  roundSafe_of_freeSum p m locked _ (by intro i hi; cases hi) h

theorem tmod_iabs_self (w : Int) : w.tmod (iabs w) = 0 := by
  unfold iabs
  split
  · rw [Int.tmod_neg, Int.tmod_self]
  · exact Int.tmod_self

/-- constraint propagating the literal at `locked` (the other non-falsified literals weigh
    less than the degree): `roundToOne` on `locked` is sound on it -/
theorem roundSafe_of_propagating (p : PbSet) (m : List Int) (locked : Nat)
    (h : freeSum m (fun i => i == locked) 0 p.weights < p.card) : roundSafe p m locked :=
  roundSafe_of_freeSum p m locked _
    (by intro i hi; simp at hi; subst hi; exact tmod_iabs_self _) h

/-- the conflict `5 x1 + 3 ¬x2 + 2 x3 ≥ 6` with `x1` false, `x2` true, `x3` unassigned -/
example : freeSum [-1, 1, 0] (fun _ => false) 0 [5, -3, 2] < 6 := by decide
/-- the reason `3 x1 + 2 x2 + 2 ¬x3 ≥ 4` propagating `x1` when `x2` is false (`x3` unassigned) -/
example : freeSum [1, -1, 0] (fun i => i == 0) 0 [3, 2, -2] < 4 := by decide

/-! ## 5. derivations -/

/-- Constraints obtainable from the problem constraints `prob` by the operations of the
    cutting-planes analysis, with arbitrary operands, divisors, model lists and rounding
    positions (every coefficient pattern). The side conditions are the hypotheses of the
    soundness theorems above. -/
inductive Derivable (prob : List PbSet) : PbSet → Prop
  | ax {p} : p ∈ prob → Derivable prob p
  | clash {p1 p2} : Derivable prob p1 → Derivable prob p2 →
      p1.weights.length = p2.weights.length → Derivable prob (PbSet.clash p1 p2)
  | divide {p} (c : Int) : Derivable prob p → 0 < c → divSafe c p.card →
      Derivable prob (PbSet.divideBy p c)
  | weaken {p} (m : List Int) (wi : Int) : Derivable prob p →
      Derivable prob ⟨(weakenFrom m wi 0 p.weights).1, p.card - (weakenFrom m wi 0 p.weights).2⟩
  | round {p q} (m : List Int) (locked : Nat) : Derivable prob p → roundSafe p m locked →
      PbSet.roundToOne p m locked = some q → Derivable prob q

/-- **C14.5** every derivable constraint holds in every model of the problem. -/
theorem derivation_sound (a : Asg) (prob : List PbSet) (q : PbSet) (hd : Derivable prob q)
    (hp : ∀ p ∈ prob, p.holds a = true) : q.holds a = true := by
  induction hd with
  | ax hmem => exact hp _ hmem
  | clash _ _ hlen ih1 ih2 => exact clash_sound a _ _ hlen ih1 ih2
  | divide c _ hc hs ih => exact divide_sound a _ c hc hs ih
  | weaken m wi _ ih => exact weaken_sound a _ m wi ih
  | round m locked _ hs hq ih => exact roundToOne_sound a _ _ m locked hs hq ih

/-- all derivable constraints have the width of the problem constraints -/
theorem derivable_length (prob : List PbSet) (n : Nat) (hn : ∀ p ∈ prob, p.weights.length = n)
    (q : PbSet) (hd : Derivable prob q) : q.weights.length = n := by
  induction hd with
  | ax hmem => exact hn _ hmem
  | clash _ _ hlen ih1 ih2 => simp [PbSet.clash, List.length_zipWith, ih1, ih2]
  | divide c _ _ _ ih => simpa [PbSet.divideBy] using ih
  | weaken m wi _ ih => simpa [weakenFrom_length] using ih
  | round m locked _ _ hq ih => rw [roundToOne_length _ _ m locked hq]; exact ih

/-- A two-step derivation: round `3 x1 + 2 x2 ≥ 3` on `x1` (`x1` false, `x2` true in the model:
    `x2` is weakened, `3 x1 ≥ 1`, divide by 3: `x1 ≥ 1`), then clash with `¬x1 + x2 ≥ 1`:
    `x2 ≥ 1`. -/
example : Derivable [⟨[3, 2], 3⟩, ⟨[-1, 1], 1⟩] ⟨[0, 1], 1⟩ := by
  have h1 : Derivable [⟨[3, 2], 3⟩, ⟨[-1, 1], 1⟩] ⟨[1, 0], 1⟩ :=
    Derivable.round (p := ⟨[3, 2], 3⟩) [-1, 1] 0 (Derivable.ax (by decide)) (by decide) (by decide)
  have h2 : Derivable [⟨[3, 2], 3⟩, ⟨[-1, 1], 1⟩] ⟨[-1, 1], 1⟩ := Derivable.ax (by decide)
  exact Derivable.clash h1 h2 (by decide)

/-- hence (by `derivation_sound`) `x2 ≥ 1` holds in every model of the two constraints;
    here checked on the model `x1 = x2 = true`. -/
example : ∀ p ∈ [(⟨[3, 2], 3⟩ : PbSet), ⟨[-1, 1], 1⟩], p.holds (fun _ => true) = true := by decide

/-! ## Link with the specification vocabulary (`Lin`, `Entails`)

`termsFrom` is the loop of `(*pbSet).clause()` (before the sort of `NewPBClause`): position `i`
with weight `w ≠ 0` becomes the term `|w| · (±(i+1))`. -/

def PbSet.termsFrom : Nat → List Int → List (Int × Int)
  | _, [] => []
  | k, w :: ws =>
    if w = 0 then PbSet.termsFrom (k+1) ws
    else (iabs w, if w < 0 then -((k:Int)+1) else (k:Int)+1) :: PbSet.termsFrom (k+1) ws

def PbSet.toLin (p : PbSet) : Lin := ⟨PbSet.termsFrom 0 p.weights, p.card⟩

theorem litTrue_pos_idx (a : Asg) (k : Nat) : litTrue a ((k:Int)+1) = a (k+1) := by
  unfold litTrue
  have : ((k:Int)+1).natAbs = k+1 := by omega
  simp [this]

theorem litTrue_neg_idx (a : Asg) (k : Nat) : litTrue a (-((k:Int)+1)) = !a (k+1) := by
  unfold litTrue
  have : (-((k:Int)+1)).natAbs = k+1 := by omega
  simp [this]; omega

theorem lhs_termsFrom (a : Asg) (k : Nat) (ws : List Int) :
    lhs a (PbSet.termsFrom k ws) = PbSet.lhsFrom a k ws := by
  induction ws generalizing k with
  | nil => rfl
  | cons w ws ih =>
    rw [lhsFrom_cons, PbSet.termsFrom]
    by_cases h0 : w = 0
    · simp [h0, ih, pbTerm_zero]
    · rw [if_neg h0]
      simp only [lhs, ih, termVal]
      congr 1
      by_cases hn : w < 0
      · simp only [hn, if_true, litTrue_neg_idx]
        unfold pbTerm iabs
        cases a (k+1) <;> simp <;> omega
      · simp only [hn, if_false, litTrue_pos_idx]
        unfold pbTerm iabs
        cases a (k+1) <;> simp <;> omega

theorem toLin_holds (a : Asg) (p : PbSet) : p.toLin.holds a = p.holds a := by
  simp [PbSet.toLin, Lin.holds, PbSet.holds, lhs_termsFrom]

/-- **C14** in the vocabulary of `GS.Spec.Basic`: a derivable constraint, converted as
    `(*pbSet).clause()` does, is entailed by the converted problem. -/
theorem derivation_entails (prob : List PbSet) (q : PbSet) (hd : Derivable prob q) :
    Entails (prob.map PbSet.toLin) q.toLin := by
  intro a ha
  rw [toLin_holds]
  apply derivation_sound a prob q hd
  intro p hp
  rw [← toLin_holds]
  simp only [Problem.holds, List.all_eq_true, List.mem_map] at ha
  exact ha _ ⟨p, hp, rfl⟩

example : (⟨[5, -3, 0, 2], 6⟩ : PbSet).toLin = ⟨[(5, 1), (3, -2), (2, 4)], 6⟩ := by decide

end GS
