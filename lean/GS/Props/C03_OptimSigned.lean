import GS.Model.OptimSigned
import GS.Props.C03_Optim
/-!
# C03 (signed) — the repaired optimisation loop of `Optimal` / `Minimize` returns the true minimum
for integer cost weights of EITHER sign

Model: `GS/Model/OptimSigned.lean` (mirror of the Go code after the repair). No hypothesis on the
weights anywhere below (negative, zero, positive, repeated variables, `l` and `¬l` both present):
the only hypothesis on the cost function is `LitsNZ f` (literals are non-zero, always true for Go
`Lit`s), and it is needed only for the terms of weight `≥ 0` (see `boundS_sem_needs_nz`).

Main results
* `boundS_sem`                 : the appended constraint means exactly `cost ≤ current cost − 1`.
* `goBoundS_holds`             : sorting / dropping zero weights (what Go does) is irrelevant.
* `negSum_le_cost`, `cost_le_posSum` : `minCost ≤ cost ≤ maxCost` for every assignment.
* `goBoundS_degree_pos`, `loopS_no_panic` : the degree given to `NewPBClause` is always `≥ 1`;
                                 the panic branch is dead (for ANY oracle, any fuel).
* `loopS_result`               : what each way of leaving the loop guarantees.
* `loopS_fuel`                 : `enoughFuelS f` rounds suffice.
* `minimizeS_optimal`          : the main theorem.
* `streamS_strictly_decreasing`, `loopS_last`.
* `minimizeBruteS_eq_bruteOpt` : with the exhaustive oracle the mirror is `GS.bruteOpt`.
* `loopS_eq_loop_of_nonneg`    : on non-negative weights the repaired loop is the old loop.
* `minimizeResult_ambiguous`   : `Minimize() == -1` does not distinguish Unsat from optimum −1.
-/
namespace GS.OptimS
open GS GS.Optim

/-! ### the bound constraint -/

theorem lhs_normTerms (a : Asg) : ∀ f : List (Int × Int), LitsNZ f →
    lhs a (normTerms f) = posSum f - cost f a := by
  intro f
  induction f with
  | nil => intro _; rfl
  | cons t ts ih =>
    intro h
    have ht : t.2 ≠ 0 := h t (by simp)
    have ih' := ih (fun u hu => h u (by simp [hu]))
    unfold normTerms at ih' ⊢
    unfold cost at ih' ⊢
    simp only [List.map_cons, lhs, posSum, ih']
    unfold normTerm termVal
    by_cases hw : t.1 < 0
    · simp only [hw, if_true]
      cases litTrue a t.2 <;> simp <;> omega
    · simp only [hw, if_false, litTrue_neg a t.2 ht]
      cases litTrue a t.2 <;> simp <;> omega

/-- Reference form of the bound (terms in the order of `f`): holds exactly for cost `≤ c − 1`. -/
theorem boundConstrS_sem (f : List (Int × Int)) (c : Int) (a : Asg) (hnz : LitsNZ f) :
    (boundConstrS f c).holds a = true ↔ cost f a ≤ c - 1 := by
  unfold Lin.holds boundConstrS
  simp only [decide_eq_true_eq, lhs_normTerms a f hnz]
  omega

/-- What Go appends (sorted by decreasing weight, trailing zero weights dropped) is equivalent to
    `boundConstrS` — no hypothesis at all. -/
theorem goBoundS_holds (f : List (Int × Int)) (c : Int) (a : Asg) :
    (goBoundS f c).holds a = (boundConstrS f c).holds a := by
  unfold Lin.holds goBoundS boundConstrS hypothesisS
  simp only [lhs_stripZeros, lhs_sortDesc]

/-- **boundS_sem.** For arbitrary integer weights (either sign, zero), arbitrary repetition of
    variables (even `l` and `¬l` both present) and non-zero literals: the constraint the repaired Go
    code appends at cost `c` holds exactly for the assignments of cost `≤ c − 1` (i.e. `< c`). -/
theorem boundS_sem (f : List (Int × Int)) (c : Int) (a : Asg) (hnz : LitsNZ f) :
    (goBoundS f c).holds a = true ↔ cost f a ≤ c - 1 := by
  rw [goBoundS_holds, boundConstrS_sem f c a hnz]

theorem boundS_sem_lt (f : List (Int × Int)) (c : Int) (a : Asg) (hnz : LitsNZ f) :
    (goBoundS f c).holds a = true ↔ cost f a < c := by
  rw [boundS_sem f c a hnz]; omega

example : LitsNZ [(3, 1), (-2, -1), (0, 2), (-5, 2), (-1, 3), (4, -3)] := by decide

/-- The constraint appended for `3·x1 − 2·¬x1 + 0·x2 − 5·x2` at cost 1:
    `maxCost = 3`, sign-normalised, sorted, degree `3 − 1 + 1`. -/
example : goBoundS [(3, 1), (-2, -1), (0, 2), (-5, 2)] 1 = ⟨[(5, 2), (3, -1), (2, -1)], 3⟩ ∧
    posSum [(3, 1), (-2, -1), (0, 2), (-5, 2)] = 3 ∧ negSum [(3, 1), (-2, -1), (0, 2), (-5, 2)] = -7 := by
  decide

/-- The non-zero-literal hypothesis is needed for a term of weight `≥ 0`
    (for the "literal" `0`, `[¬0] = [0]`) … -/
theorem boundS_sem_needs_nz : ¬ ((goBoundS [(1, 0)] 1).holds (fun _ => true) = true ↔
    cost [(1, 0)] (fun _ => true) ≤ 1 - 1) := by decide

/-- … but not for a term of negative weight (the literal is negated twice, i.e. not at all). -/
example : ∀ b : Bool, ((goBoundS [(-1, 0)] 0).holds (fun _ => b) = true ↔
    cost [(-1, 0)] (fun _ => b) ≤ 0 - 1) := by decide

/-! ### `minCost ≤ cost ≤ maxCost` -/

/-- **negSum_le_cost.** No assignment costs less than the sum of the negative weights. -/
theorem negSum_le_cost (f : List (Int × Int)) (a : Asg) : negSum f ≤ cost f a := by
  unfold cost
  induction f with
  | nil => simp [lhs, negSum]
  | cons t ts ih =>
    simp only [lhs, termVal, negSum]
    split <;> split <;> omega

/-- **cost_le_posSum.** No assignment costs more than the sum of the positive weights. -/
theorem cost_le_posSum (f : List (Int × Int)) (a : Asg) : cost f a ≤ posSum f := by
  unfold cost
  induction f with
  | nil => simp [lhs, posSum]
  | cons t ts ih =>
    simp only [lhs, termVal, posSum]
    split <;> split <;> omega

theorem negSum_le_posSum (f : List (Int × Int)) : negSum f ≤ posSum f :=
  Int.le_trans (negSum_le_cost f (fun _ => true)) (cost_le_posSum f _)

/-- A model whose cost is `minCost` is optimal: the `if cost == minCost { break }` exit is correct. -/
theorem minimizeS_early_exit (p : Problem) (f : List (Int × Int)) (a : Asg)
    (ha : Problem.holds a p = true) (h0 : cost f a = negSum f) : IsOptimum p f a :=
  ⟨ha, fun b _ => by have := negSum_le_cost f b; omega⟩

/-- **loopS_no_panic (degree form).** Whatever the current model, the degree given to `NewPBClause`
    is `≥ 1`: `NewPBClause` cannot panic with "Invalid cardinality value". -/
theorem goBoundS_degree_pos (f : List (Int × Int)) (a : Asg) :
    1 ≤ (goBoundS f (cost f a)).degree := by
  have := cost_le_posSum f a
  unfold goBoundS
  simp only
  omega

example : (goBoundS [(-1, 1), (1, 2)] (cost [(-1, 1), (1, 2)] (asgOf [false, true]))).degree = 1 := by
  decide

/-! ### one round of the loop -/

theorem holds_stepS (f : List (Int × Int)) (hnz : LitsNZ f) (q : Problem) (c : Int) (b : Asg) :
    Problem.holds b (q ++ [goBoundS f c]) = true ↔ Problem.holds b q = true ∧ cost f b ≤ c - 1 := by
  rw [holds_append, Bool.and_eq_true, boundS_sem f c b hnz]

theorem isOptimum_of_stepS (f : List (Int × Int)) (hnz : LitsNZ f) (q : Problem) (c : Int) (m : Asg)
    (h : IsOptimum (q ++ [goBoundS f c]) f m) : IsOptimum q f m := by
  obtain ⟨hm, hmin⟩ := h
  have hm' := (holds_stepS f hnz q c m).1 hm
  refine ⟨hm'.1, ?_⟩
  intro x hx
  by_cases hlt : cost f x ≤ c - 1
  · exact hmin x ((holds_stepS f hnz q c x).2 ⟨hx, hlt⟩)
  · omega

/-! ### the loop -/

/-- **loopS_no_panic.** The `panic` branch of the loop is dead: for every oracle (no contract
    needed), every cost function, every fuel, every start. -/
theorem loopS_no_panic (solveFn : Problem → Option Asg) (f : List (Int × Int)) :
    ∀ (k : Nat) (q : Problem) (a : Asg), (loopS solveFn f k q a).stop ≠ .panic := by
  intro k
  induction k with
  | zero => intro q a; simp [loopS]
  | succ k ih =>
    intro q a
    unfold loopS
    simp only
    split
    · simp
    · split
      · rename_i hp
        have := cost_le_posSum f a
        omega
      · split
        · simp
        · rename_i b hb
          exact ih _ b

/-- The returned result is the last element streamed (unless the model ran out of fuel). -/
theorem loopS_last (solveFn : Problem → Option Asg) (f : List (Int × Int)) :
    ∀ (k : Nat) (q : Problem) (a : Asg),
    (loopS solveFn f k q a).stop ≠ .fuel →
    (loopS solveFn f k q a).stream.getLast? = some (loopS solveFn f k q a).last := by
  intro k
  induction k with
  | zero => intro q a h; simp [loopS] at h
  | succ k ih =>
    intro q a
    unfold loopS
    simp only
    split
    · simp
    · split
      · simp
      · split
        · simp
        · rename_i b hb
          intro h
          have := ih (q ++ [goBoundS f (cost f a)]) b h
          simp only [List.getLast?_cons, this]
          simp

section
variable (solveFn : Problem → Option Asg) (f : List (Int × Int)) (Q : Problem → Prop)
variable (hQ : ∀ q c, Q q → Q (q ++ [goBoundS f c]))
include hQ

/-- Everything streamed is a model of the problem with its true cost, and the streamed costs are
    strictly decreasing. Needs only soundness of the oracle; any fuel. -/
theorem loopS_stream (hs : ∀ q a, Q q → solveFn q = some a → Problem.holds a q = true)
    (hnz : LitsNZ f) : ∀ (k : Nat) (q : Problem) (a : Asg), Q q → Problem.holds a q = true →
    (∀ x ∈ (loopS solveFn f k q a).stream, Problem.holds x.1 q = true ∧ x.2 = cost f x.1) ∧
    ((loopS solveFn f k q a).stream.map (·.2)).Pairwise (· > ·) := by
  intro k
  induction k with
  | zero => intro q a _ _; simp [loopS]
  | succ k ih =>
    intro q a hq ha
    unfold loopS
    simp only
    split
    · simp [ha]
    · split
      · simp [ha]
      · split
        · simp [ha]
        · rename_i b hb
          have hb' := hs _ b (hQ q (cost f a) hq) hb
          obtain ⟨h1, h2⟩ := ih _ b (hQ q (cost f a) hq) hb'
          constructor
          · intro x hx
            simp only [List.mem_cons] at hx
            rcases hx with rfl | hx
            · exact ⟨ha, rfl⟩
            · have := h1 x hx
              exact ⟨((holds_stepS f hnz q _ x.1).1 this.1).1, this.2⟩
          · simp only [List.map_cons, List.pairwise_cons]
            refine ⟨?_, h2⟩
            intro c' hc'
            simp only [List.mem_map] at hc'
            obtain ⟨x, hx, rfl⟩ := hc'
            have := h1 x hx
            have := ((holds_stepS f hnz q _ x.1).1 this.1).2
            omega

/-- **What each exit of the loop guarantees.** The result is always a model with its true cost.
    Leaving because the solver answered Unsat, or because `cost == minCost`, yields a true optimum. -/
theorem loopS_result (hc : Contract Q solveFn) (hnz : LitsNZ f) :
    ∀ (k : Nat) (q : Problem) (a : Asg), Q q → Problem.holds a q = true →
    Problem.holds (loopS solveFn f k q a).last.1 q = true ∧
    (loopS solveFn f k q a).last.2 = cost f (loopS solveFn f k q a).last.1 ∧
    ((loopS solveFn f k q a).stop = .unsat → IsOptimum q f (loopS solveFn f k q a).last.1) ∧
    ((loopS solveFn f k q a).stop = .exit0 → (loopS solveFn f k q a).last.2 = negSum f ∧
        IsOptimum q f (loopS solveFn f k q a).last.1) := by
  intro k
  induction k with
  | zero => intro q a _ ha; simp [loopS, ha]
  | succ k ih =>
    intro q a hq ha
    unfold loopS
    simp only
    split
    · rename_i h0
      simp only [ha, true_and, reduceCtorEq, false_implies, forall_const]
      exact ⟨h0, minimizeS_early_exit q f a ha h0⟩
    · split
      · simp [ha]
      · split
        · rename_i hn
          simp only [ha, true_and, reduceCtorEq, false_implies, and_true, forall_const]
          refine ⟨ha, ?_⟩
          intro x hx
          by_cases hlt : cost f x ≤ cost f a - 1
          · exact absurd ⟨x, (holds_stepS f hnz q _ x).2 ⟨hx, hlt⟩⟩
              (hc.complete _ (hQ q _ hq) hn)
          · omega
        · rename_i b hb
          have hq' := hQ q (cost f a) hq
          have hb' := hc.sound _ b hq' hb
          obtain ⟨h1, h2, h3, h4⟩ := ih _ b hq' hb'
          refine ⟨((holds_stepS f hnz q _ _).1 h1).1, h2, ?_, ?_⟩
          · intro hu
            exact isOptimum_of_stepS f hnz q _ _ (h3 hu)
          · intro hu
            exact ⟨(h4 hu).1, isOptimum_of_stepS f hnz q _ _ (h4 hu).2⟩

/-- **loopS_fuel.** The cost strictly decreases and stays `≥ minCost`:
    `cost − minCost + 1` rounds are enough. -/
theorem loopS_fuel (hs : ∀ q a, Q q → solveFn q = some a → Problem.holds a q = true)
    (hnz : LitsNZ f) :
    ∀ (k : Nat) (q : Problem) (a : Asg), Q q → Problem.holds a q = true →
    (cost f a - negSum f).toNat < k → (loopS solveFn f k q a).stop ≠ .fuel := by
  intro k
  induction k with
  | zero => intro q a _ _ h; omega
  | succ k ih =>
    intro q a hq ha hk
    unfold loopS
    simp only
    split
    · simp
    · split
      · simp
      · split
        · simp
        · rename_i h0 _ b hb
          have hq' := hQ q (cost f a) hq
          have hb' := hs _ b hq' hb
          have hlt := ((holds_stepS f hnz q _ b).1 hb').2
          have h1 := negSum_le_cost f a
          have h2 := negSum_le_cost f b
          exact ih _ b hq' hb' (by omega)

/-- Generic form of the main theorem (contract restricted to the problems satisfying `Q`). -/
theorem optimalS_spec (hc : Contract Q solveFn) (hnz : LitsNZ f)
    (p : Problem) (hp : Q p) (fuel : Nat) (hfuel : enoughFuelS f ≤ fuel) (hsat : Satisfiable p) :
    ∃ a c s, optimalS solveFn p f fuel = .ok a c s ∧ IsOptimum p f a ∧ c = cost f a ∧
      s.getLast? = some (a, c) ∧ (s.map (·.2)).Pairwise (· > ·) ∧
      ∀ x ∈ s, Problem.holds x.1 p = true ∧ x.2 = cost f x.1 := by
  unfold optimalS
  cases hsol : solveFn p with
  | none => exact absurd hsat (hc.complete p hp hsol)
  | some a0 =>
    dsimp only
    have ha0 := hc.sound p a0 hp hsol
    have hk : (cost f a0 - negSum f).toNat < fuel := by
      have := cost_le_posSum f a0
      have := negSum_le_cost f a0
      unfold enoughFuelS at hfuel
      omega
    have hfu := loopS_fuel solveFn f Q hQ hc.sound hnz fuel p a0 hp ha0 hk
    have hpa := loopS_no_panic solveFn f fuel p a0
    obtain ⟨h1, h2, h3, h4⟩ := loopS_result solveFn f Q hQ hc hnz fuel p a0 hp ha0
    obtain ⟨hs1, hs2⟩ := loopS_stream solveFn f Q hQ hc.sound hnz fuel p a0 hp ha0
    have hl := loopS_last solveFn f fuel p a0 hfu
    generalize loopS solveFn f fuel p a0 = r at *
    obtain ⟨s, ⟨m, c⟩, st⟩ := r
    simp only at *
    cases st with
    | fuel => exact absurd rfl hfu
    | panic => exact absurd rfl hpa
    | unsat => exact ⟨m, c, s, rfl, h3 rfl, h2, hl, hs2, hs1⟩
    | exit0 => exact ⟨m, c, s, rfl, (h4 rfl).2, h2, hl, hs2, hs1⟩

omit hQ in
theorem optimalS_unsat_spec (hs : ∀ q a, Q q → solveFn q = some a → Problem.holds a q = true)
    (p : Problem) (hp : Q p) (fuel : Nat) (hun : ¬ Satisfiable p) :
    optimalS solveFn p f fuel = .unsat := by
  unfold optimalS
  cases hsol : solveFn p with
  | none => rfl
  | some a0 => exact absurd ⟨a0, hs p a0 hp hsol⟩ hun

omit hQ in
theorem optimalS_unsat_only_spec (hcpl : ∀ q, Q q → solveFn q = none → ¬ Satisfiable q)
    (p : Problem) (hp : Q p) (fuel : Nat)
    (h : optimalS solveFn p f fuel = .unsat) : ¬ Satisfiable p := by
  unfold optimalS at h
  cases hsol : solveFn p with
  | none => exact hcpl p hp hsol
  | some a0 =>
    rw [hsol] at h
    simp only at h
    split at h <;> cases h

end

/-! ### main theorems, oracle with the unrestricted contract -/

/-- **minimizeS_optimal.** Any integer weights, non-zero literals, any oracle that returns a model
    when there is one and `none` otherwise (on every problem `p ++ bounds` it is asked), fuel at least
    `enoughFuelS f = maxCost − minCost + 2`:
    * the outcome is `unsat` (`Minimize` returns −1, `Optimal` returns `Status: Unsat`) iff `p` is
      unsatisfiable;
    * on a satisfiable `p` it is `ok a c s`, where `a` is a model of `p`, `c = cost f a`, no model of `p`
      costs less than `c`; `(a, c)` is the last pair streamed, the streamed costs strictly decrease
      and every streamed pair is a model of `p` with its true cost;
    * the outcome is never `panic` and never `fuel`. -/
theorem minimizeS_optimal (solveFn : Problem → Option Asg) (p : Problem) (f : List (Int × Int))
    (fuel : Nat) (hc : Contract (fun _ => True) solveFn) (hnz : LitsNZ f)
    (hfuel : enoughFuelS f ≤ fuel) :
    (optimalS solveFn p f fuel = .unsat ↔ ¬ Satisfiable p) ∧
    (Satisfiable p →
      ∃ a c s, optimalS solveFn p f fuel = .ok a c s ∧
        Problem.holds a p = true ∧ c = cost f a ∧ (∀ b, Problem.holds b p = true → c ≤ cost f b) ∧
        IsOptimum p f a ∧
        s.getLast? = some (a, c) ∧ (s.map (·.2)).Pairwise (· > ·) ∧
        ∀ x ∈ s, Problem.holds x.1 p = true ∧ x.2 = cost f x.1) ∧
    (∀ s, optimalS solveFn p f fuel ≠ .panic s) ∧
    (∀ s, optimalS solveFn p f fuel ≠ .fuel s) := by
  have hsatcase : Satisfiable p →
      ∃ a c s, optimalS solveFn p f fuel = .ok a c s ∧
        Problem.holds a p = true ∧ c = cost f a ∧ (∀ b, Problem.holds b p = true → c ≤ cost f b) ∧
        IsOptimum p f a ∧
        s.getLast? = some (a, c) ∧ (s.map (·.2)).Pairwise (· > ·) ∧
        ∀ x ∈ s, Problem.holds x.1 p = true ∧ x.2 = cost f x.1 := by
    intro hsat
    obtain ⟨a, c, s, h, hopt, hcost, hl, hdec, hall⟩ :=
      optimalS_spec solveFn f (fun _ => True) (fun _ _ _ => trivial) hc hnz p trivial fuel hfuel hsat
    exact ⟨a, c, s, h, hopt.1, hcost, (fun b hb => by rw [hcost]; exact hopt.2 b hb), hopt, hl, hdec, hall⟩
  have hunsat : ¬ Satisfiable p → optimalS solveFn p f fuel = .unsat :=
    optimalS_unsat_spec solveFn f (fun _ => True) (fun q a hq => hc.sound q a hq) p trivial fuel
  refine ⟨⟨?_, hunsat⟩, hsatcase, ?_, ?_⟩
  · exact optimalS_unsat_only_spec solveFn f (fun _ => True) (fun q hq => hc.complete q hq) p trivial fuel
  · intro s h
    by_cases hsat : Satisfiable p
    · obtain ⟨a, c, s', h', _⟩ := hsatcase hsat
      rw [h'] at h; cases h
    · rw [hunsat hsat] at h; cases h
  · intro s h
    by_cases hsat : Satisfiable p
    · obtain ⟨a, c, s', h', _⟩ := hsatcase hsat
      rw [h'] at h; cases h
    · rw [hunsat hsat] at h; cases h

/-- The same on `minimizeS : Option (Asg × Int)` and on the `int` returned by `Minimize()`. -/
theorem minimizeS_optimal' (solveFn : Problem → Option Asg) (p : Problem) (f : List (Int × Int))
    (fuel : Nat) (hc : Contract (fun _ => True) solveFn) (hnz : LitsNZ f)
    (hfuel : enoughFuelS f ≤ fuel) (hsat : Satisfiable p) :
    ∃ a c, minimizeS solveFn p f fuel = some (a, c) ∧ minimizeIntS solveFn p f fuel = some c ∧
      Problem.holds a p = true ∧ c = cost f a ∧
      (∀ b, Problem.holds b p = true → c ≤ cost f b) ∧ IsOptimum p f a := by
  obtain ⟨a, c, s, h, hm, hcost, hmin, hopt, _⟩ :=
    (minimizeS_optimal solveFn p f fuel hc hnz hfuel).2.1 hsat
  refine ⟨a, c, ?_, ?_, hm, hcost, hmin, hopt⟩
  · unfold minimizeS; rw [h]
  · unfold minimizeIntS; rw [h]; rfl

/-- On an unsatisfiable problem `Minimize()` returns −1. -/
theorem minimizeS_unsat (solveFn : Problem → Option Asg) (p : Problem) (f : List (Int × Int))
    (fuel : Nat) (hc : Contract (fun _ => True) solveFn) (hun : ¬ Satisfiable p) :
    optimalS solveFn p f fuel = .unsat ∧ minimizeS solveFn p f fuel = none ∧
      minimizeIntS solveFn p f fuel = some (-1) := by
  have h := optimalS_unsat_spec solveFn f (fun _ => True)
    (fun q a hq => hc.sound q a hq) p trivial fuel hun
  refine ⟨h, ?_, ?_⟩
  · unfold minimizeS; rw [h]
  · unfold minimizeIntS; rw [h]; rfl

/-- **streamS_strictly_decreasing (C20).** The costs sent on the `results` channel are strictly
    decreasing — any integer weights, any fuel, an oracle that is merely sound. -/
theorem streamS_strictly_decreasing (solveFn : Problem → Option Asg) (p : Problem)
    (f : List (Int × Int)) (fuel : Nat)
    (hs : ∀ q a, solveFn q = some a → Problem.holds a q = true) (hnz : LitsNZ f) :
    (optimalS solveFn p f fuel).costs.Pairwise (· > ·) := by
  unfold optimalS
  cases hsol : solveFn p with
  | none => simp [Outcome.costs]
  | some a0 =>
    have := (loopS_stream solveFn f (fun _ => True) (fun _ _ _ => trivial)
      (fun q a _ => hs q a) hnz fuel p a0 trivial (hs p a0 hsol)).2
    simp only
    split <;> simpa [Outcome.costs] using this

/-- No cost function (`s.minLits == nil`, or an empty one): the first model, cost 0. -/
theorem loopS_nil (solveFn : Problem → Option Asg) (k : Nat) (p : Problem) (a : Asg) :
    (loopS solveFn [] (k + 1) p a).last = (a, 0) ∧ (loopS solveFn [] (k + 1) p a).stop = .exit0 := by
  simp [loopS, cost, lhs, negSum]

/-! ### the exhaustive oracle: the mirror computes `bruteOpt` -/

theorem goBoundS_wf (n : Nat) (f : List (Int × Int)) (c : Int) (hf : termsWf n f = true) :
    (goBoundS f c).wf n = true := by
  unfold Lin.wf goBoundS
  unfold termsWf at hf
  rw [List.all_eq_true] at hf ⊢
  intro x hx
  have hx := mem_sortDesc x _ (mem_stripZeros x _ hx)
  unfold normTerms at hx
  rw [List.mem_map] at hx
  obtain ⟨t, ht, rfl⟩ := hx
  unfold normTerm
  split
  · exact hf t ht
  · simp only [litOk_neg]
    exact hf t ht

/-- The executable loop (exhaustive oracle over `1..n`) returns an optimum on every well-formed
    satisfiable input, whatever the weights … -/
theorem optimalBruteS_spec (n : Nat) (p : Problem) (f : List (Int × Int)) (hp : p.wf n = true)
    (hf : termsWf n f = true) (hsat : Satisfiable p) :
    ∃ a c s, optimalBruteS n p f = .ok a c s ∧ IsOptimum p f a ∧ c = cost f a ∧
      s.getLast? = some (a, c) ∧ (s.map (·.2)).Pairwise (· > ·) ∧
      ∀ x ∈ s, Problem.holds x.1 p = true ∧ x.2 = cost f x.1 :=
  optimalS_spec (bruteSolve n) f (fun q => q.wf n = true)
    (fun q c hq => wf_append n q _ hq (goBoundS_wf n f c hf))
    (bruteSolve_contract n) (litsNZ_of_wf n f hf) p hp _ (Nat.le_refl _) hsat

/-- **minimizeBruteS_eq_bruteOpt.** … hence agrees with the verified oracle `bruteOpt` on all
    well-formed inputs (weights of either sign). -/
theorem minimizeBruteS_eq_bruteOpt (n : Nat) (p : Problem) (f : List (Int × Int))
    (hp : p.wf n = true) (hf : termsWf n f = true) :
    minimizeBruteCostS n p f = bruteOpt n p f := by
  by_cases hsat : Satisfiable p
  · obtain ⟨a, c, s, h, hopt, hc, _⟩ := optimalBruteS_spec n p f hp hf hsat
    have h1 : minimizeBruteCostS n p f = some c := by
      unfold minimizeBruteCostS minimizeBruteS minimizeS
      unfold optimalBruteS at h
      rw [h]; rfl
    cases hb : bruteOpt n p f with
    | none => exact absurd hsat ((bruteOpt_none n p f hp).1 hb)
    | some m =>
      have := bruteOpt_unique n p f m hp hf hb a hopt
      rw [h1, hc, this]
  · have h := optimalS_unsat_spec (bruteSolve n) f (fun q => q.wf n = true)
      (bruteSolve_contract n).sound p hp (enoughFuelS f) hsat
    have h1 : minimizeBruteCostS n p f = none := by
      unfold minimizeBruteCostS minimizeBruteS minimizeS
      rw [h]; rfl
    rw [h1, (bruteOpt_none n p f hp).2 hsat]

/-! ### on non-negative weights the repaired loop is the old loop -/

theorem normTerms_of_nonneg : ∀ f : List (Int × Int), NonNeg f → normTerms f = negTerms f := by
  intro f
  induction f with
  | nil => intro _; rfl
  | cons t ts ih =>
    intro h
    have ht := h t (by simp)
    have ih' := ih (fun u hu => h u (by simp [hu]))
    unfold normTerms negTerms at ih' ⊢
    have : ¬ t.1 < 0 := by omega
    simp only [List.map_cons, ih', normTerm, this, if_false]

theorem posSum_of_nonneg : ∀ f : List (Int × Int), NonNeg f → posSum f = sumW f := by
  intro f
  induction f with
  | nil => intro _; rfl
  | cons t ts ih =>
    intro h
    have ht := h t (by simp)
    have ih' := ih (fun u hu => h u (by simp [hu]))
    simp only [posSum, sumW, ih']
    split <;> omega

theorem negSum_of_nonneg : ∀ f : List (Int × Int), NonNeg f → negSum f = 0 := by
  intro f
  induction f with
  | nil => intro _; rfl
  | cons t ts ih =>
    intro h
    have ht := h t (by simp)
    have ih' := ih (fun u hu => h u (by simp [hu]))
    simp only [negSum, ih']
    split <;> omega

theorem goBoundS_of_nonneg (f : List (Int × Int)) (h : NonNeg f) (c : Int) :
    goBoundS f c = goBound f c := by
  unfold goBoundS goBound hypothesisS hypothesis
  rw [normTerms_of_nonneg f h, posSum_of_nonneg f h]

/-- **loopS_eq_loop_of_nonneg.** When every weight is `≥ 0` the repaired loop is, step by step,
    the loop mirrored in `GS/Model/Optim.lean`: same appended constraints, same stream, same result,
    same reason to stop. The theorems of `C03_Optim.lean` therefore remain statements about the
    current code on that domain. -/
theorem loopS_eq_loop_of_nonneg (solveFn : Problem → Option Asg) (f : List (Int × Int))
    (h : NonNeg f) : ∀ (k : Nat) (q : Problem) (a : Asg),
    loopS solveFn f k q a = loop solveFn f k q a := by
  intro k
  induction k with
  | zero => intro q a; rfl
  | succ k ih =>
    intro q a
    unfold loopS loop
    simp only [negSum_of_nonneg f h, posSum_of_nonneg f h, goBoundS_of_nonneg f h, ih]
    rfl

theorem optimalS_eq_optimal_of_nonneg (solveFn : Problem → Option Asg) (p : Problem)
    (f : List (Int × Int)) (fuel : Nat) (h : NonNeg f) :
    optimalS solveFn p f fuel = optimal solveFn p f fuel := by
  unfold optimalS optimal
  simp only [loopS_eq_loop_of_nonneg solveFn f h]
  rfl

theorem enoughFuelS_of_nonneg (f : List (Int × Int)) (h : NonNeg f) : enoughFuelS f = enoughFuel f := by
  unfold enoughFuelS enoughFuel
  rw [negSum_of_nonneg f h, posSum_of_nonneg f h]
  simp

example : NonNeg [(3, 1), (2, 2), (0, 3), (2, -3)] := by decide

/-! ### shape of what Go appends: sorted, all weights strictly positive, degree ≥ 1 — for ALL weights -/

theorem hypothesisS_sorted (f : List (Int × Int)) :
    (hypothesisS f).Pairwise (fun x y => x.1 ≥ y.1) :=
  List.Pairwise.sublist (stripZeros_sublist _) (sortDesc_sorted _)

/-- After the sign normalisation every weight is `≥ 0`, so the zero-stripping removes *all* zero
    weights: every weight of the appended constraint is strictly positive (this was false for the
    unrepaired code with negative weights, cf. the last example of `C03_Optim.lean`). -/
theorem hypothesisS_pos (f : List (Int × Int)) : ∀ x ∈ hypothesisS f, 0 < x.1 := by
  apply stripZeros_pos _ (sortDesc_sorted _)
  intro t ht
  have := mem_sortDesc t _ ht
  unfold normTerms at this
  rw [List.mem_map] at this
  obtain ⟨u, hu, rfl⟩ := this
  unfold normTerm
  split <;> simp only <;> omega

example : hypothesisS [(0, 1), (-1, 2)] = [(1, 2)] := by decide

/-! ### the `int` API of `Minimize` is ambiguous at −1 -/

/-- **minimizeResult_ambiguous.** `Minimize()` returns −1 both for an unsatisfiable problem
    (`x1 ∧ ¬x1`, cost `−1·x1`) and for a satisfiable one whose optimum is −1 (no constraint, cost
    `−1·x1`): the integer result alone does not tell them apart (the doc comment of `Minimize` says
    "If no model can be found, it will return a cost of -1"). `Optimal` is not affected
    (`Status` is reported separately). -/
theorem minimizeResult_ambiguous :
    minimizeBruteIntS 1 [Lin.ofClause [1], Lin.ofClause [-1]] [(-1, 1)] = some (-1) ∧
    bruteOpt 1 [Lin.ofClause [1], Lin.ofClause [-1]] [(-1, 1)] = none ∧
    minimizeBruteIntS 1 [] [(-1, 1)] = some (-1) ∧
    bruteOpt 1 [] [(-1, 1)] = some (-1) := by decide

/-! ### concrete instances -/

/-- Hypotheses of `minimizeS_optimal` / `minimizeBruteS_eq_bruteOpt` on a non-trivial input:
    `x1 ∨ x2`, `¬x1 ∨ x3`, cost `3·x1 − 2·x2 + 0·x3 − 4·¬x3 + 1·x2`. -/
example : Problem.wf 3 [Lin.ofClause [1, 2], Lin.ofClause [-1, 3]] = true ∧
    termsWf 3 [(3, 1), (-2, 2), (0, 3), (-4, -3), (1, 2)] = true ∧
    LitsNZ [(3, 1), (-2, 2), (0, 3), (-4, -3), (1, 2)] ∧
    enoughFuelS [(3, 1), (-2, 2), (0, 3), (-4, -3), (1, 2)] = 12 := by decide

example : minimizeBruteCostS 3 [Lin.ofClause [1, 2], Lin.ofClause [-1, 3]]
      [(3, 1), (-2, 2), (0, 3), (-4, -3), (1, 2)] = some (-5) ∧
    (optimalBruteS 3 [Lin.ofClause [1, 2], Lin.ofClause [-1, 3]]
      [(3, 1), (-2, 2), (0, 3), (-4, -3), (1, 2)]).costs = [-5] ∧
    bruteOpt 3 [Lin.ofClause [1, 2], Lin.ofClause [-1, 3]]
      [(3, 1), (-2, 2), (0, 3), (-4, -3), (1, 2)] = some (-5) := by
  decide

/-- The input of `negative_weight_counterexample` (cost `−1·x1`, no constraint): the repaired loop
    streams `0, −1` and returns the true optimum −1 (the old loop returned 0). -/
example : minimizeBruteCostS 1 [] [(-1, 1)] = some (-1) ∧
    (optimalBruteS 1 [] [(-1, 1)]).costs = [0, -1] ∧
    bruteOpt 1 [] [(-1, 1)] = some (-1) ∧
    minimizeBruteCost 1 [] [(-1, 1)] = some 0 := by decide

/-- The input of `negative_weight_panic` (cost `−1·x1 + 1·x2` under the clause `x2`): no panic any
    more, the degree at cost 1 is `1 − 1 + 1 = 1`, the result is the true optimum 0. -/
example : (optimalBruteS 2 [Lin.ofClause [2]] [(-1, 1), (1, 2)]).minimizeResult = some 0 ∧
    (optimalBruteS 2 [Lin.ofClause [2]] [(-1, 1), (1, 2)]).costs = [1, 0] ∧
    goBoundS [(-1, 1), (1, 2)] 1 = ⟨[(1, 1), (1, -2)], 1⟩ ∧
    bruteOpt 2 [Lin.ofClause [2]] [(-1, 1), (1, 2)] = some 0 := by decide

/-- Mixed signs, a repeated variable with both polarities, a cardinality constraint:
    `x1 + x2 + x3 ≥ 2`, cost `−3·x1 + 2·x2 − 1·¬x2 + 4·x3 + 2·¬x1`. -/
example : minimizeBruteCostS 3 [Lin.ofCard [1, 2, 3] 2] [(-3, 1), (2, 2), (-1, -2), (4, 3), (2, -1)]
      = some (-1) ∧
    bruteOpt 3 [Lin.ofCard [1, 2, 3] 2] [(-3, 1), (2, 2), (-1, -2), (4, 3), (2, -1)] = some (-1) ∧
    (optimalBruteS 3 [Lin.ofCard [1, 2, 3] 2] [(-3, 1), (2, 2), (-1, -2), (4, 3), (2, -1)]).costs
      = [8, 0, -1] := by
  decide

/-- All weights negative, constraint `¬x1 ∨ ¬x2`: the loop leaves through Unsat (cost −3 ≠ minCost −5). -/
example : minimizeBruteCostS 2 [Lin.ofClause [-1, -2]] [(-2, 1), (-3, 2)] = some (-3) ∧
    negSum [(-2, 1), (-3, 2)] = -5 ∧
    (optimalBruteS 2 [Lin.ofClause [-1, -2]] [(-2, 1), (-3, 2)]).costs = [0, -3] := by
  decide

#print axioms boundS_sem
#print axioms goBoundS_holds
#print axioms negSum_le_cost
#print axioms cost_le_posSum
#print axioms goBoundS_degree_pos
#print axioms loopS_no_panic
#print axioms loopS_result
#print axioms loopS_fuel
#print axioms minimizeS_optimal
#print axioms minimizeS_optimal'
#print axioms minimizeS_unsat
#print axioms streamS_strictly_decreasing
#print axioms loopS_last
#print axioms minimizeBruteS_eq_bruteOpt
#print axioms loopS_eq_loop_of_nonneg
#print axioms hypothesisS_pos
#print axioms minimizeResult_ambiguous

end GS.OptimS
