import GS.Model.TrailPb
import GS.Props.C01_Trail
/-!
# C02 (C01 / C06) — the hypotheses of `analyze_sound_pb` are an inductive invariant of the trail
machine with cardinality / pseudo-boolean antecedents

`GS.Model.TrailPb` extends the trail machine of `GS.Model.Trail` by `propagatePb l c`
(`propagateUnit` called from `simplifyPseudoBool`, `simplifyCardConstr`, `simplifyCardAMOConstr`).
Proved here, for every operation sequence (unbounded):

* `isUnit_eq_forcedPb`, `propagate_eq_propagatePb` — a clause is the special case weights 1,
  degree 1: `propagate l c` is `propagatePb l (Lin.ofClause c)`;
  `goPbTest_forced`, `goCardTest_forced` — the tests written in `watcher.go` imply the guard;
  `step_toTrail` — on clause operations the machine is `GS.Trail`'s (projection `State.toTrail`).
* `InvPb s` — `TrailInv s.ents s.lvl`, `ReasonsPb s.es` (each antecedent contains its literal and
  `pbExplains (isFalse pre) [lit]` it: the exact shape of hypothesis `hR` of `analyze_sound_pb`),
  the decision property at every level `≥ 2`, levels `≥ 1`;
  `step_preserves_invPb`, `run_preserves_invPb`, `init_invPb`, `reachable_invPb`
  (`reachable_invPb_partial` from `New`'s trail under `unitsOk`), `invPbB_iff`.
* `SourcedPb P s` / `OpOk P o`, `step_preserves_sourced` — where antecedents and facts come from.
* `reachable_analyze_sound_pb` — in every reachable state with a violated constraint (`falsifiedPb`)
  entailed by the problem, the answer of the mirror `GS.Analyze.analyze` is entailed by the problem
  (`Entails` over `Lin`), is asserting, and is never `stuck`; no hypothesis on the state is left.
* `reachable_entailed`, `reachable_entailed_pb` — every trail literal follows from the constraints
  used as antecedents, the facts, the decisions and the assumptions.
-/
namespace GS.TrailPb
open GS GS.Analyze

/-! ### clauses as linear constraints -/

theorem litsOf_ofClause (c : List Int) : litsOf (Lin.ofClause c) = c := by
  simp [litsOf, Lin.ofClause, List.map_map, Function.comp_def]

theorem slack_ofClause (fb : Int → Bool) (ex : List Int) (c : List Int) :
    0 ≤ slack fb ex (c.map (fun l => ((1 : Int), l))) ∧
    (slack fb ex (c.map (fun l => ((1 : Int), l))) < 1 ↔ ∀ f ∈ c, fb f = true ∨ f ∈ ex) := by
  induction c with
  | nil => simp [slack]
  | cons x xs ih =>
    simp only [List.map_cons, slack, List.mem_cons, forall_eq_or_imp]
    by_cases hx : (fb x || ex.contains x) = true
    · rw [if_pos hx]
      have hx' : fb x = true ∨ x ∈ ex := by simpa using hx
      refine ⟨by omega, ?_⟩
      rw [Int.zero_add, ih.2]
      exact ⟨fun h => ⟨hx', h⟩, fun h => h.2⟩
    · rw [if_neg hx]
      have hx' : ¬ (fb x = true ∨ x ∈ ex) := by simpa using hx
      refine ⟨by omega, ?_⟩
      constructor
      · intro h; omega
      · intro h; exact absurd h.1 hx'

theorem forcedPb_iff (es : List Entry) (l : Int) (c : Lin) :
    forcedPb es l c = true ↔ l ∈ litsOf c ∧ pbExplains (isFalse es) [l] c = true := by
  simp [forcedPb]

/-- **A clause made unit is the special case** weights 1, degree 1 of the PB guard. -/
theorem isUnit_eq_forcedPb (es : List Entry) (l : Int) (c : List Int) :
    forcedPb es l (Lin.ofClause c) = GS.Trail.isUnit es l c := by
  rw [Bool.eq_iff_iff, forcedPb_iff, GS.Trail.isUnit_iff, litsOf_ofClause]
  unfold pbExplains
  simp only [Bool.and_eq_true, List.all_eq_true, decide_eq_true_eq]
  have hs := slack_ofClause (isFalse es) [l] c
  have hterms : (Lin.ofClause c).terms = c.map (fun l => ((1 : Int), l)) := rfl
  have hdeg : (Lin.ofClause c).degree = 1 := rfl
  rw [hterms, hdeg, hs.2]
  constructor
  · rintro ⟨h1, _, h3⟩
    refine ⟨h1, fun f hf hne => ?_⟩
    rcases h3 f hf with h | h
    · exact h
    · exact absurd (by simpa using h) hne
  · rintro ⟨h1, h2⟩
    refine ⟨h1, ?_, fun f hf => ?_⟩
    · intro t ht
      obtain ⟨x, _, rfl⟩ := List.mem_map.1 ht
      show (0 : Int) ≤ 1
      decide
    · by_cases hfl : f = l
      · exact Or.inr (by simp [hfl])
      · exact Or.inl (h2 f hf hfl)

/-- **`propagate l c` is `propagatePb l (Lin.ofClause c)`.** -/
theorem propagate_eq_propagatePb (s : State) (l : Int) (c : List Int) :
    step s (.propagate l c) = step s (.propagatePb l (Lin.ofClause c)) := by
  simp only [step, propagateOp, propagatePbOp, isUnit_eq_forcedPb]

/-! ### the tests of `watcher.go` imply the guard -/

theorem slack_le (fb : Int → Bool) (ex : List Int) :
    ∀ ts : List (Int × Int), (∀ t ∈ ts, 0 ≤ t.1) → slack fb ex ts ≤ slack fb [] ts := by
  intro ts
  induction ts with
  | nil => intro _; simp [slack]
  | cons t ts ih =>
    intro hpos
    have h1 := ih (fun t' ht' => hpos t' (List.mem_cons_of_mem _ ht'))
    have h0 := hpos t List.mem_cons_self
    unfold slack
    by_cases hf : fb t.2 = true
    · simp only [hf, Bool.true_or, if_true]; omega
    · have hf' : fb t.2 = false := by simpa using hf
      simp only [hf', Bool.false_or, List.contains_nil, Bool.false_eq_true, if_false]
      split <;> omega

/-- Leaving out a non-false literal `l` lowers the slack by the weight of any position holding it. -/
theorem slack_remove (fb : Int → Bool) (l w : Int) (hl : fb l = false) :
    ∀ ts : List (Int × Int), (∀ t ∈ ts, 0 ≤ t.1) → (w, l) ∈ ts →
      slack fb [l] ts + w ≤ slack fb [] ts := by
  intro ts
  induction ts with
  | nil => intro _ h; cases h
  | cons t ts ih =>
    intro hpos hm
    have hpos' : ∀ t' ∈ ts, 0 ≤ t'.1 := fun t' ht' => hpos t' (List.mem_cons_of_mem _ ht')
    have h0 := hpos t List.mem_cons_self
    rcases List.mem_cons.1 hm with rfl | hm'
    · have h1 := slack_le fb [l] ts hpos'
      unfold slack
      simp only [hl, List.contains_cons, beq_self_eq_true, Bool.true_or, Bool.or_true, if_true,
        List.contains_nil, Bool.or_self, Bool.false_eq_true, if_false]
      omega
    · have h1 := ih hpos' hm'
      unfold slack
      by_cases hf : fb t.2 = true
      · simp only [hf, Bool.true_or, if_true]; omega
      · have hf' : fb t.2 = false := by simpa using hf
        simp only [hf', Bool.false_or, List.contains_nil, Bool.false_eq_true, if_false]
        split <;> omega

/-- An unbound literal is not false. -/
theorem isFalse_of_unbound {es : List Entry} {l : Int} (hu : GS.Trail.unbound es l = true) :
    isFalse es l = false := by
  cases h : isFalse es l with
  | false => rfl
  | true =>
    obtain ⟨e, he, hel⟩ := (isFalse_iff es l).1 h
    exact absurd (natAbs_of_lit_eq_neg hel) ((GS.Trail.unbound_iff es l).1 hu e he)

/-- `simplifyPseudoBool` (`Weight(i) > slack`, `propagateAll`) propagates only forced literals. -/
theorem goPbTest_forced {es : List Entry} {l : Int} {c : Lin} (hu : GS.Trail.unbound es l = true)
    (h : goPbTest es l c = true) : forcedPb es l c = true := by
  unfold goPbTest at h
  simp only [Bool.and_eq_true, List.all_eq_true, decide_eq_true_eq, List.any_eq_true,
    beq_iff_eq] at h
  obtain ⟨⟨hpos, _⟩, t, ht, htl, htw⟩ := h
  have hpos' : ∀ t ∈ c.terms, 0 ≤ t.1 := fun t ht => Int.le_of_lt (hpos t ht)
  have hmem : (t.1, l) ∈ c.terms := by rw [← htl]; exact ht
  have := slack_remove (isFalse es) l t.1 (isFalse_of_unbound hu) c.terms hpos' hmem
  rw [forcedPb_iff]
  refine ⟨List.mem_map.2 ⟨t, ht, htl⟩, ?_⟩
  unfold pbExplains
  simp only [Bool.and_eq_true, List.all_eq_true, decide_eq_true_eq]
  exact ⟨hpos', by omega⟩

/-- `simplifyCardConstr` / `simplifyCardAMOConstr` (`nbUnb + nbTrue == card`) propagate only
    forced literals. -/
theorem goCardTest_forced {es : List Entry} {l : Int} {c : Lin}
    (hu : GS.Trail.unbound es l = true) (h : goCardTest es l c = true) :
    forcedPb es l c = true := by
  unfold goCardTest at h
  simp only [Bool.and_eq_true, List.all_eq_true, decide_eq_true_eq, beq_iff_eq,
    List.contains_iff_mem] at h
  obtain ⟨⟨hone, hl⟩, heq⟩ := h
  have hpos' : ∀ t ∈ c.terms, 0 ≤ t.1 := fun t ht => by rw [hone t ht]; decide
  obtain ⟨t, ht, htl⟩ := List.mem_map.1 hl
  have hmem : ((1 : Int), l) ∈ c.terms := by
    have : t = (1, l) := by
      have h1 := hone t ht
      cases t; simp only at h1 htl; rw [h1, htl]
    rw [← this]; exact ht
  have := slack_remove (isFalse es) l 1 (isFalse_of_unbound hu) c.terms hpos' hmem
  rw [forcedPb_iff]
  refine ⟨hl, ?_⟩
  unfold pbExplains
  simp only [Bool.and_eq_true, List.all_eq_true, decide_eq_true_eq]
  exact ⟨hpos', by omega⟩

/-! ### projections -/

theorem ents_push (s : State) (l : Int) (k : Nat) (a : Bool) (r : Option Lin) :
    (push s l k a r).ents = s.ents ++ [⟨l, k, a, r.map litsOf⟩] := by
  simp [State.ents, push, PEntry.toEntry]

theorem entries_toSt (s : State) (confl : List Int) : (s.toSt confl).entries = s.ents :=
  GS.Trail.entries_toSt s.toTrail confl

theorem map_split {es : List PEntry} {pre post : List Entry} {e : Entry}
    (h : es.map PEntry.toEntry = pre ++ e :: post) :
    ∃ pre' e' post', es = pre' ++ e' :: post' ∧ pre'.map PEntry.toEntry = pre ∧
      e'.toEntry = e ∧ post'.map PEntry.toEntry = post := by
  obtain ⟨l1, l2, rfl, h1, h2⟩ := List.map_eq_append_iff.1 h
  obtain ⟨e', post', rfl, h3, h4⟩ := List.map_eq_cons_iff.1 h2
  exact ⟨l1, e', post', rfl, h1, h3, h4⟩


/-! ### the inductive invariant -/

/-- Antecedents in the shape `analyze_sound_pb` asks for (its hypothesis `hR`): the propagated
    literal is a literal of its antecedent, whose weights are non-negative and whose slack without
    that literal, given the literals false **before** it on the trail, is below its degree. -/
def ReasonsPb (es : List PEntry) : Prop :=
  ∀ pre e post c, es = pre ++ e :: post → e.reason = some c →
    e.lit ∈ litsOf c ∧ pbExplains (isFalse (pre.map PEntry.toEntry)) [e.lit] c = true

/-- The invariant of the extended machine: `TrailInv` of the analysed entries, `ReasonsPb`, the
    decision property at every level `≥ 2`, levels `≥ 1`. -/
structure InvPb (s : State) : Prop where
  trail : TrailInv s.ents s.lvl
  reasons : ReasonsPb s.es
  decisions : ∀ k, 2 ≤ k → GS.Trail.DecisionsOkP s.ents k
  lvl_pos : 1 ≤ s.lvl
  lvls_pos : ∀ e ∈ s.ents, 1 ≤ e.lvl

theorem push_invPb {s : State} (h : InvPb s) {l : Int} {k : Nat} {a : Bool} {r : Option Lin}
    (hl : l ≠ 0) (hu : GS.Trail.unbound s.ents l = true) (hk : s.lvl ≤ k)
    (hr : ∀ c, r = some c → forcedPb s.ents l c = true)
    (hd : r = none → a = false → 2 ≤ k → s.lvl < k) : InvPb (push s l k a r) := by
  have hu' := (GS.Trail.unbound_iff _ _).1 hu
  have hes : (push s l k a r).es = s.es ++ [⟨l, k, a, r⟩] := rfl
  have hen : (push s l k a r).ents = s.ents ++ [⟨l, k, a, r.map litsOf⟩] := ents_push s l k a r
  have hlv : (push s l k a r).lvl = k := rfl
  refine ⟨⟨?_, ?_, ?_, ?_⟩, ?_, ?_, ?_, ?_⟩
  · rw [hen, List.pairwise_append]
    refine ⟨h.trail.nodup, List.pairwise_singleton _ _, fun x hx y hy => ?_⟩
    rw [List.mem_singleton] at hy; subst hy
    exact hu' x hx
  · intro e he
    rw [hen, List.mem_append, List.mem_singleton] at he
    rcases he with he | rfl
    · exact h.trail.nonzero e he
    · exact hl
  · rw [hen, List.pairwise_append]
    refine ⟨h.trail.mono, List.pairwise_singleton _ _, fun x hx y hy => ?_⟩
    rw [List.mem_singleton] at hy; subst hy
    exact Nat.le_trans (h.trail.bound x hx) hk
  · intro e he
    rw [hen, List.mem_append, List.mem_singleton] at he
    rw [hlv]
    rcases he with he | rfl
    · exact Nat.le_trans (h.trail.bound e he) hk
    · exact Nat.le_refl _
  · intro pre e post c hsp hc
    rw [hes] at hsp
    rcases GS.Trail.snoc_split hsp with ⟨_, rfl, rfl⟩ | ⟨post', _, hsp'⟩
    · exact (forcedPb_iff _ _ _).1 (hr c hc)
    · exact h.reasons pre e post' c hsp' hc
  · intro k' hk' pre e post hsp hr' ha hek x hx
    rw [hen] at hsp
    rcases GS.Trail.snoc_split hsp with ⟨_, rfl, rfl⟩ | ⟨post', _, hsp'⟩
    · have hrn : r = none := by
        cases r with
        | none => rfl
        | some c => simp at hr'
      have hlt := hd hrn ha (by rw [← hek] at hk'; exact hk')
      have := h.trail.bound x hx
      simp only at hek
      omega
    · exact h.decisions k' hk' pre e post' hsp' hr' ha hek x hx
  · rw [hlv]; exact Nat.le_trans h.lvl_pos hk
  · intro e he
    rw [hen, List.mem_append, List.mem_singleton] at he
    rcases he with he | rfl
    · exact h.lvls_pos e he
    · exact Nat.le_trans h.lvl_pos hk

/-- Cutting the trail to a prefix whose levels are `≤ k`, continuing at level `k ≥ 1`. -/
theorem prefix_invPb {s : State} (h : InvPb s) {es' rest : List PEntry} (hes : s.es = es' ++ rest)
    {k : Nat} (hk1 : 1 ≤ k) (hb : ∀ e ∈ es', e.lvl ≤ k) : InvPb ⟨k, es'⟩ := by
  have hen : s.ents = es'.map PEntry.toEntry ++ rest.map PEntry.toEntry := by
    simp [State.ents, hes]
  have hmem : ∀ e ∈ es'.map PEntry.toEntry, e ∈ s.ents :=
    fun e he => by rw [hen]; exact List.mem_append_left _ he
  have hsplit : ∀ {pre e post}, es'.map PEntry.toEntry = pre ++ e :: post →
      s.ents = pre ++ e :: (post ++ rest.map PEntry.toEntry) := by
    intro pre e post h'; rw [hen, h']; simp
  refine ⟨⟨?_, ?_, ?_, ?_⟩, ?_, ?_, hk1, ?_⟩
  · have := h.trail.nodup; rw [hen, List.pairwise_append] at this; exact this.1
  · exact fun e he => h.trail.nonzero e (hmem e he)
  · have := h.trail.mono; rw [hen, List.pairwise_append] at this; exact this.1
  · intro e he
    obtain ⟨e', he', rfl⟩ := List.mem_map.1 he
    exact hb e' he'
  · intro pre e post c hsp hc
    have hsp' : es' = pre ++ e :: post := hsp
    exact h.reasons pre e (post ++ rest) c (by rw [hes, hsp']; simp) hc
  · intro k' hk' pre e post hsp hr ha hek
    exact h.decisions k' hk' pre e _ (hsplit hsp) hr ha hek
  · exact fun e he => h.lvls_pos e (hmem e he)

/-! ### one lemma per operation -/

theorem decide_preserves_invPb {s s' : State} {l : Int} (h : InvPb s)
    (hs : decideOp s l = some s') : InvPb s' := by
  unfold decideOp at hs
  split at hs
  · rename_i hg
    cases hs
    simp only [Bool.and_eq_true, bne_iff_ne, ne_eq] at hg
    exact push_invPb h hg.1 hg.2 (Nat.le_succ _) (fun c hc => by cases hc)
      (fun _ _ _ => Nat.lt_succ_self _)
  · cases hs

theorem propagatePb_preserves_invPb {s s' : State} {l : Int} {c : Lin} (h : InvPb s)
    (hs : propagatePbOp s l c = some s') : InvPb s' := by
  unfold propagatePbOp at hs
  split at hs
  · rename_i hg
    cases hs
    simp only [Bool.and_eq_true, bne_iff_ne, ne_eq] at hg
    exact push_invPb h hg.1.1 hg.1.2 (Nat.le_refl _) (fun c' hc => by cases hc; exact hg.2)
      (fun hn => by cases hn)
  · cases hs

theorem propagate_preserves_invPb {s s' : State} {l : Int} {c : List Int} (h : InvPb s)
    (hs : propagateOp s l c = some s') : InvPb s' := by
  have : propagateOp s l c = propagatePbOp s l (Lin.ofClause c) := propagate_eq_propagatePb s l c
  rw [this] at hs
  exact propagatePb_preserves_invPb h hs

theorem backjump_preserves_invPb {s s' : State} {k : Nat} (h : InvPb s)
    (hs : backjumpOp s k = some s') : InvPb s' := by
  unfold backjumpOp at hs
  split at hs
  · rename_i hg
    cases hs
    simp only [Bool.and_eq_true, decide_eq_true_eq] at hg
    exact prefix_invPb h
      (List.takeWhile_append_dropWhile (p := fun e : PEntry => decide (e.lvl ≤ k))).symm hg.1
      (fun e he => of_decide_eq_true
        (GS.Trail.of_mem_takeWhile (p := fun e : PEntry => decide (e.lvl ≤ k)) he))
  · cases hs

theorem assertLearned_preserves_invPb {s s' : State} {l : Int} {c : List Int} {k : Nat}
    (h : InvPb s) (hs : assertLearnedOp s l c k = some s') : InvPb s' := by
  unfold assertLearnedOp at hs
  split at hs
  · rename_i s1 h1
    exact propagate_preserves_invPb (backjump_preserves_invPb h h1) hs
  · cases hs

theorem addFact_preserves_invPb {s s' : State} {l : Int} (h : InvPb s)
    (hs : addFactOp s l = some s') : InvPb s' := by
  unfold addFactOp at hs
  split at hs
  · rename_i hg
    cases hs
    simp only [Bool.and_eq_true, bne_iff_ne, ne_eq, beq_iff_eq] at hg
    exact push_invPb h hg.1.1 hg.1.2 (Nat.le_of_eq hg.2) (fun c hc => by cases hc)
      (fun _ _ h2 => by omega)
  · cases hs

theorem assume_preserves_invPb {s s' : State} {l : Int} (h : InvPb s)
    (hs : assumeOp s l = some s') : InvPb s' := by
  unfold assumeOp at hs
  split at hs
  · rename_i hg
    cases hs
    simp only [Bool.and_eq_true, bne_iff_ne, ne_eq, beq_iff_eq] at hg
    exact push_invPb h hg.1.1 hg.1.2 (Nat.le_of_eq hg.2) (fun c hc => by cases hc)
      (fun _ h1 _ => by cases h1)
  · cases hs

/-- **The invariant is inductive** over the extended machine. -/
theorem step_preserves_invPb {s s' : State} {o : Op} (h : InvPb s) (hs : step s o = some s') :
    InvPb s' := by
  cases o with
  | decide l => exact decide_preserves_invPb h hs
  | propagate l c => exact propagate_preserves_invPb h hs
  | backjump k => exact backjump_preserves_invPb h hs
  | assertLearned l c k => exact assertLearned_preserves_invPb h hs
  | addFact l => exact addFact_preserves_invPb h hs
  | assume l => exact assume_preserves_invPb h hs
  | propagatePb l c => exact propagatePb_preserves_invPb h hs

theorem run_preserves_invPb : ∀ (ops : List Op) {s s' : State}, InvPb s → run s ops = some s' →
    InvPb s'
  | [], s, s', h, hr => by cases hr; exact h
  | o :: os, s, s', h, hr => by
    rw [run] at hr
    split at hr
    · rename_i s1 h1
      exact run_preserves_invPb os (step_preserves_invPb h h1) hr
    · cases hr

/-! ### initial states -/

theorem init_invPb : InvPb empty := by
  refine ⟨⟨List.Pairwise.nil, ?_, List.Pairwise.nil, ?_⟩, ?_, ?_, Nat.le_refl _, ?_⟩
  · intro e he; cases he
  · intro e he; cases he
  · intro pre e post r h _; cases pre <;> cases h
  · intro _ _ pre e post h; cases pre <;> cases h
  · intro e he; cases he

theorem toTrail_init (units : List Int) : (init units).toTrail = GS.Trail.init units := by
  simp [State.toTrail, State.ents, init, GS.Trail.init, PEntry.toEntry, List.map_map,
    Function.comp_def]

/-- `New` on a problem whose unit literals are non-zero over pairwise distinct variables. -/
theorem init_units_invPb_partial {units : List Int} (hu : GS.Trail.unitsOk units = true) :
    InvPb (init units) := by
  have h0 := GS.Trail.init_units_inv_partial hu
  rw [← toTrail_init] at h0
  refine ⟨h0.trail, ?_, h0.decisions, h0.lvl_pos, h0.lvls_pos⟩
  intro pre e post c hsp hc
  have he : e ∈ (init units).es := by rw [hsp]; simp
  simp only [init, List.mem_map] at he
  obtain ⟨u, _, rfl⟩ := he
  cases hc

/-- **Reachable states meet the invariant** (empty initial trail). -/
theorem reachable_invPb {ops : List Op} {s : State} (hr : run empty ops = some s) : InvPb s :=
  run_preserves_invPb ops init_invPb hr

/-- The same from `New`'s initial trail, under the guard that excludes repeated unit variables
    (needed for the reason given at `GS.Trail.init_units_inv_statement_false`). -/
theorem reachable_invPb_partial {units : List Int} {ops : List Op} {s : State}
    (hu : GS.Trail.unitsOk units = true) (hr : run (init units) ops = some s) : InvPb s :=
  run_preserves_invPb ops (init_units_invPb_partial hu) hr


/-! ### the Boolean checks the driver evaluates -/

theorem reasonsPbAux_iff : ∀ (l p0 : List PEntry),
    reasonsPbAux (p0.map PEntry.toEntry) l = true ↔
    ∀ pre e post c, l = pre ++ e :: post → e.reason = some c →
      forcedPb ((p0 ++ pre).map PEntry.toEntry) e.lit c = true := by
  intro l
  induction l with
  | nil =>
    intro p0
    refine ⟨fun _ pre e post c h => (by cases pre <;> cases h), fun _ => rfl⟩
  | cons x xs ih =>
    intro p0
    have hmap : p0.map PEntry.toEntry ++ [x.toEntry] = (p0 ++ [x]).map PEntry.toEntry := by simp
    rw [reasonsPbAux, Bool.and_eq_true, hmap, ih (p0 ++ [x])]
    constructor
    · rintro ⟨h1, h2⟩ pre e post c hl hr
      cases pre with
      | nil =>
        simp only [List.nil_append, List.cons.injEq] at hl
        obtain ⟨rfl, rfl⟩ := hl
        rw [hr] at h1
        simpa using h1
      | cons y pre' =>
        simp only [List.cons_append, List.cons.injEq] at hl
        obtain ⟨rfl, rfl⟩ := hl
        have := h2 pre' e post c rfl hr
        simpa [List.append_assoc] using this
    · intro h
      constructor
      · cases hr : x.reason with
        | none => rfl
        | some c => simpa using h [] x xs c rfl hr
      · intro pre e post c hl hr
        have := h (x :: pre) e post c (by rw [hl]; rfl) hr
        simpa [List.append_assoc] using this

theorem reasonsPb_iff (es : List PEntry) : reasonsPb es = true ↔ ReasonsPb es := by
  have := reasonsPbAux_iff es []
  simp only [List.map_nil, List.nil_append] at this
  unfold reasonsPb ReasonsPb
  rw [this]
  constructor
  · intro h pre e post c hsp hc; exact (forcedPb_iff _ _ _).1 (h pre e post c hsp hc)
  · intro h pre e post c hsp hc; exact (forcedPb_iff _ _ _).2 (h pre e post c hsp hc)

/-- `invPbB` decides the invariant. -/
theorem invPbB_iff (s : State) : invPbB s = true ↔ InvPb s := by
  simp only [invPbB, Bool.and_eq_true, trailInv_iff, reasonsPb_iff, List.all_eq_true,
    List.mem_range, Bool.or_eq_true, decide_eq_true_eq, GS.Trail.decisionsOk_iff]
  constructor
  · rintro ⟨⟨⟨⟨h1, h2⟩, h3⟩, h4⟩, h5⟩
    refine ⟨h1, h2, fun k hk => ?_, h4, h5⟩
    by_cases hkl : k < s.lvl + 1
    · exact (h3 k hkl).resolve_left (by omega)
    · intro pre e post hsp _ _ hek
      have he : e ∈ s.ents := by rw [hsp]; simp
      have := h1.bound e he
      omega
  · intro h
    exact ⟨⟨⟨⟨h.trail, h.reasons⟩, fun k _ => by
      by_cases hk : k < 2
      · exact Or.inl hk
      · exact Or.inr (h.decisions k (by omega))⟩, h.lvl_pos⟩, h.lvls_pos⟩

theorem step_preserves_invPbB {s s' : State} {o : Op} (h : invPbB s = true)
    (hs : step s o = some s') : invPbB s' = true :=
  (invPbB_iff s').2 (step_preserves_invPb ((invPbB_iff s).1 h) hs)

theorem reachable_invPbB {units : List Int} {ops : List Op} {s : State}
    (hu : GS.Trail.unitsOk units = true) (hr : run (init units) ops = some s) :
    invPbB s = true :=
  (invPbB_iff s).2 (reachable_invPb_partial hu hr)

/-! ### the machine restricted to clause operations is `GS.Trail` -/

theorem toTrail_push (s : State) (l : Int) (k : Nat) (a : Bool) (r : Option Lin) :
    (push s l k a r).toTrail = GS.Trail.push s.toTrail l k a (r.map litsOf) := by
  simp only [State.toTrail, GS.Trail.push, ents_push]
  rfl

theorem toTrail_backjump {s s' : State} {k : Nat} (hs : backjumpOp s k = some s') :
    GS.Trail.backjumpOp s.toTrail k = some s'.toTrail := by
  unfold backjumpOp at hs
  unfold GS.Trail.backjumpOp
  have hl : s.toTrail.lvl = s.lvl := rfl
  rw [hl]
  split at hs
  · rename_i hg
    cases hs
    rw [if_pos hg]
    simp only [State.toTrail, State.ents, List.takeWhile_map]
    rfl
  · cases hs

theorem toTrail_propagate {s s' : State} {l : Int} {c : List Int}
    (hs : propagateOp s l c = some s') :
    GS.Trail.propagateOp s.toTrail l c = some s'.toTrail := by
  unfold propagateOp at hs
  unfold GS.Trail.propagateOp
  have he : s.toTrail.es = s.ents := rfl
  have hl : s.toTrail.lvl = s.lvl := rfl
  rw [he, hl]
  split at hs
  · rename_i hg
    cases hs
    rw [if_pos hg, toTrail_push]
    simp [litsOf_ofClause]
  · cases hs

/-- **Conservativity**: an accepted clause operation is the same operation of `GS.Model.Trail` on
    the projected state. -/
theorem step_toTrail {s s' : State} {o : Op} {o' : GS.Trail.Op} (ho : o.toTrail = some o')
    (hs : step s o = some s') : GS.Trail.step s.toTrail o' = some s'.toTrail := by
  have he : s.toTrail.es = s.ents := rfl
  have hl : s.toTrail.lvl = s.lvl := rfl
  cases o with
  | decide l =>
    cases ho
    simp only [step, decideOp] at hs
    simp only [GS.Trail.step, GS.Trail.decideOp, he, hl]
    split at hs
    · rename_i hg; cases hs; rw [if_pos hg, toTrail_push]; rfl
    · cases hs
  | propagate l c => cases ho; exact toTrail_propagate hs
  | backjump k => cases ho; exact toTrail_backjump hs
  | assertLearned l c k =>
    cases ho
    simp only [step, assertLearnedOp] at hs
    simp only [GS.Trail.step, GS.Trail.assertLearnedOp]
    split at hs
    · rename_i s1 h1
      rw [toTrail_backjump h1]
      exact toTrail_propagate hs
    · cases hs
  | addFact l =>
    cases ho
    simp only [step, addFactOp] at hs
    simp only [GS.Trail.step, GS.Trail.addFactOp, he, hl]
    split at hs
    · rename_i hg; cases hs; rw [if_pos hg, toTrail_push]; rfl
    · cases hs
  | assume l =>
    cases ho
    simp only [step, assumeOp] at hs
    simp only [GS.Trail.step, GS.Trail.assumeOp, he, hl]
    split at hs
    · rename_i hg; cases hs; rw [if_pos hg, toTrail_push]; rfl
    · cases hs
  | propagatePb l c => cases ho

/-! ### where antecedents and facts come from -/

/-- Side condition on an operation: the constraint it installs as antecedent / the fact it adds
    satisfies `P` (in the applications `P = Entails p`: a constraint of the problem, a learned
    clause, a learned unit). -/
def OpOk (P : Lin → Prop) : Op → Prop
  | .propagate _ c => P (Lin.ofClause c)
  | .propagatePb _ c => P c
  | .assertLearned _ c _ => P (Lin.ofClause c)
  | .addFact l => P (Lin.ofClause [l])
  | _ => True

structure SourcedPb (P : Lin → Prop) (s : State) : Prop where
  reasons : ∀ e ∈ s.es, ∀ c, e.reason = some c → P c
  facts : ∀ e ∈ s.es, e.reason = none → e.assumed = false → e.lvl = 1 → P (Lin.ofClause [e.lit])

theorem push_sourced {P : Lin → Prop} {s : State} (h : SourcedPb P s) {l : Int} {k : Nat}
    {a : Bool} {r : Option Lin} (hr : ∀ c, r = some c → P c)
    (hf : r = none → a = false → k = 1 → P (Lin.ofClause [l])) : SourcedPb P (push s l k a r) := by
  have hes : (push s l k a r).es = s.es ++ [⟨l, k, a, r⟩] := rfl
  constructor
  · intro e he c hc
    rw [hes, List.mem_append, List.mem_singleton] at he
    rcases he with he | rfl
    · exact h.reasons e he c hc
    · exact hr c hc
  · intro e he h1 h2 h3
    rw [hes, List.mem_append, List.mem_singleton] at he
    rcases he with he | rfl
    · exact h.facts e he h1 h2 h3
    · exact hf h1 h2 h3

theorem backjump_sourced {P : Lin → Prop} {s s' : State} {k : Nat} (h : SourcedPb P s)
    (hs : backjumpOp s k = some s') : SourcedPb P s' := by
  unfold backjumpOp at hs
  split at hs
  · cases hs
    exact ⟨fun e he => h.reasons e ((List.takeWhile_sublist _).subset he),
           fun e he => h.facts e ((List.takeWhile_sublist _).subset he)⟩
  · cases hs

theorem propagatePb_sourced {P : Lin → Prop} {s s' : State} {l : Int} {c : Lin}
    (h : SourcedPb P s) (hc : P c) (hs : propagatePbOp s l c = some s') : SourcedPb P s' := by
  unfold propagatePbOp at hs
  split at hs
  · cases hs
    exact push_sourced h (fun c' hc' => by cases hc'; exact hc) (fun hn => by cases hn)
  · cases hs

theorem propagate_sourced {P : Lin → Prop} {s s' : State} {l : Int} {c : List Int}
    (h : SourcedPb P s) (hc : P (Lin.ofClause c)) (hs : propagateOp s l c = some s') :
    SourcedPb P s' := by
  have : propagateOp s l c = propagatePbOp s l (Lin.ofClause c) := propagate_eq_propagatePb s l c
  rw [this] at hs
  exact propagatePb_sourced h hc hs

theorem step_preserves_sourced {P : Lin → Prop} {s s' : State} {o : Op} (hi : InvPb s)
    (h : SourcedPb P s) (ho : OpOk P o) (hs : step s o = some s') : SourcedPb P s' := by
  cases o with
  | decide l =>
    simp only [step, decideOp] at hs
    split at hs
    · cases hs
      exact push_sourced h (fun c hc => by cases hc)
        (fun _ _ hk => by have := hi.lvl_pos; omega)
    · cases hs
  | propagate l c => exact propagate_sourced h ho hs
  | propagatePb l c => exact propagatePb_sourced h ho hs
  | backjump k => exact backjump_sourced h hs
  | assertLearned l c k =>
    simp only [step, assertLearnedOp] at hs
    split at hs
    · rename_i s1 h1
      exact propagate_sourced (backjump_sourced h h1) ho hs
    · cases hs
  | addFact l =>
    simp only [step, addFactOp] at hs
    split at hs
    · cases hs
      exact push_sourced h (fun c hc => by cases hc) (fun _ _ _ => ho)
    · cases hs
  | assume l =>
    simp only [step, assumeOp] at hs
    split at hs
    · cases hs
      exact push_sourced h (fun c hc => by cases hc) (fun _ ha _ => by cases ha)
    · cases hs

theorem run_preserves_sourced {P : Lin → Prop} : ∀ (ops : List Op) {s s' : State}, InvPb s →
    SourcedPb P s → (∀ o ∈ ops, OpOk P o) → run s ops = some s' → SourcedPb P s'
  | [], s, s', _, h, _, hr => by cases hr; exact h
  | o :: os, s, s', hi, h, ho, hr => by
    rw [run] at hr
    split at hr
    · rename_i s1 h1
      exact run_preserves_sourced os (step_preserves_invPb hi h1)
        (step_preserves_sourced hi h (ho o List.mem_cons_self) h1)
        (fun o' ho' => ho o' (List.mem_cons_of_mem _ ho')) hr
    · cases hr

theorem init_sourced {P : Lin → Prop} {units : List Int} (hu : ∀ u ∈ units, P (Lin.ofClause [u])) :
    SourcedPb P (init units) := by
  constructor
  · intro e he c hc
    simp only [init, List.mem_map] at he
    obtain ⟨u, _, rfl⟩ := he
    cases hc
  · intro e he _ _ _
    simp only [init, List.mem_map] at he
    obtain ⟨u, hu', rfl⟩ := he
    exact hu u hu'

theorem empty_sourced {P : Lin → Prop} : SourcedPb P empty := by
  constructor
  · intro e he; cases he
  · intro e he; cases he

/-! ### every hypothesis of `analyze_sound_pb` holds in a conflict state -/

/-- What `analyze_sound_pb`, `analyze_asserting`, `analyze_not_stuck` give together on the snapshot
    `st` with analysed trail `es` at level `lvl`, against the problem `p`. -/
def AnalysisOkPb (p : Problem) (es : List Entry) (lvl : Nat) (st : St) : Prop :=
  analyze st ≠ .stuck ∧
  (∀ a rest, analyze st = .learned a rest →
    Entails p (Lin.ofClause (a :: rest)) ∧ rest ≠ [] ∧ isFalse es a = true ∧
    lvOf es a.natAbs = lvl ∧
    (∀ l ∈ rest, isFalse es l = true ∧ lvOf es l.natAbs < lvl) ∧
    rest.Pairwise (fun x y => lvOf es y.natAbs ≤ lvOf es x.natAbs)) ∧
  (∀ l, analyze st = .unit l →
    Entails p (Lin.ofClause [l]) ∧ isFalse es l = true ∧ lvOf es l.natAbs = lvl)

/-- Hypothesis `hR` of `analyze_sound_pb`, from the invariant and the source of the antecedents. -/
theorem inv_hR (p : Problem) {s : State} (h : InvPb s) (hs : SourcedPb (Entails p) s) :
    ∀ pre e post r, s.ents = pre ++ e :: post → e.reason = some r →
      ∃ c : Lin, Entails p c ∧ c.terms.map (·.2) = r ∧ pbExplains (isFalse pre) [e.lit] c = true := by
  intro pre e post r h1 h2
  obtain ⟨pre', e', post', hsp, rfl, rfl, _⟩ := map_split h1
  cases hc : e'.reason with
  | none => simp [PEntry.toEntry, hc] at h2
  | some c =>
    have hr : r = litsOf c := by simpa [PEntry.toEntry, hc] using h2.symm
    have he' : e' ∈ s.es := by rw [hsp]; simp
    exact ⟨c, hs.reasons e' he' c hc, hr.symm, (h.reasons pre' e' post' c hsp hc).2⟩

/-- Hypothesis `hF` of `analyze_sound_pb`: vacuous at a level `≥ 2` (only the decision has no
    antecedent), the facts at level 1. -/
theorem inv_hF (p : Problem) {s : State} (h : InvPb s) (hs : SourcedPb (Entails p) s) :
    ∀ pre e post, s.ents = pre ++ e :: post → e.reason = none → e.assumed = false →
      e.lvl = s.lvl → (∃ x ∈ pre, x.lvl = s.lvl) → Entails p (Lin.ofClause [e.lit]) := by
  intro pre e post hsp hr ha hlv ⟨x, hx, hxl⟩
  by_cases h2 : 2 ≤ s.lvl
  · exact absurd hxl (h.decisions _ h2 pre e post hsp hr ha hlv x hx)
  · obtain ⟨pre', e', post', hsp', rfl, rfl, _⟩ := map_split hsp
    have he' : e' ∈ s.es := by rw [hsp']; simp
    have := h.lvl_pos
    have hr' : e'.reason = none := by
      cases hc : e'.reason with
      | none => rfl
      | some c => simp [PEntry.toEntry, hc] at hr
    exact hs.facts e' he' hr' ha (by change e'.lvl = s.lvl at hlv; omega)

/-- `analyze_sound_pb`, `analyze_asserting`, `analyze_not_stuck` instantiated on a state that
    meets the invariant, whose antecedents and facts are entailed by `p`, with a violated
    constraint entailed by `p`. -/
theorem inv_analyze_sound_pb (p : Problem) {s : State} {confl : Lin} (h : InvPb s)
    (hs : SourcedPb (Entails p) s) (hf : falsifiedPb s confl = true) (hc : Entails p confl) :
    AnalysisOkPb p s.ents s.lvl (s.toSt (litsOf confl)) := by
  have he := entries_toSt s (litsOf confl)
  have hl : (s.toSt (litsOf confl)).lvl = s.lvl := rfl
  unfold falsifiedPb at hf
  rw [Bool.and_eq_true] at hf
  have hinv : trailInv (s.toSt (litsOf confl)).entries (s.toSt (litsOf confl)).lvl = true := by
    rw [he, hl]; exact (trailInv_iff _ _).2 h.trail
  have h1 := analyze_sound_pb p (s.toSt (litsOf confl)) hinv
    (by rw [he]; exact inv_hR p h hs) (by rw [he, hl]; exact inv_hF p h hs)
    ⟨confl, hc, rfl, by rw [he]; exact hf.1⟩
  have h2 := analyze_asserting (s.toSt (litsOf confl)) hinv
  rw [he, hl] at h2
  have h3 := analyze_not_stuck (s.toSt (litsOf confl))
    (by rw [he]; exact (noDupVars_iff _).2 h.trail.nodup) (by rw [he, hl]; exact hf.2)
  exact ⟨h3, fun a rest ha => ⟨h1.1 a rest ha, h2.1 a rest ha⟩,
    fun l hl' => ⟨h1.2 l hl', h2.2 l hl'⟩⟩

/-- **The hypotheses of `analyze_sound_pb`, literally, in every reachable state**: on the snapshot
    of a state reached by operations whose antecedents and facts are entailed by `p`, `trailInv`
    holds, every antecedent is the literal list of an entailed constraint that `pbExplains` its
    literal under the earlier trail (`hR`), and the reason-less literals of the level that are not
    first of their level are entailed facts (`hF`). -/
theorem reachable_analyze_hyps (p : Problem) {ops : List Op} {s : State} (confl : List Int)
    (hrun : run empty ops = some s) (hops : ∀ o ∈ ops, OpOk (Entails p) o) :
    trailInv (s.toSt confl).entries (s.toSt confl).lvl = true ∧
    (∀ pre e post r, (s.toSt confl).entries = pre ++ e :: post → e.reason = some r →
      ∃ c : Lin, Entails p c ∧ c.terms.map (·.2) = r ∧
        pbExplains (isFalse pre) [e.lit] c = true) ∧
    (∀ pre e post, (s.toSt confl).entries = pre ++ e :: post → e.reason = none →
      e.assumed = false → e.lvl = (s.toSt confl).lvl → (∃ x ∈ pre, x.lvl = (s.toSt confl).lvl) →
      Entails p (Lin.ofClause [e.lit])) := by
  have h := reachable_invPb hrun
  have hs := run_preserves_sourced ops init_invPb empty_sourced hops hrun
  have he := entries_toSt s confl
  have hl : (s.toSt confl).lvl = s.lvl := rfl
  rw [he, hl]
  exact ⟨(trailInv_iff _ _).2 h.trail, inv_hR p h hs, inv_hF p h hs⟩

/-- **Conflict analysis is sound in every reachable conflict state of the extended machine.**
    `ops` is any operation sequence the machine accepts from the empty trail (clause and
    cardinality / PB propagations mixed); the constraints it installs as antecedents and the facts
    it adds are entailed by the problem `p`; `confl` is a constraint entailed by `p` that the trail
    violates at the current level (`falsifiedPb`).  Then the answer of the mirror of `learnClause`
    is entailed by `p`, asserting, and not `stuck`.  No hypothesis on the state is left. -/
theorem reachable_analyze_sound_pb (p : Problem) {ops : List Op} {s : State} {confl : Lin}
    (hrun : run empty ops = some s) (hops : ∀ o ∈ ops, OpOk (Entails p) o)
    (hf : falsifiedPb s confl = true) (hc : Entails p confl) :
    AnalysisOkPb p s.ents s.lvl (s.toSt (litsOf confl)) :=
  inv_analyze_sound_pb p (reachable_invPb hrun)
    (run_preserves_sourced ops init_invPb empty_sourced hops hrun) hf hc

/-- The same from `New`'s trail `init units`, under the guard `unitsOk`. -/
theorem reachable_analyze_sound_pb_partial (p : Problem) {units : List Int} {ops : List Op}
    {s : State} {confl : Lin} (hu : GS.Trail.unitsOk units = true)
    (hrun : run (init units) ops = some s)
    (hunits : ∀ u ∈ units, Entails p (Lin.ofClause [u]))
    (hops : ∀ o ∈ ops, OpOk (Entails p) o)
    (hf : falsifiedPb s confl = true) (hc : Entails p confl) :
    AnalysisOkPb p s.ents s.lvl (s.toSt (litsOf confl)) :=
  inv_analyze_sound_pb p (reachable_invPb_partial hu hrun)
    (run_preserves_sourced ops (init_units_invPb_partial hu) (init_sourced hunits) hops hrun) hf hc

/-- A clause falsified in the sense of `GS.Trail.falsified` is a violated constraint in the sense
    of `falsifiedPb`. -/
theorem falsified_clause {s : State} {confl : List Int}
    (hf : GS.Trail.falsified s.toTrail confl = true) :
    falsifiedPb s (Lin.ofClause confl) = true := by
  have hok := GS.Trail.conflict_ok hf
  obtain ⟨hall, _, _⟩ := (GS.Trail.falsified_iff _ _).1 hf
  unfold falsifiedPb
  rw [Bool.and_eq_true, litsOf_ofClause]
  refine ⟨?_, hok⟩
  unfold pbExplains
  simp only [Bool.and_eq_true, List.all_eq_true, decide_eq_true_eq]
  constructor
  · intro t ht
    obtain ⟨x, _, rfl⟩ := List.mem_map.1 ht
    show (0 : Int) ≤ 1
    decide
  · have hs := slack_ofClause (isFalse s.ents) [] confl
    exact hs.2.2 (fun f hf' => Or.inl (hall f hf'))


/-! ### semantic meaning of the invariant -/

theorem noReason_cases {s : State} {e : PEntry} (he : e ∈ s.es) (hr : e.reason = none) :
    e.lit ∈ facts s ∨ e.lit ∈ decisions s ∨ e.lit ∈ assumptions s := by
  cases ha : e.assumed with
  | true =>
    right; right
    exact List.mem_map.2 ⟨e, List.mem_filter.2 ⟨he, by simp [hr, ha]⟩, rfl⟩
  | false =>
    by_cases hl : 2 ≤ e.lvl
    · right; left
      exact List.mem_map.2 ⟨e, List.mem_filter.2 ⟨he, by simp [hr, ha, hl]⟩, rfl⟩
    · left
      exact List.mem_map.2 ⟨e, List.mem_filter.2 ⟨he, by simp [hr, ha]; omega⟩, rfl⟩

/-- In a state meeting the invariant, an assignment that satisfies the constraints used as
    antecedents, the facts, the decisions and the assumptions makes every trail literal true. -/
theorem inv_entailed_pb {s : State} (h : InvPb s) (A : Asg)
    (hR : ∀ c ∈ reasonConstrs s, c.holds A = true)
    (hF : ∀ l ∈ facts s, litTrue A l = true)
    (hD : ∀ l ∈ decisions s, litTrue A l = true)
    (hAs : ∀ l ∈ assumptions s, litTrue A l = true) :
    ∀ e ∈ s.es, litTrue A e.lit = true := by
  have main : ∀ (n : Nat) (pre post : List PEntry), s.es = pre ++ post → pre.length = n →
      ∀ e ∈ pre, litTrue A e.lit = true := by
    intro n
    induction n with
    | zero =>
      intro pre post _ hlen e he
      have : pre = [] := List.eq_nil_of_length_eq_zero hlen
      subst this; cases he
    | succ n ih =>
      intro pre post hsp hlen e he
      rcases List.eq_nil_or_concat pre with rfl | ⟨pre', x, rfl⟩
      · cases he
      · rw [List.concat_eq_append] at hsp hlen he
        have hsp' : s.es = pre' ++ x :: post := by rw [hsp]; simp
        have hlen' : pre'.length = n := by simpa using hlen
        have ihp := ih pre' (x :: post) hsp' hlen'
        rw [List.mem_append, List.mem_singleton] at he
        rcases he with he | rfl
        · exact ihp e he
        · have hes : e ∈ s.es := by rw [hsp']; simp
          cases hr : e.reason with
          | none =>
            rcases noReason_cases hes hr with h1 | h1 | h1
            · exact hF _ h1
            · exact hD _ h1
            · exact hAs _ h1
          | some c =>
            have hct := hR c (List.mem_filterMap.2 ⟨e, hes, hr⟩)
            have hex := (h.reasons pre' e post c hsp' hr).2
            have hcl := pb_explains_sound A _ _ c hex hct
            rw [clauseTrue_iff] at hcl
            obtain ⟨f, hf, hft⟩ := hcl
            rw [List.mem_append, List.mem_singleton] at hf
            rcases hf with rfl | hf
            · exact hft
            · have hfalse := (List.mem_filter.1 hf).2
              obtain ⟨y, hy, hyl⟩ := (isFalse_iff _ _).1 hfalse
              obtain ⟨y', hy', rfl⟩ := List.mem_map.1 hy
              have hyen : y'.toEntry ∈ s.ents :=
                List.mem_map.2 ⟨y', by rw [hsp']; simp [hy'], rfl⟩
              have hy0 : y'.toEntry.lit ≠ 0 := h.trail.nonzero _ hyen
              have hf0 : f ≠ 0 := by omega
              have hyt : litTrue A y'.toEntry.lit = true := ihp y' hy'
              have := litTrue_neg_false hf0 (by rw [← hyl]; exact hyt)
              rw [this] at hft; cases hft
  exact main s.es.length s.es [] (by simp) rfl

/-- **Every trail literal of a reachable state is entailed** by the constraints used as
    antecedents, the facts, the decisions made so far (and the assumptions). -/
theorem reachable_entailed {ops : List Op} {s : State} (hrun : run empty ops = some s) (A : Asg)
    (hR : ∀ c ∈ reasonConstrs s, c.holds A = true)
    (hF : ∀ l ∈ facts s, litTrue A l = true)
    (hD : ∀ l ∈ decisions s, litTrue A l = true)
    (hAs : ∀ l ∈ assumptions s, litTrue A l = true) :
    ∀ e ∈ s.es, litTrue A e.lit = true :=
  inv_entailed_pb (reachable_invPb hrun) A hR hF hD hAs

theorem holds_unit (A : Asg) (l : Int) : (Lin.ofClause [l]).holds A = litTrue A l := by
  rw [ofClause_holds]; simp [clauseTrue]

/-- The same against a problem: when the antecedents installed and the facts added by `ops` are
    entailed by `p`, every trail literal follows from `p`, the decisions and the assumptions. -/
theorem reachable_entailed_pb (p : Problem) {ops : List Op} {s : State}
    (hrun : run empty ops = some s) (hops : ∀ o ∈ ops, OpOk (Entails p) o) :
    ∀ e ∈ s.es, Entails (p ++ (decisions s ++ assumptions s).map (fun l => Lin.ofClause [l]))
      (Lin.ofClause [e.lit]) := by
  intro e he A hA
  have hi := reachable_invPb hrun
  have hs : SourcedPb (Entails p) s := run_preserves_sourced ops init_invPb empty_sourced hops hrun
  simp only [Problem.holds, List.all_append, Bool.and_eq_true, List.all_eq_true, List.mem_map,
    List.mem_append, forall_exists_index, and_imp] at hA
  have hdb : Problem.holds A p = true := by
    simp only [Problem.holds, List.all_eq_true]; exact hA.1
  have hunit : ∀ l, l ∈ decisions s ∨ l ∈ assumptions s → litTrue A l = true := by
    intro l hl
    have := hA.2 (Lin.ofClause [l]) l hl rfl
    rwa [holds_unit] at this
  have := inv_entailed_pb hi A
    (fun c hc => by
      obtain ⟨x, hx, hxr⟩ := List.mem_filterMap.1 hc
      exact hs.reasons x hx c hxr A hdb)
    (fun l hl => by
      obtain ⟨x, hx, rfl⟩ := List.mem_map.1 hl
      obtain ⟨hx1, hx2⟩ := List.mem_filter.1 hx
      simp only [Bool.and_eq_true, Option.isNone_iff_eq_none, Bool.not_eq_true',
        decide_eq_true_eq] at hx2
      have h1 := hi.lvls_pos x.toEntry (List.mem_map.2 ⟨x, hx1, rfl⟩)
      have := hs.facts x hx1 hx2.1.1 hx2.1.2 (by change 1 ≤ x.lvl at h1; omega) A hdb
      rwa [holds_unit] at this)
    (fun l hl => hunit l (Or.inl hl)) (fun l hl => hunit l (Or.inr hl)) e he
  rw [holds_unit]; exact this

/-! ### concrete runs (non-vacuity) -/

theorem entails_of_mem {p : Problem} {c : Lin} (h : c ∈ p) : Entails p c := by
  intro A hA
  unfold Problem.holds at hA
  exact List.all_eq_true.1 hA c h

theorem opsFrom_ok {p : Problem} {ops : List Op} (h : opsFrom p ops = true) :
    ∀ o ∈ ops, OpOk (Entails p) o := by
  intro o ho
  have := List.all_eq_true.1 h o ho
  cases o <;> simp only [opConstr, List.contains_iff_mem] at this <;>
    first | exact entails_of_mem this | trivial

/-- "At least 2 of `5, 6, ¬1`": after the decision `1` the cardinality constraint propagates `5`,
    then `6` … -/
def exCard : Lin := Lin.ofCard [5, 6, -1] 2

def exOps1 : List Op := [.decide 1, .propagatePb 5 exCard, .propagatePb 6 exCard]

def exState1 : State :=
  { lvl := 2, es := [⟨1, 2, false, none⟩, ⟨5, 2, false, some exCard⟩, ⟨6, 2, false, some exCard⟩] }

/-- … and the clause `¬5 ∨ ¬6 ∨ ¬1` is falsified; the analysis learns the unit `¬1`. -/
def exP1 : Problem := [exCard, Lin.ofClause [-5, -6, -1]]

example : run empty exOps1 = some exState1 := by decide
example : invPbB exState1 = true := by decide
example : falsifiedPb exState1 (Lin.ofClause [-5, -6, -1]) = true := by decide
example : analyze (exState1.toSt [-5, -6, -1]) = .unit (-1) := by decide
example : opsFrom exP1 exOps1 = true := by decide
example : goCardTest [⟨1, 2, false, none⟩] 5 exCard = true := by decide
example : goCardTest [⟨1, 2, false, none⟩, ⟨5, 2, false, some [5, 6, -1]⟩] 6 exCard = true := by
  decide

/-- `reachable_analyze_sound_pb` on this run: the learned unit follows from the two constraints. -/
example : Entails exP1 (Lin.ofClause [-1]) :=
  ((reachable_analyze_sound_pb exP1 (ops := exOps1) (s := exState1)
    (confl := Lin.ofClause [-5, -6, -1]) (by decide) (opsFrom_ok (by decide)) (by decide)
    (entails_of_mem (by decide))).2.2 (-1) (by decide)).1

/-- `reachable_entailed_pb` on this run: `6` follows from the constraints and the decision `1`. -/
example : Entails (exP1 ++ [Lin.ofClause [1]]) (Lin.ofClause [6]) :=
  reachable_entailed_pb exP1 (ops := exOps1) (s := exState1) (by decide) (opsFrom_ok (by decide))
    ⟨6, 2, false, some exCard⟩ (by decide)

/-- A longer run mixing a fact, two decisions, a cardinality antecedent (twice), a clause
    antecedent, and a **weighted conflict** `2·¬4 + ¬3 + ¬6 + 8 ≥ 3` (only `8` is not false: slack
    `1 − 3 < 0`).  `learnClause` uses its false literals `¬4`, `¬3` (level 3) and `¬6` (level 2),
    resolves on `4`, `3`, `2` (the cardinality antecedent contributes its false literal `¬1`
    only) and stops at the first UIP `1`. -/
def exCard2 : Lin := Lin.ofCard [2, 3, -1] 2
def exPbConfl : Lin := ⟨[(2, -4), (1, -3), (1, -6), (1, 8)], 3⟩

def exOps2 : List Op :=
  [.addFact 7, .decide 6, .decide 1, .propagatePb 2 exCard2, .propagatePb 3 exCard2,
   .propagate 4 [-2, -3, 4]]

def exState2 : State :=
  { lvl := 3,
    es := [⟨7, 1, false, none⟩, ⟨6, 2, false, none⟩, ⟨1, 3, false, none⟩,
           ⟨2, 3, false, some exCard2⟩, ⟨3, 3, false, some exCard2⟩,
           ⟨4, 3, false, some (Lin.ofClause [-2, -3, 4])⟩] }

def exP2 : Problem := [Lin.ofClause [7], exCard2, Lin.ofClause [-2, -3, 4], exPbConfl]

example : run empty exOps2 = some exState2 := by decide
example : invPbB exState2 = true := by decide
example : falsifiedPb exState2 exPbConfl = true := by decide
example : analyze (exState2.toSt (litsOf exPbConfl)) = .learned (-1) [-6] := by decide
example : opsFrom exP2 exOps2 = true := by decide

/-- The learned clause `¬1 ∨ ¬6` follows from the four constraints. -/
example : Entails exP2 (Lin.ofClause [-1, -6]) :=
  ((reachable_analyze_sound_pb exP2 (ops := exOps2) (s := exState2) (confl := exPbConfl)
    (by decide) (opsFrom_ok (by decide)) (by decide) (entails_of_mem (by decide))).2.1 (-1) [-6]
    (by decide)).1

/-- The run goes on: the learned clause is asserted after the backjump to level 2. -/
example : (step exState2 (.assertLearned (-1) [-1, -6] 2)).map (fun s => (s.lvl, s.ents.length)) =
    some (2, 3) := by decide

/-- A weighted antecedent: `3·1 + 2·2 + 2·3 ≥ 4`; once `1` is false, `2` and `3` are forced
    (`Weight(i) = 2 > slack = 4 − 4 = 0`: the `propagateAll` case of `simplifyPseudoBool`). -/
def exPb3 : Lin := ⟨[(3, 1), (2, 2), (2, 3)], 4⟩

example : (run empty [.decide (-1), .propagatePb 2 exPb3, .propagatePb 3 exPb3]).map
    (fun s => (invPbB s, falsifiedPb s (Lin.ofCard [-2, -3, 4] 2),
      analyze (s.toSt [-2, -3, 4]))) = some (true, true, .unit 1) := by decide
example : goPbTest [⟨-1, 2, false, none⟩] 2 exPb3 = true := by decide

/-- Guards: a literal that is not forced, or not in the constraint, or bound, is refused; so is a
    constraint with a negative weight. -/
example : run empty [.propagatePb 2 exPb3] = none := by decide
example : run empty [.decide (-1), .propagatePb 4 exPb3] = none := by decide
example : run empty [.decide (-1), .decide 2, .propagatePb 2 exPb3] = none := by decide
example : run empty [.propagatePb 1 ⟨[(1, 1), (-1, 2)], 1⟩] = none := by decide

/-- The guard asks for non-negative weights (as `pbExplains` and `pb_explains_sound` do, and as
    `GtEq` / `NewPBClause` guarantee: `GtEq` flips negative weights).  Without it the slack test is
    unsound: in `x1 − x2 ≥ 0` the weights of the non-false literals other than `x1` sum to
    `−1 < 0`, but the all-false assignment satisfies the constraint: `x1` is not forced. -/
example : slack (fun _ => false) [1] [(1, 1), (-1, 2)] < 0 := by decide
example : (⟨[(1, 1), (-1, 2)], 0⟩ : Lin).holds (fun _ => false) = true := by decide
example : forcedPb [] 1 ⟨[(1, 1), (-1, 2)], 0⟩ = false := by decide

/-- `falsifiedPb` asks for pairwise distinct false literals (as `conflOk` does): on a constraint
    that repeats a false literal of the current level `nbLvl` over-counts and the walk runs off the
    trail (`s.trail[-1]` in Go), although the state meets the invariant.  `ParsePBConstrs` does
    not merge repeated literals, so such a conflict can be met in a real run. -/
example : (run empty [.decide 1]).map (fun s => (invPbB s,
    falsifiedPb s ⟨[(1, -1), (2, -1), (3, -1)], 1⟩, analyze (s.toSt [-1, -1, -1]))) =
    some (true, false, .stuck) := by decide

/-- Assumptions: the walk stops at an assumed variable (`topLevel`). -/
example : (run empty [.assume 1, .assume 4, .propagatePb 2 exCard2, .propagatePb 3 exCard2]).map
    (fun s => (invPbB s, falsifiedPb s (Lin.ofClause [-2, -3, -4]),
      analyze (s.toSt [-2, -3, -4]))) = some (true, true, .topLevel) := by decide

/-- `propagate l c` and `propagatePb l (ofClause c)` give the same state. -/
example : run empty [.decide 1, .propagate 2 [-1, 2]] =
    run empty [.decide 1, .propagatePb 2 (Lin.ofClause [-1, 2])] := by decide

end GS.TrailPb

#print axioms GS.TrailPb.isUnit_eq_forcedPb
#print axioms GS.TrailPb.propagate_eq_propagatePb
#print axioms GS.TrailPb.goPbTest_forced
#print axioms GS.TrailPb.goCardTest_forced
#print axioms GS.TrailPb.step_preserves_invPb
#print axioms GS.TrailPb.init_invPb
#print axioms GS.TrailPb.init_units_invPb_partial
#print axioms GS.TrailPb.reachable_invPb
#print axioms GS.TrailPb.reachable_invPb_partial
#print axioms GS.TrailPb.invPbB_iff
#print axioms GS.TrailPb.step_toTrail
#print axioms GS.TrailPb.step_preserves_sourced
#print axioms GS.TrailPb.inv_analyze_sound_pb
#print axioms GS.TrailPb.reachable_analyze_hyps
#print axioms GS.TrailPb.reachable_analyze_sound_pb
#print axioms GS.TrailPb.reachable_analyze_sound_pb_partial
#print axioms GS.TrailPb.falsified_clause
#print axioms GS.TrailPb.inv_entailed_pb
#print axioms GS.TrailPb.reachable_entailed
#print axioms GS.TrailPb.reachable_entailed_pb
