import GS.Props.C14_CpAnalyze
/-!
# C14 — `cuttingPlanes`: no panic, termination, asserting literal, progress

Follow-up of `GS.Props.C14_CpAnalyze` on the mirror `GS.Model.CpAnalyze`:

1. `cpAnalyze_fuel`: under `cpInv` and `decisionsOk` the mirror never answers `stuck` — the Go
   function neither indexes out of range, nor divides by zero, nor hits the `NewPBClause` panic, nor
   loops (the fuel `2 * len(trail) + 2` is never exhausted);
2. `cpAnalyze_asserting`: in the `learned c unit btLvl` case, after the backjump to `btLvl` the
   learned constraint propagates `unit`;
3. `cpAnalyze_progress`: in the `units ls` case one of the units is not already true at level 1 in
   the model at entry.
-/
namespace GS.Cp
open GS

/-! ## 0. Small facts -/

theorem varIdx_neg (l : Int) : varIdx (-l) = varIdx l := by
  unfold varIdx; rw [Int.natAbs_neg]

theorem iabs_zero : iabs 0 = 0 := by decide

theorem iabs_eq_zero {x : Int} (h : iabs x = 0) : x = 0 := by
  unfold iabs at h; split at h <;> omega

theorem falsifies_spec {ws : List Int} {l : Int} (h : falsifies ws l = true) :
    ws.getD (varIdx l) 0 ≠ 0 ∧ (ws.getD (varIdx l) 0 < 0 ↔ l > 0) := by
  unfold falsifies at h
  generalize ws.getD (varIdx l) 0 = w at h ⊢
  by_cases hw : w = 0
  · simp [hw] at h
  · simp only [hw, if_false, beq_iff_eq, decide_eq_decide] at h
    exact ⟨hw, h⟩

theorem falsifies_of {ws : List Int} {l : Int} (hw : ws.getD (varIdx l) 0 ≠ 0)
    (hs : ws.getD (varIdx l) 0 < 0 ↔ l > 0) : falsifies ws l = true := by
  unfold falsifies
  generalize ws.getD (varIdx l) 0 = w at hw hs ⊢
  simp only [hw, if_false, beq_iff_eq, decide_eq_decide]
  exact hs

theorem falsifies_zero {ws : List Int} {l : Int} (hw : ws.getD (varIdx l) 0 = 0) :
    falsifies ws l = false := by
  unfold falsifies
  generalize ws.getD (varIdx l) 0 = w at hw ⊢
  subst hw; simp

theorem roundToOne_isSome (p : PbSet) (m : List Int) (v : Nat) (h : p.weights.getD v 0 ≠ 0) :
    ∃ q, p.roundToOne m v = some q := by
  rw [roundToOne_eq]
  by_cases h1 : iabs (p.weights.getD v 0) = 1
  · exact ⟨p, by rw [if_pos h1]⟩
  · have h0 : iabs (p.weights.getD v 0) ≠ 0 := fun h' => h (iabs_eq_zero h')
    exact ⟨_, by rw [if_neg h1, if_neg h0]⟩

/-- `roundToOne` never flips a sign: a weight of the result has the sign of the original one -/
theorem round_sign (p q : PbSet) (m : List Int) (v : Nat) (hq : p.roundToOne m v = some q)
    (j : Nat) :
    (0 < q.weights.getD j 0 → 0 < p.weights.getD j 0) ∧
    (q.weights.getD j 0 < 0 → p.weights.getD j 0 < 0) := by
  rw [roundToOne_eq] at hq
  by_cases h1 : iabs (p.weights.getD v 0) = 1
  · rw [if_pos h1] at hq; cases hq; exact ⟨id, id⟩
  · rw [if_neg h1] at hq
    by_cases h0 : iabs (p.weights.getD v 0) = 0
    · rw [if_pos h0] at hq; cases hq
    · rw [if_neg h0] at hq
      cases hq
      have hpos : 0 < iabs (p.weights.getD v 0) := by
        have := iabs_nonneg (p.weights.getD v 0); omega
      simp only [PbSet.divideBy]
      rw [getD_map_divW, weakenFrom_getD]
      by_cases hc : weakenCond m (iabs (p.weights.getD v 0)) (0 + j) (p.weights.getD j 0)
      · rw [if_pos hc]
        have : divW (iabs (p.weights.getD v 0)) 0 = 0 := by simp [divW]
        rw [this]; constructor <;> intro h <;> omega
      · rw [if_neg hc]
        obtain ⟨hp, hn, hz⟩ := divW_spec (iabs (p.weights.getD v 0)) (p.weights.getD j 0) hpos
        rcases Int.lt_trichotomy (p.weights.getD j 0) 0 with hw | hw | hw
        · have := (hn hw).1; constructor <;> intro h <;> omega
        · have := hz hw; constructor <;> intro h <;> omega
        · have := (hp hw).1; constructor <;> intro h <;> omega

theorem round_nonzero (p q : PbSet) (m : List Int) (v : Nat) (hq : p.roundToOne m v = some q)
    (j : Nat) (h : q.weights.getD j 0 ≠ 0) : p.weights.getD j 0 ≠ 0 := by
  obtain ⟨h1, h2⟩ := round_sign p q m v hq j
  rcases Int.lt_trichotomy (q.weights.getD j 0) 0 with hw | hw | hw
  · have := h2 hw; omega
  · exact absurd hw h
  · have := h1 hw; omega

/-- the trail literal that falsifies `p` still falsifies the rounded `q`, when rounding on it -/
theorem round_falsifies (p q : PbSet) (m : List Int) (l : Int)
    (hq : p.roundToOne m (varIdx l) = some q) (hf : falsifies p.weights l = true) :
    falsifies q.weights l = true := by
  obtain ⟨_, hs⟩ := falsifies_spec hf
  have h1 := round_locked p q m _ hq
  obtain ⟨s1, s2⟩ := round_sign p q m _ hq (varIdx l)
  have hne : q.weights.getD (varIdx l) 0 ≠ 0 := by
    intro h; rw [h] at h1; exact absurd h1 (by decide)
  apply falsifies_of hne
  constructor
  · intro h; exact hs.mp (s2 h)
  · intro h
    have := hs.mpr h
    rcases Int.lt_trichotomy (q.weights.getD (varIdx l) 0) 0 with hw | hw | hw
    · exact hw
    · exact absurd hw hne
    · have := s1 hw; omega

theorem getD_zipWith_add (l1 l2 : List Int) (h : l1.length = l2.length) (i : Nat) :
    (List.zipWith (· + ·) l1 l2).getD i 0 = l1.getD i 0 + l2.getD i 0 := by
  induction l1 generalizing l2 i with
  | nil =>
    cases l2 with
    | nil => simp
    | cons _ _ => simp at h
  | cons a l1 ih =>
    cases l2 with
    | nil => simp at h
    | cons b l2 =>
      simp only [List.length_cons, Nat.add_right_cancel_iff] at h
      cases i with
      | zero => simp
      | succ i => simp only [List.zipWith_cons_cons, List.getD_cons_succ]; exact ih l2 h i

/-! ## 1. Looking variables up in the model of a trail -/

/-- distinct variables, all below `n` (what `modelOfR` needs; stable under `filter`) -/
def DistinctOk (n : Nat) : List Entry → Prop
  | [] => True
  | e :: rest => varIdx e.lit < n ∧ (∀ e' ∈ rest, varIdx e'.lit ≠ varIdx e.lit) ∧ DistinctOk n rest

theorem trailOk_distinct {n : Nat} {prob : List PbSet} :
    ∀ {rt : List Entry}, trailOk n prob rt = true → DistinctOk n rt
  | [], _ => trivial
  | _ :: _, h => by
    obtain ⟨he, hr⟩ := trailOk_cons h
    exact ⟨he.litn, he.dist, trailOk_distinct hr⟩

theorem DistinctOk.filter {n : Nat} (P : Entry → Bool) :
    ∀ {rt : List Entry}, DistinctOk n rt → DistinctOk n (rt.filter P)
  | [], _ => trivial
  | e :: rest, ⟨h1, h2, h3⟩ => by
    simp only [List.filter_cons]
    split
    · exact ⟨h1, fun e' he' => h2 e' (List.mem_filter.mp he').1, DistinctOk.filter P h3⟩
    · exact DistinctOk.filter P h3

theorem modelAt_mem {n : Nat} : ∀ {rt : List Entry}, DistinctOk n rt → ∀ e ∈ rt,
    modelAt (modelOfR n rt) (varIdx e.lit) = signedLvl e
  | [], _, e, he => by cases he
  | x :: rest, ⟨h1, h2, h3⟩, e, he => by
    simp only [modelOfR]
    rcases List.mem_cons.mp he with rfl | he
    · exact modelAt_set_self _ _ _ (by rw [modelOfR_length]; exact h1)
    · rw [modelAt_set_ne _ _ _ _ (h2 e he)]
      exact modelAt_mem h3 e he

theorem modelAt_lookup {n : Nat} {rt : List Entry} {j : Nat}
    (h : modelAt (modelOfR n rt) j ≠ 0) : ∃ e ∈ rt, varIdx e.lit = j := by
  apply Classical.byContradiction
  intro hn
  apply h
  apply modelOfR_notin
  intro e' he' hv
  exact hn ⟨e', he', hv⟩

theorem trailOk_suffix {n : Nat} {prob : List PbSet} :
    ∀ (xs : List Entry) {ys : List Entry}, trailOk n prob (xs ++ ys) = true → trailOk n prob ys = true
  | [], _, h => h
  | _ :: xs, _, h => trailOk_suffix xs (trailOk_cons h).2

theorem trailOk_lev1 {n : Nat} {prob : List PbSet} :
    ∀ {rt : List Entry}, trailOk n prob rt = true → ∀ e ∈ rt, 1 ≤ e.level
  | [], _, e, he => by cases he
  | x :: rest, h, e, he => by
    obtain ⟨hx, hr⟩ := trailOk_cons h
    rcases List.mem_cons.mp he with rfl | he
    · exact hx.lev1
    · exact trailOk_lev1 hr e he

/-- levels do not increase when going down the trail -/
theorem trailOk_append_mono {n : Nat} {prob : List PbSet} :
    ∀ (xs : List Entry) {e : Entry} {rest : List Entry}, trailOk n prob (xs ++ e :: rest) = true →
      ∀ p ∈ xs, e.level ≤ p.level
  | [], _, _, _, p, hp => by cases hp
  | x :: xs, e, rest, h, p, hp => by
    obtain ⟨hx, hr⟩ := trailOk_cons h
    rcases List.mem_cons.mp hp with rfl | hp
    · exact hx.mono e (by simp)
    · exact trailOk_append_mono xs hr p hp

theorem decisionsOk_suffix : ∀ (xs : List Entry) {ys : List Entry},
    decisionsOk (xs ++ ys) = true → decisionsOk ys = true
  | [], _, h => h
  | _ :: xs, _, h => by
    simp only [List.cons_append, decisionsOk, Bool.and_eq_true] at h
    exact decisionsOk_suffix xs h.2

/-! ## 2. The walk finds a falsifying literal -/

theorem freeSum_eq_sumAbs (m : List Int) (k : Nat) (ws : List Int)
    (h : ∀ i, ws.getD i 0 = 0 ∨ nonFalsified m (k+i) (ws.getD i 0)) :
    freeSum m (fun _ => false) k ws = sumAbs ws := by
  induction ws generalizing k with
  | nil => rfl
  | cons w ws ih =>
    have ih' := ih (k+1) (by
      intro i
      have := h (i+1)
      rw [show k + (i+1) = k + 1 + i by omega] at this
      simpa using this)
    have h0 := h 0
    simp only [List.getD_cons_zero, Nat.add_zero] at h0
    rw [freeSum_cons, ih']
    simp only [sumAbs]
    congr 1
    unfold fs1
    rcases h0 with h0 | h0
    · subst h0; simp [iabs_zero]
    · rw [if_pos ⟨rfl, h0⟩]

/-- a conflicting, not infeasible resolvent is falsified by some literal of the remaining trail -/
theorem exists_falsifier {n : Nat} {prob : List PbSet} {pb : PbSet} {lvl : Int} {m : List Int}
    {rt : List Entry} (I : LoopInv n prob pb lvl m rt) (hinf : ¬ infeasible pb = true) :
    ∃ e ∈ rt, falsifies pb.weights e.lit = true := by
  apply Classical.byContradiction
  intro hn
  have hall : ∀ i, pb.weights.getD i 0 = 0 ∨ nonFalsified m (0+i) (pb.weights.getD i 0) := by
    intro i
    rw [Nat.zero_add]
    by_cases hw : pb.weights.getD i 0 = 0
    · exact Or.inl hw
    · right
      by_cases hm : modelAt m i = 0
      · exact Or.inl hm
      · rw [I.model] at hm
        obtain ⟨e, he, hv⟩ := modelAt_lookup hm
        have hme := modelAt_mem (trailOk_distinct I.trail) e he
        have hf : falsifies pb.weights e.lit = false := by
          cases hfe : falsifies pb.weights e.lit with
          | false => rfl
          | true => exact absurd ⟨e, he, hfe⟩ hn
        have := notFalsifies_nonFalsified pb.weights m e (trailOk_lev1 I.trail e he)
          (by rw [I.model]; exact hme) hf
        rw [hv] at this
        rcases this with h | h
        · exact absurd h hw
        · exact h
  have h1 := freeSum_eq_sumAbs m 0 pb.weights hall
  have h2 := I.confl
  unfold infeasible at hinf
  simp only [decide_eq_true_eq] at hinf
  omega

theorem walk_some (ws : List Int) : ∀ (rt : List Entry) (lvl : Int) (m : List Int),
    (∃ e ∈ rt, falsifies ws e.lit = true) → ∃ r, walk ws lvl m rt = some r
  | [], _, _, ⟨e, he, _⟩ => by cases he
  | x :: rest, lvl, m, ⟨e, he, hf⟩ => by
    by_cases hx : falsifies ws x.lit = true
    · exact ⟨(lvl, m, x :: rest), by simp only [walk, hx, if_true]⟩
    · simp only [walk, hx]
      rcases List.mem_cons.mp he with rfl | he
      · exact absurd hf hx
      · exact walk_some ws rest _ _ ⟨e, he, hf⟩

/-- the walk passes a prefix of the remaining trail, none of whose literals falsifies `ws` -/
theorem walk_split (ws : List Int) : ∀ (rt : List Entry) (lvl : Int) (m : List Int) (lvl' : Int)
    (m' : List Int) (rt' : List Entry), walk ws lvl m rt = some (lvl', m', rt') →
    ∃ pass, rt = pass ++ rt' ∧ ∀ x ∈ pass, falsifies ws x.lit = false
  | [], _, _, _, _, _, h => by simp [walk] at h
  | x :: rest, lvl, m, lvl', m', rt', h => by
    by_cases hx : falsifies ws x.lit = true
    · simp only [walk, hx, if_true, Option.some.injEq, Prod.mk.injEq] at h
      obtain ⟨_, _, rfl⟩ := h
      exact ⟨[], rfl, by intro _ h; cases h⟩
    · simp only [walk, hx] at h
      obtain ⟨pass, hp, hall⟩ := walk_split ws rest _ _ _ _ _ h
      refine ⟨x :: pass, by rw [hp]; rfl, ?_⟩
      intro y hy
      rcases List.mem_cons.mp hy with rfl | hy
      · simpa using hx
      · exact hall y hy

/-! ## 3. `onlyFalsified` -/

/-- once the next trail literal is out of level `lvl`, the scan returns its accumulator -/
theorem onlyFalsifiedAux_stop (ws m : List Int) (lvl : Int) (res : Option Int) (rt : List Entry)
    (h : ∀ x ∈ rt, iabs (modelAt m (varIdx x.lit)) ≠ lvl) : onlyFalsifiedAux ws m lvl res rt = res := by
  cases rt with
  | nil => rfl
  | cons x rest => simp only [onlyFalsifiedAux, h x (by simp), ne_eq, not_false_eq_true, if_true]

/-- the literal returned by `onlyFalsified` is a trail literal of level `lvl` that falsifies `ws` -/
theorem onlyFalsifiedAux_some (ws m : List Int) (lvl : Int) :
    ∀ (rt : List Entry) (res : Option Int) (l : Int), onlyFalsifiedAux ws m lvl res rt = some l →
      res = some l ∨ ∃ e ∈ rt, e.lit = l ∧ falsifies ws e.lit = true ∧
        iabs (modelAt m (varIdx e.lit)) = lvl
  | [], res, l, h => Or.inl h
  | x :: rest, res, l, h => by
    simp only [onlyFalsifiedAux] at h
    by_cases h1 : iabs (modelAt m (varIdx x.lit)) ≠ lvl
    · rw [if_pos h1] at h; exact Or.inl h
    · rw [if_neg h1] at h
      by_cases h2 : falsifies ws x.lit = true
      · rw [if_pos h2] at h
        cases res with
        | some r => cases h
        | none =>
          simp only [] at h
          rcases onlyFalsifiedAux_some ws m lvl rest _ l h with h' | ⟨e, he, h3⟩
          · cases h'
            exact Or.inr ⟨x, by simp, rfl, h2, by simpa using h1⟩
          · exact Or.inr ⟨e, by simp [he], h3⟩
      · rw [if_neg h2] at h
        rcases onlyFalsifiedAux_some ws m lvl rest _ l h with h' | ⟨e, he, h3⟩
        · exact Or.inl h'
        · exact Or.inr ⟨e, by simp [he], h3⟩

theorem onlyFalsified_some {ws m : List Int} {lvl : Int} {rt : List Entry} {l : Int}
    (h : onlyFalsified ws m rt lvl = some l) :
    ∃ e ∈ rt, e.lit = l ∧ falsifies ws e.lit = true ∧ iabs (modelAt m (varIdx e.lit)) = lvl := by
  rcases onlyFalsifiedAux_some ws m lvl rt none l h with h' | h'
  · cases h'
  · exact h'

/-! ## 4. Inversion of `step` -/

theorem step_next_inv {n : Nat} {pb : PbSet} {lvl : Int} {m : List Int} {rt : List Entry}
    {pb' : PbSet} {lvl' : Int} {m' : List Int} {rt' : List Entry}
    (h : step n pb lvl m rt = .next pb' lvl' m' rt') :
    ∃ lw e rest pb1, onlyFalsified pb.weights m rt lvl = none ∧
      walk pb.weights lvl m rt = some (lw, m', e :: rest) ∧ rt' = e :: rest ∧
      lvl' = iabs (modelAt m' (varIdx e.lit)) ∧ pb.roundToOne m' (varIdx e.lit) = some pb1 ∧
      ((e.reason = none ∧ pb' = pb1) ∨
       ∃ r pb2, e.reason = some r ∧ (pbOf n r).roundToOne m' (varIdx e.lit) = some pb2 ∧
         pb' = pb1.clash pb2) := by
  unfold step at h
  split at h
  · cases h
  · rename_i hof
    split at h
    · cases h
    · split at h
      · cases h
      · split at h
        · cases h
        · cases h
        · rename_i lw m1 e rest hwalk
          split at h
          · rename_i hreason
            simp only [] at h
            split at h
            · cases h
            · rename_i pb1 hr1
              simp only [Step.next.injEq] at h
              obtain ⟨h1, h2, h3, h4⟩ := h
              subst h1 h2 h3 h4
              exact ⟨lw, e, rest, pb1, hof, hwalk, rfl, rfl, hr1, Or.inl ⟨hreason, rfl⟩⟩
          · rename_i r hreason
            simp only [] at h
            split at h
            · cases h
            · rename_i pb1 hr1
              split at h
              · cases h
              · rename_i pb2 hr2
                simp only [Step.next.injEq] at h
                obtain ⟨h1, h2, h3, h4⟩ := h
                subst h1 h2 h3 h4
                exact ⟨lw, e, rest, pb1, hof, hwalk, rfl, rfl, hr1, Or.inr ⟨r, pb2, hreason, hr2, rfl⟩⟩

theorem step_done_inv {n : Nat} {pb : PbSet} {lvl : Int} {m : List Int} {rt : List Entry} {o : Out}
    (h : step n pb lvl m rt = .done o) :
    (∃ l, onlyFalsified pb.weights m rt lvl = some l ∧ o = finish pb m l) ∨
    o = ⟨.unsat, none⟩ ∨
    (¬ infeasible pb = true ∧
      (walk pb.weights lvl m rt = none ∨ (∃ a b, walk pb.weights lvl m rt = some (a, b, [])) ∨
       ∃ lw m1 e rest, walk pb.weights lvl m rt = some (lw, m1, e :: rest) ∧
        (pb.roundToOne m1 (varIdx e.lit) = none ∨
          ∃ r, e.reason = some r ∧ (pbOf n r).roundToOne m1 (varIdx e.lit) = none))) := by
  unfold step at h
  split at h
  · rename_i l hl
    cases h
    exact Or.inl ⟨l, hl, rfl⟩
  · right
    split at h
    · cases h; exact Or.inl rfl
    · split at h
      · cases h; exact Or.inl rfl
      · rename_i hinf
        right
        refine ⟨hinf, ?_⟩
        split at h
        · rename_i hw; exact Or.inl hw
        · rename_i a b hw; exact Or.inr (Or.inl ⟨a, b, hw⟩)
        · rename_i lw m1 e rest hwalk
          right; right
          refine ⟨lw, m1, e, rest, hwalk, ?_⟩
          split at h
          · simp only [] at h
            split at h
            · rename_i hr1; exact Or.inl hr1
            · cases h
          · rename_i r hreason
            simp only [] at h
            split at h
            · rename_i hr1; exact Or.inl hr1
            · split at h
              · rename_i hr2; exact Or.inr ⟨r, hreason, hr2⟩
              · cases h


/-! ## 5. No panic -/

/-- `finish` never gets stuck on a conflicting resolvent and a literal that falsifies it -/
theorem finish_ok (pb : PbSet) (m : List Int) (l : Int)
    (hc : freeSum m (fun _ => false) 0 pb.weights < pb.card)
    (hf : falsifies pb.weights l = true) : ∀ w, (finish pb m l).res ≠ .stuck w := by
  obtain ⟨hw, _⟩ := falsifies_spec hf
  obtain ⟨q, hq⟩ := roundToOne_isSome pb m (varIdx (-l)) (by rw [varIdx_neg]; exact hw)
  have hcq := round_conflict pb q m _ hc hq
  have hcard : ¬ q.card < 1 := by
    have := freeSum_nonneg m (fun _ => false) 0 q.weights; omega
  intro w
  unfold finish
  simp only [hq, hcard, if_false]
  split
  · intro h; cases h
  · rename_i hp; exact absurd hp (simplify_no_panic _ _)
  · split
    · intro h; cases h
    · split <;> (intro h; cases h)

theorem step_done_ok {n : Nat} {prob : List PbSet} {pb : PbSet} {lvl : Int} {m : List Int}
    {rt : List Entry} {o : Out} (I : LoopInv n prob pb lvl m rt)
    (h : step n pb lvl m rt = .done o) : ∀ w, o.res ≠ .stuck w := by
  rcases step_done_inv h with ⟨l, hl, rfl⟩ | rfl | ⟨hinf, hbad⟩
  · obtain ⟨e, _, rfl, hf, _⟩ := onlyFalsified_some hl
    exact finish_ok pb m _ I.confl hf
  · intro w h; cases h
  · exfalso
    obtain ⟨r, hr⟩ := walk_some pb.weights rt lvl m (exists_falsifier I hinf)
    rcases hbad with hw | ⟨a, b, hw⟩ | ⟨lw, m1, e, rest, hw, hround⟩
    · rw [hw] at hr; cases hr
    · obtain ⟨_, _, _, ⟨e, rest, he, _⟩, _⟩ := walk_spec n prob pb.weights rt _ _ _ _ _ I.trail I.model hw
      cases he
    · obtain ⟨htr, _, _, ⟨e', rest', he', hf⟩, _⟩ :=
        walk_spec n prob pb.weights rt _ _ _ _ _ I.trail I.model hw
      cases he'
      rcases hround with h1 | ⟨r', hr', h2⟩
      · obtain ⟨q, hq⟩ := roundToOne_isSome pb m1 (varIdx e.lit) (falsifies_spec hf).1
        rw [hq] at h1; cases h1
      · obtain ⟨he, _⟩ := trailOk_cons htr
        obtain ⟨q, hq⟩ := roundToOne_isSome (pbOf n r') m1 (varIdx e.lit) (he.rsign r' hr').1
        rw [hq] at h2; cases h2

/-! ## 6. Termination -/

def headFals (ws : List Int) : List Entry → Nat
  | [] => 0
  | e :: _ => if falsifies ws e.lit then 1 else 0

/-- the measure: two iterations per remaining trail literal, one less once the literal on top
    has been eliminated from the resolvent -/
def mu (pb : PbSet) (rt : List Entry) : Nat := 2 * rt.length + headFals pb.weights rt

theorem step_next_progress {n : Nat} {prob : List PbSet} {pb : PbSet} {lvl : Int} {m : List Int}
    {rt : List Entry} {pb' : PbSet} {lvl' : Int} {m' : List Int} {rt' : List Entry}
    (I : LoopInv n prob pb lvl m rt) (hd : decisionsOk rt = true)
    (h : step n pb lvl m rt = .next pb' lvl' m' rt') :
    decisionsOk rt' = true ∧ 2 ≤ mu pb rt ∧
      (mu pb' rt' < mu pb rt ∨ ∃ o, step n pb' lvl' m' rt' = .done o) := by
  obtain ⟨lw, e, rest, pb1, hof, hwalk, rfl, rfl, hr1, hcase⟩ := step_next_inv h
  obtain ⟨htr, hm', _, ⟨e', rest', he', hf⟩, _⟩ :=
    walk_spec n prob pb.weights rt _ _ _ _ _ I.trail I.model hwalk
  cases he'
  obtain ⟨pass, hsplit, _⟩ := walk_split pb.weights rt _ _ _ _ _ hwalk
  have hd' : decisionsOk (e :: rest) = true := by rw [hsplit] at hd; exact decisionsOk_suffix pass hd
  have hmu2 : 2 ≤ mu pb rt := by
    unfold mu; rw [hsplit]; simp only [List.length_append, List.length_cons]; omega
  refine ⟨hd', hmu2, ?_⟩
  obtain ⟨he, _⟩ := trailOk_cons htr
  have hdist := trailOk_distinct htr
  have hf1 := round_falsifies pb pb1 m' e.lit hr1 hf
  rcases hcase with ⟨hreason, rfl⟩ | ⟨r, pb2, hreason, hr2, rfl⟩
  · -- reason-less literal: the next evaluation of the loop test ends the loop
    right
    cases hof' : onlyFalsified pb'.weights m' (e :: rest) (iabs (modelAt m' (varIdx e.lit))) with
    | some l => exact ⟨_, by unfold step; rw [hof']⟩
    | none =>
      by_cases hl1 : e.level = 1
      · have hme := modelAt_mem hdist e (by simp)
        rw [← hm'] at hme
        have : iabs (modelAt m' (varIdx e.lit)) = 1 := by rw [hme, iabs_signedLvl, hl1]; rfl
        exact ⟨⟨.unsat, none⟩, by unfold step; rw [hof']; simp only [this, if_true]⟩
      · exfalso
        simp only [decisionsOk, hreason, Option.isNone_none, true_and, ne_eq, hl1, not_false_eq_true,
          if_true, Bool.and_eq_true, List.all_eq_true, decide_eq_true_eq] at hd'
        have hme := modelAt_mem hdist e (by simp)
        rw [← hm'] at hme
        have hstop : onlyFalsifiedAux pb'.weights m' (iabs (modelAt m' (varIdx e.lit))) (some e.lit) rest
            = some e.lit := by
          apply onlyFalsifiedAux_stop
          intro x hx
          have hmx := modelAt_mem hdist x (by simp [hx])
          rw [← hm'] at hmx
          rw [hmx, hme, iabs_signedLvl, iabs_signedLvl]
          have := hd'.1 x hx
          omega
        unfold onlyFalsified at hof'
        simp only [onlyFalsifiedAux, ne_eq, not_true_eq_false, if_false, hf1, if_true, hstop] at hof'
        cases hof'
  · -- resolution: the literal on top no longer occurs in the resolvent
    left
    have hl1 := derivable_length prob n I.width pb1
      (Derivable.round m' (varIdx e.lit) I.der
        (roundSafe_of_conflict pb m' _ (by
          have := (walk_spec n prob pb.weights rt _ _ _ _ _ I.trail I.model hwalk).2.2.1
          rw [this]; exact I.confl)) hr1)
    have hl2 : pb2.weights.length = n := by
      rw [roundToOne_length _ _ m' _ hr2]; exact pbOf_length n r
    have hz : (pb1.clash pb2).weights.getD (varIdx e.lit) 0 = 0 := by
      simp only [PbSet.clash]
      rw [getD_zipWith_add _ _ (by rw [hl1, hl2])]
      obtain ⟨_, hs1⟩ := falsifies_spec hf1
      have ha1 := round_locked pb pb1 m' _ hr1
      have ha2 := round_locked _ pb2 m' _ hr2
      obtain ⟨s1, s2⟩ := round_sign _ pb2 m' _ hr2 (varIdx e.lit)
      obtain ⟨_, hsr⟩ := he.rsign r hreason
      unfold iabs at ha1 ha2
      split at ha1 <;> split at ha2
      · exfalso
        have := s2 (by assumption); have := hs1.mp (by assumption); omega
      · omega
      · omega
      · exfalso
        have h2 : 0 < pb2.weights.getD (varIdx e.lit) 0 := by omega
        have := s1 h2; have := hsr.mp this
        have := hs1.mpr this; omega
    have hnf : headFals (pb1.clash pb2).weights (e :: rest) = 0 := by
      simp only [headFals, falsifies_zero hz]; rfl
    unfold mu
    rw [hnf, hsplit]
    simp only [List.length_append, List.length_cons]
    cases pass with
    | nil =>
      simp only [List.nil_append, headFals, hf, if_true, List.length_nil]; omega
    | cons p ps => simp only [List.length_cons]; omega

theorem loop_ok (n : Nat) (prob : List PbSet) :
    ∀ (fuel : Nat) (pb : PbSet) (lvl : Int) (m : List Int) (rt : List Entry),
      LoopInv n prob pb lvl m rt → decisionsOk rt = true → mu pb rt + 1 ≤ fuel →
      ∀ w, (loop n fuel pb lvl m rt).res ≠ .stuck w
  | 0, _, _, _, _, _, _, h => by omega
  | fuel+1, pb, lvl, m, rt, I, hd, hfuel => by
    unfold loop
    cases hs : step n pb lvl m rt with
    | done o => exact step_done_ok I hs
    | next pb' lvl' m' rt' =>
      simp only []
      have I' := step_next I hs
      obtain ⟨hd', hmu2, hprog⟩ := step_next_progress I hd hs
      rcases hprog with hlt | ⟨o, ho⟩
      · exact loop_ok n prob fuel _ _ _ _ I' hd' (by omega)
      · cases fuel with
        | zero => omega
        | succ f =>
          unfold loop
          rw [ho]
          exact step_done_ok I' ho

/-- **No panic, no loop.** On a state that meets `cpInv` and `decisionsOk`, `cuttingPlanes`
    does not index out of range, does not divide by zero, does not call `NewPBClause` with a
    degree below 1, and its outer loop ends within `2 * len(trail) + 2` evaluations of its test. -/
theorem cpAnalyze_fuel (prob : List PbSet) (s : State) (h : cpInv prob s = true)
    (hd : decisionsOk s.trail.reverse = true) : ∀ w, (cpAnalyze s).res ≠ .stuck w := by
  apply loop_ok s.n prob (fuelOf s) _ _ _ _ (cpInv_loopInv prob s h) hd
  unfold mu fuelOf
  have : headFals (pbOf s.n s.confl).weights s.trail.reverse ≤ 1 := by
    cases s.trail.reverse with
    | nil => simp [headFals]
    | cons e _ => simp only [headFals]; split <;> omega
  rw [List.length_reverse]; omega


/-! ## 7. The state in which the loop ends: what has been walked past -/

/-- `full` is the whole (reversed) trail at entry; the walk has passed a prefix of it, all of whose
    literals are at levels ≥ the current level -/
structure WalkInv (n : Nat) (prob : List PbSet) (full : List Entry) (lvl : Int) (rt : List Entry) :
    Prop where
  fullOk : trailOk n prob full = true
  passed : ∃ passed, full = passed ++ rt ∧ ∀ p ∈ passed, lvl ≤ (p.level : Int)

theorem step_next_walk {n : Nat} {prob : List PbSet} {full : List Entry} {pb : PbSet} {lvl : Int}
    {m : List Int} {rt : List Entry} {pb' : PbSet} {lvl' : Int} {m' : List Int} {rt' : List Entry}
    (I : LoopInv n prob pb lvl m rt) (W : WalkInv n prob full lvl rt)
    (h : step n pb lvl m rt = .next pb' lvl' m' rt') : WalkInv n prob full lvl' rt' := by
  obtain ⟨lw, e, rest, pb1, _, hwalk, rfl, rfl, _, _⟩ := step_next_inv h
  obtain ⟨htr, hm', _, _, _⟩ := walk_spec n prob pb.weights rt _ _ _ _ _ I.trail I.model hwalk
  obtain ⟨pass, hsplit, _⟩ := walk_split pb.weights rt _ _ _ _ _ hwalk
  obtain ⟨passed, hfull, _⟩ := W.passed
  refine ⟨W.fullOk, passed ++ pass, by rw [hfull, hsplit, List.append_assoc], ?_⟩
  intro p hp
  have hme := modelAt_mem (trailOk_distinct htr) e (by simp)
  rw [← hm'] at hme
  rw [hme, iabs_signedLvl]
  have hf := W.fullOk
  rw [hfull, hsplit, ← List.append_assoc] at hf
  exact Int.ofNat_le.mpr (trailOk_append_mono (passed ++ pass) hf p hp)

/-- when the answer carries a raw pbSet, it was produced by `finish` in a state that meets the
    invariants -/
theorem loop_finish (n : Nat) (prob : List PbSet) (full : List Entry) :
    ∀ (fuel : Nat) (pb : PbSet) (lvl : Int) (m : List Int) (rt : List Entry),
      LoopInv n prob pb lvl m rt → WalkInv n prob full lvl rt →
      (loop n fuel pb lvl m rt).raw ≠ none →
      ∃ pb' lvl' m' rt' l, LoopInv n prob pb' lvl' m' rt' ∧ WalkInv n prob full lvl' rt' ∧
        onlyFalsified pb'.weights m' rt' lvl' = some l ∧ loop n fuel pb lvl m rt = finish pb' m' l
  | 0, _, _, _, _, _, _, h => by exact absurd rfl h
  | fuel+1, pb, lvl, m, rt, I, W, h => by
    unfold loop at h ⊢
    cases hs : step n pb lvl m rt with
    | done o =>
      rw [hs] at h
      simp only [] at h ⊢
      rcases step_done hs with ⟨l, hl, rfl⟩ | ⟨hraw, _⟩
      · exact ⟨pb, lvl, m, rt, l, I, W, hl, rfl⟩
      · exact absurd hraw h
    | next pb' lvl' m' rt' =>
      rw [hs] at h
      simp only [] at h ⊢
      exact loop_finish n prob full fuel _ _ _ _ (step_next I hs) (step_next_walk I W hs) h

/-! ## 8. `onlyFalsified` returns the only falsified literal of its level -/

/-- the literals of level `lvl` come first -/
def PrefixLvl (L : Entry → Int) (lvl : Int) : List Entry → Prop
  | [] => True
  | y :: rest => (∀ b ∈ rest, L b = lvl → L y = lvl) ∧ PrefixLvl L lvl rest

theorem onlyFalsifiedAux_unique (ws m : List Int) (lvl : Int) :
    ∀ (rt : List Entry) (res : Option Int) (l : Int),
      PrefixLvl (fun x => iabs (modelAt m (varIdx x.lit))) lvl rt →
      onlyFalsifiedAux ws m lvl res rt = some l →
      ∀ x ∈ rt, iabs (modelAt m (varIdx x.lit)) = lvl → falsifies ws x.lit = true →
        res = none ∧ x.lit = l
  | [], _, _, _, _, x, hx, _, _ => by cases hx
  | y :: rest, res, l, ⟨hp1, hp2⟩, h, x, hx, hxl, hxf => by
    simp only [onlyFalsifiedAux] at h
    by_cases h1 : iabs (modelAt m (varIdx y.lit)) ≠ lvl
    · exfalso
      rcases List.mem_cons.mp hx with rfl | hx
      · exact h1 hxl
      · exact h1 (hp1 x hx hxl)
    · rw [if_neg h1] at h
      by_cases h2 : falsifies ws y.lit = true
      · rw [if_pos h2] at h
        cases res with
        | some r => cases h
        | none =>
          simp only [] at h
          have hyl : y.lit = l := by
            rcases onlyFalsifiedAux_some ws m lvl rest _ l h with h' | ⟨e, he, _, hef, hel⟩
            · cases h'; rfl
            · have := (onlyFalsifiedAux_unique ws m lvl rest _ l hp2 h e he hel hef).1
              cases this
          rcases List.mem_cons.mp hx with rfl | hx
          · exact ⟨rfl, hyl⟩
          · have := (onlyFalsifiedAux_unique ws m lvl rest _ l hp2 h x hx hxl hxf).1
            cases this
      · rw [if_neg h2] at h
        rcases List.mem_cons.mp hx with rfl | hx
        · exact absurd hxf h2
        · exact onlyFalsifiedAux_unique ws m lvl rest _ l hp2 h x hx hxl hxf

theorem prefixLvl_of_trail {n : Nat} {prob : List PbSet} {lvl : Int} {m : List Int} :
    ∀ (xs ys : List Entry), trailOk n prob (xs ++ ys) = true → m = modelOfR n (xs ++ ys) →
      (∀ e ∈ xs ++ ys, (e.level : Int) ≤ lvl) →
      PrefixLvl (fun x => iabs (modelAt m (varIdx x.lit))) lvl ys
  | _, [], _, _, _ => trivial
  | xs, y :: rest, hok, hm, hl => by
    refine ⟨?_, ?_⟩
    · intro b hb hbl
      have hd := trailOk_distinct hok
      have hy := modelAt_mem hd y (by simp)
      have hbm := modelAt_mem hd b (by simp [hb])
      rw [← hm] at hy hbm
      simp only [hy, hbm, iabs_signedLvl] at hbl ⊢
      have h1 := (trailOk_cons (trailOk_suffix xs hok)).1.mono b hb
      have h2 := hl y (by simp)
      omega
    · have : xs ++ y :: rest = (xs ++ [y]) ++ rest := by simp
      rw [this] at hok hm hl
      exact prefixLvl_of_trail (xs ++ [y]) rest hok hm hl

/-- at the end of the loop: the literal found is on the remaining trail at level `lvl`, falsifies
    the resolvent, and no other remaining trail literal of level `lvl` does -/
theorem onlyFalsified_spec {n : Nat} {prob : List PbSet} {pb : PbSet} {lvl : Int} {m : List Int}
    {rt : List Entry} {l : Int} (I : LoopInv n prob pb lvl m rt)
    (h : onlyFalsified pb.weights m rt lvl = some l) :
    (∃ e ∈ rt, e.lit = l ∧ falsifies pb.weights l = true ∧ (e.level : Int) = lvl) ∧
    ∀ x ∈ rt, (x.level : Int) = lvl → falsifies pb.weights x.lit = true → x.lit = l := by
  have hd := trailOk_distinct I.trail
  constructor
  · obtain ⟨e, he, rfl, hf, hl⟩ := onlyFalsified_some h
    refine ⟨e, he, rfl, hf, ?_⟩
    have := modelAt_mem hd e he
    rw [← I.model] at this
    rw [this, iabs_signedLvl] at hl
    exact hl
  · intro x hx hxl hxf
    have hp := prefixLvl_of_trail (n := n) (prob := prob) (lvl := lvl) (m := m) [] rt I.trail I.model I.lvls
    have hxm := modelAt_mem hd x hx
    rw [← I.model] at hxm
    exact (onlyFalsifiedAux_unique pb.weights m lvl rt none l hp h x hx
      (by rw [hxm, iabs_signedLvl]; exact hxl) hxf).2

/-! ## 9. `backtrackLevel` -/

theorem backtrackAux_spec (m : List Int) (v : Nat) (lvl : Int) :
    ∀ (ws : List Int) (k : Nat) (acc : Int),
      acc ≤ backtrackAux m v lvl k ws acc ∧
      (∀ i, ws.getD i 0 ≠ 0 → k + i ≠ v → iabs (modelAt m (k+i)) ≠ lvl →
        iabs (modelAt m (k+i)) ≤ backtrackAux m v lvl k ws acc) ∧
      (backtrackAux m v lvl k ws acc = acc ∨
        ∃ i, k + i ≠ v ∧ iabs (modelAt m (k+i)) = backtrackAux m v lvl k ws acc ∧
          backtrackAux m v lvl k ws acc ≠ lvl)
  | [], k, acc => ⟨Int.le_refl _, by intro i h; simp at h, Or.inl rfl⟩
  | w :: ws, k, acc => by
    simp only [backtrackAux]
    by_cases hc : w = 0 ∨ k = v
    · rw [if_pos hc]
      obtain ⟨h1, h2, h3⟩ := backtrackAux_spec m v lvl ws (k+1) acc
      refine ⟨h1, ?_, ?_⟩
      · intro i hi hv hl
        cases i with
        | zero =>
          simp only [List.getD_cons_zero, Nat.add_zero] at hi hv
          rcases hc with hc | hc
          · exact absurd hc hi
          · exact absurd hc hv
        | succ i =>
          simp only [List.getD_cons_succ] at hi
          have := h2 i hi (by omega) (by rw [show k + 1 + i = k + (i+1) by omega]; exact hl)
          rw [show k + 1 + i = k + (i+1) by omega] at this
          exact this
      · rcases h3 with h3 | ⟨i, hi1, hi2, hi3⟩
        · exact Or.inl h3
        · exact Or.inr ⟨i+1, by omega, by rw [show k + (i+1) = k + 1 + i by omega]; exact hi2, hi3⟩
    · rw [if_neg hc]
      generalize hacc : (if iabs (modelAt m k) > acc ∧ iabs (modelAt m k) ≠ lvl
        then iabs (modelAt m k) else acc) = acc'
      have hacc1 : acc ≤ acc' := by rw [← hacc]; split <;> omega
      have hacc2 : iabs (modelAt m k) ≠ lvl → iabs (modelAt m k) ≤ acc' := by
        intro hl; rw [← hacc]; split
        · exact Int.le_refl _
        · rename_i hn
          have : ¬ iabs (modelAt m k) > acc := fun h => hn ⟨h, hl⟩
          omega
      have hacc3 : acc' = acc ∨ (acc' = iabs (modelAt m k) ∧ acc' ≠ lvl) := by
        rw [← hacc]; split
        · rename_i hcond; exact Or.inr ⟨rfl, hcond.2⟩
        · exact Or.inl rfl
      obtain ⟨h1, h2, h3⟩ := backtrackAux_spec m v lvl ws (k+1) acc'
      refine ⟨by omega, ?_, ?_⟩
      · intro i hi hv hl
        cases i with
        | zero =>
          simp only [Nat.add_zero] at hl ⊢
          have := hacc2 hl
          omega
        | succ i =>
          simp only [List.getD_cons_succ] at hi
          have := h2 i hi (by omega) (by rw [show k + 1 + i = k + (i+1) by omega]; exact hl)
          rw [show k + 1 + i = k + (i+1) by omega] at this
          exact this
      · rcases h3 with h3 | ⟨i, hi1, hi2, hi3⟩
        · rcases hacc3 with h4 | ⟨h4, h5⟩
          · left; rw [h3, h4]
          · right
            refine ⟨0, ?_, ?_, ?_⟩
            · simp only [Nat.add_zero]; exact fun h => hc (Or.inr h)
            · simp only [Nat.add_zero]; rw [h3, h4]
            · rw [h3]; exact h5
        · exact Or.inr ⟨i+1, by omega, by rw [show k + (i+1) = k + 1 + i by omega]; exact hi2, hi3⟩

theorem backtrackLevel_spec (ws m : List Int) (u : Int) :
    1 ≤ backtrackLevel ws m u ∧
    (∀ i, ws.getD i 0 ≠ 0 → i ≠ varIdx u → iabs (modelAt m i) ≠ iabs (modelAt m (varIdx u)) →
      iabs (modelAt m i) ≤ backtrackLevel ws m u) ∧
    (backtrackLevel ws m u = 1 ∨
      ∃ i, iabs (modelAt m i) = backtrackLevel ws m u ∧
        backtrackLevel ws m u ≠ iabs (modelAt m (varIdx u))) := by
  obtain ⟨h1, h2, h3⟩ := backtrackAux_spec m (varIdx u) (iabs (modelAt m (varIdx u))) ws 0 1
  unfold backtrackLevel
  refine ⟨h1, ?_, ?_⟩
  · intro i hi hv hl
    have := h2 i hi (by omega) (by rw [Nat.zero_add]; exact hl)
    rw [Nat.zero_add] at this
    exact this
  · rcases h3 with h3 | ⟨i, _, hi2, hi3⟩
    · exact Or.inl h3
    · rw [Nat.zero_add] at hi2
      exact Or.inr ⟨i, hi2, hi3⟩


/-! ## 10. The model after the backjump -/

theorem DistinctOk.var_inj {n : Nat} : ∀ {rt : List Entry}, DistinctOk n rt → ∀ x ∈ rt, ∀ y ∈ rt,
    varIdx x.lit = varIdx y.lit → x = y
  | [], _, x, hx, _, _, _ => by cases hx
  | z :: rest, ⟨_, h2, h3⟩, x, hx, y, hy, hv => by
    rcases List.mem_cons.mp hx with hxz | hx'
    · rcases List.mem_cons.mp hy with hyz | hy'
      · rw [hxz, hyz]
      · rw [hxz] at hv; exact absurd hv.symm (h2 y hy')
    · rcases List.mem_cons.mp hy with hyz | hy'
      · rw [hyz] at hv; exact absurd hv (h2 x hx')
      · exact DistinctOk.var_inj h3 x hx' y hy' hv

theorem falsifies_of_round (p q : PbSet) (m : List Int) (v : Nat) (hq : p.roundToOne m v = some q)
    (x : Int) (hf : falsifies q.weights x = true) : falsifies p.weights x = true := by
  obtain ⟨hne, hs⟩ := falsifies_spec hf
  obtain ⟨s1, s2⟩ := round_sign p q m v hq (varIdx x)
  apply falsifies_of (round_nonzero p q m v hq _ hne)
  constructor
  · intro hp
    apply hs.mp
    rcases Int.lt_trichotomy (q.weights.getD (varIdx x) 0) 0 with hw | hw | hw
    · exact hw
    · exact absurd hw hne
    · have := s1 hw; omega
  · intro hx; exact s2 (hs.mpr hx)

/-- every level stored in the current model is at most the current level -/
theorem modelLevel_le {n : Nat} {prob : List PbSet} {pb : PbSet} {lvl : Int} {m : List Int}
    {rt : List Entry} (I : LoopInv n prob pb lvl m rt) (h0 : 0 ≤ lvl) (i : Nat) :
    iabs (modelAt m i) ≤ lvl := by
  by_cases hm : modelAt m i = 0
  · rw [hm, iabs_zero]; exact h0
  · rw [I.model] at hm
    obtain ⟨e, he, hv⟩ := modelAt_lookup hm
    have := modelAt_mem (trailOk_distinct I.trail) e he
    rw [hv, ← I.model] at this
    rw [this, iabs_signedLvl]
    exact I.lvls e he

theorem freeSum_congr (m1 m2 : List Int) (excl : Nat → Bool) (k : Nat) (ws : List Int)
    (h : ∀ i, excl (k+i) = false → ws.getD i 0 ≠ 0 →
      (nonFalsified m1 (k+i) (ws.getD i 0) ↔ nonFalsified m2 (k+i) (ws.getD i 0))) :
    freeSum m1 excl k ws = freeSum m2 excl k ws := by
  induction ws generalizing k with
  | nil => rfl
  | cons w ws ih =>
    have ih' := ih (k+1) (by
      intro i he hw
      have := h (i+1) (by rw [show k + (i+1) = k + 1 + i by omega]; exact he) (by simpa using hw)
      rw [show k + (i+1) = k + 1 + i by omega] at this
      simpa using this)
    rw [freeSum_cons, freeSum_cons, ih']
    congr 1
    have h0 := h 0
    simp only [Nat.add_zero, List.getD_cons_zero] at h0
    by_cases hw : w = 0
    · subst hw; unfold fs1; simp [iabs_zero]
    · by_cases he : excl k = false
      · exact fs1_congr _ _ _ _ _ (h0 he hw)
      · unfold fs1
        rw [if_neg (fun h => he h.1), if_neg (fun h => he h.1)]

theorem freeSum_excl_le_none (m : List Int) (excl : Nat → Bool) (k : Nat) (ws : List Int) :
    freeSum m excl k ws ≤ freeSum m (fun _ => false) k ws := by
  induction ws generalizing k with
  | nil => exact Int.le_refl _
  | cons w ws ih =>
    have := ih (k+1)
    rw [freeSum_cons, freeSum_cons]
    have : fs1 m (excl k) k w ≤ fs1 m false k w := by
      cases he : excl k with
      | false => exact Int.le_refl _
      | true =>
        have h0 : fs1 m true k w = 0 := by unfold fs1; simp
        rw [h0]; exact fs1_nonneg m false k w
    omega

/-- the facts about the state in which the loop ends -/
structure FinishState (n : Nat) (prob : List PbSet) (full : List Entry) (pb : PbSet) (lvl : Int)
    (m : List Int) (rt : List Entry) (l : Int) : Prop where
  inv : LoopInv n prob pb lvl m rt
  walk : WalkInv n prob full lvl rt
  found : onlyFalsified pb.weights m rt lvl = some l

namespace FinishState
variable {n : Nat} {prob : List PbSet} {full : List Entry} {pb : PbSet} {lvl : Int} {m : List Int}
  {rt : List Entry} {l : Int}

theorem entry (F : FinishState n prob full pb lvl m rt l) :
    ∃ e ∈ rt, e.lit = l ∧ falsifies pb.weights l = true ∧ (e.level : Int) = lvl :=
  (onlyFalsified_spec F.inv F.found).1

theorem lvl_pos (F : FinishState n prob full pb lvl m rt l) : 1 ≤ lvl := by
  obtain ⟨e, he, _, _, hl⟩ := F.entry
  have := trailOk_lev1 F.inv.trail e he
  omega

theorem modelAt_l (F : FinishState n prob full pb lvl m rt l) :
    iabs (modelAt m (varIdx l)) = lvl ∧ (0 < modelAt m (varIdx l) ↔ 0 < l) ∧ l ≠ 0 := by
  obtain ⟨e, he, rfl, _, hl⟩ := F.entry
  have hm := modelAt_mem (trailOk_distinct F.inv.trail) e he
  rw [← F.inv.model] at hm
  have h1 := trailOk_lev1 F.inv.trail e he
  refine ⟨by rw [hm, iabs_signedLvl]; exact hl, by rw [hm]; exact signedLvl_pos e h1, ?_⟩
  obtain ⟨pre, post, hsplit⟩ := List.append_of_mem he
  have hok := F.inv.trail
  rw [hsplit] at hok
  exact (trailOk_cons (trailOk_suffix pre hok)).1.lit0

/-- any other remaining trail literal that falsifies the raw pbSet is at a level `≠ lvl`, bounded
    by the backtrack level -/
theorem others (F : FinishState n prob full pb lvl m rt l) (q : PbSet)
    (hq : pb.roundToOne m (varIdx l) = some q) (x : Entry) (hx : x ∈ rt) (hxl : x.lit ≠ l)
    (hf : falsifies q.weights x.lit = true) :
    (x.level : Int) ≠ lvl ∧ (x.level : Int) ≤ backtrackLevel pb.weights m (-l) := by
  have hd := trailOk_distinct F.inv.trail
  have hfp := falsifies_of_round pb q m _ hq x.lit hf
  have hne : (x.level : Int) ≠ lvl := fun h => hxl ((onlyFalsified_spec F.inv F.found).2 x hx h hfp)
  refine ⟨hne, ?_⟩
  obtain ⟨e, he, hel, _, _⟩ := F.entry
  have hxm := modelAt_mem hd x hx
  rw [← F.inv.model] at hxm
  have := (backtrackLevel_spec pb.weights m (-l)).2.1 (varIdx x.lit) (falsifies_spec hfp).1
    (by
      rw [varIdx_neg, ← hel]
      intro hv
      have := DistinctOk.var_inj hd x hx e he hv
      rw [this] at hxl; exact hxl hel)
    (by rw [varIdx_neg, F.modelAt_l.1, hxm, iabs_signedLvl]; exact hne)
  rw [hxm, iabs_signedLvl] at this
  exact this

theorem btLvl_lt (F : FinishState n prob full pb lvl m rt l) (h2 : 2 ≤ lvl) :
    1 ≤ backtrackLevel pb.weights m (-l) ∧ backtrackLevel pb.weights m (-l) < lvl := by
  obtain ⟨h1, _, h3⟩ := backtrackLevel_spec pb.weights m (-l)
  refine ⟨h1, ?_⟩
  rcases h3 with h3 | ⟨i, hi1, hi2⟩
  · omega
  · rw [varIdx_neg, F.modelAt_l.1] at hi2
    have := modelLevel_le F.inv (by omega) i
    omega

/-- the model once the solver has backjumped to level `b < lvl`: the remaining trail literals of
    level `≤ b` (the passed ones are all above) -/
theorem modelUpTo_eq (F : FinishState n prob full pb lvl m rt l) (trail : List Entry)
    (hfull : full = trail.reverse) (b : Nat) (hb : (b : Int) < lvl) :
    modelUpTo n b trail = modelOfR n (rt.filter (fun e => decide (e.level ≤ b))) := by
  unfold modelUpTo
  rw [← List.filter_reverse, ← hfull]
  obtain ⟨passed, hp, hlv⟩ := F.walk.passed
  rw [hp, List.filter_append]
  have : passed.filter (fun e => decide (e.level ≤ b)) = [] := by
    rw [List.filter_eq_nil_iff]
    intro a ha
    have := hlv a ha
    simp only [decide_eq_true_eq]; omega
  rw [this, List.nil_append]

/-- positions other than the asserting literal: falsified after the backjump iff falsified in the
    walked model -/
theorem nonFalsified_bt (F : FinishState n prob full pb lvl m rt l) (q : PbSet)
    (hq : pb.roundToOne m (varIdx l) = some q) (b : Nat)
    (hb : backtrackLevel pb.weights m (-l) ≤ (b : Int)) (j : Nat) (hj : j ≠ varIdx l)
    (hw : q.weights.getD j 0 ≠ 0) :
    nonFalsified (modelOfR n (rt.filter (fun e => decide (e.level ≤ b)))) j (q.weights.getD j 0) ↔
      nonFalsified m j (q.weights.getD j 0) := by
  have hd := trailOk_distinct F.inv.trail
  have hdf := DistinctOk.filter (fun e => decide (e.level ≤ b)) hd
  by_cases hm : modelAt m j = 0
  · have : modelAt (modelOfR n (rt.filter (fun e => decide (e.level ≤ b)))) j = 0 := by
      apply modelOfR_notin
      intro e' he' hv
      have he := (List.mem_filter.mp he').1
      have := modelAt_mem hd e' he
      rw [hv, ← F.inv.model, hm] at this
      exact signedLvl_ne e' (trailOk_lev1 F.inv.trail e' he) this.symm
    exact ⟨fun _ => Or.inl hm, fun _ => Or.inl this⟩
  · have hm' := hm
    rw [F.inv.model] at hm'
    obtain ⟨e, he, hv⟩ := modelAt_lookup hm'
    have hme := modelAt_mem hd e he
    rw [hv, ← F.inv.model] at hme
    by_cases hlev : e.level ≤ b
    · have hef : e ∈ rt.filter (fun e => decide (e.level ≤ b)) :=
        List.mem_filter.mpr ⟨he, by simpa using hlev⟩
      have := modelAt_mem hdf e hef
      rw [hv] at this
      unfold nonFalsified
      rw [this, hme]
    · have hbt : modelAt (modelOfR n (rt.filter (fun e => decide (e.level ≤ b)))) j = 0 := by
        apply modelOfR_notin
        intro e' he' hv'
        obtain ⟨he'1, he'2⟩ := List.mem_filter.mp he'
        have := DistinctOk.var_inj hd e' he'1 e he (by rw [hv', hv])
        subst this
        simp only [decide_eq_true_eq] at he'2
        exact hlev he'2
      refine ⟨fun _ => ?_, fun _ => Or.inl hbt⟩
      apply Classical.byContradiction
      intro hnf
      have hfal : falsifies q.weights e.lit = true := by
        cases hfe : falsifies q.weights e.lit with
        | true => rfl
        | false =>
          have := notFalsifies_nonFalsified q.weights m e (trailOk_lev1 F.inv.trail e he)
            (by rw [hv]; exact hme) hfe
          rw [hv] at this
          rcases this with h | h
          · exact absurd h hw
          · exact absurd h hnf
      have hxl : e.lit ≠ l := by intro h; rw [h] at hv; exact hj hv.symm
      have := (F.others q hq e he hxl hfal).2
      omega

end FinishState


/-! ## 11. Terms of the raw pbSet -/

theorem weightSum_clauseTerms (k : Nat) (ws : List Int) : weightSum (clauseTerms k ws) = sumAbs ws := by
  induction ws generalizing k with
  | nil => rfl
  | cons w ws ih =>
    simp only [clauseTerms, sumAbs]
    by_cases hw : w = 0
    · rw [if_pos hw, ih, hw, iabs_zero]; omega
    · rw [if_neg hw]; simp only [weightSum, ih]

theorem weightSum_insTerm (t : Int × Int) (us : List (Int × Int)) :
    weightSum (insTerm t us) = t.1 + weightSum us := by
  induction us with
  | nil => rfl
  | cons u us ih =>
    simp only [insTerm]
    split
    · rfl
    · simp only [weightSum, ih]; omega

theorem weightSum_sortTerms (ts : List (Int × Int)) : weightSum (sortTerms ts) = weightSum ts := by
  induction ts with
  | nil => rfl
  | cons t ts ih =>
    show weightSum (insTerm t (sortTerms ts)) = _
    rw [weightSum_insTerm, ih]; rfl

theorem takeUnits_all (th c : Int) (ts : List (Int × Int)) (h : ∀ t ∈ ts, t.1 > th) :
    (takeUnits th ts c).1 = ts.map (·.2) := by
  induction ts generalizing c with
  | nil => rfl
  | cons t ts ih =>
    rw [takeUnits_cons, if_pos (h t (by simp))]
    simp only [List.map_cons]
    rw [ih _ (fun t' ht' => h t' (by simp [ht']))]

theorem clauseTerms_mem (ws : List Int) : ∀ (k i : Nat), ws.getD i 0 ≠ 0 →
    (iabs (ws.getD i 0),
      if ws.getD i 0 < 0 then -(((k + i : Nat) : Int) + 1) else ((k + i : Nat) : Int) + 1)
      ∈ clauseTerms k ws := by
  induction ws with
  | nil => intro k i h; simp at h
  | cons w ws ih =>
    intro k i h
    cases i with
    | zero =>
      simp only [List.getD_cons_zero, Nat.add_zero] at h ⊢
      simp only [clauseTerms, if_neg h]
      exact List.mem_cons_self
    | succ i =>
      simp only [List.getD_cons_succ] at h ⊢
      have := ih (k+1) i h
      rw [show k + 1 + i = k + (i + 1) by omega] at this
      simp only [clauseTerms]
      split
      · exact this
      · exact List.mem_cons_of_mem _ this

/-- the negation of a literal that falsifies `ws` is one of the literals of `ws` -/
theorem neg_mem_clauseTerms (ws : List Int) (l : Int) (hl : l ≠ 0) (hf : falsifies ws l = true) :
    -l ∈ (clauseTerms 0 ws).map (·.2) := by
  obtain ⟨hw, hs⟩ := falsifies_spec hf
  have := clauseTerms_mem ws 0 (varIdx l) hw
  rw [List.mem_map]
  refine ⟨_, this, ?_⟩
  simp only [Nat.zero_add]
  have hv : ((varIdx l : Nat) : Int) + 1 = (l.natAbs : Int) := by
    unfold varIdx; omega
  rw [hv]
  by_cases hneg : ws.getD (varIdx l) 0 < 0
  · rw [if_pos hneg]; have := hs.mp hneg; omega
  · rw [if_neg hneg]
    have : ¬ l > 0 := fun h => hneg (hs.mpr h)
    omega

/-! ## 12. Facts that are compared with the model at entry -/

theorem newFact_congr (m1 m2 : List Int) (u : Int)
    (h : modelAt m1 (varIdx u) = modelAt m2 (varIdx u)) : newFact m1 u = newFact m2 u := by
  unfold newFact litSat; rw [h]

theorem newFact_neg_true (m : List Int) (l : Int) (hl : l ≠ 0)
    (hs : 0 < modelAt m (varIdx l) ↔ 0 < l) : newFact m (-l) = true := by
  unfold newFact litSat
  rw [varIdx_neg]
  have : (decide (modelAt m (varIdx l) > 0) == decide (-l > 0)) = false := by
    rw [beq_eq_false_iff_ne]
    intro h
    rw [decide_eq_decide] at h
    by_cases hp : 0 < l
    · have := h.mp (hs.mpr hp); omega
    · have : -l > 0 := by omega
      have := hs.mp (h.mpr this); omega
  simp only [this, Bool.and_false, Bool.not_false, Bool.or_true]

namespace FinishState
variable {n : Nat} {prob : List PbSet} {full : List Entry} {pb : PbSet} {lvl : Int} {m : List Int}
  {rt : List Entry} {l : Int}

theorem rt_sub_full (F : FinishState n prob full pb lvl m rt l) : ∀ x ∈ rt, x ∈ full := by
  obtain ⟨passed, hp, _⟩ := F.walk.passed
  intro x hx; rw [hp]; exact List.mem_append_right _ hx

/-- on the variables of the remaining trail, the walked model is the model at entry -/
theorem modelAt_entry (F : FinishState n prob full pb lvl m rt l) (x : Entry) (hx : x ∈ rt) :
    modelAt (modelOfR n full) (varIdx x.lit) = modelAt m (varIdx x.lit) := by
  have h1 := modelAt_mem (trailOk_distinct F.walk.fullOk) x (F.rt_sub_full x hx)
  have h2 := modelAt_mem (trailOk_distinct F.inv.trail) x hx
  rw [← F.inv.model] at h2
  rw [h1, h2]

/-- above level 1, a literal that is "new" for the walked model is new for the model at entry:
    the walk has not touched the top level -/
theorem newFact_entry (F : FinishState n prob full pb lvl m rt l) (h2 : 2 ≤ lvl) (u : Int)
    (hu : newFact m u = true) : newFact (modelOfR n full) u = true := by
  cases h0 : newFact (modelOfR n full) u with
  | true => rfl
  | false =>
    exfalso
    have hl1 : iabs (modelAt (modelOfR n full) (varIdx u)) = 1 := by
      apply Classical.byContradiction
      intro hne
      have : newFact (modelOfR n full) u = true := by
        unfold newFact; simp only [ne_eq, hne, not_false_eq_true, decide_true, Bool.true_or]
      rw [h0] at this; cases this
    have hne : modelAt (modelOfR n full) (varIdx u) ≠ 0 := by
      intro h; rw [h, iabs_zero] at hl1; omega
    obtain ⟨e, he, hv⟩ := modelAt_lookup hne
    have hme := modelAt_mem (trailOk_distinct F.walk.fullOk) e he
    rw [hv] at hme
    rw [hme, iabs_signedLvl] at hl1
    obtain ⟨passed, hp, hlv⟩ := F.walk.passed
    rw [hp] at he
    rcases List.mem_append.mp he with he | he
    · have := hlv e he; omega
    · have := F.modelAt_entry e he
      rw [hv] at this
      rw [newFact_congr _ _ u this.symm, h0] at hu
      cases hu

/-- at level 1 the raw pbSet has a single falsified literal: its weights add up to at most its
    degree -/
theorem lvl1_sum (F : FinishState n prob full pb lvl m rt l) (h1 : lvl = 1) (q : PbSet)
    (hq : pb.roundToOne m (varIdx l) = some q) : sumAbs q.weights ≤ q.card := by
  have hall : ∀ i, 0 + i ≠ varIdx l → q.weights.getD i 0 = 0 ∨ nonFalsified m (0+i) (q.weights.getD i 0) := by
    intro i hi
    rw [Nat.zero_add] at hi ⊢
    by_cases hw : q.weights.getD i 0 = 0
    · exact Or.inl hw
    · right
      apply Classical.byContradiction
      intro hnf
      have hm : modelAt m i ≠ 0 := fun h => hnf (Or.inl h)
      have hm' := hm
      rw [F.inv.model] at hm'
      obtain ⟨e, he, hv⟩ := modelAt_lookup hm'
      have hme := modelAt_mem (trailOk_distinct F.inv.trail) e he
      rw [← F.inv.model] at hme
      have hfal : falsifies q.weights e.lit = true := by
        cases hfe : falsifies q.weights e.lit with
        | true => rfl
        | false =>
          have := notFalsifies_nonFalsified q.weights m e (trailOk_lev1 F.inv.trail e he) hme hfe
          rw [hv] at this
          rcases this with h | h
          · exact absurd h hw
          · exact absurd h hnf
      have hxl : e.lit ≠ l := by intro h; rw [h] at hv; exact hi hv.symm
      have hlev := (F.others q hq e he hxl hfal).1
      have := F.inv.lvls e he
      have := trailOk_lev1 F.inv.trail e he
      omega
  have hsum : ∀ (k : Nat) (ws : List Int),
      (∀ i, k + i ≠ varIdx l → ws.getD i 0 = 0 ∨ nonFalsified m (k+i) (ws.getD i 0)) →
      sumAbs ws ≤ freeSum m (fun _ => false) k ws + pick (varIdx l) k ws := by
    intro k ws
    induction ws generalizing k with
    | nil => intro _; simp [sumAbs, freeSum, pick]
    | cons w ws ih =>
      intro h
      have ih' := ih (k+1) (by
        intro i hi
        have := h (i+1) (by omega)
        rw [show k + (i+1) = k + 1 + i by omega] at this
        simpa using this)
      simp only [sumAbs, pick]
      rw [freeSum_cons]
      by_cases hk : k = varIdx l
      · rw [if_pos hk]
        have := fs1_nonneg m false k w
        omega
      · rw [if_neg hk]
        have h0 := h 0 (by omega)
        simp only [List.getD_cons_zero, Nat.add_zero] at h0
        have : fs1 m false k w = iabs w := by
          unfold fs1
          rcases h0 with h0 | h0
          · subst h0; simp [iabs_zero]
          · rw [if_pos ⟨rfl, h0⟩]
        omega
  have hs := hsum 0 q.weights hall
  have hp := pick_eq (varIdx l) q.weights 0
  simp only [Nat.zero_le, if_true, Nat.sub_zero] at hp
  have hl := round_locked pb q m _ hq
  have hc := round_conflict pb q m _ F.inv.confl hq
  omega

/-- at level 1 the answer is `units` containing the refutation of the top-level literal found
    (or `unsat`): never a learned constraint -/
theorem lvl1_answer (F : FinishState n prob full pb lvl m rt l) (h1 : lvl = 1) :
    (∀ c u b, (finish pb m l).res ≠ .learned c u b) ∧ (∀ u b, (finish pb m l).res ≠ .learnedNil u b) ∧
    (∀ ls, (finish pb m l).res = .units ls → -l ∈ ls) := by
  have S := finish_spec pb m l
  obtain ⟨_, _, hl0⟩ := F.modelAt_l
  have hnew : newFact m (-l) = true := newFact_neg_true m l hl0 F.modelAt_l.2.1
  -- all the literals of the raw pbSet are units
  have hall : ∀ q us rest, (finish pb m l).raw = some q → simpOf q = .done us rest → -l ∈ us := by
    intro q us rest hraw hs
    have hq := S.raw q hraw
    rw [varIdx_neg] at hq
    have hsum := F.lvl1_sum h1 q hq
    obtain ⟨hth, hus, _⟩ := simplify_done _ _ us rest hs
    rw [weightSum_sortTerms, weightSum_clauseTerms] at hth hus
    have hth0 : sumAbs q.weights - q.card = 0 := by omega
    rw [hth0] at hus
    have hpos : ∀ t ∈ sortTerms (clauseTerms 0 q.weights), t.1 > 0 := by
      intro t ht
      have := (sortTerms_perm _).mem_iff.mp ht
      rw [clauseTerms_eq] at this
      exact termsFrom_weight_pos 0 q.weights t this
    rw [takeUnits_all 0 _ _ hpos] at hus
    rw [hus]
    have hfq := round_falsifies pb q m l hq F.entry.choose_spec.2.2.1
    have := neg_mem_clauseTerms q.weights l hl0 hfq
    rw [List.mem_map] at this ⊢
    obtain ⟨t, ht, hte⟩ := this
    exact ⟨t, (sortTerms_perm _).mem_iff.mpr ht, hte⟩
  refine ⟨?_, ?_, ?_⟩
  · intro c u b h
    obtain ⟨q, us, hraw, hs, _, _, hold⟩ := S.learned c u b h
    have := hold _ (hall q us _ hraw hs)
    rw [hnew] at this; cases this
  · intro u b h
    obtain ⟨q, us, hraw, hs, _, hold⟩ := S.learnedNil u b h
    have := hold _ (hall q us _ hraw hs)
    rw [hnew] at this; cases this
  · intro ls h
    obtain ⟨q, rest, hraw, hs, _⟩ := S.units ls h
    exact hall q ls rest hraw hs

end FinishState

/-! ## 13. Progress -/

/-- the state in which the loop of `cpAnalyze s` ends, when the answer carries a raw pbSet -/
theorem cpAnalyze_finish (prob : List PbSet) (s : State) (h : cpInv prob s = true)
    (hraw : (cpAnalyze s).raw ≠ none) :
    ∃ pb lvl m rt l, FinishState s.n prob s.trail.reverse pb lvl m rt l ∧
      cpAnalyze s = finish pb m l := by
  have I := cpInv_loopInv prob s h
  have W : WalkInv s.n prob s.trail.reverse s.lvl s.trail.reverse :=
    ⟨I.trail, [], rfl, by intro p hp; cases hp⟩
  obtain ⟨pb, lvl, m, rt, l, I', W', hof, he⟩ :=
    loop_finish s.n prob s.trail.reverse (fuelOf s) _ _ _ _ I W hraw
  exact ⟨pb, lvl, m, rt, l, ⟨I', W', hof⟩, he⟩

/-- **Progress.** When `cuttingPlanes` answers with top-level units, at least one of them is not
    already true at level 1 *in the model at entry*: the answer is never "nothing new". -/
theorem cpAnalyze_progress : cpAnalyze_progress_statement := by
  intro prob s h
  unfold progressOk
  cases hres : (cpAnalyze s).res with
  | units ls =>
    simp only [List.any_eq_true]
    have S := loop_sound s.n prob (fuelOf s) _ _ _ _ (cpInv_loopInv prob s h)
    obtain ⟨q, _, hq, _⟩ := S.reads.units ls hres
    obtain ⟨pb, lvl, m, rt, l, F, he⟩ := cpAnalyze_finish prob s h (by
      show (cpAnalyze s).raw ≠ none
      intro hn; unfold cpAnalyze at hn; rw [hn] at hq; cases hq)
    rw [he] at hres
    by_cases h2 : 2 ≤ lvl
    · obtain ⟨_, _, _, _, u, hu, hnew⟩ := (finish_spec pb m l).units ls hres
      exact ⟨u, hu, F.newFact_entry h2 u hnew⟩
    · have h1 : lvl = 1 := by have := F.lvl_pos; omega
      refine ⟨-l, (F.lvl1_answer h1).2.2 ls hres, ?_⟩
      obtain ⟨e, he', hel, _, _⟩ := F.entry
      have hm := F.modelAt_entry e he'
      rw [hel] at hm
      rw [newFact_congr _ m (-l) (by rw [varIdx_neg]; exact hm)]
      exact newFact_neg_true m l F.modelAt_l.2.2 F.modelAt_l.2.1
  | unsat => rfl
  | learned c u b => rfl
  | learnedNil u b => rfl
  | stuck w => rfl


/-! ## 14. The raw pbSet is asserting after the backjump -/

namespace FinishState
variable {n : Nat} {prob : List PbSet} {full : List Entry} {pb : PbSet} {lvl : Int} {m : List Int}
  {rt : List Entry} {l : Int}

/-- **Asserting, on the raw pbSet.** Above level 1: with `b = backtrackLevel`, `b < lvl`; in the
    model after the backjump to `b` the variable of the literal found is unbound, the literals of
    the raw pbSet other than it that are not falsified weigh less than the degree, and every
    literal that is true at level 1 in the walked model keeps its value. -/
theorem raw_asserting (F : FinishState n prob full pb lvl m rt l) (h2 : 2 ≤ lvl) (q : PbSet)
    (hq : pb.roundToOne m (varIdx l) = some q) (trail : List Entry) (hfull : full = trail.reverse) :
    modelAt (modelUpTo n (backtrackLevel pb.weights m (-l)).toNat trail) (varIdx l) = 0 ∧
    freeSum (modelUpTo n (backtrackLevel pb.weights m (-l)).toNat trail)
      (fun i => i == varIdx l) 0 q.weights < q.card ∧
    (∀ x, newFact m x = false →
      modelAt (modelUpTo n (backtrackLevel pb.weights m (-l)).toNat trail) (varIdx x)
        = modelAt m (varIdx x)) := by
  obtain ⟨hb1, hb2⟩ := F.btLvl_lt h2
  have hbt : ((backtrackLevel pb.weights m (-l)).toNat : Int) = backtrackLevel pb.weights m (-l) :=
    Int.toNat_of_nonneg (by omega)
  rw [F.modelUpTo_eq trail hfull _ (by rw [hbt]; exact hb2)]
  have hd := trailOk_distinct F.inv.trail
  have hdf := DistinctOk.filter (fun e => decide (e.level ≤ (backtrackLevel pb.weights m (-l)).toNat)) hd
  obtain ⟨e, he, hel, _, hlev⟩ := F.entry
  refine ⟨?_, ?_, ?_⟩
  · apply modelOfR_notin
    intro e' he' hv
    obtain ⟨he'1, he'2⟩ := List.mem_filter.mp he'
    have := DistinctOk.var_inj hd e' he'1 e he (by rw [hv, hel])
    subst this
    simp only [decide_eq_true_eq] at he'2
    omega
  · have hcongr := freeSum_congr
      (modelOfR n (rt.filter (fun e => decide (e.level ≤ (backtrackLevel pb.weights m (-l)).toNat))))
      m (fun i => i == varIdx l) 0 q.weights (by
        intro i hi hw
        rw [Nat.zero_add] at hi ⊢
        exact F.nonFalsified_bt q hq _ (by rw [hbt]; exact Int.le_refl _) i
          (by simpa using hi) hw)
    rw [hcongr]
    have := freeSum_excl_le_none m (fun i => i == varIdx l) 0 q.weights
    have := round_conflict pb q m _ F.inv.confl hq
    omega
  · intro x hx
    have hl1 : iabs (modelAt m (varIdx x)) = 1 := by
      apply Classical.byContradiction
      intro hne
      have : newFact m x = true := by
        unfold newFact; simp only [ne_eq, hne, not_false_eq_true, decide_true, Bool.true_or]
      rw [hx] at this; cases this
    have hne : modelAt m (varIdx x) ≠ 0 := by
      intro h; rw [h, iabs_zero] at hl1; omega
    have hne' := hne
    rw [F.inv.model] at hne'
    obtain ⟨e', he', hv⟩ := modelAt_lookup hne'
    have hme := modelAt_mem hd e' he'
    rw [hv, ← F.inv.model] at hme
    rw [hme, iabs_signedLvl] at hl1
    have hef : e' ∈ rt.filter (fun e => decide (e.level ≤ (backtrackLevel pb.weights m (-l)).toNat)) :=
      List.mem_filter.mpr ⟨he', by simp only [decide_eq_true_eq]; omega⟩
    have := modelAt_mem hdf e' hef
    rw [hv] at this
    rw [this, hme]

end FinishState


/-! ## 15. Free weight over term lists, through `SimplifyPB` and back to a pbSet -/

/-- a literal is not falsified by the model -/
def nfLit (m : List Int) (l : Int) : Prop :=
  modelAt m (varIdx l) = 0 ∨ (0 < modelAt m (varIdx l) ↔ 0 < l)

instance (m : List Int) (l : Int) : Decidable (nfLit m l) := by unfold nfLit; infer_instance

def fsT1 (m : List Int) (excl : Nat → Bool) (t : Int × Int) : Int :=
  if excl (varIdx t.2) = false ∧ nfLit m t.2 then t.1 else 0

def freeSumT (m : List Int) (excl : Nat → Bool) : List (Int × Int) → Int
  | [] => 0
  | t :: ts => fsT1 m excl t + freeSumT m excl ts

theorem nonFalsified_iff (m : List Int) (j : Nat) (w : Int) :
    nonFalsified m j w ↔ (modelAt m j = 0 ∨ (0 < modelAt m j ↔ 0 < w)) := by
  unfold nonFalsified
  simp only [gt_iff_lt, decide_eq_decide]

theorem varIdx_pos (k : Nat) : varIdx ((k : Int) + 1) = k := by unfold varIdx; omega
theorem varIdx_negpos (k : Nat) : varIdx (-((k : Int) + 1)) = k := by unfold varIdx; omega

theorem freeSum_clauseTerms (m : List Int) (excl : Nat → Bool) (k : Nat) (ws : List Int) :
    freeSum m excl k ws = freeSumT m excl (clauseTerms k ws) := by
  induction ws generalizing k with
  | nil => rfl
  | cons w ws ih =>
    rw [freeSum_cons, ih (k+1)]
    simp only [clauseTerms]
    by_cases hw : w = 0
    · rw [if_pos hw]; subst hw
      have : fs1 m (excl k) k 0 = 0 := by unfold fs1; simp [iabs_zero]
      omega
    · rw [if_neg hw]
      simp only [freeSumT]
      congr 1
      unfold fs1 fsT1
      by_cases hneg : w < 0
      · simp only [if_pos hneg, varIdx_negpos]
        have hiff : nonFalsified m k w ↔ nfLit m (-((k:Int)+1)) := by
          rw [nonFalsified_iff]; unfold nfLit; rw [varIdx_negpos]
          constructor <;> (rintro (h | h); exact Or.inl h; right; constructor <;> intro h' <;> have := h.mp <;> have := h.mpr <;> omega)
        by_cases hc : excl k = false ∧ nonFalsified m k w
        · rw [if_pos hc, if_pos ⟨hc.1, hiff.mp hc.2⟩]
        · rw [if_neg hc, if_neg (fun h => hc ⟨h.1, hiff.mpr h.2⟩)]
      · simp only [if_neg hneg, varIdx_pos]
        have hiff : nonFalsified m k w ↔ nfLit m ((k:Int)+1) := by
          rw [nonFalsified_iff]; unfold nfLit; rw [varIdx_pos]
          constructor <;> (rintro (h | h); exact Or.inl h; right; constructor <;> intro h' <;> have := h.mp <;> have := h.mpr <;> omega)
        by_cases hc : excl k = false ∧ nonFalsified m k w
        · rw [if_pos hc, if_pos ⟨hc.1, hiff.mp hc.2⟩]
        · rw [if_neg hc, if_neg (fun h => hc ⟨h.1, hiff.mpr h.2⟩)]

theorem freeSumT_insTerm (m : List Int) (excl : Nat → Bool) (t : Int × Int) (us : List (Int × Int)) :
    freeSumT m excl (insTerm t us) = fsT1 m excl t + freeSumT m excl us := by
  induction us with
  | nil => rfl
  | cons u us ih =>
    simp only [insTerm]
    split
    · rfl
    · simp only [freeSumT, ih]; omega

theorem freeSumT_sortTerms (m : List Int) (excl : Nat → Bool) (ts : List (Int × Int)) :
    freeSumT m excl (sortTerms ts) = freeSumT m excl ts := by
  induction ts with
  | nil => rfl
  | cons t ts ih =>
    show freeSumT m excl (insTerm t (sortTerms ts)) = _
    rw [freeSumT_insTerm, ih]; rfl

theorem freeSumT_append (m : List Int) (excl : Nat → Bool) (xs ys : List (Int × Int)) :
    freeSumT m excl (xs ++ ys) = freeSumT m excl xs + freeSumT m excl ys := by
  induction xs with
  | nil => simp [freeSumT]
  | cons x xs ih => simp only [List.cons_append, freeSumT, ih]; omega

theorem freeSumT_reverse (m : List Int) (excl : Nat → Bool) (ts : List (Int × Int)) :
    freeSumT m excl ts.reverse = freeSumT m excl ts := by
  induction ts with
  | nil => rfl
  | cons t ts ih => simp only [List.reverse_cons, freeSumT_append, freeSumT, ih]; omega

/-- the unit loop of `SimplifyPB`, on free weights: when every unit is counted, the remainder keeps
    the same margin -/
theorem takeUnits_freeSumT (m : List Int) (excl : Nat → Bool) (th c : Int) (ts : List (Int × Int))
    (hu : ∀ x ∈ (takeUnits th ts c).1, excl (varIdx x) = false ∧ nfLit m x) :
    freeSumT m excl (takeUnits th ts c).2.2 - (takeUnits th ts c).2.1 = freeSumT m excl ts - c := by
  induction ts generalizing c with
  | nil => simp [takeUnits_nil]
  | cons t ts ih =>
    rw [takeUnits_cons] at hu ⊢
    by_cases h : t.1 > th
    · rw [if_pos h] at hu ⊢
      simp only at hu ⊢
      have := ih (c - t.1) (fun x hx => hu x (by simp [hx]))
      have ht : fsT1 m excl t = t.1 := by
        unfold fsT1; rw [if_pos (hu t.2 (by simp))]
      simp only [freeSumT, ht]
      omega
    · rw [if_neg h]

/-- literals of the terms: units first, then the remainder -/
theorem takeUnits_lits (th c : Int) (ts : List (Int × Int)) :
    ts.map (·.2) = (takeUnits th ts c).1 ++ (takeUnits th ts c).2.2.map (·.2) := by
  induction ts generalizing c with
  | nil => simp [takeUnits_nil]
  | cons t ts ih =>
    rw [takeUnits_cons]
    by_cases h : t.1 > th
    · rw [if_pos h]; simp only [List.map_cons, List.cons_append]; rw [← ih]
    · rw [if_neg h]; simp

theorem takeUnits_suffix (th c : Int) (ts : List (Int × Int)) :
    ∃ pre, ts = pre ++ (takeUnits th ts c).2.2 := by
  induction ts generalizing c with
  | nil => exact ⟨[], by simp [takeUnits_nil]⟩
  | cons t ts ih =>
    rw [takeUnits_cons]
    by_cases h : t.1 > th
    · rw [if_pos h]
      obtain ⟨pre, hp⟩ := ih (c - t.1)
      exact ⟨t :: pre, by simp only [List.cons_append]; rw [← hp]⟩
    · rw [if_neg h]; exact ⟨[], rfl⟩

/-! ### back to a pbSet -/

/-- well-formed term list: distinct variables below `n`, non-zero literals, positive weights -/
structure TermsOk (n : Nat) (ts : List (Int × Int)) : Prop where
  dist : ts.Pairwise (fun a b => varIdx a.2 ≠ varIdx b.2)
  lit : ∀ t ∈ ts, t.2 ≠ 0 ∧ varIdx t.2 < n
  pos : ∀ t ∈ ts, 0 < t.1

theorem pbWeights_notin (n : Nat) (ts : List (Int × Int)) (v : Nat)
    (h : ∀ t ∈ ts, varIdx t.2 ≠ v) : (pbWeights n ts).getD v 0 = 0 := by
  induction ts with
  | nil =>
    simp only [pbWeights, List.getD_eq_getElem?_getD, List.getElem?_replicate]
    split <;> rfl
  | cons t ts ih =>
    simp only [pbWeights]
    have := modelAt_set_ne (pbWeights n ts) (varIdx t.2) v (signedW t) (fun h' => h t (by simp) h'.symm)
    unfold modelAt at this
    rw [this]
    exact ih (fun t' ht' => h t' (by simp [ht']))

theorem pbWeights_mem (n : Nat) (ts : List (Int × Int)) (hok : TermsOk n ts) (t : Int × Int)
    (ht : t ∈ ts) : (pbWeights n ts).getD (varIdx t.2) 0 = signedW t := by
  induction ts with
  | nil => cases ht
  | cons x ts ih =>
    simp only [pbWeights]
    have hd := List.pairwise_cons.mp hok.dist
    rcases List.mem_cons.mp ht with rfl | ht'
    · have := modelAt_set_self (pbWeights n ts) (varIdx t.2) (signedW t)
        (by rw [pbWeights_length]; exact (hok.lit t (by simp)).2)
      unfold modelAt at this; exact this
    · have hne : varIdx t.2 ≠ varIdx x.2 := fun h => hd.1 t ht' h.symm
      have := modelAt_set_ne (pbWeights n ts) (varIdx x.2) (varIdx t.2) (signedW x) hne
      unfold modelAt at this
      rw [this]
      exact ih ⟨hd.2, fun t' ht' => hok.lit t' (by simp [ht']), fun t' ht' => hok.pos t' (by simp [ht'])⟩ ht'

/-- setting a position whose weight was 0 adds the free weight of the new entry -/
theorem freeSum_set (m : List Int) (excl : Nat → Bool) (k : Nat) (ws : List Int) (i : Nat) (x : Int)
    (hi : i < ws.length) (h0 : ws.getD i 0 = 0) :
    freeSum m excl k (ws.set i x) = freeSum m excl k ws + fs1 m (excl (k+i)) (k+i) x := by
  induction ws generalizing k i with
  | nil => simp at hi
  | cons w ws ih =>
    cases i with
    | zero =>
      simp only [List.getD_cons_zero] at h0
      subst h0
      simp only [List.set_cons_zero, freeSum_cons, Nat.add_zero]
      have : fs1 m (excl k) k 0 = 0 := by unfold fs1; simp [iabs_zero]
      omega
    | succ i =>
      simp only [List.getD_cons_succ] at h0
      simp only [List.length_cons, Nat.add_lt_add_iff_right] at hi
      simp only [List.set_cons_succ, freeSum_cons]
      rw [ih (k+1) i hi h0, show k + 1 + i = k + (i + 1) by omega]
      omega

theorem fs1_signedW (m : List Int) (excl : Nat → Bool) (t : Int × Int) (hp : 0 < t.1) (_hl : t.2 ≠ 0) :
    fs1 m (excl (varIdx t.2)) (varIdx t.2) (signedW t) = fsT1 m excl t := by
  unfold fs1 fsT1
  have hiff : nonFalsified m (varIdx t.2) (signedW t) ↔ nfLit m t.2 := by
    rw [nonFalsified_iff]; unfold nfLit signedW
    by_cases h : t.2 > 0
    · rw [if_pos h]
      constructor <;> (rintro (h' | h'); exact Or.inl h'; right; constructor <;> intro h'' <;> have := h'.mp <;> have := h'.mpr <;> omega)
    · rw [if_neg h]
      constructor <;> (rintro (h' | h'); exact Or.inl h'; right; constructor <;> intro h'' <;> have := h'.mp <;> have := h'.mpr <;> omega)
  have hab : iabs (signedW t) = t.1 := by
    unfold signedW iabs; split <;> split <;> omega
  by_cases hc : excl (varIdx t.2) = false ∧ nonFalsified m (varIdx t.2) (signedW t)
  · rw [if_pos hc, if_pos ⟨hc.1, hiff.mp hc.2⟩, hab]
  · rw [if_neg hc, if_neg (fun h => hc ⟨h.1, hiff.mpr h.2⟩)]

theorem freeSum_pbWeights (m : List Int) (excl : Nat → Bool) (n : Nat) (ts : List (Int × Int))
    (hok : TermsOk n ts) : freeSum m excl 0 (pbWeights n ts) = freeSumT m excl ts := by
  induction ts with
  | nil =>
    simp only [pbWeights, freeSumT]
    have : ∀ (k j : Nat), freeSum m excl j (List.replicate k 0) = 0 := by
      intro k
      induction k with
      | zero => intro j; rfl
      | succ k ih =>
        intro j
        rw [List.replicate_succ, freeSum_cons, ih]
        unfold fs1; simp [iabs_zero]
    exact this n 0
  | cons t ts ih =>
    have hd := List.pairwise_cons.mp hok.dist
    have hok' : TermsOk n ts :=
      ⟨hd.2, fun t' ht' => hok.lit t' (by simp [ht']), fun t' ht' => hok.pos t' (by simp [ht'])⟩
    simp only [pbWeights, freeSumT]
    rw [freeSum_set m excl 0 _ _ _ (by rw [pbWeights_length]; exact (hok.lit t (by simp)).2)
      (pbWeights_notin n ts _ (fun t' ht' h => hd.1 t' ht' h.symm)), ih hok', Nat.zero_add,
      fs1_signedW m excl t (hok.pos t (by simp)) (hok.lit t (by simp)).1]
    omega


/-! ## 16. The learned constraint is asserting -/

theorem clauseTerms_var (ws : List Int) : ∀ (k : Nat), ∀ t ∈ clauseTerms k ws,
    k ≤ varIdx t.2 ∧ varIdx t.2 < k + ws.length ∧ t.2 ≠ 0 ∧ 0 < t.1 := by
  induction ws with
  | nil => intro k t ht; cases ht
  | cons w ws ih =>
    intro k t ht
    simp only [clauseTerms] at ht
    have hrest : t ∈ clauseTerms (k+1) ws →
        k ≤ varIdx t.2 ∧ varIdx t.2 < k + (w :: ws).length ∧ t.2 ≠ 0 ∧ 0 < t.1 := by
      intro h
      obtain ⟨h1, h2, h3, h4⟩ := ih (k+1) t h
      simp only [List.length_cons]
      exact ⟨by omega, by omega, h3, h4⟩
    by_cases hw : w = 0
    · rw [if_pos hw] at ht; exact hrest ht
    · rw [if_neg hw] at ht
      rcases List.mem_cons.mp ht with rfl | ht
      · simp only [List.length_cons]
        have hpos : 0 < iabs w := by unfold iabs; split <;> omega
        by_cases hneg : w < 0
        · simp only [if_pos hneg, varIdx_negpos]; exact ⟨Nat.le_refl _, by omega, by omega, hpos⟩
        · simp only [if_neg hneg, varIdx_pos]; exact ⟨Nat.le_refl _, by omega, by omega, hpos⟩
      · exact hrest ht

theorem clauseTerms_pairwise (ws : List Int) : ∀ (k : Nat),
    (clauseTerms k ws).Pairwise (fun a b => varIdx a.2 ≠ varIdx b.2) := by
  induction ws with
  | nil => intro k; exact List.Pairwise.nil
  | cons w ws ih =>
    intro k
    simp only [clauseTerms]
    by_cases hw : w = 0
    · rw [if_pos hw]; exact ih (k+1)
    · rw [if_neg hw]
      rw [List.pairwise_cons]
      refine ⟨?_, ih (k+1)⟩
      intro t ht
      have := (clauseTerms_var ws (k+1) t ht).1
      by_cases hneg : w < 0
      · simp only [if_pos hneg, varIdx_negpos]; omega
      · simp only [if_neg hneg, varIdx_pos]; omega

theorem clauseTerms_ok (ws : List Int) : TermsOk ws.length (clauseTerms 0 ws) :=
  ⟨clauseTerms_pairwise ws 0,
   fun t ht => by
     obtain ⟨_, h2, h3, _⟩ := clauseTerms_var ws 0 t ht
     exact ⟨h3, by omega⟩,
   fun t ht => (clauseTerms_var ws 0 t ht).2.2.2⟩

theorem TermsOk.perm {n : Nat} {xs ys : List (Int × Int)} (h : xs.Perm ys) (hok : TermsOk n ys) :
    TermsOk n xs :=
  ⟨(h.pairwise_iff (fun h' => Ne.symm h')).mpr hok.dist,
   fun t ht => hok.lit t (h.mem_iff.mp ht), fun t ht => hok.pos t (h.mem_iff.mp ht)⟩

theorem TermsOk.suffix {n : Nat} {pre ys : List (Int × Int)} (hok : TermsOk n (pre ++ ys)) :
    TermsOk n ys :=
  ⟨(List.pairwise_append.mp hok.dist).2.1,
   fun t ht => hok.lit t (List.mem_append_right _ ht), fun t ht => hok.pos t (List.mem_append_right _ ht)⟩

theorem TermsOk.reverse {n : Nat} {ts : List (Int × Int)} (hok : TermsOk n ts) : TermsOk n ts.reverse :=
  TermsOk.perm (List.reverse_perm ts) hok

theorem TermsOk.sat {n : Nat} {t : Int × Int} {rr : List (Int × Int)} (d : Int) (hd : 0 < d)
    (hok : TermsOk n (t :: rr)) : TermsOk n ((if t.1 > d then (d, t.2) else t) :: rr) := by
  have hp := List.pairwise_cons.mp hok.dist
  have h2 : (if t.1 > d then (d, t.2) else t).2 = t.2 := by split <;> rfl
  refine ⟨?_, ?_, ?_⟩
  · rw [List.pairwise_cons]
    exact ⟨fun a ha => by rw [h2]; exact hp.1 a ha, hp.2⟩
  · intro x hx
    rcases List.mem_cons.mp hx with rfl | hx
    · rw [h2]; exact hok.lit t (by simp)
    · exact hok.lit x (by simp [hx])
  · intro x hx
    rcases List.mem_cons.mp hx with rfl | hx
    · split
      · exact hd
      · exact hok.pos t (by simp)
    · exact hok.pos x (by simp [hx])

theorem fsT1_le (m : List Int) (excl : Nat → Bool) (a b : Int × Int) (h2 : a.2 = b.2)
    (h1 : a.1 ≤ b.1) : fsT1 m excl a ≤ fsT1 m excl b := by
  unfold fsT1
  rw [h2]
  split <;> omega

/-- **Asserting.** In the `learned c unit btLvl` case, after the backjump to `btLvl` the variable
    of `unit` is unbound, `unit` occurs in `c` (with its own sign), and the literals of `c` other
    than `unit` that are not falsified weigh less than the degree of `c`: `c` propagates `unit`
    (or is conflicting) at `btLvl`. -/
theorem cpAnalyze_asserting : cpAnalyze_asserting_statement := by
  intro prob s h
  unfold assertingOk
  cases hres : (cpAnalyze s).res with
  | unsat => rfl
  | units ls => rfl
  | learnedNil u b => rfl
  | stuck w => rfl
  | learned c u b =>
    have S := loop_sound s.n prob (fuelOf s) _ _ _ _ (cpInv_loopInv prob s h)
    obtain ⟨q0, _, hq0, _⟩ := S.reads.learned c u b hres
    obtain ⟨pb, lvl, m, rt, l, F, he⟩ := cpAnalyze_finish prob s h (by
      show (cpAnalyze s).raw ≠ none
      intro hn; unfold cpAnalyze at hn; rw [hn] at hq0; cases hq0)
    rw [he] at hres
    obtain ⟨q, us, hraw, hs, hu, hb, hold⟩ := (finish_spec pb m l).learned c u b hres
    have hq := (finish_spec pb m l).raw q hraw
    rw [varIdx_neg] at hq
    have h2 : 2 ≤ lvl := by
      apply Classical.byContradiction
      intro hn
      have h1 : lvl = 1 := by have := F.lvl_pos; omega
      exact (F.lvl1_answer h1).1 c u b hres
    obtain ⟨RA1, RA2, RA3⟩ := F.raw_asserting h2 q hq s.trail rfl
    subst hu hb
    simp only []
    -- the shape of `c`
    have hqlen : q.weights.length = s.n := by
      rw [roundToOne_length _ _ m _ hq]
      exact derivable_length prob s.n F.inv.width pb F.inv.der
    have hok0 : TermsOk s.n (clauseTerms 0 q.weights) := by
      have := clauseTerms_ok q.weights; rw [hqlen] at this; exact this
    have hokS : TermsOk s.n (sortTerms (clauseTerms 0 q.weights)) :=
      TermsOk.perm (sortTerms_perm _) hok0
    obtain ⟨_, hus, hcase⟩ := simplify_done _ _ us (some c) hs
    obtain ⟨pre, hpre⟩ := takeUnits_suffix
      (weightSum (sortTerms (clauseTerms 0 q.weights)) - q.card) q.card
      (sortTerms (clauseTerms 0 q.weights))
    have hlits := takeUnits_lits (weightSum (sortTerms (clauseTerms 0 q.weights)) - q.card) q.card
      (sortTerms (clauseTerms 0 q.weights))
    have hTgen := takeUnits_freeSumT (modelUpTo s.n (backtrackLevel pb.weights m (-l)).toNat s.trail)
      (fun i => i == varIdx l) (weightSum (sortTerms (clauseTerms 0 q.weights)) - q.card) q.card
      (sortTerms (clauseTerms 0 q.weights))
    generalize takeUnits (weightSum (sortTerms (clauseTerms 0 q.weights)) - q.card)
      (sortTerms (clauseTerms 0 q.weights)) q.card = r at hus hcase hpre hlits hTgen
    generalize hmbt : modelUpTo s.n (backtrackLevel pb.weights m (-l)).toNat s.trail = mbt
      at RA1 RA2 RA3 hTgen ⊢
    rcases hcase with ⟨_, hc⟩ | ⟨hdpos, t, rr, hrest, hc⟩
    · cases hc
    · cases hc
      have hokR : TermsOk s.n (t :: rr) := by
        rw [hpre, hrest] at hokS; exact TermsOk.suffix hokS
      have hokC := TermsOk.sat r.2.1 hdpos hokR
      -- every unit found by `SimplifyPB` is counted after the backjump
      have hcount : ∀ x ∈ us, (fun i => i == varIdx l) (varIdx x) = false ∧ nfLit mbt x := by
        intro x hx
        have hxo := hold x hx
        have hsame := RA3 x hxo
        have hx1 : iabs (modelAt m (varIdx x)) = 1 := by
          apply Classical.byContradiction
          intro hne
          have : newFact m x = true := by
            unfold newFact; simp only [ne_eq, hne, not_false_eq_true, decide_true, Bool.true_or]
          rw [hxo] at this; cases this
        have hx2 : litSat m x = true := by
          cases hls : litSat m x with
          | true => rfl
          | false =>
            have : newFact m x = true := by unfold newFact; rw [hls]; simp
            rw [hxo] at this; cases this
        constructor
        · simp only [beq_eq_false_iff_ne, ne_eq]
          intro hv
          rw [hv, F.modelAt_l.1] at hx1
          omega
        · unfold litSat at hx2
          simp only [Bool.and_eq_true, bne_iff_ne, ne_eq, decide_not, Bool.not_eq_true',
            decide_eq_false_iff_not, beq_iff_eq, decide_eq_decide] at hx2
          unfold nfLit
          rw [hsame]
          exact Or.inr hx2.2
      -- the free weight of `c`
      have hT := hTgen (by rw [← hus]; exact hcount)
      rw [hrest, freeSumT_sortTerms, ← freeSum_clauseTerms] at hT
      have hsat : freeSumT mbt (fun i => i == varIdx l)
          ((if t.1 > r.2.1 then (r.2.1, t.2) else t) :: rr)
          ≤ freeSumT mbt (fun i => i == varIdx l) (t :: rr) := by
        simp only [freeSumT]
        apply Int.add_le_add_right
        apply fsT1_le
        · split <;> rfl
        · split
          · rename_i hgt; show r.2.1 ≤ t.1; omega
          · exact Int.le_refl _
      -- the term of `-l` is in `c`
      have hmemC : ∃ t' ∈ ((if t.1 > r.2.1 then (r.2.1, t.2) else t) :: rr), t'.2 = -l := by
        have hfq := round_falsifies pb q m l hq F.entry.choose_spec.2.2.1
        have hin := neg_mem_clauseTerms q.weights l F.modelAt_l.2.2 hfq
        have hin2 : -l ∈ (sortTerms (clauseTerms 0 q.weights)).map (·.2) := by
          rw [List.mem_map] at hin ⊢
          obtain ⟨t0, ht0, hte⟩ := hin
          exact ⟨t0, (sortTerms_perm _).mem_iff.mpr ht0, hte⟩
        rw [hlits, ← hus, hrest] at hin2
        rcases List.mem_append.mp hin2 with hin3 | hin3
        · exfalso
          have := hold _ hin3
          rw [newFact_neg_true m l F.modelAt_l.2.2 F.modelAt_l.2.1] at this
          cases this
        · rw [List.mem_map] at hin3
          obtain ⟨t0, ht0, hte⟩ := hin3
          rcases List.mem_cons.mp ht0 with rfl | ht0
          · exact ⟨_, List.mem_cons_self, by rw [← hte]; split <;> rfl⟩
          · exact ⟨t0, List.mem_cons_of_mem _ ht0, hte⟩
      obtain ⟨t', ht', ht'l⟩ := hmemC
      have hw := pbWeights_mem s.n _ (TermsOk.reverse hokC) t' (List.mem_reverse.mpr ht')
      have hpos' := hokC.pos t' ht'
      rw [ht'l] at hw
      simp only [Bool.and_eq_true, decide_eq_true_eq, beq_iff_eq, decide_eq_decide, ne_eq,
        decide_not, Bool.not_eq_true', decide_eq_false_iff_not]
      refine ⟨⟨by rw [varIdx_neg]; exact RA1, ?_, ?_⟩, ?_⟩
      · show ¬ (pbWeights s.n _).getD (varIdx (-l)) 0 = 0
        rw [hw]; unfold signedW; rw [ht'l]; split <;> omega
      · show (pbWeights s.n _).getD (varIdx (-l)) 0 > 0 ↔ -l > 0
        rw [hw]; unfold signedW; rw [ht'l]
        split <;> constructor <;> intro <;> omega
      · rw [freeSumB_eq, varIdx_neg]
        show freeSum _ _ 0 (pbWeights s.n _) < _
        rw [freeSum_pbWeights _ _ s.n _ (TermsOk.reverse hokC), freeSumT_reverse]
        omega

/-! ## 17. Concrete instances -/

/-- the hypotheses of the three theorems hold on the real states of `GS.Props.C14_CpAnalyze` -/
example : cpInv ex1prob ex1 = true ∧ decisionsOk ex1.trail.reverse = true := by decide
example : cpInv ex2prob ex2 = true ∧ decisionsOk ex2.trail.reverse = true := by decide
example : cpInv ex3prob ex3 = true ∧ decisionsOk ex3.trail.reverse = true := by decide
example : assertingOk ex2 = true ∧ progressOk ex2 = true := by decide

/-- **`decisionsOk` cannot be dropped from `cpAnalyze_fuel`.** Trail `x1@2 x2@2`, both without
    reason (so `x2` is a reason-less literal that is not the first of its level), conflict
    `¬x1 + ¬x2 ≥ 1`: the state meets `cpInv`, two literals of level 2 falsify the resolvent, the
    literal on top has no reason, and every iteration leaves the state unchanged: the mirror runs
    out of fuel, the Go function does not return (replayed on the Go code: see the report).
    In the `cpanalyze` op syntax: `cpanalyze 2 | 1 1 -1 1 -2 | 1 2 ; 2 2 | 0 ; 0`. -/
def exLoop : State :=
  ⟨2, 2, ⟨[(1, -1), (1, -2)], 1⟩, [⟨1, 2, none⟩, ⟨2, 2, none⟩]⟩

example : cpInv [pbOf 2 ⟨[(1, -1), (1, -2)], 1⟩] exLoop = true ∧
    decisionsOk exLoop.trail.reverse = false ∧
    (cpAnalyze exLoop).res = .stuck .fuel := by decide

#print axioms cpAnalyze_fuel
#print axioms cpAnalyze_asserting
#print axioms cpAnalyze_progress


end GS.Cp
