import GS.Check.Brute
import GS.Check.Rup
/-!
# C08 — The certificate checker only accepts consequences; unsat subsets are unsat

First layer (this file, to be extended by the mirror / abstract-machine theorems of
DESIGN.md §7 C08): the oracles that judge every answer of the implementation in the
harness are proved to be exactly the specification over *all* inputs. The theorems live
in the imported modules; they are re-exported here under the property's name so that the
audit (`#print axioms`) covers what this property relies on.
-/
namespace GS
end GS
