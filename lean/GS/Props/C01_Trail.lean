import GS.Model.Trail
import GS.Props.C01_Analyze
/-!
# C01 / C02 / C06 — the hypotheses of the conflict-analysis theorems are an inductive invariant

`GS.Props.C01_Analyze` proves `analyze_sound_cnf`, `analyze_asserting`, `analyze_not_stuck` under
hypotheses on the analysed state (`trailInv`, `reasonsCnf`, `decisionsOk`/`FactsEntailed`,
`conflOk`).  Here they are proved to hold in **every** state the abstract trail machine
`GS.Model.Trail` can reach (operations: `decide`, `propagate`, `backjump`, `assertLearned`,
`addFact`, `assume`; see the table in `GS.Model.Trail` for the Go statements each one abstracts).

* `Inv s` — `TrailInv s.es s.lvl`, `ReasonsCnf s.es`, `DecisionsOkP s.es k` for every `k ≥ 2`
  (the form that survives a backjump), `1 ≤ s.lvl`, every entry at a level `≥ 1`.
  `Inv.bool`: it implies the Boolean checks `trailInv`, `reasonsCnf`, and `decisionsOk` at the
  current level when that is `≥ 2`; `invB_iff`: `invB` decides it.
  `decisionsOk_iff`, `reasonsCnf_iff'`: the Boolean checks are equivalent to the propositions.
* `decide_preserves_inv`, `propagate_preserves_inv`, `backjump_preserves_inv`,
  `assertLearned_preserves_inv`, `addFact_preserves_inv`, `assume_preserves_inv`,
  `step_preserves_inv`, `run_preserves_inv`; `init_inv`, `reachable_inv`
  (`init_units_inv_partial`, `reachable_inv_partial` from `New`'s trail under `unitsOk`).
* `Sourced P s` / `OpOk P o` — where antecedents and facts come from (`P = CnfEntails db`);
  `step_preserves_sourced`, `factsEntailed` (the premise `FactsEntailed` of `analyze_sound_cnf`:
  vacuous at levels `≥ 2`, the facts at level 1).
* `conflict_ok` — a clause with pairwise distinct literals, all false, one at the current level,
  meets `conflOk`.
* `reachable_analyze_sound` (`…_partial` from `init units`) — `analyze_sound_cnf` +
  `analyze_asserting` + `analyze_not_stuck` in every reachable conflict state, no hypothesis on the
  state left.
* `reachable_entailed`, `reachable_entailed_db` — every trail literal follows from the antecedent
  clauses, the facts, the decisions (and assumptions).
* `assertLearned_enabled`, `learnedUnit_enabled`, `level1_no_learned` — the loop closes: the answer
  of the analysis is an operation the machine accepts (the learned clause is unit after the backjump
  to the level `backtrackData` reads); `mem_backjump`: `cleanupBindings` (a prefix cut) drops exactly
  the entries above the level.
* `reachable_decisions` — each level `2 … lvl` has exactly one decision, first of its level.

Findings (see the last section for the witnesses): `decisionsOk` at the current level is not
preserved at level 1 (two facts); `New` does not test whether a unit's variable is already bound
(`init_units_inv_statement_false`); a conflict repeating a false literal makes the analysis `stuck`.
-/
namespace GS.Trail
open GS GS.Analyze

/-! ### list helpers -/

theorem snoc_split {α} {es pre post : List α} {e x : α} (h : es ++ [e] = pre ++ x :: post) :
    (post = [] ∧ pre = es ∧ x = e) ∨ ∃ post', post = post' ++ [e] ∧ es = pre ++ x :: post' := by
  rcases List.eq_nil_or_concat post with rfl | ⟨post', b, rfl⟩
  · left
    have := List.append_inj' h rfl
    simp only [List.cons.injEq, and_true] at this
    exact ⟨rfl, this.1.symm, this.2.symm⟩
  · right
    rw [List.concat_eq_append] at h
    have h' : es ++ [e] = (pre ++ x :: post') ++ [b] := by simpa using h
    have := List.append_inj' h' rfl
    simp only [List.cons.injEq, and_true] at this
    refine ⟨post', ?_, this.1⟩
    rw [List.concat_eq_append, this.2]

theorem of_mem_takeWhile {α} {p : α → Bool} : ∀ {l : List α} {a : α}, a ∈ l.takeWhile p → p a = true
  | [], _, h => by cases h
  | x :: xs, a, h => by
    rw [List.takeWhile_cons] at h
    split at h
    · rcases List.mem_cons.1 h with rfl | h'
      · assumption
      · exact of_mem_takeWhile h'
    · cases h

theorem entries_toSt (s : State) (confl : List Int) : (s.toSt confl).entries = s.es := by
  unfold State.toSt St.entries
  simp only
  induction s.es with
  | nil => rfl
  | cons e es ih => simp only [List.map_cons, List.zipWith_cons_cons, ih]

theorem unbound_iff (es : List Entry) (l : Int) :
    unbound es l = true ↔ ∀ e ∈ es, e.var ≠ l.natAbs := by
  simp [unbound]

theorem isUnit_iff (es : List Entry) (l : Int) (c : List Int) :
    isUnit es l c = true ↔ l ∈ c ∧ ∀ f ∈ c, f ≠ l → isFalse es f = true := by
  simp only [isUnit, Bool.and_eq_true, List.contains_iff_mem, List.all_eq_true, Bool.or_eq_true,
    beq_iff_eq]
  constructor
  · rintro ⟨h1, h2⟩
    exact ⟨h1, fun f hf hne => (h2 f hf).resolve_left hne⟩
  · rintro ⟨h1, h2⟩
    refine ⟨h1, fun f hf => ?_⟩
    by_cases h : f = l
    · exact Or.inl h
    · exact Or.inr (h2 f hf h)


/-! ### Boolean checks of `GS.Model.Analyze` ⇄ propositions -/

/-- What `decisionsOk es k` checks: an entry of level `k` that has no antecedent and is not an
    assumption is the first entry of level `k`. -/
def DecisionsOkP (es : List Entry) (k : Nat) : Prop :=
  ∀ pre e post, es = pre ++ e :: post → e.reason = none → e.assumed = false → e.lvl = k →
    ∀ x ∈ pre, x.lvl ≠ k

theorem decisionsOkAux_of (k : Nat) : ∀ (l p0 : List Entry),
    (∀ pre e post, l = pre ++ e :: post → e.reason = none → e.assumed = false → e.lvl = k →
      ∀ x ∈ p0 ++ pre, x.lvl ≠ k) → decisionsOkAux k p0 l = true := by
  intro l
  induction l with
  | nil => intro p0 _; rfl
  | cons x xs ih =>
    intro p0 h
    rw [decisionsOkAux, Bool.and_eq_true]
    constructor
    · cases hr : x.reason with
      | some r => simp
      | none =>
        cases ha : x.assumed with
        | true => simp
        | false =>
          by_cases hk : x.lvl = k
          · have := h [] x xs rfl hr ha hk
            simp only [List.append_nil] at this
            simp only [Option.isSome_none, Bool.false_or, Bool.or_eq_true, bne_iff_ne, ne_eq,
              List.all_eq_true]
            exact Or.inr this
          · simp [hk]
    · refine ih (p0 ++ [x]) (fun pre e post hl hr ha hk y hy => ?_)
      refine h (x :: pre) e post (by rw [hl]; rfl) hr ha hk y ?_
      simpa [List.append_assoc] using hy

theorem decisionsOk_iff (es : List Entry) (k : Nat) :
    decisionsOk es k = true ↔ DecisionsOkP es k := by
  constructor
  · intro h pre e post hes hr ha hk x hx hxk
    exact decisionsOkAux_spec k es [] h pre e post hes hr ha hk ⟨x, by simpa using hx, hxk⟩
  · intro h
    exact decisionsOkAux_of k es [] (fun pre e post hes hr ha hk x hx =>
      h pre e post hes hr ha hk x (by simpa using hx))

theorem reasonsCnfAux_of : ∀ (l p0 : List Entry),
    (∀ pre e post r, l = pre ++ e :: post → e.reason = some r →
      e.lit ∈ r ∧ ∀ f ∈ r, f ≠ e.lit → isFalse (p0 ++ pre) f = true) →
    reasonsCnfAux p0 l = true := by
  intro l
  induction l with
  | nil => intro p0 _; rfl
  | cons x xs ih =>
    intro p0 h
    rw [reasonsCnfAux, Bool.and_eq_true]
    constructor
    · cases hr : x.reason with
      | none => rfl
      | some r =>
        obtain ⟨h1, h2⟩ := h [] x xs r rfl hr
        simp only [List.append_nil] at h2
        simp only [Bool.and_eq_true, List.contains_iff_mem, List.all_eq_true, Bool.or_eq_true,
          beq_iff_eq]
        refine ⟨h1, fun f hf => ?_⟩
        by_cases hfe : f = x.lit
        · exact Or.inl hfe
        · exact Or.inr (h2 f hf hfe)
    · refine ih (p0 ++ [x]) (fun pre e post r hl hr => ?_)
      have := h (x :: pre) e post r (by rw [hl]; rfl) hr
      simpa [List.append_assoc] using this

theorem reasonsCnf_iff' (es : List Entry) : reasonsCnf es = true ↔ ReasonsCnf es :=
  ⟨reasonsCnf_iff es, fun h => reasonsCnfAux_of es [] (fun pre e post r hes hr => by
    simpa using h pre e post r hes hr)⟩


/-! ### the inductive invariant -/

/-- The invariant of the trail machine: the hypotheses of `analyze_sound_cnf` /
    `analyze_asserting` / `analyze_not_stuck` on the analysed state (`TrailInv`, `ReasonsCnf`),
    the decision property at **every** level `≥ 2` (needed to survive a backjump; at the current
    level it is `decisionsOk`), and levels `≥ 1`. -/
structure Inv (s : State) : Prop where
  trail : TrailInv s.es s.lvl
  reasons : ReasonsCnf s.es
  decisions : ∀ k, 2 ≤ k → DecisionsOkP s.es k
  lvl_pos : 1 ≤ s.lvl
  lvls_pos : ∀ e ∈ s.es, 1 ≤ e.lvl

/-- Pushing one entry: the literal is non-zero and unbound, its level is at least the current
    one, an antecedent is unit on it, and a reason-less non-assumed entry above level 1 opens a
    new level. -/
theorem push_inv {s : State} (h : Inv s) {l : Int} {k : Nat} {a : Bool} {r : Option (List Int)}
    (hl : l ≠ 0) (hu : unbound s.es l = true) (hk : s.lvl ≤ k)
    (hr : ∀ c, r = some c → isUnit s.es l c = true)
    (hd : r = none → a = false → 2 ≤ k → s.lvl < k) : Inv (push s l k a r) := by
  have hu' := (unbound_iff _ _).1 hu
  have hes : (push s l k a r).es = s.es ++ [⟨l, k, a, r⟩] := rfl
  have hlv : (push s l k a r).lvl = k := rfl
  refine ⟨⟨?_, ?_, ?_, ?_⟩, ?_, ?_, ?_, ?_⟩
  · rw [hes, List.pairwise_append]
    refine ⟨h.trail.nodup, List.pairwise_singleton _ _, fun x hx y hy => ?_⟩
    rw [List.mem_singleton] at hy; subst hy
    exact hu' x hx
  · intro e he
    rw [hes, List.mem_append, List.mem_singleton] at he
    rcases he with he | rfl
    · exact h.trail.nonzero e he
    · exact hl
  · rw [hes, List.pairwise_append]
    refine ⟨h.trail.mono, List.pairwise_singleton _ _, fun x hx y hy => ?_⟩
    rw [List.mem_singleton] at hy; subst hy
    exact Nat.le_trans (h.trail.bound x hx) hk
  · intro e he
    rw [hes, List.mem_append, List.mem_singleton] at he
    rw [hlv]
    rcases he with he | rfl
    · exact Nat.le_trans (h.trail.bound e he) hk
    · exact Nat.le_refl _
  · intro pre e post c hsp hc
    rw [hes] at hsp
    rcases snoc_split hsp with ⟨_, rfl, rfl⟩ | ⟨post', _, hsp'⟩
    · have := (isUnit_iff _ _ _).1 (hr c hc)
      exact this
    · exact h.reasons pre e post' c hsp' hc
  · intro k' hk' pre e post hsp hr' ha hek x hx
    rw [hes] at hsp
    rcases snoc_split hsp with ⟨_, rfl, rfl⟩ | ⟨post', _, hsp'⟩
    · have hlt := hd hr' ha (by rw [← hek] at hk'; exact hk')
      have := h.trail.bound x hx
      simp only at hek
      omega
    · exact h.decisions k' hk' pre e post' hsp' hr' ha hek x hx
  · rw [hlv]; exact Nat.le_trans h.lvl_pos hk
  · intro e he
    rw [hes, List.mem_append, List.mem_singleton] at he
    rcases he with he | rfl
    · exact h.lvls_pos e he
    · exact Nat.le_trans h.lvl_pos hk

/-- Cutting the trail to a prefix whose levels are `≤ k`, continuing at level `k ≥ 1`. -/
theorem prefix_inv {s : State} (h : Inv s) {es' rest : List Entry} (hes : s.es = es' ++ rest)
    {k : Nat} (hk1 : 1 ≤ k) (hb : ∀ e ∈ es', e.lvl ≤ k) : Inv ⟨k, es'⟩ := by
  have hmem : ∀ e ∈ es', e ∈ s.es := fun e he => by rw [hes]; exact List.mem_append_left _ he
  have hsplit : ∀ {pre e post}, es' = pre ++ e :: post → s.es = pre ++ e :: (post ++ rest) := by
    intro pre e post h'; rw [hes, h']; simp
  refine ⟨⟨?_, ?_, ?_, hb⟩, ?_, ?_, hk1, ?_⟩
  · have := h.trail.nodup; rw [hes, List.pairwise_append] at this; exact this.1
  · exact fun e he => h.trail.nonzero e (hmem e he)
  · have := h.trail.mono; rw [hes, List.pairwise_append] at this; exact this.1
  · intro pre e post c hsp hc
    exact h.reasons pre e (post ++ rest) c (hsplit hsp) hc
  · intro k' hk' pre e post hsp hr ha hek
    exact h.decisions k' hk' pre e (post ++ rest) (hsplit hsp) hr ha hek
  · exact fun e he => h.lvls_pos e (hmem e he)


/-! ### one lemma per operation -/

theorem decide_preserves_inv {s s' : State} {l : Int} (h : Inv s)
    (hs : decideOp s l = some s') : Inv s' := by
  unfold decideOp at hs
  split at hs
  · rename_i hg
    cases hs
    simp only [Bool.and_eq_true, bne_iff_ne, ne_eq] at hg
    exact push_inv h hg.1 hg.2 (Nat.le_succ _) (fun c hc => by cases hc)
      (fun _ _ _ => Nat.lt_succ_self _)
  · cases hs

theorem propagate_preserves_inv {s s' : State} {l : Int} {c : List Int} (h : Inv s)
    (hs : propagateOp s l c = some s') : Inv s' := by
  unfold propagateOp at hs
  split at hs
  · rename_i hg
    cases hs
    simp only [Bool.and_eq_true, bne_iff_ne, ne_eq] at hg
    exact push_inv h hg.1.1 hg.1.2 (Nat.le_refl _) (fun c' hc => by cases hc; exact hg.2)
      (fun hn => by cases hn)
  · cases hs

theorem backjump_preserves_inv {s s' : State} {k : Nat} (h : Inv s)
    (hs : backjumpOp s k = some s') : Inv s' := by
  unfold backjumpOp at hs
  split at hs
  · rename_i hg
    cases hs
    simp only [Bool.and_eq_true, decide_eq_true_eq] at hg
    exact prefix_inv h (List.takeWhile_append_dropWhile (p := fun e => decide (e.lvl ≤ k))).symm
      hg.1 (fun e he => of_decide_eq_true (of_mem_takeWhile (p := fun e : Entry => decide (e.lvl ≤ k)) he))
  · cases hs

theorem assertLearned_preserves_inv {s s' : State} {l : Int} {c : List Int} {k : Nat} (h : Inv s)
    (hs : assertLearnedOp s l c k = some s') : Inv s' := by
  unfold assertLearnedOp at hs
  split at hs
  · rename_i s1 h1
    exact propagate_preserves_inv (backjump_preserves_inv h h1) hs
  · cases hs

theorem addFact_preserves_inv {s s' : State} {l : Int} (h : Inv s)
    (hs : addFactOp s l = some s') : Inv s' := by
  unfold addFactOp at hs
  split at hs
  · rename_i hg
    cases hs
    simp only [Bool.and_eq_true, bne_iff_ne, ne_eq, beq_iff_eq] at hg
    exact push_inv h hg.1.1 hg.1.2 (Nat.le_of_eq hg.2) (fun c hc => by cases hc)
      (fun _ _ h2 => by omega)
  · cases hs

theorem assume_preserves_inv {s s' : State} {l : Int} (h : Inv s)
    (hs : assumeOp s l = some s') : Inv s' := by
  unfold assumeOp at hs
  split at hs
  · rename_i hg
    cases hs
    simp only [Bool.and_eq_true, bne_iff_ne, ne_eq, beq_iff_eq] at hg
    exact push_inv h hg.1.1 hg.1.2 (Nat.le_of_eq hg.2) (fun c hc => by cases hc)
      (fun _ h1 _ => by cases h1)
  · cases hs

/-- **The invariant is inductive**: every successful step preserves it. -/
theorem step_preserves_inv {s s' : State} {o : Op} (h : Inv s) (hs : step s o = some s') :
    Inv s' := by
  cases o with
  | decide l => exact decide_preserves_inv h hs
  | propagate l c => exact propagate_preserves_inv h hs
  | backjump k => exact backjump_preserves_inv h hs
  | assertLearned l c k => exact assertLearned_preserves_inv h hs
  | addFact l => exact addFact_preserves_inv h hs
  | assume l => exact assume_preserves_inv h hs

theorem run_preserves_inv : ∀ (ops : List Op) {s s' : State}, Inv s → run s ops = some s' → Inv s'
  | [], s, s', h, hr => by cases hr; exact h
  | o :: os, s, s', h, hr => by
    rw [run] at hr
    split at hr
    · rename_i s1 h1
      exact run_preserves_inv os (step_preserves_inv h h1) hr
    · cases hr

/-! ### initial states -/

theorem init_inv : Inv empty := by
  refine ⟨⟨List.Pairwise.nil, ?_, List.Pairwise.nil, ?_⟩, ?_, ?_, Nat.le_refl _, ?_⟩
  · intro e he; cases he
  · intro e he; cases he
  · intro pre e post r h _; cases pre <;> cases h
  · intro _ _ pre e post h; cases pre <;> cases h
  · intro e he; cases he

theorem init_entry {units : List Int} {e : Entry} (he : e ∈ (init units).es) :
    e.lit ∈ units ∧ e.lvl = 1 ∧ e.assumed = false ∧ e.reason = none := by
  simp only [init, List.mem_map] at he
  obtain ⟨u, hu, rfl⟩ := he
  exact ⟨hu, rfl, rfl, rfl⟩

/-- `New` on a problem whose unit literals are non-zero over pairwise distinct variables. -/
theorem init_units_inv_partial {units : List Int} (hu : unitsOk units = true) :
    Inv (init units) := by
  simp only [unitsOk, Bool.and_eq_true, List.all_eq_true, bne_iff_ne, ne_eq] at hu
  refine ⟨⟨(noDupVars_iff _).1 hu.2, ?_, ?_, ?_⟩, ?_, ?_, Nat.le_refl _, ?_⟩
  · intro e he
    exact hu.1 _ (init_entry he).1
  · rw [List.pairwise_iff_forall_sublist]
    intro a b hab
    have ha := (init_entry (hab.subset (List.mem_cons_self))).2.1
    have hb := (init_entry (hab.subset (List.mem_cons_of_mem _ List.mem_cons_self))).2.1
    omega
  · intro e he
    have := (init_entry he).2.1
    show e.lvl ≤ 1
    omega
  · intro pre e post r hsp hr
    have he : e ∈ (init units).es := by rw [hsp]; simp
    rw [(init_entry he).2.2.2] at hr; cases hr
  · intro k hk pre e post hsp _ _ hek
    have he : e ∈ (init units).es := by rw [hsp]; simp
    have := (init_entry he).2.1
    omega
  · intro e he
    have := (init_entry he).2.1
    omega

/-- The unrestricted statement about `New`'s trail … -/
def init_units_inv_statement : Prop :=
  ∀ units : List Int, (∀ u ∈ units, u ≠ 0) → Inv (init units)

/-- … is false: a unit clause given twice (`[[1], [1]]`: `parseSlice` appends both to `pb.Units`,
    `New` copies both onto the trail) puts variable 1 twice on the trail. -/
theorem init_units_inv_statement_false : ¬ init_units_inv_statement := by
  intro h
  have := (h [1, 1] (by decide)).trail.nodup
  revert this
  decide

example : unitsOk [1, 1] = false := by decide
example : trailInv (init [1, 1]).es 1 = false := by decide
example : unitsOk [3, -1, 2] = true := by decide

/-- **Reachable states meet the invariant** (empty initial trail). -/
theorem reachable_inv {ops : List Op} {s : State} (hr : run empty ops = some s) : Inv s :=
  run_preserves_inv ops init_inv hr

/-- The same from `New`'s initial trail, under the guard that excludes repeated unit variables. -/
theorem reachable_inv_partial {units : List Int} {ops : List Op} {s : State}
    (hu : unitsOk units = true) (hr : run (init units) ops = some s) : Inv s :=
  run_preserves_inv ops (init_units_inv_partial hu) hr


/-! ### the Boolean checks the driver evaluates hold in every state meeting `Inv` -/

theorem Inv.bool {s : State} (h : Inv s) :
    trailInv s.es s.lvl = true ∧ reasonsCnf s.es = true ∧
    (2 ≤ s.lvl → decisionsOk s.es s.lvl = true) :=
  ⟨(trailInv_iff _ _).2 h.trail, (reasonsCnf_iff' _).2 h.reasons,
   fun h2 => (decisionsOk_iff _ _).2 (h.decisions _ h2)⟩

/-- `invB` decides the invariant. -/
theorem invB_iff (s : State) : invB s = true ↔ Inv s := by
  simp only [invB, Bool.and_eq_true, trailInv_iff, reasonsCnf_iff', List.all_eq_true,
    List.mem_range, Bool.or_eq_true, decide_eq_true_eq, decisionsOk_iff]
  constructor
  · rintro ⟨⟨⟨⟨h1, h2⟩, h3⟩, h4⟩, h5⟩
    refine ⟨h1, h2, fun k hk => ?_, h4, h5⟩
    by_cases hkl : k < s.lvl + 1
    · exact (h3 k hkl).resolve_left (by omega)
    · intro pre e post hsp _ _ hek
      have he : e ∈ s.es := by rw [hsp]; simp
      have := h1.bound e he
      omega
  · intro h
    exact ⟨⟨⟨⟨h.trail, h.reasons⟩, fun k _ => by
      by_cases hk : k < 2
      · exact Or.inl hk
      · exact Or.inr (h.decisions k (by omega))⟩, h.lvl_pos⟩, h.lvls_pos⟩

/-- The executable form: the Boolean bundle is preserved by every successful step, and holds
    (with the three checks the driver op `analyze_inv` evaluates) after every accepted run. -/
theorem step_preserves_invB {s s' : State} {o : Op} (h : invB s = true)
    (hs : step s o = some s') : invB s' = true :=
  (invB_iff s').2 (step_preserves_inv ((invB_iff s).1 h) hs)

theorem reachable_invB {units : List Int} {ops : List Op} {s : State}
    (hu : unitsOk units = true) (hr : run (init units) ops = some s) :
    invB s = true ∧ trailInv s.es s.lvl = true ∧ reasonsCnf s.es = true ∧
    (2 ≤ s.lvl → decisionsOk s.es s.lvl = true) :=
  have hi := reachable_inv_partial hu hr
  ⟨(invB_iff s).2 hi, hi.bool⟩

/-! ### a falsified clause at the current level is a well-formed conflict -/

theorem falsified_iff (s : State) (confl : List Int) :
    falsified s confl = true ↔
      (∀ l ∈ confl, isFalse s.es l = true) ∧ confl.Pairwise (· ≠ ·) ∧
      ∃ l ∈ confl, lvOf s.es l.natAbs = s.lvl := by
  simp only [falsified, Bool.and_eq_true, List.all_eq_true, decide_eq_true_eq, List.any_eq_true,
    beq_iff_eq, and_assoc]

/-- **`conflOk` holds** for a clause all of whose literals are false, pairwise distinct, one of
    them bound at the current level. -/
theorem conflict_ok {s : State} {confl : List Int} (hf : falsified s confl = true) :
    conflOk s.es s.lvl confl = true := by
  obtain ⟨hall, hpw, l, hl, hlv⟩ := (falsified_iff s confl).1 hf
  unfold conflOk
  simp only [List.filter_eq_self.2 hall, Bool.and_eq_true, decide_eq_true_eq, List.any_eq_true,
    beq_iff_eq]
  exact ⟨hpw, l, hl, hlv⟩

/-! ### where antecedents and facts come from -/

/-- Side condition on an operation: the clause it installs as antecedent / the fact it adds
    satisfies `P` (in the applications `P = CnfEntails db`: a clause of the problem, a learned
    clause, a learned unit). -/
def OpOk (P : List Int → Prop) : Op → Prop
  | .propagate _ c => P c
  | .assertLearned _ c _ => P c
  | .addFact l => P [l]
  | _ => True

/-- Every antecedent on the trail satisfies `P`, and so does (as a unit clause) every
    level-1 literal without antecedent that is not an assumption. -/
structure Sourced (P : List Int → Prop) (s : State) : Prop where
  reasons : ∀ e ∈ s.es, ∀ r, e.reason = some r → P r
  facts : ∀ e ∈ s.es, e.reason = none → e.assumed = false → e.lvl = 1 → P [e.lit]

theorem push_sourced {P : List Int → Prop} {s : State} (h : Sourced P s) {l : Int} {k : Nat}
    {a : Bool} {r : Option (List Int)} (hr : ∀ c, r = some c → P c)
    (hf : r = none → a = false → k = 1 → P [l]) : Sourced P (push s l k a r) := by
  have hes : (push s l k a r).es = s.es ++ [⟨l, k, a, r⟩] := rfl
  constructor
  · intro e he c hc
    rw [hes, List.mem_append, List.mem_singleton] at he
    rcases he with he | rfl
    · exact h.reasons e he c hc
    · exact hr c hc
  · intro e he h1 h2 h3
    rw [hes, List.mem_append, List.mem_singleton] at he
    rcases he with he | rfl
    · exact h.facts e he h1 h2 h3
    · exact hf h1 h2 h3

theorem sub_sourced {P : List Int → Prop} {s : State} (h : Sourced P s) {es' : List Entry}
    (hsub : ∀ e ∈ es', e ∈ s.es) (k : Nat) : Sourced P ⟨k, es'⟩ :=
  ⟨fun e he => h.reasons e (hsub e he), fun e he => h.facts e (hsub e he)⟩

theorem backjump_sourced {P : List Int → Prop} {s s' : State} {k : Nat} (h : Sourced P s)
    (hs : backjumpOp s k = some s') : Sourced P s' := by
  unfold backjumpOp at hs
  split at hs
  · cases hs
    exact sub_sourced h (fun e he => (List.takeWhile_sublist _).subset he) k
  · cases hs

theorem propagate_sourced {P : List Int → Prop} {s s' : State} {l : Int} {c : List Int}
    (h : Sourced P s) (hc : P c) (hs : propagateOp s l c = some s') : Sourced P s' := by
  unfold propagateOp at hs
  split at hs
  · cases hs
    exact push_sourced h (fun c' hc' => by cases hc'; exact hc) (fun hn => by cases hn)
  · cases hs

theorem step_preserves_sourced {P : List Int → Prop} {s s' : State} {o : Op} (hi : Inv s)
    (h : Sourced P s) (ho : OpOk P o) (hs : step s o = some s') : Sourced P s' := by
  cases o with
  | decide l =>
    simp only [step, decideOp] at hs
    split at hs
    · cases hs
      exact push_sourced h (fun c hc => by cases hc)
        (fun _ _ hk => by have := hi.lvl_pos; omega)
    · cases hs
  | propagate l c => exact propagate_sourced h ho hs
  | backjump k => exact backjump_sourced h hs
  | assertLearned l c k =>
    simp only [step, assertLearnedOp] at hs
    split at hs
    · rename_i s1 h1
      exact propagate_sourced (backjump_sourced h h1) ho hs
    · cases hs
  | addFact l =>
    simp only [step, addFactOp] at hs
    split at hs
    · cases hs
      exact push_sourced h (fun c hc => by cases hc) (fun _ _ _ => ho)
    · cases hs
  | assume l =>
    simp only [step, assumeOp] at hs
    split at hs
    · cases hs
      exact push_sourced h (fun c hc => by cases hc) (fun _ ha _ => by cases ha)
    · cases hs

theorem run_preserves_sourced {P : List Int → Prop} : ∀ (ops : List Op) {s s' : State}, Inv s →
    Sourced P s → (∀ o ∈ ops, OpOk P o) → run s ops = some s' → Sourced P s'
  | [], s, s', _, h, _, hr => by cases hr; exact h
  | o :: os, s, s', hi, h, ho, hr => by
    rw [run] at hr
    split at hr
    · rename_i s1 h1
      exact run_preserves_sourced os (step_preserves_inv hi h1)
        (step_preserves_sourced hi h (ho o List.mem_cons_self) h1)
        (fun o' ho' => ho o' (List.mem_cons_of_mem _ ho')) hr
    · cases hr

theorem init_sourced {P : List Int → Prop} {units : List Int} (hu : ∀ u ∈ units, P [u]) :
    Sourced P (init units) :=
  ⟨fun e he r hr => (by rw [(init_entry he).2.2.2] at hr; cases hr),
   fun e he _ _ _ => hu _ (init_entry he).1⟩

theorem empty_sourced {P : List Int → Prop} : Sourced P empty := by
  constructor
  · intro e he; cases he
  · intro e he; cases he

/-- The premise `FactsEntailed` of `analyze_sound_cnf`: at a level `≥ 2` it is vacuous (only the
    decision has no antecedent), at level 1 the reason-less literals are the facts. -/
theorem factsEntailed {db : List (List Int)} {s : State} (h : Inv s)
    (hs : Sourced (CnfEntails db) s) : FactsEntailed db s.es s.lvl := by
  intro pre e post hsp hr ha hlv ⟨x, hx, hxl⟩
  by_cases h2 : 2 ≤ s.lvl
  · exact absurd hxl (h.decisions _ h2 pre e post hsp hr ha hlv x hx)
  · have he : e ∈ s.es := by rw [hsp]; simp
    have := h.lvl_pos
    exact hs.facts e he hr ha (by omega)


/-! ### every hypothesis of the analysis theorems holds in a conflict state -/

/-- What the three theorems of `GS.Props.C01_Analyze` give together on the snapshot `st`
    with analysed trail `es` at level `lvl`. -/
def AnalysisOk (db : List (List Int)) (es : List Entry) (lvl : Nat) (st : St) : Prop :=
  analyze st ≠ .stuck ∧
  (∀ a rest, analyze st = .learned a rest →
    CnfEntails db (a :: rest) ∧ rest ≠ [] ∧ isFalse es a = true ∧ lvOf es a.natAbs = lvl ∧
    (∀ l ∈ rest, isFalse es l = true ∧ lvOf es l.natAbs < lvl) ∧
    rest.Pairwise (fun x y => lvOf es y.natAbs ≤ lvOf es x.natAbs)) ∧
  (∀ l, analyze st = .unit l →
    CnfEntails db [l] ∧ isFalse es l = true ∧ lvOf es l.natAbs = lvl)

/-- `analyze_sound_cnf`, `analyze_asserting`, `analyze_not_stuck` instantiated on a state that
    meets the invariant, whose antecedents and facts are entailed by `db`, with a falsified
    conflict clause entailed by `db`. -/
theorem inv_analyze_sound (db : List (List Int)) {s : State} {confl : List Int} (h : Inv s)
    (hs : Sourced (CnfEntails db) s) (hf : falsified s confl = true) (hc : CnfEntails db confl) :
    AnalysisOk db s.es s.lvl (s.toSt confl) := by
  have he := entries_toSt s confl
  have hb := h.bool
  have hall := ((falsified_iff s confl).1 hf).1
  have hinv : trailInv (s.toSt confl).entries (s.toSt confl).lvl = true := by rw [he]; exact hb.1
  have h1 := analyze_sound_cnf db (s.toSt confl) hinv (by rw [he]; exact hb.2.1)
    (by rw [he]; exact hs.reasons) (by rw [he]; exact factsEntailed h hs)
    (by rw [he]; exact confl_filter_entailed hall hc)
  have h2 := analyze_asserting (s.toSt confl) hinv
  rw [he] at h2
  have h3 := analyze_not_stuck (s.toSt confl)
    (by rw [he]; exact (noDupVars_iff _).2 h.trail.nodup) (by rw [he]; exact conflict_ok hf)
  exact ⟨h3, fun a rest ha => ⟨h1.1 a rest ha, h2.1 a rest ha⟩,
    fun l hl => ⟨h1.2 l hl, h2.2 l hl⟩⟩

/-- **Conflict analysis is sound in every reachable conflict state.**  `ops` is any operation
    sequence the machine accepts from the empty trail; the clauses it installs as antecedents
    and the facts it adds are entailed by `db`; `confl` is a clause entailed by `db` that the
    trail falsifies at the current level.  No hypothesis on the state is left. -/
theorem reachable_analyze_sound (db : List (List Int)) {ops : List Op} {s : State}
    {confl : List Int} (hrun : run empty ops = some s)
    (hops : ∀ o ∈ ops, OpOk (CnfEntails db) o)
    (hf : falsified s confl = true) (hc : CnfEntails db confl) :
    AnalysisOk db s.es s.lvl (s.toSt confl) :=
  inv_analyze_sound db (reachable_inv hrun)
    (run_preserves_sourced ops init_inv
      empty_sourced hops hrun) hf hc

/-- The same from `New`'s trail `init units`, under the guard `unitsOk`. -/
theorem reachable_analyze_sound_partial (db : List (List Int)) {units : List Int} {ops : List Op}
    {s : State} {confl : List Int} (hu : unitsOk units = true)
    (hrun : run (init units) ops = some s)
    (hunits : ∀ u ∈ units, CnfEntails db [u])
    (hops : ∀ o ∈ ops, OpOk (CnfEntails db) o)
    (hf : falsified s confl = true) (hc : CnfEntails db confl) :
    AnalysisOk db s.es s.lvl (s.toSt confl) :=
  inv_analyze_sound db (reachable_inv_partial hu hrun)
    (run_preserves_sourced ops (init_units_inv_partial hu) (init_sourced hunits) hops hrun) hf hc

/-! ### semantic meaning of the invariant -/

theorem noReason_cases {s : State} {e : Entry} (he : e ∈ s.es) (hr : e.reason = none) :
    e.lit ∈ facts s ∨ e.lit ∈ decisions s ∨ e.lit ∈ assumptions s := by
  cases ha : e.assumed with
  | true =>
    right; right
    exact List.mem_map.2 ⟨e, List.mem_filter.2 ⟨he, by simp [hr, ha]⟩, rfl⟩
  | false =>
    by_cases hl : 2 ≤ e.lvl
    · right; left
      exact List.mem_map.2 ⟨e, List.mem_filter.2 ⟨he, by simp [hr, ha, hl]⟩, rfl⟩
    · left
      exact List.mem_map.2 ⟨e, List.mem_filter.2 ⟨he, by simp [hr, ha]; omega⟩, rfl⟩

/-- In a state meeting the invariant, an assignment that satisfies the clauses used as
    antecedents, the facts, the decisions and the assumptions makes every trail literal true. -/
theorem inv_entailed {s : State} (h : Inv s) (A : Asg)
    (hR : ∀ c ∈ reasonClauses s, clauseTrue A c = true)
    (hF : ∀ l ∈ facts s, litTrue A l = true)
    (hD : ∀ l ∈ decisions s, litTrue A l = true)
    (hAs : ∀ l ∈ assumptions s, litTrue A l = true) :
    ∀ e ∈ s.es, litTrue A e.lit = true := by
  have main : ∀ (n : Nat) (pre post : List Entry), s.es = pre ++ post → pre.length = n →
      ∀ e ∈ pre, litTrue A e.lit = true := by
    intro n
    induction n with
    | zero =>
      intro pre post _ hlen e he
      have : pre = [] := List.eq_nil_of_length_eq_zero hlen
      subst this; cases he
    | succ n ih =>
      intro pre post hsp hlen e he
      rcases List.eq_nil_or_concat pre with rfl | ⟨pre', x, rfl⟩
      · cases he
      · rw [List.concat_eq_append] at hsp hlen he
        have hsp' : s.es = pre' ++ x :: post := by rw [hsp]; simp
        have hlen' : pre'.length = n := by simpa using hlen
        have ihp := ih pre' (x :: post) hsp' hlen'
        rw [List.mem_append, List.mem_singleton] at he
        rcases he with he | rfl
        · exact ihp e he
        · have hes : e ∈ s.es := by rw [hsp']; simp
          cases hr : e.reason with
          | none =>
            rcases noReason_cases hes hr with h1 | h1 | h1
            · exact hF _ h1
            · exact hD _ h1
            · exact hAs _ h1
          | some r =>
            have hrt := hR r (List.mem_filterMap.2 ⟨e, hes, hr⟩)
            rw [clauseTrue_iff] at hrt
            obtain ⟨f, hf, hft⟩ := hrt
            by_cases hfe : f = e.lit
            · rw [← hfe]; exact hft
            · have hfalse := (h.reasons pre' e post r hsp' hr).2 f hf hfe
              obtain ⟨y, hy, hyl⟩ := (isFalse_iff _ _).1 hfalse
              have hy0 : y.lit ≠ 0 := h.trail.nonzero y (by rw [hsp']; simp [hy])
              have hf0 : f ≠ 0 := by omega
              have := litTrue_neg_false hf0 (by rw [← hyl]; exact ihp y hy)
              rw [this] at hft; cases hft
  exact main s.es.length s.es [] (by simp) rfl

/-- **Every trail literal of a reachable state is entailed** by the clauses used as
    antecedents, the facts, the decisions made so far (and the assumptions). -/
theorem reachable_entailed {ops : List Op} {s : State} (hrun : run empty ops = some s) (A : Asg)
    (hR : ∀ c ∈ reasonClauses s, clauseTrue A c = true)
    (hF : ∀ l ∈ facts s, litTrue A l = true)
    (hD : ∀ l ∈ decisions s, litTrue A l = true)
    (hAs : ∀ l ∈ assumptions s, litTrue A l = true) :
    ∀ e ∈ s.es, litTrue A e.lit = true :=
  inv_entailed (reachable_inv hrun) A hR hF hD hAs

/-- The same against a clause database: when the antecedents installed and the facts added by
    `ops` are entailed by `db`, every trail literal follows from `db`, the decisions and the
    assumptions. -/
theorem reachable_entailed_db (db : List (List Int)) {ops : List Op} {s : State}
    (hrun : run empty ops = some s) (hops : ∀ o ∈ ops, OpOk (CnfEntails db) o) :
    ∀ e ∈ s.es, CnfEntails (db ++ (decisions s ++ assumptions s).map (fun l => [l])) [e.lit] := by
  intro e he A hA
  have hi := reachable_inv hrun
  have hs : Sourced (CnfEntails db) s := run_preserves_sourced ops init_inv
      empty_sourced hops hrun
  simp only [cnfTrue, List.all_append, Bool.and_eq_true, List.all_eq_true, List.mem_map,
    List.mem_append, forall_exists_index, and_imp] at hA
  have hdb : cnfTrue A db = true := by
    simp only [cnfTrue, List.all_eq_true]; exact hA.1
  have hunit : ∀ l, l ∈ decisions s ∨ l ∈ assumptions s → litTrue A l = true := by
    intro l hl
    have := hA.2 [l] l hl rfl
    simpa [clauseTrue] using this
  have := inv_entailed hi A
    (fun c hc => by
      obtain ⟨x, hx, hxr⟩ := List.mem_filterMap.1 hc
      exact hs.reasons x hx c hxr A hdb)
    (fun l hl => by
      obtain ⟨x, hx, rfl⟩ := List.mem_map.1 hl
      obtain ⟨hx1, hx2⟩ := List.mem_filter.1 hx
      simp only [Bool.and_eq_true, Option.isNone_iff_eq_none, Bool.not_eq_true',
        decide_eq_true_eq] at hx2
      have h1 := hi.lvls_pos x hx1
      have := hs.facts x hx1 hx2.1.1 hx2.1.2 (by omega) A hdb
      simpa [clauseTrue] using this)
    (fun l hl => hunit l (Or.inl hl)) (fun l hl => hunit l (Or.inr hl)) e he
  simpa [clauseTrue] using this


/-! ### `cleanupBindings` drops exactly the entries above the level -/

theorem takeWhile_eq_filter_of_mono (k : Nat) : ∀ {es : List Entry},
    es.Pairwise (fun x y => x.lvl ≤ y.lvl) →
    es.takeWhile (fun e => decide (e.lvl ≤ k)) = es.filter (fun e => decide (e.lvl ≤ k))
  | [], _ => rfl
  | x :: xs, h => by
    rw [List.pairwise_cons] at h
    rw [List.takeWhile_cons, List.filter_cons]
    by_cases hx : x.lvl ≤ k
    · simp only [hx, decide_true, if_true]
      rw [takeWhile_eq_filter_of_mono k h.2]
    · simp only [hx, decide_false, Bool.false_eq_true, if_false]
      symm
      rw [List.filter_eq_nil_iff]
      intro y hy
      have := h.1 y hy
      simp only [decide_eq_true_eq]
      omega

/-- On a trail with monotone levels, `backjump k` keeps exactly the entries of level `≤ k`. -/
theorem mem_backjump {s s' : State} {k : Nat} (hm : s.es.Pairwise (fun x y => x.lvl ≤ y.lvl))
    (hs : backjumpOp s k = some s') :
    s'.lvl = k ∧ s'.es = s.es.filter (fun e => decide (e.lvl ≤ k)) ∧
    ∀ e, e ∈ s'.es ↔ e ∈ s.es ∧ e.lvl ≤ k := by
  unfold backjumpOp at hs
  split at hs
  · cases hs
    refine ⟨rfl, takeWhile_eq_filter_of_mono k hm, fun e => ?_⟩
    show e ∈ s.es.takeWhile _ ↔ _
    rw [takeWhile_eq_filter_of_mono k hm, List.mem_filter, decide_eq_true_eq]
  · cases hs

/-! ### the loop closes: the result of the analysis is an enabled operation -/

/-- **The learned clause is unit after the backjump** (`backtrackData` + `cleanupBindings` +
    `unifyLiteral`): in a state meeting the invariant, if the analysis returns `learned a rest`,
    the operation `assertLearned a (a :: rest) btLevel`, with `btLevel` the level of the first
    literal of `rest` as `backtrackData` reads it, is accepted by the machine. -/
theorem assertLearned_enabled {s : State} {confl : List Int} {a : Int} {rest : List Int}
    (h : Inv s) (ha : analyze (s.toSt confl) = .learned a rest) :
    ∃ s', step s (.assertLearned a (a :: rest) (lvOf s.es (rest.headD 0).natAbs)) = some s' ∧
      s'.lvl = lvOf s.es (rest.headD 0).natAbs ∧ s'.lvl < s.lvl ∧
      s'.es = s.es.filter (fun e => decide (e.lvl ≤ s'.lvl)) ++
        [⟨a, s'.lvl, false, some (a :: rest)⟩] := by
  have he := entries_toSt s confl
  have hinv : trailInv (s.toSt confl).entries (s.toSt confl).lvl = true := by
    rw [he]; exact h.bool.1
  have h2 := (analyze_asserting (s.toSt confl) hinv).1 a rest ha
  rw [he] at h2
  obtain ⟨hne, hfa, hla, hrest, hsorted⟩ := h2
  change lvOf s.es a.natAbs = s.lvl at hla
  have hrest' : ∀ l ∈ rest, isFalse s.es l = true ∧ lvOf s.es l.natAbs < s.lvl := hrest
  obtain ⟨b, rest', rfl⟩ := List.exists_cons_of_ne_nil hne
  simp only [List.headD_cons]
  -- a false literal sits on the trail at the level `lvOf` reports
  have hlv : ∀ f, isFalse s.es f = true → ∃ y ∈ s.es, y.lit = -f ∧ y.lvl = lvOf s.es f.natAbs := by
    intro f hf
    obtain ⟨y, hy, hyl⟩ := (isFalse_iff _ _).1 hf
    refine ⟨y, hy, hyl, ?_⟩
    rw [← natAbs_of_lit_eq_neg hyl, lvOf_of_mem h.trail.nodup hy]
  obtain ⟨yb, hyb, _, hybl⟩ := hlv b (hrest' b List.mem_cons_self).1
  have hbt1 : 1 ≤ lvOf s.es b.natAbs := by rw [← hybl]; exact h.lvls_pos yb hyb
  have hbtlt : lvOf s.es b.natAbs < s.lvl := (hrest' b List.mem_cons_self).2
  -- the backjump is accepted
  have hbj : backjumpOp s (lvOf s.es b.natAbs) =
      some ⟨lvOf s.es b.natAbs, s.es.takeWhile (fun e => decide (e.lvl ≤ lvOf s.es b.natAbs))⟩ := by
    unfold backjumpOp
    rw [if_pos]
    simp only [Bool.and_eq_true, decide_eq_true_eq]
    exact ⟨hbt1, Nat.le_of_lt hbtlt⟩
  obtain ⟨_, hfil, hmem⟩ := mem_backjump h.trail.mono hbj
  simp only at hfil hmem
  -- the asserting literal is non-zero, unbound after the backjump, and the clause is unit on it
  obtain ⟨ya, hya, hyal, hyalv⟩ := hlv a hfa
  have ha0 : a ≠ 0 := by have := h.trail.nonzero ya hya; omega
  have hub : unbound (s.es.takeWhile (fun e => decide (e.lvl ≤ lvOf s.es b.natAbs))) a = true := by
    rw [unbound_iff]
    intro e hem hev
    obtain ⟨hes, hel⟩ := (hmem e).1 hem
    have := lvOf_of_mem h.trail.nodup hes
    rw [hev, hla] at this
    omega
  have hunit : isUnit (s.es.takeWhile (fun e => decide (e.lvl ≤ lvOf s.es b.natAbs))) a
      (a :: b :: rest') = true := by
    rw [isUnit_iff]
    refine ⟨List.mem_cons_self, fun f hf hfa' => ?_⟩
    have hfr : f ∈ b :: rest' := (List.mem_cons.1 hf).resolve_left hfa'
    obtain ⟨y, hy, hyl, hylv⟩ := hlv f (hrest' f hfr).1
    have hle : lvOf s.es f.natAbs ≤ lvOf s.es b.natAbs := by
      rcases List.mem_cons.1 hfr with rfl | hfr'
      · exact Nat.le_refl _
      · exact (List.pairwise_cons.1 hsorted).1 f hfr'
    exact (isFalse_iff _ _).2 ⟨y, (hmem y).2 ⟨hy, by omega⟩, hyl⟩
  refine ⟨push ⟨lvOf s.es b.natAbs, s.es.takeWhile (fun e => decide (e.lvl ≤ lvOf s.es b.natAbs))⟩
      a (lvOf s.es b.natAbs) false (some (a :: b :: rest')), ?_, rfl, hbtlt, ?_⟩
  · simp only [step, assertLearnedOp, hbj, propagateOp]
    rw [if_pos]
    simp only [Bool.and_eq_true, bne_iff_ne, ne_eq]
    exact ⟨⟨ha0, hub⟩, hunit⟩
  · show _ ++ _ = _
    rw [hfil]; rfl

/-- **A learned unit is an enabled fact** after the restart to level 1 (`cleanupBindings(1)`,
    `addLearnedUnit`, `unifyLiteral(unit, 1)`), when the conflict was above the top level. -/
theorem learnedUnit_enabled {s : State} {confl : List Int} {l : Int}
    (h : Inv s) (h2 : 2 ≤ s.lvl) (hl : analyze (s.toSt confl) = .unit l) :
    ∃ s', run s [.backjump 1, .addFact l] = some s' ∧ s'.lvl = 1 ∧
      s'.es = s.es.filter (fun e => decide (e.lvl ≤ 1)) ++ [⟨l, 1, false, none⟩] := by
  have he := entries_toSt s confl
  have hinv : trailInv (s.toSt confl).entries (s.toSt confl).lvl = true := by
    rw [he]; exact h.bool.1
  have h3 := (analyze_asserting (s.toSt confl) hinv).2 l hl
  rw [he] at h3
  obtain ⟨hfl, hll⟩ := h3
  change lvOf s.es l.natAbs = s.lvl at hll
  obtain ⟨y, hy, hyl⟩ := (isFalse_iff _ _).1 hfl
  have hl0 : l ≠ 0 := by have := h.trail.nonzero y hy; omega
  have hbj : backjumpOp s 1 = some ⟨1, s.es.takeWhile (fun e => decide (e.lvl ≤ 1))⟩ := by
    unfold backjumpOp
    rw [if_pos]
    simp only [Bool.and_eq_true, decide_eq_true_eq]
    exact ⟨Nat.le_refl _, by omega⟩
  obtain ⟨_, hfil, hmem⟩ := mem_backjump h.trail.mono hbj
  simp only at hfil hmem
  have hub : unbound (s.es.takeWhile (fun e => decide (e.lvl ≤ 1))) l = true := by
    rw [unbound_iff]
    intro e hem hev
    obtain ⟨hes, hel⟩ := (hmem e).1 hem
    have := lvOf_of_mem h.trail.nodup hes
    rw [hev, hll] at this
    omega
  refine ⟨push ⟨1, s.es.takeWhile (fun e => decide (e.lvl ≤ 1))⟩ l 1 false none, ?_, rfl, ?_⟩
  · simp only [run, step, hbj, addFactOp]
    rw [if_pos]
    simp only [Bool.and_eq_true, bne_iff_ne, ne_eq, beq_iff_eq]
    exact ⟨⟨hl0, hub⟩, trivial⟩
  · show _ ++ _ = _
    rw [hfil]


/-- At the top level the analysis never returns a clause (there is no level to jump back to):
    it answers `unit` — false at level 1, `propagateAndSearch` then returns `Unsat` — or
    `topLevel`. -/
theorem level1_no_learned {s : State} {confl : List Int} (h : Inv s) (h1 : s.lvl = 1)
    (a : Int) (rest : List Int) : analyze (s.toSt confl) ≠ .learned a rest := by
  intro ha
  have he := entries_toSt s confl
  have hinv : trailInv (s.toSt confl).entries (s.toSt confl).lvl = true := by
    rw [he]; exact h.bool.1
  have h2 := (analyze_asserting (s.toSt confl) hinv).1 a rest ha
  rw [he] at h2
  obtain ⟨hne, _, _, hrest, _⟩ := h2
  obtain ⟨b, rest', rfl⟩ := List.exists_cons_of_ne_nil hne
  obtain ⟨hfb, hlb⟩ := hrest b List.mem_cons_self
  change lvOf s.es b.natAbs < s.lvl at hlb
  obtain ⟨y, hy, hyl⟩ := (isFalse_iff _ _).1 hfb
  have := lvOf_of_mem h.trail.nodup hy
  rw [natAbs_of_lit_eq_neg hyl] at this
  have := h.lvls_pos y hy
  omega

/-! ### one decision per level -/

/-- Every level `2 … lvl` has its decision on the trail (with `Inv.decisions`: exactly one, the
    first entry of the level — what `decisionLits` relies on: `lits := make([]Lit, lvls-1)`). -/
def HasDecisions (s : State) : Prop :=
  ∀ k, 2 ≤ k → k ≤ s.lvl → ∃ e ∈ s.es, e.lvl = k ∧ e.reason = none ∧ e.assumed = false

theorem push_hasDecisions {s : State} (h : HasDecisions s) {l : Int} {k : Nat} {a : Bool}
    {r : Option (List Int)} (hk : k = s.lvl ∨ (k = s.lvl + 1 ∧ r = none ∧ a = false)) :
    HasDecisions (push s l k a r) := by
  intro k' h2 hle
  change k' ≤ k at hle
  by_cases hold : k' ≤ s.lvl
  · obtain ⟨e, he, h'⟩ := h k' h2 hold
    exact ⟨e, List.mem_append_left _ he, h'⟩
  · rcases hk with hk | ⟨hk, hr, ha⟩
    · omega
    · refine ⟨⟨l, k, a, r⟩, List.mem_append_right _ List.mem_cons_self, ?_, hr, ha⟩
      show k = k'
      omega

theorem backjump_hasDecisions {s s' : State} {k : Nat} (hi : Inv s) (h : HasDecisions s)
    (hs : backjumpOp s k = some s') : HasDecisions s' := by
  obtain ⟨hl, _, hmem⟩ := mem_backjump hi.trail.mono hs
  have hk : k ≤ s.lvl := by
    unfold backjumpOp at hs
    split at hs
    · rename_i hg
      simp only [Bool.and_eq_true, decide_eq_true_eq] at hg
      exact hg.2
    · cases hs
  intro k' h2 hle
  rw [hl] at hle
  obtain ⟨e, he, hek, h'⟩ := h k' h2 (Nat.le_trans hle hk)
  exact ⟨e, (hmem e).2 ⟨he, by omega⟩, hek, h'⟩

theorem propagate_hasDecisions {s s' : State} {l : Int} {c : List Int} (h : HasDecisions s)
    (hs : propagateOp s l c = some s') : HasDecisions s' := by
  unfold propagateOp at hs
  split at hs
  · cases hs; exact push_hasDecisions h (Or.inl rfl)
  · cases hs

theorem step_preserves_hasDecisions {s s' : State} {o : Op} (hi : Inv s) (h : HasDecisions s)
    (hs : step s o = some s') : HasDecisions s' := by
  cases o with
  | decide l =>
    simp only [step, decideOp] at hs
    split at hs
    · cases hs; exact push_hasDecisions h (Or.inr ⟨rfl, rfl, rfl⟩)
    · cases hs
  | propagate l c => exact propagate_hasDecisions h hs
  | backjump k => exact backjump_hasDecisions hi h hs
  | assertLearned l c k =>
    simp only [step, assertLearnedOp] at hs
    split at hs
    · rename_i s1 h1
      exact propagate_hasDecisions (backjump_hasDecisions hi h h1) hs
    · cases hs
  | addFact l =>
    simp only [step, addFactOp] at hs
    split at hs
    · rename_i hg
      cases hs
      simp only [Bool.and_eq_true, beq_iff_eq] at hg
      exact push_hasDecisions h (Or.inl hg.2.symm)
    · cases hs
  | assume l =>
    simp only [step, assumeOp] at hs
    split at hs
    · rename_i hg
      cases hs
      simp only [Bool.and_eq_true, beq_iff_eq] at hg
      exact push_hasDecisions h (Or.inl hg.2.symm)
    · cases hs

theorem run_preserves_hasDecisions : ∀ (ops : List Op) {s s' : State}, Inv s → HasDecisions s →
    run s ops = some s' → HasDecisions s'
  | [], s, s', _, h, hr => by cases hr; exact h
  | o :: os, s, s', hi, h, hr => by
    rw [run] at hr
    split at hr
    · rename_i s1 h1
      exact run_preserves_hasDecisions os (step_preserves_inv hi h1)
        (step_preserves_hasDecisions hi h h1) hr
    · cases hr

/-- Two reason-less, non-assumed entries of the same level `≥ 2` are the same entry. -/
theorem decision_unique {s : State} (h : Inv s) {k : Nat} (hk : 2 ≤ k) {e1 e2 : Entry}
    (h1 : e1 ∈ s.es) (h2 : e2 ∈ s.es) (hr1 : e1.reason = none) (ha1 : e1.assumed = false)
    (hl1 : e1.lvl = k) (hr2 : e2.reason = none) (ha2 : e2.assumed = false) (hl2 : e2.lvl = k) :
    e1 = e2 := by
  obtain ⟨pre, post, hsp⟩ := List.append_of_mem h2
  rw [hsp, List.mem_append, List.mem_cons] at h1
  rcases h1 with h1 | rfl | h1
  · exact absurd hl1 (h.decisions k hk pre e2 post hsp hr2 ha2 hl2 e1 h1)
  · rfl
  · obtain ⟨p1, p2, hp⟩ := List.append_of_mem h1
    have hsp' : s.es = (pre ++ e2 :: p1) ++ e1 :: p2 := by rw [hsp, hp]; simp
    exact absurd hl2 (h.decisions k hk _ e1 p2 hsp' hr1 ha1 hl1 e2 (by simp))

/-- **In a reachable state every level `2 … lvl` has exactly one decision**, which is the first
    entry of its level. -/
theorem reachable_decisions {ops : List Op} {s : State} (hrun : run empty ops = some s) :
    ∀ k, 2 ≤ k → k ≤ s.lvl → ∃ e ∈ s.es, e.lvl = k ∧ e.reason = none ∧ e.assumed = false ∧
      (∀ e' ∈ s.es, e'.lvl = k → e'.reason = none → e'.assumed = false → e' = e) ∧
      ∀ pre post, s.es = pre ++ e :: post → ∀ x ∈ pre, x.lvl < k := by
  intro k h2 hle
  have hi := reachable_inv hrun
  obtain ⟨e, he, hek, hr, ha⟩ := run_preserves_hasDecisions ops init_inv
    (fun k h2 hle => by change k ≤ 1 at hle; omega) hrun k h2 hle
  refine ⟨e, he, hek, hr, ha, fun e' he' hl' hr' ha' => decision_unique hi h2 he' he hr' ha' hl' hr ha hek,
    fun pre post hsp x hx => ?_⟩
  have hne := hi.decisions k h2 pre e post hsp hr ha hek x hx
  have hmono := hi.trail.mono
  rw [hsp, List.pairwise_append] at hmono
  have := hmono.2.2 x hx e List.mem_cons_self
  omega

/-! ### concrete runs (non-vacuity) -/

theorem opsFrom_ok {db : List (List Int)} {ops : List Op} (h : opsFrom db ops = true) :
    ∀ o ∈ ops, OpOk (CnfEntails db) o := by
  intro o ho
  have := List.all_eq_true.1 h o ho
  cases o <;> simp only [opClause, List.contains_iff_mem] at this <;>
    first | exact entails_of_mem this | trivial

/-- Fact `7`, decisions `6` and `1`, four propagations … -/
def exOps : List Op :=
  [.addFact 7, .decide 6, .decide 1, .propagate 2 [-1, 2], .propagate 3 [-1, 3],
   .propagate 4 [-2, -3, 4], .propagate 5 [-4, 5]]

/-- … after which the clause `-5 ∨ -6 ∨ -3` is falsified at level 3. -/
def exConfl : List Int := [-5, -6, -3]

def exDb : List (List Int) := [[7], [-1, 2], [-1, 3], [-2, -3, 4], [-4, 5], [-5, -6, -3]]

def exState : State :=
  { lvl := 3,
    es := [⟨7, 1, false, none⟩, ⟨6, 2, false, none⟩, ⟨1, 3, false, none⟩,
           ⟨2, 3, false, some [-1, 2]⟩, ⟨3, 3, false, some [-1, 3]⟩,
           ⟨4, 3, false, some [-2, -3, 4]⟩, ⟨5, 3, false, some [-4, 5]⟩] }

/-- The machine accepts the operation list and ends in the conflict state; the executable
    analysis of `GS.Model.Analyze`, run on that state, learns `-1 ∨ -6` (first UIP `1`). -/
example : run empty exOps = some exState := by decide
example : falsified exState exConfl = true := by decide
example : analyze (exState.toSt exConfl) = .learned (-1) [-6] := by decide
example : invB exState = true := by decide
example : opsFrom exDb exOps = true := by decide

/-- The learned clause is asserted at the backjump level `2` read from `-6`
    (`assertLearned_enabled`), and the run can go on from there. -/
example : step exState (.assertLearned (-1) [-1, -6] (lvOf exState.es ((-6 : Int)).natAbs)) =
    some { lvl := 2, es := [⟨7, 1, false, none⟩, ⟨6, 2, false, none⟩,
                            ⟨-1, 2, false, some [-1, -6]⟩] } := by decide

/-- `reachable_analyze_sound` on this run: the learned clause follows from the six clauses. -/
example : CnfEntails exDb [-1, -6] :=
  ((reachable_analyze_sound exDb (ops := exOps) (s := exState) (confl := exConfl) (by decide)
    (opsFrom_ok (by decide)) (by decide) (entails_of_mem (by decide))).2.1 (-1) [-6]
    (by decide)).1

/-- `reachable_entailed_db` on this run: `5` follows from the clauses and the decisions. -/
example : CnfEntails (exDb ++ [[6], [1]]) [5] :=
  reachable_entailed_db exDb (ops := exOps) (s := exState) (by decide) (opsFrom_ok (by decide))
    ⟨5, 3, false, some [-4, 5]⟩ (by decide)

/-- `assertLearned_enabled` / `learnedUnit_enabled` meet their hypotheses. -/
example : ∃ s', step exState (.assertLearned (-1) [-1, -6] 2) = some s' ∧ s'.lvl = 2 := by
  obtain ⟨s', h1, h2, _⟩ := assertLearned_enabled (s := exState) (confl := exConfl)
    ((invB_iff _).1 (by decide)) (a := -1) (rest := [-6]) (by decide)
  exact ⟨s', h1, h2⟩

example : analyze ((⟨2, [⟨1, 2, false, none⟩, ⟨2, 2, false, some [-1, 2]⟩]⟩ : State).toSt [-2, -1])
    = .unit (-1) := by decide

/-- Assumptions: the walk stops at an assumed variable (`topLevel`). -/
example : (run empty [.assume 1, .assume 2, .propagate 3 [-1, -2, 3]]).map
    (fun s => (invB s, falsified s [-3, -1, -2], analyze (s.toSt [-3, -1, -2]))) =
    some (true, true, .topLevel) := by decide

/-! ### what is *not* preserved, with witnesses -/

/-- (1) `decisionsOk` at the current level is **not** an invariant at level 1: two facts (two
    unit clauses of the problem, or a fact and a learned unit) are two reason-less entries of
    level 1.  The run below is what `New` / the learned-unit branch do.  What the analysis needs at
    level 1 is `FactsEntailed`, provided by `factsEntailed` from `Sourced`; the invariant keeps
    `decisionsOk` at every level `≥ 2` (`Inv.decisions`, `Inv.bool`). -/
example : (run empty [.addFact 1, .addFact 2]).map (fun s => (decisionsOk s.es s.lvl, invB s)) =
    some (false, true) := by decide

/-- (2) `New` copies `problem.Units` as they are: with a repeated unit clause the variable is
    twice on the trail and `trailInv` fails (`init_units_inv_statement_false`); `addFact` has the
    guard `unbound` (as `propagateUnits` and `Assume` do with `litStatus`) and refuses it. -/
example : run empty [.addFact 1, .addFact 1] = none := by decide

/-- (3) `falsified` asks for pairwise distinct literals because `conflOk` does: on a conflict that
    repeats a false literal of the current level `nbLvl` over-counts and the walk runs off the
    trail (`s.trail[-1]` in Go), although the state meets the invariant. -/
example : (run empty [.decide 1]).map (fun s => (invB s, analyze (s.toSt [-1, -1, -1]))) =
    some (true, .stuck) := by decide

/-- (4) guards are needed: a decision on a bound variable, a propagation by a clause that is
    not unit, a backjump above the current level are refused. -/
example : run empty [.decide 1, .decide (-1)] = none := by decide
example : run empty [.decide 1, .propagate 3 [-1, 2, 3]] = none := by decide
example : run empty [.decide 1, .backjump 3] = none := by decide

end GS.Trail

#print axioms GS.Trail.step_preserves_inv
#print axioms GS.Trail.init_inv
#print axioms GS.Trail.init_units_inv_partial
#print axioms GS.Trail.init_units_inv_statement_false
#print axioms GS.Trail.reachable_inv
#print axioms GS.Trail.reachable_inv_partial
#print axioms GS.Trail.invB_iff
#print axioms GS.Trail.conflict_ok
#print axioms GS.Trail.reachable_analyze_sound
#print axioms GS.Trail.reachable_analyze_sound_partial
#print axioms GS.Trail.reachable_entailed
#print axioms GS.Trail.reachable_entailed_db
#print axioms GS.Trail.assertLearned_enabled
#print axioms GS.Trail.learnedUnit_enabled
#print axioms GS.Trail.mem_backjump
#print axioms GS.Trail.level1_no_learned
#print axioms GS.Trail.reachable_decisions
