import GS.Props.C14_CpLemmas
/-!
# C14 — the control flow of `(*Solver).cuttingPlanes` only composes the verified operations

`GS.Model.CpAnalyze` mirrors the function line by line. Here: under the executable trail
invariant `cpInv`, the pbSet that reaches `pb.clause().SimplifyPB()` is `Derivable` from the
problem/learned constraints `prob` (each `roundToOne` is applied under `roundSafe`, discharged
from "the resolvent is conflicting under the current model" resp. "the reason propagates its
literal"; each `clash` on operands of equal width), hence every answer is a consequence of `prob`.
-/
namespace GS.Cp
open GS

/-! ## 1. The inner walk -/

theorem walk_spec (n : Nat) (prob : List PbSet) (ws : List Int) :
    ∀ (rt : List Entry) (lvl : Int) (m : List Int) (lvl' : Int) (m' : List Int) (rt' : List Entry),
      trailOk n prob rt = true → m = modelOfR n rt → walk ws lvl m rt = some (lvl', m', rt') →
      trailOk n prob rt' = true ∧ m' = modelOfR n rt' ∧
      freeSum m' (fun _ => false) 0 ws = freeSum m (fun _ => false) 0 ws ∧
      (∃ e rest, rt' = e :: rest ∧ falsifies ws e.lit = true) ∧ (∀ e ∈ rt', e ∈ rt)
  | [], _, _, _, _, _, _, _, h => by simp [walk] at h
  | e :: rest, lvl, m, lvl', m', rt', hok, hm, h => by
    obtain ⟨he, hrest⟩ := trailOk_cons hok
    by_cases hf : falsifies ws e.lit = true
    · simp only [walk, hf, if_true, Option.some.injEq, Prod.mk.injEq] at h
      obtain ⟨_, rfl, rfl⟩ := h
      exact ⟨hok, hm, rfl, ⟨e, rest, rfl, hf⟩, fun _ h => h⟩
    · simp only [walk, hf] at h
      have hm' : m.set (varIdx e.lit) 0 = modelOfR n rest := by
        rw [hm]; exact modelOfR_pop n e rest he.dist
      obtain ⟨a, b, c, d, f⟩ := walk_spec n prob ws rest _ _ _ _ _ hrest hm' h
      refine ⟨a, b, ?_, d, fun x hx => List.mem_cons_of_mem _ (f x hx)⟩
      rw [c]
      apply freeSum_set_zero
      intro i hi; rw [Nat.zero_add] at hi; subst hi
      apply notFalsifies_nonFalsified ws m e he.lev1 _ (by simpa using hf)
      rw [hm]; simp only [modelOfR]
      exact modelAt_set_self _ _ _ (by rw [modelOfR_length]; exact he.litn)

/-! ## 2. The loop invariant -/

structure LoopInv (n : Nat) (prob : List PbSet) (pb : PbSet) (lvl : Int) (m : List Int)
    (rt : List Entry) : Prop where
  width : ∀ p ∈ prob, p.weights.length = n
  /-- the resolvent is a consequence of the problem … -/
  der : Derivable prob pb
  /-- … that is falsified under the current (partly zeroed) model -/
  confl : freeSum m (fun _ => false) 0 pb.weights < pb.card
  /-- the current model is the one of the remaining trail prefix -/
  model : m = modelOfR n rt
  trail : trailOk n prob rt = true
  lvls : ∀ e ∈ rt, (e.level : Int) ≤ lvl

theorem pbOf_card (n : Nat) (c : Lin) : (pbOf n c).card = c.degree := rfl

theorem step_next {n : Nat} {prob : List PbSet} {pb : PbSet} {lvl : Int} {m : List Int}
    {rt : List Entry} {pb' : PbSet} {lvl' : Int} {m' : List Int} {rt' : List Entry}
    (I : LoopInv n prob pb lvl m rt) (h : step n pb lvl m rt = .next pb' lvl' m' rt') :
    LoopInv n prob pb' lvl' m' rt' := by
  unfold step at h
  split at h
  · cases h
  · split at h
    · cases h
    · split at h
      · cases h
      · split at h
        · cases h
        · cases h
        · rename_i lw m1 e rest hwalk
          obtain ⟨htr, hm1, hfs, _, hsub⟩ := walk_spec n prob pb.weights rt _ _ _ _ _ I.trail I.model hwalk
          obtain ⟨he, _⟩ := trailOk_cons htr
          have hconfl1 : freeSum m1 (fun _ => false) 0 pb.weights < pb.card := by rw [hfs]; exact I.confl
          have hmv : modelAt m1 (varIdx e.lit) = signedLvl e := by
            rw [hm1]; simp only [modelOfR]
            exact modelAt_set_self _ _ _ (by rw [modelOfR_length]; exact he.litn)
          have hlv : ∀ x ∈ e :: rest, (x.level : Int) ≤ iabs (modelAt m1 (varIdx e.lit)) := by
            rw [hmv, iabs_signedLvl]
            intro x hx
            rcases List.mem_cons.mp hx with rfl | hx
            · exact Int.le_refl _
            · exact Int.ofNat_le.mpr (he.mono x hx)
          have key : ∀ pb1, pb.roundToOne m1 (varIdx e.lit) = some pb1 →
              Derivable prob pb1 ∧ freeSum m1 (fun _ => false) 0 pb1.weights < pb1.card := by
            intro pb1 hr1
            exact ⟨Derivable.round m1 (varIdx e.lit) I.der (roundSafe_of_conflict pb m1 _ hconfl1) hr1,
              round_conflict pb pb1 m1 _ hconfl1 hr1⟩
          split at h
          · simp only [] at h
            split at h
            · cases h
            · rename_i pb1 hr1
              simp only [Step.next.injEq] at h
              obtain ⟨h1, h2, h3, h4⟩ := h
              subst h1 h2 h3 h4
              obtain ⟨hder1, hc1⟩ := key pb1 hr1
              exact ⟨I.width, hder1, hc1, hm1, htr, hlv⟩
          · rename_i r hreason
            simp only [] at h
            split at h
            · cases h
            · rename_i pb1 hr1
              obtain ⟨hder1, hc1⟩ := key pb1 hr1
              split at h
              · cases h
              · rename_i pb2 hr2
                simp only [Step.next.injEq] at h
                obtain ⟨h1, h2, h3, h4⟩ := h
                subst h1 h2 h3 h4
                have hp2 : freeSum m1 (fun i => i == varIdx e.lit) 0 (pbOf n r).weights < (pbOf n r).card := by
                  rw [hm1]; simp only [modelOfR]
                  rw [freeSum_set_excl, pbOf_card]
                  exact he.rprop r hreason
                have hder2 : Derivable prob pb2 :=
                  Derivable.round m1 (varIdx e.lit) (Derivable.ax (he.rmem r hreason))
                    (roundSafe_of_propagating _ m1 _ hp2) hr2
                have hp2' := round_propagating _ pb2 m1 _ hp2 hr2
                have hl1 := derivable_length prob n I.width pb1 hder1
                have hl2 := derivable_length prob n I.width pb2 hder2
                refine ⟨I.width, Derivable.clash hder1 hder2 (by rw [hl1, hl2]), ?_, hm1, htr, hlv⟩
                exact clash_conflict pb1 pb2 m1 _ (by rw [hl1, hl2]) hc1 hp2'
                  (by rw [round_locked _ pb2 m1 _ hr2]; decide)

/-- what a finished step can be -/
theorem step_done {n : Nat} {pb : PbSet} {lvl : Int} {m : List Int} {rt : List Entry} {o : Out}
    (h : step n pb lvl m rt = .done o) :
    (∃ l, onlyFalsified pb.weights m rt lvl = some l ∧ o = finish pb m l) ∨
    (o.raw = none ∧ (o.res = .unsat → lvl = 1 ∨ infeasible pb = true)) := by
  unfold step at h
  split at h
  · rename_i l hl
    cases h
    exact Or.inl ⟨l, hl, rfl⟩
  · right
    split at h
    · rename_i h1
      cases h; exact ⟨rfl, fun _ => Or.inl h1⟩
    · split at h
      · rename_i h2
        cases h; exact ⟨rfl, fun _ => Or.inr h2⟩
      · split at h
        · cases h; exact ⟨rfl, fun h => by cases h⟩
        · cases h; exact ⟨rfl, fun h => by cases h⟩
        · split at h
          · simp only [] at h
            split at h
            · cases h; exact ⟨rfl, fun h => by cases h⟩
            · cases h
          · simp only [] at h
            split at h
            · cases h; exact ⟨rfl, fun h => by cases h⟩
            · split at h
              · cases h; exact ⟨rfl, fun h => by cases h⟩
              · cases h

/-! ## 3. `finish` -/

/-- the `SimplifyPB` call of `finish` on the raw pbSet `q` -/
def simpOf (q : PbSet) : SimpOut := simplifyTerms (sortTerms (clauseTerms 0 q.weights)) q.card

/-- how the answer of `finish` is read off `SimplifyPB` of the raw pbSet -/
structure FinishSpec (pb : PbSet) (m : List Int) (l : Int) (o : Out) : Prop where
  raw : ∀ q, o.raw = some q → pb.roundToOne m (varIdx (-l)) = some q
  unsat : o.res = .unsat → ∃ q, o.raw = some q ∧ simpOf q = .unsat
  units : ∀ ls, o.res = .units ls → ∃ q rest, o.raw = some q ∧ simpOf q = .done ls rest ∧
    ∃ u ∈ ls, newFact m u = true
  learned : ∀ c u b, o.res = .learned c u b → ∃ q us, o.raw = some q ∧ simpOf q = .done us (some c) ∧
    u = -l ∧ b = (backtrackLevel pb.weights m (-l)).toNat ∧ ∀ x ∈ us, newFact m x = false
  learnedNil : ∀ u b, o.res = .learnedNil u b → ∃ q us, o.raw = some q ∧ simpOf q = .done us none ∧
    u = -l ∧ ∀ x ∈ us, newFact m x = false

theorem FinishSpec.of_stuck {pb : PbSet} {m : List Int} {l : Int} {w : Stuck} {r : Option PbSet}
    (h : ∀ q, r = some q → pb.roundToOne m (varIdx (-l)) = some q) :
    FinishSpec pb m l ⟨.stuck w, r⟩ :=
  ⟨h, (by intro h; cases h), (by intro _ h; cases h), (by intro _ _ _ h; cases h),
    (by intro _ _ h; cases h)⟩

theorem finish_spec (pb : PbSet) (m : List Int) (l : Int) : FinishSpec pb m l (finish pb m l) := by
  unfold finish
  simp only []
  split
  · exact FinishSpec.of_stuck (by intro q h; cases h)
  · rename_i pbF hF
    have hraw : ∀ q, some pbF = some q → pb.roundToOne m (varIdx (-l)) = some q := by
      intro q h; cases h; exact hF
    split
    · exact FinishSpec.of_stuck hraw
    · split
      · rename_i hs
        exact ⟨hraw, fun _ => ⟨pbF, rfl, hs⟩, (by intro _ h; cases h),
          (by intro _ _ _ h; cases h), (by intro _ _ h; cases h)⟩
      · exact FinishSpec.of_stuck hraw
      · rename_i units rest hs
        split
        · rename_i hany
          refine ⟨hraw, (by intro h; cases h), ?_,
            (by intro _ _ _ h; cases h), (by intro _ _ h; cases h)⟩
          intro ls h; cases h
          simp only [List.any_eq_true] at hany
          exact ⟨pbF, rest, rfl, hs, hany⟩
        · rename_i hany
          have hall : ∀ x ∈ units, newFact m x = false := by
            intro x hx
            cases hnf : newFact m x with
            | false => rfl
            | true => exact absurd (List.any_eq_true.mpr ⟨x, hx, hnf⟩) hany
          split
          · rename_i c
            refine ⟨hraw, (by intro h; cases h), (by intro _ h; cases h), ?_,
              (by intro _ _ h; cases h)⟩
            intro c' u b h; cases h
            exact ⟨pbF, units, rfl, hs, rfl, rfl, hall⟩
          · refine ⟨hraw, (by intro h; cases h), (by intro _ h; cases h),
              (by intro _ _ _ h; cases h), ?_⟩
            intro u b h; cases h
            exact ⟨pbF, units, rfl, hs, rfl, hall⟩

/-! ## 4. Semantics: models of `prob` agree with the top-level part of the trail -/

def NoModel (prob : List PbSet) : Prop := ∀ a : Asg, ¬ ∀ p ∈ prob, p.holds a = true

def AgreeAt (a : Asg) (m : List Int) (j : Nat) : Prop :=
  (0 < modelAt m j → a (j+1) = true) ∧ (modelAt m j < 0 → a (j+1) = false)

theorem pbTerm_le_fs1 (a : Asg) (m : List Int) (j : Nat) (w : Int) (hag : AgreeAt a m j) :
    pbTerm a j w ≤ fs1 m false j w := by
  rw [fs1_false_eq]
  by_cases hc : modelAt m j = 0 ∨ (0 < modelAt m j ↔ 0 < w)
  · rw [if_pos hc]; exact pbTerm_le_iabs a j w
  · rw [if_neg hc]
    have h0 : modelAt m j ≠ 0 := fun h => hc (Or.inl h)
    have h1 : ¬ (0 < modelAt m j ↔ 0 < w) := fun h => hc (Or.inr h)
    unfold pbTerm
    rcases Int.lt_trichotomy w 0 with hw | hw | hw
    · have hpos : 0 < modelAt m j := by
        apply Classical.byContradiction; intro hn
        apply h1; constructor <;> intro <;> omega
      simp [hag.1 hpos, show ¬ w > 0 by omega, hw]
    · subst hw; simp
    · have hneg : modelAt m j < 0 := by
        apply Classical.byContradiction; intro hn
        apply h1; constructor <;> intro <;> omega
      simp [hag.2 hneg, hw]

theorem lhsFrom_le_freeSum (a : Asg) (m : List Int) (hag : ∀ j, AgreeAt a m j) (k : Nat)
    (ws : List Int) : PbSet.lhsFrom a k ws ≤ freeSum m (fun _ => false) k ws := by
  induction ws generalizing k with
  | nil => simp [lhsFrom_nil, freeSum]
  | cons w ws ih =>
    have := ih (k+1)
    have := pbTerm_le_fs1 a m k w (hag k)
    rw [lhsFrom_cons, freeSum_cons]; omega

/-- the term of position `v`, as a sum over positions -/
def pickT (a : Asg) (v : Nat) : Nat → List Int → Int
  | _, [] => 0
  | j, w :: ws => (if j = v then pbTerm a j w else 0) + pickT a v (j+1) ws

theorem pickT_eq (a : Asg) (v : Nat) (ws : List Int) (j : Nat) :
    pickT a v j ws = if j ≤ v then pbTerm a v (ws.getD (v - j) 0) else 0 := by
  induction ws generalizing j with
  | nil => simp [pickT, pbTerm_zero]
  | cons w ws ih =>
    simp only [pickT, ih]
    by_cases h1 : j = v
    · subst h1
      rw [if_pos rfl, if_neg (by omega : ¬ j + 1 ≤ j), if_pos (Nat.le_refl j), Nat.sub_self,
        List.getD_cons_zero]
      omega
    · by_cases h2 : j < v
      · have e : v - j = (v - (j+1)) + 1 := by omega
        rw [if_neg h1, if_pos (by omega : j + 1 ≤ v), if_pos (by omega : j ≤ v), e, List.getD_cons_succ]
        omega
      · rw [if_neg h1, if_neg (by omega), if_neg (by omega)]; omega

theorem lhsFrom_le_freeSum_excl (a : Asg) (m : List Int) (v : Nat) (hag : ∀ j, j ≠ v → AgreeAt a m j)
    (k : Nat) (ws : List Int) :
    PbSet.lhsFrom a k ws ≤ freeSum m (fun i => i == v) k ws + pickT a v k ws := by
  induction ws generalizing k with
  | nil => simp [lhsFrom_nil, freeSum, pickT]
  | cons w ws ih =>
    have := ih (k+1)
    rw [lhsFrom_cons, freeSum_cons]
    simp only [pickT]
    by_cases h : k = v
    · subst h
      have := fs1_nonneg m (k == k) k w
      rw [if_pos rfl]; omega
    · have hb : (k == v) = false := by simp [h]
      have := pbTerm_le_fs1 a m k w (hag k h)
      rw [hb, if_neg h]; omega

/-- a constraint that holds in `a`, whose other non-falsified literals weigh less than the degree
    (under a model `a` agrees with), forces its literal at `v` -/
theorem forced (a : Asg) (m : List Int) (v : Nat) (c : PbSet) (lit : Int)
    (hag : ∀ j, j ≠ v → AgreeAt a m j) (hc : c.holds a = true)
    (hp : freeSum m (fun i => i == v) 0 c.weights < c.card)
    (hs : 0 < c.weights.getD v 0 ↔ 0 < lit) : a (v+1) = decide (0 < lit) := by
  rw [holds_iff] at hc
  have h1 := lhsFrom_le_freeSum_excl a m v hag 0 c.weights
  have h2 := pickT_eq a v c.weights 0
  simp only [Nat.zero_le, if_true, Nat.sub_zero] at h2
  have hpos : 0 < pbTerm a v (c.weights.getD v 0) := by omega
  generalize c.weights.getD v 0 = w at hpos hs
  unfold pbTerm at hpos
  cases hav : a (v+1) with
  | true =>
    rw [hav] at hpos
    by_cases hw : w > 0
    · simp [hs.mp hw]
    · simp [hw] at hpos
  | false =>
    rw [hav] at hpos
    by_cases hw : w > 0
    · simp [hw] at hpos
    · have : ¬ 0 < lit := fun h => hw (hs.mpr h)
      simp [this]

theorem unitPb_getD (n : Nat) (l : Int) (i : Nat) :
    (unitPb n l).weights.getD i 0 = if varIdx l = i ∧ i < n then (if l > 0 then 1 else -1) else 0 := by
  unfold unitPb
  simp only [List.getD_eq_getElem?_getD, List.getElem?_set, List.length_replicate,
    List.getElem?_replicate]
  by_cases h1 : varIdx l = i
  · subst h1
    by_cases h2 : varIdx l < n
    · simp [h2]
    · simp [h2]
  · by_cases h2 : i < n
    · simp [h1, h2]
    · simp [h1, h2]

theorem freeSum_excl_zero (m : List Int) (v : Nat) (j : Nat) (ws : List Int)
    (h : ∀ i, j + i ≠ v → ws.getD i 0 = 0) : freeSum m (fun i => i == v) j ws = 0 := by
  induction ws generalizing j with
  | nil => rfl
  | cons w ws ih =>
    have ih' := ih (j+1) (by
      intro i hi
      have := h (i+1) (by omega)
      simpa using this)
    rw [freeSum_cons, ih']
    by_cases hj : j = v
    · subst hj; unfold fs1; simp
    · have := h 0 (by omega)
      simp only [List.getD_cons_zero] at this
      subst this
      unfold fs1; simp [iabs]

/-- every model of `prob` agrees with a trail all of whose literals are at level 1 -/
theorem trail_true (n : Nat) (prob : List PbSet) (a : Asg) (ha : ∀ p ∈ prob, p.holds a = true) :
    ∀ rt : List Entry, trailOk n prob rt = true → (∀ e ∈ rt, e.level ≤ 1) →
      ∀ j, AgreeAt a (modelOfR n rt) j
  | [], _, _ => by
    intro j
    have : modelAt (modelOfR n []) j = 0 := modelOfR_notin n [] j (by simp)
    constructor <;> intro h <;> omega
  | e :: rest, hok, hl => by
    obtain ⟨he, hrest⟩ := trailOk_cons hok
    have ih := trail_true n prob a ha rest hrest (fun x hx => hl x (by simp [hx]))
    have hlev : e.level = 1 := by have := hl e (by simp); have := he.lev1; omega
    -- the literal of `e` is true in `a`
    have hlit : a (varIdx e.lit + 1) = decide (0 < e.lit) := by
      cases hr : e.reason with
      | none =>
        have hmem := he.fact hr hlev
        apply forced a (modelOfR n rest) (varIdx e.lit) (unitPb n e.lit) e.lit (fun j _ => ih j)
          (ha _ hmem)
        · rw [freeSum_excl_zero]
          · show (0:Int) < 1
            decide
          · intro i hi
            rw [unitPb_getD, if_neg]
            intro h; exact hi (by omega)
        · rw [unitPb_getD, if_pos ⟨rfl, he.litn⟩]
          by_cases hp : e.lit > 0
          · simp [hp]
          · simp [hp]
      | some r =>
        apply forced a (modelOfR n rest) (varIdx e.lit) (pbOf n r) e.lit (fun j _ => ih j)
          (ha _ (he.rmem r hr))
        · exact he.rprop r hr
        · exact (he.rsign r hr).2
    intro j
    simp only [modelOfR]
    unfold AgreeAt
    by_cases hj : j = varIdx e.lit
    · subst hj
      rw [modelAt_set_self _ _ _ (by rw [modelOfR_length]; exact he.litn)]
      have hs := signedLvl_pos e he.lev1
      have hne := signedLvl_ne e he.lev1
      constructor
      · intro h; rw [hlit]; simp [hs.mp h]
      · intro h
        have : ¬ 0 < e.lit := fun h' => by have := hs.mpr h'; omega
        rw [hlit]; simp [this]
    · rw [modelAt_set_ne _ _ _ _ hj]; exact ih j

theorem lhsFrom_le_sumAbs (a : Asg) (k : Nat) (ws : List Int) : PbSet.lhsFrom a k ws ≤ sumAbs ws := by
  induction ws generalizing k with
  | nil => simp [lhsFrom_nil, sumAbs]
  | cons w ws ih =>
    have := ih (k+1)
    have := pbTerm_le_iabs a k w
    rw [lhsFrom_cons]; simp only [sumAbs]; omega

/-- the two `return nil, nil, -1` inside the loop are justified -/
theorem loop_unsat_sound {n : Nat} {prob : List PbSet} {pb : PbSet} {lvl : Int} {m : List Int}
    {rt : List Entry} (I : LoopInv n prob pb lvl m rt) (h : lvl = 1 ∨ infeasible pb = true) :
    NoModel prob := by
  intro a ha
  have hpb := derivation_sound a prob pb I.der ha
  rw [holds_iff] at hpb
  rcases h with h | h
  · subst h
    have hag := trail_true n prob a ha rt I.trail (fun e he => by have := I.lvls e he; omega)
    have := lhsFrom_le_freeSum a m (by rw [I.model]; exact hag) 0 pb.weights
    have := I.confl
    omega
  · unfold infeasible at h
    simp only [decide_eq_true_eq] at h
    have := lhsFrom_le_sumAbs a 0 pb.weights
    omega

/-! ## 5. The loop, and the main theorems -/

/-- how an answer is read off `SimplifyPB` of the raw pbSet -/
structure Reads (o : Out) : Prop where
  unsat : o.res = .unsat → o.raw = none ∨ ∃ q, o.raw = some q ∧ simpOf q = .unsat
  units : ∀ ls, o.res = .units ls → ∃ q rest, o.raw = some q ∧ simpOf q = .done ls rest
  learned : ∀ c u b, o.res = .learned c u b → ∃ q us, o.raw = some q ∧ simpOf q = .done us (some c)

structure Sound (prob : List PbSet) (o : Out) : Prop where
  der : ∀ q, o.raw = some q → Derivable prob q
  reads : Reads o
  unsat : o.res = .unsat → o.raw = none → NoModel prob

theorem loop_sound (n : Nat) (prob : List PbSet) :
    ∀ (fuel : Nat) (pb : PbSet) (lvl : Int) (m : List Int) (rt : List Entry),
      LoopInv n prob pb lvl m rt → Sound prob (loop n fuel pb lvl m rt)
  | 0, _, _, _, _, _ =>
    ⟨(by intro q h; cases h), ⟨(by intro h; cases h), (by intro _ h; cases h),
      (by intro _ _ _ h; cases h)⟩, (by intro h; cases h)⟩
  | fuel+1, pb, lvl, m, rt, I => by
    unfold loop
    cases hs : step n pb lvl m rt with
    | next pb' lvl' m' rt' => exact loop_sound n prob fuel _ _ _ _ (step_next I hs)
    | done o =>
      simp only []
      rcases step_done hs with ⟨l, _, rfl⟩ | ⟨hraw, hun⟩
      · have S := finish_spec pb m l
        refine ⟨?_, ⟨?_, ?_, ?_⟩, ?_⟩
        · intro q hq
          exact Derivable.round m _ I.der (roundSafe_of_conflict pb m _ I.confl) (S.raw q hq)
        · intro h; exact Or.inr (S.unsat h)
        · intro ls h
          obtain ⟨q, rest, h1, h2, _⟩ := S.units ls h
          exact ⟨q, rest, h1, h2⟩
        · intro c u b h
          obtain ⟨q, us, h1, h2, _⟩ := S.learned c u b h
          exact ⟨q, us, h1, h2⟩
        · intro h hn
          obtain ⟨q, hq, _⟩ := S.unsat h
          rw [hn] at hq; cases hq
      · refine ⟨?_, ⟨fun _ => Or.inl hraw, ?_, ?_⟩, ?_⟩
        · intro q hq; rw [hraw] at hq; cases hq
        · intro ls h
          exfalso
          -- a finished step without raw pbSet is `unsat` or `stuck`
          unfold step at hs
          split at hs
          · rename_i l' hl'
            cases hs
            obtain ⟨q, _, hq, _⟩ := (finish_spec pb m l').units ls h
            rw [hraw] at hq; cases hq
          · split at hs
            · cases hs; cases h
            · split at hs
              · cases hs; cases h
              · split at hs
                · cases hs; cases h
                · cases hs; cases h
                · split at hs
                  · simp only [] at hs
                    split at hs
                    · cases hs; cases h
                    · cases hs
                  · simp only [] at hs
                    split at hs
                    · cases hs; cases h
                    · split at hs
                      · cases hs; cases h
                      · cases hs
        · intro c u b h
          exfalso
          unfold step at hs
          split at hs
          · rename_i l' hl'
            cases hs
            obtain ⟨q, _, hq, _⟩ := (finish_spec pb m l').learned c u b h
            rw [hraw] at hq; cases hq
          · split at hs
            · cases hs; cases h
            · split at hs
              · cases hs; cases h
              · split at hs
                · cases hs; cases h
                · cases hs; cases h
                · split at hs
                  · simp only [] at hs
                    split at hs
                    · cases hs; cases h
                    · cases hs
                  · simp only [] at hs
                    split at hs
                    · cases hs; cases h
                    · split at hs
                      · cases hs; cases h
                      · cases hs
        · intro h _
          exact loop_unsat_sound I (hun h)

/-- the executable invariant gives the loop invariant at entry -/
theorem cpInv_loopInv (prob : List PbSet) (s : State) (h : cpInv prob s = true) :
    LoopInv s.n prob (pbOf s.n s.confl) s.lvl (modelOfR s.n s.trail.reverse) s.trail.reverse := by
  unfold cpInv widthOk conflOk lvlOk at h
  simp only [Bool.and_eq_true, List.all_eq_true, beq_iff_eq, List.contains_iff_mem,
    decide_eq_true_eq, freeSumB_eq] at h
  obtain ⟨⟨⟨h1, h2⟩, h3, h4⟩, h5⟩ := h
  exact ⟨h1, Derivable.ax h3, h4, rfl, h2, fun e he => h5 e (List.mem_reverse.mp he)⟩

/-- **C14 (control flow), derivability.** Under the trail invariant, the pbSet that
    `cuttingPlanes` hands to `pb.clause().SimplifyPB()` is obtained from constraints of `prob` by
    `roundToOne` (under its side condition) and `clash` (on equal widths) only. -/
theorem cpAnalyze_derivable (prob : List PbSet) (s : State) (h : cpInv prob s = true)
    (q : PbSet) (hq : (cpAnalyze s).raw = some q) : Derivable prob q :=
  (loop_sound s.n prob _ _ _ _ _ (cpInv_loopInv prob s h)).der q hq

theorem simp_perm (q : PbSet) :
    (sortTerms (clauseTerms 0 q.weights)).Perm (PbSet.termsFrom 0 q.weights) := by
  rw [← clauseTerms_eq]; exact sortTerms_perm _

/-- **C14 (control flow), soundness of the answers.** In every model of `prob`: returned units
    are true, the returned learned constraint holds. -/
theorem cpAnalyze_sound (prob : List PbSet) (s : State) (h : cpInv prob s = true)
    (a : Asg) (ha : ∀ p ∈ prob, p.holds a = true) :
    (∀ ls, (cpAnalyze s).res = .units ls → ∀ u ∈ ls, litTrue a u = true) ∧
    (∀ c u b, (cpAnalyze s).res = .learned c u b → Lin.holds a ⟨c.1, c.2⟩ = true) := by
  have S : Sound prob (cpAnalyze s) := loop_sound s.n prob (fuelOf s) _ _ _ _ (cpInv_loopInv prob s h)
  constructor
  · intro ls hl u hu
    obtain ⟨q, rest, hq, hsimp⟩ := S.reads.units ls hl
    exact (learned_sound prob q (S.der q hq) _ (simp_perm q) ls rest hsimp a ha).1 u hu
  · intro c u b hl
    obtain ⟨q, us, hq, hsimp⟩ := S.reads.learned c u b hl
    exact (learned_sound prob q (S.der q hq) _ (simp_perm q) us (some c) hsimp a ha).2 c rfl

/-- **C14 (control flow), UNSAT answers.** `newLvl = -1` is returned only when `prob` has no
    model (top-level conflict, infeasible resolvent, or `SimplifyPB` reporting `ok = false`). -/
theorem cpAnalyze_unsat (prob : List PbSet) (s : State) (h : cpInv prob s = true)
    (hu : (cpAnalyze s).res = .unsat) : NoModel prob := by
  have S : Sound prob (cpAnalyze s) := loop_sound s.n prob (fuelOf s) _ _ _ _ (cpInv_loopInv prob s h)
  rcases S.reads.unsat hu with hn | ⟨q, hq, hsimp⟩
  · exact S.unsat hu hn
  · intro a
    exact learned_unsat_sound prob q (S.der q hq) _ (simp_perm q) hsimp a

/-! ## 6. Asserting literal and progress: statements, what is proved, executable forms

`assertingOk` / `progressOk` (`GS.Model.CpAnalyze`) are the executable forms; the driver op
`cpanalyze_check` evaluates them, and they held on all 67 368 states dumped from real runs. -/

/-- In the `learned c unit btLvl` case, after backjumping to `btLvl` the learned constraint
    propagates `unit` (or is conflicting): `unit` is unbound, occurs in `c` with its sign, and the
    non-falsified other literals weigh less than the degree. NOT PROVED (needs: the walked model
    is the entry model with the passed literals unbound, `onlyFalsified` really returns the only
    falsified literal of level `lvl`, `backtrackLevel` bounds the levels of the other falsified
    literals, and `SimplifyPB` preserves all this). -/
def cpAnalyze_asserting_statement : Prop :=
  ∀ (prob : List PbSet) (s : State), cpInv prob s = true → assertingOk s = true

/-- what is proved about the asserting literal, at the level of `finish`: the literal returned is
    the negation of the one `onlyFalsified` found, its weight in the raw pbSet is exactly 1, the raw
    pbSet is still falsified under the walked model when the resolvent was, and the units
    `SimplifyPB` found are all already true at level 1 in the walked model. -/
theorem cpAnalyze_asserting_partial (pb : PbSet) (m : List Int) (l : Int) (c : List (Int × Int) × Int)
    (u : Int) (b : Nat) (h : (finish pb m l).res = .learned c u b)
    (hc : freeSum m (fun _ => false) 0 pb.weights < pb.card) :
    u = -l ∧ b = (backtrackLevel pb.weights m (-l)).toNat ∧
    ∃ q us, (finish pb m l).raw = some q ∧ simpOf q = .done us (some c) ∧
      iabs (q.weights.getD (varIdx u) 0) = 1 ∧
      freeSum m (fun _ => false) 0 q.weights < q.card ∧ ∀ x ∈ us, newFact m x = false := by
  obtain ⟨q, us, h1, h2, h3, h4, h5⟩ := (finish_spec pb m l).learned c u b h
  have hr := (finish_spec pb m l).raw q h1
  subst h3
  exact ⟨rfl, h4, q, us, h1, h2, round_locked pb q m _ hr, round_conflict pb q m _ hc hr, h5⟩

/-- Desired progress property (what the two last repairs are about): the answer is never "units
    that are all already true at level 1" — with "already true" read in the model *at entry*.
    NOT PROVED, and not what the code tests: see `cpAnalyze_progress_partial`. -/
def cpAnalyze_progress_statement : Prop :=
  ∀ (prob : List PbSet) (s : State), cpInv prob s = true → progressOk s = true

/-- What the current code guarantees: when it answers `units ls`, one of the units is not "true at
    level 1" in the model *after the walk* `m` (unbound there, bound at another level, or false);
    when it answers `learned`, every unit found by `SimplifyPB` is true at level 1 in `m`. A unit
    that is true at level 1 at entry but was passed (hence unbound) by the walk counts as new. -/
theorem cpAnalyze_progress_partial (pb : PbSet) (m : List Int) (l : Int) :
    (∀ ls, (finish pb m l).res = .units ls → ∃ u ∈ ls, newFact m u = true) ∧
    (∀ c u b, (finish pb m l).res = .learned c u b →
      ∃ q us, (finish pb m l).raw = some q ∧ simpOf q = .done us (some c) ∧ ∀ x ∈ us, newFact m x = false) := by
  constructor
  · intro ls h
    obtain ⟨_, _, _, _, hu⟩ := (finish_spec pb m l).units ls h
    exact hu
  · intro c u b h
    obtain ⟨q, us, h1, h2, _, _, h5⟩ := (finish_spec pb m l).learned c u b h
    exact ⟨q, us, h1, h2, h5⟩

/-! ## 7. Concrete states taken from real runs -/

/-- clause-like run: conflict `x11 + x1 + x5 ≥ 1`, trail `¬x1@2 ¬x11@3 ¬x5@3`, the last one
    propagated by `x11 + ¬x5 ≥ 1`. Go: `learned 2 11 | 1 1 1 1 11 | raw 1 1 1 1 11`. -/
def ex1 : State :=
  ⟨11, 3, ⟨[(1, 11), (1, 1), (1, 5)], 1⟩,
    [⟨-1, 2, none⟩, ⟨-11, 3, none⟩, ⟨-5, 3, some ⟨[(1, 11), (1, -5)], 1⟩⟩]⟩
def ex1prob : List PbSet := [pbOf 11 ⟨[(1, 11), (1, 1), (1, 5)], 1⟩, pbOf 11 ⟨[(1, 11), (1, -5)], 1⟩]

example : cpInv ex1prob ex1 = true := by decide
example : cpAnalyze ex1 = ⟨.learned ([(1, 1), (1, 11)], 1) 11 2,
    some ⟨[1, 0, 0, 0, 0, 0, 0, 0, 0, 0, 1], 1⟩⟩ := by decide
example : assertingOk ex1 = true ∧ progressOk ex1 = true ∧ decisionsOk ex1.trail.reverse = true := by decide

/-- PB run with rounding: conflict `8 x1 + 7 ¬x2 + 6 ¬x5 + 5 x6 + 4 ¬x4 ≥ 13`, trail
    `¬x1@2 ¬x6@3 x5@3`, `x5` propagated by `4 x1 + 2 x6 + x5 ≥ 1`.
    Go: `learned 2 6 | 1 1 1 1 6 | raw 1 2 1 1 6`. -/
def ex2 : State :=
  ⟨6, 3, ⟨[(8, 1), (7, -2), (6, -5), (5, 6), (4, -4)], 13⟩,
    [⟨-1, 2, none⟩, ⟨-6, 3, none⟩, ⟨5, 3, some ⟨[(4, 1), (2, 6), (1, 5)], 1⟩⟩]⟩
def ex2prob : List PbSet :=
  [pbOf 6 ⟨[(8, 1), (7, -2), (6, -5), (5, 6), (4, -4)], 13⟩, pbOf 6 ⟨[(4, 1), (2, 6), (1, 5)], 1⟩]

example : cpInv ex2prob ex2 = true := by decide
example : cpAnalyze ex2 = ⟨.learned ([(1, 1), (1, 6)], 1) 6 2, some ⟨[2, 0, 0, 0, 0, 1], 1⟩⟩ := by decide

/-- UNSAT inside the loop: fact `x1@1`, decision `¬x3@2`, `x2@2` and `x8@2` propagated by
    `x1 + x2 + x3 + x8 ≥ 3`, conflict `¬x3 + ¬x8 + ¬x2 ≥ 2`. Go: `unsat`. -/
def ex3 : State :=
  ⟨8, 2, ⟨[(1, -3), (1, -8), (1, -2)], 2⟩,
    [⟨1, 1, none⟩, ⟨-3, 2, none⟩, ⟨2, 2, some ⟨[(1, 1), (1, 2), (1, 3), (1, 8)], 3⟩⟩,
      ⟨8, 2, some ⟨[(1, 1), (1, 2), (1, 3), (1, 8)], 3⟩⟩]⟩
def ex3prob : List PbSet :=
  [pbOf 8 ⟨[(1, -3), (1, -8), (1, -2)], 2⟩, pbOf 8 ⟨[(1, 1), (1, 2), (1, 3), (1, 8)], 3⟩, unitPb 8 1]

example : cpInv ex3prob ex3 = true := by decide
example : cpAnalyze ex3 = ⟨.unsat, none⟩ := by decide

/-- A real state in which the walk passes (and unbinds) a top-level literal, `¬x2@1`, and the
    answer is not UNSAT: Go answers `units -12 | raw 1 1 -12`, the refutation of the top-level fact
    `x12` (the caller then answers UNSAT). -/
def ex4 : State :=
  ⟨12, 3, ⟨[(1, 9), (1, 4), (1, -6), (1, -12), (1, 8), (1, -11)], 3⟩,
    [⟨12, 1, none⟩, ⟨-4, 1, some ⟨[(1, -4), (1, -12), (1, -2)], 2⟩⟩,
      ⟨-2, 1, some ⟨[(1, -4), (1, -12), (1, -2)], 2⟩⟩, ⟨7, 2, none⟩, ⟨-6, 3, none⟩,
      ⟨-1, 3, some ⟨[(1, -1), (1, -2), (1, 6)], 2⟩⟩,
      ⟨-9, 3, some ⟨[(1, 6), (1, -12), (1, -2), (1, -9), (1, -8)], 3⟩⟩,
      ⟨-8, 3, some ⟨[(1, 6), (1, -12), (1, -2), (1, -9), (1, -8)], 3⟩⟩]⟩

example : cpAnalyze ex4 = ⟨.units [-12], some ⟨[0, 0, 0, 0, 0, 0, 0, 0, 0, 0, 0, -1], 1⟩⟩ := by decide

/-- **Finding (hypothesis `distinct` of `cpInv`).** Real states violate it: after an answer
    `units 1 2` with `x1` already a top-level fact, the caller re-binds every returned unit
    (`unifyLiteral(unit, 1)`), so the trail of the next conflict starts `x1@1 x1@1 x2@1 …`. -/
example : trailOk 2 [unitPb 2 1, unitPb 2 2] [⟨2, 1, none⟩, ⟨1, 1, none⟩, ⟨1, 1, none⟩] = false := by decide

#print axioms cpAnalyze_derivable
#print axioms cpAnalyze_sound
#print axioms cpAnalyze_unsat
#print axioms cpAnalyze_asserting_partial
#print axioms cpAnalyze_progress_partial

end GS.Cp
