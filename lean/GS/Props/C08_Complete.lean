import GS.Props.C08_Explain
/-!
# C08 — completeness of the `explain` certificate checker w.r.t. the verified RUP checker

`checker_complete_up : checker_complete_up_statement` — every certificate accepted by
`GS.rupValid` is accepted by the mirror of `explain.(*Problem).Unsat`, provided no line contains
complementary literals.  Clauses and lines may repeat literals (since the repair of the literal
scan of `(*Problem).unsat`, which now skips a repetition of the first unbound literal; before,
both "no clause repeats a literal" and "no line repeats a literal" were needed — the version with
those hypotheses is kept as the corollary `checker_complete_up_nodup`).

Proof idea (confluence of unit propagation, in its "saturated state" form).  When the Go loop
`for modified { … }` stops without a conflict, its last pass changed no binding, so under the
final bindings `w` every clause is *saturated* (`SatCl`): it has a true literal (clauses marked
`done` keep their true literal because bindings are only ever added) or it has two different
unbound literals (`scanGo_many_zero`: the Go scan gives up only at an unbound literal different
from the first unbound literal; this is where the repaired branch
`if unbound == 1 && lit == unit { continue }` is used).  A saturated state absorbs every unit-propagation run that starts
inside it: by induction over the run of `GS.fix`, every binding the RUP checker makes is already
true in `w`, and a clause falsified by the RUP checker's bindings would be falsified in `w`
(`rup_pass_complete`, `rup_fix_complete`).  The start bindings of the RUP checker (negation of
the line over an empty array) are contained in the start bindings of the Go code (negation of
the line written over `units`) because a line has no complementary literals
(`Tr_installNeg_neg`).  So a line accepted by `GS.rupLine` cannot be rejected by `checkLine`
(`line_complete`), and the two certificate loops stay in step (`allLoop_complete`): both add the
accepted line to their clause set, and `units` is restored after each line.
-/
namespace GS.Explain
open GS

/-! ## 1. true literals of a bindings array -/

/-- literal `l` is true under the bindings `u` (the test `binding*lit == v` of the Go code) -/
def Tr (u : Array Int) (l : Int) : Prop := l ≠ 0 ∧ bind u l.natAbs * l = (l.natAbs : Int)

/-- every literal true under `u` is true under `w` -/
def Ext (u w : Array Int) : Prop := ∀ l, Tr u l → Tr w l

theorem Ext.refl (u : Array Int) : Ext u u := fun _ h => h
theorem Ext.trans {a b c : Array Int} (h1 : Ext a b) (h2 : Ext b c) : Ext a c :=
  fun l h => h2 l (h1 l h)

theorem Tr.bound {u : Array Int} {l : Int} (h : Tr u l) : bind u l.natAbs ≠ 0 := by
  intro h0
  have h2 := h.2
  rw [h0] at h2
  have := h.1
  omega

/-- a variable has one value: `l` and `-l` are not both true -/
theorem Tr.not_neg {u : Array Int} {l : Int} (h : Tr u l) (h' : Tr u (-l)) : False := by
  have h1 := h.2
  have h2 := h'.2
  rw [Int.natAbs_neg, Int.mul_neg] at h2
  have := h.1
  omega

theorem Tr.unbound_neg {u : Array Int} {x : Int} (h : Tr u (-x)) (hb : bind u x.natAbs = 0) : False := by
  have := h.bound
  rw [Int.natAbs_neg] at this
  exact this hb

theorem bind_ne_zero_lt (u : Array Int) (v : Nat) (h : bind u v ≠ 0) : v - 1 < u.size := by
  apply Classical.byContradiction
  intro hn
  apply h
  unfold bind
  rw [Array.getElem?_eq_none (by omega)]
  rfl

theorem bind_empty (n v : Nat) : bind (emptyBind n) v = 0 := by
  unfold bind emptyBind
  simp [Array.getElem?_replicate]
  split <;> rfl

theorem not_Tr_empty (n : Nat) (l : Int) : ¬ Tr (emptyBind n) l := by
  intro h
  exact h.bound (bind_empty n _)

theorem size_setLit (u : Array Int) (l : Int) : (setLit u l).size = u.size := by
  simp [setLit]

theorem Tr_setLit_self (u : Array Int) (l : Int) (hl : l ≠ 0) (hr : l.natAbs ≤ u.size) :
    Tr (setLit u l) l := by
  have hpos : 0 < l.natAbs := Int.natAbs_pos.mpr hl
  refine ⟨hl, ?_⟩
  rw [bind_setLit_same u l hl (by omega)]
  split <;> omega

theorem Tr_setLit_of_ne (u : Array Int) (l x : Int) (hl : l ≠ 0) (hne : x.natAbs ≠ l.natAbs) :
    Tr (setLit u l) x ↔ Tr u x := by
  constructor
  · rintro ⟨hx, h⟩
    have hpos : 0 < x.natAbs := Int.natAbs_pos.mpr hx
    rw [bind_setLit_other u l x.natAbs hpos hl hne] at h
    exact ⟨hx, h⟩
  · rintro ⟨hx, h⟩
    have hpos : 0 < x.natAbs := Int.natAbs_pos.mpr hx
    refine ⟨hx, ?_⟩
    rw [bind_setLit_other u l x.natAbs hpos hl hne]
    exact h

theorem Tr_setLit_cases (u : Array Int) (l x : Int) (hl : l ≠ 0) (h : Tr (setLit u l) x) :
    Tr u x ∨ x = l := by
  by_cases hv : x.natAbs = l.natAbs
  · have hpos : 0 < x.natAbs := Int.natAbs_pos.mpr h.1
    rcases bind_setLit u l hl x.natAbs hpos with hb | ⟨_, hb⟩
    · left
      have h2 := h.2
      rw [hb] at h2
      exact ⟨h.1, h2⟩
    · right
      have h2 := h.2
      rw [hb] at h2
      have := h.1
      split at h2 <;> omega
  · exact Or.inl ((Tr_setLit_of_ne u l x hl hv).1 h)

/-- binding an unbound variable keeps every true literal true -/
theorem Ext_setLit (u : Array Int) (l : Int) (hl : l ≠ 0) (hb : bind u l.natAbs = 0) :
    Ext u (setLit u l) := by
  intro x hx
  by_cases hv : x.natAbs = l.natAbs
  · exact absurd (hv ▸ hb) hx.bound
  · exact (Tr_setLit_of_ne u l x hl hv).2 hx

/-! ## 2. the start bindings of the two checkers -/

theorem installNeg_size : ∀ (c : List Int) (u : Array Int), (installNeg u c).size = u.size := by
  intro c
  induction c with
  | nil => intro u; rfl
  | cons l c ih => intro u; unfold installNeg; rw [ih, size_setLit]

theorem installNeg_wf : ∀ (c : List Int) (u : Array Int), (∀ l ∈ c, l ≠ 0) → WF u → WF (installNeg u c) := by
  intro c
  induction c with
  | nil => intro u _ h; exact h
  | cons l c ih =>
    intro u hnz h
    have hl : l ≠ 0 := hnz l (by simp)
    unfold installNeg
    exact ih _ (fun x hx => hnz x (by simp [hx])) (wf_setLit u (-l) (by omega) h)

/-- a true literal that does not occur in `c` stays true when the negation of `c` is installed -/
theorem Tr_installNeg_keep : ∀ (c : List Int) (u : Array Int) (x : Int), (∀ l ∈ c, l ≠ 0) →
    Tr u x → x ∉ c → Tr (installNeg u c) x := by
  intro c
  induction c with
  | nil => intro u x _ h _; exact h
  | cons l c ih =>
    intro u x hnz h hx
    have hl : l ≠ 0 := hnz l (by simp)
    have hxl : x ≠ l := fun e => hx (by simp [e])
    have hxc : x ∉ c := fun e => hx (by simp [e])
    unfold installNeg
    apply ih _ x (fun y hy => hnz y (by simp [hy])) _ hxc
    by_cases hv : x.natAbs = (-l).natAbs
    · have hxe : x = -l := by
        rw [Int.natAbs_neg] at hv
        omega
      have hlt := bind_ne_zero_lt u _ h.bound
      have hpos : 0 < x.natAbs := Int.natAbs_pos.mpr h.1
      rw [hxe]
      apply Tr_setLit_self u (-l) (by omega)
      rw [← hxe]; omega
    · exact (Tr_setLit_of_ne u (-l) x (by omega) hv).2 h

/-- after installing the negation of a line without complementary literals, the negation of
    every literal of the line is true (whatever was bound before) -/
theorem Tr_installNeg_neg : ∀ (c : List Int) (u : Array Int),
    (∀ l ∈ c, l ≠ 0 ∧ l.natAbs ≤ u.size) → (∀ l ∈ c, -l ∉ c) →
    ∀ l ∈ c, Tr (installNeg u c) (-l) := by
  intro c
  induction c with
  | nil => intro u _ _ l hl; cases hl
  | cons a c ih =>
    intro u hr hnc l hl
    have ha := hr a (by simp)
    have hnz : ∀ y ∈ c, y ≠ 0 := fun y hy => (hr y (by simp [hy])).1
    unfold installNeg
    rcases List.mem_cons.1 hl with rfl | hl'
    · apply Tr_installNeg_keep c _ _ hnz
      · apply Tr_setLit_self u (-l) (by omega)
        rw [Int.natAbs_neg]; exact ha.2
      · intro hmem
        exact hnc l (by simp) (by simp [hmem])
    · apply ih (setLit u (-a)) _ _ l hl'
      · intro y hy
        rw [size_setLit]
        exact hr y (by simp [hy])
      · intro y hy hmem
        exact hnc y (by simp [hy]) (by simp [hmem])

/-- installing the negation of `c` makes nothing true but old true literals and negations of
    literals of `c` -/
theorem Tr_installNeg_cases : ∀ (c : List Int) (u : Array Int) (x : Int), (∀ l ∈ c, l ≠ 0) →
    Tr (installNeg u c) x → Tr u x ∨ ∃ l ∈ c, x = -l := by
  intro c
  induction c with
  | nil => intro u x _ h; exact Or.inl h
  | cons a c ih =>
    intro u x hnz h
    have ha : a ≠ 0 := hnz a (by simp)
    unfold installNeg at h
    rcases ih _ x (fun y hy => hnz y (by simp [hy])) h with h1 | ⟨l, hl, hx⟩
    · rcases Tr_setLit_cases u (-a) x (by omega) h1 with h2 | h2
      · exact Or.inl h2
      · exact Or.inr ⟨a, by simp, h2⟩
    · exact Or.inr ⟨l, by simp [hl], hx⟩

/-- the start bindings of `GS.rupLine` (negated line over an empty array) are contained in the
    start bindings of the Go code (negated line written over `units`) -/
theorem Ext_installNeg (n : Nat) (c : List Int) (u : Array Int)
    (hr : ∀ l ∈ c, l ≠ 0 ∧ l.natAbs ≤ u.size) (hnc : ∀ l ∈ c, -l ∉ c) :
    Ext (installNeg (emptyBind n) c) (installNeg u c) := by
  intro x hx
  rcases Tr_installNeg_cases c _ x (fun l hl => (hr l hl).1) hx with h | ⟨l, hl, rfl⟩
  · exact absurd h (not_Tr_empty n x)
  · exact Tr_installNeg_neg c u hr hnc l hl

theorem assumeNeg_some : ∀ (c : List Int) (u u' : Array Int), assumeNeg u c = some u' →
    u' = installNeg u c := by
  intro c
  induction c with
  | nil => intro u u' h; simp [assumeNeg] at h; exact h.symm
  | cons l c ih =>
    intro u u' h
    unfold assumeNeg at h
    split at h
    · cases h
    · split at h
      · cases h
      · unfold installNeg; exact ih _ _ h

/-- `assumeNeg` only gives up on a literal that is already true or on complementary literals -/
theorem assumeNeg_none_cases : ∀ (c : List Int) (u : Array Int), (∀ l ∈ c, l ≠ 0) →
    assumeNeg u c = none → (∃ l ∈ c, Tr u l) ∨ (∃ l ∈ c, -l ∈ c) := by
  intro c
  induction c with
  | nil => intro u _ h; simp [assumeNeg] at h
  | cons a c ih =>
    intro u hnz h
    have ha : a ≠ 0 := hnz a (by simp)
    unfold assumeNeg at h
    simp only [ha, if_false] at h
    split at h
    · rename_i hb
      exact Or.inl ⟨a, by simp, ha, hb⟩
    · rcases ih _ (fun y hy => hnz y (by simp [hy])) h with ⟨l, hl, ht⟩ | ⟨l, hl, hm⟩
      · rcases Tr_setLit_cases u (-a) l (by omega) ht with h2 | h2
        · exact Or.inl ⟨l, by simp [hl], h2⟩
        · right
          refine ⟨a, by simp, ?_⟩
          rw [← h2]; simp [hl]
      · exact Or.inr ⟨l, by simp [hl], by simp [hm]⟩

/-! ## 3. what the two clause scans report -/

/-- a bound literal that is not true is false, i.e. its negation is true -/
theorem Tr_neg_of_bound (u : Array Int) (hwf : WF u) (x : Int) (hx : x ≠ 0)
    (hb : bind u x.natAbs ≠ 0) (hs : bind u x.natAbs * x ≠ (x.natAbs : Int)) : Tr u (-x) := by
  refine ⟨by omega, ?_⟩
  rw [Int.natAbs_neg, Int.mul_neg]
  rcases hwf x.natAbs with h0 | h1 | h2
  · exact absurd h0 hb
  · rw [h1] at hs ⊢; omega
  · rw [h2] at hs ⊢; omega

/-- `GS.scan` with one unbound literal `ul` already seen: no conflict; a unit is `ul` and every
    other literal of the rest of the clause is false -/
theorem scan_one_spec (u : Array Int) (hwf : WF u) :
    ∀ (c : List Int) (n : Nat) (ul : Int), (∀ l ∈ c, l ≠ 0) →
      scan u c (n+1) ul ≠ .conflict ∧
      (∀ l, scan u c (n+1) ul = .unit l → l = ul ∧ ∀ x ∈ c, x ≠ l → Tr u (-x)) := by
  intro c
  induction c with
  | nil => intro n ul _; simp [scan]
  | cons x xs ih =>
    intro n ul hnz
    have hx : x ≠ 0 := hnz x (by simp)
    have hxs : ∀ l ∈ xs, l ≠ 0 := fun l hl => hnz l (by simp [hl])
    unfold scan
    simp only
    by_cases hb : bind u x.natAbs = 0
    · simp only [hb, if_true]
      have hn : ¬ (n + 1 = 0) := by omega
      simp only [hn, if_false]
      by_cases he : x = ul
      · simp only [he, if_true]
        have := ih n ul hxs
        refine ⟨this.1, ?_⟩
        intro l hl
        have h2 := this.2 l hl
        refine ⟨h2.1, ?_⟩
        intro y hy hyl
        rcases List.mem_cons.1 hy with rfl | hy'
        · exact absurd h2.1.symm hyl
        · exact h2.2 y hy' hyl
      · simp [he]
    · simp only [hb, if_false]
      by_cases hs : bind u x.natAbs * x = (x.natAbs : Int)
      · simp [hs]
      · simp only [hs, if_false]
        have hf := Tr_neg_of_bound u hwf x hx hb hs
        have := ih n ul hxs
        refine ⟨this.1, ?_⟩
        intro l hl
        have h2 := this.2 l hl
        refine ⟨h2.1, ?_⟩
        intro y hy hyl
        rcases List.mem_cons.1 hy with rfl | hy'
        · exact hf
        · exact h2.2 y hy' hyl

/-- `GS.scan` from the start: a conflict means every literal is false; a unit `l` is an unbound
    literal of the clause and every other literal is false -/
theorem scan_zero_spec (u : Array Int) (hwf : WF u) :
    ∀ (c : List Int) (ul : Int), (∀ l ∈ c, l ≠ 0) →
      (scan u c 0 ul = .conflict → ∀ x ∈ c, Tr u (-x)) ∧
      (∀ l, scan u c 0 ul = .unit l →
        l ∈ c ∧ bind u l.natAbs = 0 ∧ ∀ x ∈ c, x ≠ l → Tr u (-x)) := by
  intro c
  induction c with
  | nil => intro ul _; simp [scan]
  | cons x xs ih =>
    intro ul hnz
    have hx : x ≠ 0 := hnz x (by simp)
    have hxs : ∀ l ∈ xs, l ≠ 0 := fun l hl => hnz l (by simp [hl])
    unfold scan
    simp only
    by_cases hb : bind u x.natAbs = 0
    · simp only [hb, if_true]
      have h1 := scan_one_spec u hwf xs 0 x hxs
      refine ⟨fun hc => absurd hc h1.1, ?_⟩
      intro l hl
      have h2 := h1.2 l hl
      refine ⟨by simp [h2.1], h2.1 ▸ hb, ?_⟩
      intro y hy hyl
      rcases List.mem_cons.1 hy with rfl | hy'
      · exact absurd h2.1.symm hyl
      · exact h2.2 y hy' hyl
    · simp only [hb, if_false]
      by_cases hs : bind u x.natAbs * x = (x.natAbs : Int)
      · simp [hs]
      · simp only [hs, if_false]
        have hf := Tr_neg_of_bound u hwf x hx hb hs
        have := ih ul hxs
        refine ⟨?_, ?_⟩
        · intro hc y hy
          rcases List.mem_cons.1 hy with rfl | hy'
          · exact hf
          · exact this.1 hc y hy'
        · intro l hl
          have h2 := this.2 l hl
          refine ⟨by simp [h2.1], h2.2.1, ?_⟩
          intro y hy hyl
          rcases List.mem_cons.1 hy with rfl | hy'
          · exact hf
          · exact h2.2.2 y hy' hyl

/-- the Go scan says `sat` only on a clause with a true literal -/
theorem scanGo_sat_spec (u : Array Int) : ∀ (c : List Int) (n : Nat) (ul : Int), (∀ l ∈ c, l ≠ 0) →
    scanGo u c n ul = .sat → ∃ l ∈ c, Tr u l := by
  intro c
  induction c with
  | nil => intro n ul _ h; cases n <;> simp [scanGo] at h
  | cons x xs ih =>
    intro n ul hnz h
    have hx : x ≠ 0 := hnz x (by simp)
    have hxs : ∀ l ∈ xs, l ≠ 0 := fun l hl => hnz l (by simp [hl])
    unfold scanGo at h
    simp only at h
    by_cases hb : bind u x.natAbs = 0
    · simp only [hb, if_true] at h
      by_cases he : n = 1 ∧ x = ul
      · simp only [he, and_self, if_true] at h
        obtain ⟨l, hl, ht⟩ := ih 1 ul hxs h
        exact ⟨l, by simp [hl], ht⟩
      · simp only [he, if_false] at h
        by_cases hn : n = 0
        · simp only [hn, if_true] at h
          obtain ⟨l, hl, ht⟩ := ih 1 x hxs h
          exact ⟨l, by simp [hl], ht⟩
        · simp [hn] at h
    · simp only [hb, if_false] at h
      by_cases hs : bind u x.natAbs * x = (x.natAbs : Int)
      · exact ⟨x, by simp, hx, hs⟩
      · simp only [hs, if_false] at h
        obtain ⟨l, hl, ht⟩ := ih n ul hxs h
        exact ⟨l, by simp [hl], ht⟩

/-- with the unbound literal `ul` already seen, the Go scan gives up (`break` at `unbound == 2`)
    only at an unbound literal *different from* `ul` (a repetition of `ul` is skipped) -/
theorem scanGo_many_one (u : Array Int) : ∀ (c : List Int) (ul : Int),
    scanGo u c 1 ul = .many → ∃ y ∈ c, y ≠ ul ∧ bind u y.natAbs = 0 := by
  intro c
  induction c with
  | nil => intro ul h; simp [scanGo] at h
  | cons x xs ih =>
    intro ul h
    unfold scanGo at h
    simp only at h
    by_cases hb : bind u x.natAbs = 0
    · by_cases he : x = ul
      · subst he
        simp only [hb, and_self, if_true] at h
        obtain ⟨y, hy, hyne, hyb⟩ := ih x h
        exact ⟨y, by simp [hy], hyne, hyb⟩
      · exact ⟨x, by simp, he, hb⟩
    · simp only [hb, if_false] at h
      by_cases hs : bind u x.natAbs * x = (x.natAbs : Int)
      · simp [hs] at h
      · simp only [hs, if_false] at h
        obtain ⟨y, hy, hyne, hyb⟩ := ih ul h
        exact ⟨y, by simp [hy], hyne, hyb⟩

/-- the Go scan gives up only when two different literals are unbound (whether or not the
    clause repeats literals: a repetition of the first unbound literal does not count) -/
theorem scanGo_many_zero (u : Array Int) : ∀ (c : List Int) (ul : Int),
    scanGo u c 0 ul = .many →
    ∃ x ∈ c, ∃ y ∈ c, x ≠ y ∧ bind u x.natAbs = 0 ∧ bind u y.natAbs = 0 := by
  intro c
  induction c with
  | nil => intro ul h; simp [scanGo] at h
  | cons x xs ih =>
    intro ul h
    unfold scanGo at h
    simp only at h
    by_cases hb : bind u x.natAbs = 0
    · simp only [hb, if_true, Nat.zero_ne_one, false_and, if_false] at h
      obtain ⟨y, hy, hyne, hyb⟩ := scanGo_many_one u xs x h
      exact ⟨x, by simp, y, by simp [hy], fun e => hyne e.symm, hb, hyb⟩
    · simp only [hb, if_false] at h
      by_cases hs : bind u x.natAbs * x = (x.natAbs : Int)
      · simp [hs] at h
      · simp only [hs, if_false] at h
        obtain ⟨a, ha, b, hb', hab⟩ := ih ul h
        exact ⟨a, by simp [ha], b, by simp [hb'], hab⟩

/-! ## 4. the Go propagation loop stops in a saturated state -/

/-- clause `c` is neither unit nor falsified under `w`: it has a true literal or two different
    unbound literals -/
def SatCl (w : Array Int) (c : List Int) : Prop :=
  (∃ l ∈ c, Tr w l) ∨ (∃ x ∈ c, ∃ y ∈ c, x ≠ y ∧ bind w x.natAbs = 0 ∧ bind w y.natAbs = 0)

/-- every clause marked `done` has a true literal -/
def DoneOk (all : List (List Int)) (d : Array Bool) (u : Array Int) : Prop :=
  ∀ (j : Nat) (c : List Int), all[j]? = some c → d[j]? = some true → ∃ l ∈ c, Tr u l

theorem DoneOk.ext {all : List (List Int)} {d : Array Bool} {u w : Array Int}
    (h : DoneOk all d u) (he : Ext u w) : DoneOk all d w := by
  intro j c hj hd
  obtain ⟨l, hl, ht⟩ := h j c hj hd
  exact ⟨l, hl, he l ht⟩

theorem DoneOk.set {all : List (List Int)} {d : Array Bool} {u : Array Int} {i : Nat} {c : List Int}
    (h : DoneOk all d u) (hi : all[i]? = some c) (hc : ∃ l ∈ c, Tr u l) :
    DoneOk all (d.setIfInBounds i true) u := by
  intro j c' hj hd
  by_cases hij : i = j
  · subst hij
    rw [hi] at hj
    cases hj
    exact hc
  · rw [Array.getElem?_setIfInBounds_ne hij] at hd
    exact h j c' hj hd

theorem DoneOk.init (all : List (List Int)) (k : Nat) (u : Array Int) :
    DoneOk all (Array.replicate k false) u := by
  intro j c _ hd
  rw [Array.getElem?_replicate] at hd
  split at hd <;> cases hd

/-- One `for i, clause := range pb.Clauses` loop: bindings are only added, `done` clauses keep a
    true literal, and a pass that ends with `modified == false` has changed no binding and
    (if it did not return) has found every clause saturated. -/
theorem pass_complete (nbC n : Nat) (all : List (List Int)) (hr : InRange n all) :
    ∀ (cs pre : List (List Int)) (i : Nat) (u : Array Int) (d : Array Bool) (tg : List Bool) (m : Bool),
    all = pre ++ cs → pre.length = i → u.size = n → DoneOk all d u →
    (pass nbC cs i u d tg m).units.size = n ∧ Ext u (pass nbC cs i u d tg m).units ∧
    DoneOk all (pass nbC cs i u d tg m).done (pass nbC cs i u d tg m).units ∧
    ((pass nbC cs i u d tg m).modified = false → m = false ∧ (pass nbC cs i u d tg m).units = u ∧
      ((pass nbC cs i u d tg m).conflict = false → ∀ c ∈ cs, SatCl u c)) := by
  intro cs
  induction cs with
  | nil =>
    intro pre i u d tg m _ _ hsz hd
    unfold pass
    exact ⟨hsz, Ext.refl u, hd, fun h => ⟨h, rfl, fun _ c hc => by cases hc⟩⟩
  | cons c cs ih =>
    intro pre i u d tg m hall hlen hsz hd
    have hi : all[i]? = some c := by
      rw [hall, List.getElem?_append_right (by omega)]
      simp [hlen]
    have hcall : c ∈ all := by rw [hall]; simp
    have hall' : all = (pre ++ [c]) ++ cs := by rw [hall]; simp
    have hlen' : (pre ++ [c]).length = i + 1 := by simp [hlen]
    have hnzc : ∀ l ∈ c, l ≠ 0 := fun l hl => (hr c hcall l hl).1
    unfold pass
    split
    · -- `done[i]`
      rename_i hdi
      have hdi' : d[i]? = some true := by
        cases hh : d[i]? with
        | none => rw [hh] at hdi; simp at hdi
        | some b => rw [hh] at hdi; simp at hdi; rw [hdi]
      have := ih (pre ++ [c]) (i+1) u d tg m hall' hlen' hsz hd
      refine ⟨this.1, this.2.1, this.2.2.1, ?_⟩
      intro hm
      have h4 := this.2.2.2 hm
      refine ⟨h4.1, h4.2.1, ?_⟩
      intro hc c' hc'
      rcases List.mem_cons.1 hc' with rfl | hc''
      · exact Or.inl (hd i c' hi hdi')
      · exact h4.2.2 hc c' hc''
    · split
      · -- sat
        rename_i hs
        have htrue := scanGo_sat_spec u c 0 0 hnzc hs
        have := ih (pre ++ [c]) (i+1) u (d.setIfInBounds i true) tg m hall' hlen' hsz
          (hd.set hi htrue)
        refine ⟨this.1, this.2.1, this.2.2.1, ?_⟩
        intro hm
        have h4 := this.2.2.2 hm
        refine ⟨h4.1, h4.2.1, ?_⟩
        intro hc c' hc'
        rcases List.mem_cons.1 hc' with rfl | hc''
        · exact Or.inl htrue
        · exact h4.2.2 hc c' hc''
      · -- conflict
        exact ⟨hsz, Ext.refl u, hd, fun h => ⟨h, rfl, fun hc => by cases hc⟩⟩
      · -- unit
        rename_i l hs
        rcases scanGo_unit_mem u c 0 0 l hs with ⟨h0, _⟩ | ⟨hlc, hlb⟩
        · exact absurd rfl h0
        · have hl := hr c hcall l hlc
          have hext : Ext u (setLit u l) := Ext_setLit u l hl.1 hlb
          have htl : Tr (setLit u l) l := Tr_setLit_self u l hl.1 (by omega)
          have := ih (pre ++ [c]) (i+1) (setLit u l) (d.setIfInBounds i true) (tag nbC i tg) true
            hall' hlen' (by rw [size_setLit]; exact hsz) ((hd.ext hext).set hi ⟨l, hlc, htl⟩)
          refine ⟨this.1, hext.trans this.2.1, this.2.2.1, ?_⟩
          intro hm
          have h4 := this.2.2.2 hm
          cases h4.1
      · -- many
        rename_i hs
        have htwo := scanGo_many_zero u c 0 hs
        have := ih (pre ++ [c]) (i+1) u d tg m hall' hlen' hsz hd
        refine ⟨this.1, this.2.1, this.2.2.1, ?_⟩
        intro hm
        have h4 := this.2.2.2 hm
        refine ⟨h4.1, h4.2.1, ?_⟩
        intro hc c' hc'
        rcases List.mem_cons.1 hc' with rfl | hc''
        · exact Or.inr htwo
        · exact h4.2.2 hc c' hc''

/-- `for modified { … }`: when the loop ends by itself without conflict, the final bindings
    extend the initial ones and every clause is saturated under them. -/
theorem loop_complete (nbC n : Nat) (all : List (List Int)) (hr : InRange n all) :
    ∀ (fuel : Nat) (u : Array Int) (d : Array Bool) (tg : List Bool), u.size = n → DoneOk all d u →
    (loop nbC all fuel u d tg).1 = false → (loop nbC all fuel u d tg).2.2.2 = false →
    Ext u (loop nbC all fuel u d tg).2.1 ∧ ∀ c ∈ all, SatCl (loop nbC all fuel u d tg).2.1 c := by
  intro fuel
  induction fuel with
  | zero => intro u d tg _ _ _ h; simp [loop] at h
  | succ k ih =>
    intro u d tg hsz hd
    have hp := pass_complete nbC n all hr all [] 0 u d tg false rfl rfl hsz hd
    unfold loop
    simp only
    split
    · intro h; cases h
    · split
      · intro h1 h2
        have := ih _ _ _ hp.1 hp.2.2.1 h1 h2
        exact ⟨hp.2.1.trans this.1, this.2⟩
      · rename_i hc hm
        intro _ _
        have hm' : (pass nbC all 0 u d tg false).modified = false := by
          cases hh : (pass nbC all 0 u d tg false).modified with
          | true => exact absurd hh hm
          | false => rfl
        have hc' : (pass nbC all 0 u d tg false).conflict = false := by
          cases hh : (pass nbC all 0 u d tg false).conflict with
          | true => exact absurd hh hc
          | false => rfl
        have h4 := hp.2.2.2 hm'
        refine ⟨hp.2.1, ?_⟩
        show ∀ c ∈ all, SatCl (pass nbC all 0 u d tg false).units c
        rw [h4.2.1]
        exact h4.2.2 hc'

theorem inRange_iff_cnfWf (n : Nat) (cs : List (List Int)) : cnfWf n cs = true ↔ InRange n cs := by
  constructor
  · exact inRange_of_cnfWf n cs
  · intro h
    unfold cnfWf
    rw [List.all_eq_true]
    intro c hc
    unfold clauseWf
    rw [List.all_eq_true]
    intro l hl
    unfold litOk
    have := h c hc l hl
    simp [this.1, this.2]

/-- **one line, Go side**: a rejected line leaves a saturated state that extends the start
    bindings (the negated line written over `units`). -/
theorem checkLine_rejected (n : Nat) (pb : Pb) (c : List Int) (hsz : pb.units.size = n)
    (hwf : cnfWf n pb.clauses = true) (hrej : (checkLine pb c).1 = false) :
    ∃ w, Ext (installNeg pb.units c) w ∧ ∀ c' ∈ pb.clauses, SatCl w c' := by
  have hsz' : (installNeg pb.units c).size = n := by rw [installNeg_size]; exact hsz
  have hfuel := (propagate_fuel_suffices { pb with units := installNeg pb.units c }
    (by show cnfWf (installNeg pb.units c).size pb.clauses = true; rw [hsz']; exact hwf)).1
  have hr := inRange_of_cnfWf n pb.clauses hwf
  have := loop_complete pb.nbClauses n pb.clauses hr ((installNeg pb.units c).size + 2)
    (installNeg pb.units c) (Array.replicate pb.clauses.length false) pb.tagged hsz'
    (DoneOk.init _ _ _) hrej hfuel
  exact ⟨_, this⟩

/-! ## 5. a saturated state absorbs every unit-propagation run that starts inside it -/

theorem rup_pass_complete (w : Array Int) (all : List (List Int)) (hnz : Nz all)
    (hsat : ∀ c ∈ all, SatCl w c) :
    ∀ (f : List (List Int)) (u : Array Int) (m : Bool), (∀ c ∈ f, c ∈ all) → WF u → Ext u w →
    (GS.pass u f m).2.1 = false ∧ WF (GS.pass u f m).1 ∧ Ext (GS.pass u f m).1 w := by
  intro f
  induction f with
  | nil => intro u m _ hwf he; simp [GS.pass, hwf, he]
  | cons c cs ih =>
    intro u m hsub hwf he
    have hcall : c ∈ all := hsub c (by simp)
    have hsub' : ∀ c' ∈ cs, c' ∈ all := fun c' hc' => hsub c' (by simp [hc'])
    have hnzc : ∀ l ∈ c, l ≠ 0 := hnz c hcall
    have hz := scan_zero_spec u hwf c 0 hnzc
    unfold GS.pass
    split
    · -- conflict: impossible, the clause would be falsified under `w`
      rename_i hs
      exfalso
      have hfalse : ∀ x ∈ c, Tr w (-x) := fun x hx => he _ (hz.1 hs x hx)
      rcases hsat c hcall with ⟨l, hl, ht⟩ | ⟨x, hx, _, _, _, hxb, _⟩
      · exact ht.not_neg (hfalse l hl)
      · exact (hfalse x hx).unbound_neg hxb
    · -- unit `l`: `l` is already true under `w`
      rename_i l hs
      obtain ⟨hlc, _, hoth⟩ := hz.2 l hs
      have hfalse : ∀ x ∈ c, x ≠ l → Tr w (-x) := fun x hx hxl => he _ (hoth x hx hxl)
      have hl : l ≠ 0 := hnzc l hlc
      have htl : Tr w l := by
        rcases hsat c hcall with ⟨y, hy, ht⟩ | ⟨x, hx, y, hy, hxy, hxb, hyb⟩
        · by_cases hyl : y = l
          · exact hyl ▸ ht
          · exact absurd (hfalse y hy hyl) (fun h => ht.not_neg h)
        · exfalso
          by_cases hxl : x = l
          · exact (hfalse y hy (fun e => hxy (hxl.trans e.symm))).unbound_neg hyb
          · exact (hfalse x hx hxl).unbound_neg hxb
      apply ih (setLit u l) true hsub' (wf_setLit u l hl hwf)
      intro x hx
      rcases Tr_setLit_cases u l x hl hx with h | rfl
      · exact he x h
      · exact htl
    · exact ih u m hsub' hwf he

theorem rup_fix_complete (w : Array Int) (all : List (List Int)) (hnz : Nz all)
    (hsat : ∀ c ∈ all, SatCl w c) (f : List (List Int)) (hsub : ∀ c ∈ f, c ∈ all) :
    ∀ (fuel : Nat) (u : Array Int), WF u → Ext u w → GS.fix f fuel u = false := by
  intro fuel
  induction fuel with
  | zero => intro u _ _; simp [GS.fix]
  | succ k ih =>
    intro u hwf he
    have hp := rup_pass_complete w all hnz hsat f u false hsub hwf he
    unfold GS.fix
    split
    · rename_i heq; rw [heq] at hp; simp at hp
    · rename_i u' heq; rw [heq] at hp; exact ih u' hp.2.1 hp.2.2
    · rfl

/-! ## 6. one line, then the certificate -/

/-- **one line**: a line that `GS.rupLine` accepts w.r.t. a clause set contained in the clause
    list of the Go problem is accepted by `unsat(pb, clause)`. -/
theorem line_complete (n : Nat) (pb : Pb) (db : List (List Int)) (c : List Int)
    (hsz : pb.units.size = n) (hwf : cnfWf n pb.clauses = true)
    (hsub : ∀ c' ∈ db, c' ∈ pb.clauses)
    (hc : clauseWf n c = true) (hnc : ∀ l ∈ c, -l ∉ c)
    (hrup : rupLine n db c = true) : (checkLine pb c).1 = true := by
  cases hrej : (checkLine pb c).1 with
  | true => rfl
  | false =>
    exfalso
    obtain ⟨w, hext, hsat⟩ := checkLine_rejected n pb c hsz hwf hrej
    have hrc : ∀ l ∈ c, l ≠ 0 ∧ l.natAbs ≤ n := by
      have := inRange_of_cnfWf n [c] (by simp [cnfWf, hc])
      exact this c (by simp)
    have hnzc : ∀ l ∈ c, l ≠ 0 := fun l hl => (hrc l hl).1
    unfold rupLine at hrup
    simp only [Bool.and_eq_true] at hrup
    obtain ⟨_, hm⟩ := hrup
    cases hass : assumeNeg (emptyBind n) c with
    | none =>
      rcases assumeNeg_none_cases c _ hnzc hass with ⟨l, _, ht⟩ | ⟨l, hl, hl'⟩
      · exact not_Tr_empty n l ht
      · exact hnc l hl hl'
    | some u0 =>
      rw [hass] at hm
      simp only at hm
      have hu0 := assumeNeg_some c _ _ hass
      subst hu0
      have hstart : Ext (installNeg (emptyBind n) c) w :=
        (Ext_installNeg n c pb.units (by rw [hsz]; exact hrc) hnc).trans hext
      have := rup_fix_complete w pb.clauses (nz_of_cnfWf n _ hwf) hsat db hsub (n + 2)
        (installNeg (emptyBind n) c) (installNeg_wf c _ hnzc (wf_empty n)) hstart
      rw [this] at hm
      cases hm

theorem cnfWf_append_one (n : Nat) (cs : List (List Int)) (c : List Int)
    (h1 : cnfWf n cs = true) (h2 : clauseWf n c = true) : cnfWf n (cs ++ [c]) = true := by
  unfold cnfWf at h1 ⊢
  simp [List.all_append, h1, h2]

/-- **the certificate loop**: the loop of `Unsat` stays in step with `GS.rupFirstBad` -/
theorem allLoop_complete (n : Nat) : ∀ (lines : List (List Int)) (pb : Pb) (db : List (List Int))
    (i j : Nat), pb.units.size = n → cnfWf n pb.clauses = true →
    (∀ c ∈ db, c ∈ pb.clauses) → cnfWf n lines = true →
    (∀ c ∈ lines, ∀ l ∈ c, -l ∉ c) → rupFirstBad n db lines i = none →
    (allLoop pb lines j).valid = true := by
  intro lines
  induction lines with
  | nil => intro pb db i j _ _ _ _ _ _; rfl
  | cons c rest ih =>
    intro pb db i j hsz hwf hsub hl hlnc hrup
    have hcw : clauseWf n c = true ∧ cnfWf n rest = true := by
      unfold cnfWf at hl ⊢
      simpa using hl
    unfold rupFirstBad at hrup
    split at hrup
    · rename_i hline
      have hacc := line_complete n pb db c hsz hwf hsub hcw.1 (hlnc c (by simp)) hline
      rw [allLoop_acc pb c rest j hacc]
      apply ih (learn pb c) (c :: db) (i+1) (j+1) hsz
      · exact cnfWf_append_one n pb.clauses c hwf hcw.1
      · intro c' hc'
        show c' ∈ pb.clauses ++ [c]
        rcases List.mem_cons.1 hc' with rfl | h
        · simp
        · exact List.mem_append.2 (Or.inl (hsub c' h))
      · exact hcw.2
      · exact fun c' hc' => hlnc c' (by simp [hc'])
      · exact hrup
    · cases hrup

/-! ## 7. main theorem -/

/-- **Completeness of the `explain` checker w.r.t. unit propagation**: every certificate accepted
    by the verified RUP checker `GS.rupValid` is accepted by (the mirror of) `(*Problem).Unsat`,
    for a problem as `ParseCNF` builds it, when no line contains complementary literals.
    (Clauses and lines may repeat literals.) -/
theorem checker_complete_up : checker_complete_up_statement := by
  intro n cs lines hcs hl hlnc hv
  unfold rupValid at hv
  have hn : rupFirstBad n cs lines 0 = none := by
    cases hh : rupFirstBad n cs lines 0 with
    | none => rfl
    | some k => rw [hh] at hv; cases hv
  show (allLoop (initTagged (mkPb n cs)) lines 0).valid = true
  exact allLoop_complete n lines (initTagged (mkPb n cs)) cs 0 0 (initUnits_size n cs) hcs
    (fun c hc => hc) hl hlnc hn

/-- the same for `UnsatChan` (which stops reading at the first empty clause) -/
theorem checkChan_complete_up (n : Nat) (cs lines : List (List Int)) (hcs : cnfWf n cs = true)
    (hl : cnfWf n lines = true)
    (hlnc : ∀ c ∈ lines, ∀ l ∈ c, -l ∉ c) (hv : rupValid n cs (cutAtEmpty lines) = true) :
    checkChan (mkPb n cs) lines = true := by
  rw [(checkChan_eq (mkPb n cs) lines).1]
  have hsub := cutAtEmpty_sub lines
  apply checker_complete_up n cs (cutAtEmpty lines) hcs _
    (fun c hc => hlnc c (hsub c hc)) hv
  rw [inRange_iff_cnfWf] at hl ⊢
  exact fun c hc => hl c (hsub c hc)

/-- the statements with the hypotheses that were needed before the repair of the scan
    (no clause of the problem and no line repeats a literal): now mere corollaries -/
theorem checker_complete_up_nodup : checker_complete_up_nodup_statement :=
  fun n cs lines hcs hl _ _ hlnc hv => checker_complete_up n cs lines hcs hl hlnc hv

theorem checkChan_complete_up_nodup (n : Nat) (cs lines : List (List Int)) (hcs : cnfWf n cs = true)
    (hl : cnfWf n lines = true) (_hnd : ∀ c ∈ cs, c.Nodup) (_hlnd : ∀ c ∈ lines, c.Nodup)
    (hlnc : ∀ c ∈ lines, ∀ l ∈ c, -l ∉ c) (hv : rupValid n cs (cutAtEmpty lines) = true) :
    checkChan (mkPb n cs) lines = true :=
  checkChan_complete_up n cs lines hcs hl hlnc hv

/-! ### concrete instances -/

/-- a non-trivial instance: 3 variables, 7 clauses (none of them a unit clause), a certificate
    of three learned clauses ending with the empty clause -/
example :
    let cs : List (List Int) := [[1, 2], [-1, 2, 3], [-2, 3], [-3, 1], [-1, -2], [-3, -1, 2], [3, 2, -1]]
    let lines : List (List Int) := [[2, 3], [3], [1], []]
    cnfWf 3 cs = true ∧ cnfWf 3 lines = true ∧
    (∀ c ∈ lines, ∀ l ∈ c, -l ∉ c) ∧ rupValid 3 cs lines = true := by decide

example : checkAll (mkPb 3 [[1, 2], [-1, 2, 3], [-2, 3], [-3, 1], [-1, -2], [-3, -1, 2], [3, 2, -1]])
    [[2, 3], [3], [1], []] = true :=
  checker_complete_up 3 _ _ (by decide) (by decide) (by decide) (by decide)

/-- an instance with repeated literals in clauses of the problem (`1 2 1`, needed as a unit once 2
    is false, and `-1 3 3 -1`) and in lines (`3 3`, `-2 -2 -2`): the hypotheses hold, and the
    conclusion is also checked directly.  The code before the repair rejected this certificate at
    its first line. -/
example :
    let cs : List (List Int) := [[1, 2, 1], [-1, 3, 3, -1], [-3, 2, -3], [-2, -2]]
    let lines : List (List Int) := [[3, 3], [-2, -2, -2], []]
    cnfWf 3 cs = true ∧ cnfWf 3 lines = true ∧
    (∀ c ∈ lines, ∀ l ∈ c, -l ∉ c) ∧ rupValid 3 cs lines = true ∧
    checkAll (mkPb 3 cs) lines = true ∧ checkChan (mkPb 3 cs) lines = true := by decide

example : checkChan (mkPb 3 [[1, 2, 1], [-1, 3, 3, -1], [-3, 2, -3], [-2, -2]])
    [[3, 3], [-2, -2, -2], [], [1, 1]] = true :=
  checkChan_complete_up 3 _ _ (by decide) (by decide) (by decide) (by decide)

#print axioms checker_complete_up
#print axioms checkChan_complete_up
#print axioms checker_complete_up_nodup
#print axioms checkChan_complete_up_nodup

end GS.Explain
