import GS.Model.BfLex
import GS.Model.BfRender
import GS.Props.C17_Parse
/-!
# C17 — the lexical layer of `bf.Parse` (`GS.BfLex`)
-/
namespace GS.BfLex
open GS GS.BfParse GS.BfRender

/-! ## well-formed identifiers, layouts, byte rendering -/

/-- an identifier of `text/scanner` (ASCII): a letter or `_`, then letters, digits, `_` -/
def wfIdent : List Nat → Bool
  | [] => false
  | b :: r => isIdentStart b && r.all isIdentCont

def isPunctText (t : List Nat) : Bool := (punct? t).isSome

/-- the token texts of the documented grammar: identifiers and the twelve punctuation characters -/
def goodText (t : List Nat) : Bool := wfIdent t || isPunctText t

/-- `lay i` = the bytes written before token number `i` (`lay n` after the last of `n` tokens) -/
abbrev Layout := Nat → List Nat

def renderFrom (lay : Layout) : Nat → List (List Nat) → List Nat
  | i, [] => lay i
  | i, t :: ts => lay i ++ (t ++ renderFrom lay (i+1) ts)

def renderBytes (texts : List (List Nat)) (lay : Layout) : List Nat := renderFrom lay 0 texts

/-- only blanks (space, tab, LF, CR) between the tokens -/
def blankLay (lay : Layout) : Prop := ∀ i, (lay i).all isWs = true

/-- a separator is REQUIRED exactly between two identifiers -/
def sepOk (lay : Layout) : Nat → List (List Nat) → Bool
  | _, [] => true
  | _, [_] => true
  | i, a :: b :: ts => (!(wfIdent a && wfIdent b) || !(lay (i+1)).isEmpty) && sepOk lay (i+1) (b :: ts)

/-! ## one step of the scanner on a rendering -/

theorem dropWhile_ws_append (ws X : List Nat) (h : ws.all isWs = true) :
    (ws ++ X).dropWhile isWs = X.dropWhile isWs := by
  induction ws with
  | nil => rfl
  | cons a ws ih =>
    simp only [List.all_cons, Bool.and_eq_true] at h
    simp [h.1, ih h.2]

theorem dropWhile_ws_all (ws : List Nat) (h : ws.all isWs = true) : ws.dropWhile isWs = [] := by
  have := dropWhile_ws_append ws [] h
  simpa using this

theorem punct_cases {t : List Nat} (h : isPunctText t = true) :
    t = [59] ∨ t = [61] ∨ t = [38] ∨ t = [124] ∨ t = [94] ∨ t = [40] ∨ t = [41] ∨ t = [123] ∨
    t = [125] ∨ t = [44] ∨ t = [45] ∨ t = [62] := by
  unfold isPunctText punct? at h
  split at h <;> simp_all

theorem step_punct (ws t R : List Nat) (hws : ws.all isWs = true) (h : isPunctText t = true) :
    step (ws ++ (t ++ R)) = .tok t R := by
  unfold step
  rw [dropWhile_ws_append ws _ hws]
  rcases punct_cases h with h | h | h | h | h | h | h | h | h | h | h | h <;> subst h <;>
    simp [isWs, isIdentStart, isLetter, isDecimal]

/-- the head of the list is no identifier character (or the list is empty) -/
def headNotIdent : List Nat → Prop
  | [] => True
  | c :: _ => isIdentCont c = false

theorem span_ident (r R : List Nat) (hr : r.all isIdentCont = true) (hR : headNotIdent R) :
    (r ++ R).takeWhile isIdentCont = r ∧ (r ++ R).dropWhile isIdentCont = R := by
  induction r with
  | nil =>
    cases R with
    | nil => simp
    | cons c R => simp [headNotIdent] at hR; simp [hR]
  | cons a r ih =>
    simp only [List.all_cons, Bool.and_eq_true] at hr
    have := ih hr.2
    simp [hr.1, this.1, this.2]

theorem identStart_facts {b : Nat} (h : isIdentStart b = true) :
    b < 128 ∧ isWs b = false := by
  simp only [isIdentStart, isLetter, Bool.or_eq_true, Bool.and_eq_true, decide_eq_true_eq, beq_iff_eq] at h
  refine ⟨by omega, ?_⟩
  simp only [isWs, Bool.or_eq_false_iff, beq_eq_false_iff_ne]
  omega

theorem step_ident (ws t R : List Nat) (hws : ws.all isWs = true) (h : wfIdent t = true)
    (hR : headNotIdent R) : step (ws ++ (t ++ R)) = .tok t R := by
  cases t with
  | nil => simp [wfIdent] at h
  | cons b r =>
    simp only [wfIdent, Bool.and_eq_true] at h
    obtain ⟨h128, hnw⟩ := identStart_facts h.1
    obtain ⟨h1, h2⟩ := span_ident r R h.2 hR
    unfold step
    rw [dropWhile_ws_append ws _ hws]
    have : ¬ (128 ≤ b) := by omega
    simp [hnw, this, h.1, h1, h2]

theorem ws_notIdent {c : Nat} (h : isWs c = true) : isIdentCont c = false := by
  simp only [isWs, Bool.or_eq_true, beq_iff_eq] at h
  rcases h with ((h | h) | h) | h <;> subst h <;> decide

theorem punct_head_notIdent {t R : List Nat} (h : isPunctText t = true) : headNotIdent (t ++ R) := by
  rcases punct_cases h with h | h | h | h | h | h | h | h | h | h | h | h <;> subst h <;>
    simp [headNotIdent] <;> decide

theorem goodText_ne_nil {t : List Nat} (h : goodText t = true) : t ≠ [] := by
  intro e; subst e; simp [goodText, wfIdent, isPunctText, punct?] at h

/-- what follows an identifier in a rendering with the required separators -/
theorem head_after_ident (lay : Layout) (hb : blankLay lay) (i : Nat) (t : List Nat) (ts : List (List Nat))
    (ht : wfIdent t = true) (hg : ∀ u ∈ ts, goodText u = true) (hs : sepOk lay i (t :: ts) = true) :
    headNotIdent (renderFrom lay (i+1) ts) := by
  have hbl := hb (i+1)
  cases ts with
  | nil =>
    simp only [renderFrom]
    cases hl : lay (i+1) with
    | nil => trivial
    | cons c l => rw [hl] at hbl; simp at hbl; exact ws_notIdent hbl.1
  | cons u us =>
    simp only [renderFrom]
    cases hl : lay (i+1) with
    | cons c l => rw [hl] at hbl; simp at hbl; exact ws_notIdent hbl.1
    | nil =>
      simp only [sepOk, hl, ht, Bool.true_and, List.isEmpty_nil, Bool.not_true, Bool.or_false,
        Bool.and_eq_true, Bool.not_eq_true'] at hs
      have hgu := hg u (by simp)
      simp only [goodText, hs.1, Bool.false_or] at hgu
      simpa using punct_head_notIdent (R := renderFrom lay (i+1+1) us) hgu

theorem sepOk_tail {lay : Layout} {i : Nat} {t : List Nat} {ts : List (List Nat)}
    (hs : sepOk lay i (t :: ts) = true) : sepOk lay (i+1) ts = true := by
  cases ts with
  | nil => rfl
  | cons u us => simp only [sepOk, Bool.and_eq_true] at hs; exact hs.2

theorem lexAux_render (lay : Layout) (hb : blankLay lay) :
    ∀ (texts : List (List Nat)) (i fuel : Nat), texts.length < fuel →
      (∀ t ∈ texts, goodText t = true) → sepOk lay i texts = true →
      lexAux fuel (renderFrom lay i texts) = .ok texts := by
  intro texts
  induction texts with
  | nil =>
    intro i fuel hf _ _
    cases fuel with
    | zero => omega
    | succ f =>
      simp only [renderFrom, lexAux]
      have : step (lay i) = .eof := by
        unfold step; rw [dropWhile_ws_all _ (hb i)]
      rw [this]
  | cons t ts ih =>
    intro i fuel hf hg hs
    cases fuel with
    | zero => omega
    | succ f =>
      have hgt := hg t (by simp)
      have hstep : step (renderFrom lay i (t :: ts)) = .tok t (renderFrom lay (i+1) ts) := by
        simp only [renderFrom]
        cases hw : wfIdent t with
        | true =>
          exact step_ident _ _ _ (hb i) hw
            (head_after_ident lay hb i t ts hw (fun u hu => hg u (by simp [hu])) hs)
        | false =>
          simp only [goodText, hw, Bool.false_or] at hgt
          exact step_punct _ _ _ (hb i) hgt
      have hrec := ih (i+1) f (by simp at hf; omega) (fun u hu => hg u (by simp [hu])) (sepOk_tail hs)
      simp only [lexAux, hstep, hrec]

theorem renderFrom_length (lay : Layout) : ∀ (texts : List (List Nat)) (i : Nat),
    (∀ t ∈ texts, goodText t = true) → texts.length ≤ (renderFrom lay i texts).length := by
  intro texts
  induction texts with
  | nil => intro i _; simp
  | cons t ts ih =>
    intro i hg
    have := ih (i+1) (fun u hu => hg u (by simp [hu]))
    have hne := goodText_ne_nil (hg t (by simp))
    have : 1 ≤ t.length := by cases t with | nil => exact absurd rfl hne | cons _ _ => simp
    simp only [renderFrom, List.length_append, List.length_cons]
    omega

/-- MAIN (token texts): the scanner reads back the texts that were written, whatever the blanks,
provided two adjacent identifiers are separated. -/
theorem lexRaw_render (texts : List (List Nat)) (lay : Layout) (hb : blankLay lay)
    (hg : ∀ t ∈ texts, goodText t = true) (hs : sepOk lay 0 texts = true) :
    lexRaw (renderBytes texts lay) = .ok texts := by
  unfold lexRaw renderBytes
  exact lexAux_render lay hb texts 0 _ (by have := renderFrom_length lay texts 0 hg; omega) hg hs

/-- MAIN (tokens of the parser mirror) -/
theorem lex_render (texts : List (List Nat)) (lay : Layout) (hb : blankLay lay)
    (hg : ∀ t ∈ texts, goodText t = true) (hs : sepOk lay 0 texts = true) :
    lex (renderBytes texts lay) = .ok (texts.map toWire) := by
  simp [lex, lexRaw_render texts lay hb hg hs]

/-! ## composition with the parser mirror -/

/-- the bytes of a token of `GS.BfRender` when names are written as themselves (`BAR` is `|`) -/
def tokBytes (t : String) : List Nat := if t = "BAR" then [124] else t.toList.map Char.toNat

/-- the token of the parser mirror the lexer produces for the text of `t` -/
def wireTok (t : String) : String := toWire (tokBytes t)

/-- a name of the documented grammar: an identifier that is no Go keyword -/
def wfName (t : String) : Bool := wfIdent (tokBytes t) && (kwIndex (tokBytes t)).isNone

def _root_.GS.BfRender.Syn.mapNames (g : String → String) : Syn → Syn
  | .var t => .var (g t)
  | .uniq ns => .uniq (ns.map g)
  | .not s => .not (s.mapNames g)
  | .bin op l r => .bin op (l.mapNames g) (r.mapNames g)

def _root_.GS.BfRender.CST.mapNames (g : String → String) : CST → CST
  | .var t => .var (g t)
  | .uniq ns => .uniq (ns.map g)
  | .not c => .not (c.mapNames g)
  | .bin op l r => .bin op (l.mapNames g) (r.mapNames g)
  | .par c => .par (c.mapNames g)

/-- `g` leaves the punctuation tokens alone -/
structure PunctFix (g : String → String) : Prop where
  lp : g "(" = "("
  rp : g ")" = ")"
  lb : g "{" = "{"
  rb : g "}" = "}"
  comma : g "," = ","
  neg : g "^" = "^"
  semi : g ";" = ";"
  eq : g "=" = "="
  minus : g "-" = "-"
  gt : g ">" = ">"
  bar : g "BAR" = "BAR"
  amp : g "&" = "&"

theorem Syn.prio_mapNames (g : String → String) (s : Syn) : (s.mapNames g).prio = s.prio := by
  cases s <;> rfl

theorem commaSep_map (g : String → String) (hc : g "," = ",") :
    ∀ ns : List String, commaSep (ns.map g) = (commaSep ns).map g
  | [] => rfl
  | [_] => rfl
  | a :: b :: ns => by
    have := commaSep_map g hc (b :: ns)
    simp only [List.map_cons] at this
    simp [commaSep, this, hc]

theorem Op.toks_map {g : String → String} (hg : PunctFix g) (op : Op) : op.toks.map g = op.toks := by
  cases op <;> simp [Op.toks, hg.semi, hg.eq, hg.minus, hg.gt, hg.bar, hg.amp]

theorem CST.render_mapNames {g : String → String} (hg : PunctFix g) :
    ∀ c : CST, (c.mapNames g).render = c.render.map g
  | .var t => rfl
  | .uniq ns => by simp [CST.mapNames, CST.render, commaSep_map g hg.comma, hg.lb, hg.rb]
  | .not c => by simp [CST.mapNames, CST.render, CST.render_mapNames hg c, hg.neg]
  | .bin op l r => by
    simp [CST.mapNames, CST.render, CST.render_mapNames hg l, CST.render_mapNames hg r, Op.toks_map hg]
  | .par c => by simp [CST.mapNames, CST.render, CST.render_mapNames hg c, hg.lp, hg.rp]

theorem wrapN_mapNames (g : String → String) (n : Nat) (c : CST) :
    (wrapN n c).mapNames g = wrapN n (c.mapNames g) := by
  induction n with
  | zero => rfl
  | succ n ih => simp [wrapN, CST.mapNames, ih]

theorem parIf_mapNames (g : String → String) (b : Bool) (c : CST) :
    (parIf b c).mapNames g = parIf b (c.mapNames g) := by
  cases b <;> simp [parIf, CST.mapNames]

theorem decorate_mapNames (g : String → String) :
    ∀ (s : Syn) (d : Deco), decorate d (s.mapNames g) = (decorate d s).mapNames g
  | .var t, d => by simp [Syn.mapNames, decorate, wrapN_mapNames, CST.mapNames]
  | .uniq ns, d => by simp [Syn.mapNames, decorate, wrapN_mapNames, CST.mapNames]
  | .not s, d => by
    simp [Syn.mapNames, decorate, wrapN_mapNames, CST.mapNames, parIf_mapNames,
      decorate_mapNames g s, Syn.prio_mapNames]
  | .bin op l r, d => by
    simp [Syn.mapNames, decorate, wrapN_mapNames, CST.mapNames, parIf_mapNames,
      decorate_mapNames g l, decorate_mapNames g r, Syn.prio_mapNames]

theorem renderP_mapNames {g : String → String} (hg : PunctFix g) (d : Deco) (s : Syn) :
    renderP d (s.mapNames g) = (renderP d s).map g := by
  simp [renderP, decorate_mapNames, CST.render_mapNames hg]

/-! ### a property of all tokens of a rendering -/

def _root_.GS.BfRender.Syn.allNames (P : String → Bool) : Syn → Bool
  | .var t => P t
  | .uniq ns => ns.all P
  | .not s => s.allNames P
  | .bin _ l r => l.allNames P && r.allNames P

def _root_.GS.BfRender.CST.allNames (P : String → Bool) : CST → Bool
  | .var t => P t
  | .uniq ns => ns.all P
  | .not c => c.allNames P
  | .bin _ l r => l.allNames P && r.allNames P
  | .par c => c.allNames P

/-- `Q` holds of the punctuation tokens -/
structure PunctAll (Q : String → Prop) : Prop where
  lp : Q "("
  rp : Q ")"
  lb : Q "{"
  rb : Q "}"
  comma : Q ","
  neg : Q "^"
  semi : Q ";"
  eq : Q "="
  minus : Q "-"
  gt : Q ">"
  bar : Q "BAR"
  amp : Q "&"

theorem commaSep_all {Q : String → Prop} (hc : Q ",") :
    ∀ ns : List String, (∀ t ∈ ns, Q t) → ∀ t ∈ commaSep ns, Q t
  | [], _ => by simp [commaSep]
  | [a], h => by simpa [commaSep] using h
  | a :: b :: ns, h => by
    have ih := commaSep_all hc (b :: ns) (fun t ht => h t (by simp [ht]))
    intro t ht
    simp only [commaSep, List.mem_cons] at ht
    rcases ht with e | e | ht
    · exact e ▸ h a (by simp)
    · exact e ▸ hc
    · exact ih t ht

theorem Op.toks_all {Q : String → Prop} (hq : PunctAll Q) (op : Op) : ∀ t ∈ op.toks, Q t := by
  cases op <;> simp [Op.toks, hq.semi, hq.eq, hq.minus, hq.gt, hq.bar, hq.amp]

theorem CST.render_all {P : String → Bool} {Q : String → Prop} (hq : PunctAll Q)
    (hpq : ∀ t, P t = true → Q t) :
    ∀ c : CST, c.allNames P = true → ∀ t ∈ c.render, Q t
  | .var t, h => by simpa [CST.render] using hpq t h
  | .uniq ns, h => by
    simp only [CST.allNames, List.all_eq_true] at h
    have := commaSep_all hq.comma ns (fun t ht => hpq t (h t ht))
    intro t ht
    simp only [CST.render, List.mem_cons, List.mem_append, List.not_mem_nil, or_false] at ht
    rcases ht with e | ht | e
    · exact e ▸ hq.lb
    · exact this t ht
    · exact e ▸ hq.rb
  | .not c, h => by
    intro t ht
    simp only [CST.render, List.mem_cons] at ht
    rcases ht with e | ht
    · exact e ▸ hq.neg
    · exact CST.render_all hq hpq c h t ht
  | .bin op l r, h => by
    simp only [CST.allNames, Bool.and_eq_true] at h
    intro t ht
    simp only [CST.render, List.mem_append] at ht
    rcases ht with ht | ht | ht
    · exact CST.render_all hq hpq l h.1 t ht
    · exact Op.toks_all hq op t ht
    · exact CST.render_all hq hpq r h.2 t ht
  | .par c, h => by
    intro t ht
    simp only [CST.render, List.mem_cons, List.mem_append, List.not_mem_nil, or_false] at ht
    rcases ht with e | ht | e
    · exact e ▸ hq.lp
    · exact CST.render_all hq hpq c h t ht
    · exact e ▸ hq.rp

theorem wrapN_allNames (P : String → Bool) (n : Nat) (c : CST) : (wrapN n c).allNames P = c.allNames P := by
  induction n with
  | zero => rfl
  | succ n ih => simp [wrapN, CST.allNames, ih]

theorem parIf_allNames (P : String → Bool) (b : Bool) (c : CST) : (parIf b c).allNames P = c.allNames P := by
  cases b <;> simp [parIf, CST.allNames]

theorem decorate_allNames (P : String → Bool) :
    ∀ (s : Syn) (d : Deco), (decorate d s).allNames P = s.allNames P
  | .var t, d => by simp [decorate, wrapN_allNames, CST.allNames, Syn.allNames]
  | .uniq ns, d => by simp [decorate, wrapN_allNames, CST.allNames, Syn.allNames]
  | .not s, d => by
    simp [decorate, wrapN_allNames, CST.allNames, Syn.allNames, parIf_allNames, decorate_allNames P s]
  | .bin op l r, d => by
    simp [decorate, wrapN_allNames, CST.allNames, Syn.allNames, parIf_allNames,
      decorate_allNames P l, decorate_allNames P r]

/-! ### the lexer's tokens for a rendering with names written as themselves -/

theorem punctFix_wireTok : PunctFix wireTok :=
  ⟨by decide, by decide, by decide, by decide, by decide, by decide, by decide, by decide, by decide,
   by decide, by decide, by decide⟩

theorem punctAll_good : PunctAll (fun t => goodText (tokBytes t) = true) :=
  ⟨by decide, by decide, by decide, by decide, by decide, by decide, by decide, by decide, by decide,
   by decide, by decide, by decide⟩

theorem punct?_none_of_wfIdent {t : List Nat} (h : wfIdent t = true) : punct? t = none := by
  cases hp : punct? t with
  | none => rfl
  | some p =>
    have : isPunctText t = true := by simp [isPunctText, hp]
    rcases punct_cases this with h' | h' | h' | h' | h' | h' | h' | h' | h' | h' | h' | h' <;>
      subst h' <;> exact absurd h (by decide)

theorem wireTok_of_wfName {t : String} (h : wfName t = true) : wireTok t = vtok (code (tokBytes t)) := by
  simp only [wfName, Bool.and_eq_true, Option.isNone_iff_eq_none] at h
  simp [wireTok, toWire, punct?_none_of_wfIdent h.1, h.2, vtok]

theorem plainTok_wireTok {t : String} (h : wfName t = true) : plainTok (wireTok t) = true := by
  rw [wireTok_of_wfName h]; exact plainTok_of_v (isVTok_vtok _)

/-- well-formed formula of the documented grammar, names written as themselves: every name is an
identifier and no Go keyword, exactly-one groups are not empty -/
def _root_.GS.BfRender.Syn.wfB : Syn → Bool
  | .var t => wfName t
  | .uniq ns => !ns.isEmpty && ns.all wfName
  | .not s => s.wfB
  | .bin _ l r => l.wfB && r.wfB

/-- the documented reading; the name `t` is the variable number `code (bytes of t)` -/
def _root_.GS.BfRender.Syn.toSFB : Syn → SF
  | .var t => SF.var (code (tokBytes t))
  | .uniq ns => SF.unique (ns.map (fun t => code (tokBytes t)))
  | .not s => SF.not s.toSFB
  | .bin op l r => op.mk l.toSFB r.toSFB

theorem wf_mapNames : ∀ s : Syn, s.wfB = true → (s.mapNames wireTok).wf = true
  | .var t, h => by simpa [Syn.mapNames, Syn.wf] using plainTok_wireTok h
  | .uniq ns, h => by
    simp only [Syn.wfB, Bool.and_eq_true, List.all_eq_true] at h
    simp only [Syn.mapNames, Syn.wf, Bool.and_eq_true, List.all_eq_true]
    refine ⟨by simpa using h.1, ?_⟩
    intro t ht
    obtain ⟨u, hu, e⟩ := List.mem_map.1 ht
    exact e ▸ plainTok_wireTok (h.2 u hu)
  | .not s, h => by simpa [Syn.mapNames, Syn.wf] using wf_mapNames s h
  | .bin op l r, h => by
    simp only [Syn.wfB, Bool.and_eq_true] at h
    simp [Syn.mapNames, Syn.wf, wf_mapNames l h.1, wf_mapNames r h.2]

theorem allNames_of_wfB : ∀ s : Syn, s.wfB = true → s.allNames wfName = true
  | .var t, h => h
  | .uniq ns, h => by simp only [Syn.wfB, Bool.and_eq_true] at h; exact h.2
  | .not s, h => allNames_of_wfB s h
  | .bin op l r, h => by
    simp only [Syn.wfB, Bool.and_eq_true] at h
    simp [Syn.allNames, allNames_of_wfB l h.1, allNames_of_wfB r h.2]

theorem toSF_mapNames : ∀ s : Syn, s.wfB = true → (s.mapNames wireTok).toSF = s.toSFB
  | .var t, h => by simp [Syn.mapNames, Syn.toSF, Syn.toSFB, wireTok_of_wfName h, nameId_vtok]
  | .uniq ns, h => by
    simp only [Syn.wfB, Bool.and_eq_true, List.all_eq_true] at h
    simp only [Syn.mapNames, Syn.toSF, Syn.toSFB, List.map_map]
    congr 1
    apply List.map_congr_left
    intro t ht
    simp [wireTok_of_wfName (h.2 t ht), nameId_vtok]
  | .not s, h => by simp [Syn.mapNames, Syn.toSF, Syn.toSFB, toSF_mapNames s h]
  | .bin op l r, h => by
    simp only [Syn.wfB, Bool.and_eq_true] at h
    simp [Syn.mapNames, Syn.toSF, Syn.toSFB, toSF_mapNames l h.1, toSF_mapNames r h.2]

/-- every token of a rendering of a well-formed formula is an identifier or a punctuation character -/
theorem renderP_good (d : Deco) (s : Syn) (h : s.wfB = true) :
    ∀ t ∈ (renderP d s).map tokBytes, goodText t = true := by
  intro t ht
  obtain ⟨u, hu, e⟩ := List.mem_map.1 ht
  subst e
  refine CST.render_all (P := wfName) (Q := fun t => goodText (tokBytes t) = true) punctAll_good ?_
    (decorate d s) (by rw [decorate_allNames]; exact allNames_of_wfB s h) u hu
  intro t ht
  simp only [wfName, Bool.and_eq_true] at ht
  simp [goodText, ht.1]

/-- the lexer on the bytes of a rendering gives the token list of the rendering (names as `v<code>`) -/
theorem lex_renderP (d : Deco) (s : Syn) (lay : Layout) (h : s.wfB = true) (hb : blankLay lay)
    (hs : sepOk lay 0 ((renderP d s).map tokBytes) = true) :
    lex (renderBytes ((renderP d s).map tokBytes) lay) = .ok (renderP d (s.mapNames wireTok)) := by
  rw [lex_render _ lay hb (renderP_good d s h) hs, renderP_mapNames punctFix_wireTok, List.map_map]
  rfl

/-- MAIN THEOREM: parsing the bytes of any rendering of a formula — minimal parentheses plus any
redundant ones (`d`), any blanks between the tokens (`lay`), at least one between two adjacent
identifiers — gives back the formula. -/
theorem parseBytes_render (d : Deco) (s : Syn) (lay : Layout) (h : s.wfB = true) (hb : blankLay lay)
    (hs : sepOk lay 0 ((renderP d s).map tokBytes) = true) :
    parseBytes (renderBytes ((renderP d s).map tokBytes) lay) = .ok (.ok s.toSFB []) := by
  simp only [parseBytes, lex_renderP d s lay h hb hs]
  rw [parse_renderP d _ (wf_mapNames s h), toSF_mapNames s h]

/-! ## totality: every step consumes a byte, the fuel `length + 1` is never exhausted -/

theorem dropWhile_len (p : Nat → Bool) (l : List Nat) : (l.dropWhile p).length ≤ l.length :=
  (List.dropWhile_suffix p).length_le

theorem digits_len (hex : Bool) (bs : List Nat) : (digits hex bs).length ≤ bs.length :=
  dropWhile_len _ _

theorem numExponent_len (bs : List Nat) : (numExponent bs).length ≤ bs.length := by
  unfold numExponent
  split
  · split
    · rename_i c r _
      have h1 : ∀ x : List Nat, (digits false x).length ≤ x.length := digits_len false
      split <;> (have := h1 ‹_›; simp only [List.length_cons]; try omega)
      all_goals (have := h1 r; omega)
    · exact Nat.le_refl _
  · exact Nat.le_refl _

theorem numPrefix_len (b : Nat) (r : List Nat) (hb : isDecimal b = true) :
    (digits (numPrefix (b :: r)).2 (numPrefix (b :: r)).1).length ≤ r.length := by
  unfold numPrefix
  split
  · rename_i r' heq
    simp only [List.cons.injEq] at heq
    obtain ⟨_, rfl⟩ := heq
    split
    · rename_i c r2
      split
      · have := digits_len true r2; simp only [List.length_cons]; omega
      · split
        · have := digits_len false r2; simp only [List.length_cons]; omega
        · exact digits_len _ _
    · exact digits_len _ _
  · simp only [digits, List.dropWhile_cons, hb, Bool.true_or, ↓reduceIte, Bool.false_eq_true]
    exact dropWhile_len _ _


theorem scanNumber_dot_len (bs : List Nat) : (scanNumber bs true).length ≤ bs.length := by
  simp only [scanNumber, ↓reduceIte]
  have := numExponent_len (digits false bs); have := digits_len false bs; omega

theorem scanNumber_len (b : Nat) (r : List Nat) (hb : isDecimal b = true) :
    (scanNumber (b :: r) false).length ≤ r.length := by
  have h0 := numPrefix_len b r hb
  simp only [scanNumber, Bool.false_eq_true, ↓reduceIte]
  split
  · rename_i r' heq
    rw [heq] at h0
    have := numExponent_len (digits (numPrefix (b :: r)).2 r')
    have := digits_len (numPrefix (b :: r)).2 r'
    simp only [List.length_cons] at h0
    omega
  · have := numExponent_len (digits (numPrefix (b :: r)).2 (numPrefix (b :: r)).1)
    omega

theorem scanDigits_len (base : Nat) : ∀ (n : Nat) (bs : List Nat), (scanDigits base n bs).length ≤ bs.length
  | 0, bs => Nat.le_refl _
  | _+1, [] => Nat.le_refl _
  | n+1, c :: r => by
    simp only [scanDigits]
    split
    · have := scanDigits_len base n r; simp only [List.length_cons]; omega
    · exact Nat.le_refl _

theorem scanEscape_len (q : Nat) (bs : List Nat) : (scanEscape q bs).length ≤ bs.length := by
  unfold scanEscape
  split
  · exact Nat.le_refl _
  · rename_i c r
    have h8 := scanDigits_len 8 3 (c :: r)
    have h2 := scanDigits_len 16 2 r
    have h4 := scanDigits_len 16 4 r
    have h16 := scanDigits_len 16 8 r
    repeat' split
    all_goals (simp only [List.length_cons] at *; omega)

theorem scanString_len (q : Nat) : ∀ (fuel : Nat) (bs : List Nat), (scanString q fuel bs).length ≤ bs.length
  | 0, bs => Nat.le_refl _
  | _+1, [] => Nat.le_refl _
  | f+1, c :: r => by
    simp only [scanString]
    have h1 := scanString_len q f (scanEscape q r)
    have h2 := scanEscape_len q r
    have h3 := scanString_len q f r
    simp only [List.length_cons]
    repeat' split
    all_goals omega

theorem scanRawString_len (bs : List Nat) : (scanRawString bs).length ≤ bs.length := by
  have := dropWhile_len (· != 96) bs
  simp only [scanRawString, List.length_drop]; omega

theorem blockComment_len : ∀ bs : List Nat, (blockComment bs).length ≤ bs.length := by
  intro bs
  fun_induction blockComment bs <;> (try simp only [List.length_cons]) <;> omega

/-- a step that delivers a token or skips a comment consumes at least one byte -/
def Prog (bs : List Nat) : Step → Prop
  | .tok _ rest => rest.length < bs.length
  | .skip rest => rest.length < bs.length
  | _ => True

theorem step_progress (bs : List Nat) : Prog bs (step bs) := by
  have hw := dropWhile_len isWs bs
  unfold step
  split
  · trivial
  · rename_i b r heq
    rw [heq] at hw
    simp only [List.length_cons] at hw
    have hi := dropWhile_len isIdentCont r
    have hraw := scanRawString_len r
    have hstr := scanString_len b (r.length + 1) r
    have hdot := scanNumber_dot_len r
    split
    · trivial
    split
    · simp only [Prog]; omega
    split
    · rename_i hd
      have := scanNumber_len b r hd
      simp only [Prog]; omega
    split
    · simp only [Prog]; omega
    split
    · simp only [Prog]; omega
    split
    · split
      · split <;> (simp only [Prog]; omega)
      · simp only [Prog]; omega
    split
    · split
      · rename_i r2
        have := dropWhile_len (· != 10) r2
        simp only [List.length_cons] at hw
        simp only [Prog]; omega
      · rename_i r2
        have := blockComment_len r2
        simp only [List.length_cons] at hw
        simp only [Prog]; omega
      · simp only [Prog]; omega
    · simp only [Prog]; omega

theorem lexAux_total : ∀ (fuel : Nat) (bs : List Nat), bs.length < fuel →
    (∃ ts, lexAux fuel bs = .ok ts) ∨ lexAux fuel bs = .error "unmodelled"
  | 0, _, h => by omega
  | f+1, bs, h => by
    have hp := step_progress bs
    simp only [lexAux]
    split
    · exact .inl ⟨[], rfl⟩
    · exact .inr rfl
    · rename_i rest hs
      exact lexAux_total f rest (by rw [hs] at hp; simp only [Prog] at hp; omega)
    · rename_i t rest hs
      rcases lexAux_total f rest (by rw [hs] at hp; simp only [Prog] at hp; omega) with ⟨ts, h1⟩ | h1
      · exact .inl ⟨t :: ts, by rw [h1]⟩
      · exact .inr (by rw [h1])

/-- the lexer never runs out of fuel: it answers a token list, or `unmodelled` -/
theorem lexRaw_total (bs : List Nat) : (∃ ts, lexRaw bs = .ok ts) ∨ lexRaw bs = .error "unmodelled" :=
  lexAux_total _ bs (Nat.lt_succ_self _)

theorem lex_total (bs : List Nat) : (∃ ts, lex bs = .ok ts) ∨ lex bs = .error "unmodelled" := by
  rcases lexRaw_total bs with ⟨ts, h⟩ | h
  · exact .inl ⟨ts.map toWire, by simp [lex, h]⟩
  · exact .inr (by simp [lex, h])


/-! ## when a separator is required -/

theorem wfIdent_append {a b : List Nat} (ha : wfIdent a = true) (hb : wfIdent b = true) :
    wfIdent (a ++ b) = true := by
  cases a with
  | nil => simp [wfIdent] at ha
  | cons x a =>
    cases b with
    | nil => simpa using ha
    | cons y b =>
      simp only [wfIdent, Bool.and_eq_true] at ha hb
      simp [wfIdent, ha.1, ha.2, hb.2, isIdentCont, hb.1]

theorem lay_nil_blank : blankLay (fun _ => []) := fun _ => rfl

/-- two identifiers written without a blank are read as ONE identifier: the separator between two
identifiers is required -/
theorem sep_required (a b : List Nat) (ha : wfIdent a = true) (hb : wfIdent b = true) :
    lexRaw (a ++ b) = .ok [a ++ b] := by
  have := lexRaw_render [a ++ b] (fun _ => []) lay_nil_blank
    (by intro t ht; simp at ht; subst ht; simp [goodText, wfIdent_append ha hb]) rfl
  simpa [renderBytes, renderFrom] using this

/-- no separator is needed anywhere else: with no blank at all, a token list in which no two
identifiers are adjacent is read back -/
theorem no_sep_needed (texts : List (List Nat)) (hg : ∀ t ∈ texts, goodText t = true)
    (hs : sepOk (fun _ => []) 0 texts = true) : lexRaw texts.flatten = .ok texts := by
  have := lexRaw_render texts (fun _ => []) lay_nil_blank hg hs
  have e : ∀ (ts : List (List Nat)) (i : Nat), renderFrom (fun _ => []) i ts = ts.flatten := by
    intro ts; induction ts with
    | nil => intro i; rfl
    | cons t ts ih => intro i; simp [renderFrom, ih]
  rwa [renderBytes, e] at this

/-- a layout with at least one blank before every token but the first satisfies `sepOk` -/
theorem sepOk_of_spaced (lay : Layout) (h : ∀ i, lay (i+1) ≠ []) :
    ∀ (texts : List (List Nat)) (i : Nat), sepOk lay i texts = true
  | [], _ => rfl
  | [_], _ => rfl
  | a :: b :: ts, i => by
    have := sepOk_of_spaced lay h (b :: ts) (i+1)
    have hne : (lay (i+1)).isEmpty = false := by
      cases hl : lay (i+1) with
      | nil => exact absurd hl (h i)
      | cons _ _ => rfl
    simp [sepOk, this, hne]


/-! ## the numbering of names -/

/-- `code` read from the last byte -/
def codeR : List Nat → Nat
  | [] => 1
  | b :: r => codeR r * 256 + b

theorem code_eq_codeR (bs : List Nat) : code bs = codeR bs.reverse := by
  have : ∀ (l : List Nat), codeR l = l.foldr (fun b a => a * 256 + b) 1 := by
    intro l; induction l with
    | nil => rfl
    | cons b r ih => simp [codeR, ih]
  rw [this, code, List.foldr_reverse]

theorem codeR_pos : ∀ l : List Nat, 1 ≤ codeR l
  | [] => Nat.le_refl _
  | b :: r => by have := codeR_pos r; simp only [codeR]; omega

theorem codeR_injective : ∀ (bs cs : List Nat), (∀ b ∈ bs, b < 256) → (∀ c ∈ cs, c < 256) →
    codeR bs = codeR cs → bs = cs
  | [], [], _, _, _ => rfl
  | [], c :: cs, _, _, h => by have := codeR_pos cs; simp only [codeR] at h; omega
  | b :: bs, [], _, _, h => by have := codeR_pos bs; simp only [codeR] at h; omega
  | b :: bs, c :: cs, hb, hc, h => by
    simp only [codeR] at h
    have h1 := hb b (by simp)
    have h2 := hc c (by simp)
    have e1 : codeR bs = codeR cs := by omega
    have e2 : b = c := by omega
    rw [codeR_injective bs cs (fun x hx => hb x (by simp [hx])) (fun x hx => hc x (by simp [hx])) e1, e2]

/-- the numbering of token texts is injective on byte lists: distinct names are distinct variables -/
theorem code_injective (bs cs : List Nat) (hb : ∀ b ∈ bs, b < 256) (hc : ∀ c ∈ cs, c < 256)
    (h : code bs = code cs) : bs = cs := by
  rw [code_eq_codeR, code_eq_codeR] at h
  have := codeR_injective _ _ (by simpa using hb) (by simpa using hc) h
  simpa using this


/-! ## non-vacuity and counterexamples -/

/-- bytes of an ASCII string -/
def ofStr (s : String) : List Nat := s.toList.map Char.toNat

-- the hypotheses of `lex_render` on a concrete rendering, and its conclusion recomputed
def exTexts : List (List Nat) := ["(", "ab_1", "|", "^", "c", ")", "-", ">", "{", "x", ",", "y", "}", ";", "Z", "q"].map ofStr
def exLay : Layout := fun i => if i = 1 then [] else if i = 7 then [32, 10] else if i = 15 then [9] else if i % 3 = 0 then [32] else []
example : sepOk exLay 0 exTexts = true := by decide
example : ∀ t ∈ exTexts, goodText t = true := by decide
example : renderBytes exTexts exLay = ofStr " (ab_1| ^c) - \n>{ x,y };Z\tq" := by decide
example : lexRaw (ofStr " (ab_1| ^c) - \n>{ x,y };Z\tq") = .ok exTexts := rfl

-- `->` may be written with blanks (even a newline, even a comment) between `-` and `>`
example : lex (ofStr "a->b") = .ok ["v353", "-", ">", "v354"] := rfl
example : lex (ofStr "a - > b") = .ok ["v353", "-", ">", "v354"] := rfl
example : lex (ofStr "a-\n>b") = .ok ["v353", "-", ">", "v354"] := rfl
example : lex (ofStr "a-/* c */>b // d") = .ok ["v353", "-", ">", "v354"] := rfl
example : code (ofStr "a") = 353 ∧ code (ofStr "b") = 354 := by decide

-- `parseBytes_render` on a concrete formula: the hypotheses hold, the rendering is the expected text
def exSyn : Syn := .bin .seq (.bin .imp (.bin .and (.var "p1") (.not (.bin .or (.var "q") (.var "_r")))) (.uniq ["x", "y", "true"])) (.var "BARx")
example : exSyn.wfB = true := by decide
example : (renderP (fun _ => 0) exSyn).map tokBytes =
    ["p1", "&", "^", "(", "q", "|", "_r", ")", "-", ">", "{", "x", ",", "y", ",", "true", "}", ";", "BARx"].map ofStr := by decide
example : parseBytes (ofStr "p1&^(q|_r)->{x,y,true};BARx") = .ok (.ok exSyn.toSFB []) := by
  have := parseBytes_render (fun _ => 0) exSyn (fun _ => []) (by decide) lay_nil_blank (by decide)
  rwa [show renderBytes ((renderP (fun _ => 0) exSyn).map tokBytes) (fun _ => []) =
    ofStr "p1&^(q|_r)->{x,y,true};BARx" from by decide] at this
-- redundant parentheses around every sub-term at depth 3, blanks / tab CR LF between tokens
def exDeco : Deco := fun p => if p.length = 3 then 1 else 0
def exLay2 : Layout := fun i => if i % 4 = 0 then [32] else if i % 4 = 2 then [9, 13, 10] else []
theorem exLay2_blank : blankLay exLay2 := by
  intro i; unfold exLay2; split
  · rfl
  · split <;> rfl
example : parseBytes (ofStr " (p1\t\r\n)& (^\t\r\n(q |_r\t\r\n)) ->\t\r\n{x ,y\t\r\n,true };\t\r\nBARx") =
    .ok (.ok exSyn.toSFB []) := by
  have := parseBytes_render exDeco exSyn exLay2 (by decide) exLay2_blank (by decide)
  rwa [show renderBytes ((renderP exDeco exSyn).map tokBytes) exLay2 =
    ofStr " (p1\t\r\n)& (^\t\r\n(q |_r\t\r\n)) ->\t\r\n{x ,y\t\r\n,true };\t\r\nBARx" from by decide] at this

-- what `wfIdent` excludes: the text is not read back as one token
example : wfIdent (ofStr "1a") = false := by decide
example : lexRaw (ofStr "1a") = .ok [ofStr "1", ofStr "a"] := rfl          -- a number, then a name
example : wfIdent (ofStr "a-b") = false := by decide
example : lexRaw (ofStr "a-b") = .ok [ofStr "a", ofStr "-", ofStr "b"] := rfl
example : wfIdent (ofStr "a.b") = false := by decide
example : lexRaw (ofStr "a.b") = .ok [ofStr "a", ofStr ".", ofStr "b"] := rfl
example : lex (ofStr "caf\u00e9") = .error "unmodelled" := rfl
-- two identifiers need a separator (`sep_required`), an identifier and a punctuation character do not
example : lexRaw (ofStr "ab") = .ok [ofStr "ab"] := rfl
example : lexRaw (ofStr "a&b") = .ok [ofStr "a", ofStr "&", ofStr "b"] := rfl
-- `true`, `false`, `not` are ordinary names (bf has no syntax for constants); the Go keywords are
-- identifiers for the scanner but `token.Lookup` refuses them inside braces (and only there).
-- (`wfName "BAR"` is false only because `GS.BfRender` writes the token `|` as the string `BAR`;
-- the lexer itself reads the identifier `BAR` as a name like any other.)
example : wfName "true" = true ∧ wfName "not" = true ∧ wfName "_" = true := by decide
example : wfIdent (ofStr "func") = true ∧ wfName "func" = false := by decide
example : lex (ofStr "BAR | BARx") = .ok ["v21119314", "BAR", "v5406544504"] := rfl
example : lex (ofStr "{a, func}") = .ok ["{", "v353", ",", "k10", "}"] := rfl
example : parse ["{", "v353", ",", "k10", "}"] = .err := by
  simp [parse, parseClause, clauseRest, parseEquiv, parseImplies, parseOr, parseAnd, parseNot, parseBasic,
    braceLoop, isOperator, lookupIsIdent]
example : lex (ofStr "{a, fun}") = .ok ["{", "v353", ",", "v23491950", "}"] := rfl
example : lex (ofStr "func & a") = .ok ["k10", "&", "v353"] := rfl
-- any token text that is no punctuation is a name for bf.Parse: numbers, quoted strings, `.`, …
-- (`12 & "a b" | 0x1p-2 | {1, 'c'}` is accepted by bf.Parse)
example : lex (ofStr "12 & \"a b\" | 0x1p-2 | {1, 'c'}") =
    .ok ["v78130", "&", "v1247170028066", "BAR", "v334767760354610", "BAR", "{", "v305", ",", "v19358503", "}"] := rfl
example : code (ofStr "12") = 78130 ∧ code (ofStr "\"a b\"") = 1247170028066 := by decide
-- lexical errors of text/scanner are printed and ignored: an unterminated string is a name, an
-- unterminated comment ends the text
example : lex (ofStr "a & \"bc") = .ok ["v353", "&", "v19030627"] := rfl
example : lex (ofStr "a /* & ") = .ok ["v353"] := rfl
example : lex (ofStr "a & // b") = .ok ["v353", "&"] := rfl
example : parseBytes (ofStr "") = .ok .err := rfl

#print axioms lexRaw_render
#print axioms lex_render
#print axioms lex_renderP
#print axioms parseBytes_render
#print axioms lex_total
#print axioms sep_required
#print axioms no_sep_needed
#print axioms sepOk_of_spaced
#print axioms code_injective

end GS.BfLex
