import GS.Props.C01_Simplify
/-!
# C02 — `ParseCardConstrs`, `simplifyPB`, `ParsePBConstrs` preserve the set of models

The three statements left open at the end of `GS.Props.C01_Simplify`.

* `parseCardConstrs_equiv : parseCardConstrs_equiv_statement` (proved as stated).
* `simplifyPB_equiv_statement` is **false as written** (`simplifyPB_equiv_statement_false`): `MInv`
  does not exclude the null literal among `pb.units`, and `replicateUnits` then overwrites
  `Model[0]` (the model computes `Var()` of the literal 0 as `0 - 1 = 0` in `Nat`; Go computes
  `-1` and panics with an index out of range). With the hypothesis `∀ u ∈ pb.units, u ≠ 0` it is
  proved: `simplifyPB_equiv_partial : simplifyPB_equiv_partial_statement`, for every fuel.
* `parsePBConstrs_equiv : parsePBConstrs_equiv_statement` (proved as stated; the prologue never
  produces a null unit, so the extra hypothesis above is discharged).
-/
namespace GS.Simplify
open GS GS.Constr

/-! ## generic helpers -/

theorem SemL_units_append {a : Asg} {us ls : List Int} {cs : List Cl} :
    SemL a (us ++ ls) cs ↔ SemL a us cs ∧ ∀ l ∈ ls, litTrue a l = true := by
  unfold SemL
  simp only [List.mem_append]
  constructor
  · rintro ⟨h1, h2⟩; exact ⟨⟨fun u hu => h1 u (Or.inl hu), h2⟩, fun l hl => h1 l (Or.inr hl)⟩
  · rintro ⟨⟨h1, h2⟩, h3⟩
    refine ⟨?_, h2⟩
    rintro u (hu | hu)
    · exact h1 u hu
    · exact h3 u hu

theorem SemL_clauses_append {a : Asg} {us : List Int} {cs : List Cl} {c : Cl} :
    SemL a us (cs ++ [c]) ↔ SemL a us cs ∧ c.lin.holds a = true := by
  unfold SemL
  simp only [List.mem_append, List.mem_singleton]
  constructor
  · rintro ⟨h1, h2⟩; exact ⟨⟨h1, fun d hd => h2 d (Or.inl hd)⟩, h2 c (Or.inr rfl)⟩
  · rintro ⟨⟨h1, h2⟩, h3⟩
    refine ⟨h1, ?_⟩
    rintro d (hd | rfl)
    · exact h2 d hd
    · exact h3

theorem SemL_nil (a : Asg) : SemL a [] [] := by simp [SemL]

theorem bumpAll_spec (n : Nat) (ls : List Int) (hz : 0 ∉ ls) :
    n ≤ bumpAll n ls ∧ ∀ l ∈ ls, l ≠ 0 ∧ l.natAbs ≤ bumpAll n ls := by
  unfold bumpAll
  rw [foldl_bumpVars _ _ hz]
  have := foldl_max_ge ls n
  exact ⟨this.1, fun l hl => ⟨fun e => hz (e ▸ hl), this.2 l hl⟩⟩

theorem LitsOk_mono {k k' : Nat} {c : Cl} (h : LitsOk k c) (hk : k ≤ k') : LitsOk k' c :=
  fun l hl => ⟨(h l hl).1, Nat.le_trans (h l hl).2 hk⟩

/-! ## `ParseCardConstrs` -/

theorem cardSem_iff (a : Asg) (c : CardC) : c.sem a = true ↔ c.atLeast ≤ cnt a c.lits := by
  simp [CardC.sem, cnt]

theorem parseCardLines_spec : ∀ (cs : List CardC) (pb0 pb : Pb) (early : Bool),
    parseCardLines cs pb0 = some (pb, early) →
    pb0.nbVars ≤ pb.nbVars ∧ pb.model = pb0.model ∧
    (early = true → pb.status = .unsat ∧ ∃ c ∈ cs, ∀ a, ¬ c.sem a = true) ∧
    (early = false → pb.status = pb0.status ∧
      (∀ a, SemL a pb.units pb.clauses ↔ (SemL a pb0.units pb0.clauses ∧ ∀ c ∈ cs, c.sem a = true)) ∧
      (∀ u ∈ pb.units, u ∈ pb0.units ∨ (u ≠ 0 ∧ u.natAbs ≤ pb.nbVars)) ∧
      (∀ c ∈ pb.clauses, c ∈ pb0.clauses ∨ ClOk pb.nbVars c)) := by
  intro cs
  induction cs with
  | nil =>
    intro pb0 pb early h
    simp only [parseCardLines, Option.some.injEq, Prod.mk.injEq] at h
    obtain ⟨rfl, rfl⟩ := h
    simp
    exact ⟨fun u hu => Or.inl hu, fun c hc => Or.inl hc⟩
  | cons c rest ih =>
    intro pb0 pb early h
    simp only [parseCardLines] at h
    split at h
    · -- dropped
      rename_i hf
      have hle : c.atLeast ≤ 0 := by
        unfold frontCard at hf
        split at hf
        · assumption
        · split at hf
          · cases hf
          · split at hf <;> cases hf
      have hsem : ∀ a, c.sem a = true := by
        intro a; rw [cardSem_iff]; have := cnt_bounds a c.lits; omega
      obtain ⟨i1, i2, i3, i4⟩ := ih _ _ _ h
      refine ⟨i1, i2, ?_, ?_⟩
      · intro he
        obtain ⟨j1, d, hd, j2⟩ := i3 he
        exact ⟨j1, d, List.mem_cons_of_mem _ hd, j2⟩
      · intro he
        obtain ⟨j1, j2, j3, j4⟩ := i4 he
        refine ⟨j1, ?_, j3, j4⟩
        intro a
        rw [j2 a]
        simp only [List.forall_mem_cons, hsem a, true_and]
    · -- unsat
      rename_i hf
      have hlt : (c.lits.length : Int) < c.atLeast := by
        unfold frontCard at hf
        split at hf
        · cases hf
        · split at hf
          · assumption
          · split at hf <;> cases hf
      simp only [Option.some.injEq, Prod.mk.injEq] at h
      obtain ⟨rfl, rfl⟩ := h
      refine ⟨Nat.le_refl _, rfl, ?_, by simp⟩
      intro _
      refine ⟨rfl, c, by simp, ?_⟩
      intro a
      rw [cardSem_iff]; have := cnt_bounds a c.lits; omega
    · -- units
      rename_i ls hf
      have hls : ls = c.lits ∧ (c.lits.length : Int) = c.atLeast := by
        unfold frontCard at hf
        split at hf
        · cases hf
        · split at hf
          · cases hf
          · split at hf
            · simp only [Front.units.injEq] at hf; exact ⟨hf.symm, by assumption⟩
            · cases hf
      obtain ⟨rfl, hlen⟩ := hls
      split at h
      · cases h
      · rename_i hz
        obtain ⟨i1, i2, i3, i4⟩ := ih _ _ _ h
        simp only at i1 i2 i3 i4
        obtain ⟨b1, b2⟩ := bumpAll_spec pb0.nbVars c.lits hz
        have hsem : ∀ a, c.sem a = true ↔ ∀ l ∈ c.lits, litTrue a l = true := by
          intro a; rw [cardSem_iff, ← cnt_full a c.lits, hlen]
        refine ⟨by omega, i2, ?_, ?_⟩
        · intro he
          obtain ⟨j1, d, hd, j2⟩ := i3 he
          exact ⟨j1, d, List.mem_cons_of_mem _ hd, j2⟩
        · intro he
          obtain ⟨j1, j2, j3, j4⟩ := i4 he
          refine ⟨j1, ?_, ?_, j4⟩
          · intro a
            rw [j2 a, SemL_units_append]
            simp only [List.forall_mem_cons, hsem a]
            constructor
            · rintro ⟨⟨h1, h2⟩, h3⟩; exact ⟨h1, h2, h3⟩
            · rintro ⟨h1, h2, h3⟩; exact ⟨⟨h1, h2⟩, h3⟩
          · intro u hu
            rcases j3 u hu with h1 | h1
            · rcases List.mem_append.mp h1 with h1 | h1
              · exact Or.inl h1
              · exact Or.inr ⟨(b2 u h1).1, by have := (b2 u h1).2; omega⟩
            · exact Or.inr h1
    · -- kept
      rename_i hf
      have hk : 1 ≤ c.atLeast := by
        unfold frontCard at hf
        split at hf
        · cases hf
        · omega
      split at h
      · cases h
      · rename_i hz
        obtain ⟨i1, i2, i3, i4⟩ := ih _ _ _ h
        simp only at i1 i2 i3 i4
        obtain ⟨b1, b2⟩ := bumpAll_spec pb0.nbVars c.lits hz
        refine ⟨by omega, i2, ?_, ?_⟩
        · intro he
          obtain ⟨j1, d, hd, j2⟩ := i3 he
          exact ⟨j1, d, List.mem_cons_of_mem _ hd, j2⟩
        · intro he
          obtain ⟨j1, j2, j3, j4⟩ := i4 he
          refine ⟨j1, ?_, j3, ?_⟩
          · intro a
            rw [j2 a, SemL_clauses_append]
            have : (Cl.lin ⟨c.lits, none, c.atLeast⟩).holds a = true ↔ c.sem a = true := by
              rw [holds_card rfl, cardSem_iff]
            simp only [List.forall_mem_cons, this]
            constructor
            · rintro ⟨⟨h1, h2⟩, h3⟩; exact ⟨h1, h2, h3⟩
            · rintro ⟨h1, h2, h3⟩; exact ⟨⟨h1, h2⟩, h3⟩
          · intro d hd
            rcases j4 d hd with h1 | h1
            · simp only [List.mem_append, List.mem_singleton] at h1
              rcases h1 with h1 | rfl
              · exact Or.inl h1
              · right
                refine ⟨?_, rfl, hk⟩
                intro x hx
                exact ⟨(b2 x hx).1, by have := (b2 x hx).2; omega⟩
            · exact Or.inr h1

/-- What the common epilogue `finish` guarantees, given a specification of the simplifier. -/
theorem finish_spec (simp : Pb → Pb) (pb : Pb)
    (hu : ∀ u ∈ pb.units, u ≠ 0 ∧ u.natAbs ≤ pb.nbVars)
    (hsimp : ∀ m, m.length = pb.nbVars → MInv m pb.units →
      ((simp { pb with model := m }).status = .unsat → ∀ a, ¬ SemL a pb.units pb.clauses) ∧
      ((simp { pb with model := m }).status ≠ .unsat →
        ∀ a, SemL a pb.units pb.clauses ↔
          SemL a (simp { pb with model := m }).units (simp { pb with model := m }).clauses)) :
    ((finish simp pb).status = .unsat → ∀ a, ¬ SemL a pb.units pb.clauses) ∧
    ((finish simp pb).status ≠ .unsat →
      ∀ a, SemL a pb.units pb.clauses ↔ SemL a (finish simp pb).units (finish simp pb).clauses) := by
  have huwf : ∀ u ∈ pb.units, u ≠ 0 ∧ varOf u < (List.replicate pb.nbVars (0 : Int)).length := by
    intro u h
    obtain ⟨h1, h2⟩ := hu u h
    refine ⟨h1, ?_⟩
    simp only [List.length_replicate]; unfold varOf; omega
  obtain ⟨b1, b2, b3⟩ := bindUnits_spec pb.units (List.replicate pb.nbVars 0) [] (MInv.init _) huwf
  simp only [List.nil_append, List.length_replicate] at b1 b2 b3
  unfold finish
  simp only
  split
  · rename_i hb
    refine ⟨?_, by simp⟩
    intro _ a ha
    obtain ⟨u, hu0, hu1, hu2⟩ := b3 hb
    exact conflict_unsat hu0 hu1 hu2 a ha.1
  · rename_i hb
    have hb' : (bindUnits pb.units (List.replicate pb.nbVars 0)).2 = false := by simpa using hb
    exact hsimp _ b1 (b2 hb')

/-- **C02, cardinality constraints end to end.** `ParseCardConstrs` (prologue + `simplifyCard`):
    the models of the constraints as written are the models of the units and remaining
    constraints of the result; `Unsat` only when there is no model.
    `parseCardConstrs cs = none` is the Go `panic("literal 0 found in clause")`. -/
theorem parseCardConstrs_equiv : parseCardConstrs_equiv_statement := by
  intro cs r h
  unfold parseCardConstrs at h
  split at h
  · cases h
  · rename_i pb hp
    simp only [Option.some.injEq] at h
    subst h
    obtain ⟨-, -, i3, -⟩ := parseCardLines_spec _ _ _ _ hp
    obtain ⟨s1, d, hd, s2⟩ := i3 rfl
    refine ⟨?_, fun hne => absurd s1 hne⟩
    rintro _ ⟨a, ha⟩
    exact s2 a (ha d hd)
  · rename_i pb hp
    simp only [Option.some.injEq] at h
    obtain ⟨-, -, -, i4⟩ := parseCardLines_spec _ _ _ _ hp
    obtain ⟨j1, j2, j3, j4⟩ := i4 rfl
    simp only at j1 j2 j3 j4
    have hsem : ∀ a, SemL a pb.units pb.clauses ↔ ∀ c ∈ cs, c.sem a = true := by
      intro a; rw [j2 a]; exact ⟨fun h => h.2, fun h => ⟨SemL_nil a, h⟩⟩
    have F := finish_spec simplifyCard pb
      (fun u hu => by rcases j3 u hu with h1 | h1; (· simp at h1); exact h1)
      (by
        intro m hm hinv
        have S := simplifyCard_equiv { pb with model := m } j1 hinv (by
          intro c hc
          rcases j4 c hc with h1 | h1
          · simp at h1
          · simp only [hm]; exact h1)
        exact ⟨S.1, fun hne => (S.2 hne).2⟩)
    rw [h] at F
    refine ⟨?_, ?_⟩
    · rintro hu ⟨a, ha⟩
      exact F.1 hu a ((hsem a).mpr ha)
    · intro hne a
      rw [← hsem a]
      exact F.2 hne a

/-- `parseCardConstrs_equiv` on a concrete input: a dropped constraint, a unit constraint, a
    constraint with a repeated literal, and one that `simplifyCard` turns into units. -/
example : ∃ r, parseCardConstrs [⟨[5, 6], 0⟩, ⟨[-1], 1⟩, ⟨[1, 2, 3], 2⟩, ⟨[4, 4, -2, 5, 6], 2⟩] = some r ∧
    r.status = .indet ∧ r.units = [-1, 3, 2] ∧ r.clauses = [⟨[4, 4, 6, 5], none, 2⟩] := by
  refine ⟨_, rfl, ?_⟩
  decide

#print axioms parseCardConstrs_equiv

/-! ## `simplifyPB` -/

theorem lhs_cons (a : Asg) (t : Int × Int) (ts : List (Int × Int)) :
    lhs a (t :: ts) = termVal a t + lhs a ts := rfl

theorem lhs_append (a : Asg) : ∀ (xs ys : List (Int × Int)), lhs a (xs ++ ys) = lhs a xs + lhs a ys := by
  intro xs
  induction xs with
  | nil => intro ys; simp [lhs]
  | cons x xs ih => intro ys; simp only [List.cons_append, lhs_cons, ih]; omega

theorem lhs_rot (a : Asg) (r : List (Int × Int)) : lhs a (rot r) = lhs a r := by
  rcases List.eq_nil_or_concat r with h | ⟨init, x, h⟩
  · subst h; simp [rot]
  · subst h
    simp [rot, lhs_cons, lhs_append, lhs]; omega

theorem wsum_nil : wsum [] = 0 := rfl

theorem wsum_cons (t : Int × Int) (ts : List (Int × Int)) : wsum (t :: ts) = t.1 + wsum ts := by
  simp [wsum]

theorem wsum_append : ∀ (xs ys : List (Int × Int)), wsum (xs ++ ys) = wsum xs + wsum ys := by
  intro xs ys; simp [wsum]

theorem wsum_rot (r : List (Int × Int)) : wsum (rot r) = wsum r := by
  rcases List.eq_nil_or_concat r with h | ⟨init, x, h⟩
  · subst h; simp [rot]
  · subst h
    simp [rot, wsum_cons, wsum_append, wsum_nil]; omega

theorem lhs_bounds (a : Asg) : ∀ (ts : List (Int × Int)), (∀ t ∈ ts, 0 < t.1) →
    0 ≤ lhs a ts ∧ lhs a ts ≤ wsum ts := by
  intro ts
  induction ts with
  | nil => intro _; simp [lhs, wsum_nil]
  | cons t ts ih =>
    intro h
    have h1 := h t (by simp)
    have h2 := ih (fun t ht => h t (List.mem_cons_of_mem _ ht))
    rw [lhs_cons, wsum_cons]
    unfold termVal
    split <;> omega

/-- terms with a positive weight and a literal that is non-null with its variable below `k` -/
def TsOk (k : Nat) (ts : List (Int × Int)) : Prop := ∀ t ∈ ts, 0 < t.1 ∧ t.2 ≠ 0 ∧ t.2.natAbs ≤ k

theorem TsOk.tail {k : Nat} {t : Int × Int} {ts : List (Int × Int)} (h : TsOk k (t :: ts)) : TsOk k ts :=
  fun x hx => h x (List.mem_cons_of_mem _ hx)

theorem TsOk.rot {k : Nat} {ts : List (Int × Int)} (h : TsOk k ts) : TsOk k (rot ts) :=
  fun x hx => h x (mem_rot.mp hx)

theorem TsOk.pos {k : Nat} {ts : List (Int × Int)} (h : TsOk k ts) : ∀ t ∈ ts, 0 < t.1 :=
  fun t ht => (h t ht).1

/-- relation between the local `card` of `simplifyPB` and the stored `c.Cardinality()`:
    `updateCardinality` clamps the stored value at 1 -/
def StInv (card st : Int) : Prop := (1 ≤ card → st = card) ∧ (card < 1 → st = 1)

theorem StInv.step {card st w : Int} (h : StInv card st) (hw : 0 < w) :
    StInv (card - w) (updCard st (-w)) := by
  obtain ⟨h1, h2⟩ := h
  unfold updCard
  constructor
  · intro h; split <;> omega
  · intro h; split <;> omega

/-- What the `for j < c.Len()` loop of `simplifyPB` guarantees. `P` is the weight sum of the
    terms already passed (kept before position `j`), `X` their value under an assignment. -/
structure ScanSpec (pb : Pb) (card P : Int) (s : List (Int × Int)) (q : ScanP) : Prop where
  st : q.pb.status = pb.status
  inv : MInv q.pb.model q.pb.units
  mlen : q.pb.model.length = pb.model.length
  sub : ∀ t ∈ q.terms, t ∈ s
  ws : q.wSum = P + wsum q.terms
  stored : StInv q.card q.stored
  sem : ∀ a X, 0 ≤ X → X ≤ P →
    (((∀ u ∈ pb.units, litTrue a u = true) ∧ card ≤ X + lhs a s) ↔
     ((∀ u ∈ q.pb.units, litTrue a u = true) ∧ q.card ≤ X + lhs a q.terms))

theorem ScanSpec.refl (pb : Pb) (card st ws P : Int) (s : List (Int × Int))
    (hinv : MInv pb.model pb.units) (hws : ws = P + wsum s) (hsi : StInv card st) :
    ScanSpec pb card P s ⟨pb, s, card, st, ws, false⟩ :=
  ⟨rfl, hinv, rfl, fun _ h => h, hws, hsi, fun _ _ _ _ => Iff.rfl⟩

theorem ScanSpec.modified {pb : Pb} {card P : Int} {s : List (Int × Int)} {q : ScanP}
    (h : ScanSpec pb card P s q) : ScanSpec pb card P s { q with modified := true } :=
  ⟨h.st, h.inv, h.mlen, h.sub, h.ws, h.stored, h.sem⟩

theorem forall_units_append {a : Asg} {us : List Int} {l : Int} :
    (∀ u ∈ us ++ [l], litTrue a u = true) ↔ (∀ u ∈ us, litTrue a u = true) ∧ litTrue a l = true := by
  simp only [List.mem_append, List.mem_singleton]
  constructor
  · intro h; exact ⟨fun u hu => h u (Or.inl hu), h l (Or.inr rfl)⟩
  · rintro ⟨h1, h2⟩ u (hu | rfl)
    · exact h1 u hu
    · exact h2

theorem scanPB_spec : ∀ (n : Nat) (pb : Pb) (card st ws : Int) (s : List (Int × Int)) (P : Int),
    pb.status ≠ .unsat → MInv pb.model pb.units → TsOk pb.model.length s → 0 ≤ P →
    ws = P + wsum s → StInv card st → ScanSpec pb card P s (scanPB n pb card st ws s) := by
  intro n
  induction n with
  | zero => intro pb card st ws s P _ hinv _ _ hws hsi; exact ScanSpec.refl pb card st ws P s hinv hws hsi
  | succ n ih =>
    intro pb card st ws s P hst hinv hok hP hws hsi
    match s, hok, hws with
    | [], _, hws => exact ScanSpec.refl pb card st ws P [] hinv hws hsi
    | (w, lit) :: r, hok, hws =>
      obtain ⟨hw, hlit, hlk⟩ := hok (w, lit) (by simp)
      simp only at hw hlit hlk
      have hokr : TsOk pb.model.length r := hok.tail
      have hlv : varOf lit < pb.model.length := by unfold varOf; omega
      rw [wsum_cons] at hws
      simp only at hws
      simp only [scanPB]
      split
      · rename_i h0
        split
        · -- the literal must be true
          rename_i hlt
          rw [addUnit_unbound pb lit h0]
          simp only [hst, if_false]
          have I := ih { pb with model := pb.model.set (varOf lit) (if lit > 0 then 1 else -1),
                                 units := pb.units ++ [lit] }
            (card - w) (updCard st (-w)) (ws - w) (rot r) P hst (hinv.add hlit hlv h0)
            (by simpa using hokr.rot) hP (by rw [wsum_rot]; omega) (hsi.step hw)
          refine ScanSpec.modified ⟨I.st, I.inv, by simpa using I.mlen,
            fun t ht => List.mem_cons_of_mem _ (mem_rot.mp (I.sub t ht)), I.ws, I.stored, ?_⟩
          intro a X hX0 hXP
          rw [← I.sem a X hX0 hXP]
          simp only
          rw [forall_units_append, lhs_rot, lhs_cons]
          have hb := lhs_bounds a r hokr.pos
          unfold termVal
          simp only
          constructor
          · rintro ⟨h1, h2⟩
            by_cases ht : litTrue a lit = true
            · rw [if_pos ht] at h2
              exact ⟨⟨h1, ht⟩, by omega⟩
            · rw [if_neg ht] at h2
              omega
          · rintro ⟨⟨h1, ht⟩, h2⟩
            rw [if_pos ht]
            exact ⟨h1, by omega⟩
        · -- j++
          rename_i hlt
          have I := ih pb card st ws r (P + w) hst hinv hokr (by omega) (by omega) hsi
          refine ⟨I.st, I.inv, I.mlen, ?_, ?_, I.stored, ?_⟩
          · intro t ht
            rcases List.mem_cons.mp ht with rfl | ht
            · simp
            · exact List.mem_cons_of_mem _ (I.sub t ht)
          · show (scanPB n pb card st ws r).wSum = P + wsum ((w, lit) :: (scanPB n pb card st ws r).terms)
            rw [wsum_cons, I.ws]; simp only; omega
          · intro a X hX0 hXP
            have hv : 0 ≤ termVal a (w, lit) ∧ termVal a (w, lit) ≤ w := by
              unfold termVal; simp only; split <;> omega
            have := I.sem a (X + termVal a (w, lit)) (by omega) (by omega)
            show (_ ∧ card ≤ X + lhs a ((w, lit) :: r)) ↔
              (_ ∧ (scanPB n pb card st ws r).card ≤ X + lhs a ((w, lit) :: (scanPB n pb card st ws r).terms))
            rw [lhs_cons, lhs_cons]
            rw [← Int.add_assoc, ← Int.add_assoc]
            exact this
      · -- bound literal
        rename_i h0
        by_cases hv : (mget pb.model (varOf lit) = 1 ↔ lit > 0)
        · simp only [if_pos hv]
          have I := ih pb (card - w) (updCard st (-w)) (ws - w) (rot r) P hst hinv hokr.rot hP
            (by rw [wsum_rot]; omega) (hsi.step hw)
          refine ScanSpec.modified ⟨I.st, I.inv, I.mlen,
            fun t ht => List.mem_cons_of_mem _ (mem_rot.mp (I.sub t ht)), I.ws, I.stored, ?_⟩
          intro a X hX0 hXP
          rw [← I.sem a X hX0 hXP, lhs_rot, lhs_cons]
          constructor
          · rintro ⟨h1, h2⟩
            have ht := agree_true (hinv.agree h1) hlit h0 hv
            unfold termVal at h2
            simp only [ht, if_true] at h2
            exact ⟨h1, by omega⟩
          · rintro ⟨h1, h2⟩
            have ht := agree_true (hinv.agree h1) hlit h0 hv
            unfold termVal
            simp only [ht, if_true]
            exact ⟨h1, by omega⟩
        · simp only [if_neg hv]
          have I := ih pb card st (ws - w) (rot r) P hst hinv hokr.rot hP
            (by rw [wsum_rot]; omega) hsi
          refine ScanSpec.modified ⟨I.st, I.inv, I.mlen,
            fun t ht => List.mem_cons_of_mem _ (mem_rot.mp (I.sub t ht)), I.ws, I.stored, ?_⟩
          intro a X hX0 hXP
          rw [← I.sem a X hX0 hXP, lhs_rot, lhs_cons]
          constructor
          · rintro ⟨h1, h2⟩
            have ht := agree_false (hinv.agree h1) hlit h0 hv
            unfold termVal at h2
            simp only [ht] at h2
            exact ⟨h1, by simpa using h2⟩
          · rintro ⟨h1, h2⟩
            have ht := agree_false (hinv.agree h1) hlit h0 hv
            unfold termVal
            simp only [ht]
            exact ⟨h1, by simpa using h2⟩

/-! ### one sweep of `simplifyPB`, the loop, `simplifyPB` -/

theorem zip_map_fst_snd : ∀ (ts : List (Int × Int)), (ts.map (·.1)).zip (ts.map (·.2)) = ts := by
  intro ts
  induction ts with
  | nil => rfl
  | cons t ts ih => simp only [List.map_cons, List.zip_cons_cons, ih]

theorem withTerms_terms (c : Cl) (ts : List (Int × Int)) (card : Int) (ws : List Int)
    (h : c.weights = some ws) : (c.withTerms ts card).terms = ts := by
  simp [Cl.withTerms, Cl.terms, h, zip_map_fst_snd]

theorem holds_pb (a : Asg) (c : Cl) : c.lin.holds a = true ↔ c.card ≤ lhs a c.terms := by
  unfold Lin.holds Cl.lin
  exact decide_eq_true_iff

theorem PbClOk.tsOk {k : Nat} {c : Cl} (h : PbClOk k c) : TsOk k c.terms := by
  obtain ⟨hl, -, ws, hw, -, hp⟩ := h
  intro t ht
  simp only [Cl.terms, hw] at ht
  have := List.of_mem_zip ht
  exact ⟨hp _ this.1, (hl _ this.2).1, (hl _ this.2).2⟩

theorem PbClOk.withTerms {k : Nat} {c : Cl} (h : PbClOk k c) {ts : List (Int × Int)} {card : Int}
    (hts : TsOk k ts) (hc : 1 ≤ card) : PbClOk k (c.withTerms ts card) := by
  obtain ⟨-, -, ws, hw, -, -⟩ := h
  refine ⟨?_, hc, ts.map (·.1), by simp [Cl.withTerms, hw], by simp [Cl.withTerms], ?_⟩
  · intro l hl
    simp only [Cl.withTerms, List.mem_map] at hl
    obtain ⟨t, ht, rfl⟩ := hl
    exact ⟨(hts t ht).2.1, (hts t ht).2.2⟩
  · intro w hw'
    simp only [List.mem_map] at hw'
    obtain ⟨t, ht, rfl⟩ := hw'
    exact (hts t ht).1

structure PassSpecP (pb : Pb) (s : List Cl) (r : PassR) : Prop where
  unsat : r.pb.status = .unsat → ∀ a, ¬ SemL a pb.units s
  ok : r.pb.status ≠ .unsat → r.pb.status = pb.status ∧ MInv r.pb.model r.pb.units ∧
        r.pb.model.length = pb.model.length ∧ (∀ c ∈ r.kept, PbClOk pb.model.length c) ∧
        ∀ a, SemL a pb.units s ↔ SemL a r.pb.units r.kept

theorem passSpecP_refl (pb : Pb) (s : List Cl) (hst : pb.status ≠ .unsat)
    (hinv : MInv pb.model pb.units) (hwf : ∀ c ∈ s, PbClOk pb.model.length c) :
    PassSpecP pb s ⟨pb, s, false⟩ :=
  ⟨fun h => absurd h hst, fun _ => ⟨rfl, hinv, rfl, hwf, fun _ => Iff.rfl⟩⟩

theorem passPB_spec : ∀ (n : Nat) (pb : Pb) (s : List Cl), pb.status ≠ .unsat →
    MInv pb.model pb.units → (∀ c ∈ s, PbClOk pb.model.length c) → PassSpecP pb s (passPB n pb s) := by
  intro n
  induction n with
  | zero => intro pb s hst hinv hwf; simp only [passPB]; exact passSpecP_refl pb s hst hinv hwf
  | succ n ih =>
    intro pb s hst hinv hwf
    cases s with
    | nil => simp only [passPB]; exact passSpecP_refl pb [] hst hinv hwf
    | cons c r =>
      have hcok := hwf c (by simp)
      have hwfr : ∀ c ∈ r, PbClOk pb.model.length c := fun d hd => hwf d (List.mem_cons_of_mem _ hd)
      have hwfrot : ∀ c ∈ rot r, PbClOk pb.model.length c := fun d hd => hwfr d (mem_rot.mp hd)
      have hts := hcok.tsOk
      have S := scanPB_spec c.terms.length pb c.card c.card (wsum c.terms) c.terms 0 hst hinv hts
        (Int.le_refl 0) (by omega) ⟨fun _ => rfl, fun h => by have := hcok.2.1; omega⟩
      have hqst : (scanPB c.terms.length pb c.card c.card (wsum c.terms) c.terms).pb.status ≠ .unsat := by
        rw [S.st]; exact hst
      have hqts : TsOk pb.model.length (scanPB c.terms.length pb c.card c.card (wsum c.terms) c.terms).terms :=
        fun t ht => hts t (S.sub t ht)
      have hqb := fun a => lhs_bounds a _ hqts.pos
      -- the scan of `c` alone
      have hscan : ∀ a, ((∀ u ∈ pb.units, litTrue a u = true) ∧ c.lin.holds a = true) ↔
          ((∀ u ∈ (scanPB c.terms.length pb c.card c.card (wsum c.terms) c.terms).pb.units, litTrue a u = true) ∧
            (scanPB c.terms.length pb c.card c.card (wsum c.terms) c.terms).card ≤
              lhs a (scanPB c.terms.length pb c.card c.card (wsum c.terms) c.terms).terms) := by
        intro a
        have := S.sem a 0 (Int.le_refl 0) (Int.le_refl 0)
        rw [holds_pb]
        simpa using this
      simp only [passPB]
      generalize hq : scanPB c.terms.length pb c.card c.card (wsum c.terms) c.terms = q at *
      split
      · rename_i hu; exact absurd hu hqst
      · split
        · -- clause is Sat
          rename_i hle
          have I := ih q.pb (rot r) hqst S.inv (by rw [S.mlen]; exact hwfrot)
          have hsem : ∀ a, SemL a pb.units (c :: r) ↔ SemL a q.pb.units (rot r) := by
            intro a
            rw [SemL_cons, SemL_rot]
            unfold SemL
            constructor
            · rintro ⟨h1, h2, h3⟩
              exact ⟨((hscan a).mp ⟨h2, h1⟩).1, h3⟩
            · rintro ⟨h2, h3⟩
              have := (hscan a).mpr ⟨h2, by have := (hqb a).1; omega⟩
              exact ⟨this.2, this.1, h3⟩
          refine ⟨fun h a hs' => I.unsat h a ((hsem a).mp hs'), fun h => ?_⟩
          obtain ⟨i1, i2, i3, i4, i5⟩ := I.ok h
          rw [S.mlen] at i4
          exact ⟨i1.trans S.st, i2, i3.trans S.mlen, i4, fun a => (hsem a).trans (i5 a)⟩
        · rename_i hle
          split
          · -- wSum < card: Unsat
            rename_i hlt
            refine ⟨fun _ a hs' => ?_, fun h => absurd rfl h⟩
            rw [SemL_cons] at hs'
            have := (hscan a).mp ⟨hs'.2.1, hs'.1⟩
            have h1 := (hqb a).2
            have h2 := S.ws
            omega
          · -- kept
            rename_i hlt
            have I := ih q.pb r hqst S.inv (by rw [S.mlen]; exact hwfr)
            obtain ⟨-, -, ws, hw, -, -⟩ := hcok
            have hstored : q.stored = q.card := S.stored.1 (by omega)
            have hc' : ∀ a, (c.withTerms q.terms q.stored).lin.holds a = true ↔ q.card ≤ lhs a q.terms := by
              intro a
              rw [holds_pb, withTerms_terms c _ _ ws hw, ← hstored]
              simp [Cl.withTerms]
            have hsem : ∀ a, SemL a pb.units (c :: r) ↔
                ((c.withTerms q.terms q.stored).lin.holds a = true ∧ SemL a q.pb.units r) := by
              intro a
              rw [SemL_cons, hc' a]
              unfold SemL
              constructor
              · rintro ⟨h1, h2, h3⟩
                have := (hscan a).mp ⟨h2, h1⟩
                exact ⟨this.2, this.1, h3⟩
              · rintro ⟨h1, h2, h3⟩
                have := (hscan a).mpr ⟨h2, h1⟩
                exact ⟨this.2, this.1, h3⟩
            refine ⟨fun h a hs' => I.unsat h a ((hsem a).mp hs').2, fun h => ?_⟩
            obtain ⟨i1, i2, i3, i4, i5⟩ := I.ok h
            rw [S.mlen] at i4
            refine ⟨i1.trans S.st, i2, i3.trans S.mlen, ?_, ?_⟩
            · intro d hd
              rcases List.mem_cons.mp hd with rfl | hd
              · exact (hwf c (by simp)).withTerms hqts (by omega)
              · exact i4 d hd
            · intro a
              rw [hsem a, SemL_cons, i5 a]

theorem loopPB_spec : ∀ (n : Nat) (pb : Pb), pb.status = .indet → MInv pb.model pb.units →
    (∀ c ∈ pb.clauses, PbClOk pb.model.length c) →
    ((loopPB n pb).status = .unsat → ∀ a, ¬ SemL a pb.units pb.clauses) ∧
    ((loopPB n pb).status ≠ .unsat → MInv (loopPB n pb).model (loopPB n pb).units ∧
      (loopPB n pb).model.length = pb.model.length ∧
      (∀ c ∈ (loopPB n pb).clauses, PbClOk pb.model.length c) ∧
      ∀ a, SemL a pb.units pb.clauses ↔ SemL a (loopPB n pb).units (loopPB n pb).clauses) := by
  intro n
  induction n with
  | zero =>
    intro pb hst hinv hwf
    refine ⟨fun h => ?_, fun _ => ⟨hinv, rfl, hwf, fun _ => Iff.rfl⟩⟩
    have h' : pb.status = .unsat := h
    rw [hst] at h'; cases h'
  | succ n ih =>
    intro pb hst hinv hwf
    have hst' : pb.status ≠ .unsat := by rw [hst]; decide
    have P := passPB_spec pb.clauses.length pb pb.clauses hst' hinv hwf
    simp only [loopPB]
    split
    · rename_i hu
      exact ⟨fun _ => P.unsat hu, fun h => absurd hu h⟩
    · rename_i hu
      obtain ⟨p1, p2, p3, p4, p5⟩ := P.ok hu
      split
      · have I := ih { (passPB pb.clauses.length pb pb.clauses).pb with
                        clauses := (passPB pb.clauses.length pb pb.clauses).kept }
          (by simp only; rw [p1, hst]) p2 (by simp only; rw [p3]; exact p4)
        refine ⟨fun h a hs => I.1 h a ((p5 a).mp hs), fun h => ?_⟩
        obtain ⟨i1, i2, i3, i4⟩ := I.2 h
        simp only at i2 i3
        rw [p3] at i2 i3
        exact ⟨i1, i2, i3, fun a => (p5 a).trans (i4 a)⟩
      · obtain ⟨u1, u2, u3, u4⟩ := updateStatus_fields
          { (passPB pb.clauses.length pb pb.clauses).pb with
              clauses := (passPB pb.clauses.length pb pb.clauses).kept }
        obtain ⟨s1, s2⟩ := updateStatus_status
          { (passPB pb.clauses.length pb pb.clauses).pb with
              clauses := (passPB pb.clauses.length pb pb.clauses).kept } (by simp only; rw [p1, hst])
        refine ⟨fun h => absurd h s1, fun _ => ?_⟩
        rw [u2, u3, u4]
        exact ⟨p2, p3, p4, p5⟩

/-- Under `MInv` and with non-null units, `replicateUnits` does not change anything:
    `Model` already holds the value of every unit. -/
theorem replicateUnits_id (pb : Pb) (hinv : MInv pb.model pb.units) (hnz : ∀ u ∈ pb.units, u ≠ 0) :
    replicateUnits pb = pb := by
  unfold replicateUnits
  have key : ∀ (us : List Int), (∀ u ∈ us, u ∈ pb.units) →
      us.foldl (fun m u => m.set (varOf u) (if u > 0 then 1 else -1)) pb.model = pb.model := by
    intro us
    induction us with
    | nil => intro _; rfl
    | cons u us ih =>
      intro h
      have hu := h u (by simp)
      have hu0 := hnz u hu
      simp only [List.foldl_cons]
      have e : pb.model.set (varOf u) (if u > 0 then 1 else -1) = pb.model := by
        apply set_self
        have hget : mget pb.model (varOf u) = (if u > 0 then 1 else -1) := by
          by_cases hp : u > 0
          · rw [if_pos hp]
            apply (hinv.pos (varOf u)).mpr
            have : ((varOf u : Int) + 1) = u := by unfold varOf; omega
            rw [this]; exact hu
          · rw [if_neg hp]
            apply (hinv.neg (varOf u)).mpr
            have : (-((varOf u : Int) + 1)) = u := by unfold varOf; omega
            rw [this]; exact hu
        unfold mget at hget
        cases hm : pb.model[varOf u]? with
        | none => rw [hm] at hget; simp at hget; split at hget <;> omega
        | some x => rw [hm] at hget; simp at hget; rw [hget]
      rw [e]
      exact ih (fun x hx => h x (List.mem_cons_of_mem _ hx))
  rw [key pb.units (fun _ h => h)]

/-- `simplifyPB_equiv_statement` with the extra hypothesis that no unit is the null literal. -/
def simplifyPB_equiv_partial_statement : Prop :=
  ∀ (pb : Pb), pb.status = .indet → MInv pb.model pb.units → (∀ u ∈ pb.units, u ≠ 0) →
    (∀ c ∈ pb.clauses, PbClOk pb.model.length c) →
    ((simplifyPB pb).status = .unsat → ∀ a, ¬ SemL a pb.units pb.clauses) ∧
    ((simplifyPB pb).status ≠ .unsat →
      ∀ a, SemL a pb.units pb.clauses ↔ SemL a (simplifyPB pb).units (simplifyPB pb).clauses)

/-- **C02, PB constraints.** `simplifyPB` preserves the set of models (positive weights,
    semantics `GS.Lin.holds`), for every fuel of the `for modified` loop. Extra hypothesis with
    respect to `simplifyPB_equiv_statement`: no unit is the literal 0 (see
    `simplifyPB_equiv_statement_false`). -/
theorem simplifyPB_equiv_partial : simplifyPB_equiv_partial_statement := by
  intro pb hst hinv hnz hwf
  unfold simplifyPB
  simp only
  rw [replicateUnits_id pb hinv hnz]
  have L := loopPB_spec (pbFuel pb.clauses) pb hst hinv hwf
  exact ⟨L.1, fun h => (L.2 h).2.2.2⟩

/-! ### the statement of `C01_Simplify` without the extra hypothesis is false (model artefact) -/

/-- `Units = [1, 0]`, `Model = [1, 0, 0]`, one constraint `2 x1 + 1 x2 + 1 x3 ≥ 2`. The null
    literal among the units does not violate `MInv`; `replicateUnits` maps it to variable
    `|0| - 1 = 0` (natural-number subtraction) and overwrites `Model[0]` with `-1`. In Go the
    literal 0 is `Lit(-2)`, its `Var()` is `-1` and `pb.Model[-1]` panics (index out of range). -/
def cexPB : Pb := ⟨3, [⟨[1, 2, 3], some [2, 1, 1], 2⟩], .indet, [1, 0], [1, 0, 0]⟩

theorem cexPB_minv : MInv cexPB.model cexPB.units := by
  have hm : ∀ v, mget [1, 0, 0] v = if v = 0 then 1 else 0 := by
    intro v
    match v with
    | 0 => rfl
    | 1 => rfl
    | 2 => rfl
    | n + 3 => simp [mget]
  constructor
  · intro v; rw [show cexPB.model = [1, 0, 0] from rfl, hm]; split <;> simp
  · intro v
    rw [show cexPB.model = [1, 0, 0] from rfl, show cexPB.units = [1, 0] from rfl, hm]
    simp only [List.mem_cons, List.not_mem_nil, or_false]
    split
    · rename_i h; subst h; simp
    · constructor
      · intro h; cases h
      · intro h; omega
  · intro v
    rw [show cexPB.model = [1, 0, 0] from rfl, show cexPB.units = [1, 0] from rfl, hm]
    simp only [List.mem_cons, List.not_mem_nil, or_false]
    constructor
    · intro h; split at h <;> cases h
    · intro h; omega

theorem cexPB_ok : ∀ c ∈ cexPB.clauses, PbClOk cexPB.model.length c := by
  intro c hc
  simp only [cexPB, List.mem_singleton] at hc
  subst hc
  refine ⟨?_, by decide, [2, 1, 1], rfl, rfl, by decide⟩
  intro l hl
  simp only [List.mem_cons, List.not_mem_nil, or_false] at hl
  rcases hl with rfl | rfl | rfl <;> decide

/-- **Finding (model artefact).** `simplifyPB_equiv_statement` as written in `C01_Simplify` is
    false: it allows the null literal among the units. -/
theorem simplifyPB_equiv_statement_false : ¬ simplifyPB_equiv_statement := by
  intro h
  obtain ⟨-, h2⟩ := h cexPB rfl cexPB_minv cexPB_ok
  have h3 := (h2 (by decide) (fun n => n == 1)).mp (by
    unfold SemL
    decide)
  have h4 := h3.1 2 (by decide)
  revert h4
  decide

/-! ## `ParsePBConstrs` -/

theorem lhs_perm (a : Asg) {xs ys : List (Int × Int)} (h : xs.Perm ys) : lhs a xs = lhs a ys := by
  induction h with
  | nil => rfl
  | cons x _ ih => simp only [lhs_cons, ih]
  | swap x y l => simp only [lhs_cons]; omega
  | trans _ _ ih1 ih2 => exact ih1.trans ih2

theorem insTerm_perm (x : Int × Int) : ∀ (l : List (Int × Int)), (insTerm x l).Perm (x :: l) := by
  intro l
  induction l with
  | nil => exact List.Perm.refl _
  | cons y ys ih =>
    simp only [insTerm]
    split
    · exact (List.Perm.cons y ih).trans (List.Perm.swap x y ys)
    · exact List.Perm.refl _

theorem sortTerms_perm (ts : List (Int × Int)) : (sortTerms ts).Perm ts := by
  unfold sortTerms
  have key : ∀ (ts acc : List (Int × Int)),
      (ts.foldl (fun acc x => insTerm x acc) acc).Perm (ts.reverse ++ acc) := by
    intro ts
    induction ts with
    | nil => intro acc; exact List.Perm.refl _
    | cons t ts ih =>
      intro acc
      simp only [List.foldl_cons, List.reverse_cons, List.append_assoc, List.singleton_append]
      exact (ih _).trans (List.Perm.append_left _ (insTerm_perm t acc))
  have := key ts []
  simp only [List.append_nil] at this
  exact this.trans (List.reverse_perm ts)

/-- all literals of a term list are true iff the left-hand side reaches the weight sum -/
theorem lhs_full (a : Asg) : ∀ (ts : List (Int × Int)), (∀ t ∈ ts, 0 < t.1) →
    (wsum ts ≤ lhs a ts ↔ ∀ t ∈ ts, litTrue a t.2 = true) := by
  intro ts
  induction ts with
  | nil => intro _; simp [lhs, wsum_nil]
  | cons t ts ih =>
    intro h
    have h1 := h t (by simp)
    have hpos : ∀ t ∈ ts, 0 < t.1 := fun t ht => h t (List.mem_cons_of_mem _ ht)
    have b := lhs_bounds a ts hpos
    rw [lhs_cons, wsum_cons]
    simp only [List.forall_mem_cons]
    unfold termVal
    by_cases ht : litTrue a t.2 = true
    · simp only [ht, if_true, true_and]; rw [← ih hpos]; omega
    · rw [if_neg ht]
      constructor
      · intro hh; omega
      · intro hh; exact absurd hh.1 ht

/-- the clause `NewPBClause` builds from the term list `ts` -/
def mkCl (ts : List (Int × Int)) (card : Int) : Cl := ⟨ts.map (·.2), some (ts.map (·.1)), card⟩

theorem mkCl_terms (ts : List (Int × Int)) (card : Int) : (mkCl ts card).terms = ts := by
  simp [mkCl, Cl.terms, zip_map_fst_snd]

theorem mkCl_ok {k : Nat} {ts : List (Int × Int)} {card : Int} (hts : TsOk k ts) (hc : 1 ≤ card) :
    PbClOk k (mkCl ts card) := by
  refine ⟨?_, hc, ts.map (·.1), rfl, by simp [mkCl], ?_⟩
  · intro l hl
    simp only [mkCl, List.mem_map] at hl
    obtain ⟨t, ht, rfl⟩ := hl
    exact ⟨(hts t ht).2.1, (hts t ht).2.2⟩
  · intro w hw'
    simp only [List.mem_map] at hw'
    obtain ⟨t, ht, rfl⟩ := hw'
    exact (hts t ht).1

theorem map_one_zip : ∀ (ls : List Int), (ls.map (fun _ => (1 : Int))).zip ls = ls.map (fun l => (1, l)) := by
  intro ls
  induction ls with
  | nil => rfl
  | cons l ls ih => simp only [List.map_cons, List.zip_cons_cons, ih]

/-- facts about a constraint accepted by `pbcOk` -/
theorem pbcOk_spec (c : PBC) (h : pbcOk c = true) :
    0 ∉ c.lits ∧ c.terms.map (·.2) = c.lits ∧ c.weightSum = wsum c.terms ∧
    ∃ ts, ts.Perm c.terms ∧ newPBClause c = mkCl ts c.atLeast := by
  unfold pbcOk at h
  simp only [Bool.and_eq_true, Bool.not_eq_true', List.contains_eq_mem, decide_eq_false_iff_not] at h
  obtain ⟨h0, hw⟩ := h
  refine ⟨h0, ?_⟩
  rcases c with ⟨lits, _ | ws, n⟩
  · refine ⟨by simp [PBC.terms, Function.comp_def], ?_, lits.map (fun l => (1, l)), List.Perm.refl _, ?_⟩
    · simp only [PBC.weightSum, PBC.terms, wsum]
      clear h0 hw
      induction lits with
      | nil => rfl
      | cons l ls ih => simp only [List.length_cons, List.map_cons, List.sum_cons]; rw [← ih]; omega
    · simp [newPBClause, mkCl, Function.comp_def]
  · simp only [beq_iff_eq] at hw
    have e1 : (ws.zip lits).map (·.2) = lits := by
      rw [show (fun x : Int × Int => x.2) = Prod.snd from rfl, List.map_snd_zip]; omega
    have e2 : (ws.zip lits).map (·.1) = ws := by
      rw [show (fun x : Int × Int => x.1) = Prod.fst from rfl, List.map_fst_zip]; omega
    refine ⟨e1, ?_, sortTerms (ws.zip lits), sortTerms_perm _, ?_⟩
    · simp only [PBC.weightSum, PBC.terms, wsum, e2]
    · simp [newPBClause, mkCl, PBC.terms]

theorem pbcSem_iff (a : Asg) (c : PBC) : c.sem a = true ↔ c.atLeast ≤ lhs a c.terms := by
  unfold PBC.sem; exact decide_eq_true_iff

theorem mem_addNewUnits : ∀ (ls us : List Int) (x : Int), x ∈ addNewUnits us ls ↔ x ∈ us ∨ x ∈ ls := by
  intro ls
  induction ls with
  | nil => intro us x; simp [addNewUnits]
  | cons l ls ih =>
    intro us x
    have e : addNewUnits us (l :: ls) = addNewUnits (if l ∈ us then us else us ++ [l]) ls := rfl
    rw [e, ih]
    split
    · rename_i hl
      simp only [List.mem_cons]
      constructor
      · rintro (h | h)
        · exact Or.inl h
        · exact Or.inr (Or.inr h)
      · rintro (h | rfl | h)
        · exact Or.inl h
        · exact Or.inl hl
        · exact Or.inr h
    · simp only [List.mem_append, List.mem_cons, List.not_mem_nil, or_false]
      constructor
      · rintro ((h | h) | h)
        · exact Or.inl h
        · exact Or.inr (Or.inl h)
        · exact Or.inr (Or.inr h)
      · rintro (h | h | h)
        · exact Or.inl (Or.inl h)
        · exact Or.inl (Or.inr h)
        · exact Or.inr h

theorem SemL_addNewUnits {a : Asg} {us ls : List Int} {cs : List Cl} :
    SemL a (addNewUnits us ls) cs ↔ SemL a us cs ∧ ∀ l ∈ ls, litTrue a l = true := by
  unfold SemL
  constructor
  · rintro ⟨h1, h2⟩
    exact ⟨⟨fun u hu => h1 u ((mem_addNewUnits _ _ _).mpr (Or.inl hu)), h2⟩,
      fun l hl => h1 l ((mem_addNewUnits _ _ _).mpr (Or.inr hl))⟩
  · rintro ⟨⟨h1, h2⟩, h3⟩
    refine ⟨?_, h2⟩
    intro u hu
    rcases (mem_addNewUnits _ _ _).mp hu with hu | hu
    · exact h1 u hu
    · exact h3 u hu

theorem PbClOk_mono {k k' : Nat} {c : Cl} (h : PbClOk k c) (hk : k ≤ k') : PbClOk k' c :=
  ⟨LitsOk_mono h.1 hk, h.2⟩

theorem frontPB_cases (c : PBC) :
    (frontPB c = .dropped ∧ c.atLeast ≤ 0) ∨
    (frontPB c = .unsat ∧ 1 ≤ c.atLeast ∧ c.weightSum < c.atLeast) ∨
    (frontPB c = .units c.lits ∧ 1 ≤ c.atLeast ∧ c.weightSum = c.atLeast) ∨
    (frontPB c = .kept ∧ 1 ≤ c.atLeast ∧ c.atLeast < c.weightSum) := by
  unfold frontPB
  by_cases h1 : c.atLeast ≤ 0
  · left; simp [h1]
  · by_cases h2 : c.weightSum < c.atLeast
    · right; left; simp [h1, h2]; omega
    · by_cases h3 : c.weightSum = c.atLeast
      · right; right; left; simp [h1, h3]; omega
      · right; right; right; simp [h1, h2, h3]; omega

theorem parsePBLines_spec : ∀ (cs : List PBC) (pb0 pb : Pb) (early : Bool),
    (∀ c ∈ cs, ∀ t ∈ c.terms, 0 < t.1) → parsePBLines cs pb0 = some (pb, early) →
    pb0.nbVars ≤ pb.nbVars ∧ pb.model = pb0.model ∧
    (early = true → pb.status = .unsat ∧ ∃ c ∈ cs, ∀ a, ¬ c.sem a = true) ∧
    (early = false → pb.status = pb0.status ∧
      (∀ a, SemL a pb.units pb.clauses ↔ (SemL a pb0.units pb0.clauses ∧ ∀ c ∈ cs, c.sem a = true)) ∧
      (∀ u ∈ pb.units, u ∈ pb0.units ∨ (u ≠ 0 ∧ u.natAbs ≤ pb.nbVars)) ∧
      (∀ c ∈ pb.clauses, c ∈ pb0.clauses ∨ PbClOk pb.nbVars c)) := by
  intro cs
  induction cs with
  | nil =>
    intro pb0 pb early _ h
    simp only [parsePBLines, Option.some.injEq, Prod.mk.injEq] at h
    obtain ⟨rfl, rfl⟩ := h
    simp
    exact ⟨fun u hu => Or.inl hu, fun c hc => Or.inl hc⟩
  | cons c rest ih =>
    intro pb0 pb early hpos h
    have hposc : ∀ t ∈ c.terms, 0 < t.1 := hpos c (by simp)
    have hposr : ∀ c ∈ rest, ∀ t ∈ c.terms, 0 < t.1 := fun d hd => hpos d (List.mem_cons_of_mem _ hd)
    simp only [parsePBLines] at h
    split at h
    · cases h
    · rename_i hok
      have hok' : pbcOk c = true := by simpa using hok
      obtain ⟨hz, hlits, hwsum, ts, hperm, hnew⟩ := pbcOk_spec c hok'
      obtain ⟨b1, b2⟩ := bumpAll_spec pb0.nbVars c.lits hz
      have hb := fun a => lhs_bounds a c.terms hposc
      rcases frontPB_cases c with ⟨hf, hc⟩ | ⟨hf, hc1, hc2⟩ | ⟨hf, hc1, hc2⟩ | ⟨hf, hc1, hc2⟩
      · -- dropped
        rw [hf] at h
        simp only at h
        have hsem : ∀ a, c.sem a = true := by
          intro a; rw [pbcSem_iff]; have := (hb a).1; omega
        obtain ⟨i1, i2, i3, i4⟩ := ih _ _ _ hposr h
        simp only at i1 i2 i3 i4
        refine ⟨by omega, i2, ?_, ?_⟩
        · intro he
          obtain ⟨j1, d, hd, j2⟩ := i3 he
          exact ⟨j1, d, List.mem_cons_of_mem _ hd, j2⟩
        · intro he
          obtain ⟨j1, j2, j3, j4⟩ := i4 he
          refine ⟨j1, ?_, j3, j4⟩
          intro a
          rw [j2 a]
          simp only [List.forall_mem_cons, hsem a, true_and]
      · -- unsat
        rw [hf] at h
        simp only [Option.some.injEq, Prod.mk.injEq] at h
        obtain ⟨rfl, rfl⟩ := h
        refine ⟨b1, rfl, ?_, by simp⟩
        intro _
        refine ⟨rfl, c, by simp, ?_⟩
        intro a
        rw [pbcSem_iff]; have := (hb a).2; omega
      · -- units
        rw [hf] at h
        simp only at h
        obtain ⟨i1, i2, i3, i4⟩ := ih _ _ _ hposr h
        simp only at i1 i2 i3 i4
        have hsem : ∀ a, c.sem a = true ↔ ∀ l ∈ c.lits, litTrue a l = true := by
          intro a
          rw [pbcSem_iff]
          have := lhs_full a c.terms hposc
          have hb' := (hb a).2
          rw [← hlits]
          simp only [List.mem_map, forall_exists_index, and_imp, forall_apply_eq_imp_iff₂]
          rw [← this]
          omega
        refine ⟨by omega, i2, ?_, ?_⟩
        · intro he
          obtain ⟨j1, d, hd, j2⟩ := i3 he
          exact ⟨j1, d, List.mem_cons_of_mem _ hd, j2⟩
        · intro he
          obtain ⟨j1, j2, j3, j4⟩ := i4 he
          refine ⟨j1, ?_, ?_, j4⟩
          · intro a
            rw [j2 a, SemL_addNewUnits]
            simp only [List.forall_mem_cons, hsem a]
            constructor
            · rintro ⟨⟨h1, h2⟩, h3⟩; exact ⟨h1, h2, h3⟩
            · rintro ⟨h1, h2, h3⟩; exact ⟨⟨h1, h2⟩, h3⟩
          · intro u hu
            rcases j3 u hu with h1 | h1
            · rcases (mem_addNewUnits _ _ _).mp h1 with h1 | h1
              · exact Or.inl h1
              · exact Or.inr ⟨(b2 u h1).1, by have := (b2 u h1).2; omega⟩
            · exact Or.inr h1
      · -- kept
        rw [hf] at h
        simp only at h
        obtain ⟨i1, i2, i3, i4⟩ := ih _ _ _ hposr h
        simp only at i1 i2 i3 i4
        have htsok : TsOk (bumpAll pb0.nbVars c.lits) ts := by
          intro t ht
          have ht' := hperm.mem_iff.mp ht
          have hl : t.2 ∈ c.lits := by rw [← hlits]; exact List.mem_map.mpr ⟨t, ht', rfl⟩
          exact ⟨hposc t ht', (b2 _ hl).1, (b2 _ hl).2⟩
        refine ⟨by omega, i2, ?_, ?_⟩
        · intro he
          obtain ⟨j1, d, hd, j2⟩ := i3 he
          exact ⟨j1, d, List.mem_cons_of_mem _ hd, j2⟩
        · intro he
          obtain ⟨j1, j2, j3, j4⟩ := i4 he
          refine ⟨j1, ?_, j3, ?_⟩
          · intro a
            rw [j2 a, SemL_clauses_append]
            have : (newPBClause c).lin.holds a = true ↔ c.sem a = true := by
              rw [hnew, holds_pb, mkCl_terms, pbcSem_iff, lhs_perm a hperm]; rfl
            simp only [List.forall_mem_cons, this]
            constructor
            · rintro ⟨⟨h1, h2⟩, h3⟩; exact ⟨h1, h2, h3⟩
            · rintro ⟨h1, h2, h3⟩; exact ⟨⟨h1, h2⟩, h3⟩
          · intro d hd
            rcases j4 d hd with h1 | h1
            · simp only [List.mem_append, List.mem_singleton] at h1
              rcases h1 with h1 | rfl
              · exact Or.inl h1
              · right
                rw [hnew]
                exact PbClOk_mono (mkCl_ok htsok hc1) i1
            · exact Or.inr h1

/-- **C02, PB constraints end to end.** `ParsePBConstrs` (prologue + `simplifyPB`), positive
    weights: the models of the constraints as written are the models of the units and
    remaining constraints of the result; `Unsat` only when there is no model.
    `parsePBConstrs cs = none`: a constraint has a null literal or `len(Weights) != len(Lits)`
    (index-out-of-range panics in Go, not modelled). -/
theorem parsePBConstrs_equiv : parsePBConstrs_equiv_statement := by
  intro cs r hpos h
  unfold parsePBConstrs at h
  split at h
  · cases h
  · rename_i pb hp
    simp only [Option.some.injEq] at h
    subst h
    obtain ⟨-, -, i3, -⟩ := parsePBLines_spec _ _ _ _ hpos hp
    obtain ⟨s1, d, hd, s2⟩ := i3 rfl
    refine ⟨?_, fun hne => absurd s1 hne⟩
    rintro _ ⟨a, ha⟩
    exact s2 a (ha d hd)
  · rename_i pb hp
    simp only [Option.some.injEq] at h
    obtain ⟨-, -, -, i4⟩ := parsePBLines_spec _ _ _ _ hpos hp
    obtain ⟨j1, j2, j3, j4⟩ := i4 rfl
    simp only at j1 j2 j3 j4
    have hsem : ∀ a, SemL a pb.units pb.clauses ↔ ∀ c ∈ cs, c.sem a = true := by
      intro a; rw [j2 a]; exact ⟨fun h => h.2, fun h => ⟨SemL_nil a, h⟩⟩
    have hunits : ∀ u ∈ pb.units, u ≠ 0 ∧ u.natAbs ≤ pb.nbVars := by
      intro u hu
      rcases j3 u hu with h1 | h1
      · simp at h1
      · exact h1
    have F := finish_spec simplifyPB pb hunits
      (by
        intro m hm hinv
        exact simplifyPB_equiv_partial { pb with model := m } j1 hinv (fun u hu => (hunits u hu).1) (by
          intro c hc
          rcases j4 c hc with h1 | h1
          · simp at h1
          · simp only [hm]; exact h1))
    rw [h] at F
    refine ⟨?_, ?_⟩
    · rintro hu ⟨a, ha⟩
      exact F.1 hu a ((hsem a).mpr ha)
    · intro hne a
      rw [← hsem a]
      exact F.2 hne a

/-- the hypotheses of `simplifyPB_equiv_partial` are met by the state `ParsePBConstrs` reaches on
    `x̄2 ≥ 1`, `3 x1 + 2 x2 + 1 x3 ≥ 4`, `2 x3 + 2 x4 + 1 x5 + 1 x2 ≥ 3` before calling
    `simplifyPB`; the result keeps `1 x5 + 2 x4 ≥ 1` -/
example :
    let pb : Pb := ⟨5, [⟨[1, 2, 3], some [3, 2, 1], 4⟩, ⟨[3, 4, 5, 2], some [2, 2, 1, 1], 3⟩],
                    .indet, [-2], [0, -1, 0, 0, 0]⟩
    pb.status = .indet ∧ MInv pb.model pb.units ∧ (∀ u ∈ pb.units, u ≠ 0) ∧
    (∀ c ∈ pb.clauses, PbClOk pb.model.length c) ∧
    ((simplifyPB pb).status, (simplifyPB pb).units, (simplifyPB pb).clauses) =
      (.indet, [-2, 1, 3], [⟨[5, 4], some [1, 2], 1⟩]) := by
  refine ⟨rfl, ?_, by decide, ?_, by decide⟩
  · exact (bindUnits_spec [-2] (List.replicate 5 0) [] (MInv.init 5) (by decide)).2.1 (by decide)
  · intro c hc
    simp only [List.mem_cons, List.not_mem_nil, or_false] at hc
    rcases hc with rfl | rfl
    · refine ⟨?_, by decide, [3, 2, 1], rfl, rfl, by decide⟩
      intro l hl
      simp only [List.mem_cons, List.not_mem_nil, or_false] at hl
      rcases hl with rfl | rfl | rfl <;> decide
    · refine ⟨?_, by decide, [2, 2, 1, 1], rfl, rfl, by decide⟩
      intro l hl
      simp only [List.mem_cons, List.not_mem_nil, or_false] at hl
      rcases hl with rfl | rfl | rfl | rfl <;> decide

/-- `parsePBConstrs_equiv` on a concrete input: a dropped constraint, a unit constraint, a
    constraint `simplifyPB` turns into units, a `nil`-weights constraint with a repeated literal
    and a weighted constraint that `NewPBClause` re-sorts -/
example :
    let cs : List PBC := [⟨[5], none, 0⟩, ⟨[-2], some [1], 1⟩, ⟨[1, 2, 3], some [3, 2, 1], 4⟩,
                          ⟨[3, 4, -5, 4], none, 2⟩, ⟨[4, 5, 6, 7], some [1, 3, 2, 2], 3⟩]
    (∀ c ∈ cs, ∀ t ∈ c.terms, 0 < t.1) ∧
    (parsePBConstrs cs).map (fun r => (r.status, r.units, r.clauses)) =
      some (.indet, [-2, 1, 3],
        [⟨[5, 6, 7, 4], some [3, 2, 2, 1], 3⟩, ⟨[4, 4, -5], some [1, 1, 1], 1⟩]) := by
  refine ⟨by decide, by decide⟩

#print axioms simplifyPB_equiv_partial
#print axioms simplifyPB_equiv_statement_false
#print axioms parsePBConstrs_equiv

end GS.Simplify
