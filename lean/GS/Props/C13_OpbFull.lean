import GS.Model.OpbFull
import GS.Props.C13_Formats
import GS.Props.C02_SimplifyPB
/-!
# C13 — `solver.ParseOPB` end to end: the problem it returns has exactly the models the text denotes

`GS.OpbFull.parseOpbFull` (`GS/Model/OpbFull.lean`) is the token-level front
(`GS.Formats.parseOpbLines`, proved in `C13_Formats`) followed by the mirror of `ParseOPB`'s own
tail (unit loop, `simplifyPB`; `GS.Simplify`, proved in `C01_Simplify` / `C02_SimplifyPB`).

* `front_kept_wok`      : on ANY text, every constraint the front keeps has explicit weights, as many
                          as literals, all positive (`GtEq`'s normalisation);
* `tailOpb_equiv`       : the tail keeps the models of what the front kept (`OpbState.frontSem`);
* `tailOpb_nbVars`      : `NbVars` of the result is the front's;
* `parseOpbFull_equiv`  : the same for a whole text (any text on which the mirror answers; no
                          other hypothesis);
* `front_render_inv`    : on a rendering of a well-formed OPB file the front reaches a state in
                          which every unit and every kept constraint is non-null, within
                          `NbVars`, in normal form (positive weights) and of degree ≥ 1;
* `parseOpbFull_render` : for every well-formed abstract OPB file and every layout, `ParseOPB`
                          succeeds, stores the file's objective, answers `Unsat` only if the file
                          has no model, and otherwise returns units and constraints whose models
                          are exactly the file's.
-/
namespace GS.OpbFull
open GS GS.Constr GS.Formats GS.Simplify

/-! ## The unit loop with index checks -/

/-- In range, the checked loop is `GS.Simplify.bindUnits`. -/
theorem bindUnitsChk_ok : ∀ (us m : List Int), (∀ u ∈ us, u ≠ 0 ∧ varOf u < m.length) →
    bindUnitsChk us m = .ok (bindUnits us m) := by
  intro us
  induction us with
  | nil => intro m _; rfl
  | cons u us ih =>
    intro m h
    obtain ⟨h0, hv⟩ := h u (by simp)
    have hg : ¬ (u = 0 ∨ m.length ≤ varOf u) := by omega
    have h' : ∀ x ∈ us, x ≠ 0 ∧ varOf x < m.length := fun x hx => h x (List.mem_cons_of_mem _ hx)
    simp only [bindUnitsChk, bindUnits, if_neg hg]
    split
    · exact ih _ (by simpa using h')
    · split
      · rfl
      · exact ih _ h'

/-- When the checked loop does not panic it has run `bindUnits` on a prefix of the units, all of
    them in range; the prefix is everything unless two units conflict. -/
theorem bindUnitsChk_pre : ∀ (us m : List Int) (r : List Int × Bool), bindUnitsChk us m = .ok r →
    ∃ pre suf, us = pre ++ suf ∧ (∀ u ∈ pre, u ≠ 0 ∧ varOf u < m.length) ∧ bindUnits pre m = r ∧
      (r.2 = false → suf = []) := by
  intro us
  induction us with
  | nil =>
    intro m r h
    simp only [bindUnitsChk, Except.ok.injEq] at h
    subst h
    exact ⟨[], [], rfl, by simp, rfl, fun _ => rfl⟩
  | cons u us ih =>
    intro m r h
    simp only [bindUnitsChk] at h
    split at h
    · cases h
    · rename_i hg
      have hu : u ≠ 0 ∧ varOf u < m.length := by omega
      split at h
      · rename_i h0
        obtain ⟨pre, suf, e, hp, hb, hs⟩ := ih _ r h
        refine ⟨u :: pre, suf, by rw [e]; rfl, ?_, ?_, hs⟩
        · intro x hx
          rcases List.mem_cons.mp hx with rfl | hx
          · exact hu
          · simpa using hp x hx
        · simp only [bindUnits, if_pos h0]; exact hb
      · rename_i h0
        split at h
        · rename_i hc
          simp only [Except.ok.injEq] at h
          subst h
          refine ⟨[u], us, rfl, ?_, ?_, by simp⟩
          · intro x hx; rw [List.mem_singleton.mp hx]; exact hu
          · simp only [bindUnits, if_neg h0, if_pos hc]
        · rename_i hc
          obtain ⟨pre, suf, e, hp, hb, hs⟩ := ih _ r h
          refine ⟨u :: pre, suf, by rw [e]; rfl, ?_, ?_, hs⟩
          · intro x hx
            rcases List.mem_cons.mp hx with rfl | hx
            · exact hu
            · exact hp x hx
          · simp only [bindUnits, if_neg h0, if_neg hc]; exact hb

/-! ## `simplifyPB` entered with `Status == Unsat` leaves the status alone -/

theorem simplifyPBU_status (pb : Pb) (h : pb.status = .unsat) : (simplifyPBU pb).status = .unsat := by
  unfold simplifyPBU
  simp only
  split
  · apply addUnit_unsat; simpa [replicateUnits] using h
  · simpa [replicateUnits] using h

/-! ## A constraint the front kept, once `NewPBClause` has sorted it -/

theorem litsInRange_iff (n : Nat) (ls : List Int) :
    litsInRange n ls = true ↔ ∀ l ∈ ls, l ≠ 0 ∧ l.natAbs ≤ n := by
  simp [litsInRange]

theorem normal_terms_pos (k : PBC) (hn : k.normal = true) : ∀ t ∈ k.terms, 0 < t.1 := by
  rcases k with ⟨lits, _ | ws, n⟩
  · intro t ht
    simp only [PBC.terms, List.mem_map] at ht
    obtain ⟨l, _, rfl⟩ := ht
    exact Int.one_pos
  · rw [normal_some] at hn
    intro t ht
    simp only [PBC.terms] at ht
    exact hn.2.2 t.1 (List.of_mem_zip ht).1

theorem normal_pbcOk (k : PBC) (hn : k.normal = true) : pbcOk k = true := by
  rcases k with ⟨lits, _ | ws, n⟩
  · rw [normal_none] at hn
    simp only [pbcOk, Bool.and_true, Bool.not_eq_true', List.contains_eq_mem, decide_eq_false_iff_not]
    intro h0; exact hn 0 h0 rfl
  · rw [normal_some] at hn
    simp only [pbcOk, Bool.and_eq_true, Bool.not_eq_true', List.contains_eq_mem,
      decide_eq_false_iff_not, beq_iff_eq]
    exact ⟨fun h0 => hn.1 0 h0 rfl, hn.2.1⟩

/-- The clause `NewPBClause` builds from a kept constraint meets the hypotheses of
    `simplifyPB_equiv_partial` and means the constraint. -/
theorem kept_ok (n : Nat) (k : PBC) (hn : k.normal = true) (hc : 1 ≤ k.atLeast)
    (hr : litsInRange n k.lits = true) :
    PbClOk n (newPBClause k) ∧ ∀ a, ((newPBClause k).lin.holds a = true ↔ k.sem a = true) := by
  obtain ⟨_, hlits, _, ts, hperm, hnew⟩ := pbcOk_spec k (normal_pbcOk k hn)
  rw [litsInRange_iff] at hr
  have hpos := normal_terms_pos k hn
  have htsok : TsOk n ts := by
    intro t ht
    have ht' := hperm.mem_iff.mp ht
    have hl : t.2 ∈ k.lits := by rw [← hlits]; exact List.mem_map.mpr ⟨t, ht', rfl⟩
    exact ⟨hpos t ht', (hr _ hl).1, (hr _ hl).2⟩
  refine ⟨by rw [hnew]; exact mkCl_ok htsok hc, fun a => ?_⟩
  rw [hnew, holds_pb, mkCl_terms, pbcSem_iff, lhs_perm a hperm]; rfl

/-! ## The case analysis `opbFront`: where units and kept constraints come from -/

theorem frontPB_units {c : PBC} {ls : List Int} (h : frontPB c = .units ls) : ls = c.lits := by
  unfold frontPB at h
  split at h
  · cases h
  · split at h
    · cases h
    · split at h
      · injection h with h; exact h.symm
      · cases h

theorem frontPB_kept {c : PBC} (h : frontPB c = .kept) : 1 ≤ c.atLeast := by
  rcases frontPB_cases c with ⟨hf, _⟩ | ⟨hf, _⟩ | ⟨hf, _⟩ | ⟨_, h1, _⟩
  · rw [hf] at h; cases h
  · rw [hf] at h; cases h
  · rw [hf] at h; cases h
  · exact h1

theorem opbFront_nbVars : ∀ (cs : List PBC) (st : OpbState), (opbFront st cs).nbVars = st.nbVars := by
  intro cs
  induction cs with
  | nil => intro st; rfl
  | cons c cs ih =>
    intro st
    simp only [opbFront]
    split
    · exact ih st
    · rfl
    · rw [ih]
    · rw [ih]

/-- Every unit of the result is an old unit or a literal of one of the constraints; every kept
    constraint is an old one or one of the constraints, of degree ≥ 1. -/
theorem opbFront_inv (P : Int → Prop) (Q : PBC → Prop) : ∀ (cs : List PBC) (st : OpbState),
    (∀ u ∈ st.units, P u) → (∀ k ∈ st.kept, Q k) →
    (∀ c ∈ cs, (∀ l ∈ c.lits, P l) ∧ (1 ≤ c.atLeast → Q c)) →
    (∀ u ∈ (opbFront st cs).units, P u) ∧ ∀ k ∈ (opbFront st cs).kept, Q k := by
  intro cs
  induction cs with
  | nil => intro st hu hk _; exact ⟨hu, hk⟩
  | cons c cs ih =>
    intro st hu hk hc
    have hcs : ∀ c' ∈ cs, (∀ l ∈ c'.lits, P l) ∧ (1 ≤ c'.atLeast → Q c') :=
      fun c' h' => hc c' (List.mem_cons_of_mem _ h')
    obtain ⟨hc1, hc2⟩ := hc c (by simp)
    simp only [opbFront]
    split
    · exact ih st hu hk hcs
    · exact ⟨hu, hk⟩
    · rename_i ls hf
      have e := frontPB_units hf
      subst e
      refine ih _ ?_ hk hcs
      intro u h
      rcases List.mem_append.mp h with h | h
      · exact hu u h
      · exact hc1 u h
    · rename_i hf
      refine ih _ hu ?_ hcs
      intro k h
      rcases List.mem_append.mp h with h | h
      · exact hk k h
      · rw [List.mem_singleton.mp h]; exact hc2 (frontPB_kept hf)

/-- A property kept by every line is kept by the scanner loop. -/
theorem opbLines_preserve (P : OpbState → Prop) : ∀ (ls : List Line) (st st' : OpbState),
    (∀ l ∈ ls, ∀ s s', P s → opbLine s l = .ok s' → P s') → P st → opbLines st ls = .ok st' → P st' := by
  intro ls
  induction ls with
  | nil =>
    intro st st' _ hp h
    simp only [opbLines, Except.ok.injEq] at h
    subst h; exact hp
  | cons l ls ih =>
    intro st st' hl hp h
    simp only [opbLines] at h
    split at h
    · cases h
    · rename_i s1 h1
      exact ih s1 st' (fun l' hl' => hl l' (List.mem_cons_of_mem _ hl')) (hl l (by simp) st s1 hp h1) h

/-! ## The front on any text: the weights of what it keeps -/

/-- weights as `GtEq` leaves them: explicit, as many as literals, all positive -/
def WOk (k : PBC) : Prop := ∃ ws, k.weights = some ws ∧ ws.length = k.lits.length ∧ ∀ w ∈ ws, 0 < w

theorem gtEqLoop_wok : ∀ (lits ws : List Int) (n : Int),
    (gtEqLoop lits ws n).2.1.length = (gtEqLoop lits ws n).1.length ∧
    ∀ w ∈ (gtEqLoop lits ws n).2.1, 0 < w := by
  intro lits
  induction lits with
  | nil => intro ws n; simp [gtEqLoop]
  | cons x xs ih =>
    intro ws n
    cases ws with
    | nil => simp [gtEqLoop]
    | cons w ws =>
      simp only [gtEqLoop]
      split
      · obtain ⟨i1, i2⟩ := ih ws (n + -w)
        refine ⟨by simp [i1], ?_⟩
        intro v hv
        rcases List.mem_cons.mp hv with rfl | hv
        · omega
        · exact i2 v hv
      · split
        · exact ih ws n
        · obtain ⟨i1, i2⟩ := ih ws n
          refine ⟨by simp [i1], ?_⟩
          intro v hv
          rcases List.mem_cons.mp hv with rfl | hv
          · omega
          · exact i2 v hv

theorem gtEq_wok (lits ws : List Int) (n : Int) (p : PBC) (hl : ws.length = lits.length)
    (h : gtEq lits (some ws) n = some p) : WOk p := by
  unfold gtEq at h
  split at h
  · cases h
  · split at h
    · rename_i heq; cases heq
    · rename_i heq
      simp only [Option.some.injEq] at heq h
      subst heq; subst h
      exact ⟨[], rfl, by simpa using hl, by simp⟩
    · rename_i ws' _ heq
      simp only [Option.some.injEq] at heq h
      subst heq; subst h
      obtain ⟨i1, i2⟩ := gtEqLoop_wok lits ws n
      exact ⟨_, rfl, i1, i2⟩

theorem eq_wok (lits ws : List Int) (n : Int) (ps : List PBC) (hl : ws.length = lits.length)
    (h : eq lits (some ws) n = some ps) : ∀ p ∈ ps, WOk p := by
  unfold eq at h
  split at h
  · cases h
  · rename_i ge hge
    split at h
    · cases h
    · rename_i le hle
      simp only [Option.some.injEq] at h
      subst h
      intro p hp
      rcases List.mem_append.mp hp with hp | hp
      · split at hp
        · rw [List.mem_singleton.mp hp]; exact gtEq_wok _ _ _ ge hl hge
        · cases hp
      · split at hp
        · rw [List.mem_singleton.mp hp]
          unfold ltEq at hle
          split at hle
          · cases hle
          · exact gtEq_wok _ _ _ le (by simpa using hl) hle
        · cases hp

theorem opbTerms_len (len : Nat) (i : Nat) (nb : Int) (toks : List Tok) :
    ∀ (ws ls : List Int) (nb' : Int), opbTerms len i nb toks = .ok (ws, ls, nb') → ws.length = ls.length := by
  fun_induction opbTerms len i nb toks <;> intro ws ls nb' h
  all_goals first
    | (cases h; done)
    | (simp only [Except.ok.injEq, Prod.mk.injEq] at h
       obtain ⟨rfl, rfl, -⟩ := h
       first
         | rfl
         | (rename_i hx ih
            simp only [List.length_cons, ih _ _ _ hx]))

theorem opbConstrLine_wok (st st' : OpbState) (fields : List Tok) (hinv : ∀ k ∈ st.kept, WOk k)
    (h : opbConstrLine st fields = .ok st') : ∀ k ∈ st'.kept, WOk k := by
  unfold opbConstrLine at h
  split at h
  · simp only at h
    split at h
    · cases h
    · split at h
      · cases h
      · split at h
        · cases h
        · rename_i ws ls nb hterms
          split at h
          · cases h
          · rename_i cs hmade
            simp only [Except.ok.injEq] at h
            subst h
            have hlen := opbTerms_len _ _ _ _ _ _ _ hterms
            have hcs : ∀ c ∈ cs, WOk c := by
              split at hmade
              · cases hg : gtEq ls (some ws) _ with
                | none => rw [hg] at hmade; cases hmade
                | some p =>
                  rw [hg] at hmade
                  simp only [Option.map_some, Option.some.injEq] at hmade
                  subst hmade
                  intro c hc
                  rw [List.mem_singleton.mp hc]
                  exact gtEq_wok _ _ _ p hlen hg
              · exact eq_wok _ _ _ cs hlen hmade
            exact (opbFront_inv (fun _ => True) WOk cs
              { st with nbVars := nb, constrs := st.constrs ++ cs } (fun _ _ => trivial) hinv
              (fun c hc => ⟨fun _ _ => trivial, fun _ => hcs c hc⟩)).2
  · cases h

theorem opbLine_wok (st st' : OpbState) (line : Line) (hinv : ∀ k ∈ st.kept, WOk k)
    (h : opbLine st line = .ok st') : ∀ k ∈ st'.kept, WOk k := by
  unfold opbLine at h
  split at h
  · simp only [Except.ok.injEq] at h; subst h; exact hinv
  · split at h
    · simp only [Except.ok.injEq] at h; subst h; exact hinv
    · split at h
      · cases h
      · simp only at h
        split at h
        · cases h
        · split at h
          · split at h
            · cases h
            · simp only [Except.ok.injEq] at h; subst h; exact hinv
          · exact opbConstrLine_wok _ _ _ hinv h

/-- **The front, on any text.** Every constraint the case analysis keeps has explicit weights,
    as many as literals, all positive (`GtEq`'s normalisation). -/
theorem front_kept_wok (lines : List Line) (st : OpbState) (h : parseOpbLines lines = .ok st) :
    ∀ k ∈ st.kept, WOk k :=
  opbLines_preserve (fun s => ∀ k ∈ s.kept, WOk k) lines {} st
    (fun l _ s s' hs hl => opbLine_wok s s' l hs hl) (by simp) h

theorem wok_normal (k : PBC) (hw : WOk k) (hz : ∀ l ∈ k.lits, l ≠ 0) : k.normal = true := by
  obtain ⟨ws, h1, h2, h3⟩ := hw
  rcases k with ⟨lits, wts, n⟩
  simp only at h1 h2 hz
  subst h1
  exact (normal_some _ _ _).mpr ⟨hz, h2, h3⟩

/-! ## The tail of `ParseOPB` keeps the models -/

theorem frontSem_true_iff (a : Asg) (st : OpbState) :
    st.frontSem a = true ↔
      st.unsat = false ∧ (∀ u ∈ st.units, litTrue a u = true) ∧ ∀ k ∈ st.kept, k.sem a = true := by
  simp [OpbState.frontSem, and_assoc]

/-- **The tail of `ParseOPB`** (`Model`, the unit loop, `simplifyPB`), from any state `st` of the
    front whose kept constraints have positive weights (`WOk`; always the case: `front_kept_wok`):
    `Unsat` only if what the front kept has no model; otherwise the units and constraints of
    the result have exactly its models. -/
theorem tailOpb_equiv (st : OpbState) (pb : Pb) (hw : ∀ k ∈ st.kept, WOk k)
    (h : tailOpb st = .ok pb) :
    (pb.status = .unsat → ∀ a, st.frontSem a = false) ∧
    (pb.status ≠ .unsat → ∀ a, (st.frontSem a = true ↔ SemL a pb.units pb.clauses)) := by
  unfold tailOpb at h
  simp only at h
  split at h
  · cases h
  · rename_i hcard
    have hcard' : ∀ k ∈ st.kept, 1 ≤ k.atLeast := by
      intro k hk
      have : ¬ k.atLeast < 1 := by
        intro hlt
        exact hcard (List.any_eq_true.mpr ⟨k, hk, by simpa using hlt⟩)
      omega
    split at h
    · cases h
    · -- two units conflict
      rename_i m hb
      simp only [Except.ok.injEq] at h
      subst h
      obtain ⟨pre, suf, e, hp, hbu, _⟩ := bindUnitsChk_pre _ _ _ hb
      have S := bindUnits_spec pre (List.replicate st.nbVars.toNat 0) [] (MInv.init _) hp
      rw [hbu] at S
      obtain ⟨u, hu0, hu1, hu2⟩ := S.2.2 rfl
      simp only [List.nil_append] at hu1 hu2
      refine ⟨fun _ a => ?_, fun hne => absurd rfl hne⟩
      rw [Bool.eq_false_iff]
      intro hs
      have hall := ((frontSem_true_iff a st).mp hs).2.1
      refine conflict_unsat (us := st.units) hu0 ?_ ?_ a hall
      · rw [e]; exact List.mem_append_left _ hu1
      · rw [e]; exact List.mem_append_left _ hu2
    · -- the units are consistent
      rename_i m hb
      obtain ⟨pre, suf, e, hp, hbu, hsuf⟩ := bindUnitsChk_pre _ _ _ hb
      have hsuf' := hsuf rfl
      subst hsuf'
      simp only [List.append_nil] at e
      subst e
      have S := bindUnits_spec st.units (List.replicate st.nbVars.toNat 0) [] (MInv.init _) hp
      rw [hbu] at S
      obtain ⟨hlen, hinv, _⟩ := S
      have hinv := hinv rfl
      simp only [List.nil_append, List.length_replicate] at hinv hlen
      split at h
      · cases h
      · rename_i hrange
        have hrange' : ∀ k ∈ st.kept, litsInRange st.nbVars.toNat k.lits = true := by
          have : st.kept.all (fun k => litsInRange st.nbVars.toNat k.lits) = true := by
            simpa using hrange
          exact List.all_eq_true.mp this
        have hn : ∀ k ∈ st.kept, k.normal = true := fun k hk =>
          wok_normal k (hw k hk) (fun l hl => (((litsInRange_iff _ _).mp (hrange' k hk)) l hl).1)
        split at h
        · -- a line had already set `Unsat`
          rename_i hu
          simp only [Except.ok.injEq] at h
          subst h
          refine ⟨fun _ a => by simp [OpbState.frontSem, hu], fun hne => ?_⟩
          exact absurd (simplifyPBU_status _ rfl) hne
        · rename_i hu
          have hu' : st.unsat = false := by simpa using hu
          simp only [Except.ok.injEq] at h
          subst h
          have hsem : ∀ a, (st.frontSem a = true ↔
              SemL a st.units (st.kept.map newPBClause)) := by
            intro a
            rw [frontSem_true_iff]
            unfold SemL
            simp only [hu', true_and, List.mem_map, forall_exists_index, and_imp,
              forall_apply_eq_imp_iff₂]
            constructor
            · rintro ⟨h1, h2⟩
              exact ⟨h1, fun k hk =>
                ((kept_ok _ k (hn k hk) (hcard' k hk) (hrange' k hk)).2 a).mpr (h2 k hk)⟩
            · rintro ⟨h1, h2⟩
              exact ⟨h1, fun k hk =>
                ((kept_ok _ k (hn k hk) (hcard' k hk) (hrange' k hk)).2 a).mp (h2 k hk)⟩
          have E := simplifyPB_equiv_partial
            ⟨st.nbVars.toNat, st.kept.map newPBClause, .indet, st.units, m⟩ rfl hinv
            (fun u hu => (hp u hu).1)
            (by
              intro c hc
              simp only [List.mem_map] at hc
              obtain ⟨k, hk, rfl⟩ := hc
              simp only [hlen]
              exact (kept_ok _ k (hn k hk) (hcard' k hk) (hrange' k hk)).1)
          refine ⟨fun hst a => ?_, fun hne a => ?_⟩
          · rw [Bool.eq_false_iff]
            intro hs
            exact E.1 hst a ((hsem a).mp hs)
          · exact (hsem a).trans (E.2 hne a)

/-! ## `NbVars` is the front's -/

theorem addUnit_nbVars (pb : Pb) (l : Int) : (addUnit pb l).nbVars = pb.nbVars := by
  unfold addUnit; split <;> split <;> rfl

theorem scanPB_nbVars : ∀ (n : Nat) (pb : Pb) (card st ws : Int) (s : List (Int × Int)),
    (scanPB n pb card st ws s).pb.nbVars = pb.nbVars := by
  intro n
  induction n with
  | zero => intros; rfl
  | succ n ih =>
    intro pb card st ws s
    cases s with
    | nil => rfl
    | cons t r =>
      obtain ⟨w, lit⟩ := t
      simp only [scanPB]
      split
      · split
        · split
          · exact addUnit_nbVars _ _
          · simp only; rw [ih]; exact addUnit_nbVars _ _
        · simp only; exact ih ..
      · simp only; exact ih ..

theorem passPB_nbVars : ∀ (n : Nat) (pb : Pb) (s : List Cl), (passPB n pb s).pb.nbVars = pb.nbVars := by
  intro n
  induction n with
  | zero => intros; rfl
  | succ n ih =>
    intro pb s
    cases s with
    | nil => rfl
    | cons c r =>
      simp only [passPB]
      split
      · exact scanPB_nbVars ..
      · split
        · simp only; rw [ih]; exact scanPB_nbVars ..
        · split
          · exact scanPB_nbVars ..
          · simp only; rw [ih]; exact scanPB_nbVars ..

theorem loopPB_nbVars : ∀ (n : Nat) (pb : Pb), (loopPB n pb).nbVars = pb.nbVars := by
  intro n
  induction n with
  | zero => intros; rfl
  | succ n ih =>
    intro pb
    simp only [loopPB]
    split
    · exact passPB_nbVars ..
    · split
      · rw [ih]; exact passPB_nbVars ..
      · unfold updateStatus
        split
        · exact passPB_nbVars ..
        · exact passPB_nbVars ..

theorem simplifyPB_nbVars (pb : Pb) : (simplifyPB pb).nbVars = pb.nbVars := by
  unfold simplifyPB
  simp only
  rw [loopPB_nbVars]
  rfl

theorem simplifyPBU_nbVars (pb : Pb) : (simplifyPBU pb).nbVars = pb.nbVars := by
  unfold simplifyPBU
  simp only
  split
  · rw [addUnit_nbVars]; rfl
  · rfl

/-- `pb.NbVars` of the result is the one the scanner loop computed. -/
theorem tailOpb_nbVars (st : OpbState) (pb : Pb) (h : tailOpb st = .ok pb) :
    pb.nbVars = st.nbVars.toNat := by
  unfold tailOpb at h
  simp only at h
  split at h
  · cases h
  · split at h
    · cases h
    · simp only [Except.ok.injEq] at h; subst h; rfl
    · split at h
      · cases h
      · split at h
        · simp only [Except.ok.injEq] at h; subst h; exact simplifyPBU_nbVars _
        · simp only [Except.ok.injEq] at h; subst h; exact simplifyPB_nbVars _

/-- **C13, `ParseOPB` on any text that parses.** `st` is the state the scanner loop ends in
    (`parseOpbLines`), whose meaning is `st.frontSem` (no line found unsatisfiable, every unit
    true, every kept constraint true; `C13_Formats.opbFront_spec`: line by line these are the
    models of the `PBConstr`s `GtEq` / `Eq` returned). The cost function is the one the front
    stored; `Unsat` is answered only when there is no model; otherwise the models of the result's
    units and constraints are exactly those models. -/
theorem parseOpbFull_equiv (lines : List Line) (st : OpbState) (r : Pb × Option (List (Int × Int)))
    (hfront : parseOpbLines lines = .ok st) (h : parseOpbFull lines = .ok r) :
    r.2 = st.obj ∧ r.1.nbVars = st.nbVars.toNat ∧
    (r.1.status = .unsat → ∀ a, st.frontSem a = false) ∧
    (r.1.status ≠ .unsat → ∀ a, (st.frontSem a = true ↔ SemL a r.1.units r.1.clauses)) := by
  unfold parseOpbFull at h
  rw [hfront] at h
  simp only at h
  split at h
  · cases h
  · rename_i pb ht
    simp only [Except.ok.injEq] at h
    subst h
    exact ⟨rfl, tailOpb_nbVars st pb ht, tailOpb_equiv st pb (front_kept_wok lines st hfront) ht⟩

/-! ## Rendered files: what the front reaches -/

/-- `parseTerms` on a rendered sum: the new `NbVars` is at least the old one and at least every
    variable of the sum. -/
theorem opbTerms_render_nb (len : Nat) : ∀ (ts : List (Int × Int)) (os : List Bool) (i : Nat) (nb : Int),
    ∃ nb', opbTerms len i nb (renderTerms ts os) = .ok (ts.map (·.1), ts.map (·.2), nb') ∧ nb ≤ nb' ∧
      ∀ t ∈ ts, (t.2.natAbs : Int) ≤ nb' := by
  intro ts
  induction ts with
  | nil => intro os i nb; exact ⟨nb, rfl, Int.le_refl _, by simp⟩
  | cons t ts ih =>
    intro os i nb
    obtain ⟨hp, hv, hlen, _⟩ := varName_spec t.2
    simp only [renderTerms, renderTerm]
    by_cases hom : (os.headD false && t.1 == 1) = true
    · rw [if_pos hom]
      obtain ⟨nb', h', b1, b2⟩ := ih os.tail (i + 1) (if (t.2.natAbs : Int) > nb then (t.2.natAbs : Int) else nb)
      refine ⟨nb', ?_, ?_, ?_⟩
      · have h1 : t.1 = 1 := by simp at hom; exact hom.2
        simp only [varTok, List.cons_append, List.nil_append, opbTerms, hp, hv, h', Bool.not_true,
          Bool.false_eq_true, if_false, List.map_cons, h1]
      · split at b1 <;> omega
      · intro x hx
        rcases List.mem_cons.mp hx with rfl | hx
        · split at b1 <;> omega
        · exact b2 x hx
    · rw [if_neg hom]
      obtain ⟨nb', h', b1, b2⟩ := ih os.tail (i + 2) (if (t.2.natAbs : Int) > nb then (t.2.natAbs : Int) else nb)
      refine ⟨nb', ?_, ?_, ?_⟩
      · simp only [varTok, List.cons_append, List.nil_append, opbTerms, hp, hv, h', Bool.not_true,
          Bool.false_eq_true, if_false, List.map_cons, hlen, decide_false, Bool.or_self]
      · split at b1 <;> omega
      · intro x hx
        rcases List.mem_cons.mp hx with rfl | hx
        · split at b1 <;> omega
        · exact b2 x hx

/-- The objective line, with the new `NbVars` bounded below. -/
theorem opbLine_objective_nb (st : OpbState) (ts : List (Int × Int)) (os : List Bool) :
    ∃ nb, opbLine st (renderObjective ts os) = .ok { st with nbVars := nb, obj := some ts } ∧
      st.nbVars ≤ nb := by
  obtain ⟨nb, hterms, hnb, _⟩ := opbTerms_render_nb (renderTerms ts os).length ts os 0 st.nbVars
  refine ⟨nb, ?_, hnb⟩
  have hstar : isStarLine (Tok.word "min:" :: (renderTerms ts os ++ [Tok.word ";"])) = false := by
    simp only [isStarLine]; decide
  unfold renderObjective
  rw [opbLine_fields st _ _ hstar, if_pos rfl]
  simp only [hterms, GS.Formats.zip_map_fst_snd]

/-- One constraint line, in explicit form: the state after it is the case analysis `opbFront` run
    on `pbcsOf c` from the old state with the new `NbVars`, which bounds every variable of `c`.
    (Same proof as `C13_Formats.opbLine_constr`, which hides the state.) -/
theorem opbLine_constr_nb (st : OpbState) (c : OpbConstr) (os : List Bool) (hwf : c.wf = true) :
    ∃ nb, opbLine st (c.renderLine os) =
        .ok (opbFront { st with nbVars := nb, constrs := st.constrs ++ pbcsOf c } (pbcsOf c)) ∧
      st.nbVars ≤ nb ∧ ∀ t ∈ c.terms, (t.2.natAbs : Int) ≤ nb := by
  simp only [OpbConstr.wf, Bool.and_eq_true, List.all_eq_true, bne_iff_ne, ne_eq, Bool.not_eq_true',
    List.isEmpty_eq_false_iff] at hwf
  obtain ⟨hz, hne⟩ := hwf
  obtain ⟨hmk1, hmk2, hsem, hnorm⟩ := pbcsOf_spec c hz
  have hrne := renderTerms_ne_nil c.terms os hne
  obtain ⟨nb, hterms, hnb1, hnb2⟩ := opbTerms_render_nb (renderTerms c.terms os).length c.terms os 0 st.nbVars
  obtain ⟨f0, rest0, hshape⟩ : ∃ f0 rest0, renderTerms c.terms os = f0 :: rest0 := by
    cases h : renderTerms c.terms os with
    | nil => exact absurd h hrne
    | cons x xs => exact ⟨x, xs, rfl⟩
  have hline : c.renderLine os = f0 :: ((rest0 ++ [relTok c.rel, Tok.int c.rhs]) ++ [Tok.word ";"]) := by
    simp [OpbConstr.renderLine, hshape]
  have hstar : isStarLine (f0 :: ((rest0 ++ [relTok c.rel, Tok.int c.rhs]) ++ [Tok.word ";"])) = false := by
    have := renderTerms_not_star c.terms os [Tok.int c.rhs, Tok.word ";"]
    rw [hshape] at this
    cases hrel : c.rel <;> simp [relTok] <;> simp [isStarLine] at this ⊢ <;> first | exact this.1 | exact this.2
  have hmin : f0 ≠ Tok.word "min:" := by
    intro e
    cases hc : c.terms with
    | nil => exact absurd hc hne
    | cons t ts =>
      rw [hc] at hshape
      simp only [renderTerms, renderTerm] at hshape
      obtain ⟨hp, _⟩ := varName_spec t.2
      split at hshape
      · simp only [List.cons_append, List.nil_append, List.cons.injEq] at hshape
        rw [← hshape.1, varTok] at e
        simp only [Tok.word.injEq] at e
        rw [e] at hp
        exact absurd hp (by decide)
      · simp only [List.cons_append, List.cons.injEq] at hshape
        rw [← hshape.1] at e
        cases e
  rw [hline, opbLine_fields st f0 _ hstar, if_neg hmin]
  obtain ⟨x, xs, hx⟩ : ∃ x xs, (renderTerms c.terms os).reverse = x :: xs := by
    cases h : (renderTerms c.terms os).reverse with
    | nil => simp at h; exact absurd h hrne
    | cons x xs => exact ⟨x, xs, rfl⟩
  have hrev : (f0 :: (rest0 ++ [relTok c.rel, Tok.int c.rhs])).reverse =
      Tok.int c.rhs :: relTok c.rel :: x :: xs := by
    rw [← List.cons_append, ← hshape, reverse_concat2, hx]
  have hback : (x :: xs).reverse = renderTerms c.terms os := by rw [← hx, List.reverse_reverse]
  unfold opbConstrLine
  rw [hrev]
  simp only [hback, hterms]
  have hop : (if relTok c.rel = Tok.word ">=" then some Rel.ge
      else if relTok c.rel = Tok.word "=" then some Rel.eq else none) = some c.rel := by
    cases c.rel <;> simp [relTok]
  rw [hop]
  have hgoal : ∀ (r : Rel), c.rel = r →
      (match (match r with
          | .ge => (gtEq (c.terms.map (·.2)) (some (c.terms.map (·.1))) c.rhs).map (fun p => [p])
          | .eq => eq (c.terms.map (·.2)) (some (c.terms.map (·.1))) c.rhs) with
        | none => (Except.error "panic: not as many lits as weights" : Except String OpbState)
        | some cs => .ok (opbFront { st with nbVars := nb, constrs := st.constrs ++ cs } cs)) =
      .ok (opbFront { st with nbVars := nb, constrs := st.constrs ++ pbcsOf c } (pbcsOf c)) := by
    intro r hr
    cases r with
    | ge => simp only [hmk1 hr]
    | eq => simp only [hmk2 hr]
  exact ⟨nb, hgoal c.rel rfl, hnb1, hnb2⟩

/-! ## The literals of what `GtEq` / `Eq` return are, up to sign, those they were given -/

theorem gtEqLoop_lits : ∀ (lits ws : List Int) (n : Int), ∀ l ∈ (gtEqLoop lits ws n).1,
    ∃ l' ∈ lits, l.natAbs = l'.natAbs := by
  intro lits
  induction lits with
  | nil => intro ws n l hl; simp [gtEqLoop] at hl
  | cons x xs ih =>
    intro ws n l hl
    cases ws with
    | nil => simp [gtEqLoop] at hl
    | cons w ws =>
      simp only [gtEqLoop] at hl
      split at hl
      · rcases List.mem_cons.mp hl with rfl | hl
        · exact ⟨x, by simp, by omega⟩
        · obtain ⟨l', h1, h2⟩ := ih _ _ l hl
          exact ⟨l', List.mem_cons_of_mem _ h1, h2⟩
      · split at hl
        · obtain ⟨l', h1, h2⟩ := ih _ _ l hl
          exact ⟨l', List.mem_cons_of_mem _ h1, h2⟩
        · rcases List.mem_cons.mp hl with rfl | hl
          · exact ⟨l, by simp, rfl⟩
          · obtain ⟨l', h1, h2⟩ := ih _ _ l hl
            exact ⟨l', List.mem_cons_of_mem _ h1, h2⟩

theorem gtEq_lits (lits : List Int) (ws : Option (List Int)) (n : Int) (p : PBC)
    (h : gtEq lits ws n = some p) : ∀ l ∈ p.lits, ∃ l' ∈ lits, l.natAbs = l'.natAbs := by
  unfold gtEq at h
  split at h
  · cases h
  · split at h
    · simp only [Option.some.injEq] at h; subst h
      exact fun l hl => ⟨l, hl, rfl⟩
    · simp only [Option.some.injEq] at h; subst h
      exact fun l hl => ⟨l, hl, rfl⟩
    · simp only [Option.some.injEq] at h; subst h
      exact gtEqLoop_lits _ _ _

theorem ltEq_lits (lits : List Int) (ws : Option (List Int)) (n : Int) (p : PBC)
    (h : ltEq lits ws n = some p) : ∀ l ∈ p.lits, ∃ l' ∈ lits, l.natAbs = l'.natAbs := by
  unfold ltEq at h
  split at h
  · cases h
  · intro l hl
    obtain ⟨l', h1, h2⟩ := gtEq_lits _ _ _ p h l hl
    simp only [List.mem_map] at h1
    obtain ⟨l'', h3, rfl⟩ := h1
    exact ⟨l'', h3, by omega⟩

theorem eq_lits (lits : List Int) (ws : Option (List Int)) (n : Int) (ps : List PBC)
    (h : eq lits ws n = some ps) : ∀ p ∈ ps, ∀ l ∈ p.lits, ∃ l' ∈ lits, l.natAbs = l'.natAbs := by
  unfold eq at h
  split at h
  · cases h
  · rename_i ge hge
    split at h
    · cases h
    · rename_i le hle
      simp only [Option.some.injEq] at h
      subst h
      intro p hp
      rcases List.mem_append.mp hp with hp | hp
      · split at hp
        · rw [List.mem_singleton.mp hp]; exact gtEq_lits _ _ _ ge hge
        · cases hp
      · split at hp
        · rw [List.mem_singleton.mp hp]; exact ltEq_lits _ _ _ le hle
        · cases hp

theorem pbcsOf_lits (c : OpbConstr) : ∀ p ∈ pbcsOf c, ∀ l ∈ p.lits,
    ∃ t ∈ c.terms, l.natAbs = t.2.natAbs := by
  have key : ∀ (l : Int), (∃ l' ∈ c.terms.map (·.2), l.natAbs = l'.natAbs) →
      ∃ t ∈ c.terms, l.natAbs = t.2.natAbs := by
    rintro l ⟨l', h1, h2⟩
    simp only [List.mem_map] at h1
    obtain ⟨t, ht, rfl⟩ := h1
    exact ⟨t, ht, h2⟩
  intro p hp l hl
  apply key
  unfold pbcsOf at hp
  split at hp
  · cases hg : gtEq (c.terms.map (·.2)) (some (c.terms.map (·.1))) c.rhs with
    | none => rw [hg] at hp; simp at hp
    | some q =>
      rw [hg] at hp
      simp only [Option.map_some, Option.getD_some, List.mem_singleton] at hp
      subst hp
      exact gtEq_lits _ _ _ p hg l hl
  · cases hg : eq (c.terms.map (·.2)) (some (c.terms.map (·.1))) c.rhs with
    | none => rw [hg] at hp; simp at hp
    | some ps =>
      rw [hg] at hp
      simp only [Option.getD_some] at hp
      exact eq_lits _ _ _ ps hg p hp l hl

/-! ## The invariant of the front on rendered files -/

/-- Every unit and every kept constraint is non-null and within `NbVars`; kept constraints are
    in normal form (non-null literals, as many weights as literals, all positive) and have a
    degree ≥ 1. -/
def FInv (st : OpbState) : Prop :=
  (∀ u ∈ st.units, u ≠ 0 ∧ (u.natAbs : Int) ≤ st.nbVars) ∧
  (∀ k ∈ st.kept, k.normal = true ∧ 1 ≤ k.atLeast ∧ ∀ l ∈ k.lits, (l.natAbs : Int) ≤ st.nbVars)

theorem FInv.mono {st : OpbState} (h : FInv st) (nb : Int) (hnb : st.nbVars ≤ nb)
    (obj : Option (List (Int × Int))) (cs : List PBC) :
    FInv { st with nbVars := nb, obj := obj, constrs := cs } := by
  refine ⟨fun u hu => ?_, fun k hk => ?_⟩
  · obtain ⟨h1, h2⟩ := h.1 u hu
    exact ⟨h1, by simp only; omega⟩
  · obtain ⟨h1, h2, h3⟩ := h.2 k hk
    exact ⟨h1, h2, fun l hl => by have := h3 l hl; simp only; omega⟩

/-- A line of a rendering is a skipped line, the objective line or a constraint line. -/
theorem mem_renderConstrs : ∀ (cs : List OpbConstr) (ls : List OpbLineLayout) (l : Line),
    l ∈ renderConstrs cs ls → (∃ s, l = skipLine s) ∨ ∃ c ∈ cs, ∃ os, l = c.renderLine os := by
  intro cs
  induction cs with
  | nil => intro ls l h; simp [renderConstrs] at h
  | cons c cs ih =>
    intro ls l h
    simp only [renderConstrs, List.mem_append, List.mem_map, List.mem_cons] at h
    rcases h with ⟨s, _, rfl⟩ | rfl | h
    · exact Or.inl ⟨s, rfl⟩
    · exact Or.inr ⟨c, by simp, _, rfl⟩
    · rcases ih _ l h with h | ⟨c', hc', os, e⟩
      · exact Or.inl h
      · exact Or.inr ⟨c', List.mem_cons_of_mem _ hc', os, e⟩

theorem mem_renderLines (o : Opb) (lay : OpbLayout) (l : Line) (h : l ∈ o.renderLines lay) :
    (∃ s, l = skipLine s) ∨ (∃ ts os, l = renderObjective ts os) ∨
      ∃ c ∈ o.constrs, ∃ os, l = c.renderLine os := by
  simp only [Opb.renderLines, renderObjectiveLines, List.mem_append, List.mem_map] at h
  rcases h with (⟨s, _, rfl⟩ | h) | h | ⟨s, _, rfl⟩
  · exact Or.inl ⟨s, rfl⟩
  · split at h
    · cases h
    · rw [List.mem_singleton.mp h]; exact Or.inr (Or.inl ⟨_, _, rfl⟩)
  · rcases mem_renderConstrs _ _ l h with h | h
    · exact Or.inl h
    · exact Or.inr (Or.inr h)
  · exact Or.inl ⟨s, rfl⟩

/-- A constraint line of a well-formed constraint keeps the invariant. -/
theorem FInv_constrLine (st st' : OpbState) (c : OpbConstr) (os : List Bool) (hwf : c.wf = true)
    (hinv : FInv st) (h : opbLine st (c.renderLine os) = .ok st') : FInv st' := by
  obtain ⟨nb, heq, hnb1, hnb2⟩ := opbLine_constr_nb st c os hwf
  rw [heq] at h
  simp only [Except.ok.injEq] at h
  subst h
  have hz : ∀ t ∈ c.terms, t.2 ≠ 0 := by
    simp only [OpbConstr.wf, Bool.and_eq_true, List.all_eq_true, bne_iff_ne, ne_eq] at hwf
    exact hwf.1
  obtain ⟨_, _, _, hnorm⟩ := pbcsOf_spec c hz
  have hbound : ∀ p ∈ pbcsOf c, ∀ l ∈ p.lits, (l.natAbs : Int) ≤ nb := by
    intro p hp l hl
    obtain ⟨t, ht, e⟩ := pbcsOf_lits c p hp l hl
    have := hnb2 t ht
    omega
  have hnz : ∀ p ∈ pbcsOf c, ∀ l ∈ p.lits, l ≠ 0 := by
    intro p hp l hl
    have hn := hnorm p hp
    rcases p with ⟨lits, _ | ws, n⟩
    · exact (normal_none _ _).mp hn l hl
    · exact ((normal_some _ _ _).mp hn).1 l hl
  have M := hinv.mono nb hnb1 st.obj (st.constrs ++ pbcsOf c)
  have I := opbFront_inv (fun u => u ≠ 0 ∧ (u.natAbs : Int) ≤ nb)
    (fun k => k.normal = true ∧ 1 ≤ k.atLeast ∧ ∀ l ∈ k.lits, (l.natAbs : Int) ≤ nb)
    (pbcsOf c) { st with nbVars := nb, constrs := st.constrs ++ pbcsOf c } M.1 M.2
    (fun p hp => ⟨fun l hl => ⟨hnz p hp l hl, hbound p hp l hl⟩,
      fun h1 => ⟨hnorm p hp, h1, hbound p hp⟩⟩)
  unfold FInv
  rw [opbFront_nbVars]
  exact I

/-- **The front on a rendered file.** Whatever the layout, the state the scanner loop ends in
    satisfies `FInv`. -/
theorem front_render_inv (o : Opb) (lay : OpbLayout) (hwf : o.wf = true) (r : OpbState)
    (h : parseOpbLines (o.renderLines lay) = .ok r) : FInv r := by
  have hwf' : ∀ c ∈ o.constrs, c.wf = true := by
    unfold Opb.wf at hwf; rw [List.all_eq_true] at hwf; exact hwf
  refine opbLines_preserve FInv (o.renderLines lay) {} r ?_ ⟨by simp, by simp⟩ h
  intro l hl s s' hs hline
  rcases mem_renderLines o lay l hl with ⟨sk, rfl⟩ | ⟨ts, os, rfl⟩ | ⟨c, hc, os, rfl⟩
  · rw [opbLine_skip] at hline
    simp only [Except.ok.injEq] at hline
    subst hline; exact hs
  · obtain ⟨nb, heq, hnb⟩ := opbLine_objective_nb s ts os
    rw [heq] at hline
    simp only [Except.ok.injEq] at hline
    subst hline
    exact hs.mono nb hnb (some ts) s.constrs
  · exact FInv_constrLine s s' c os (hwf' c hc) hs hline

/-! ## `ParseOPB` on a rendered file -/

theorem normal_lits_ne (k : PBC) (hn : k.normal = true) : ∀ l ∈ k.lits, l ≠ 0 := by
  rcases k with ⟨lits, _ | ws, n⟩
  · exact (normal_none _ _).mp hn
  · exact ((normal_some _ _ _).mp hn).1

/-- Under `FInv` the tail neither panics nor leaves the modelled domain. -/
theorem tailOpb_ok (st : OpbState) (hinv : FInv st) : ∃ pb, tailOpb st = .ok pb := by
  have hany : st.kept.any (fun k => decide (k.atLeast < 1)) = false := by
    rw [List.any_eq_false]
    intro k hk
    have := (hinv.2 k hk).2.1
    simp only [decide_eq_true_eq]; omega
  have hunits : ∀ u ∈ st.units,
      u ≠ 0 ∧ varOf u < (List.replicate st.nbVars.toNat (0 : Int)).length := by
    intro u hu
    obtain ⟨h1, h2⟩ := hinv.1 u hu
    refine ⟨h1, ?_⟩
    simp only [List.length_replicate]; unfold varOf; omega
  have hrange : st.kept.all (fun k => litsInRange st.nbVars.toNat k.lits) = true := by
    rw [List.all_eq_true]
    intro k hk
    rw [litsInRange_iff]
    intro l hl
    obtain ⟨hn, _, hb⟩ := hinv.2 k hk
    exact ⟨normal_lits_ne k hn l hl, by have := hb l hl; omega⟩
  unfold tailOpb
  simp only [hany, Bool.false_eq_true, if_false, bindUnitsChk_ok _ _ hunits, hrange, Bool.not_true]
  cases bindUnits st.units (List.replicate st.nbVars.toNat 0) with
  | mk m b =>
    cases b
    · simp only; split <;> exact ⟨_, rfl⟩
    · exact ⟨_, rfl⟩

/-- **C13, OPB, end to end.** For every well-formed abstract OPB file `o` and every layout of its
    text, `solver.ParseOPB` succeeds (no error, no panic), stores `o`'s objective (same value
    under every assignment), answers `Unsat` only if `o` has no model, and otherwise returns
    units and PB constraints whose models are exactly the models of `o`. -/
theorem parseOpbFull_render (o : Opb) (lay : OpbLayout) (hwf : o.wf = true) :
    ∃ pb obj, parseOpbFull (o.renderLines lay) = .ok (pb, obj) ∧
      obj = o.objective ∧ (∀ a, cost (obj.getD []) a = o.cost a) ∧
      (pb.status = .unsat → ∀ a, o.sem a = false) ∧
      (pb.status ≠ .unsat → ∀ a, (o.sem a = true ↔ SemL a pb.units pb.clauses)) := by
  obtain ⟨r, hr, hobj, _, _, _, hfs, hcost⟩ := parseOpb_render o lay hwf
  have hinv := front_render_inv o lay hwf r hr
  obtain ⟨pb, ht⟩ := tailOpb_ok r hinv
  have E := tailOpb_equiv r pb (front_kept_wok _ r hr) ht
  refine ⟨pb, r.obj, ?_, hobj, hcost, ?_, ?_⟩
  · unfold parseOpbFull
    rw [hr]
    simp only [ht]
  · intro hs a; rw [← hfs a]; exact E.1 hs a
  · intro hs a; rw [← hfs a]; exact E.2 hs a

/-! ## Concrete texts -/

/-- what the harness compares: `Status`, `NbVars`, `Units`, `Clauses`, the objective -/
structure Summary where
  status : Status
  nbVars : Nat
  units : List Int
  clauses : List Cl
  obj : Option (List (Int × Int))
deriving DecidableEq, Repr

def summary (r : Except String (Pb × Option (List (Int × Int)))) : Option Summary :=
  match r with
  | .error _ => none
  | .ok (pb, obj) => some ⟨pb.status, pb.nbVars, pb.units, pb.clauses, obj⟩

def failure (r : Except String (Pb × Option (List (Int × Int)))) : Option String :=
  match r with
  | .error e => some e
  | .ok _ => none

/-- `+2 x1 +2 x2 +1 x3 +1 x4 = 1 ;` — `Eq` gives `2 x1 + 2 x2 + x3 + x4 ≥ 1` and
    `2 ~x1 + 2 ~x2 + ~x3 + ~x4 ≥ 5`; `simplifyPB` forces `~x1`, `~x2` from the second one and
    leaves `x4 + x3 ≥ 1` and `~x4 + ~x3 ≥ 1` (`removeLit` moved the last term forward). -/
example :
    summary (parseOpbFull [[.int 2, .word "x1", .int 2, .word "x2", .int 1, .word "x3", .int 1, .word "x4",
        .word "=", .int 1, .word ";"]]) =
      some ⟨.indet, 4, [-1, -2], [⟨[4, 3], some [1, 1], 1⟩, ⟨[-4, -3], some [1, 1], 1⟩], none⟩ := by
  decide

/-- `* two units` / `1 x1 >= 1 ;` / `1 ~x1 1 x2 >= 2 ;` — refuted by the unit loop (`x1`, `~x1`). -/
example :
    summary (parseOpbFull [[.word "*", .word "two", .word "units"],
        [.int 1, .word "x1", .word ">=", .int 1, .word ";"],
        [.int 1, .word "~x1", .int 1, .word "x2", .word ">=", .int 2, .word ";"]]) =
      some ⟨.unsat, 2, [1, -1, 2], [], none⟩ := by
  decide

/-- `min: 1 x1 -2 ~x2 x3 ;` / empty line / `3 x1 2 x2 1 x3 >= 4 ;` — the objective is stored as
    written (negative weight, omitted coefficient), `x1` is forced, `x3 + 2 x2 ≥ 1` remains. -/
example :
    summary (parseOpbFull [[.word "min:", .int 1, .word "x1", .int (-2), .word "~x2", .word "x3", .word ";"], [],
        [.int 3, .word "x1", .int 2, .word "x2", .int 1, .word "x3", .word ">=", .int 4, .word ";"]]) =
      some ⟨.indet, 3, [1], [⟨[3, 2], some [1, 2], 1⟩], some [(1, 1), (-2, -2), (1, 3)]⟩ := by
  decide

/-- `1 x1 >= 2 ;` / `3 x1 1 x2 1 x3 >= 4 ;` — the first line sets `Unsat`, the second is still
    read; `simplifyPB`, entered with `Status == Unsat`, appends the unit `x1` and returns
    (`simplifyPBU`; Go answers the same: `Status = Unsat`, `Units = [x1]`). -/
example :
    (summary (parseOpbFull [[.int 1, .word "x1", .word ">=", .int 2, .word ";"],
        [.int 3, .word "x1", .int 1, .word "x2", .int 1, .word "x3", .word ">=", .int 4, .word ";"]])).map
      (fun r => (r.status, r.nbVars, r.units)) = some (.unsat, 3, [1]) := by
  decide

/-- `x0 >= 1 ;` — the null literal becomes a unit and `pb.Model[-1]` panics in the unit loop;
    after two conflicting units the loop returns before it gets there. -/
example : failure (parseOpbFull [[.word "x0", .word ">=", .int 1, .word ";"]]) =
    some "panic: index out of range" := by
  decide

example :
    summary (parseOpbFull [[.int 1, .word "x1", .word ">=", .int 1, .word ";"],
        [.int 1, .word "~x1", .word ">=", .int 1, .word ";"],
        [.int 1, .word "x0", .word ">=", .int 1, .word ";"]]) = some ⟨.unsat, 1, [1, -1, 0], [], none⟩ := by
  decide

/-- the hypotheses of `parseOpbFull_equiv` / `parseOpbFull_render` on a concrete file: it is
    well-formed, its rendering is the text of the third example (with a comment line), the front
    parses it and keeps a constraint in normal form -/
example :
    let o : Opb := ⟨some [(1, 1), (-2, -2), (1, 3)], [⟨[(3, 1), (2, 2), (1, 3)], .ge, 4⟩]⟩
    let lay : OpbLayout := { objective := { omits := [false, false, true] },
                             constrs := [{ skips := [none, some [.word "c"]] }] }
    o.wf = true ∧
    o.renderLines lay =
      [[.word "min:", .int 1, .word "x1", .int (-2), .word "~x2", .word "x3", .word ";"], [],
       [.word "*", .word "c"],
       [.int 3, .word "x1", .int 2, .word "x2", .int 1, .word "x3", .word ">=", .int 4, .word ";"]] ∧
    (match parseOpbLines (o.renderLines lay) with
     | .ok st => st.kept.all (·.normal) && st.kept == [⟨[1, 2, 3], some [3, 2, 1], 4⟩]
     | .error _ => false) = true := by
  refine ⟨by decide, by decide, by decide⟩

#print axioms front_kept_wok
#print axioms tailOpb_equiv
#print axioms tailOpb_nbVars
#print axioms parseOpbFull_equiv
#print axioms front_render_inv
#print axioms parseOpbFull_render

end GS.OpbFull
