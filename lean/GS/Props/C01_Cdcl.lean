import GS.Model.Cdcl
/-!
# C01 / C06 / C09 / C10 — every accepted run of the abstract CDCL machine is sound

`GS.Model.Cdcl` replays the event list of a run of `solver.Solver` (learned clauses, deletions,
`AppendClause`, `Assume`, verdicts).  Here it is proved, for **every** formula and **every**
event list — hence for every choice of decisions, restarts and clause deletions at once —
that an accepted replay means:

* `cdcl_learned_entailed`  every learned clause follows from the base alone (never from the
                           assumptions), and the base is the input plus the appended clauses;
* `cdcl_sat_sound`         an accepted `Sat` answer is a total model of the base *as written*
                           and of the current assumptions (C01, C09, C10);
* `cdcl_unsat_sound`       an accepted `Unsat` answer means base ∧ current assumptions has no
                           model (C01, C06, C09, C10) — for the assumptions of that round only;
* `cdcl_unsat_monotone`    after an `Unsat` answer without assumptions no later `Sat` answer
                           can be accepted, whatever happens in between (C09);
* `cdcl_append_equals_scratch` appending `c₁ … c_k` to a live solver yields exactly the initial
                           state of a solver built from `F ++ [c₁ … c_k]` (C09);
* `cert_flag_irrelevant`   the certificate is a projection of the event list: producing it or
                           not does not change the run (C01/C06).
-/
namespace GS.Cdcl
open GS

/-! ### small facts about the specification vocabulary -/

theorem cnfTrue_append (a : Asg) (f g : List (List Int)) :
    cnfTrue a (f ++ g) = (cnfTrue a f && cnfTrue a g) := by
  unfold cnfTrue; exact List.all_append

theorem cnfTrue_iff (a : Asg) (f : List (List Int)) :
    cnfTrue a f = true ↔ ∀ c ∈ f, clauseTrue a c = true := by
  unfold cnfTrue; exact List.all_eq_true

theorem entails_append_right (f g : List (List Int)) (c : List Int) (h : CnfEntails f c) :
    CnfEntails (f ++ g) c := by
  intro a ha
  rw [cnfTrue_append, Bool.and_eq_true] at ha
  exact h a ha.1

theorem cnfTrue_units (a : Asg) (ls : List Int) :
    cnfTrue a (units ls) = true ↔ ∀ l ∈ ls, litTrue a l = true := by
  rw [cnfTrue_iff]
  unfold units
  constructor
  · intro h l hl
    have := h [l] (List.mem_map.2 ⟨l, hl, rfl⟩)
    simpa [clauseTrue] using this
  · intro h c hc
    obtain ⟨l, hl, rfl⟩ := List.mem_map.1 hc
    simpa [clauseTrue] using h l hl

theorem mem_dropNth {α} (xs : List α) (i : Nat) (x : α) (h : x ∈ dropNth xs i) : x ∈ xs := by
  unfold dropNth at h
  rcases List.mem_append.1 h with h | h
  · exact List.mem_of_mem_take h
  · exact List.mem_of_mem_drop h

theorem clauseMaxVar_le (c : List Int) : ∀ l ∈ c, l.natAbs ≤ clauseMaxVar c := by
  induction c with
  | nil => intro l hl; cases hl
  | cons x xs ih =>
    intro l hl
    have hc : clauseMaxVar (x :: xs) = max x.natAbs (clauseMaxVar xs) := rfl
    rw [hc]
    rcases List.mem_cons.1 hl with rfl | hl
    · exact Nat.le_max_left _ _
    · exact Nat.le_trans (ih l hl) (Nat.le_max_right _ _)

theorem cnfMaxVar_append (f g : List (List Int)) :
    cnfMaxVar (f ++ g) = max (cnfMaxVar f) (cnfMaxVar g) := by
  induction f with
  | nil => simp [cnfMaxVar]
  | cons c f ih =>
    have h1 : cnfMaxVar (c :: f ++ g) = max (clauseMaxVar c) (cnfMaxVar (f ++ g)) := rfl
    have h2 : cnfMaxVar (c :: f) = max (clauseMaxVar c) (cnfMaxVar f) := rfl
    rw [h1, h2, ih, Nat.max_assoc]

theorem cnfMaxVar_single (c : List Int) : cnfMaxVar [c] = clauseMaxVar c := by
  simp [cnfMaxVar]

theorem cnfMaxVar_le (f : List (List Int)) : ∀ c ∈ f, ∀ l ∈ c, l.natAbs ≤ cnfMaxVar f := by
  induction f with
  | nil => intro c hc; cases hc
  | cons d f ih =>
    intro c hc l hl
    have h2 : cnfMaxVar (d :: f) = max (clauseMaxVar d) (cnfMaxVar f) := rfl
    rw [h2]
    rcases List.mem_cons.1 hc with rfl | hc
    · exact Nat.le_trans (clauseMaxVar_le c l hl) (Nat.le_max_left _ _)
    · exact Nat.le_trans (ih c hc l hl) (Nat.le_max_right _ _)

/-! ### the invariant -/

/-- **The invariant**: every learned clause is a consequence of the base *alone*. -/
def Inv (s : St) : Prop := ∀ c ∈ s.learned, CnfEntails s.base c

/-- ghost invariant: the flag `unsatSeen` is only set when the base has no model at all -/
def Ghost (s : St) : Prop := s.unsatSeen = true → ¬ CnfSat s.base

/-- under `Inv`, a model of the base is a model of the whole database -/
theorem db_true (s : St) (hi : Inv s) (a : Asg) (ha : cnfTrue a s.base = true) :
    cnfTrue a s.db = true := by
  unfold St.db
  rw [cnfTrue_append, Bool.and_eq_true]
  refine ⟨?_, ha⟩
  rw [cnfTrue_iff]
  intro c hc
  exact hi c hc a ha

/-- what the guard of `learn` establishes -/
theorem learnOk_entails (s : St) (hi : Inv s) (c : List Int) (h : learnOk s c = true) :
    CnfEntails s.base c := by
  intro a ha
  exact rupLine_sound s.n s.db c h a (db_true s hi a ha)

/-- what the guard of `answerUnsat` establishes -/
theorem unsatOk_sound (s : St) (hi : Inv s) (h : unsatOk s = true) :
    ¬ ∃ a, cnfTrue a s.base = true ∧ ∀ l ∈ s.assumptions, litTrue a l = true := by
  rintro ⟨a, hb, hl⟩
  apply upRefute_sound s.n _ h
  refine ⟨a, ?_⟩
  rw [cnfTrue_append, Bool.and_eq_true]
  exact ⟨(cnfTrue_units a s.assumptions).2 hl, db_true s hi a hb⟩

/-- what the guard of `answerSat` says -/
theorem satOk_iff (s : St) (m : List Bool) :
    satOk s m = true ↔
      m.length = s.n ∧ (∀ c ∈ s.base, clauseTrue (asgOf m) c = true) ∧
        (∀ l ∈ s.assumptions, litTrue (asgOf m) l = true) := by
  unfold satOk
  simp only [Bool.and_eq_true, beq_iff_eq, cnfTrue_iff, List.all_eq_true]
  constructor
  · rintro ⟨⟨h1, h2⟩, h3⟩; exact ⟨h1, h2, h3⟩
  · rintro ⟨h1, h2, h3⟩; exact ⟨⟨h1, h2⟩, h3⟩

/-! ### one step -/

/-- how one accepted event changes base, assumptions and `n` -/
theorem apply_fields (s s' : St) (e : Ev) (h : apply s e = some s') :
    s'.base = s.base ++ appended [e] ∧ s'.assumptions = lastAssumed s.assumptions [e] ∧
      s'.n = max s.n (cnfMaxVar (appended [e])) := by
  cases e with
  | learn c =>
    simp only [apply] at h; split at h
    · cases h; simp [appended, lastAssumed, cnfMaxVar]
    · cases h
  | forget i =>
    simp only [apply] at h; split at h
    · cases h; simp [appended, lastAssumed, cnfMaxVar]
    · cases h
  | append c =>
    simp only [apply] at h; cases h
    simp [appended, lastAssumed, cnfMaxVar]
  | assume ls =>
    simp only [apply] at h; split at h
    · cases h; simp [appended, lastAssumed, cnfMaxVar]
    · cases h
  | answerSat m =>
    simp only [apply] at h; split at h
    · cases h; simp [appended, lastAssumed, cnfMaxVar]
    · cases h
  | answerUnsat =>
    simp only [apply] at h; split at h
    · cases h; simp [appended, lastAssumed, cnfMaxVar]
    · cases h

theorem apply_inv (s s' : St) (e : Ev) (hi : Inv s) (h : apply s e = some s') : Inv s' := by
  cases e with
  | learn c =>
    simp only [apply] at h; split at h
    · rename_i hg
      cases h
      intro d hd
      rcases List.mem_append.1 hd with hd | hd
      · exact hi d hd
      · have : d = c := by simpa using hd
        subst this
        exact learnOk_entails s hi d hg
    · cases h
  | forget i =>
    simp only [apply] at h; split at h
    · cases h
      intro d hd
      exact hi d (mem_dropNth s.learned i d hd)
    · cases h
  | append c =>
    simp only [apply] at h; cases h
    intro d hd
    exact entails_append_right s.base [c] d (hi d hd)
  | assume ls =>
    simp only [apply] at h; split at h
    · cases h; exact hi
    · cases h
  | answerSat m =>
    simp only [apply] at h; split at h
    · cases h; exact hi
    · cases h
  | answerUnsat =>
    simp only [apply] at h; split at h
    · cases h; exact hi
    · cases h

theorem not_sat_append (f g : List (List Int)) (h : ¬ CnfSat f) : ¬ CnfSat (f ++ g) := by
  rintro ⟨a, ha⟩
  rw [cnfTrue_append, Bool.and_eq_true] at ha
  exact h ⟨a, ha.1⟩

theorem apply_ghost (s s' : St) (e : Ev) (hi : Inv s) (hg : Ghost s) (h : apply s e = some s') :
    Ghost s' := by
  cases e with
  | learn c =>
    simp only [apply] at h; split at h
    · cases h; exact hg
    · cases h
  | forget i =>
    simp only [apply] at h; split at h
    · cases h; exact hg
    · cases h
  | append c =>
    simp only [apply] at h; cases h
    intro hu
    exact not_sat_append s.base [c] (hg hu)
  | assume ls =>
    simp only [apply] at h; split at h
    · cases h; exact hg
    · cases h
  | answerSat m =>
    simp only [apply] at h; split at h
    · cases h; exact hg
    · cases h
  | answerUnsat =>
    simp only [apply] at h; split at h
    · rename_i hu
      cases h
      intro hf
      simp only [Bool.or_eq_true, List.isEmpty_iff] at hf
      rcases hf with hf | hf
      · exact hg hf
      · rintro ⟨a, ha⟩
        exact unsatOk_sound s hi hu ⟨a, ha, by rw [hf]; intro l hl; cases hl⟩
    · cases h

/-! ### runs -/

theorem run_cons (s : St) (e : Ev) (es : List Ev) :
    run s (e :: es) = (apply s e).bind (fun s' => run s' es) := by
  cases h : apply s e <;> simp [run, h]

theorem run_append (s : St) (es₁ es₂ : List Ev) :
    run s (es₁ ++ es₂) = (run s es₁).bind (fun s' => run s' es₂) := by
  induction es₁ generalizing s with
  | nil => simp [run]
  | cons e es ih =>
    rw [List.cons_append, run_cons, run_cons]
    cases h : apply s e with
    | none => simp
    | some s' => simp [ih]

theorem run_single (s : St) (e : Ev) : run s [e] = apply s e := by
  cases h : apply s e <;> simp [run, h]

theorem appended_append (es₁ es₂ : List Ev) : appended (es₁ ++ es₂) = appended es₁ ++ appended es₂ := by
  induction es₁ with
  | nil => rfl
  | cons e es ih => cases e <;> simp [appended, ih]

theorem lastAssumed_append (as : List Int) (es₁ es₂ : List Ev) :
    lastAssumed as (es₁ ++ es₂) = lastAssumed (lastAssumed as es₁) es₂ := by
  induction es₁ generalizing as with
  | nil => rfl
  | cons e es ih => cases e <;> simp [lastAssumed, ih]

theorem run_inv (s s' : St) (evs : List Ev) (hi : Inv s) (hg : Ghost s) (h : run s evs = some s') :
    Inv s' ∧ Ghost s' := by
  induction evs generalizing s with
  | nil => simp only [run] at h; cases h; exact ⟨hi, hg⟩
  | cons e es ih =>
    rw [run_cons] at h
    cases ha : apply s e with
    | none => rw [ha] at h; cases h
    | some s₁ =>
      rw [ha] at h
      exact ih s₁ (apply_inv s s₁ e hi ha) (apply_ghost s s₁ e hi hg ha) h

theorem run_fields (s s' : St) (evs : List Ev) (h : run s evs = some s') :
    s'.base = s.base ++ appended evs ∧ s'.assumptions = lastAssumed s.assumptions evs ∧
      s'.n = max s.n (cnfMaxVar (appended evs)) := by
  induction evs generalizing s with
  | nil => simp only [run] at h; cases h; simp [appended, lastAssumed, cnfMaxVar]
  | cons e es ih =>
    rw [run_cons] at h
    cases ha : apply s e with
    | none => rw [ha] at h; cases h
    | some s₁ =>
      rw [ha] at h
      obtain ⟨h1, h2, h3⟩ := ih s₁ h
      obtain ⟨g1, g2, g3⟩ := apply_fields s s₁ e ha
      have e1 : appended (e :: es) = appended [e] ++ appended es := appended_append [e] es
      have e2 : lastAssumed s.assumptions (e :: es) = lastAssumed (lastAssumed s.assumptions [e]) es :=
        lastAssumed_append s.assumptions [e] es
      refine ⟨?_, ?_, ?_⟩
      · rw [h1, g1, e1, List.append_assoc]
      · rw [h2, g2, e2]
      · rw [h3, g3, e1, cnfMaxVar_append, Nat.max_assoc]

theorem inv_init (n : Nat) (F : List (List Int)) : Inv (init n F) ∧ Ghost (init n F) := by
  constructor
  · intro c hc; cases hc
  · intro h; cases h

/-- everything known about a reachable state -/
theorem reach (n : Nat) (F : List (List Int)) (evs : List Ev) (s : St)
    (h : run (init n F) evs = some s) :
    Inv s ∧ Ghost s ∧ s.base = F ++ appended evs ∧ s.assumptions = lastAssumed [] evs ∧
      s.n = max n (cnfMaxVar (F ++ appended evs)) := by
  obtain ⟨hi, hg⟩ := run_inv _ s evs (inv_init n F).1 (inv_init n F).2 h
  obtain ⟨h1, h2, h3⟩ := run_fields _ s evs h
  refine ⟨hi, hg, h1, h2, ?_⟩
  rw [h3, cnfMaxVar_append]
  show max (max n (cnfMaxVar F)) _ = _
  rw [Nat.max_assoc]

/-! ## Main theorems -/

/-- **Learned clauses never depend on assumptions** (C01, C06, C10): in every reachable state,
    whatever mixture of `learn`/`forget`/`append`/`assume`/verdict events led to it, every
    learned clause is entailed by the base alone, and the base is the input followed by the
    appended clauses in order. -/
theorem cdcl_learned_entailed (n : Nat) (F : List (List Int)) (evs : List Ev) (s : St)
    (h : run (init n F) evs = some s) :
    (∀ c ∈ s.learned, CnfEntails s.base c) ∧ s.base = F ++ appended evs := by
  obtain ⟨hi, _, hb, _, _⟩ := reach n F evs s h
  exact ⟨hi, hb⟩

/-- **Sat answers** (C01, C09, C10): if `answerSat m` is accepted after the history `evs`, then
    `m` has exactly one value per declared variable, every variable of the base is declared,
    `m` satisfies every clause of input-plus-appended **as written**, and every assumption of
    the current round. -/
theorem cdcl_sat_sound (n : Nat) (F : List (List Int)) (evs : List Ev) (m : List Bool) (s : St)
    (h : run (init n F) (evs ++ [Ev.answerSat m]) = some s) :
    m.length = max n (cnfMaxVar (F ++ appended evs)) ∧
    (∀ c ∈ F ++ appended evs, ∀ l ∈ c, l.natAbs ≤ m.length) ∧
    (∀ c ∈ F ++ appended evs, clauseTrue (asgOf m) c = true) ∧
    (∀ l ∈ lastAssumed [] evs, litTrue (asgOf m) l = true) := by
  rw [run_append] at h
  cases h1 : run (init n F) evs with
  | none => rw [h1] at h; cases h
  | some s₁ =>
    rw [h1] at h
    simp only [Option.bind_some, run_single, apply] at h
    split at h
    · rename_i hs
      obtain ⟨_, _, hb, has, hn⟩ := reach n F evs s₁ h1
      obtain ⟨g1, g2, g3⟩ := (satOk_iff s₁ m).1 hs
      rw [hb] at g2; rw [has] at g3; rw [hn] at g1
      refine ⟨g1, ?_, g2, g3⟩
      intro c hc l hl
      rw [g1]
      exact Nat.le_trans (cnfMaxVar_le _ c hc l hl) (Nat.le_max_right _ _)
    · cases h

/-- state form of `cdcl_sat_sound` -/
theorem cdcl_sat_sound_state (n : Nat) (F : List (List Int)) (evs : List Ev) (m : List Bool) (s s' : St)
    (h : run (init n F) evs = some s) (ha : apply s (Ev.answerSat m) = some s') :
    m.length = s.n ∧ (∀ c ∈ s.base, clauseTrue (asgOf m) c = true) ∧
      (∀ l ∈ s.assumptions, litTrue (asgOf m) l = true) ∧ s.base = F ++ appended evs := by
  simp only [apply] at ha
  split at ha
  · rename_i hs
    obtain ⟨g1, g2, g3⟩ := (satOk_iff s m).1 hs
    exact ⟨g1, g2, g3, (reach n F evs s h).2.2.1⟩
  · cases ha

/-- **Unsat answers** (C01, C06, C09, C10): if `answerUnsat` is accepted after the history
    `evs`, no assignment satisfies input-plus-appended together with the assumptions of the
    current round (the last `assume` event; none if there was no such event). -/
theorem cdcl_unsat_sound (n : Nat) (F : List (List Int)) (evs : List Ev) (s : St)
    (h : run (init n F) (evs ++ [Ev.answerUnsat]) = some s) :
    ¬ ∃ a, cnfTrue a (F ++ appended evs) = true ∧ ∀ l ∈ lastAssumed [] evs, litTrue a l = true := by
  rw [run_append] at h
  cases h1 : run (init n F) evs with
  | none => rw [h1] at h; cases h
  | some s₁ =>
    rw [h1] at h
    simp only [Option.bind_some, run_single, apply] at h
    split at h
    · rename_i hu
      obtain ⟨hi, _, hb, has, _⟩ := reach n F evs s₁ h1
      have := unsatOk_sound s₁ hi hu
      rw [hb, has] at this
      exact this
    · cases h

/-- state form of `cdcl_unsat_sound` -/
theorem cdcl_unsat_sound_state (n : Nat) (F : List (List Int)) (evs : List Ev) (s s' : St)
    (h : run (init n F) evs = some s) (ha : apply s Ev.answerUnsat = some s') :
    (¬ ∃ a, cnfTrue a s.base = true ∧ ∀ l ∈ s.assumptions, litTrue a l = true) ∧
      s.base = F ++ appended evs := by
  simp only [apply] at ha
  split at ha
  · rename_i hu
    obtain ⟨hi, _, hb, _, _⟩ := reach n F evs s h
    exact ⟨unsatOk_sound s hi hu, hb⟩
  · cases ha

/-- without assumptions an accepted `Unsat` answer means the formula is unsatisfiable -/
theorem cdcl_unsat_sound_plain (n : Nat) (F : List (List Int)) (evs : List Ev) (s : St)
    (hno : lastAssumed [] evs = [])
    (h : run (init n F) (evs ++ [Ev.answerUnsat]) = some s) : ¬ CnfSat (F ++ appended evs) := by
  rintro ⟨a, ha⟩
  exact cdcl_unsat_sound n F evs s h ⟨a, ha, by rw [hno]; intro l hl; cases hl⟩

/-- **Unsat is final** (C09): once `answerUnsat` was accepted while no assumption was in force,
    no later `answerSat` can be accepted — after any further events at all (`append`, `learn`,
    `forget`, and even `assume` and other verdicts): the base only grows. -/
theorem cdcl_unsat_monotone (n : Nat) (F : List (List Int)) (evs₁ evs₂ : List Ev) (m : List Bool)
    (hno : lastAssumed [] evs₁ = []) :
    run (init n F) (evs₁ ++ Ev.answerUnsat :: evs₂ ++ [Ev.answerSat m]) = none := by
  cases hr : run (init n F) (evs₁ ++ Ev.answerUnsat :: evs₂ ++ [Ev.answerSat m]) with
  | none => rfl
  | some s =>
    exfalso
    have e : evs₁ ++ Ev.answerUnsat :: evs₂ ++ [Ev.answerSat m]
        = (evs₁ ++ [Ev.answerUnsat]) ++ (evs₂ ++ [Ev.answerSat m]) := by simp
    rw [e, run_append] at hr
    cases h1 : run (init n F) (evs₁ ++ [Ev.answerUnsat]) with
    | none => rw [h1] at hr; cases hr
    | some s₁ =>
      rw [h1] at hr
      simp only [Option.bind_some] at hr
      have hu := cdcl_unsat_sound_plain n F evs₁ s₁ hno h1
      have hs := cdcl_sat_sound n F ((evs₁ ++ [Ev.answerUnsat]) ++ evs₂) m s (by
        rw [List.append_assoc, run_append, h1]; exact hr)
      apply hu
      refine ⟨asgOf m, ?_⟩
      rw [cnfTrue_iff]
      intro c hc
      apply hs.2.2.1 c
      rw [appended_append, appended_append]
      rcases List.mem_append.1 hc with hc | hc
      · exact List.mem_append_left _ hc
      · exact List.mem_append_right _ (List.mem_append_left _ (List.mem_append_left _ hc))

/-- the ghost flag of the machine is a faithful record: when it is set, the base is unsatisfiable,
    so the guard of `answerSat` must fail -/
theorem cdcl_unsatSeen_blocks_sat (n : Nat) (F : List (List Int)) (evs : List Ev) (s : St)
    (h : run (init n F) evs = some s) (hu : s.unsatSeen = true) (m : List Bool) :
    apply s (Ev.answerSat m) = none := by
  obtain ⟨_, hg, _⟩ := reach n F evs s h
  simp only [apply]
  split
  · rename_i hs
    exfalso
    apply hg hu
    exact ⟨asgOf m, (cnfTrue_iff _ _).2 ((satOk_iff s m).1 hs).2.1⟩
  · rfl

/-- **Appending equals solving from scratch** (C09): replaying `append c₁ … append c_k` on the
    initial state for `F` is always accepted and yields *exactly* the initial state for
    `F ++ [c₁ … c_k]` (same base in the same order, same number of variables, nothing learned). -/
theorem cdcl_append_equals_scratch (n : Nat) (F cs : List (List Int)) :
    run (init n F) (cs.map Ev.append) = some (init n (F ++ cs)) := by
  induction cs generalizing F with
  | nil => simp [run]
  | cons c cs ih =>
    have hstep : apply (init n F) (Ev.append c) = some (init n (F ++ [c])) := by
      simp only [apply, init, cnfMaxVar_append, cnfMaxVar_single, Nat.max_assoc]
    rw [List.map_cons, run_cons, hstep, Option.bind_some, ih (F ++ [c]), List.append_assoc]
    rfl

/-- … and in general (C09, C10): after *any* accepted history the guard of `answerSat` is
    literally the guard a fresh solver for input-plus-appended would apply under the same
    assumptions; the soundness theorems above therefore speak about the conjunction of
    everything added so far. -/
theorem cdcl_sat_guard_as_scratch (n : Nat) (F : List (List Int)) (evs : List Ev) (s : St)
    (h : run (init n F) evs = some s) (m : List Bool) :
    satOk s m = satOk { init n (F ++ appended evs) with assumptions := lastAssumed [] evs } m := by
  obtain ⟨_, _, hb, has, hn⟩ := reach n F evs s h
  unfold satOk
  rw [hb, has, hn]
  rfl

/-- completeness direction of the same fact: whatever the history, a total model of
    input-plus-appended and of the current assumptions is accepted -/
theorem cdcl_sat_accepts (n : Nat) (F : List (List Int)) (evs : List Ev) (s : St)
    (h : run (init n F) evs = some s) (m : List Bool)
    (hl : m.length = max n (cnfMaxVar (F ++ appended evs)))
    (hm : cnfTrue (asgOf m) (F ++ appended evs) = true)
    (ha : ∀ l ∈ lastAssumed [] evs, litTrue (asgOf m) l = true) :
    apply s (Ev.answerSat m) = some s := by
  obtain ⟨_, _, hb, has, hn⟩ := reach n F evs s h
  have : satOk s m = true := by
    rw [satOk_iff, hb, has, hn]
    exact ⟨hl, (cnfTrue_iff _ _).1 hm, ha⟩
  simp [apply, this]

/-- **The certificate flag is irrelevant** (C01/C06): the machine has no certificate component;
    the certificate text is a projection of the event list, and running with or without
    producing it reaches the same state and accepts the same event lists. -/
theorem cert_flag_irrelevant (cert : Bool) (s : St) (evs : List Ev) (out : List (List Int)) :
    (runOut cert s evs out).map Prod.fst = run s evs := by
  induction evs generalizing s out with
  | nil => simp [runOut, run]
  | cons e es ih =>
    simp only [runOut, run]
    cases apply s e with
    | none => rfl
    | some s' => exact ih s' _

/-- what is produced when the flag is on: the `learn` clauses in order and the empty clause at
    each `answerUnsat`; nothing when it is off -/
theorem runOut_output (cert : Bool) (s : St) (evs : List Ev) (out : List (List Int)) :
    (runOut cert s evs out).map Prod.snd =
      (run s evs).map (fun _ => if cert then out ++ evs.filterMap certLine else out) := by
  induction evs generalizing s out with
  | nil => cases cert <;> simp [runOut, run]
  | cons e es ih =>
    simp only [runOut, run]
    cases apply s e with
    | none => rfl
    | some s' =>
      simp only
      rw [ih s']
      cases cert
      · simp
      · cases hc : certLine e <;> simp [hc]

theorem cert_on_off_same (s : St) (evs : List Ev) :
    (runOut true s evs []).map Prod.fst = (runOut false s evs []).map Prod.fst := by
  rw [cert_flag_irrelevant, cert_flag_irrelevant]

/-- what the driver op `cdcl` answers: `ok` (no rejected event) exactly when `run` accepts -/
theorem firstRejected_none_iff (s : St) (evs : List Ev) (i : Nat) :
    firstRejected s evs i = none ↔ (run s evs).isSome = true := by
  induction evs generalizing s i with
  | nil => simp [firstRejected, run]
  | cons e es ih =>
    simp only [firstRejected, run]
    cases apply s e with
    | none => simp
    | some s' => exact ih s' (i + 1)

/-- and when it answers `rejected k`, the first `k` events are accepted and the next one is not -/
theorem firstRejected_some (s : St) (evs : List Ev) (i k : Nat) (h : firstRejected s evs i = some k) :
    i ≤ k ∧ ∃ s', run s (evs.take (k - i)) = some s' ∧ ∃ e, evs[k - i]? = some e ∧ apply s' e = none := by
  induction evs generalizing s i with
  | nil => simp [firstRejected] at h
  | cons e es ih =>
    simp only [firstRejected] at h
    cases ha : apply s e with
    | none =>
      rw [ha] at h
      simp only [Option.some.injEq] at h
      subst h
      exact ⟨Nat.le_refl _, s, by simp [run], e, by simp, ha⟩
    | some s₁ =>
      rw [ha] at h
      obtain ⟨hle, s', hr, e', he', hn⟩ := ih s₁ (i + 1) h
      have hk : k - i = (k - (i + 1)) + 1 := by omega
      refine ⟨by omega, s', ?_, e', ?_, hn⟩
      · rw [hk, List.take_succ_cons, run_cons, ha]; exact hr
      · rw [hk, List.getElem?_cons_succ]; exact he'

/-! ## Non-vacuity: concrete traces through the executable machine -/

/-- all eight clauses over three variables -/
def ex8 : List (List Int) :=
  [[1, 2, 3], [1, 2, -3], [1, -2, 3], [1, -2, -3], [-1, 2, 3], [-1, 2, -3], [-1, -2, 3], [-1, -2, -3]]

/-- a refutation with learning and deletion -/
def exTrace : List Ev := [.learn [1, 2], .learn [1], .forget 0, .learn [2], .answerUnsat]

example : (run (init 3 ex8) exTrace).isSome = true := by decide
example : (run (init 3 ex8) exTrace).map (·.learned) = some [[1], [2]] := by decide
example : (run (init 3 ex8) exTrace).map (·.unsatSeen) = some true := by decide
-- unit propagation alone does not refute it: the learn events are needed
example : firstRejected (init 3 ex8) [.answerUnsat] 0 = some 0 := by decide
-- a clause that is not RUP is rejected
example : firstRejected (init 3 ex8) [.learn [1, 2], .learn [3]] 0 = some 1 := by decide
-- hypotheses of `cdcl_unsat_sound` / `cdcl_unsat_monotone`
example : (run (init 3 ex8) ([.learn [1, 2], .learn [1], .forget 0, .learn [2]] ++ [Ev.answerUnsat])).isSome = true := by
  decide
example : lastAssumed [] [.learn [1, 2], .learn [1], .forget 0, .learn [2]] = [] := by decide
-- hypotheses of `cdcl_sat_sound`: append, then a model of everything added so far
example : (run (init 2 [[1, 2]]) ([.append [-1, 3], .append [-2]] ++ [Ev.answerSat [true, false, true]])).isSome = true := by
  decide
-- a model of the old base only is rejected after the append
example : firstRejected (init 2 [[1, 2]]) [.answerSat [false, true], .append [-2], .answerSat [false, true]] 0 = some 2 := by
  decide
-- C10: Unsat under an assumption, Sat once it is dropped; the clause learned in the first
-- round is still in the database in the second
example : (run (init 2 [[1, 2], [-1, 2]]) [.assume [-2], .answerUnsat, .assume [], .learn [2], .assume [-1],
    .answerSat [false, true]]).isSome = true := by decide
example : (run (init 2 [[1, 2], [-1, 2]]) [.assume [-2], .answerUnsat]).map (·.unsatSeen) = some false := by decide
-- a clause that only follows under the assumption is *not* accepted as learned
example : firstRejected (init 2 [[1, 2]]) [.assume [-1], .learn [2]] 0 = some 1 := by decide
-- an assumption the model violates is rejected
example : firstRejected (init 2 [[1, 2]]) [.assume [-1], .answerSat [true, false]] 0 = some 1 := by decide
-- C09: hypotheses of `cdcl_append_equals_scratch` (none) on a concrete instance
example : run (init 1 [[1]]) ([[2, -3], [-1]].map Ev.append) = some (init 1 [[1], [2, -3], [-1]]) := by decide
-- the certificate projection
example : (runOut true (init 3 ex8) exTrace []).map Prod.snd = some [[1, 2], [1], [2], []] := by decide
example : (runOut false (init 3 ex8) exTrace []).map Prod.snd = some [] := by decide

end GS.Cdcl
